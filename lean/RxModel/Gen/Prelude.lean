import RxModel.Core.Notif
/-
  Semantic vocabulary of the GENERATED observer models (`RxModel/Gen/*.lean`, written by `/verif/rs2lean`
  from `/repo/src` on every check run).  A generated function is a `do` block in the `Option` monad:
  `none` = the Rust code would panic (`unwrap()` of `None`, `usize` underflow, loop fuel exhausted).
  Everything here is part of the trusted reading of Rust: each definition names the std operation it
  stands for.  Core Lean only.
-/
namespace Rx.Rs

/-- The downstream observer `O`: a token, calls on it are recorded in the output list. -/
structure Obs where
  deriving DecidableEq, Repr, Inhabited

/-- A user callback without result held as a value (`F: FnOnce()`); `id` names it in the output. -/
structure Callback where
  id : Nat
  deriving DecidableEq, Repr, Inhabited

/-- A nested subscription (`U: Subscription`); `id` names it in the output and in `closedOf`. -/
structure Sub where
  id : Nat
  deriving DecidableEq, Repr, Inhabited

/-- A boxed subscriber of a subject (`Box<dyn Publisher<..>>`); `id` names it in the output and in `closedOf`. -/
structure Pub where
  id : Nat
  deriving DecidableEq, Repr, Inhabited

/-- The subject of one group of group_by; `id` names it in the output. -/
structure Grp where
  id : Nat
  deriving DecidableEq, Repr, Inhabited

/-- An inner observable handed to a flattening operator; `id` names it in the output. -/
structure Inner where
  id : Nat
  deriving DecidableEq, Repr, Inhabited

/-- A stored closure (`Box<dyn FnOnce()>`) that subscribes inner observable `id` when it is run. -/
structure Lazy where
  id : Nat
  deriving DecidableEq, Repr, Inhabited

/-- The scheduler handed to a time operator. -/
structure Sched where
  deriving DecidableEq, Repr, Inhabited

/-- `OnceTask::new(f, (observer, args…))`: the task function by name and its arguments other than the observer
    (which is the operator's own slot — the translator refuses anything else). -/
structure Task where
  kind : String
  args : List Val
  deriving DecidableEq, Repr, Inhabited

/-- What an observer / subscription does to the outside, in order: a call on THE downstream observer, a call on
    the k-th of several downstream observers (subject subscribers, group subjects), a run of a user callback
    without result (finalizer), `unsubscribe()` of a nested subscription, the subscription of an inner observable,
    the run of a stored subscribing closure. -/
inductive Ev where
  | n (x : Notif)
  | to (k : Nat) (x : Notif)
  | call (k : Nat)
  | unsub (k : Nat)
  | start (k : Nat)
  | lazy (k : Nat)
  | sched (task : String) (args : List Val) (delay : Option Nat) (handle : Nat)
  | timer (d : Nat)
  | send (v : Val)
  | chclose
  | rxclose
  | wake
  | register
  | subj (k : Nat)
  | gunsub (k : Nat)
  deriving DecidableEq, Repr, Inhabited

/-- The effects of one method call, in order. -/
abbrev Out := List Ev

/-- a model step (state, notifications passed downstream) read as a generated step -/
def lift {σ} (p : σ × List Notif) : σ × Out := (p.1, p.2.map Ev.n)

/-- How a Rust item type is seen as a `Val` (`Vec<Item>` ↦ cons-list, `(A, B)` ↦ pair, `bool` ↦ bool). -/
class ToVal (α : Type) where
  toVal : α → Val

instance : ToVal Val := ⟨id⟩
instance : ToVal Bool := ⟨Val.bool⟩
instance : ToVal Int := ⟨Val.int⟩
instance : ToVal Unit := ⟨fun _ => Val.unit⟩
instance {α β} [ToVal α] [ToVal β] : ToVal (α × β) := ⟨fun p => Val.pair (ToVal.toVal p.1) (ToVal.toVal p.2)⟩
instance {α} [ToVal α] : ToVal (List α) := ⟨fun l => Val.ofList (l.map ToVal.toVal)⟩
instance {α} [ToVal α] : ToVal (Option α) :=
  ⟨fun o => match o with | some v => Val.some (ToVal.toVal v) | none => Val.none⟩

instance : ToVal Nat := ⟨fun n => Val.int n⟩

/-- How a `Val` is read back as a typed Rust value (closures the library supplies work on typed accumulators:
    `Option<Item>`, `(Item, usize)`, `bool`, `usize`; the operators carry them as items, i.e. as `Val`).  A value of
    the wrong shape reads as a default — the tie theorems show that only well-shaped values ever flow. -/
class FromVal (α : Type) where
  fromVal : Val → α
instance : FromVal Val := ⟨id⟩
instance : FromVal Bool := ⟨fun v => match v with | Val.bool b => b | _ => false⟩
instance : FromVal Nat := ⟨fun v => match v with | Val.int i => i.toNat | _ => 0⟩
instance {α} [FromVal α] : FromVal (Option α) :=
  ⟨fun v => match v with | Val.some x => some (FromVal.fromVal x) | _ => none⟩
instance {α β} [FromVal α] [FromVal β] : FromVal (α × β) :=
  ⟨fun v => match v with
    | Val.pair a b => (FromVal.fromVal a, FromVal.fromVal b)
    | _ => (FromVal.fromVal Val.unit, FromVal.fromVal Val.unit)⟩

/-- a typed closure seen by an operator that carries `Val` items -/
def enc1 {α β} [FromVal α] [ToVal β] (f : α → β) : Val → Val := fun v => ToVal.toVal (f (FromVal.fromVal v))
def enc2 {α β γ} [FromVal α] [FromVal β] [ToVal γ] (f : α → β → γ) : Val → Val → Val :=
  fun a b => ToVal.toVal (f (FromVal.fromVal a) (FromVal.fromVal b))
def encPred {α} [FromVal α] (p : α → Bool) : Val → Bool := fun v => p (FromVal.fromVal v)

/-- `f64` values the library computes with (`1.0 / (n as f64)`), kept symbolic -/
inductive F64 where
  | lit (s : String)
  | ofNat (n : Nat)
  | div (a b : F64)
  deriving DecidableEq, Repr

/-- What the user's item type contributes to the derived operators: `Add`, `PartialOrd` (`>` / `<`), `Default`,
    `Mul<f64>`. -/
structure ItemOps where
  add : Val → Val → Val
  gt : Val → Val → Bool
  lt : Val → Val → Bool
  dflt : Val
  mulf : Val → F64 → Val

/-- `o.unwrap()` inside a closure handed to `map`: a panic is not expressible in `Op1.map`, the default stands in
    for it; the tie theorems of min / max show the option is never `None` where it is unwrapped. -/
def unwrapP {α} [Inhabited α] (o : Option α) : α := o.getD default

/-- `Poll<T>` -/
inductive Poll (α : Type) where
  | ready (v : α)
  | pending
  deriving DecidableEq, Repr

/-- an opaque future held by one of the scheduler's own futures (the task, a timer); what its polls answer is the
    oracle `futs` of the translated `poll`; a timer made by `new_timer(d)` remembers its duration -/
inductive Fut where
  | opaque
  | timer (d : Nat)
  deriving DecidableEq, Repr

instance : ToVal Err := ⟨Val.int⟩
instance {ε α} [ToVal ε] [ToVal α] : ToVal (Except ε α) :=
  ⟨fun r => match r with
    | Except.ok v => Val.pair (Val.int 0) (ToVal.toVal v)
    | Except.error e => Val.pair (Val.int 1) (ToVal.toVal e)⟩

/-- the sending half of an unbounded channel: open until `close_channel()` -/
inductive Chan where
  | opened
  | closed
  deriving DecidableEq, Repr
/-- `sender.unbounded_send(m)`: the message goes into the channel unless the channel is closed or the receiver is
    gone (`gone`, a parameter of the step) -/
def emitSend {α} [ToVal α] (gone : Bool) (m : α) : Out := if gone then [] else [Ev.send (ToVal.toVal m)]
def sendResult (gone : Bool) : Except Unit Unit := if gone then Except.error () else Except.ok ()
def emitChClose : Out := [Ev.chclose]
def emitRxClose : Out := [Ev.rxclose]
def chanClosed (c : Chan) (gone : Bool) : Bool := c == Chan.closed || gone
/-- an `AtomicWaker` (its content is the executor's business) -/
structure Waker where
  deriving DecidableEq, Repr
/-- a new subscriber is added to the subject token `k` / the subject token is torn down -/
def emitSubj (k : Nat) : Out := [Ev.subj k]
def emitGrpUnsub (k : Nat) : Out := [Ev.gunsub k]
def emitWake : Out := [Ev.wake]
def emitRegister : Out := [Ev.register]
/-- `result.expect(..)` / `result.unwrap()` -/
def unwrapRes {ε α} (r : Except ε α) : Option α := match r with | Except.ok v => some v | Except.error _ => none

/-- `observer.next(v)` -/
def emitNext {α} [ToVal α] (_ : Obs) (v : α) : Out := [Ev.n (Notif.next (ToVal.toVal v))]
/-- `observer.error(e)` -/
def emitError (_ : Obs) (e : Err) : Out := [Ev.n (Notif.error e)]
/-- `observer.complete()` -/
def emitComplete (_ : Obs) : Out := [Ev.n Notif.complete]
/-- `observer.is_finished()`: the downstream's answer is a parameter. -/
def isFinished (_ : Obs) (down : Bool) : Bool := down
/-- `p.p_next(v)` / `p_error` / `p_complete` on the k-th boxed subscriber -/
def emitTo (k : Nat) (x : Notif) : Out := [Ev.to k x]
/-- `inner.actual_subscribe(InnerObserver::new(cell))`: inner observable `k` is subscribed NOW (what it then
    calls on its observer are further, separate calls on the generated functions) -/
def emitStart (k : Nat) : Out := [Ev.start k]
/-- a stored closure is run: `<Struct>.<fn>_lazy` says what that does -/
def emitLazy (k : Nat) : Out := [Ev.lazy k]
/-- `scheduler.schedule(task, delay)`; `h` names the handle it returns -/
def emitSched (t : Task) (delay : Option Nat) (h : Nat) : Out := [Ev.sched t.kind t.args delay h]
/-- `new_timer(d)`: a timer future is created with this duration -/
def emitTimer (d : Nat) : Out := [Ev.timer d]
/-- a user callback without result is called (`func()` of finalize); `k` names the callback -/
def emitCall (k : Nat) : Out := [Ev.call k]
/-- `sub.is_closed()`: the nested subscription's answer is a parameter. -/
def isClosed (s : Sub) (closedOf : Nat → Bool) : Bool := closedOf s.id
/-- `unsubscribe()` of a nested subscription; `k` names it -/
def emitUnsub (k : Nat) : Out := [Ev.unsub k]

abbrev lt (a b : Nat) : Bool := decide (a < b)
abbrev le (a b : Nat) : Bool := decide (a ≤ b)
def eq {α} [DecidableEq α] (a b : α) : Bool := decide (a = b)
/-- `a - b` on `usize`: underflow panics. -/
def sub (a b : Nat) : Option Nat := if b ≤ a then some (a - b) else none
/-- `Option::unwrap` -/
def unwrap {α} (o : Option α) : Option α := o
def panic {α} : Option α := none
def unwrapOr {α} (o : Option α) (d : α) : α := o.getD d
def isSome {α} (o : Option α) : Bool := o.isSome

/-- `Default::default()`, `Vec::new()`, `HashSet::new()`, `None`, `mem::take` leftovers. -/
class Dflt (α : Type) where
  dflt : α
export Dflt (dflt)
instance {α} : Dflt (List α) := ⟨[]⟩
instance {α} : Dflt (Option α) := ⟨none⟩
instance : Dflt Nat := ⟨0⟩
instance : Dflt Bool := ⟨false⟩
instance {α β} [Dflt α] [Dflt β] : Dflt (α × β) := ⟨(dflt, dflt)⟩

/-- `HashMap::get` on the association list a map is read as (insertion order; the real iteration order of a
    HashMap is unspecified — theorems about `drain` are stated for every permutation in the model) -/
def mapGet {κ ν} [DecidableEq κ] : List (κ × ν) → κ → Option ν
  | [], _ => none
  | (k, v) :: r, q => if k = q then some v else mapGet r q
/-- `HashMap::insert` of a key that is not present -/
def mapInsert {κ ν} (m : List (κ × ν)) (k : κ) (v : ν) : List (κ × ν) := m ++ [(k, v)]
/-- `KeyObservable { key, subject }` as an item: the key and the group it names -/
def keyObs (k : Val) (g : Grp) : Val := Val.pair k (Val.obs g.id)
instance : Dflt Grp := ⟨⟨0⟩⟩

abbrev len {α} (l : List α) : Nat := l.length
abbrev isEmpty {α} (l : List α) : Bool := l.isEmpty
/-- `Vec/VecDeque/HashSet::contains` -/
def contains {α} [DecidableEq α] (l : List α) (a : α) : Bool := decide (a ∈ l)
/-- `push` / `push_back` -/
def pushBack {α} (l : List α) (v : α) : List α := l ++ [v]
def pushFront {α} (l : List α) (v : α) : List α := v :: l
/-- `Extend::extend(Some(v))` / `extend(vec)` -/
class IntoList (γ : Type) (α : outParam Type) where
  toList : γ → List α
instance {α} : IntoList (Option α) α := ⟨Option.toList⟩
instance {α} : IntoList (List α) α := ⟨id⟩
def extend {α γ} [IntoList γ α] (l : List α) (x : γ) : List α := l ++ IntoList.toList x
/-- `HashSet::insert`: `true` iff the value was new.  New members are kept at the front. -/
def setInsert {α} [DecidableEq α] (l : List α) (v : α) : Bool × List α :=
  if v ∈ l then (false, l) else (true, v :: l)
def popFront {α} (l : List α) : Option α × List α := (l.head?, l.tail)
def popBack {α} (l : List α) : Option α × List α := (l.getLast?, l.dropLast)
def front {α} (l : List α) : Option α := l.head?
def back {α} (l : List α) : Option α := l.getLast?

/-- `while c { body }` with explicit fuel; `none` when the fuel runs out (a tie theorem that proves the
    result is `some _` proves the fuel sufficient, so the value is the one the Rust loop computes). -/
def whileFuel {σ} : Nat → (σ → Bool) → (σ → Option σ) → σ → Option σ
  | 0, c, _, s => if c s then none else some s
  | n + 1, c, body, s => if c s then (body s).bind (whileFuel n c body) else some s

/-- `while c { body }` whose body may `break` (second component of its answer) -/
def loopFuel {σ} : Nat → (σ → Bool) → (σ → Option (σ × Bool)) → σ → Option σ
  | 0, c, _, s => if c s then none else some s
  | n + 1, c, body, s =>
      if c s then (body s).bind (fun r => if r.2 then some r.1 else loopFuel n c body r.1) else some s

/-- `for x in xs { body }` -/
def forEach {σ α} (xs : List α) (init : σ) (f : σ → α → Option σ) : Option σ := xs.foldlM f init

@[simp] theorem forEach_nil {σ α} (s : σ) (f : σ → α → Option σ) : forEach [] s f = some s := rfl
@[simp] theorem forEach_cons {σ α} (x : α) (xs : List α) (s : σ) (f : σ → α → Option σ) :
    forEach (x :: xs) s f = (f s x).bind (fun s' => forEach xs s' f) := by
  simp [forEach, List.foldlM_cons]

end Rx.Rs
