import RxModel.Gen.Zip
/-! Tie (topology): the cells `ZipOp::actual_subscribe` allocates, which observer field holds which cell, and the
    order in which the inputs are subscribed — extracted from /repo/src by rs2lean, pinned here.  The behaviour
    ties (GenTie/Zip.lean) read the observers' fields as views of ONE shared state; this is the declaration
    they rest on (`firstSide` of the model = the first entry of `order`). -/
namespace Rx.GenTie
open Rx.Gen.Zip

theorem wiring_Zip_lets : ZipOp.lets =
  [("o_zip", "ZipObserver::new(observer)"),
   ("o_zip", "MutRc::own(o_zip)"),
   ("a_unsub", "self.a.actual_subscribe(AObserver(o_zip , TypeHint::new()))"),
   ("b_unsub", "self.b.actual_subscribe(BObserver(o_zip, TypeHint::new()))")] := by decide

theorem wiring_Zip_views : ZipOp.views =
  [("AObserver", "0", "o_zip"),
   ("AObserver", "1", "TypeHint::new()"),
   ("BObserver", "0", "o_zip"),
   ("BObserver", "1", "TypeHint::new()")] := by decide

theorem wiring_Zip_order : ZipOp.order =
  [("self.a", "AObserver(o_zip , TypeHint::new())"),
   ("self.b", "BObserver(o_zip, TypeHint::new())")] := by decide

end Rx.GenTie
