import RxModel.Gen.ToStream
import RxModel.Gen.ToFuture
import RxModel.GenTie.Tactics
/-! Tie: the conversions `to_stream()` (src/ops/stream.rs) and `to_future()` (src/ops/future.rs), compiler-expanded and
    translated: the observer that feeds the channel and the `poll_next` / `poll` of the receiving side, in closed form;
    `gone` = the receiving half has been dropped (a parameter of each step), `futs` = what the channel's `next()` answers.

      stream observer   every item / the error / the completion becomes ONE message, in order; `next` on a dropped stream
                        panics (`expect`), the terminals do not; finished iff the channel is closed or the stream dropped
      stream poll_next  Pending ⇒ Pending, nothing else touched (the waker is the channel's business: the receiver is
                        polled on EVERY poll); `Item(x)` ⇒ `Some(x)`; `Complete` ⇒ close the receiver, `None`; sender
                        gone ⇒ `None`
      future observer   remembers the first item (or the error), a second one turns it into `MultipleValues`; the terminal
                        sends what is recorded (`Empty` when nothing) exactly once and closes the channel
      future poll       Pending ⇒ Pending; a message ⇒ Ready(message)

    and, for EVERY finite source history, what `to_future()` resolves to (`future_outcome_*`). -/
namespace Rx.GenTie
open Rx

section stream
open Rx.Gen.ToStream

theorem tie_StreamObs_next (g : ObservableStreamObserver) (v : Val) (gone : Bool) :
    ObservableStreamObserver.next g v gone =
      if gone then none else some (g, [Rs.Ev.send (Rs.ToVal.toVal (Message.Item (Except.ok v)))]) := by
  cases gone <;> simp [ObservableStreamObserver.next, Rs.emitSend, Rs.sendResult, Rs.unwrapRes]

theorem tie_StreamObs_error (g : ObservableStreamObserver) (e : Err) (gone : Bool) :
    ObservableStreamObserver.error g e gone =
      some (g, if gone then [] else [Rs.Ev.send (Rs.ToVal.toVal (Message.Item (Except.error e)))]) := by
  cases gone <;> simp [ObservableStreamObserver.error, Rs.emitSend]

theorem tie_StreamObs_complete (g : ObservableStreamObserver) (gone : Bool) :
    ObservableStreamObserver.complete g gone =
      some (g, if gone then [] else [Rs.Ev.send (Rs.ToVal.toVal Message.Complete)]) := by
  cases gone <;> simp [ObservableStreamObserver.complete, Rs.emitSend]

theorem tie_StreamObs_finished (g : ObservableStreamObserver) (gone : Bool) (c : Nat → Bool) :
    ObservableStreamObserver.is_finished g gone c = (g.sender == Rs.Chan.closed || gone) := by
  simp [ObservableStreamObserver.is_finished, Rs.chanClosed]

theorem tie_Stream_poll_next (g : ObservableStream) (futs : Nat → Rs.Poll (Option Message)) :
    ObservableStream.poll_next g futs =
      match futs 0 with
      | Rs.Poll.pending => some (g, [], Rs.Poll.pending)
      | Rs.Poll.ready (some (Message.Item x)) => some (g, [], Rs.Poll.ready (some x))
      | Rs.Poll.ready (some Message.Complete) => some (g, [Rs.Ev.rxclose], Rs.Poll.ready none)
      | Rs.Poll.ready none => some (g, [], Rs.Poll.ready none) := by
  cases h : futs 0 with
  | pending => simp [ObservableStream.poll_next, h]
  | ready m =>
    rcases m with _ | (x | _) <;> simp [ObservableStream.poll_next, h, Rs.emitRxClose]

/-- the receiver is asked on EVERY poll (so whatever waker the poll carries is the one the channel keeps): the answer
    of `poll_next` is a function of the channel's answer alone — there is no state that could remember an earlier
    poll (seed C14-7 added exactly such a state) -/
theorem Stream_poll_next_stateless (g g' : ObservableStream) (futs : Nat → Rs.Poll (Option Message)) :
    (ObservableStream.poll_next g futs).map (fun r => r.2) = (ObservableStream.poll_next g' futs).map (fun r => r.2) := by
  simp only [tie_Stream_poll_next]
  cases futs 0 with
  | pending => rfl
  | ready m => rcases m with _ | (x | _) <;> rfl

end stream

section future
open Rx.Gen.ToFuture

abbrev Msg := Except ObservableError (Except Err Val)

theorem tie_FutureObs_record (g : ObservableFutureObserver) (r : Except Err Val) :
    ObservableFutureObserver.send_observable_value g r =
      some ({ g with last_value := match g.last_value with
                | some _ => some (Except.error ObservableError.MultipleValues)
                | none => some (Except.ok r) }, []) := by
  rcases g with ⟨s, _ | l⟩ <;> simp [ObservableFutureObserver.send_observable_value]

theorem tie_FutureObs_next (g : ObservableFutureObserver) (v : Val) :
    ObservableFutureObserver.next g v = ObservableFutureObserver.send_observable_value g (Except.ok v) := by
  simp [ObservableFutureObserver.next]
  cases ObservableFutureObserver.send_observable_value g (Except.ok v) <;> simp

theorem tie_FutureObs_complete (g : ObservableFutureObserver) (gone : Bool) :
    ObservableFutureObserver.complete g gone =
      some ({ sender := Rs.Chan.closed, last_value := none },
            (if gone then [] else [Rs.Ev.send (Rs.ToVal.toVal (g.last_value.getD (Except.error ObservableError.Empty) : Msg))]) ++
              [Rs.Ev.chclose]) := by
  rcases g with ⟨s, _ | l⟩ <;> cases gone <;>
    simp [ObservableFutureObserver.complete, Rs.emitSend, Rs.emitChClose, Rs.unwrapOr]

theorem tie_FutureObs_error (g : ObservableFutureObserver) (e : Err) (gone : Bool) :
    ObservableFutureObserver.error g e gone =
      (ObservableFutureObserver.send_observable_value g (Except.error e)).bind
        (fun r => ObservableFutureObserver.complete r.1 gone) := by
  simp only [ObservableFutureObserver.error, tie_FutureObs_record, tie_FutureObs_complete]
  simp

theorem tie_FutureObs_finished (g : ObservableFutureObserver) (gone : Bool) (c : Nat → Bool) :
    ObservableFutureObserver.is_finished g gone c = (g.sender == Rs.Chan.closed || gone) := by
  simp [ObservableFutureObserver.is_finished, Rs.chanClosed]

theorem tie_Future_poll (g : ObservableFuture) (futs : Nat → Rs.Poll (Option Msg)) :
    ObservableFuture.poll g futs =
      match futs 0 with
      | Rs.Poll.pending => some (g, [], Rs.Poll.pending)
      | Rs.Poll.ready (some m) => some (g, [], Rs.Poll.ready m)
      | Rs.Poll.ready none => some (g, [], Rs.Poll.pending) := by
  cases h : futs 0 with
  | pending => simp [ObservableFuture.poll, h]
  | ready m => cases m <;> simp [ObservableFuture.poll, h]

/-- the items of a source fed to the observer one by one (from a fresh observer) -/
def feed (g : ObservableFutureObserver) : List Val → Option ObservableFutureObserver
  | [] => some g
  | v :: r => (ObservableFutureObserver.next g v).bind (fun p => feed p.1 r)

/-- what is recorded after the items `xs`: nothing, the single item, or `MultipleValues` -/
def recorded : List Val → Option Msg
  | [] => none
  | [x] => some (Except.ok (Except.ok x))
  | _ :: _ :: _ => some (Except.error ObservableError.MultipleValues)

theorem feed_multiple (s : Rs.Chan) (xs : List Val) :
    feed { sender := s, last_value := some (Except.error ObservableError.MultipleValues) } xs =
      some { sender := s, last_value := some (Except.error ObservableError.MultipleValues) } := by
  induction xs with
  | nil => rfl
  | cons v r ih => simp [feed, tie_FutureObs_next, tie_FutureObs_record, ih]

theorem feed_fresh (s : Rs.Chan) (xs : List Val) :
    feed { sender := s, last_value := none } xs = some { sender := s, last_value := recorded xs } := by
  match xs with
  | [] => rfl
  | [x] => simp [feed, tie_FutureObs_next, tie_FutureObs_record, recorded]
  | x :: y :: r =>
    simp [feed, tie_FutureObs_next, tie_FutureObs_record, recorded]
    exact feed_multiple s r

/-- EVERY history "items then complete": the one message sent is the single item, `Empty` for none,
    `MultipleValues` for more — sent exactly once, then the channel is closed -/
theorem future_outcome_complete (s : Rs.Chan) (xs : List Val) :
    (feed { sender := s, last_value := none } xs).bind (fun g => ObservableFutureObserver.complete g false) =
      some ({ sender := Rs.Chan.closed, last_value := none },
        [Rs.Ev.send (Rs.ToVal.toVal (match xs with
            | [] => (Except.error ObservableError.Empty : Msg)
            | [x] => Except.ok (Except.ok x)
            | _ :: _ :: _ => Except.error ObservableError.MultipleValues)), Rs.Ev.chclose]) := by
  rw [feed_fresh]
  match xs with
  | [] => simp [tie_FutureObs_complete, recorded]
  | [x] => simp [tie_FutureObs_complete, recorded]
  | x :: y :: r => simp [tie_FutureObs_complete, recorded]

/-- EVERY history "items then error e": the source's error if nothing came before it, `MultipleValues` otherwise
    (the error counts as a value) — and the future does resolve (one message, channel closed) -/
theorem future_outcome_error (s : Rs.Chan) (xs : List Val) (e : Err) :
    (feed { sender := s, last_value := none } xs).bind (fun g => ObservableFutureObserver.error g e false) =
      some ({ sender := Rs.Chan.closed, last_value := none },
        [Rs.Ev.send (Rs.ToVal.toVal (match xs with
            | [] => (Except.ok (Except.error e) : Msg)
            | _ :: _ => Except.error ObservableError.MultipleValues)), Rs.Ev.chclose]) := by
  rw [feed_fresh]
  match xs with
  | [] => simp [tie_FutureObs_error, tie_FutureObs_record, tie_FutureObs_complete, recorded]
  | [x] => simp [tie_FutureObs_error, tie_FutureObs_record, tie_FutureObs_complete, recorded]
  | x :: y :: r => simp [tie_FutureObs_error, tie_FutureObs_record, tie_FutureObs_complete, recorded]

end future
end Rx.GenTie
