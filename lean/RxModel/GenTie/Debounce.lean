import RxModel.Gen.Debounce
import RxModel.GenTie.Subscription
import RxModel.GenTie.RcObserver
/-! Tie: `DebounceObserver` and its task `debounce_task` (src/ops/debounce.rs, compiler-expanded, translated) in
    closed form — the `debounce` stage of the chain model (`Stage.debounce d alive trailing handler`):
      next v    the value is STORED (overwriting the previous candidate), the pending task — if any — is cancelled,
                ONE new task is scheduled with the window as delay and kept in the handler cell; nothing is delivered
      the task  takes the stored value and delivers it through the slot (nothing if a later `next` / `complete` took it)
      complete  flushes the stored value (always the final item), then completes; error: forwarded at once. -/
namespace Rx.GenTie
open Rx Rx.Gen.Debounce

theorem tie_Debounce_next (g : DebounceObserver) (v : Val) (h : Rs.Sub) :
    DebounceObserver.next g v h =
      some ({ g with trailing_value := some v, task_handler := some h },
            (match g.task_handler with | some old => [Rs.Ev.unsub old.id] | none => []) ++
              [Rs.Ev.sched "debounce_task" [] (some g.delay) h.id]) := by
  rcases g with ⟨o, sc, d, tv, _ | old⟩ <;> rs_simp [DebounceObserver.next]

theorem tie_Debounce_task (g : DebounceObserver) :
    DebounceObserver.task_debounce_task g =
      some ({ g with trailing_value := none },
            match g.trailing_value with
            | some v => if g.observer.isSome then [Rs.Ev.n (Notif.next v)] else []
            | none => []) := by
  rcases g with ⟨_ | o, sc, d, _ | v, th⟩ <;> rs_simp [DebounceObserver.task_debounce_task, rc_next]

theorem tie_Debounce_complete (g : DebounceObserver) :
    DebounceObserver.complete g =
      some ({ g with trailing_value := none, observer := none },
            if g.observer.isSome then
              (match g.trailing_value with | some v => [Rs.Ev.n (Notif.next v)] | none => []) ++ [Rs.Ev.n Notif.complete]
            else []) := by
  rcases g with ⟨_ | o, sc, d, _ | v, th⟩ <;> rs_simp [DebounceObserver.complete, rc_next, rc_complete]

theorem tie_Debounce_error (g : DebounceObserver) (e : Err) :
    DebounceObserver.error g e =
      some ({ g with observer := none }, if g.observer.isSome then [Rs.Ev.n (Notif.error e)] else []) := by
  rcases g with ⟨_ | o, sc, d, tv, th⟩ <;> rs_simp [DebounceObserver.error, rc_error]

theorem tie_Debounce_finished (g : DebounceObserver) (d : Bool) :
    DebounceObserver.is_finished g d = (!g.observer.isSome || d) := by
  rcases g with ⟨_ | o, sc, dl, tv, th⟩ <;> rs_simp [DebounceObserver.is_finished, rc_finished]

end Rx.GenTie
