import RxModel.Gen.FilterMap
import RxModel.GenTie.Tactics
/-! Tie: `FilterMapObserver` generated from `/repo/src` IS the `St1` machine of the hand-written model. -/
namespace Rx.GenTie
open Rx Rx.Gen.FilterMap

/-- a Rust state read as a model state -/
def absFilterMap (g : FilterMapObserver) : St1 := .filterMap g.f

theorem tie_FilterMap_next (g : FilterMapObserver) (v : Val) :
    (FilterMapObserver.next g v).map (fun r => (absFilterMap r.1, r.2)) = some (Rs.lift (St1.onNext (absFilterMap g) v)) := by
  rcases g with ⟨⟩ <;> rs_tie [FilterMapObserver.next, absFilterMap, St1.onNext]

theorem tie_FilterMap_error (g : FilterMapObserver) (e : Err) :
    (FilterMapObserver.error g e).map (fun r => r.2) = some ((St1.onError' (absFilterMap g) e).2.map Rs.Ev.n) := by
  rcases g with ⟨⟩ <;> rs_tie [FilterMapObserver.error, absFilterMap, St1.onError']

theorem tie_FilterMap_complete (g : FilterMapObserver) :
    (FilterMapObserver.complete g).map (fun r => r.2) = some ((St1.onComplete' (absFilterMap g)).2.map Rs.Ev.n) := by
  rcases g with ⟨⟩ <;> rs_tie [FilterMapObserver.complete, absFilterMap, St1.onComplete']


theorem tie_FilterMap_init (f : Val → Option Val) :
    absFilterMap (FilterMapObserver.init f) = Spec.Op1.init (.filterMap f) := by
  rs_simp [FilterMapObserver.init, absFilterMap, Spec.Op1.init]

end Rx.GenTie
