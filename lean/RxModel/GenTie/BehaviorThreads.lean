import RxModel.Gen.BehaviorThreads
import RxModel.GenTie.SubjectThreads
import RxModel.Subject.Behavior
/-! Tie (thread-safe flavour): `BehaviorSubject<Item, Subject>` (src/subject/behavior_subject.rs, compiler-expanded, translated) IS the
    `BState` of the model: `next` STORES the value and THEN hands it to the inner subject's `next` (so whoever
    subscribes or peeks from inside the emission sees it), `actual_subscribe` greets the bare observer with the
    stored value and then subscribes it to the inner subject, `peek` reads the cell, terminals / unsubscribe /
    queries are the inner subject's. -/
namespace Rx.GenTie
open Rx Rx.Gen.BehaviorThreads Rx.Gen.SubjectThreads

def genBehaviorT (b : Subj.BState) : BehaviorSubject := { subject := genSubjectT b.subject, value := b.value }

/-- `next`: the value cell holds `v` afterwards, the inner subject did its `next v` (see `tieT_Subject_next`). -/
theorem tieT_Behavior_next (b : Subj.BState) (h : b.subject.panicked = false) (v : Val) :
    BehaviorSubject.next (genBehaviorT b) v =
      if b.subject.load.panicked then none
      else some (⟨genSubjectT b.subject.load, v⟩,
                 (b.subject.load.observers.getD []).map (fun i => Rs.Ev.to i (Notif.next v))) := by
  have hs := tieT_Subject_next b.subject h v
  rs_simp [BehaviorSubject.next, genBehaviorT]
  rw [hs]
  by_cases hp : b.subject.load.panicked <;> simp [hp]

/-- the model stores the same value: `(b.next v).1.value = v` -/
theorem model_next_storesT (b : Subj.BState) (v : Val) : (b.next v).1.value = v := by
  simp [Subj.BState.next]

/-- `actual_subscribe`: the greeting goes to the new observer itself, then it is pushed to the chamber. -/
theorem tieT_Behavior_subscribe (b : Subj.BState) (o : Rs.Obs) (script : List Subj.Act) :
    BehaviorSubject.actual_subscribe (genBehaviorT b) o ⟨b.subject.slots.length⟩ =
      some (genBehaviorT (b.subscribe script).1, [Rs.Ev.n (Notif.next b.value)]) := by
  have hs := tieT_Subject_subscribe b.subject o script [.next b.value]
  rs_simp [BehaviorSubject.actual_subscribe, genBehaviorT, Subj.BState.subscribe]
  rw [hs]
  simp

theorem tieT_Behavior_peek (b : Subj.BState) : BehaviorSubject.peek (genBehaviorT b) = b.peek := by
  rs_simp [BehaviorSubject.peek, genBehaviorT, Subj.BState.peek]

theorem tieT_Behavior_error (b : Subj.BState) (e : Err) :
    BehaviorSubject.error (genBehaviorT b) e =
      (SubjectThreads.error (genSubjectT b.subject) e).map (fun r => (⟨r.1, b.value⟩, r.2)) := by
  rs_simp [BehaviorSubject.error, genBehaviorT]
  cases SubjectThreads.error (genSubjectT b.subject) e <;> simp

theorem tieT_Behavior_complete (b : Subj.BState) :
    BehaviorSubject.complete (genBehaviorT b) =
      (SubjectThreads.complete (genSubjectT b.subject)).map (fun r => (⟨r.1, b.value⟩, r.2)) := by
  rs_simp [BehaviorSubject.complete, genBehaviorT]
  cases SubjectThreads.complete (genSubjectT b.subject) <;> simp

theorem tieT_Behavior_unsubscribe (b : Subj.BState) :
    BehaviorSubject.unsubscribe (genBehaviorT b) = some (genBehaviorT ⟨b.subject.unsubscribe, b.value⟩, []) := by
  have hs := tieT_Subject_unsubscribe b.subject
  rs_simp [BehaviorSubject.unsubscribe, genBehaviorT]
  rw [hs]
  simp

theorem tieT_Behavior_queries (b : Subj.BState) (d : Bool) (c : Nat → Bool) :
    BehaviorSubject.is_finished (genBehaviorT b) d = b.subject.isFinished ∧
    BehaviorSubject.is_closed (genBehaviorT b) c = b.subject.isClosed ∧
    BehaviorSubject.len (genBehaviorT b) = b.subject.len? := by
  have h1 := tieT_Subject_finished_closed b.subject d c
  have h2 := tieT_Subject_len b.subject
  rs_simp [BehaviorSubject.is_finished, BehaviorSubject.is_closed, BehaviorSubject.len, genBehaviorT]
  rw [h1.1, h1.2, h2]
  simp

end Rx.GenTie
