import RxModel.Gen.ObserveOnThreads
/-! Tie (topology): `ObserveOnOpThreads::actual_subscribe` — a fresh MultiSubscription shared by the observer handed to the source
    and the returned `ZipSubscription(source subscription, that MultiSubscription)`; the slot built around the
    downstream observer. -/
namespace Rx.GenTie
open Rx.Gen.ObserveOnThreads

theorem wiring_ObserveOnThreads_lets : ObserveOnOpThreads.lets =
  [("subscription", "< _ >::default()"),
   ("observer", "MutArc::own(Some(observer))"),
   ("observer", "ObserveOnObserverThreads { scheduler, observer, subscription : subscription , }"),
   ("unsub", "source.actual_subscribe(observer)")] := by decide

theorem wiring_ObserveOnThreads_views : ObserveOnOpThreads.views =
  [("ObserveOnObserverThreads", "scheduler", "scheduler"),
   ("ObserveOnObserverThreads", "observer", "observer"),
   ("ObserveOnObserverThreads", "subscription", "subscription")] := by decide

theorem wiring_ObserveOnThreads_order : ObserveOnOpThreads.order =
  [("source", "observer")] := by decide

end Rx.GenTie
