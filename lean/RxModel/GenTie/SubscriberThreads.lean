import RxModel.Gen.SubscriberThreads
import RxModel.GenTie.RcObserver
import RxModel.Subject.Subject
/-! Tie (thread-safe flavour): `SubscriberThreads<O>` (a newtype around the slot cell `MutRc<Option<O>>`, src/subscriber.rs) generated from the
    source: as Observer / Publisher it is the slot (`impl_rc_observer!`), as Subscription `unsubscribe` empties
    the cell, `is_closed` = cell empty, `p_is_closed` = finished or closed — the `Slot.alive` bit of the subject
    model (`Slot.recv` leaves it, `Slot.finish` and `Slot.kill` clear it). -/
namespace Rx.GenTie
open Rx Rx.Gen.SubscriberThreads

theorem tieT_Subscriber_p_next (g : SubscriberThreads) (v : Val) :
    SubscriberThreads.p_next g v = some (g, if g.isSome then [Rs.Ev.n (Notif.next v)] else []) := by
  cases g <;> rs_simp [SubscriberThreads.p_next, SubscriberThreads.next, Rx.Gen.RcObserver.RcObserver.next]

theorem tieT_Subscriber_p_error (g : SubscriberThreads) (e : Err) :
    SubscriberThreads.p_error g e = some (none, if g.isSome then [Rs.Ev.n (Notif.error e)] else []) := by
  cases g <;> rs_simp [SubscriberThreads.p_error, SubscriberThreads.error, Rx.Gen.RcObserver.RcObserver.error]

theorem tieT_Subscriber_p_complete (g : SubscriberThreads) :
    SubscriberThreads.p_complete g = some (none, if g.isSome then [Rs.Ev.n Notif.complete] else []) := by
  cases g <;> rs_simp [SubscriberThreads.p_complete, SubscriberThreads.complete, Rx.Gen.RcObserver.RcObserver.complete]

theorem tieT_Subscriber_unsubscribe (g : SubscriberThreads) :
    SubscriberThreads.unsubscribe g = some (none, []) ∧ SubscriberThreads.p_unsubscribe g = some (none, []) := by
  cases g <;> rs_simp [SubscriberThreads.unsubscribe, SubscriberThreads.p_unsubscribe]

theorem tieT_Subscriber_is_closed (g : SubscriberThreads) (c : Nat → Bool) : SubscriberThreads.is_closed g c = !g.isSome := by
  cases g <;> rs_simp [SubscriberThreads.is_closed]

theorem tieT_Subscriber_p_is_closed (g : SubscriberThreads) (d : Bool) (c : Nat → Bool) :
    SubscriberThreads.p_is_closed g d c = (!g.isSome || d) := by
  cases g <;> cases d <;>
    rs_simp [SubscriberThreads.p_is_closed, SubscriberThreads.is_finished, SubscriberThreads.is_closed, Rx.Gen.RcObserver.RcObserver.is_finished]

theorem tieT_Subscriber_finished (g : SubscriberThreads) (d : Bool) : SubscriberThreads.is_finished g d = (!g.isSome || d) := by
  cases g <;> rs_simp [SubscriberThreads.is_finished, Rx.Gen.RcObserver.RcObserver.is_finished]

/-- the model's slot operations on the `alive` bit -/
theorem slot_alive_bitsT (x : Subj.Slot) (v : Val) (n : Notif) :
    (x.recv v).alive = x.alive ∧ (x.finish n).alive = false ∧ x.kill.alive = false := by
  simp [Subj.Slot.recv, Subj.Slot.finish, Subj.Slot.kill]

end Rx.GenTie
