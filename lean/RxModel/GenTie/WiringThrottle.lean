import RxModel.Gen.Throttle
/-! Tie (topology): `ThrottleOp::actual_subscribe` — the slot, the candidate cell and the handler cell; the handler cell is
    also the second half of the returned `ZipSubscription(source subscription, handler cell)`. -/
namespace Rx.GenTie
open Rx.Gen.Throttle

theorem wiring_Throttle_lets : ThrottleOp.lets =
  [("task_handler", "MutArc::own(None)"),
   ("u", "source.actual_subscribe(ThrottleObserver { observer : MutArc::own(Some(observer)), edge, duration_selector, trailing_value : MutArc::own(None), task_handler : task_handler , scheduler, })")] := by first | rfl | decide

theorem wiring_Throttle_views : ThrottleOp.views =
  [("ThrottleObserver", "observer", "MutArc::own(Some(observer))"),
   ("ThrottleObserver", "edge", "edge"),
   ("ThrottleObserver", "duration_selector", "duration_selector"),
   ("ThrottleObserver", "trailing_value", "MutArc::own(None)"),
   ("ThrottleObserver", "task_handler", "task_handler"),
   ("ThrottleObserver", "scheduler", "scheduler")] := by first | rfl | decide

theorem wiring_Throttle_order : ThrottleOp.order =
  [("source", "ThrottleObserver { observer : MutArc::own(Some(observer)), edge, duration_selector, trailing_value : MutArc::own(None), task_handler : task_handler , scheduler, }")] := by first | rfl | decide

end Rx.GenTie
