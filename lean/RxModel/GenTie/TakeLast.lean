import RxModel.Gen.TakeLast
import RxModel.GenTie.Tactics
/-! Tie: `TakeLastObserver` generated from `/repo/src` IS the `St1.takeLast` machine (the `while` loop that
    trims the queue computes `lastN`, within its fuel). -/
namespace Rx.GenTie
open Rx Rx.Gen.TakeLast

def absTakeLast (g : TakeLastObserver) : St1 := .takeLast g.count g.queue

theorem lastN_cons_of_lt (c : Nat) (h : Val) (t : List Val) (hl : c < (h :: t).length) :
    lastN c (h :: t) = lastN c t := by
  simp only [lastN, List.length_cons] at *
  have : t.length + 1 - c = (t.length - c) + 1 := by omega
  rw [this, List.drop_succ_cons]

theorem lastN_of_le (c : Nat) (q : List Val) (hl : q.length ≤ c) : lastN c q = q := by
  simp [lastN, Nat.sub_eq_zero_of_le hl]

/-- the trimming loop of `TakeLastObserver::next` -/
theorem takeLast_loop (o : Rs.Obs) (c : Nat) (out : Rs.Out) :
    ∀ (n : Nat) (q : List Val), q.length < n →
      Rs.whileFuel n (fun (p : TakeLastObserver × Rs.Out) => decide (p.fst.count < p.fst.queue.length))
        (fun p => some ({ observer := p.fst.observer, count := p.fst.count, queue := p.fst.queue.tail }, p.snd))
        ({ observer := o, count := c, queue := q }, out)
      = some ({ observer := o, count := c, queue := lastN c q }, out) := by
  intro n
  induction n with
  | zero => intro q h; omega
  | succ n ih =>
    intro q h
    by_cases hc : c < q.length
    · cases q with
      | nil => simp at hc
      | cons x t =>
        simp only [Rs.whileFuel, hc, decide_true, if_true, Option.bind, List.tail_cons]
        rw [ih t (by simpa using h), lastN_cons_of_lt c x t hc]
    · simp only [Rs.whileFuel, hc, decide_false]
      simp [lastN_of_le c q (by omega)]

theorem tie_TakeLast_next (g : TakeLastObserver) (v : Val) :
    (TakeLastObserver.next g v).map (fun r => (absTakeLast r.1, r.2)) = some (Rs.lift (St1.onNext (absTakeLast g) v)) := by
  rcases g with ⟨o, c, q⟩
  rs_simp [TakeLastObserver.next, absTakeLast, St1.onNext]
  rw [takeLast_loop o c [] _ _ (by simp)]
  simp

theorem tie_TakeLast_error (g : TakeLastObserver) (e : Err) :
    (TakeLastObserver.error g e).map (fun r => r.2) = some ((St1.onError' (absTakeLast g) e).2.map Rs.Ev.n) := by
  rcases g with ⟨⟩ <;> rs_tie [TakeLastObserver.error, absTakeLast, St1.onError']

/-- the draining `for` loop of `TakeLastObserver::complete` -/
theorem takeLast_drain (s : TakeLastObserver) :
    ∀ (q : List Val) (out : Rs.Out),
      Rs.forEach q (s, out) (fun (p : TakeLastObserver × Rs.Out) value => some (p.fst, p.snd ++ [Rs.Ev.n (Notif.next value)]))
      = some (s, out ++ q.map (fun v => Rs.Ev.n (Notif.next v))) := by
  intro q
  induction q with
  | nil => intro out; simp
  | cons x t ih => intro out; simp [ih, List.append_assoc]

theorem tie_TakeLast_complete (g : TakeLastObserver) :
    (TakeLastObserver.complete g).map (fun r => r.2) = some ((St1.onComplete' (absTakeLast g)).2.map Rs.Ev.n) := by
  rcases g with ⟨o, c, q⟩
  rs_simp [TakeLastObserver.complete, absTakeLast, St1.onComplete']
  rw [takeLast_drain]
  simp


theorem tie_TakeLast_init (n : Nat) :
    absTakeLast (TakeLastObserver.init n) = Spec.Op1.init (.takeLast n) := by
  rs_simp [TakeLastObserver.init, absTakeLast, Spec.Op1.init]

end Rx.GenTie
