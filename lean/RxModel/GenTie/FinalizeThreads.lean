import RxModel.Gen.FinalizeThreads
import RxModel.GenTie.Tactics
import RxModel.Ops.Finalize
/-! Tie (thread-safe flavour): `FinalizerObserver` and `FinalizerSubscription` generated from src/ops/finalize.rs ARE the `Fin` cell of
    the model (`Ops/Finalize.lean`): the downstream call FIRST, then the callback iff the shared `Option<F>` is
    still full, which empties it; `unsubscribe()` tears the source down FIRST, then the same.  DECLARED topology
    (pinned in GenTie/WiringFinalize.lean): observer and subscription hold the SAME `func` cell. -/
namespace Rx.GenTie
open Rx Rx.Gen.FinalizeThreads Rx.Finalize

/-- a marker / notification of the model's log as an effect of the generated code -/
def foutEvT : FOut → Rs.Ev
  | .n x => .n x
  | .f id => .call id

/-- the shared cell as the model sees it -/
def cellOfT (c : Fin) : Option Rs.Callback := if c.armed then some ⟨c.id⟩ else none

theorem tieT_Finalize_next (c : Fin) (o : Rs.Obs) (v : Val) :
    FinalizerObserver.next ⟨o, cellOfT c⟩ v =
      some (⟨o, cellOfT (c.onNotif (.next v)).1⟩, (c.onNotif (.next v)).2.map foutEvT) := by
  rs_simp [FinalizerObserver.next, Fin.onNotif, foutEvT]

theorem tieT_Finalize_error (c : Fin) (o : Rs.Obs) (e : Err) :
    FinalizerObserver.error ⟨o, cellOfT c⟩ e =
      some (⟨o, cellOfT (c.onNotif (.error e)).1⟩, (c.onNotif (.error e)).2.map foutEvT) := by
  rcases c with ⟨id, _ | _, k⟩ <;> rs_simp [FinalizerObserver.error, Fin.onNotif, Fin.fire, foutEvT, cellOfT]

theorem tieT_Finalize_complete (c : Fin) (o : Rs.Obs) :
    FinalizerObserver.complete ⟨o, cellOfT c⟩ =
      some (⟨o, cellOfT (c.onNotif .complete).1⟩, (c.onNotif .complete).2.map foutEvT) := by
  rcases c with ⟨id, _ | _, k⟩ <;> rs_simp [FinalizerObserver.complete, Fin.onNotif, Fin.fire, foutEvT, cellOfT]

/-- `FinalizerSubscription::unsubscribe`: the wrapped subscription first, then the callback (`Fin.fire`). -/
theorem tieT_Finalize_unsubscribe (c : Fin) (u : Rs.Sub) :
    FinalizerSubscription.unsubscribe ⟨u, cellOfT c⟩ =
      some (⟨u, cellOfT c.fire.1⟩, Rs.Ev.unsub u.id :: c.fire.2.map foutEvT) := by
  rcases c with ⟨id, _ | _, k⟩ <;> rs_simp [FinalizerSubscription.unsubscribe, Fin.fire, foutEvT, cellOfT]

theorem tieT_Finalize_is_closed (g : FinalizerSubscription) (closedOf : Nat → Bool) :
    FinalizerSubscription.is_closed g closedOf = closedOf g.subscription.id := by
  rs_simp [FinalizerSubscription.is_closed, Rs.isClosed]

theorem tieT_Finalize_finished (g : FinalizerObserver) (d : Bool) : FinalizerObserver.is_finished g d = d := by
  rs_simp [FinalizerObserver.is_finished]

/-- `actual_subscribe`: both halves start with the callback in the cell. -/
theorem tieT_Finalize_init (f : Rs.Callback) :
    (FinalizerObserver.init f).func = cellOfT (Fin.new f.id) ∧ (FinalizerSubscription.init f).func = cellOfT (Fin.new f.id) := by
  rs_simp [FinalizerObserver.init, FinalizerSubscription.init, cellOfT, Fin.new]

end Rx.GenTie
