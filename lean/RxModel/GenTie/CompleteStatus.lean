import RxModel.Gen.CompleteStatus
import RxModel.GenTie.Tactics
/-! Tie: `complete_status()` (src/ops/complete_status.rs, compiler-expanded, translated): the `StatusObserver`, the queries of
    `CompleteStatus` and `StatusFuture::poll` (what `wait_for_end` blocks on), in closed form.

      next        forwarded, the status is NOT touched (it reports the source's TERMINATION, not the downstream's mood)
      error       downstream first, THEN `flag := -1`, THEN the waker is woken
      complete    downstream first, THEN `flag := 1`, THEN the waker is woken
      queries     closed ⇔ flag ≠ 0, completed ⇔ flag > 0, error ⇔ flag < 0 (exclusive, and both imply closed)
      poll        closed ⇒ Ready without registering; otherwise the waker is registered and the flag is looked at AGAIN
                  (the check-then-register window: a terminal that slips in between is seen by the second look)

    The interleaving of a producer thread with the waiting thread is the business of the LTS of Props/C14 and of the
    harness' hooked yield point; here the sequential skeleton that LTS is a transcription of is pinned. -/
namespace Rx.GenTie
open Rx Rx.Gen.CompleteStatus

theorem tie_Status_next (g : StatusObserver) (v : Val) :
    StatusObserver.next g v = some (g, [Rs.Ev.n (Notif.next v)]) := by
  rcases g with ⟨o, st⟩; rs_simp [StatusObserver.next]

theorem tie_Status_error (g : StatusObserver) (e : Err) :
    StatusObserver.error g e =
      some ({ g with status := { g.status with flag := -1 } }, [Rs.Ev.n (Notif.error e), Rs.Ev.wake]) := by
  rcases g with ⟨o, ⟨f, w⟩⟩; rs_simp [StatusObserver.error, Rs.emitWake]

theorem tie_Status_complete (g : StatusObserver) :
    StatusObserver.complete g =
      some ({ g with status := { g.status with flag := 1 } }, [Rs.Ev.n Notif.complete, Rs.Ev.wake]) := by
  rcases g with ⟨o, ⟨f, w⟩⟩; rs_simp [StatusObserver.complete, Rs.emitWake]

theorem tie_Status_finished (g : StatusObserver) (d : Bool) : StatusObserver.is_finished g d = d := by
  rcases g with ⟨o, st⟩; rs_simp [StatusObserver.is_finished]

theorem tie_Status_queries (s : CompleteStatus) :
    CompleteStatus.is_closed s = (s.flag != 0) ∧
    CompleteStatus.is_completed s = decide (0 < s.flag) ∧
    CompleteStatus.error_occur s = decide (s.flag < 0) := by
  rcases s with ⟨f, w⟩
  refine ⟨?_, rfl, rfl⟩
  simp [CompleteStatus.is_closed, bne]
  by_cases h : f = 0 <;> simp [h]

/-- completed and error exclude each other, and each implies closed -/
theorem Status_exclusive (s : CompleteStatus) :
    ¬ (CompleteStatus.is_completed s = true ∧ CompleteStatus.error_occur s = true) ∧
    (CompleteStatus.is_completed s = true → CompleteStatus.is_closed s = true) ∧
    (CompleteStatus.error_occur s = true → CompleteStatus.is_closed s = true) := by
  rcases s with ⟨f, w⟩
  simp [CompleteStatus.is_completed, CompleteStatus.error_occur, CompleteStatus.is_closed]
  omega

/-- a status that has only seen items is still open; after the terminal it reports exactly that terminal -/
theorem Status_after_terminal (g : StatusObserver) (hopen : g.status.flag = 0) (v : Val) (e : Err) :
    (∃ g' o, StatusObserver.next g v = some (g', o) ∧ CompleteStatus.is_closed g'.status = false) ∧
    (∃ g' o, StatusObserver.complete g = some (g', o) ∧ CompleteStatus.is_completed g'.status = true ∧
        CompleteStatus.error_occur g'.status = false) ∧
    (∃ g' o, StatusObserver.error g e = some (g', o) ∧ CompleteStatus.error_occur g'.status = true ∧
        CompleteStatus.is_completed g'.status = false) := by
  rcases g with ⟨o, ⟨f, w⟩⟩
  simp only at hopen; subst hopen
  refine ⟨⟨_, _, tie_Status_next _ v, by simp [CompleteStatus.is_closed]⟩,
    ⟨_, _, tie_Status_complete _, by simp [CompleteStatus.is_completed], by simp [CompleteStatus.error_occur]⟩,
    ⟨_, _, tie_Status_error _ e, by simp [CompleteStatus.error_occur], by simp [CompleteStatus.is_completed]⟩⟩

theorem tie_StatusFuture_poll (s : StatusFuture) (futs : Nat → Rs.Poll Unit) :
    StatusFuture.poll s futs =
      if CompleteStatus.is_closed s then some (s, [], Rs.Poll.ready ())
      else some (s, [Rs.Ev.register], Rs.Poll.pending) := by
  by_cases h : CompleteStatus.is_closed s = true <;> simp [StatusFuture.poll, h, Rs.emitRegister]

end Rx.GenTie
