import RxModel.Gen.Subscription
import RxModel.GenTie.Tactics
import RxModel.Sub.Composite
/-! Tie: the subscription algebra of src/subscription.rs (compiler-expanded, translated): `ZipSubscription`,
    `MultiSubscription` / `MultiSubscriptionThreads` (one macro), `SubscriptionGuard::drop`, the blanket impl for
    a cell holding an optional subscription.  Each operation in closed form over ONE composite cell, which is
    what the clauses of the composite model (`Sub/Composite.lean`: `unsubAt`, `takeCell`, `cellClosed`,
    `appendChild Model.fixed`) say cell by cell:
      unsubscribe   take the vector FIRST (the cell is `None` from then on), then every entry in order
      is_closed     `None` ⇒ true; `Some v` ⇒ every entry closed (vacuously true when empty)
      append        `Some v` ⇒ push; `None` ⇒ the late subscription is unsubscribed AT ONCE
      retain        keeps the `Some(_)` entries; teardown_size: `None` ⇒ 0
      zip           `a` then `b`; closed iff both. -/
namespace Rx.GenTie
open Rx Rx.Gen.Subscription

/-- the entries of a taken vector that hold a subscription, in order -/
def liveEntries (v : List (Option Rs.Sub)) : List Rs.Sub := v.filterMap id

theorem multi_unsub_loop (g : MultiSubscription)
    (f : MultiSubscription × Rs.Out → Option Rs.Sub → Option (MultiSubscription × Rs.Out))
    (hf : ∀ p u, f p u = some (p.fst, p.snd ++ (match u with | some s => [Rs.Ev.unsub s.id] | none => []))) :
    ∀ (v : List (Option Rs.Sub)) (out : Rs.Out),
      Rs.forEach v (g, out) f = some (g, out ++ (liveEntries v).map (fun s => Rs.Ev.unsub s.id)) := by
  intro v
  induction v with
  | nil => intro out; simp [liveEntries]
  | cons x t ih =>
    intro out
    cases x with
    | none => simp [liveEntries, hf] at ih ⊢; simpa using ih out
    | some s => simp [liveEntries, hf] at ih ⊢; simp [ih, List.append_assoc]

theorem tie_Multi_unsubscribe (g : MultiSubscription) :
    MultiSubscription.unsubscribe g =
      some (none, ((g.getD []) |> liveEntries).map (fun s => Rs.Ev.unsub s.id)) := by
  cases g with
  | none => rs_simp [MultiSubscription.unsubscribe, liveEntries]
  | some v =>
    rs_simp [MultiSubscription.unsubscribe]
    rw [multi_unsub_loop none _ (by intro p u; cases u <;> simp) v []]
    simp

theorem tie_Multi_is_closed (g : MultiSubscription) (c : Nat → Bool) :
    MultiSubscription.is_closed g c =
      match g with
      | none => true
      | some v => v.all (fun u => match u with | some s => c s.id | none => true) := by
  cases g with
  | none => rs_simp [MultiSubscription.is_closed]
  | some v => rs_simp [MultiSubscription.is_closed]; rfl

theorem tie_Multi_append (g : MultiSubscription) (s : Rs.Sub) :
    MultiSubscription.append g s =
      match g with
      | some v => some (some (v ++ [some s]), [])
      | none => some (none, [Rs.Ev.unsub s.id]) := by
  cases g <;> rs_simp [MultiSubscription.append]

theorem tie_Multi_retain (g : MultiSubscription) :
    MultiSubscription.retain g = some (g.map (List.filter Option.isSome), []) := by
  cases g <;> rs_simp [MultiSubscription.retain]

theorem tie_Multi_size (g : MultiSubscription) :
    MultiSubscription.teardown_size g = (g.map List.length).getD 0 := by
  cases g <;> rs_simp [MultiSubscription.teardown_size]

theorem tie_Multi_init : MultiSubscription.init = some [] := rfl

/-- after `unsubscribe` the composite is closed, empty, and a later `append` is torn down at once -/
theorem tie_Multi_after_unsubscribe (g : MultiSubscription) (c : Nat → Bool) (s : Rs.Sub) :
    ∃ out, MultiSubscription.unsubscribe g = some (none, out) ∧
      MultiSubscription.is_closed none c = true ∧
      MultiSubscription.append none s = some (none, [Rs.Ev.unsub s.id]) := by
  refine ⟨_, tie_Multi_unsubscribe g, ?_, ?_⟩
  · rs_simp [MultiSubscription.is_closed]
  · rs_simp [MultiSubscription.append]

theorem tieT_Multi_retain (g : MultiSubscriptionThreads) :
    MultiSubscriptionThreads.retain g = some (g.map (List.filter Option.isSome), []) := by
  cases g <;> rs_simp [MultiSubscriptionThreads.retain]

theorem tieT_Multi_append (g : MultiSubscriptionThreads) (s : Rs.Sub) :
    MultiSubscriptionThreads.append g s =
      match g with
      | some v => some (some (v ++ [some s]), [])
      | none => some (none, [Rs.Ev.unsub s.id]) := by
  cases g <;> rs_simp [MultiSubscriptionThreads.append]

theorem tieT_Multi_is_closed (g : MultiSubscriptionThreads) (c : Nat → Bool) :
    MultiSubscriptionThreads.is_closed g c =
      match g with
      | none => true
      | some v => v.all (fun u => match u with | some s => c s.id | none => true) := by
  cases g with
  | none => rs_simp [MultiSubscriptionThreads.is_closed]
  | some v => rs_simp [MultiSubscriptionThreads.is_closed]; rfl

theorem tieT_Multi_unsubscribe (g : MultiSubscriptionThreads) :
    MultiSubscriptionThreads.unsubscribe g =
      some (none, ((g.getD []) |> liveEntries).map (fun s => Rs.Ev.unsub s.id)) := by
  cases g with
  | none => rs_simp [MultiSubscriptionThreads.unsubscribe, liveEntries]
  | some v =>
    rs_simp [MultiSubscriptionThreads.unsubscribe]
    rw [multi_unsub_loop none _ (by intro p u; cases u <;> simp) v []]
    simp

theorem tie_Zip_sub_unsubscribe (g : ZipSubscription) :
    ZipSubscription.unsubscribe g = some (g, [Rs.Ev.unsub g.a.id, Rs.Ev.unsub g.b.id]) := by
  rcases g with ⟨a, b⟩; rs_simp [ZipSubscription.unsubscribe]

theorem tie_Zip_sub_is_closed (g : ZipSubscription) (c : Nat → Bool) :
    ZipSubscription.is_closed g c = (c g.a.id && c g.b.id) := by
  rcases g with ⟨a, b⟩; rs_simp [ZipSubscription.is_closed]

theorem tie_Guard_drop (g : SubscriptionGuard) :
    SubscriptionGuard.drop g = some (none, match g with | some u => [Rs.Ev.unsub u.id] | none => []) := by
  cases g <;> rs_simp [SubscriptionGuard.drop]

theorem tie_RcSub (g : RcSubscription) (c : Nat → Bool) :
    RcSubscription.unsubscribe g = some (none, match g with | some u => [Rs.Ev.unsub u.id] | none => []) ∧
    RcSubscription.is_closed g c = !g.isSome := by
  cases g <;> rs_simp [RcSubscription.unsubscribe, RcSubscription.is_closed]

/-! The same clauses in the composite model (definitional unfoldings, so that the correspondence is visible). -/

theorem model_takeCell (u : Comp.Sub → Comp.W → Comp.W) (j : Nat) (w : Comp.W) (cs : List Comp.Child)
    (h : w.cell j = some cs) :
    Comp.takeCell u j w = cs.foldl (fun w c => Comp.unsubChild u c w) (w.setCell j none) := by
  simp [Comp.takeCell, h]

theorem model_cellClosed (f : Comp.Sub → Bool) (w : Comp.W) (j : Nat) :
    Comp.cellClosed f w j = match w.cell j with | none => true | some cs => cs.all (Comp.childClosed f) := rfl

theorem model_append_fixed (j : Nat) (s : Comp.Sub) (w : Comp.W) :
    Comp.appendChild .fixed j (.sub s) w =
      match w.cell j with
      | some cs => w.setCell j (some (cs ++ [.sub s]))
      | none => Comp.unsub s w := by
  unfold Comp.appendChild; cases w.cell j <;> rfl

theorem model_zip (k : Nat → Comp.W → Comp.W) (a b : Comp.Sub) (w : Comp.W) (look : Nat → Bool) :
    Comp.unsubAt k (.zip a b) w = Comp.unsubAt k b (Comp.unsubAt k a w) ∧
    Comp.isClosedAt look w (.zip a b) = (Comp.isClosedAt look w a && Comp.isClosedAt look w b) := ⟨rfl, rfl⟩

end Rx.GenTie
