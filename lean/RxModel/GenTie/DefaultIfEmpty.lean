import RxModel.Gen.DefaultIfEmpty
import RxModel.GenTie.Tactics
/-! Tie: `DefaultIfEmptyObserver` generated from `/repo/src` IS the `St1` machine of the hand-written model. -/
namespace Rx.GenTie
open Rx Rx.Gen.DefaultIfEmpty

/-- a Rust state read as a model state -/
def absDefaultIfEmpty (g : DefaultIfEmptyObserver) : St1 := .defaultIfEmpty g.is_empty g.default_value

theorem tie_DefaultIfEmpty_next (g : DefaultIfEmptyObserver) (v : Val) :
    (DefaultIfEmptyObserver.next g v).map (fun r => (absDefaultIfEmpty r.1, r.2)) = some (Rs.lift (St1.onNext (absDefaultIfEmpty g) v)) := by
  rcases g with ⟨⟩ <;> rs_tie [DefaultIfEmptyObserver.next, absDefaultIfEmpty, St1.onNext]

theorem tie_DefaultIfEmpty_error (g : DefaultIfEmptyObserver) (e : Err) :
    (DefaultIfEmptyObserver.error g e).map (fun r => r.2) = some ((St1.onError' (absDefaultIfEmpty g) e).2.map Rs.Ev.n) := by
  rcases g with ⟨⟩ <;> rs_tie [DefaultIfEmptyObserver.error, absDefaultIfEmpty, St1.onError']

theorem tie_DefaultIfEmpty_complete (g : DefaultIfEmptyObserver) :
    (DefaultIfEmptyObserver.complete g).map (fun r => r.2) = some ((St1.onComplete' (absDefaultIfEmpty g)).2.map Rs.Ev.n) := by
  rcases g with ⟨⟩ <;> rs_tie [DefaultIfEmptyObserver.complete, absDefaultIfEmpty, St1.onComplete']


theorem tie_DefaultIfEmpty_init (d : Val) :
    absDefaultIfEmpty (DefaultIfEmptyObserver.init true d) = Spec.Op1.init (.defaultIfEmpty d) := by
  rs_simp [DefaultIfEmptyObserver.init, absDefaultIfEmpty, Spec.Op1.init]

end Rx.GenTie
