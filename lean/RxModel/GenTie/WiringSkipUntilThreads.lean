import RxModel.Gen.SkipUntilThreads
/-! Tie (topology, thread-safe flavour): as GenTie/WiringSkipUntil.lean, for `SkipUntilOpThreads`. -/
namespace Rx.GenTie
open Rx.Gen.SkipUntilThreads

theorem wiringT_SkipUntil_lets : SkipUntilOpThreads.lets =
  [("share_observer", "ShareObserverThreads::new(observer)"),
   ("notify_observer", "SkipUntilNotifierObserver(share_observer)"),
   ("b", "self.notifier.actual_subscribe(notify_observer)"),
   ("a", "self.source.actual_subscribe(share_observer)")] := by decide

theorem wiringT_SkipUntil_views : SkipUntilOpThreads.views =
  [("SkipUntilNotifierObserver", "0", "share_observer")] := by decide

theorem wiringT_SkipUntil_order : SkipUntilOpThreads.order =
  [("self.notifier", "notify_observer"),
   ("self.source", "share_observer")] := by decide

end Rx.GenTie
