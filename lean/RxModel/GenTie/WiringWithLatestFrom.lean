import RxModel.Gen.WithLatestFrom
/-! Tie (topology): the cells `WithLatestFromOp::actual_subscribe` allocates, which observer field holds which cell, and the
    order in which the inputs are subscribed — extracted from /repo/src by rs2lean, pinned here.  The behaviour
    ties (GenTie/WithLatestFrom.lean) read the observers' fields as views of ONE shared state; this is the declaration
    they rest on (`firstSide` of the model = the first entry of `order`). -/
namespace Rx.GenTie
open Rx.Gen.WithLatestFrom

theorem wiring_WithLatestFrom_lets : WithLatestFromOp.lets =
  [("item", "MutRc::own(None)"),
   ("source_observer", "MutRc::own(Some(observer))"),
   ("from_observer", "BObserver { observer : source_observer , value : item , _marker : std::marker::PhantomData::< ItemA >, }"),
   ("from_unsub", "self.from.actual_subscribe(from_observer)"),
   ("source_unsub", "self.source.actual_subscribe(AObserver { observer : source_observer, value : item, })")] := by decide

theorem wiring_WithLatestFrom_views : WithLatestFromOp.views =
  [("BObserver", "observer", "source_observer"),
   ("BObserver", "value", "item"),
   ("BObserver", "_marker", "std::marker::PhantomData::< ItemA >"),
   ("AObserver", "observer", "source_observer"),
   ("AObserver", "value", "item")] := by decide

theorem wiring_WithLatestFrom_order : WithLatestFromOp.order =
  [("self.from", "from_observer"),
   ("self.source", "AObserver { observer : source_observer, value : item, }")] := by decide

end Rx.GenTie
