import RxModel.GenTie.Scan
/-! Tie (C16): `is_finished` of the observer(s) generated from `/repo/src` IS `St1.finished` of the model. -/
namespace Rx.GenTie
open Rx Rx.Gen.Scan

theorem tie_Scan_finished (g : ScanObserver) (d : Bool) :
    ScanObserver.is_finished g d = St1.finished (absScan g) d := by
  rcases g with ⟨⟩ <;> rs_tie [ScanObserver.is_finished, absScan, St1.finished]

end Rx.GenTie
