import RxModel.GenTie.TakeLast
/-! Tie (C16): `is_finished` of the observer(s) generated from `/repo/src` IS `St1.finished` of the model. -/
namespace Rx.GenTie
open Rx Rx.Gen.TakeLast

theorem tie_TakeLast_finished (g : TakeLastObserver) (d : Bool) :
    TakeLastObserver.is_finished g d = St1.finished (absTakeLast g) d := by
  rcases g with ⟨⟩ <;> rs_tie [TakeLastObserver.is_finished, absTakeLast, St1.finished]

end Rx.GenTie
