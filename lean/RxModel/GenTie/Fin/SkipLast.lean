import RxModel.GenTie.SkipLast
/-! Tie (C16): `is_finished` of the observer(s) generated from `/repo/src` IS `St1.finished` of the model. -/
namespace Rx.GenTie
open Rx Rx.Gen.SkipLast

theorem tie_SkipLast_finished (g : SkipLastObserver) (d : Bool) :
    SkipLastObserver.is_finished g d = St1.finished (absSkipLast g) d := by
  rcases g with ⟨⟩ <;> rs_tie [SkipLastObserver.is_finished, absSkipLast, St1.finished]

end Rx.GenTie
