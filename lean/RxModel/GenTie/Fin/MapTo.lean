import RxModel.GenTie.MapTo
/-! Tie (C16): `is_finished` of the observer(s) generated from `/repo/src` IS `St1.finished` of the model. -/
namespace Rx.GenTie
open Rx Rx.Gen.MapTo

theorem tie_MapTo_finished (g : MapToObserver) (d : Bool) :
    MapToObserver.is_finished g d = St1.finished (absMapTo g) d := by
  rcases g with ⟨⟩ <;> rs_tie [MapToObserver.is_finished, absMapTo, St1.finished]

end Rx.GenTie
