import RxModel.GenTie.Tap
/-! Tie (C16): `is_finished` of the observer(s) generated from `/repo/src` IS `St1.finished` of the model. -/
namespace Rx.GenTie
open Rx Rx.Gen.Tap

theorem tie_Tap_finished (g : TapObserver) (d : Bool) :
    TapObserver.is_finished g d = St1.finished (absTap g) d := by
  rcases g with ⟨⟩ <;> rs_tie [TapObserver.is_finished, absTap, St1.finished]

end Rx.GenTie
