import RxModel.GenTie.Buffer
/-! Tie (C16): `is_finished` of the observer(s) generated from `/repo/src` IS `St1.finished` of the model. -/
namespace Rx.GenTie
open Rx Rx.Gen.Buffer

theorem tie_BufferWithCount_finished (g : BufferWithCountObserver) (d : Bool) :
    BufferWithCountObserver.is_finished g d = St1.finished (absBufferWithCount g) d := by
  rcases g with ⟨⟨o, dd⟩, c⟩
  rs_tie [BufferWithCountObserver.is_finished, BufferObserver.is_finished, absBufferWithCount, St1.finished]

end Rx.GenTie
