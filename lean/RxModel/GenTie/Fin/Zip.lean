import RxModel.GenTie.Zip
/-! Tie (C16): `is_finished` of the observers generated from `/repo/src` IS `St2.finished` of the model. -/
namespace Rx.GenTie
open Rx Rx.Gen.Zip

theorem tie_Zip_finished (g : ZipObserver) (d : Bool) :
    AObserver.is_finished g d = St2.finished (absZip g) .a d ∧ BObserver.is_finished g d = St2.finished (absZip g) .b d := by
  rcases g with ⟨_ | _, qa, qb, c⟩ <;>
    rs_tie [AObserver.is_finished, BObserver.is_finished, ZipObserver.is_finished, absZip, St2.finished, St2.alive]

end Rx.GenTie
