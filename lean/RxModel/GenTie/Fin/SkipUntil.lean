import RxModel.GenTie.SkipUntil
/-! Tie (C16): `is_finished` of the observers generated from `/repo/src` IS `St2.finished` of the model. -/
namespace Rx.GenTie
open Rx Rx.Gen.SkipUntil

theorem tie_Su_finished (g : ShareObserver) (d : Bool) :
    ShareObserver.is_finished g d = St2.finished (absSkipUntil g) .a d ∧
    SkipUntilNotifierObserver.is_finished g d = St2.finished (absSkipUntil g) .b d := by
  rcases g with ⟨_ | _, _ | _⟩ <;>
    rs_tie [ShareObserver.is_finished, SkipUntilNotifierObserver.is_finished, ShareObserver.is_skipping,
      Rx.Gen.RcObserver.RcObserver.is_finished, absSkipUntil, St2.finished, St2.alive]

end Rx.GenTie
