import RxModel.GenTie.Skip
/-! Tie (C16): `is_finished` of the observer(s) generated from `/repo/src` IS `St1.finished` of the model. -/
namespace Rx.GenTie
open Rx Rx.Gen.Skip

theorem tie_Skip_finished (g : SkipObserver) (d : Bool) :
    SkipObserver.is_finished g d = St1.finished (absSkip g) d := by
  rcases g with ⟨⟩ <;> rs_tie [SkipObserver.is_finished, absSkip, St1.finished]

end Rx.GenTie
