import RxModel.GenTie.FilterMap
/-! Tie (C16): `is_finished` of the observer(s) generated from `/repo/src` IS `St1.finished` of the model. -/
namespace Rx.GenTie
open Rx Rx.Gen.FilterMap

theorem tie_FilterMap_finished (g : FilterMapObserver) (d : Bool) :
    FilterMapObserver.is_finished g d = St1.finished (absFilterMap g) d := by
  rcases g with ⟨⟩ <;> rs_tie [FilterMapObserver.is_finished, absFilterMap, St1.finished]

end Rx.GenTie
