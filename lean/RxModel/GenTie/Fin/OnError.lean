import RxModel.GenTie.OnError
/-! Tie (C16): `is_finished` of the observer(s) generated from `/repo/src` IS `St1.finished` of the model. -/
namespace Rx.GenTie
open Rx Rx.Gen.OnError

theorem tie_OnError_finished (g : OnErrorObserver) (d : Bool) :
    OnErrorObserver.is_finished g d = St1.finished (absOnError g) d := by
  rcases g with ⟨⟩ <;> rs_tie [OnErrorObserver.is_finished, absOnError, St1.finished]

end Rx.GenTie
