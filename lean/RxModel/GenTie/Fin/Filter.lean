import RxModel.GenTie.Filter
/-! Tie (C16): `is_finished` of the observer(s) generated from `/repo/src` IS `St1.finished` of the model. -/
namespace Rx.GenTie
open Rx Rx.Gen.Filter

theorem tie_Filter_finished (g : FilterObserver) (d : Bool) :
    FilterObserver.is_finished g d = St1.finished (absFilter g) d := by
  rcases g with ⟨⟩ <;> rs_tie [FilterObserver.is_finished, absFilter, St1.finished]

end Rx.GenTie
