import RxModel.GenTie.Distinct
/-! Tie (C16): `is_finished` of the observer(s) generated from `/repo/src` IS `St1.finished` of the model. -/
namespace Rx.GenTie
open Rx Rx.Gen.Distinct

theorem tie_Distinct_finished (g : DistinctObserver) (d : Bool) :
    DistinctObserver.is_finished g d = St1.finished (absDistinct g) d := by
  rcases g with ⟨⟩ <;> rs_tie [DistinctObserver.is_finished, absDistinct, St1.finished]

theorem tie_DistinctKey_finished (g : DistinctKeyObserver) (d : Bool) :
    DistinctKeyObserver.is_finished g d = St1.finished (absDistinctKey g) d := by
  rcases g with ⟨⟩ <;> rs_tie [DistinctKeyObserver.is_finished, absDistinctKey, St1.finished]

theorem tie_DistinctUntilChanged_finished (g : DistinctUntilChangedObserver) (d : Bool) :
    DistinctUntilChangedObserver.is_finished g d = St1.finished (absDistinctUntilChanged g) d := by
  rcases g with ⟨⟩ <;> rs_tie [DistinctUntilChangedObserver.is_finished, absDistinctUntilChanged, St1.finished]

theorem tie_DistinctUntilKeyChanged_finished (g : DistinctUntilKeyChangedObserver) (d : Bool) :
    DistinctUntilKeyChangedObserver.is_finished g d = St1.finished (absDistinctUntilKeyChanged g) d := by
  rcases g with ⟨⟩ <;> rs_tie [DistinctUntilKeyChangedObserver.is_finished, absDistinctUntilKeyChanged, St1.finished]

end Rx.GenTie
