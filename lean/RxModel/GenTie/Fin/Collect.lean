import RxModel.GenTie.Collect
/-! Tie (C16): `is_finished` of the observer(s) generated from `/repo/src` IS `St1.finished` of the model. -/
namespace Rx.GenTie
open Rx Rx.Gen.Collect

theorem tie_Collect_finished (g : CollectObserver) (d : Bool) :
    CollectObserver.is_finished g d = St1.finished (absCollect g) d := by
  rcases g with ⟨⟩ <;> rs_tie [CollectObserver.is_finished, absCollect, St1.finished]

end Rx.GenTie
