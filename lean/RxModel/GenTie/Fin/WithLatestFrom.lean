import RxModel.GenTie.WithLatestFrom
/-! Tie (C16): `is_finished` of the observers generated from `/repo/src` IS `St2.finished` of the model. -/
namespace Rx.GenTie
open Rx Rx.Gen.WithLatestFrom

theorem tie_Wlf_finished (a : AObserver) (b : BObserver) (d : Bool) :
    AObserver.is_finished a d = St2.finished (absWlfA a) .a d ∧
    BObserver.is_finished b d = St2.finished (absWlfB b) .b d := by
  rcases a with ⟨_ | _, w⟩ <;> rcases b with ⟨_ | _, w'⟩ <;>
    rs_tie [AObserver.is_finished, BObserver.is_finished, Rx.Gen.RcObserver.RcObserver.is_finished, absWlfA, absWlfB,
      St2.finished, St2.alive]

end Rx.GenTie
