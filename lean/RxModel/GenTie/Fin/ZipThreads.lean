import RxModel.GenTie.ZipThreads
/-! Tie (C16): `is_finished` of the observers generated from `/repo/src` IS `St2.finished` of the model. -/
namespace Rx.GenTie
open Rx Rx.Gen.ZipThreads

theorem tieT_Zip_finished (g : ZipObserver) (d : Bool) :
    AObserver.is_finished g d = St2.finished (absTZip g) .a d ∧ BObserver.is_finished g d = St2.finished (absTZip g) .b d := by
  rcases g with ⟨_ | _, qa, qb, c⟩ <;>
    rs_tie [AObserver.is_finished, BObserver.is_finished, ZipObserver.is_finished, absTZip, St2.finished, St2.alive]

end Rx.GenTie
