import RxModel.GenTie.Contains
/-! Tie (C16): `is_finished` of the observer(s) generated from `/repo/src` IS `St1.finished` of the model. -/
namespace Rx.GenTie
open Rx Rx.Gen.Contains

theorem tie_Contains_finished (g : ContainsObserver) (d : Bool) :
    ContainsObserver.is_finished g d = St1.finished (absContains g) d := by
  rcases g with ⟨_ | _, _⟩ <;> rs_tie [ContainsObserver.is_finished, absContains, St1.finished]

end Rx.GenTie
