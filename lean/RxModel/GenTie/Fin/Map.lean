import RxModel.GenTie.Map
/-! Tie (C16): `is_finished` of the observer(s) generated from `/repo/src` IS `St1.finished` of the model. -/
namespace Rx.GenTie
open Rx Rx.Gen.Map

theorem tie_Map_finished (g : MapObserver) (d : Bool) :
    MapObserver.is_finished g d = St1.finished (absMap g) d := by
  rcases g with ⟨⟩ <;> rs_tie [MapObserver.is_finished, absMap, St1.finished]

end Rx.GenTie
