import RxModel.GenTie.TakeUntilThreads
/-! Tie (C16): `is_finished` of the observers generated from `/repo/src` IS `St2.finished` of the model. -/
namespace Rx.GenTie
open Rx Rx.Gen.TakeUntilThreads Rx.Gen.RcObserver

theorem tieT_Tu_finished (a : RcObserver) (b : TakeUntilNotifierObserver) (d : Bool) :
    RcObserver.is_finished a d = St2.finished (absTTuA a) .a d ∧
    TakeUntilNotifierObserver.is_finished b d = St2.finished (absTTuB b) .b d := by
  cases a <;> rcases b with ⟨_ | _⟩ <;>
    rs_tie [RcObserver.is_finished, TakeUntilNotifierObserver.is_finished, absTTuA, absTTuB, St2.finished, St2.alive]

end Rx.GenTie
