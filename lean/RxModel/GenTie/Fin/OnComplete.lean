import RxModel.GenTie.OnComplete
/-! Tie (C16): `is_finished` of the observer(s) generated from `/repo/src` IS `St1.finished` of the model. -/
namespace Rx.GenTie
open Rx Rx.Gen.OnComplete

theorem tie_OnComplete_finished (g : OnCompleteObserver) (d : Bool) :
    OnCompleteObserver.is_finished g d = St1.finished (absOnComplete g) d := by
  rcases g with ⟨⟩ <;> rs_tie [OnCompleteObserver.is_finished, absOnComplete, St1.finished]

end Rx.GenTie
