import RxModel.GenTie.OnErrorMap
/-! Tie (C16): `is_finished` of the observer(s) generated from `/repo/src` IS `St1.finished` of the model. -/
namespace Rx.GenTie
open Rx Rx.Gen.OnErrorMap

theorem tie_OnErrorMap_finished (g : OnErrorMapObserver) (d : Bool) :
    OnErrorMapObserver.is_finished g d = St1.finished (absOnErrorMap g) d := by
  rcases g with ⟨⟩ <;> rs_tie [OnErrorMapObserver.is_finished, absOnErrorMap, St1.finished]

end Rx.GenTie
