import RxModel.GenTie.MergeThreads
/-! Tie (C16): `is_finished` of the observers generated from `/repo/src` IS `St2.finished` of the model. -/
namespace Rx.GenTie
open Rx Rx.Gen.MergeThreads

theorem tieT_Merge_finished (g : MergeObserver) (sd : Side) (d : Bool) :
    MergeObserver.is_finished g d = St2.finished (absTMerge g) sd d := by
  rcases g with ⟨_ | _, c⟩ <;> rs_tie [MergeObserver.is_finished, absTMerge, St2.finished, St2.alive]

end Rx.GenTie
