import RxModel.GenTie.TakeWhile
/-! Tie (C16): `is_finished` of the observer(s) generated from `/repo/src` IS `St1.finished` of the model. -/
namespace Rx.GenTie
open Rx Rx.Gen.TakeWhile

theorem tie_TakeWhile_finished (g : TakeWhileObserver) (d : Bool) :
    TakeWhileObserver.is_finished g d = St1.finished (absTakeWhile g) d := by
  rcases g with ⟨_ | _, _, _⟩ <;> rs_tie [TakeWhileObserver.is_finished, absTakeWhile, St1.finished]

end Rx.GenTie
