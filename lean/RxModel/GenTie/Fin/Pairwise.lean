import RxModel.GenTie.Pairwise
/-! Tie (C16): `is_finished` of the observer(s) generated from `/repo/src` IS `St1.finished` of the model. -/
namespace Rx.GenTie
open Rx Rx.Gen.Pairwise

theorem tie_Pairwise_finished (g : PairwiseObserver) (d : Bool) :
    PairwiseObserver.is_finished g d = St1.finished (absPairwise g) d := by
  rcases g with ⟨⟩ <;> rs_tie [PairwiseObserver.is_finished, absPairwise, St1.finished]

end Rx.GenTie
