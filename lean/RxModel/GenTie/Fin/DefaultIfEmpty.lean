import RxModel.GenTie.DefaultIfEmpty
/-! Tie (C16): `is_finished` of the observer(s) generated from `/repo/src` IS `St1.finished` of the model. -/
namespace Rx.GenTie
open Rx Rx.Gen.DefaultIfEmpty

theorem tie_DefaultIfEmpty_finished (g : DefaultIfEmptyObserver) (d : Bool) :
    DefaultIfEmptyObserver.is_finished g d = St1.finished (absDefaultIfEmpty g) d := by
  rcases g with ⟨⟩ <;> rs_tie [DefaultIfEmptyObserver.is_finished, absDefaultIfEmpty, St1.finished]

end Rx.GenTie
