import RxModel.GenTie.SkipUntilThreads
/-! Tie (C16): `is_finished` of the observers generated from `/repo/src` IS `St2.finished` of the model. -/
namespace Rx.GenTie
open Rx Rx.Gen.SkipUntilThreads

theorem tieT_Su_finished (g : ShareObserverThreads) (d : Bool) :
    ShareObserverThreads.is_finished g d = St2.finished (absTSkipUntil g) .a d ∧
    SkipUntilNotifierObserver.is_finished g d = St2.finished (absTSkipUntil g) .b d := by
  rcases g with ⟨_ | _, _ | _⟩ <;>
    rs_tie [ShareObserverThreads.is_finished, SkipUntilNotifierObserver.is_finished, ShareObserverThreads.is_skipping,
      Rx.Gen.RcObserver.RcObserver.is_finished, absTSkipUntil, St2.finished, St2.alive]

end Rx.GenTie
