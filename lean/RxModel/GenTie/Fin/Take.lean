import RxModel.GenTie.Take
/-! Tie (C16): `is_finished` of the observer(s) generated from `/repo/src` IS `St1.finished` of the model. -/
namespace Rx.GenTie
open Rx Rx.Gen.Take

theorem tie_Take_finished (g : TakeObserver) (d : Bool) :
    TakeObserver.is_finished g d = St1.finished (absTake g) d := by
  rcases g with ⟨_ | _, _, _⟩ <;> rs_tie [TakeObserver.is_finished, absTake, St1.finished]

end Rx.GenTie
