import RxModel.GenTie.TakeUntil
/-! Tie (C16): `is_finished` of the observers generated from `/repo/src` IS `St2.finished` of the model. -/
namespace Rx.GenTie
open Rx Rx.Gen.TakeUntil Rx.Gen.RcObserver

theorem tie_Tu_finished (a : RcObserver) (b : TakeUntilNotifierObserver) (d : Bool) :
    RcObserver.is_finished a d = St2.finished (absTuA a) .a d ∧
    TakeUntilNotifierObserver.is_finished b d = St2.finished (absTuB b) .b d := by
  cases a <;> rcases b with ⟨_ | _⟩ <;>
    rs_tie [RcObserver.is_finished, TakeUntilNotifierObserver.is_finished, absTuA, absTuB, St2.finished, St2.alive]

end Rx.GenTie
