import RxModel.GenTie.SkipWhile
/-! Tie (C16): `is_finished` of the observer(s) generated from `/repo/src` IS `St1.finished` of the model. -/
namespace Rx.GenTie
open Rx Rx.Gen.SkipWhile

theorem tie_SkipWhile_finished (g : SkipWhileObserver) (d : Bool) :
    SkipWhileObserver.is_finished g d = St1.finished (absSkipWhile g) d := by
  rcases g with ⟨⟩ <;> rs_tie [SkipWhileObserver.is_finished, absSkipWhile, St1.finished]

end Rx.GenTie
