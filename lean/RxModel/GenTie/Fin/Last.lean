import RxModel.GenTie.Last
/-! Tie (C16): `is_finished` of the observer(s) generated from `/repo/src` IS `St1.finished` of the model. -/
namespace Rx.GenTie
open Rx Rx.Gen.Last

theorem tie_Last_finished (g : LastObserver) (d : Bool) :
    LastObserver.is_finished g d = St1.finished (absLast g) d := by
  rcases g with ⟨⟩ <;> rs_tie [LastObserver.is_finished, absLast, St1.finished]

end Rx.GenTie
