import RxModel.GenTie.Sample
/-! Tie (C16): `is_finished` of the observers generated from `/repo/src` IS `St2.finished` of the model. -/
namespace Rx.GenTie
open Rx Rx.Gen.Sample

theorem tie_Sample_finished (a : SourceObserver) (b : SampleObserver) (d : Bool) :
    SourceObserver.is_finished a d = St2.finished (absSampleA a) .a d ∧
    SampleObserver.is_finished b d = St2.finished (absSampleB b) .b d := by
  rcases a with ⟨_ | _, w⟩ <;> rcases b with ⟨_ | _, w'⟩ <;>
    rs_tie [SourceObserver.is_finished, SampleObserver.is_finished, Rx.Gen.RcObserver.RcObserver.is_finished, absSampleA,
      absSampleB, St2.finished, St2.alive]

end Rx.GenTie
