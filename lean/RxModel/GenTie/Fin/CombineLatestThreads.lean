import RxModel.GenTie.CombineLatestThreads
/-! Tie (C16): `is_finished` of the observers generated from `/repo/src` IS `St2.finished` of the model. -/
namespace Rx.GenTie
open Rx Rx.Gen.CombineLatestThreads

theorem tieT_Combine_finished (g : CombineLatestObserver) (d : Bool) :
    AObserver.is_finished g d = St2.finished (absTCombine g) .a d ∧
    BObserver.is_finished g d = St2.finished (absTCombine g) .b d := by
  rcases g with ⟨_ | _, a, b, op, c⟩ <;>
    rs_tie [AObserver.is_finished, BObserver.is_finished, CombineLatestObserver.is_finished, absTCombine, St2.finished, St2.alive]

end Rx.GenTie
