import RxModel.Gen.Merge
/-! Tie (topology): the cells `MergeOp::actual_subscribe` allocates, which observer field holds which cell, and the
    order in which the inputs are subscribed — extracted from /repo/src by rs2lean, pinned here.  The behaviour
    ties (GenTie/Merge.lean) read the observers' fields as views of ONE shared state; this is the declaration
    they rest on (`firstSide` of the model = the first entry of `order`). -/
namespace Rx.GenTie
open Rx.Gen.Merge

theorem wiring_Merge_lets : MergeOp.lets =
  [("observer", "MergeObserver { observer : Some(observer), completed_one : false, }"),
   ("observer", "MutRc::own(observer)"),
   ("a", "self.source1.actual_subscribe(observer)"),
   ("b", "self.source2.actual_subscribe(observer)")] := by decide

theorem wiring_Merge_views : MergeOp.views =
  [("MergeObserver", "observer", "Some(observer)"),
   ("MergeObserver", "completed_one", "false")] := by decide

theorem wiring_Merge_order : MergeOp.order =
  [("self.source1", "observer"),
   ("self.source2", "observer")] := by decide

end Rx.GenTie
