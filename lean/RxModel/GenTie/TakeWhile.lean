import RxModel.Gen.TakeWhile
import RxModel.GenTie.Tactics
/-! Tie: `TakeWhileObserver` generated from `/repo/src` IS the `St1` machine of the hand-written model. -/
namespace Rx.GenTie
open Rx Rx.Gen.TakeWhile

/-- a Rust state read as a model state -/
def absTakeWhile (g : TakeWhileObserver) : St1 := .takeWhile g.callback g.inclusive g.observer.isSome

theorem tie_TakeWhile_next (g : TakeWhileObserver) (v : Val) :
    (TakeWhileObserver.next g v).map (fun r => (absTakeWhile r.1, r.2)) = some (Rs.lift (St1.onNext (absTakeWhile g) v)) := by
  rcases g with ⟨_ | _, _, _⟩ <;> rs_tie [TakeWhileObserver.next, absTakeWhile, St1.onNext]

theorem tie_TakeWhile_error (g : TakeWhileObserver) (e : Err) :
    (TakeWhileObserver.error g e).map (fun r => r.2) = some ((St1.onError' (absTakeWhile g) e).2.map Rs.Ev.n) := by
  rcases g with ⟨_ | _, _, _⟩ <;> rs_tie [TakeWhileObserver.error, absTakeWhile, St1.onError']

theorem tie_TakeWhile_complete (g : TakeWhileObserver) :
    (TakeWhileObserver.complete g).map (fun r => r.2) = some ((St1.onComplete' (absTakeWhile g)).2.map Rs.Ev.n) := by
  rcases g with ⟨_ | _, _, _⟩ <;> rs_tie [TakeWhileObserver.complete, absTakeWhile, St1.onComplete']


theorem tie_TakeWhile_init (p : Val → Bool) (incl : Bool) :
    absTakeWhile (TakeWhileObserver.init p incl) = Spec.Op1.init (.takeWhile p incl) := by
  rs_simp [TakeWhileObserver.init, absTakeWhile, Spec.Op1.init]

end Rx.GenTie
