import RxModel.Gen.CombineLatest
/-! Tie (topology): the cells `CombineLatestOp::actual_subscribe` allocates, which observer field holds which cell, and the
    order in which the inputs are subscribed — extracted from /repo/src by rs2lean, pinned here.  The behaviour
    ties (GenTie/CombineLatest.lean) read the observers' fields as views of ONE shared state; this is the declaration
    they rest on (`firstSide` of the model = the first entry of `order`). -/
namespace Rx.GenTie
open Rx.Gen.CombineLatest

theorem wiring_CombineLatest_lets : CombineLatestOp.lets =
  [("o_combine", "CombineLatestObserver::new(observer, self.binary_op)"),
   ("o_combine", "MutRc::own(o_combine)"),
   ("a_unsub", "self.a.actual_subscribe(AObserver(o_combine , TypeHint::new()))"),
   ("b_unsub", "self.b.actual_subscribe(BObserver(o_combine, TypeHint::new()))")] := by decide

theorem wiring_CombineLatest_views : CombineLatestOp.views =
  [("AObserver", "0", "o_combine"),
   ("AObserver", "1", "TypeHint::new()"),
   ("BObserver", "0", "o_combine"),
   ("BObserver", "1", "TypeHint::new()")] := by decide

theorem wiring_CombineLatest_order : CombineLatestOp.order =
  [("self.a", "AObserver(o_combine , TypeHint::new())"),
   ("self.b", "BObserver(o_combine, TypeHint::new())")] := by decide

end Rx.GenTie
