import RxModel.Gen.WithLatestFrom
import RxModel.GenTie.Tactics
/-! Tie: `AObserver` (source side) and `BObserver` (from side) generated from src/ops/with_latest_from.rs ARE
    the two inputs of the `St2.withLatest` cell.  DECLARED topology (actual_subscribe, pinned in
    GenTie/Wiring.lean): both observers hold the SAME slot cell (`observer`) and the SAME value cell (`value`);
    hence both views read one model state. -/
namespace Rx.GenTie
open Rx Rx.Gen.WithLatestFrom

def absWlfA (g : AObserver) : St2 := .withLatest g.observer.isSome g.value
def absWlfB (g : BObserver) : St2 := .withLatest g.observer.isSome g.value

theorem tie_Wlf_a_next (g : AObserver) (v : Val) :
    (AObserver.next g v).map (fun r => (absWlfA r.1, r.2)) = some (Rs.lift (St2.step (absWlfA g) .a (.next v))) := by
  rcases g with ⟨_ | _, _ | w⟩ <;>
    rs_tie [AObserver.next, Rx.Gen.RcObserver.RcObserver.next, absWlfA, St2.step, St2.guard]

theorem tie_Wlf_a_error (g : AObserver) (e : Err) :
    (AObserver.error g e).map (fun r => (absWlfA r.1, r.2)) = some (Rs.lift (St2.step (absWlfA g) .a (.error e))) := by
  rcases g with ⟨_ | _, w⟩ <;>
    rs_tie [AObserver.error, Rx.Gen.RcObserver.RcObserver.error, absWlfA, St2.step, St2.guard]

theorem tie_Wlf_a_complete (g : AObserver) :
    (AObserver.complete g).map (fun r => (absWlfA r.1, r.2)) = some (Rs.lift (St2.step (absWlfA g) .a .complete)) := by
  rcases g with ⟨_ | _, w⟩ <;>
    rs_tie [AObserver.complete, Rx.Gen.RcObserver.RcObserver.complete, absWlfA, St2.step, St2.guard]

theorem tie_Wlf_b_next (g : BObserver) (v : Val) :
    (BObserver.next g v).map (fun r => (absWlfB r.1, r.2)) = some (Rs.lift (St2.step (absWlfB g) .b (.next v))) := by
  rcases g with ⟨_ | _, w⟩ <;> rs_tie [BObserver.next, absWlfB, St2.step, St2.guard]

theorem tie_Wlf_b_error (g : BObserver) (e : Err) :
    (BObserver.error g e).map (fun r => (absWlfB r.1, r.2)) = some (Rs.lift (St2.step (absWlfB g) .b (.error e))) := by
  rcases g with ⟨_ | _, w⟩ <;>
    rs_tie [BObserver.error, Rx.Gen.RcObserver.RcObserver.error, absWlfB, St2.step, St2.guard]

theorem tie_Wlf_b_complete (g : BObserver) :
    (BObserver.complete g).map (fun r => (absWlfB r.1, r.2)) = some (Rs.lift (St2.step (absWlfB g) .b .complete)) := by
  rcases g with ⟨_ | _, w⟩ <;> rs_tie [BObserver.complete, absWlfB, St2.step, St2.guard]


end Rx.GenTie
