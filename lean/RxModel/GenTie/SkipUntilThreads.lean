import RxModel.Gen.SkipUntilThreads
import RxModel.GenTie.Tactics
/-! Tie (thread-safe flavour, C18: the `MutArc` / atomic instantiation of the same source is the SAME model cell): `ShareObserverThreads` (source side) and `SkipUntilNotifierObserver` (a newtype around a clone of it) generated
    from src/ops/skip_until.rs ARE the `St2.skipUntil` cell.  DECLARED topology: the clone shares the slot cell
    and the `skip` flag cell. -/
namespace Rx.GenTie
open Rx Rx.Gen.SkipUntilThreads

def absTSkipUntil (g : ShareObserverThreads) : St2 := .skipUntil g.observer.isSome g.skip

theorem tieT_Su_a_next (g : ShareObserverThreads) (v : Val) :
    (ShareObserverThreads.next g v).map (fun r => (absTSkipUntil r.1, r.2)) = some (Rs.lift (St2.step (absTSkipUntil g) .a (.next v))) := by
  rcases g with ⟨_ | _, _ | _⟩ <;>
    rs_tie [ShareObserverThreads.next, ShareObserverThreads.is_skipping, Rx.Gen.RcObserver.RcObserver.next, absTSkipUntil, St2.step, St2.guard]

theorem tieT_Su_a_error (g : ShareObserverThreads) (e : Err) :
    (ShareObserverThreads.error g e).map (fun r => (absTSkipUntil r.1, r.2)) = some (Rs.lift (St2.step (absTSkipUntil g) .a (.error e))) := by
  rcases g with ⟨_ | _, s⟩ <;>
    rs_tie [ShareObserverThreads.error, Rx.Gen.RcObserver.RcObserver.error, absTSkipUntil, St2.step, St2.guard]

theorem tieT_Su_a_complete (g : ShareObserverThreads) :
    (ShareObserverThreads.complete g).map (fun r => (absTSkipUntil r.1, r.2)) = some (Rs.lift (St2.step (absTSkipUntil g) .a .complete)) := by
  rcases g with ⟨_ | _, s⟩ <;>
    rs_tie [ShareObserverThreads.complete, Rx.Gen.RcObserver.RcObserver.complete, absTSkipUntil, St2.step, St2.guard]

theorem tieT_Su_b_next (g : SkipUntilNotifierObserver) (v : Val) :
    (SkipUntilNotifierObserver.next g v).map (fun r => (absTSkipUntil r.1, r.2)) = some (Rs.lift (St2.step (absTSkipUntil g) .b (.next v))) := by
  rcases g with ⟨_ | _, s⟩ <;>
    rs_tie [SkipUntilNotifierObserver.next, ShareObserverThreads.stop_skipping, absTSkipUntil, St2.step, St2.guard]

theorem tieT_Su_b_error (g : SkipUntilNotifierObserver) (e : Err) :
    (SkipUntilNotifierObserver.error g e).map (fun r => (absTSkipUntil r.1, r.2)) = some (Rs.lift (St2.step (absTSkipUntil g) .b (.error e))) := by
  rcases g with ⟨_ | _, s⟩ <;> rs_tie [SkipUntilNotifierObserver.error, absTSkipUntil, St2.step, St2.guard]

theorem tieT_Su_b_complete (g : SkipUntilNotifierObserver) :
    (SkipUntilNotifierObserver.complete g).map (fun r => (absTSkipUntil r.1, r.2)) = some (Rs.lift (St2.step (absTSkipUntil g) .b .complete)) := by
  rcases g with ⟨_ | _, s⟩ <;> rs_tie [SkipUntilNotifierObserver.complete, absTSkipUntil, St2.step, St2.guard]


theorem tieT_Su_init : absTSkipUntil ShareObserverThreads.init = Kind2.init .skipUntil := by
  rs_simp [ShareObserverThreads.init, absTSkipUntil, Kind2.init]

end Rx.GenTie
