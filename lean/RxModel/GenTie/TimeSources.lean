import RxModel.Gen.SrcInterval
import RxModel.Gen.SrcTimer
import RxModel.Gen.SubscribeOn
import RxModel.Gen.StartWith
import RxModel.GenTie.Tactics
/-! Tie: `actual_subscribe` of the time SOURCES interval / interval_at / timer / timer_at (src/observable/interval.rs,
    timer.rs), of `subscribe_on` (src/ops/subscribe_on.rs) and of `start_with` (src/ops/start_with.rs), with their task /
    tick functions, in closed form:

      interval      ONE repeating task `interval_task`, first run after `delay` (interval_at) or else after `dur`,
                    then every `dur`; scheduled WITHOUT an outer delay; the handle is the subscription.
                    tick: a finished observer stops the task; otherwise `next(seq)` and go on
                    (= the `.tick` clause of `runTick` in Sched/Chain.lean)
      timer         ONE task `timer_task` with the item, outer delay `dur`; the task: `next(item)` then `complete`
      subscribe_on  ONE task `subscribe_task` holding the source, no delay; the task subscribes the source
      start_with    the values in order, THEN the source is subscribed -/
namespace Rx.GenTie
open Rx

theorem tie_Interval_subscribe (g : Rx.Gen.SrcInterval.IntervalObservable) (o : Rs.Obs) (h : Rs.Sub) :
    Rx.Gen.SrcInterval.IntervalObservable.actual_subscribe g o h =
      some (g, [Rs.Ev.sched "repeat:interval_task" [Val.int (g.delay.getD g.dur), Val.int g.dur] none h.id]) := by
  rcases g with ⟨sc, d, _ | dl⟩ <;> rs_simp [Rx.Gen.SrcInterval.IntervalObservable.actual_subscribe]

theorem tie_Interval_tick (o : Rs.Obs) (down : Bool) (seq : Nat) :
    Rx.Gen.SrcInterval.Observer.tick_interval_task o down seq =
      if down then some (o, [], false) else some (o, [Rs.Ev.n (Notif.next (Val.int seq))], true) := by
  cases down <;> rs_simp [Rx.Gen.SrcInterval.Observer.tick_interval_task]

theorem tie_Timer_subscribe (g : Rx.Gen.SrcTimer.TimerObservable) (o : Rs.Obs) (h : Rs.Sub) :
    Rx.Gen.SrcTimer.TimerObservable.actual_subscribe g o h =
      some (g, [Rs.Ev.sched "timer_task" [g.item] (some g.dur) h.id]) := by
  rcases g with ⟨i, d, sc⟩; rs_simp [Rx.Gen.SrcTimer.TimerObservable.actual_subscribe]

theorem tie_Timer_task (o : Rs.Obs) (v : Val) :
    Rx.Gen.SrcTimer.Observer.task_timer_task o v =
      some (o, [Rs.Ev.n (Notif.next v), Rs.Ev.n Notif.complete]) := by
  rs_simp [Rx.Gen.SrcTimer.Observer.task_timer_task]

theorem tie_SubscribeOn_subscribe (g : Rx.Gen.SubscribeOn.SubscribeOnOP) (o : Rs.Obs) (h : Rs.Sub) :
    Rx.Gen.SubscribeOn.SubscribeOnOP.actual_subscribe g o h =
      some (g, [Rs.Ev.sched "subscribe_task" [Val.obs g.source.id] none h.id]) := by
  rcases g with ⟨s, sc⟩; rs_simp [Rx.Gen.SubscribeOn.SubscribeOnOP.actual_subscribe]

theorem tie_SubscribeOn_task (o : Rs.Obs) (src : Rs.Inner) :
    Rx.Gen.SubscribeOn.Observer.task_subscribe_task o src = some (o, [Rs.Ev.start src.id]) := by
  rs_simp [Rx.Gen.SubscribeOn.Observer.task_subscribe_task]

theorem startWith_loop (g : Rx.Gen.StartWith.StartWithOp) (o : Rs.Obs)
    (f : Rx.Gen.StartWith.StartWithOp × Rs.Out → Val → Option (Rx.Gen.StartWith.StartWithOp × Rs.Out))
    (hf : ∀ p v, f p v = some (p.1, p.2 ++ [Rs.Ev.n (Notif.next v)])) :
    ∀ (vs : List Val) (out : Rs.Out),
      Rs.forEach vs (g, out) f = some (g, out ++ vs.map (fun v => Rs.Ev.n (Notif.next v))) := by
  intro vs
  induction vs with
  | nil => intro out; simp
  | cons v r ih => intro out; simp [hf, ih, List.append_assoc]

/-- `start_with(values)`: the values in order, then — and only then — the source is subscribed -/
theorem tie_StartWith_subscribe (g : Rx.Gen.StartWith.StartWithOp) (o : Rs.Obs) (p : Rs.Pub) :
    Rx.Gen.StartWith.StartWithOp.actual_subscribe g o p =
      some (g, g.values.map (fun v => Rs.Ev.n (Notif.next v)) ++ [Rs.Ev.start g.source.id]) := by
  unfold Rx.Gen.StartWith.StartWithOp.actual_subscribe
  simp only [Option.pure_def, Option.bind_eq_bind]
  rw [startWith_loop g o _ (by intro p v; rs_simp []) g.values []]
  rs_simp []

end Rx.GenTie
