import RxModel.Gen.MergeThreads
import RxModel.GenTie.Tactics
/-! Tie (thread-safe flavour, C18: the `MutArc` / atomic instantiation of the same source is the SAME model cell): `MergeObserver` (one cell, the same observer type for both inputs) generated from
    src/ops/merge.rs IS the `St2.merge` cell of the model, for either input. -/
namespace Rx.GenTie
open Rx Rx.Gen.MergeThreads

def absTMerge (g : MergeObserver) : St2 := .merge g.observer.isSome g.completed_one

theorem tieT_Merge_next (g : MergeObserver) (sd : Side) (v : Val) :
    (MergeObserver.next g v).map (fun r => (absTMerge r.1, r.2)) = some (Rs.lift (St2.step (absTMerge g) sd (.next v))) := by
  rcases g with ⟨_ | _, c⟩ <;> rs_tie [MergeObserver.next, absTMerge, St2.step, St2.guard]

theorem tieT_Merge_error (g : MergeObserver) (sd : Side) (e : Err) :
    (MergeObserver.error g e).map (fun r => (absTMerge r.1, r.2)) = some (Rs.lift (St2.step (absTMerge g) sd (.error e))) := by
  rcases g with ⟨_ | _, c⟩ <;> rs_tie [MergeObserver.error, absTMerge, St2.step, St2.guard]

theorem tieT_Merge_complete (g : MergeObserver) (sd : Side) :
    (MergeObserver.complete g).map (fun r => (absTMerge r.1, r.2)) = some (Rs.lift (St2.step (absTMerge g) sd .complete)) := by
  rcases g with ⟨_ | _, _ | _⟩ <;> rs_tie [MergeObserver.complete, absTMerge, St2.step, St2.guard]


theorem tieT_Merge_init : absTMerge MergeObserver.init = Kind2.init .merge := by
  rs_simp [MergeObserver.init, absTMerge, Kind2.init]

end Rx.GenTie
