import RxModel.Gen.Derived
import RxModel.Lemmas.SingleChain
/-! Tie: the derived-operator layer — the provided methods of `trait ObservableExt` (src/observable.rs), translated as the
    operator chain each one BUILDS (with the closures the library itself supplies) — against

      (1) the hand-written chains `Derived.*` of the model (Ops/Init.lean), and
      (2) the DOCUMENTED list semantics (`Spec.first`, `Spec.all`, `Spec.reduceInitial`, … of Spec/ListSem.lean), for
          EVERY input stream (items and terminal) and every parameter / user closure:

          applyChain (ObservableExt.first_or I d) s = Spec.firstOr d s      etc.

    For the aggregates the closures are the library's own (`|acc, v| acc + v`, `|acc, _| acc + 1`, `max_fn`, `min_fn`,
    `accumulate_item`, `average_floats`), over an arbitrary item type (`Rs.ItemOps`: its `Add`, `PartialOrd`, `Default`,
    `Mul<f64>`): count = the number of items; sum = the left fold of `+` from `Default`; max / min = the left fold of
    "keep the old one iff old > new" (`<`) from the first item — nothing for an empty source, the `unwrap()` is never
    reached on `None`; average = `(Σ items) * (1.0 / n)`. -/
namespace Rx.GenTie
open Rx Rx.Spec Rx.Gen.Derived

/-! ### primitive wrappers: one operator each -/

theorem tie_D_take (I) (n : Nat) : ObservableExt.take I n = [.take n] := rfl
theorem tie_D_skip (I) (n : Nat) : ObservableExt.skip I n = [.skip n] := rfl
theorem tie_D_take_last (I) (n : Nat) : ObservableExt.take_last I n = [.takeLast n] := rfl
theorem tie_D_skip_last (I) (n : Nat) : ObservableExt.skip_last I n = [.skipLast n] := rfl
theorem tie_D_take_while (I) (p : Val → Bool) : ObservableExt.take_while I p = [.takeWhile p false] := rfl
theorem tie_D_take_while_inclusive (I) (p : Val → Bool) :
    ObservableExt.take_while_inclusive I p = [.takeWhile p true] := rfl
theorem tie_D_skip_while (I) (p : Val → Bool) : ObservableExt.skip_while I p = [.skipWhile p] := rfl
theorem tie_D_map (I) (f : Val → Val) : ObservableExt.map I f = [.map f] := rfl
theorem tie_D_map_to (I) (v : Val) : ObservableExt.map_to I v = [.mapTo v] := rfl
theorem tie_D_filter (I) (p : Val → Bool) : ObservableExt.filter I p = [.filter p] := rfl
theorem tie_D_filter_map (I) (f : Val → Option Val) : ObservableExt.filter_map I f = [.filterMap f] := rfl
theorem tie_D_tap (I) (f : Val → Unit) : ObservableExt.tap I f = [.tap] := rfl
theorem tie_D_on_error_map (I) (f : Err → Err) : ObservableExt.on_error_map I f = [.onErrorMap f] := rfl
theorem tie_D_last (I) : ObservableExt.last I = [.last] := rfl
theorem tie_D_default_if_empty (I) (d : Val) : ObservableExt.default_if_empty I d = [.defaultIfEmpty d] := rfl
theorem tie_D_scan_initial (I) (a : Val) (op : Val → Val → Val) : ObservableExt.scan_initial I a op = [.scan op a] := rfl
/-- `scan(op)` starts from `OutputItem::default()` -/
theorem tie_D_scan (I) (d : Val) (op : Val → Val → Val) : ObservableExt.scan I d op = [.scan op d] := rfl
theorem tie_D_distinct (I) : ObservableExt.distinct I = [.distinct] := rfl
theorem tie_D_distinct_key (I) (k : Val → Val) : ObservableExt.distinct_key I k = [.distinctKey k] := rfl
theorem tie_D_distinct_until_changed (I) : ObservableExt.distinct_until_changed I = [.distinctUntilChanged] := rfl
theorem tie_D_distinct_until_key_changed (I) (k : Val → Val) :
    ObservableExt.distinct_until_key_changed I k = [.distinctUntilKeyChanged k] := rfl
theorem tie_D_pairwise (I) : ObservableExt.pairwise I = [.pairwise] := rfl
theorem tie_D_buffer_with_count (I) (n : Nat) : ObservableExt.buffer_with_count I n = [.bufferCount n] := rfl
theorem tie_D_contains (I) (v : Val) : ObservableExt.contains I v = [.contains v] := rfl
/-- `collect()` starts from `C::default()`, the empty collection -/
theorem tie_D_collect (I) : ObservableExt.collect I = [.collect] := rfl

/-! ### compositions = the model's `Derived.*` chains -/

theorem tie_D_first (I) : ObservableExt.first I = Derived.first := rfl
theorem tie_D_first_or (I) (d : Val) : ObservableExt.first_or I d = Derived.firstOr d := rfl
theorem tie_D_last_or (I) (d : Val) : ObservableExt.last_or I d = Derived.lastOr d := rfl
theorem tie_D_element_at (I) (n : Nat) : ObservableExt.element_at I n = Derived.elementAt n := rfl
theorem tie_D_ignore_elements (I) : ObservableExt.ignore_elements I = Derived.ignoreElements := rfl
theorem tie_D_reduce_initial (I) (a : Val) (op : Val → Val → Val) :
    ObservableExt.reduce_initial I a op = Derived.reduceInitial op a := rfl
theorem tie_D_reduce (I) (d : Val) (op : Val → Val → Val) :
    ObservableExt.reduce I d op = Derived.reduceInitial op d := rfl

/-- the library's `not` on the booleans that `map(pred)` produces = the model's `isFalse` -/
theorem filter_not_map (p : Val → Bool) (xs : List Val) :
    (xs.map (Rs.enc1 p)).filter (Rs.encPred (fun (b : Bool) => !b)) =
      (xs.map fun v => Val.bool (p v)).filter Derived.isFalse := by
  induction xs with
  | nil => rfl
  | cons x xs ih =>
    cases h : p x <;>
      simp [Rs.enc1, Rs.encPred, Rs.ToVal.toVal, Rs.FromVal.fromVal, Derived.isFalse, h] at ih ⊢ <;> exact ih

theorem tie_D_all (I) (p : Val → Bool) (s : Stream) :
    applyChain (ObservableExt.all I p) s = applyChain (Derived.all p) s := by
  obtain ⟨xs, t⟩ := s
  simp only [applyChain, ObservableExt.all, Derived.all, apply, List.foldl_cons, List.foldl_nil, List.nil_append,
    List.cons_append, List.append_nil, filter_not_map]
  have : (xs.map (Rs.enc1 p)) = xs.map (fun v => Val.bool (p v)) := rfl
  simp [Rs.ToVal.toVal, this]

/-! ### the documented list semantics, for every input stream -/

theorem D_first (I) (s : Stream) : applyChain (ObservableExt.first I) s = Spec.first s := derived_first s
theorem D_first_or (I) (d : Val) (s : Stream) : applyChain (ObservableExt.first_or I d) s = Spec.firstOr d s :=
  derived_firstOr d s
theorem D_last_or (I) (d : Val) (s : Stream) : applyChain (ObservableExt.last_or I d) s = Spec.lastOr d s :=
  derived_lastOr d s
theorem D_element_at (I) (n : Nat) (s : Stream) : applyChain (ObservableExt.element_at I n) s = Spec.elementAt n s :=
  derived_elementAt n s
theorem D_ignore_elements (I) (s : Stream) : applyChain (ObservableExt.ignore_elements I) s = Spec.ignoreElements s :=
  derived_ignoreElements s
theorem D_all (I) (p : Val → Bool) (s : Stream) : applyChain (ObservableExt.all I p) s = Spec.all p s := by
  rw [tie_D_all]; exact derived_all p s
theorem D_reduce_initial (I) (a : Val) (op : Val → Val → Val) (s : Stream) :
    applyChain (ObservableExt.reduce_initial I a op) s = Spec.reduceInitial op a s := derived_reduceInitial op a s
theorem D_reduce (I) (d : Val) (op : Val → Val → Val) (s : Stream) :
    applyChain (ObservableExt.reduce I d op) s = Spec.reduceInitial op d s := derived_reduceInitial op d s

/-- `sum()`: the left fold of the item type's `+` from its `Default`, emitted on completion -/
theorem D_sum (I : Rs.ItemOps) (s : Stream) :
    applyChain (ObservableExt.sum I) s = Spec.reduceInitial I.add I.dflt s := derived_reduceInitial _ _ s

theorem count_fold (xs : List Val) (n : Nat) :
    xs.foldl (Rs.enc2 (fun (acc : Nat) (_ : Val) => acc + 1)) (Val.int n) = Val.int (n + xs.length : Nat) := by
  induction xs generalizing n with
  | nil => simp
  | cons x xs ih =>
    have : Rs.enc2 (fun (acc : Nat) (_ : Val) => acc + 1) (Val.int n) x = Val.int ((n + 1 : Nat)) := by
      simp [Rs.enc2, Rs.ToVal.toVal, Rs.FromVal.fromVal]
    rw [List.foldl_cons, this, ih]; congr 2; simp; omega

/-- `count()`: the number of items, emitted on completion (0 for an empty source; nothing with an error) -/
theorem D_count (I : Rs.ItemOps) (s : Stream) :
    applyChain (ObservableExt.count I) s = ⟨onlyOnComplete s.term [Val.int s.items.length], s.term⟩ := by
  have h := derived_reduceInitial (Rs.enc2 (fun (acc : Nat) (_ : Val) => acc + 1)) (Val.int (0 : Nat)) s
  obtain ⟨xs, t⟩ := s
  have hc := count_fold xs 0
  simp only [Nat.zero_add] at hc
  have e : ObservableExt.count I = Derived.reduceInitial (Rs.enc2 (fun (acc : Nat) (_ : Val) => acc + 1)) (Val.int (0 : Nat)) := rfl
  rw [e, h]; simp only [Spec.reduceInitial]; rw [hc]

/-- "keep the old one iff `old ≻ new`", from the first item -/
def pick (better : Val → Val → Bool) (x : Val) (xs : List Val) : Val :=
  xs.foldl (fun m v => if better m v then m else v) x

def maxFn (I : Rs.ItemOps) : Val → Val → Val :=
  Rs.enc2 (fun (max : Option Val) (v : Val) => match max with | some max => if I.gt max v then some max else some v | _ => some v)
def minFn (I : Rs.ItemOps) : Val → Val → Val :=
  Rs.enc2 (fun (min : Option Val) (v : Val) => match min with | some min => if I.lt min v then some min else some v | _ => some v)

theorem pick_fold (better : Val → Val → Bool) (f : Val → Val → Val)
    (hf : ∀ m v, f (Val.some m) v = Val.some (if better m v then m else v)) (x : Val) (xs : List Val) :
    xs.foldl f (Val.some x) = Val.some (pick better x xs) := by
  induction xs generalizing x with
  | nil => rfl
  | cons y ys ih => rw [List.foldl_cons, hf, ih]; rfl

theorem maxFn_some (I : Rs.ItemOps) (m v : Val) : maxFn I (Val.some m) v = Val.some (if I.gt m v then m else v) := by
  by_cases h : I.gt m v <;> simp [maxFn, Rs.enc2, Rs.ToVal.toVal, Rs.FromVal.fromVal, h]
theorem maxFn_none (I : Rs.ItemOps) (v : Val) : maxFn I Val.none v = Val.some v := by
  simp [maxFn, Rs.enc2, Rs.ToVal.toVal, Rs.FromVal.fromVal]
theorem minFn_some (I : Rs.ItemOps) (m v : Val) : minFn I (Val.some m) v = Val.some (if I.lt m v then m else v) := by
  by_cases h : I.lt m v <;> simp [minFn, Rs.enc2, Rs.ToVal.toVal, Rs.FromVal.fromVal, h]
theorem minFn_none (I : Rs.ItemOps) (v : Val) : minFn I Val.none v = Val.some v := by
  simp [minFn, Rs.enc2, Rs.ToVal.toVal, Rs.FromVal.fromVal]

theorem unwrap_some (x : Val) : Rs.enc1 (fun (v : Option Val) => Rs.unwrapP v) (Val.some x) = x := by
  simp [Rs.enc1, Rs.unwrapP, Rs.ToVal.toVal, Rs.FromVal.fromVal]

/-- `max()`: on completion the running maximum w.r.t. the item type's `>` (the EARLIER of two items neither of which
    is greater is replaced by the later one), nothing for an empty source; the closure's `unwrap()` only ever sees
    `Some(_)` -/
theorem D_max (I : Rs.ItemOps) (s : Stream) :
    applyChain (ObservableExt.max I) s =
      ⟨onlyOnComplete s.term (match s.items with | [] => [] | x :: xs => [pick I.gt x xs]), s.term⟩ := by
  have e : ObservableExt.max I = Derived.aggregate (maxFn I) Val.none (Rs.enc1 (fun (v : Option Val) => Rs.unwrapP v)) := rfl
  rw [e, derived_aggregate]
  obtain ⟨xs, t⟩ := s
  cases xs with
  | nil => simp [Spec.aggregate]
  | cons x r =>
    simp only [Spec.aggregate, List.foldl_cons, maxFn_none]
    rw [pick_fold I.gt (maxFn I) (maxFn_some I), unwrap_some]; simp

theorem D_min (I : Rs.ItemOps) (s : Stream) :
    applyChain (ObservableExt.min I) s =
      ⟨onlyOnComplete s.term (match s.items with | [] => [] | x :: xs => [pick I.lt x xs]), s.term⟩ := by
  have e : ObservableExt.min I = Derived.aggregate (minFn I) Val.none (Rs.enc1 (fun (v : Option Val) => Rs.unwrapP v)) := rfl
  rw [e, derived_aggregate]
  obtain ⟨xs, t⟩ := s
  cases xs with
  | nil => simp [Spec.aggregate]
  | cons x r =>
    simp only [Spec.aggregate, List.foldl_cons, minFn_none]
    rw [pick_fold I.lt (minFn I) (minFn_some I), unwrap_some]; simp

def avgAccFn (I : Rs.ItemOps) : Val → Val → Val :=
  Rs.enc2 (fun (acc : Val × Nat) (v : Val) => (I.add acc.1 v, acc.2 + 1))

theorem avg_fold (I : Rs.ItemOps) (xs : List Val) (a : Val) (n : Nat) :
    xs.foldl (avgAccFn I) (Val.pair a (Val.int n)) = Val.pair (xs.foldl I.add a) (Val.int (n + xs.length : Nat)) := by
  induction xs generalizing a n with
  | nil => simp
  | cons x xs ih =>
    have : avgAccFn I (Val.pair a (Val.int n)) x = Val.pair (I.add a x) (Val.int ((n + 1 : Nat))) := by
      simp [avgAccFn, Rs.enc2, Rs.ToVal.toVal, Rs.FromVal.fromVal]
    rw [List.foldl_cons, this, ih]; simp only [List.foldl_cons, List.length_cons]; congr 2; simp; omega

/-- `average()`: on completion `(Σ items) * (1.0 / n)` with the item type's `+`, `Default` and `Mul<f64>`; nothing
    for an empty source (so the division is never by zero) -/
theorem D_average (I : Rs.ItemOps) (s : Stream) :
    applyChain (ObservableExt.average I) s =
      ⟨onlyOnComplete s.term (if s.items.isEmpty then [] else
          [I.mulf (s.items.foldl I.add I.dflt) (Rs.F64.div (Rs.F64.lit "1.0") (Rs.F64.ofNat s.items.length))]), s.term⟩ := by
  have e : ObservableExt.average I = Derived.aggregate (avgAccFn I) (Val.pair I.dflt (Val.int (0 : Nat)))
      (Rs.enc1 (fun (acc : Val × Nat) => I.mulf acc.1 (Rs.F64.div (Rs.F64.lit "1.0") (Rs.F64.ofNat acc.2)))) := rfl
  rw [e, derived_aggregate]
  obtain ⟨xs, t⟩ := s
  simp only [Spec.aggregate, avg_fold]
  simp [Rs.enc1, Rs.ToVal.toVal, Rs.FromVal.fromVal]

end Rx.GenTie
