import RxModel.Gen.PinCompleteStatus
/-! Transcription pins (DESIGN II.7, weakest tie): for the files of /repo/src whose Lean model is a HAND transcription
    (ref_count, connectable, from_future, from_stream(_result), complete_status, box_it, defer, create, rc.rs, behavior.rs,
    subscribe_item), `rs2lean` writes the token text of every item (doc comments and test modules dropped) into
    `Gen/Pin*.lean` on every run; the theorems below say that this text is the one the transcription was made from.
    A pin that no longer holds means: the file changed — the sampled correspondence decides whether a property broke, and
    the transcription has to be re-read (tools/gen_pins.py regenerates this file afterwards). -/
namespace Rx.GenTie

/-! ### PinCompleteStatus -/
theorem pin_CompleteStatus_0 : Rx.Gen.PinCompleteStatus.item_0 = ("struct CompleteStatus", "# [derive (Default)] pub struct CompleteStatus { flag : AtomicI8 , waker : futures :: task :: AtomicWaker , }") := rfl
theorem pin_CompleteStatus_1 : Rx.Gen.PinCompleteStatus.item_1 = ("struct StatusOp", "pub struct StatusOp < S > { source : S , status : Arc < CompleteStatus > , }") := rfl
theorem pin_CompleteStatus_2 : Rx.Gen.PinCompleteStatus.item_2 = ("fn complete_status", "pub fn complete_status < Item , Err , S : ObservableExt < Item , Err > > (source : S ,) -> (StatusOp < S > , Arc < CompleteStatus >) { let status = Arc :: new (CompleteStatus :: default ()) ; (StatusOp { source , status : status . clone () } , status) }") := rfl
theorem pin_CompleteStatus_3 : Rx.Gen.PinCompleteStatus.item_3 = ("impl Observable < Item , Err , O > for StatusOp < S > (header)", "< S , Item , Err , O > impl Observable < Item , Err , O > for StatusOp < S > where O : Observer < Item , Err > , S : Observable < Item , Err , StatusObserver < O > > ,") := rfl
theorem pin_CompleteStatus_4 : Rx.Gen.PinCompleteStatus.item_4 = ("impl Observable < Item , Err , O > for StatusOp < S > :: item", "type Unsub = S :: Unsub ;") := rfl
theorem pin_CompleteStatus_5 : Rx.Gen.PinCompleteStatus.item_5 = ("impl Observable < Item , Err , O > for StatusOp < S > :: fn actual_subscribe", "fn actual_subscribe (self , observer : O) -> Self :: Unsub { let Self { source , status } = self ; source . actual_subscribe (StatusObserver { observer , status }) }") := rfl
theorem pin_CompleteStatus_6 : Rx.Gen.PinCompleteStatus.item_6 = ("impl ObservableExt < Item , Err > for StatusOp < S > (header)", "< S , Item , Err > impl ObservableExt < Item , Err > for StatusOp < S > where S : ObservableExt < Item , Err >") := rfl
theorem pin_CompleteStatus_7 : Rx.Gen.PinCompleteStatus.item_7 = ("struct StatusObserver", "pub struct StatusObserver < O > { observer : O , status : Arc < CompleteStatus > , }") := rfl
theorem pin_CompleteStatus_8 : Rx.Gen.PinCompleteStatus.item_8 = ("impl Observer < Item , Err > for StatusObserver < O > (header)", "< Item , Err , O > impl Observer < Item , Err > for StatusObserver < O > where O : Observer < Item , Err > ,") := rfl
theorem pin_CompleteStatus_9 : Rx.Gen.PinCompleteStatus.item_9 = ("impl Observer < Item , Err > for StatusObserver < O > :: fn next", "# [inline] fn next (& mut self , value : Item) { self . observer . next (value) }") := rfl
theorem pin_CompleteStatus_10 : Rx.Gen.PinCompleteStatus.item_10 = ("impl Observer < Item , Err > for StatusObserver < O > :: fn error", "fn error (self , err : Err) { self . observer . error (err) ; self . status . flag . store (- 1 , Ordering :: Relaxed) ; self . status . waker . wake () ; }") := rfl
theorem pin_CompleteStatus_11 : Rx.Gen.PinCompleteStatus.item_11 = ("impl Observer < Item , Err > for StatusObserver < O > :: fn complete", "fn complete (self) { self . observer . complete () ; self . status . flag . store (1 , Ordering :: Relaxed) ; self . status . waker . wake () ; }") := rfl
theorem pin_CompleteStatus_12 : Rx.Gen.PinCompleteStatus.item_12 = ("impl Observer < Item , Err > for StatusObserver < O > :: fn is_finished", "# [inline] fn is_finished (& self) -> bool { self . observer . is_finished () }") := rfl
theorem pin_CompleteStatus_13 : Rx.Gen.PinCompleteStatus.item_13 = ("impl CompleteStatus (header)", " impl CompleteStatus") := rfl
theorem pin_CompleteStatus_14 : Rx.Gen.PinCompleteStatus.item_14 = ("impl CompleteStatus :: fn is_closed", "pub fn is_closed (& self) -> bool { self . flag . load (Ordering :: Relaxed) != 0 }") := rfl
theorem pin_CompleteStatus_15 : Rx.Gen.PinCompleteStatus.item_15 = ("impl CompleteStatus :: fn is_completed", "pub fn is_completed (& self) -> bool { self . flag . load (Ordering :: Relaxed) > 0 }") := rfl
theorem pin_CompleteStatus_16 : Rx.Gen.PinCompleteStatus.item_16 = ("impl CompleteStatus :: fn error_occur", "pub fn error_occur (& self) -> bool { self . flag . load (Ordering :: Relaxed) < 0 }") := rfl
theorem pin_CompleteStatus_17 : Rx.Gen.PinCompleteStatus.item_17 = ("impl CompleteStatus :: fn wait_for_end", "pub fn wait_for_end (this : Arc < Self >) { block_on (StatusFuture (this)) ; }") := rfl
theorem pin_CompleteStatus_18 : Rx.Gen.PinCompleteStatus.item_18 = ("struct StatusFuture", "struct StatusFuture (Arc < CompleteStatus >) ;") := rfl
theorem pin_CompleteStatus_19 : Rx.Gen.PinCompleteStatus.item_19 = ("impl Future for StatusFuture (header)", " impl Future for StatusFuture") := rfl
theorem pin_CompleteStatus_20 : Rx.Gen.PinCompleteStatus.item_20 = ("impl Future for StatusFuture :: item", "type Output = NormalReturn < () > ;") := rfl
theorem pin_CompleteStatus_21 : Rx.Gen.PinCompleteStatus.item_21 = ("impl Future for StatusFuture :: fn poll", "fn poll (self : std :: pin :: Pin < & mut Self > , cx : & mut std :: task :: Context < '_ > ,) -> Poll < Self :: Output > { if self . 0 . is_closed () { Poll :: Ready (NormalReturn :: new (())) } else { # [cfg (feature = \"verif_hooks\")] verif :: after_check () ; self . 0 . waker . register (cx . waker ()) ; if self . 0 . is_closed () { Poll :: Ready (NormalReturn :: new (())) } else { Poll :: Pending } } }") := rfl
theorem pin_CompleteStatus_22 : Rx.Gen.PinCompleteStatus.item_22 = ("mod verif :: macro thread_local", "thread_local ! { pub static AFTER_CHECK : RefCell < Option < Box < dyn FnOnce () >>> = RefCell :: new (None) ; }") := rfl
theorem pin_CompleteStatus_23 : Rx.Gen.PinCompleteStatus.item_23 = ("mod verif :: fn after_check", "pub fn after_check () { let f = AFTER_CHECK . with (| c | c . borrow_mut () . take ()) ; if let Some (f) = f { f () } }") := rfl
theorem pin_CompleteStatus_count : Rx.Gen.PinCompleteStatus.items.length = 24 := rfl

end Rx.GenTie
