import RxModel.Gen.Merge
import RxModel.GenTie.Tactics
/-! Tie: `MergeObserver` (one cell, the same observer type for both inputs) generated from
    src/ops/merge.rs IS the `St2.merge` cell of the model, for either input. -/
namespace Rx.GenTie
open Rx Rx.Gen.Merge

def absMerge (g : MergeObserver) : St2 := .merge g.observer.isSome g.completed_one

theorem tie_Merge_next (g : MergeObserver) (sd : Side) (v : Val) :
    (MergeObserver.next g v).map (fun r => (absMerge r.1, r.2)) = some (Rs.lift (St2.step (absMerge g) sd (.next v))) := by
  rcases g with ⟨_ | _, c⟩ <;> rs_tie [MergeObserver.next, absMerge, St2.step, St2.guard]

theorem tie_Merge_error (g : MergeObserver) (sd : Side) (e : Err) :
    (MergeObserver.error g e).map (fun r => (absMerge r.1, r.2)) = some (Rs.lift (St2.step (absMerge g) sd (.error e))) := by
  rcases g with ⟨_ | _, c⟩ <;> rs_tie [MergeObserver.error, absMerge, St2.step, St2.guard]

theorem tie_Merge_complete (g : MergeObserver) (sd : Side) :
    (MergeObserver.complete g).map (fun r => (absMerge r.1, r.2)) = some (Rs.lift (St2.step (absMerge g) sd .complete)) := by
  rcases g with ⟨_ | _, _ | _⟩ <;> rs_tie [MergeObserver.complete, absMerge, St2.step, St2.guard]


theorem tie_Merge_init : absMerge MergeObserver.init = Kind2.init .merge := by
  rs_simp [MergeObserver.init, absMerge, Kind2.init]

end Rx.GenTie
