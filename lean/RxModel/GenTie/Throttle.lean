import RxModel.Gen.Throttle
import RxModel.GenTie.Subscription
import RxModel.GenTie.RcObserver
/-! Tie: `ThrottleObserver` and its task `throttle_task` (src/ops/throttle.rs, compiler-expanded, translated) in
    closed form — the `throttle` stage of the chain model (`Stage.throttle d edge alive trailing handler`):
      next v    no edge: nothing.  Trailing edge: `v` becomes the candidate.  Window over (no handler, or its task
                closed): on the leading edge the candidate is CLEARED and `v` delivered at once; then ONE window task is
                scheduled with `duration_selector(v)` and kept in the handler cell.  Window open: nothing else.
      the task  delivers the candidate, if any, and clears it
      complete  flushes the candidate, cancels the window task, completes; error: forwarded, window task cancelled. -/
namespace Rx.GenTie
open Rx Rx.Gen.Throttle

/-- the window is over -/
def windowOver (g : ThrottleObserver) (c : Nat → Bool) : Bool :=
  match g.task_handler with | some h => c h.id | none => true

theorem tie_Throttle_next_no_edge (g : ThrottleObserver) (v : Val) (h : Rs.Sub) (c : Nat → Bool)
    (he : g.edge.leading = false ∧ g.edge.tailing = false) :
    ThrottleObserver.next g v h c = some (g, []) := by
  rcases g with ⟨sc, o, ⟨t, l⟩, ds, tv, th⟩
  simp only at he; rcases he with ⟨rfl, rfl⟩
  rs_simp [ThrottleObserver.next]

theorem tie_Throttle_next_open (g : ThrottleObserver) (v : Val) (h : Rs.Sub) (c : Nat → Bool)
    (he : g.edge.leading = true ∨ g.edge.tailing = true) (hw : windowOver g c = false) :
    ThrottleObserver.next g v h c =
      some ({ g with trailing_value := if g.edge.tailing then some v else g.trailing_value }, []) := by
  rcases g with ⟨sc, o, ⟨t, l⟩, ds, tv, _ | old⟩
  · simp [windowOver] at hw
  · simp only [windowOver] at hw
    cases t <;> cases l <;> simp at he <;> rs_simp [ThrottleObserver.next, hw]

theorem tie_Throttle_next_over (g : ThrottleObserver) (v : Val) (h : Rs.Sub) (c : Nat → Bool)
    (he : g.edge.leading = true ∨ g.edge.tailing = true) (hw : windowOver g c = true) :
    ThrottleObserver.next g v h c =
      some ({ g with
              trailing_value := if g.edge.leading then none else if g.edge.tailing then some v else g.trailing_value,
              task_handler := some h },
            (if g.edge.leading ∧ g.observer.isSome then [Rs.Ev.n (Notif.next v)] else []) ++
              [Rs.Ev.sched "throttle_task" [] (some (g.duration_selector v)) h.id]) := by
  rcases g with ⟨sc, _ | o, ⟨t, l⟩, ds, tv, _ | old⟩ <;> simp only [windowOver] at hw <;>
    cases t <;> cases l <;> simp at he <;> rs_simp [ThrottleObserver.next, hw, rc_next]

theorem tie_Throttle_task (g : ThrottleObserver) :
    ThrottleObserver.task_throttle_task g =
      some ({ g with trailing_value := none },
            match g.trailing_value with
            | some v => if g.observer.isSome then [Rs.Ev.n (Notif.next v)] else []
            | none => []) := by
  rcases g with ⟨sc, _ | o, e, ds, _ | v, th⟩ <;> rs_simp [ThrottleObserver.task_throttle_task, rc_next]

theorem tie_Throttle_complete (g : ThrottleObserver) :
    ThrottleObserver.complete g =
      some ({ g with trailing_value := none, task_handler := none, observer := none },
            (match g.trailing_value with
              | some v => if g.observer.isSome then [Rs.Ev.n (Notif.next v)] else []
              | none => []) ++
            (match g.task_handler with | some t => [Rs.Ev.unsub t.id] | none => []) ++
            (if g.observer.isSome then [Rs.Ev.n Notif.complete] else [])) := by
  rcases g with ⟨sc, _ | o, e, ds, _ | v, _ | t⟩ <;>
    rs_simp [ThrottleObserver.complete, rc_next, rc_complete, Rx.Gen.Subscription.RcSubscription.unsubscribe]

theorem tie_Throttle_error (g : ThrottleObserver) (e : Err) :
    ThrottleObserver.error g e =
      some ({ g with task_handler := none, observer := none },
            (if g.observer.isSome then [Rs.Ev.n (Notif.error e)] else []) ++
            (match g.task_handler with | some t => [Rs.Ev.unsub t.id] | none => [])) := by
  rcases g with ⟨sc, _ | o, ed, ds, tv, _ | t⟩ <;>
    rs_simp [ThrottleObserver.error, rc_error, Rx.Gen.Subscription.RcSubscription.unsubscribe]

theorem tie_Throttle_finished (g : ThrottleObserver) (d : Bool) :
    ThrottleObserver.is_finished g d = (!g.observer.isSome || d) := by
  rcases g with ⟨sc, _ | o, e, ds, tv, th⟩ <;> rs_simp [ThrottleObserver.is_finished, rc_finished]

end Rx.GenTie
