import RxModel.Gen.PinDefer
import RxModel.Gen.PinFromFn
import RxModel.Gen.PinBoxIt
/-! Transcription pins (DESIGN II.7, weakest tie): for the files of /repo/src whose Lean model is a HAND transcription
    (ref_count, connectable, from_future, from_stream(_result), complete_status, box_it, defer, create, rc.rs, behavior.rs,
    subscribe_item), `rs2lean` writes the token text of every item (doc comments and test modules dropped) into
    `Gen/Pin*.lean` on every run; the theorems below say that this text is the one the transcription was made from.
    A pin that no longer holds means: the file changed — the sampled correspondence decides whether a property broke, and
    the transcription has to be re-read (tools/gen_pins.py regenerates this file afterwards). -/
namespace Rx.GenTie

/-! ### PinDefer -/
theorem pin_Defer_0 : Rx.Gen.PinDefer.item_0 = ("fn defer", "pub fn defer < F , U > (observable_supplier : F) -> ObservableDeref < F > where F : FnOnce () -> U , { ObservableDeref (observable_supplier) }") := rfl
theorem pin_Defer_1 : Rx.Gen.PinDefer.item_1 = ("struct ObservableDeref", "# [derive (Clone)] pub struct ObservableDeref < F > (F) ;") := rfl
theorem pin_Defer_2 : Rx.Gen.PinDefer.item_2 = ("impl Observable < Item , Err , O > for ObservableDeref < F > (header)", "< Item , Err , O , F , U > impl Observable < Item , Err , O > for ObservableDeref < F > where F : FnOnce () -> U , U : Observable < Item , Err , O > , O : Observer < Item , Err > ,") := rfl
theorem pin_Defer_3 : Rx.Gen.PinDefer.item_3 = ("impl Observable < Item , Err , O > for ObservableDeref < F > :: item", "type Unsub = U :: Unsub ;") := rfl
theorem pin_Defer_4 : Rx.Gen.PinDefer.item_4 = ("impl Observable < Item , Err , O > for ObservableDeref < F > :: fn actual_subscribe", "fn actual_subscribe (self , observer : O) -> Self :: Unsub { (self . 0) () . actual_subscribe (observer) }") := rfl
theorem pin_Defer_5 : Rx.Gen.PinDefer.item_5 = ("impl ObservableExt < Item , Err > for ObservableDeref < F > (header)", "< Item , Err , F , U > impl ObservableExt < Item , Err > for ObservableDeref < F > where F : FnOnce () -> U , U : ObservableExt < Item , Err > ,") := rfl
theorem pin_Defer_count : Rx.Gen.PinDefer.items.length = 6 := rfl

/-! ### PinFromFn -/
theorem pin_FromFn_0 : Rx.Gen.PinFromFn.item_0 = ("fn create", "pub fn create < F , Item , Err , P > (func : F) -> ObservableFn < F , P > where F : FnOnce (P) , P : Observer < Item , Err > + Subscription , { ObservableFn { func , _hint : TypeHint :: default () } }") := rfl
theorem pin_FromFn_1 : Rx.Gen.PinFromFn.item_1 = ("struct ObservableFn", "pub struct ObservableFn < F , P > { func : F , _hint : TypeHint < P > , }") := rfl
theorem pin_FromFn_2 : Rx.Gen.PinFromFn.item_2 = ("macro impl_observable", "macro_rules ! impl_observable { ($ subscriber : ident $ ($ bounds : tt) *) => { impl < F , Item , Err , O > Observable < Item , Err , O > for ObservableFn < F , $ subscriber < O >> where F : FnOnce ($ subscriber < O >) , O : Observer < Item , Err > $ ($ bounds) * { type Unsub = $ subscriber < O >; fn actual_subscribe (self , observer : O) -> Self :: Unsub { let subscriber = $ subscriber :: new (Some (observer)) ; (self . func) (subscriber . clone ()) ; subscriber } } impl < F , Item , Err , O > ObservableExt < Item , Err > for ObservableFn < F , $ subscriber < O >> where F : FnOnce ($ subscriber < O >) , O : Observer < Item , Err > { } } ; }") := rfl
theorem pin_FromFn_3 : Rx.Gen.PinFromFn.item_3 = ("macro impl_observable", "impl_observable ! (Subscriber) ;") := rfl
theorem pin_FromFn_4 : Rx.Gen.PinFromFn.item_4 = ("macro impl_observable", "impl_observable ! (SubscriberThreads + Send + 'static) ;") := rfl
theorem pin_FromFn_5 : Rx.Gen.PinFromFn.item_5 = ("impl Clone for ObservableFn < F , P > (header)", "< F , P > impl Clone for ObservableFn < F , P > where F : Clone ,") := rfl
theorem pin_FromFn_6 : Rx.Gen.PinFromFn.item_6 = ("impl Clone for ObservableFn < F , P > :: fn clone", "# [inline] fn clone (& self) -> Self { Self { func : self . func . clone () , _hint : TypeHint :: new () , } }") := rfl
theorem pin_FromFn_count : Rx.Gen.PinFromFn.items.length = 7 := rfl

/-! ### PinBoxIt -/
theorem pin_BoxIt_0 : Rx.Gen.PinBoxIt.item_0 = ("trait BoxIt :: fn box_it", "fn box_it (self) -> O ;") := rfl
theorem pin_BoxIt_1 : Rx.Gen.PinBoxIt.item_1 = ("struct BoxOp", "pub struct BoxOp < 'a , Item , Err > (Box < dyn BoxObservable < 'a , Item , Err > + 'a >) ;") := rfl
theorem pin_BoxIt_2 : Rx.Gen.PinBoxIt.item_2 = ("struct CloneableBoxOp", "pub struct CloneableBoxOp < 'a , Item , Err > (Box < dyn CloneableBox < 'a , Item , Err > + 'a > ,) ;") := rfl
theorem pin_BoxIt_3 : Rx.Gen.PinBoxIt.item_3 = ("struct BoxOpThreads", "pub struct BoxOpThreads < Item , Err > (Box < dyn BoxObservableThreads < Item , Err > + Send > ,) ;") := rfl
theorem pin_BoxIt_4 : Rx.Gen.PinBoxIt.item_4 = ("struct CloneableBoxOpThreads", "pub struct CloneableBoxOpThreads < Item , Err > (Box < dyn CloneableBoxThreads < Item , Err > + Send > ,) ;") := rfl
theorem pin_BoxIt_5 : Rx.Gen.PinBoxIt.item_5 = ("trait BoxObservable :: fn box_subscribe", "fn box_subscribe (self : Box < Self > , observer : BoxObserver < 'a , Item , Err > ,) -> BoxSubscription ;") := rfl
theorem pin_BoxIt_6 : Rx.Gen.PinBoxIt.item_6 = ("trait BoxObservableThreads :: fn box_subscribe", "fn box_subscribe (self : Box < Self > , observer : BoxObserverThreads < Item , Err > ,) -> BoxSubscriptionThreads ;") := rfl
theorem pin_BoxIt_7 : Rx.Gen.PinBoxIt.item_7 = ("trait CloneableBox :: fn box_clone", "fn box_clone (& self) -> Box < dyn CloneableBox < 'a , Item , Err > + 'a > ;") := rfl
theorem pin_BoxIt_8 : Rx.Gen.PinBoxIt.item_8 = ("trait CloneableBoxThreads :: fn box_clone", "fn box_clone (& self) -> Box < dyn CloneableBoxThreads < Item , Err > + Send > ;") := rfl
theorem pin_BoxIt_9 : Rx.Gen.PinBoxIt.item_9 = ("impl BoxObservable < 'a , Item , Err > for T (header)", "< 'a , Item , Err , T > impl BoxObservable < 'a , Item , Err > for T where T : Observable < Item , Err , BoxObserver < 'a , Item , Err > > , T :: Unsub : 'a ,") := rfl
theorem pin_BoxIt_10 : Rx.Gen.PinBoxIt.item_10 = ("impl BoxObservable < 'a , Item , Err > for T :: fn box_subscribe", "fn box_subscribe (self : Box < Self > , observer : BoxObserver < 'a , Item , Err > ,) -> BoxSubscription { let u = self . actual_subscribe (observer) ; BoxSubscription :: new (u) }") := rfl
theorem pin_BoxIt_11 : Rx.Gen.PinBoxIt.item_11 = ("impl BoxObservableThreads < Item , Err > for T (header)", "< Item , Err , T > impl BoxObservableThreads < Item , Err > for T where T : Observable < Item , Err , BoxObserverThreads < Item , Err > > , T :: Unsub : Send + 'static ,") := rfl
theorem pin_BoxIt_12 : Rx.Gen.PinBoxIt.item_12 = ("impl BoxObservableThreads < Item , Err > for T :: fn box_subscribe", "fn box_subscribe (self : Box < Self > , observer : BoxObserverThreads < Item , Err > ,) -> BoxSubscriptionThreads { let u = self . actual_subscribe (observer) ; BoxSubscriptionThreads :: new (u) }") := rfl
theorem pin_BoxIt_13 : Rx.Gen.PinBoxIt.item_13 = ("macro impl_observable_for_box", "macro_rules ! impl_observable_for_box { ($ ty : ty , $ box_observer : ident , $ subscription : ty $ (,$ lf : lifetime) ? $ (,$ send : ident) ?) => { impl <$ ($ lf ,) ? Item , Err , O > Observable < Item , Err , O > for $ ty where O : Observer < Item , Err > $ (+$ lf) ? $ (+ $ send +'static) ?, { type Unsub = $ subscription ; # [inline] fn actual_subscribe (self , observer : O) -> Self :: Unsub { self . 0 . box_subscribe ($ box_observer :: new (observer)) } } impl <$ ($ lf ,) ? Item , Err > ObservableExt < Item , Err > for $ ty { } } ; }") := rfl
theorem pin_BoxIt_14 : Rx.Gen.PinBoxIt.item_14 = ("macro impl_observable_for_box", "impl_observable_for_box ! (BoxOp <'a , Item , Err >, BoxObserver , BoxSubscription <'a >, 'a) ;") := rfl
theorem pin_BoxIt_15 : Rx.Gen.PinBoxIt.item_15 = ("macro impl_observable_for_box", "impl_observable_for_box ! (BoxOpThreads < Item , Err >, BoxObserverThreads , BoxSubscriptionThreads , Send) ;") := rfl
theorem pin_BoxIt_16 : Rx.Gen.PinBoxIt.item_16 = ("macro impl_observable_for_box", "impl_observable_for_box ! (CloneableBoxOp <'a , Item , Err >, BoxObserver , BoxSubscription <'a >, 'a) ;") := rfl
theorem pin_BoxIt_17 : Rx.Gen.PinBoxIt.item_17 = ("macro impl_observable_for_box", "impl_observable_for_box ! (CloneableBoxOpThreads < Item , Err >, BoxObserverThreads , BoxSubscriptionThreads , Send) ;") := rfl
theorem pin_BoxIt_18 : Rx.Gen.PinBoxIt.item_18 = ("macro impl_box_it", "macro_rules ! impl_box_it { ($ ($ lf : lifetime ,) ? $ name : ident , $ ($ bounds : tt) *) => { impl <$ ($ lf ,) ? Item , Err , O > BoxIt <$ name <$ ($ lf ,) ? Item , Err >> for O where O : $ ($ bounds) *, { # [inline] fn box_it (self) -> $ name <$ ($ lf ,) ? Item , Err > { $ name (Box :: new (self)) } } } ; }") := rfl
theorem pin_BoxIt_19 : Rx.Gen.PinBoxIt.item_19 = ("macro impl_box_it", "impl_box_it ! ('a , BoxOp , BoxObservable <'a , Item , Err > +'a) ;") := rfl
theorem pin_BoxIt_20 : Rx.Gen.PinBoxIt.item_20 = ("macro impl_box_it", "impl_box_it ! ('a , CloneableBoxOp , CloneableBox <'a , Item , Err > +'a) ;") := rfl
theorem pin_BoxIt_21 : Rx.Gen.PinBoxIt.item_21 = ("macro impl_box_it", "impl_box_it ! (BoxOpThreads , BoxObservableThreads < Item , Err > + Send + 'static) ;") := rfl
theorem pin_BoxIt_22 : Rx.Gen.PinBoxIt.item_22 = ("macro impl_box_it", "impl_box_it ! (CloneableBoxOpThreads , CloneableBoxThreads < Item , Err > + Send + 'static) ;") := rfl
theorem pin_BoxIt_23 : Rx.Gen.PinBoxIt.item_23 = ("impl Clone for CloneableBoxOp < 'a , Item , Err > (header)", "< 'a , Item : 'a , Err : 'a > impl Clone for CloneableBoxOp < 'a , Item , Err >") := rfl
theorem pin_BoxIt_24 : Rx.Gen.PinBoxIt.item_24 = ("impl Clone for CloneableBoxOp < 'a , Item , Err > :: fn clone", "# [inline] fn clone (& self) -> Self { Self (self . 0 . box_clone ()) }") := rfl
theorem pin_BoxIt_25 : Rx.Gen.PinBoxIt.item_25 = ("impl Clone for CloneableBoxOpThreads < Item , Err > (header)", "< Item , Err > impl Clone for CloneableBoxOpThreads < Item , Err >") := rfl
theorem pin_BoxIt_26 : Rx.Gen.PinBoxIt.item_26 = ("impl Clone for CloneableBoxOpThreads < Item , Err > :: fn clone", "# [inline] fn clone (& self) -> Self { Self (self . 0 . box_clone ()) }") := rfl
theorem pin_BoxIt_27 : Rx.Gen.PinBoxIt.item_27 = ("impl CloneableBox < 'a , Item , Err > for T (header)", "< 'a , Item , Err , T > impl CloneableBox < 'a , Item , Err > for T where T : BoxObservable < 'a , Item , Err > + Clone + 'a ,") := rfl
theorem pin_BoxIt_28 : Rx.Gen.PinBoxIt.item_28 = ("impl CloneableBox < 'a , Item , Err > for T :: fn box_clone", "# [inline] fn box_clone (& self) -> Box < dyn CloneableBox < 'a , Item , Err > + 'a > { Box :: new (self . clone ()) }") := rfl
theorem pin_BoxIt_29 : Rx.Gen.PinBoxIt.item_29 = ("impl CloneableBoxThreads < Item , Err > for T (header)", "< Item , Err , T > impl CloneableBoxThreads < Item , Err > for T where T : BoxObservableThreads < Item , Err > + Clone + Send + 'static ,") := rfl
theorem pin_BoxIt_30 : Rx.Gen.PinBoxIt.item_30 = ("impl CloneableBoxThreads < Item , Err > for T :: fn box_clone", "# [inline] fn box_clone (& self) -> Box < dyn CloneableBoxThreads < Item , Err > + Send > { Box :: new (self . clone ()) }") := rfl
theorem pin_BoxIt_count : Rx.Gen.PinBoxIt.items.length = 31 := rfl

end Rx.GenTie
