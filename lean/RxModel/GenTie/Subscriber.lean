import RxModel.Gen.Subscriber
import RxModel.GenTie.RcObserver
import RxModel.Subject.Subject
/-! Tie: `Subscriber<O>` (a newtype around the slot cell `MutRc<Option<O>>`, src/subscriber.rs) generated from the
    source: as Observer / Publisher it is the slot (`impl_rc_observer!`), as Subscription `unsubscribe` empties
    the cell, `is_closed` = cell empty, `p_is_closed` = finished or closed — the `Slot.alive` bit of the subject
    model (`Slot.recv` leaves it, `Slot.finish` and `Slot.kill` clear it). -/
namespace Rx.GenTie
open Rx Rx.Gen.Subscriber

theorem tie_Subscriber_p_next (g : Subscriber) (v : Val) :
    Subscriber.p_next g v = some (g, if g.isSome then [Rs.Ev.n (Notif.next v)] else []) := by
  cases g <;> rs_simp [Subscriber.p_next, Subscriber.next, Rx.Gen.RcObserver.RcObserver.next]

theorem tie_Subscriber_p_error (g : Subscriber) (e : Err) :
    Subscriber.p_error g e = some (none, if g.isSome then [Rs.Ev.n (Notif.error e)] else []) := by
  cases g <;> rs_simp [Subscriber.p_error, Subscriber.error, Rx.Gen.RcObserver.RcObserver.error]

theorem tie_Subscriber_p_complete (g : Subscriber) :
    Subscriber.p_complete g = some (none, if g.isSome then [Rs.Ev.n Notif.complete] else []) := by
  cases g <;> rs_simp [Subscriber.p_complete, Subscriber.complete, Rx.Gen.RcObserver.RcObserver.complete]

theorem tie_Subscriber_unsubscribe (g : Subscriber) :
    Subscriber.unsubscribe g = some (none, []) ∧ Subscriber.p_unsubscribe g = some (none, []) := by
  cases g <;> rs_simp [Subscriber.unsubscribe, Subscriber.p_unsubscribe]

theorem tie_Subscriber_is_closed (g : Subscriber) (c : Nat → Bool) : Subscriber.is_closed g c = !g.isSome := by
  cases g <;> rs_simp [Subscriber.is_closed]

theorem tie_Subscriber_p_is_closed (g : Subscriber) (d : Bool) (c : Nat → Bool) :
    Subscriber.p_is_closed g d c = (!g.isSome || d) := by
  cases g <;> cases d <;>
    rs_simp [Subscriber.p_is_closed, Subscriber.is_finished, Subscriber.is_closed, Rx.Gen.RcObserver.RcObserver.is_finished]

theorem tie_Subscriber_finished (g : Subscriber) (d : Bool) : Subscriber.is_finished g d = (!g.isSome || d) := by
  cases g <;> rs_simp [Subscriber.is_finished, Rx.Gen.RcObserver.RcObserver.is_finished]

/-- the model's slot operations on the `alive` bit -/
theorem slot_alive_bits (x : Subj.Slot) (v : Val) (n : Notif) :
    (x.recv v).alive = x.alive ∧ (x.finish n).alive = false ∧ x.kill.alive = false := by
  simp [Subj.Slot.recv, Subj.Slot.finish, Subj.Slot.kill]

end Rx.GenTie
