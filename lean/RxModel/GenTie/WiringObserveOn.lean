import RxModel.Gen.ObserveOn
/-! Tie (topology): `ObserveOnOp::actual_subscribe` — a fresh MultiSubscription shared by the observer handed to the source
    and the returned `ZipSubscription(source subscription, that MultiSubscription)`; the slot built around the
    downstream observer. -/
namespace Rx.GenTie
open Rx.Gen.ObserveOn

theorem wiring_ObserveOn_lets : ObserveOnOp.lets =
  [("subscription", "< _ >::default()"),
   ("observer", "MutRc::own(Some(observer))"),
   ("observer", "ObserveOnObserver { scheduler, observer, subscription : subscription , }"),
   ("unsub", "source.actual_subscribe(observer)")] := by decide

theorem wiring_ObserveOn_views : ObserveOnOp.views =
  [("ObserveOnObserver", "scheduler", "scheduler"),
   ("ObserveOnObserver", "observer", "observer"),
   ("ObserveOnObserver", "subscription", "subscription")] := by decide

theorem wiring_ObserveOn_order : ObserveOnOp.order =
  [("source", "observer")] := by decide

end Rx.GenTie
