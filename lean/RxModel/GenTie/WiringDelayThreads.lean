import RxModel.Gen.DelayThreads
/-! Tie (topology): `DelayOpThreads::actual_subscribe` — a fresh MultiSubscription shared by the observer handed to the source
    and the returned `ZipSubscription(source subscription, that MultiSubscription)`; the slot built around the
    downstream observer. -/
namespace Rx.GenTie
open Rx.Gen.DelayThreads

theorem wiring_DelayThreads_lets : DelayOpThreads.lets =
  [("subscription", "< _ >::default()"),
   ("observer", "MutArc::own(Some(observer))"),
   ("observer", "DelayObserverThreads { delay, scheduler, observer, subscription : subscription , }"),
   ("unsub", "source.actual_subscribe(observer)")] := by decide

theorem wiring_DelayThreads_views : DelayOpThreads.views =
  [("DelayObserverThreads", "delay", "delay"),
   ("DelayObserverThreads", "scheduler", "scheduler"),
   ("DelayObserverThreads", "observer", "observer"),
   ("DelayObserverThreads", "subscription", "subscription")] := by decide

theorem wiring_DelayThreads_order : DelayOpThreads.order =
  [("source", "observer")] := by decide

end Rx.GenTie
