import RxModel.Gen.TaskHandleNormal
import RxModel.Gen.TaskHandleSubscribe
import RxModel.Gen.SchedFutures
import RxModel.GenTie.Tactics
import RxModel.Sched.Core
/-! Tie: src/scheduler.rs itself (compiler-expanded, translated) — the two `Subscription` impls of `TaskHandle` and the
    `poll` functions of the scheduler's own futures `Remote`, `OnceTask`, `FutureTask`, `RepeatTask` — in closed form,
    next to the clauses of the scheduler model (Sched/Core.lean: `cancel`, `handleClosed`, `pollPre`, `finishOnce`).
    A `poll` is a function of the state and of an ORACLE `futs` (what the k-th poll of the wrapped future / timer
    answers during this call):

      TaskHandle::unsubscribe   `keep_running := false`, the value is TAKEN; a `SubscribeReturn` value is unsubscribed
                                (a caught panic is re-raised); is_closed (Normal) = "a value is there"
      Remote::poll              cancelled ⇒ `Ready` WITHOUT polling the task; otherwise the task is polled once and its
                                result stored (`Ready`), or `Pending` with nothing changed
      OnceTask::poll            takes the arguments, runs the function ONCE; a second poll panics
      FutureTask::poll          `Pending` leaves the arguments alone; `Ready(v)` runs the function once on (v, args)
      RepeatTask::poll          while the timer is ready: tick `(task)(args, seq)`; true ⇒ `seq += 1`, a NEW timer with
                                `interval` replaces the old one and is polled at once; false ⇒ `Ready`; timer pending ⇒
                                `Pending` (`repeatSpec`; k ready timers ⇒ exactly k ticks numbered seq, seq+1, … ) -/
namespace Rx.GenTie
open Rx

section handles
open Rx.Gen.TaskHandleNormal

theorem tie_HandleN_unsubscribe (g : TaskHandleNormalReturn) :
    TaskHandleNormalReturn.unsubscribe g = some ({ keep_running := false, value := none }, []) := by
  rcases g with ⟨k, v⟩; rs_simp [TaskHandleNormalReturn.unsubscribe]

theorem tie_HandleN_is_closed (g : TaskHandleNormalReturn) (c : Nat → Bool) :
    TaskHandleNormalReturn.is_closed g c = g.value.isSome := by
  rcases g with ⟨k, v⟩; rs_simp [TaskHandleNormalReturn.is_closed]

/-- the model's task record read off a `HandleInfo` -/
def absHandle (t : T.Task) (g : HandleInfo) : T.Task := { t with keepRunning := g.keep_running, hasValue := g.value.isSome }

/-- `Sched.cancel` is `TaskHandle::unsubscribe` on the task's record; `handleClosed` is `is_closed` -/
theorem model_cancel (s : T.Sched) (k : Nat) (t : T.Task) (g : HandleInfo) (h : s.tasks[k]? = some (absHandle t g)) :
    ∃ g', TaskHandleNormalReturn.unsubscribe g = some (g', []) ∧
      s.cancel k = s.setTask k (absHandle t g') := by
  refine ⟨_, tie_HandleN_unsubscribe g, ?_⟩
  simp [T.Sched.cancel, h, absHandle]

theorem model_handleClosed (s : T.Sched) (k : Nat) (t : T.Task) (g : HandleInfo) (c : Nat → Bool)
    (h : s.tasks[k]? = some (absHandle t g)) :
    s.handleClosed k = TaskHandleNormalReturn.is_closed g c := by
  simp [T.Sched.handleClosed, h, absHandle, tie_HandleN_is_closed]

end handles

section handleS
open Rx.Gen.TaskHandleSubscribe

theorem tie_HandleS_unsubscribe (g : TaskHandleSubscribeReturn) :
    TaskHandleSubscribeReturn.unsubscribe g =
      match g.value with
      | some (Except.ok u) => some ({ keep_running := false, value := none }, [Rs.Ev.unsub u.id])
      | some (Except.error _) => none            -- the task had panicked: `resume_unwind`
      | none => some ({ keep_running := false, value := none }, []) := by
  rcases g with ⟨k, _ | _ | u⟩ <;> rs_simp [TaskHandleSubscribeReturn.unsubscribe]

theorem tie_HandleS_is_closed (g : TaskHandleSubscribeReturn) (c : Nat → Bool) :
    TaskHandleSubscribeReturn.is_closed g c =
      match g.value with | some (Except.ok u) => c u.id | _ => false := by
  rcases g with ⟨k, _ | _ | u⟩ <;> rs_simp [TaskHandleSubscribeReturn.is_closed]

end handleS

section futures
open Rx.Gen.SchedFutures

theorem tie_Remote_poll (g : Remote) (futs : Nat → Rs.Poll (Except Unit Val)) :
    Remote.poll g futs =
      if !g.handle_info.keep_running then some (g, [], Rs.Poll.ready ())
      else match futs 0 with
        | Rs.Poll.ready r => some ({ g with handle_info.value := some r }, [], Rs.Poll.ready ())
        | Rs.Poll.pending => some (g, [], Rs.Poll.pending) := by
  rcases g with ⟨⟨k, v⟩, f⟩
  cases k <;> simp [Remote.poll]
  cases futs 0 <;> simp

/-- a cancelled task is never polled again: the answer does not depend on the oracle -/
theorem Remote_cancelled_not_polled (g : Remote) (h : g.handle_info.keep_running = false)
    (futs futs' : Nat → Rs.Poll (Except Unit Val)) : Remote.poll g futs = Remote.poll g futs' := by
  simp [tie_Remote_poll, h]

theorem tie_OnceTask_poll (g : OnceTask) (futs : Nat → Rs.Poll Unit) :
    OnceTask.poll g futs =
      match g.args with
      | some a => some ({ g with args := none }, [], Rs.Poll.ready (g.func a))
      | none => none := by
  rcases g with ⟨f, _ | a⟩ <;> rs_simp [OnceTask.poll]

/-- a `OnceTask` runs its function exactly once: polling it again panics -/
theorem OnceTask_second_poll (g : OnceTask) (futs futs' : Nat → Rs.Poll Unit) (g' : OnceTask) (o) (r)
    (h : OnceTask.poll g futs = some (g', o, r)) : OnceTask.poll g' futs' = none := by
  rw [tie_OnceTask_poll] at h
  cases ha : g.args with
  | none => simp [ha] at h
  | some a => simp [ha] at h; obtain ⟨rfl, _, _⟩ := h; simp [tie_OnceTask_poll]

theorem tie_FutureTask_poll (g : FutureTask) (futs : Nat → Rs.Poll Val) :
    FutureTask.poll g futs =
      match futs 0 with
      | Rs.Poll.pending => some (g, [], Rs.Poll.pending)
      | Rs.Poll.ready v =>
        match g.args with
        | some a => some ({ g with args := none }, [], Rs.Poll.ready (g.task v a))
        | none => none := by
  rcases g with ⟨f, t, _ | a⟩ <;> cases h : futs 0 <;> rs_simp [FutureTask.poll, h]

/-- what one `poll` of a `RepeatTask` does, from poll number `pc` of this call on -/
def repeatSpec (futs : Nat → Rs.Poll Unit) : Nat → RepeatTask → Nat → Rs.Out → Option (RepeatTask × Rs.Out × Rs.Poll Unit)
  | 0, _, _, _ => none
  | fuel + 1, g, pc, out =>
    match futs pc with
    | Rs.Poll.pending => some (g, out, Rs.Poll.pending)
    | Rs.Poll.ready _ =>
      if g.task g.args g.seq then
        repeatSpec futs fuel { g with seq := g.seq + 1, fur := Rs.Fut.timer g.interval } (pc + 1)
          (out ++ [Rs.Ev.timer g.interval])
      else some (g, out, Rs.Poll.ready ())

abbrev RS := RepeatTask × Rs.Out × Nat × Option (Rs.Poll Unit)

theorem repeat_loop (futs : Nat → Rs.Poll Unit) (cond : RS → Bool) (body : RS → Option (RS × Bool))
    (hc : ∀ p, cond p = true)
    (hb : ∀ p : RS, body p =
      match futs p.2.2.1 with
      | Rs.Poll.pending => some ((p.1, p.2.1, p.2.2.1 + 1, some Rs.Poll.pending), true)
      | Rs.Poll.ready _ =>
        if p.1.task p.1.args p.1.seq then
          some (({ p.1 with seq := p.1.seq + 1, fur := Rs.Fut.timer p.1.interval }, p.2.1 ++ [Rs.Ev.timer p.1.interval],
                 p.2.2.1 + 1, none), false)
        else some ((p.1, p.2.1, p.2.2.1 + 1, some (Rs.Poll.ready ())), true)) :
    ∀ (fuel : Nat) (g : RepeatTask) (pc : Nat) (out : Rs.Out),
      (Rs.loopFuel fuel cond body (g, out, pc, none)).bind
          (fun r => match r.2.2.2 with | some v => some (r.1, r.2.1, v) | none => some (r.1, r.2.1, Rs.Poll.pending)) =
        repeatSpec futs fuel g pc out := by
  intro fuel
  induction fuel with
  | zero => intro g pc out; simp [Rs.loopFuel, hc, repeatSpec]
  | succ n ih =>
    intro g pc out
    cases hf : futs pc with
    | pending => simp [Rs.loopFuel, hc, hb, hf, repeatSpec]
    | ready u =>
      by_cases ht : g.task g.args g.seq
      · simp only [Rs.loopFuel, hc, hb, hf, ht, repeatSpec, if_true, Option.bind_some, Bool.false_eq_true, if_false]
        exact ih _ _ _
      · simp [Rs.loopFuel, hc, hb, hf, ht, repeatSpec]

theorem tie_RepeatTask_poll (g : RepeatTask) (futs : Nat → Rs.Poll Unit) (fuel : Nat) :
    RepeatTask.poll g futs fuel = repeatSpec futs fuel g 0 [] := by
  refine Eq.trans ?h1 (repeat_loop futs ?c ?b ?hc ?hb fuel g 0 [])
  case h1 =>
    unfold RepeatTask.poll
    simp only [Option.pure_def, Option.bind_eq_bind]
    congr 1 <;> first | rfl | (funext r; rcases r with ⟨a, b, c, _ | v⟩ <;> rfl)
  case hc => intro p; rfl
  case hb =>
    intro p; rcases p with ⟨a, b, c, d⟩
    cases h : futs c <;> simp [h, Rs.emitTimer]

/-- the timer is still pending: nothing happens, `Pending` -/
theorem repeat_pending (g : RepeatTask) (futs : Nat → Rs.Poll Unit) (fuel : Nat) (h : futs 0 = Rs.Poll.pending) :
    RepeatTask.poll g futs (fuel + 1) = some (g, [], Rs.Poll.pending) := by
  simp [tie_RepeatTask_poll, repeatSpec, h]

/-- the timer is ready and the tick says "stop": the task ends, no new timer -/
theorem repeat_stop (g : RepeatTask) (futs : Nat → Rs.Poll Unit) (fuel : Nat) (u : Unit) (h : futs 0 = Rs.Poll.ready u)
    (ht : g.task g.args g.seq = false) :
    RepeatTask.poll g futs (fuel + 1) = some (g, [], Rs.Poll.ready ()) := by
  simp [tie_RepeatTask_poll, repeatSpec, h, ht]

/-- one tick numbered `seq`; then ONE new timer with `interval`, polled at once (here: pending) -/
theorem repeat_tick (g : RepeatTask) (futs : Nat → Rs.Poll Unit) (fuel : Nat) (u : Unit) (h0 : futs 0 = Rs.Poll.ready u)
    (ht : g.task g.args g.seq = true) (h1 : futs 1 = Rs.Poll.pending) :
    RepeatTask.poll g futs (fuel + 2) =
      some ({ g with seq := g.seq + 1, fur := Rs.Fut.timer g.interval }, [Rs.Ev.timer g.interval], Rs.Poll.pending) := by
  simp [tie_RepeatTask_poll, repeatSpec, h0, ht, h1]

/-- every timer a `RepeatTask` creates has the duration `interval`; the sequence number only ever grows by one per
    tick; `interval`, `task` and `args` never change -/
theorem repeatSpec_inv (futs : Nat → Rs.Poll Unit) :
    ∀ (fuel : Nat) (g : RepeatTask) (pc : Nat) (out : Rs.Out) (g' : RepeatTask) (out' : Rs.Out) (r : Rs.Poll Unit),
      repeatSpec futs fuel g pc out = some (g', out', r) →
        g'.interval = g.interval ∧ g.seq ≤ g'.seq ∧
        out' = out ++ List.replicate (g'.seq - g.seq) (Rs.Ev.timer g.interval) := by
  intro fuel
  induction fuel with
  | zero => intro g pc out g' out' r h; simp [repeatSpec] at h
  | succ n ih =>
    intro g pc out g' out' r h
    cases hf : futs pc with
    | pending => simp [repeatSpec, hf] at h; obtain ⟨rfl, rfl, _⟩ := h; simp
    | ready u =>
      by_cases ht : g.task g.args g.seq
      · simp only [repeatSpec, hf, ht, if_true] at h
        obtain ⟨h1, h2, h3⟩ := ih _ _ _ _ _ _ h
        simp only at h1 h2 h3
        refine ⟨h1, by omega, ?_⟩
        have : g'.seq - g.seq = (g'.seq - (g.seq + 1)) + 1 := by omega
        rw [h3, this, List.replicate_succ]; simp
      · simp [repeatSpec, hf, ht] at h; obtain ⟨rfl, rfl, _⟩ := h; simp

end futures
end Rx.GenTie
