import RxModel.Gen.MergeThreads
/-! Tie (topology, thread-safe flavour): as GenTie/WiringMerge.lean, for `MergeOpThreads`. -/
namespace Rx.GenTie
open Rx.Gen.MergeThreads

theorem wiringT_Merge_lets : MergeOpThreads.lets =
  [("observer", "MergeObserver { observer : Some(observer), completed_one : false, }"),
   ("observer", "MutArc::own(observer)"),
   ("a", "self.source1.actual_subscribe(observer)"),
   ("b", "self.source2.actual_subscribe(observer)")] := by decide

theorem wiringT_Merge_views : MergeOpThreads.views =
  [("MergeObserver", "observer", "Some(observer)"),
   ("MergeObserver", "completed_one", "false")] := by decide

theorem wiringT_Merge_order : MergeOpThreads.order =
  [("self.source1", "observer"),
   ("self.source2", "observer")] := by decide

end Rx.GenTie
