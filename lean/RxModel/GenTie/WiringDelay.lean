import RxModel.Gen.Delay
/-! Tie (topology): `DelayOp::actual_subscribe` — a fresh MultiSubscription shared by the observer handed to the source
    and the returned `ZipSubscription(source subscription, that MultiSubscription)`; the slot built around the
    downstream observer. -/
namespace Rx.GenTie
open Rx.Gen.Delay

theorem wiring_Delay_lets : DelayOp.lets =
  [("subscription", "< _ >::default()"),
   ("observer", "MutRc::own(Some(observer))"),
   ("observer", "DelayObserver { delay, scheduler, observer, subscription : subscription , }"),
   ("unsub", "source.actual_subscribe(observer)")] := by decide

theorem wiring_Delay_views : DelayOp.views =
  [("DelayObserver", "delay", "delay"),
   ("DelayObserver", "scheduler", "scheduler"),
   ("DelayObserver", "observer", "observer"),
   ("DelayObserver", "subscription", "subscription")] := by decide

theorem wiring_Delay_order : DelayOp.order =
  [("source", "observer")] := by decide

end Rx.GenTie
