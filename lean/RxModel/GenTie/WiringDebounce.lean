import RxModel.Gen.Debounce
/-! Tie (topology): `DebounceOp::actual_subscribe` — the slot, the candidate cell and the handler cell; the handler cell is
    also the second half of the returned `ZipSubscription(source subscription, handler cell)`. -/
namespace Rx.GenTie
open Rx.Gen.Debounce

theorem wiring_Debounce_lets : DebounceOp.lets =
  [("task_handler", "MutArc::own(None)"),
   ("observer", "DebounceObserver { observer : MutArc::own(Some(observer)), delay : duration, scheduler, trailing_value : MutArc::own(None), task_handler : task_handler , }"),
   ("u", "source.actual_subscribe(observer)")] := by first | rfl | decide

theorem wiring_Debounce_views : DebounceOp.views =
  [("DebounceObserver", "observer", "MutArc::own(Some(observer))"),
   ("DebounceObserver", "delay", "duration"),
   ("DebounceObserver", "scheduler", "scheduler"),
   ("DebounceObserver", "trailing_value", "MutArc::own(None)"),
   ("DebounceObserver", "task_handler", "task_handler")] := by first | rfl | decide

theorem wiring_Debounce_order : DebounceOp.order =
  [("source", "observer")] := by first | rfl | decide

end Rx.GenTie
