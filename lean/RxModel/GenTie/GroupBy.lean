import RxModel.Gen.GroupBy
import RxModel.GenTie.Tactics
import RxModel.Ops.GroupBy
/-! Tie: `GroupByObserver` (src/ops/group_by.rs, compiler-expanded, translated; the per-group subjects are tokens,
    the `HashMap` an association list in insertion order) against the routing skeleton of the model
    (`Ops/GroupBy.lean`, `St.onNext` / `St.onTerm`):
      next v   key := discr v, evaluated ONCE; a known key: the item goes to that group's subject and to no other;
               a new key: the group is ANNOUNCED on the outer observer first, registered, then gets the item;
      error / complete   every registered group's subject gets the terminal (here: in registration order; the real
               `HashMap::drain` order is unspecified and the model's theorems hold for every permutation `ord`),
               then the outer observer; the map is empty afterwards;
      is_finished   the outer observer's answer. -/
namespace Rx.GenTie
open Rx Rx.Gen.GroupBy

/-- the keys registered so far, in registration order — `St.keys` of the model -/
def gkeys (g : GroupByObserver) : List Val := g.subjects.map (·.1)

theorem tie_GroupBy_next_known (g : GroupByObserver) (v : Val) (grp fresh : Rs.Grp)
    (h : Rs.mapGet g.subjects (g.discr v) = some grp) :
    GroupByObserver.next g v fresh = some (g, [Rs.Ev.to grp.id (Notif.next v)]) := by
  rcases g with ⟨o, d, m⟩
  simp only at h
  rs_simp [GroupByObserver.next, h]

theorem tie_GroupBy_next_new (g : GroupByObserver) (v : Val) (fresh : Rs.Grp)
    (h : Rs.mapGet g.subjects (g.discr v) = none) :
    GroupByObserver.next g v fresh =
      some ({ g with subjects := g.subjects ++ [(g.discr v, fresh)] },
            [Rs.Ev.n (Notif.next (Rs.keyObs (g.discr v) fresh)), Rs.Ev.to fresh.id (Notif.next v)]) := by
  rcases g with ⟨o, d, m⟩
  simp only at h
  rs_simp [GroupByObserver.next, h, Rs.mapInsert]

/-- a key is looked up by EQUALITY: found iff it was registered -/
theorem mapGet_isSome_iff (m : List (Val × Rs.Grp)) (k : Val) :
    (Rs.mapGet m k).isSome = decide (k ∈ m.map (·.1)) := by
  induction m with
  | nil => simp [Rs.mapGet]
  | cons x t ih =>
    rcases x with ⟨k', g⟩
    by_cases hk : k' = k
    · simp [Rs.mapGet, hk]
    · have : ¬ k = k' := fun h => hk h.symm
      simp [Rs.mapGet, hk, ih, this]

/-- the model announces a key under exactly the same condition -/
theorem model_find_isSome_iff (l : List (Val × GroupBy.Subj)) (k : Val) :
    (GroupBy.find k l).isSome = decide (k ∈ l.map (·.1)) := by
  induction l with
  | nil => simp [GroupBy.find]
  | cons x t ih =>
    rcases x with ⟨k', s⟩
    by_cases hk : k' = k
    · simp [GroupBy.find, hk]
    · have : ¬ k = k' := fun h => hk h.symm
      simp [GroupBy.find, hk, ih, this]

/-- keys after `next`: unchanged for a known key, the new key appended otherwise — as `St.onNext` does -/
theorem mem_of_mapGet_some {m : List (Val × Rs.Grp)} {k : Val} {g : Rs.Grp} (h : Rs.mapGet m k = some g) :
    k ∈ m.map (·.1) := by
  have := mapGet_isSome_iff m k
  rw [h] at this
  exact of_decide_eq_true this.symm

theorem not_mem_of_mapGet_none {m : List (Val × Rs.Grp)} {k : Val} (h : Rs.mapGet m k = none) :
    ¬ k ∈ m.map (·.1) := by
  have := mapGet_isSome_iff m k
  rw [h] at this
  exact of_decide_eq_false this.symm

/-- keys after `next`: unchanged for a known key, the new key appended otherwise — as `St.onNext` does -/
theorem tie_GroupBy_keys (g g' : GroupByObserver) (v : Val) (fresh : Rs.Grp) (out : Rs.Out)
    (h : GroupByObserver.next g v fresh = some (g', out)) :
    gkeys g' = if g.discr v ∈ gkeys g then gkeys g else gkeys g ++ [g.discr v] := by
  unfold gkeys
  cases hm : Rs.mapGet g.subjects (g.discr v) with
  | some grp =>
    rw [tie_GroupBy_next_known g v grp fresh hm] at h
    have hk := mem_of_mapGet_some hm
    simp only [Option.some.injEq, Prod.mk.injEq] at h
    rw [← h.1, if_pos hk]
  | none =>
    rw [tie_GroupBy_next_new g v fresh hm] at h
    have hk := not_mem_of_mapGet_none hm
    simp only [Option.some.injEq, Prod.mk.injEq] at h
    rw [← h.1, if_neg hk]
    simp

theorem model_keys (key : Val → Val) (attach : Bool) (st : GroupBy.St) (v : Val) :
    (st.onNext key attach v).1.keys = if key v ∈ st.keys then st.keys else st.keys ++ [key v] := by
  have hrep : ∀ (l : List (Val × GroupBy.Subj)) (s : GroupBy.Subj), (GroupBy.replace (key v) s l).map (·.1) = l.map (·.1) := by
    intro l s; induction l with
    | nil => rfl
    | cons x t ih => rcases x with ⟨k', s'⟩; by_cases hkk : k' = key v <;> simp [GroupBy.replace, hkk, ih]
  unfold GroupBy.St.onNext GroupBy.St.keys
  cases hf : GroupBy.find (key v) st.subjects with
  | some subj =>
    have hk : key v ∈ st.subjects.map (·.1) := by
      have := model_find_isSome_iff st.subjects (key v)
      rw [hf] at this
      exact of_decide_eq_true this.symm
    simp only [hf, hrep, if_pos hk]
  | none =>
    have hk : ¬ key v ∈ st.subjects.map (·.1) := by
      have := model_find_isSome_iff st.subjects (key v)
      rw [hf] at this
      exact of_decide_eq_false this.symm
    simp only [hf, if_neg hk]
    simp

theorem groupby_term_loop (g : GroupByObserver) (t : Notif)
    (f : GroupByObserver × Rs.Out → Val × Rs.Grp → Option (GroupByObserver × Rs.Out))
    (hf : ∀ p x, f p x = some (p.fst, p.snd ++ [Rs.Ev.to x.2.id t])) :
    ∀ (m : List (Val × Rs.Grp)) (out : Rs.Out),
      Rs.forEach m (g, out) f = some (g, out ++ m.map (fun x => Rs.Ev.to x.2.id t)) := by
  intro m
  induction m with
  | nil => intro out; simp
  | cons x r ih => intro out; simp [hf, ih, List.append_assoc]

theorem tie_GroupBy_error (g : GroupByObserver) (e : Err) :
    GroupByObserver.error g e =
      some ({ g with subjects := [] },
            g.subjects.map (fun x => Rs.Ev.to x.2.id (Notif.error e)) ++ [Rs.Ev.n (Notif.error e)]) := by
  rcases g with ⟨o, d, m⟩
  rs_simp [GroupByObserver.error]
  rw [groupby_term_loop _ (Notif.error e) _ (by intro p x; rcases x with ⟨k, s⟩; rfl) m []]
  simp

theorem tie_GroupBy_complete (g : GroupByObserver) :
    GroupByObserver.complete g =
      some ({ g with subjects := [] },
            g.subjects.map (fun x => Rs.Ev.to x.2.id Notif.complete) ++ [Rs.Ev.n Notif.complete]) := by
  rcases g with ⟨o, d, m⟩
  rs_simp [GroupByObserver.complete]
  rw [groupby_term_loop _ Notif.complete _ (by intro p x; rcases x with ⟨k, s⟩; rfl) m []]
  simp

theorem tie_GroupBy_finished (g : GroupByObserver) (d : Bool) : GroupByObserver.is_finished g d = d := by
  rs_simp [GroupByObserver.is_finished]

theorem tie_GroupBy_init (discr : Val → Val) : gkeys (GroupByObserver.init discr) = GroupBy.St.init.keys := by
  rs_simp [GroupByObserver.init, gkeys, GroupBy.St.init, GroupBy.St.keys]

end Rx.GenTie
