import RxModel.GenTie.Delay
import RxModel.GenTie.ObserveOn
import RxModel.GenTie.Debounce
import RxModel.GenTie.Throttle
import RxModel.Sched.Chain
/-! Forward simulations: the GENERATED observers of delay / observe_on / debounce (src/ops/{delay,observe_on,debounce}.rs)
    against the stages of the chain model (`Stage.onNotif` of Sched/Chain.lean).  A step of the code yields a new state
    and a list of events; `notifsOf` (the downstream calls among them) must be what the stage passes on, and `applyEvs`
    (the scheduler effects among them: `schedule(task, delay)` ↦ `scheduleOnce`, `handle.unsubscribe()` ↦ `cancel`) must
    be the stage's effect on the scheduler — with the new handle being the id `scheduleOnce` hands out. -/
namespace Rx.GenTie
open Rx Rx.T

def notifsOf (out : Rs.Out) : List Notif := out.filterMap (fun e => match e with | Rs.Ev.n x => some x | _ => none)

/-- the scheduler effects of an event list, for the operator at stage `j` -/
def applyEvs (j : Nat) : Rs.Out → Sched → Sched
  | [], s => s
  | Rs.Ev.sched "delay_emit_value" [v] d _ :: r, s => applyEvs j r (s.scheduleOnce (.emit j (.next v)) d).1
  | Rs.Ev.sched "delay_emit_err" [Val.int e] d _ :: r, s => applyEvs j r (s.scheduleOnce (.emit j (.error e)) d).1
  | Rs.Ev.sched "delay_complete" [] d _ :: r, s => applyEvs j r (s.scheduleOnce (.emit j .complete) d).1
  | Rs.Ev.sched "debounce_task" [] d _ :: r, s => applyEvs j r (s.scheduleOnce (.debounce j) d).1
  | Rs.Ev.unsub k :: r, s => applyEvs j r (s.cancel k)
  | _ :: r, s => applyEvs j r s

def handleIds (l : List (Option Rs.Sub)) : List TaskId := l.filterMap (fun x => x.map (·.id))

theorem handleIds_append (l : List (Option Rs.Sub)) (h : Rs.Sub) : handleIds (l ++ [some h]) = handleIds l ++ [h.id] := by
  simp [handleIds, List.filterMap_append]

theorem filter_all_some (l : List (Option Rs.Sub)) (hl : ∀ x ∈ l, x.isSome = true) : l.filter Option.isSome = l := by
  simp only [List.filter_eq_self]; exact hl

section delay
open Rx.Gen.Delay Rx.Gen.Subscription

/-- the delay observer read as the `delay` stage: delay, slot alive?, handles of the composite (live composite) -/
def RDelay (g : DelayObserver) (st : Stage) : Prop :=
  ∃ l, g.subscription = some l ∧ (∀ x ∈ l, x.isSome = true) ∧ st = .delay g.delay g.observer.isSome (some (handleIds l))

theorem sim_Delay_next (g : DelayObserver) (st : Stage) (hr : RDelay g st) (j : Nat) (s : Sched) (v : Val) (h : Rs.Sub)
    (hh : h.id = s.tasks.length) :
    ∃ g' out, DelayObserver.next g v h = some (g', out) ∧
      st.onNotif j (.next v) s = ((st.onNotif j (.next v) s).1, notifsOf out, applyEvs j out s) ∧
      RDelay g' (st.onNotif j (.next v) s).1 := by
  obtain ⟨l, hs, hl, rfl⟩ := hr
  rcases g with ⟨d, sc, o, sub⟩
  simp only at hs; subst hs
  refine ⟨_, _, by rw [tie_Delay_next]; simp [tie_Multi_append, filter_all_some l hl]; exact ⟨rfl, rfl⟩, ?_, ?_⟩
  · simp [Stage.onNotif, notifsOf, applyEvs, Sched.scheduleOnce]
  · refine ⟨l ++ [some h], rfl, ?_, ?_⟩
    · intro x hx; simp at hx; rcases hx with hx | rfl; exact hl x hx; rfl
    · simp [Stage.onNotif, Sched.scheduleOnce, handleIds_append, hh]

theorem sim_Delay_complete (g : DelayObserver) (st : Stage) (hr : RDelay g st) (j : Nat) (s : Sched) (h : Rs.Sub)
    (hh : h.id = s.tasks.length) :
    ∃ g' out, DelayObserver.complete g h = some (g', out) ∧
      st.onNotif j .complete s = ((st.onNotif j .complete s).1, notifsOf out, applyEvs j out s) ∧
      RDelay g' (st.onNotif j .complete s).1 := by
  obtain ⟨l, hs, hl, rfl⟩ := hr
  rcases g with ⟨d, sc, o, sub⟩
  simp only at hs; subst hs
  refine ⟨_, _, by rw [tie_Delay_complete]; simp [tie_Multi_append, filter_all_some l hl]; exact ⟨rfl, rfl⟩, ?_, ?_⟩
  · simp [Stage.onNotif, notifsOf, applyEvs, Sched.scheduleOnce]
  · refine ⟨l ++ [some h], rfl, ?_, ?_⟩
    · intro x hx; simp at hx; rcases hx with hx | rfl; exact hl x hx; rfl
    · simp [Stage.onNotif, Sched.scheduleOnce, handleIds_append, hh]

/-- an error is NOT delayed: forwarded at once through the slot, which it empties; no scheduler effect -/
theorem sim_Delay_error (g : DelayObserver) (st : Stage) (hr : RDelay g st) (j : Nat) (s : Sched) (e : Err) :
    ∃ g' out, DelayObserver.error g e = some (g', out) ∧
      st.onNotif j (.error e) s = ((st.onNotif j (.error e) s).1, notifsOf out, applyEvs j out s) ∧
      RDelay g' (st.onNotif j (.error e) s).1 := by
  obtain ⟨l, hs, hl, rfl⟩ := hr
  rcases g with ⟨d, sc, o, sub⟩
  simp only at hs; subst hs
  refine ⟨_, _, tie_Delay_error _ e, ?_, ?_⟩
  · cases o <;> simp [Stage.onNotif, notifsOf, applyEvs]
  · exact ⟨l, rfl, hl, by simp [Stage.onNotif]⟩

end delay

section observeOn
open Rx.Gen.ObserveOn Rx.Gen.Subscription

def RObserveOn (g : ObserveOnObserver) (st : Stage) : Prop :=
  ∃ l, g.subscription = some l ∧ (∀ x ∈ l, x.isSome = true) ∧ st = .observeOn g.observer.isSome (some (handleIds l))

/-- observe_on moves EVERY notification (the error included) onto the scheduler, without delay, one task each -/
theorem sim_ObserveOn (g : ObserveOnObserver) (st : Stage) (hr : RObserveOn g st) (j : Nat) (s : Sched) (n : Notif)
    (h : Rs.Sub) (hh : h.id = s.tasks.length) :
    ∃ g' out,
      (match n with
        | .next v => ObserveOnObserver.next g v h
        | .error e => ObserveOnObserver.error g e h
        | .complete => ObserveOnObserver.complete g h) = some (g', out) ∧
      st.onNotif j n s = ((st.onNotif j n s).1, notifsOf out, applyEvs j out s) ∧
      RObserveOn g' (st.onNotif j n s).1 := by
  obtain ⟨l, hs, hl, rfl⟩ := hr
  rcases g with ⟨o, sc, sub⟩
  simp only at hs; subst hs
  have hmem : ∀ x ∈ l ++ [some h], x.isSome = true := by
    intro x hx; simp at hx; rcases hx with hx | rfl; exact hl x hx; rfl
  cases n with
  | next v =>
    refine ⟨_, _, by simp only; rw [tie_ObserveOn_next]; simp [tie_Multi_append, filter_all_some l hl]; exact ⟨rfl, rfl⟩, ?_, ?_⟩
    · simp [Stage.onNotif, notifsOf, applyEvs, Sched.scheduleOnce]
    · exact ⟨l ++ [some h], rfl, hmem, by simp [Stage.onNotif, Sched.scheduleOnce, handleIds_append, hh]⟩
  | error e =>
    refine ⟨_, _, by simp only; rw [tie_ObserveOn_error]; simp [tie_Multi_append, filter_all_some l hl]; exact ⟨rfl, rfl⟩, ?_, ?_⟩
    · simp [Stage.onNotif, notifsOf, applyEvs, Sched.scheduleOnce]
    · exact ⟨l ++ [some h], rfl, hmem, by simp [Stage.onNotif, Sched.scheduleOnce, handleIds_append, hh]⟩
  | complete =>
    refine ⟨_, _, by simp only; rw [tie_ObserveOn_complete]; simp [tie_Multi_append, filter_all_some l hl]; exact ⟨rfl, rfl⟩, ?_, ?_⟩
    · simp [Stage.onNotif, notifsOf, applyEvs, Sched.scheduleOnce]
    · exact ⟨l ++ [some h], rfl, hmem, by simp [Stage.onNotif, Sched.scheduleOnce, handleIds_append, hh]⟩

end observeOn

section debounce
open Rx.Gen.Debounce

def RDebounce (g : DebounceObserver) (st : Stage) : Prop :=
  st = .debounce g.delay g.observer.isSome g.trailing_value (g.task_handler.map (·.id))

/-- debounce: store the candidate, cancel the pending task (if any), schedule ONE new task with the window as delay -/
theorem sim_Debounce_next (g : DebounceObserver) (st : Stage) (hr : RDebounce g st) (j : Nat) (s : Sched) (v : Val)
    (h : Rs.Sub) (hh : ∀ s' : Sched, s'.tasks.length = s.tasks.length → h.id = s'.tasks.length) :
    ∃ g' out, DebounceObserver.next g v h = some (g', out) ∧
      st.onNotif j (.next v) s = ((st.onNotif j (.next v) s).1, notifsOf out, applyEvs j out s) ∧
      RDebounce g' (st.onNotif j (.next v) s).1 := by
  subst hr
  rcases g with ⟨o, sc, d, tv, _ | old⟩
  · refine ⟨_, _, tie_Debounce_next _ v h, ?_, ?_⟩
    · simp [Stage.onNotif, notifsOf, applyEvs, Sched.scheduleOnce]
    · simp [RDebounce, Stage.onNotif, Sched.scheduleOnce, hh s rfl]
  · have hc : (s.cancel old.id).tasks.length = s.tasks.length := by
      unfold Sched.cancel; split <;> simp [Sched.setTask]
    refine ⟨_, _, tie_Debounce_next _ v h, ?_, ?_⟩
    · simp [Stage.onNotif, notifsOf, applyEvs, Sched.scheduleOnce]
    · simp [RDebounce, Stage.onNotif, Sched.scheduleOnce, hh _ hc]

theorem sim_Debounce_complete (g : DebounceObserver) (st : Stage) (hr : RDebounce g st) (j : Nat) (s : Sched) :
    ∃ g' out, DebounceObserver.complete g = some (g', out) ∧
      st.onNotif j .complete s = ((st.onNotif j .complete s).1, notifsOf out, applyEvs j out s) ∧
      RDebounce g' (st.onNotif j .complete s).1 := by
  subst hr
  rcases g with ⟨_ | o, sc, d, _ | tv, th⟩ <;>
    exact ⟨_, _, tie_Debounce_complete _, by simp [Stage.onNotif, notifsOf, applyEvs], by simp [RDebounce, Stage.onNotif]⟩

theorem sim_Debounce_error (g : DebounceObserver) (st : Stage) (hr : RDebounce g st) (j : Nat) (s : Sched) (e : Err) :
    ∃ g' out, DebounceObserver.error g e = some (g', out) ∧
      st.onNotif j (.error e) s = ((st.onNotif j (.error e) s).1, notifsOf out, applyEvs j out s) ∧
      RDebounce g' (st.onNotif j (.error e) s).1 := by
  subst hr
  rcases g with ⟨_ | o, sc, d, tv, th⟩ <;>
    exact ⟨_, _, tie_Debounce_error _ e, by simp [Stage.onNotif, notifsOf, applyEvs], by simp [RDebounce, Stage.onNotif]⟩

end debounce
end Rx.GenTie

namespace Rx.GenTie
open Rx Rx.T

section throttle
open Rx.Gen.Throttle

/-- the scheduler effects of throttle's events -/
def applyEvsT (j : Nat) : Rs.Out → Sched → Sched
  | [], s => s
  | Rs.Ev.sched "throttle_task" [] d _ :: r, s => applyEvsT j r (s.scheduleOnce (.throttle j) d).1
  | Rs.Ev.unsub k :: r, s => applyEvsT j r (s.cancel k)
  | _ :: r, s => applyEvsT j r s

def edgeOf (e : ThrottleEdge) : Option Edge :=
  match e.leading, e.tailing with
  | true, true => some .all
  | true, false => some .leading
  | false, true => some .trailing
  | false, false => none

/-- the throttle observer read as the `throttle` stage (a constant window `d`, one of the three edge modes) -/
def RThrottle (d : Nat) (g : ThrottleObserver) (st : Stage) : Prop :=
  (∀ v, g.duration_selector v = d) ∧
  ∃ e, edgeOf g.edge = some e ∧ st = .throttle d e g.observer.isSome g.trailing_value (g.task_handler.map (·.id))

/-- an item: inside an open window only the candidate is replaced (trailing modes); with the window over, the leading
    item goes out, the candidate is cleared / set, and — after the emission (`afterEmit`) — ONE window task is scheduled -/
theorem sim_Throttle_next (d : Nat) (g : ThrottleObserver) (st : Stage) (hr : RThrottle d g st) (j : Nat) (s : Sched)
    (v : Val) (h : Rs.Sub) (c : Nat → Bool) (hh : h.id = s.tasks.length)
    (hc : ∀ t, g.task_handler = some t → c t.id = s.handleClosed t.id) :
    ∃ g' out, ThrottleObserver.next g v h c = some (g', out) ∧
      (let r := st.onNotif j (.next v) s
       let r2 := r.1.afterEmit j r.2.2
       r.2.1 = notifsOf out ∧ r2.2 = applyEvsT j out s ∧ RThrottle d g' r2.1) := by
  obtain ⟨hd, e, he, rfl⟩ := hr
  rcases g with ⟨sc, o, ⟨t, l⟩, ds, tv, th⟩
  simp only at hd
  have hedge : l = true ∨ t = true := by
    cases t <;> cases l <;> simp [edgeOf] at he ⊢
  cases th with
  | none =>
    have hw : windowOver ⟨sc, o, ⟨t, l⟩, ds, tv, none⟩ c = true := rfl
    refine ⟨_, _, tie_Throttle_next_over _ v h c hedge hw, ?_⟩
    cases t <;> cases l <;> simp [edgeOf] at he <;> subst he <;> cases o <;>
      simp [Stage.onNotif, Stage.afterEmit, notifsOf, applyEvsT, RThrottle, edgeOf, Edge.hasLeading,
        Edge.hasTrailing, Sched.scheduleOnce, hd, hh]
  | some tt =>
    have hct : c tt.id = s.handleClosed tt.id := hc tt rfl
    cases hcl : s.handleClosed tt.id with
    | true =>
      have hw : windowOver ⟨sc, o, ⟨t, l⟩, ds, tv, some tt⟩ c = true := by simp [windowOver, hct, hcl]
      refine ⟨_, _, tie_Throttle_next_over _ v h c hedge hw, ?_⟩
      cases t <;> cases l <;> simp [edgeOf] at he <;> subst he <;> cases o <;>
        simp [Stage.onNotif, Stage.afterEmit, hcl, notifsOf, applyEvsT, RThrottle, edgeOf, Edge.hasLeading,
          Edge.hasTrailing, Sched.scheduleOnce, hd, hh]
    | false =>
      have hw : windowOver ⟨sc, o, ⟨t, l⟩, ds, tv, some tt⟩ c = false := by simp [windowOver, hct, hcl]
      refine ⟨_, _, tie_Throttle_next_open _ v h c hedge hw, ?_⟩
      cases t <;> cases l <;> simp [edgeOf] at he <;> subst he <;>
        simp [Stage.onNotif, Stage.afterEmit, hcl, notifsOf, applyEvsT, RThrottle, edgeOf, Edge.hasLeading,
          Edge.hasTrailing, hd]

theorem sim_Throttle_complete (d : Nat) (g : ThrottleObserver) (st : Stage) (hr : RThrottle d g st) (j : Nat) (s : Sched) :
    ∃ g' out, ThrottleObserver.complete g = some (g', out) ∧
      (st.onNotif j .complete s).2.1 = notifsOf out ∧ (st.onNotif j .complete s).2.2 = applyEvsT j out s ∧
      RThrottle d g' (st.onNotif j .complete s).1 := by
  obtain ⟨hd, e, he, rfl⟩ := hr
  rcases g with ⟨sc, _ | o, ed, ds, _ | tv, _ | th⟩ <;>
    exact ⟨_, _, tie_Throttle_complete _, by simp [Stage.onNotif, notifsOf], by simp [Stage.onNotif, applyEvsT],
      ⟨hd, e, he, by simp [Stage.onNotif]⟩⟩

theorem sim_Throttle_error (d : Nat) (g : ThrottleObserver) (st : Stage) (hr : RThrottle d g st) (j : Nat) (s : Sched)
    (er : Err) :
    ∃ g' out, ThrottleObserver.error g er = some (g', out) ∧
      (st.onNotif j (.error er) s).2.1 = notifsOf out ∧ (st.onNotif j (.error er) s).2.2 = applyEvsT j out s ∧
      RThrottle d g' (st.onNotif j (.error er) s).1 := by
  obtain ⟨hd, e, he, rfl⟩ := hr
  rcases g with ⟨sc, _ | o, ed, ds, tv, _ | th⟩ <;>
    exact ⟨_, _, tie_Throttle_error _ er, by simp [Stage.onNotif, notifsOf], by simp [Stage.onNotif, applyEvsT],
      ⟨hd, e, he, by simp [Stage.onNotif]⟩⟩

end throttle
end Rx.GenTie
