import RxModel.Gen.FinalizeThreads
/-! Tie (topology): `FinalizeOpThreads::actual_subscribe` — one `func` cell, held by the observer handed to the source AND by the
    returned subscription. -/
namespace Rx.GenTie
open Rx.Gen.FinalizeThreads

theorem wiring_FinalizeThreads_lets : FinalizeOpThreads.lets =
  [("func", "MutArc::own(Some(self.func))"),
   ("subscription", "self.source.actual_subscribe(FinalizerObserver { observer, func : func })")] := by decide

theorem wiring_FinalizeThreads_views : FinalizeOpThreads.views =
  [("FinalizerObserver", "observer", "observer"),
   ("FinalizerObserver", "func", "func"),
   ("FinalizerSubscription", "subscription", "subscription"),
   ("FinalizerSubscription", "func", "func")] := by decide

theorem wiring_FinalizeThreads_order : FinalizeOpThreads.order =
  [("self.source", "FinalizerObserver { observer, func : func }")] := by decide

end Rx.GenTie
