import RxModel.Gen.Behavior
import RxModel.GenTie.Subject
import RxModel.Subject.Behavior
/-! Tie: `BehaviorSubject<Item, Subject>` (src/subject/behavior_subject.rs, compiler-expanded, translated) IS the
    `BState` of the model: `next` STORES the value and THEN hands it to the inner subject's `next` (so whoever
    subscribes or peeks from inside the emission sees it), `actual_subscribe` greets the bare observer with the
    stored value and then subscribes it to the inner subject, `peek` reads the cell, terminals / unsubscribe /
    queries are the inner subject's. -/
namespace Rx.GenTie
open Rx Rx.Gen.Behavior Rx.Gen.Subject

def genBehavior (b : Subj.BState) : BehaviorSubject := { subject := genSubject b.subject, value := b.value }

/-- `next`: the value cell holds `v` afterwards, the inner subject did its `next v` (see `tie_Subject_next`). -/
theorem tie_Behavior_next (b : Subj.BState) (h : b.subject.panicked = false) (v : Val) :
    BehaviorSubject.next (genBehavior b) v =
      if b.subject.load.panicked then none
      else some (⟨genSubject b.subject.load, v⟩,
                 (b.subject.load.observers.getD []).map (fun i => Rs.Ev.to i (Notif.next v))) := by
  have hs := tie_Subject_next b.subject h v
  rs_simp [BehaviorSubject.next, genBehavior]
  rw [hs]
  by_cases hp : b.subject.load.panicked <;> simp [hp]

/-- the model stores the same value: `(b.next v).1.value = v` -/
theorem model_next_stores (b : Subj.BState) (v : Val) : (b.next v).1.value = v := by
  simp [Subj.BState.next]

/-- `actual_subscribe`: the greeting goes to the new observer itself, then it is pushed to the chamber. -/
theorem tie_Behavior_subscribe (b : Subj.BState) (o : Rs.Obs) (script : List Subj.Act) :
    BehaviorSubject.actual_subscribe (genBehavior b) o ⟨b.subject.slots.length⟩ =
      some (genBehavior (b.subscribe script).1, [Rs.Ev.n (Notif.next b.value)]) := by
  have hs := tie_Subject_subscribe b.subject o script [.next b.value]
  rs_simp [BehaviorSubject.actual_subscribe, genBehavior, Subj.BState.subscribe]
  rw [hs]
  simp

theorem tie_Behavior_peek (b : Subj.BState) : BehaviorSubject.peek (genBehavior b) = b.peek := by
  rs_simp [BehaviorSubject.peek, genBehavior, Subj.BState.peek]

theorem tie_Behavior_error (b : Subj.BState) (e : Err) :
    BehaviorSubject.error (genBehavior b) e =
      (Subject.error (genSubject b.subject) e).map (fun r => (⟨r.1, b.value⟩, r.2)) := by
  rs_simp [BehaviorSubject.error, genBehavior]
  cases Subject.error (genSubject b.subject) e <;> simp

theorem tie_Behavior_complete (b : Subj.BState) :
    BehaviorSubject.complete (genBehavior b) =
      (Subject.complete (genSubject b.subject)).map (fun r => (⟨r.1, b.value⟩, r.2)) := by
  rs_simp [BehaviorSubject.complete, genBehavior]
  cases Subject.complete (genSubject b.subject) <;> simp

theorem tie_Behavior_unsubscribe (b : Subj.BState) :
    BehaviorSubject.unsubscribe (genBehavior b) = some (genBehavior ⟨b.subject.unsubscribe, b.value⟩, []) := by
  have hs := tie_Subject_unsubscribe b.subject
  rs_simp [BehaviorSubject.unsubscribe, genBehavior]
  rw [hs]
  simp

theorem tie_Behavior_queries (b : Subj.BState) (d : Bool) (c : Nat → Bool) :
    BehaviorSubject.is_finished (genBehavior b) d = b.subject.isFinished ∧
    BehaviorSubject.is_closed (genBehavior b) c = b.subject.isClosed ∧
    BehaviorSubject.len (genBehavior b) = b.subject.len? := by
  have h1 := tie_Subject_finished_closed b.subject d c
  have h2 := tie_Subject_len b.subject
  rs_simp [BehaviorSubject.is_finished, BehaviorSubject.is_closed, BehaviorSubject.len, genBehavior]
  rw [h1.1, h1.2, h2]
  simp

end Rx.GenTie
