import RxModel.Gen.Skip
import RxModel.GenTie.Tactics
/-! Tie: `SkipObserver` generated from `/repo/src` IS the `St1` machine of the hand-written model. -/
namespace Rx.GenTie
open Rx Rx.Gen.Skip

/-- a Rust state read as a model state -/
def absSkip (g : SkipObserver) : St1 := .skip g.count g.hits

theorem tie_Skip_next (g : SkipObserver) (v : Val) :
    (SkipObserver.next g v).map (fun r => (absSkip r.1, r.2)) = some (Rs.lift (St1.onNext (absSkip g) v)) := by
  rcases g with ⟨⟩ <;> rs_tie [SkipObserver.next, absSkip, St1.onNext]

theorem tie_Skip_error (g : SkipObserver) (e : Err) :
    (SkipObserver.error g e).map (fun r => r.2) = some ((St1.onError' (absSkip g) e).2.map Rs.Ev.n) := by
  rcases g with ⟨⟩ <;> rs_tie [SkipObserver.error, absSkip, St1.onError']

theorem tie_Skip_complete (g : SkipObserver) :
    (SkipObserver.complete g).map (fun r => r.2) = some ((St1.onComplete' (absSkip g)).2.map Rs.Ev.n) := by
  rcases g with ⟨⟩ <;> rs_tie [SkipObserver.complete, absSkip, St1.onComplete']


theorem tie_Skip_init (n : Nat) :
    absSkip (SkipObserver.init n) = Spec.Op1.init (.skip n) := by
  rs_simp [SkipObserver.init, absSkip, Spec.Op1.init]

end Rx.GenTie
