import RxModel.Gen.SkipWhile
import RxModel.GenTie.Tactics
/-! Tie: `SkipWhileObserver` generated from `/repo/src` IS the `St1` machine of the hand-written model. -/
namespace Rx.GenTie
open Rx Rx.Gen.SkipWhile

/-- a Rust state read as a model state -/
def absSkipWhile (g : SkipWhileObserver) : St1 := .skipWhile g.predicate g.done_skipping

theorem tie_SkipWhile_next (g : SkipWhileObserver) (v : Val) :
    (SkipWhileObserver.next g v).map (fun r => (absSkipWhile r.1, r.2)) = some (Rs.lift (St1.onNext (absSkipWhile g) v)) := by
  rcases g with ⟨⟩ <;> rs_tie [SkipWhileObserver.next, absSkipWhile, St1.onNext]

theorem tie_SkipWhile_error (g : SkipWhileObserver) (e : Err) :
    (SkipWhileObserver.error g e).map (fun r => r.2) = some ((St1.onError' (absSkipWhile g) e).2.map Rs.Ev.n) := by
  rcases g with ⟨⟩ <;> rs_tie [SkipWhileObserver.error, absSkipWhile, St1.onError']

theorem tie_SkipWhile_complete (g : SkipWhileObserver) :
    (SkipWhileObserver.complete g).map (fun r => r.2) = some ((St1.onComplete' (absSkipWhile g)).2.map Rs.Ev.n) := by
  rcases g with ⟨⟩ <;> rs_tie [SkipWhileObserver.complete, absSkipWhile, St1.onComplete']


theorem tie_SkipWhile_init (p : Val → Bool) :
    absSkipWhile (SkipWhileObserver.init p) = Spec.Op1.init (.skipWhile p) := by
  rs_simp [SkipWhileObserver.init, absSkipWhile, Spec.Op1.init]

end Rx.GenTie
