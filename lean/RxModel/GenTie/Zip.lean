import RxModel.Gen.Zip
import RxModel.GenTie.Tactics
/-! Tie: `ZipObserver` behind its cell and the tagged `AObserver` / `BObserver` generated from
    src/ops/zip.rs ARE the `St2.zip` cell of the model. -/
namespace Rx.GenTie
open Rx Rx.Gen.Zip

def absZip (g : ZipObserver) : St2 := .zip g.observer.isSome g.a g.b g.completed_one

theorem tie_Zip_a_next (g : ZipObserver) (v : Val) :
    (AObserver.next g v).map (fun r => (absZip r.1, r.2)) = some (Rs.lift (St2.step (absZip g) .a (.next v))) := by
  rcases g with ⟨_ | _, qa, _ | ⟨w, qb⟩, c⟩ <;>
    rs_tie [AObserver.next, ZipObserver.next, absZip, St2.step, St2.guard]

theorem tie_Zip_b_next (g : ZipObserver) (v : Val) :
    (BObserver.next g v).map (fun r => (absZip r.1, r.2)) = some (Rs.lift (St2.step (absZip g) .b (.next v))) := by
  rcases g with ⟨_ | _, _ | ⟨w, qa⟩, qb, c⟩ <;>
    rs_tie [BObserver.next, ZipObserver.next, absZip, St2.step, St2.guard]

theorem tie_Zip_a_error (g : ZipObserver) (e : Err) :
    (AObserver.error g e).map (fun r => (absZip r.1, r.2)) = some (Rs.lift (St2.step (absZip g) .a (.error e))) := by
  rcases g with ⟨_ | _, qa, qb, c⟩ <;> rs_tie [AObserver.error, ZipObserver.error, absZip, St2.step, St2.guard]

theorem tie_Zip_b_error (g : ZipObserver) (e : Err) :
    (BObserver.error g e).map (fun r => (absZip r.1, r.2)) = some (Rs.lift (St2.step (absZip g) .b (.error e))) := by
  rcases g with ⟨_ | _, qa, qb, c⟩ <;> rs_tie [BObserver.error, ZipObserver.error, absZip, St2.step, St2.guard]

theorem tie_Zip_a_complete (g : ZipObserver) :
    (AObserver.complete g).map (fun r => (absZip r.1, r.2)) = some (Rs.lift (St2.step (absZip g) .a .complete)) := by
  rcases g with ⟨_ | _, qa, qb, _ | _⟩ <;> rs_tie [AObserver.complete, ZipObserver.complete, absZip, St2.step, St2.guard]

theorem tie_Zip_b_complete (g : ZipObserver) :
    (BObserver.complete g).map (fun r => (absZip r.1, r.2)) = some (Rs.lift (St2.step (absZip g) .b .complete)) := by
  rcases g with ⟨_ | _, qa, qb, _ | _⟩ <;> rs_tie [BObserver.complete, ZipObserver.complete, absZip, St2.step, St2.guard]


theorem tie_Zip_init : absZip ZipObserver.init = Kind2.init .zip := by
  rs_simp [ZipObserver.init, absZip, Kind2.init]

end Rx.GenTie
