import RxModel.Gen.Filter
import RxModel.GenTie.Tactics
/-! Tie: `FilterObserver` generated from `/repo/src` IS the `St1` machine of the hand-written model. -/
namespace Rx.GenTie
open Rx Rx.Gen.Filter

/-- a Rust state read as a model state -/
def absFilter (g : FilterObserver) : St1 := .filter g.filter

theorem tie_Filter_next (g : FilterObserver) (v : Val) :
    (FilterObserver.next g v).map (fun r => (absFilter r.1, r.2)) = some (Rs.lift (St1.onNext (absFilter g) v)) := by
  rcases g with ⟨⟩ <;> rs_tie [FilterObserver.next, absFilter, St1.onNext]

theorem tie_Filter_error (g : FilterObserver) (e : Err) :
    (FilterObserver.error g e).map (fun r => r.2) = some ((St1.onError' (absFilter g) e).2.map Rs.Ev.n) := by
  rcases g with ⟨⟩ <;> rs_tie [FilterObserver.error, absFilter, St1.onError']

theorem tie_Filter_complete (g : FilterObserver) :
    (FilterObserver.complete g).map (fun r => r.2) = some ((St1.onComplete' (absFilter g)).2.map Rs.Ev.n) := by
  rcases g with ⟨⟩ <;> rs_tie [FilterObserver.complete, absFilter, St1.onComplete']


theorem tie_Filter_init (p : Val → Bool) :
    absFilter (FilterObserver.init p) = Spec.Op1.init (.filter p) := by
  rs_simp [FilterObserver.init, absFilter, Spec.Op1.init]

end Rx.GenTie
