import RxModel.Gen.Last
import RxModel.GenTie.Tactics
/-! Tie: `LastObserver` generated from `/repo/src` IS the `St1` machine of the hand-written model. -/
namespace Rx.GenTie
open Rx Rx.Gen.Last

/-- a Rust state read as a model state -/
def absLast (g : LastObserver) : St1 := .last g.last

theorem tie_Last_next (g : LastObserver) (v : Val) :
    (LastObserver.next g v).map (fun r => (absLast r.1, r.2)) = some (Rs.lift (St1.onNext (absLast g) v)) := by
  rcases g with ⟨⟩ <;> rs_tie [LastObserver.next, absLast, St1.onNext]

theorem tie_Last_error (g : LastObserver) (e : Err) :
    (LastObserver.error g e).map (fun r => r.2) = some ((St1.onError' (absLast g) e).2.map Rs.Ev.n) := by
  rcases g with ⟨⟩ <;> rs_tie [LastObserver.error, absLast, St1.onError']

theorem tie_Last_complete (g : LastObserver) :
    (LastObserver.complete g).map (fun r => r.2) = some ((St1.onComplete' (absLast g)).2.map Rs.Ev.n) := by
  rcases g with ⟨⟩ <;> rs_tie [LastObserver.complete, absLast, St1.onComplete']


theorem tie_Last_init  :
    absLast (LastObserver.init none) = Spec.Op1.init (.last) := by
  rs_simp [LastObserver.init, absLast, Spec.Op1.init]

end Rx.GenTie
