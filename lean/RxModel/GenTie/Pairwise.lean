import RxModel.Gen.Pairwise
import RxModel.GenTie.Tactics
/-! Tie: `PairwiseObserver` generated from `/repo/src` IS the `St1` machine of the hand-written model. -/
namespace Rx.GenTie
open Rx Rx.Gen.Pairwise

/-- a Rust state read as a model state -/
def absPairwise (g : PairwiseObserver) : St1 := .pairwise g.pair.1 g.pair.2

theorem tie_Pairwise_next (g : PairwiseObserver) (v : Val) :
    (PairwiseObserver.next g v).map (fun r => (absPairwise r.1, r.2)) = some (Rs.lift (St1.onNext (absPairwise g) v)) := by
  rcases g with ⟨⟩ <;> rs_tie [PairwiseObserver.next, absPairwise, St1.onNext]

theorem tie_Pairwise_error (g : PairwiseObserver) (e : Err) :
    (PairwiseObserver.error g e).map (fun r => r.2) = some ((St1.onError' (absPairwise g) e).2.map Rs.Ev.n) := by
  rcases g with ⟨⟩ <;> rs_tie [PairwiseObserver.error, absPairwise, St1.onError']

theorem tie_Pairwise_complete (g : PairwiseObserver) :
    (PairwiseObserver.complete g).map (fun r => r.2) = some ((St1.onComplete' (absPairwise g)).2.map Rs.Ev.n) := by
  rcases g with ⟨⟩ <;> rs_tie [PairwiseObserver.complete, absPairwise, St1.onComplete']


theorem tie_Pairwise_init  :
    absPairwise (PairwiseObserver.init ) = Spec.Op1.init (.pairwise) := by
  rs_simp [PairwiseObserver.init, absPairwise, Spec.Op1.init]

end Rx.GenTie
