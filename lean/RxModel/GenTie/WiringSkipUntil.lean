import RxModel.Gen.SkipUntil
/-! Tie (topology): the cells `SkipUntilOp::actual_subscribe` allocates, which observer field holds which cell, and the
    order in which the inputs are subscribed — extracted from /repo/src by rs2lean, pinned here.  The behaviour
    ties (GenTie/SkipUntil.lean) read the observers' fields as views of ONE shared state; this is the declaration
    they rest on (`firstSide` of the model = the first entry of `order`). -/
namespace Rx.GenTie
open Rx.Gen.SkipUntil

theorem wiring_SkipUntil_lets : SkipUntilOp.lets =
  [("share_observer", "ShareObserver::new(observer)"),
   ("notify_observer", "SkipUntilNotifierObserver(share_observer)"),
   ("b", "self.notifier.actual_subscribe(notify_observer)"),
   ("a", "self.source.actual_subscribe(share_observer)")] := by decide

theorem wiring_SkipUntil_views : SkipUntilOp.views =
  [("SkipUntilNotifierObserver", "0", "share_observer")] := by decide

theorem wiring_SkipUntil_order : SkipUntilOp.order =
  [("self.notifier", "notify_observer"),
   ("self.source", "share_observer")] := by decide

end Rx.GenTie
