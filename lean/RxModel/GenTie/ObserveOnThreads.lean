import RxModel.Gen.ObserveOnThreads
import RxModel.GenTie.Subscription
import RxModel.GenTie.RcObserver
/-! Tie (thread-safe flavour): `ObserveOnObserverThreads` (src/ops/observe_on.rs, compiler-expanded, translated) in closed form — the `observe_on`
    stage of the chain model: EVERY notification (item, error, completion) becomes ONE task scheduled with no delay,
    its handle appended to the operator's MultiSubscription (after `retain`); nothing is delivered synchronously; the
    task bodies are one call on the observer they are handed (the operator's own slot). -/
namespace Rx.GenTie
open Rx Rx.Gen.ObserveOnThreads Rx.Gen.Subscription

theorem tieT_ObserveOn_next (g : ObserveOnObserverThreads) (v : Val) (h : Rs.Sub) :
    ObserveOnObserverThreads.next g v h =
      (MultiSubscriptionThreads.append (g.subscription.map (List.filter Option.isSome)) h).map (fun r =>
        ({ g with subscription := r.1 }, Rs.Ev.sched "delay_emit_value" [v] none h.id :: r.2)) := by
  rcases g with ⟨o, sc, sub⟩
  rs_simp [ObserveOnObserverThreads.next, tieT_Multi_retain]
  cases MultiSubscriptionThreads.append (Option.map (List.filter Option.isSome) sub) h <;> simp

theorem tieT_ObserveOn_error (g : ObserveOnObserverThreads) (e : Err) (h : Rs.Sub) :
    ObserveOnObserverThreads.error g e h =
      (MultiSubscriptionThreads.append (g.subscription.map (List.filter Option.isSome)) h).map (fun r =>
        ({ g with subscription := r.1 }, Rs.Ev.sched "delay_emit_err" [Val.int e] none h.id :: r.2)) := by
  rcases g with ⟨o, sc, sub⟩
  rs_simp [ObserveOnObserverThreads.error, tieT_Multi_retain]
  cases MultiSubscriptionThreads.append (Option.map (List.filter Option.isSome) sub) h <;> simp

theorem tieT_ObserveOn_complete (g : ObserveOnObserverThreads) (h : Rs.Sub) :
    ObserveOnObserverThreads.complete g h =
      (MultiSubscriptionThreads.append (g.subscription.map (List.filter Option.isSome)) h).map (fun r =>
        ({ g with subscription := r.1 }, Rs.Ev.sched "delay_complete" [] none h.id :: r.2)) := by
  rcases g with ⟨o, sc, sub⟩
  rs_simp [ObserveOnObserverThreads.complete, tieT_Multi_retain]
  cases MultiSubscriptionThreads.append (Option.map (List.filter Option.isSome) sub) h <;> simp

theorem tieT_ObserveOn_finished (g : ObserveOnObserverThreads) (d : Bool) :
    ObserveOnObserverThreads.is_finished g d = (!g.observer.isSome || d) := by
  rcases g with ⟨o, sc, sub⟩
  rs_simp [ObserveOnObserverThreads.is_finished, rc_finished]

theorem tieT_ObserveOn_tasks (o : Rs.Obs) (v : Val) (e : Err) :
    ObserveOnObserverThreads.next__delay_emit_value o v = some [Rs.Ev.n (Notif.next v)] ∧
    ObserveOnObserverThreads.error__delay_emit_err o e = some [Rs.Ev.n (Notif.error e)] ∧
    ObserveOnObserverThreads.complete__delay_complete o = some [Rs.Ev.n Notif.complete] := by
  rs_simp [ObserveOnObserverThreads.next__delay_emit_value, ObserveOnObserverThreads.error__delay_emit_err,
    ObserveOnObserverThreads.complete__delay_complete]

end Rx.GenTie
