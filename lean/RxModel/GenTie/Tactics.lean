import RxModel.Gen.Prelude
import RxModel.Ops.Single
import RxModel.Ops.Init
import RxModel.Ops.Multi
/-!
  Shared by the tie theorems (`RxModel/GenTie/*.lean`): each one states that an observer GENERATED from
  `/repo/src` by `rs2lean` is, method by method and for every state and argument, the machine of the
  hand-written model that all property theorems are about:

      (Gen.X.next g v).map (fun r => (abs r.1, r.2)) = some (Rs.lift (St1.onNext (abs g) v))

  `abs : Gen.X → St1` reads a Rust state as a model state.  The left side being `some _` also says that
  the Rust method cannot panic (no `unwrap()` of `None`, no `usize` underflow, loops terminate).
-/
namespace Rx.GenTie
open Rx

/-- unfolding set for the `Rs.*` vocabulary -/
macro "rs_simp" "[" ts:Lean.Parser.Tactic.simpLemma,* "]" : tactic =>
  `(tactic| simp [Rs.lt, Rs.le, Rs.eq, Rs.emitNext, Rs.emitError, Rs.emitComplete, Rs.isFinished, Rs.unwrap,
      Rs.sub, Rs.ToVal.toVal, Rs.dflt, Rs.Dflt.dflt, Rs.len, Rs.isEmpty, Rs.contains, Rs.pushBack, Rs.pushFront,
      Rs.extend, Rs.IntoList.toList, Rs.setInsert, Rs.popFront, Rs.popBack, Rs.isSome, Rs.front, Rs.back,
      Rs.unwrapOr, Rs.panic, Rs.lift, Rs.emitCall, Rs.emitUnsub, Rs.emitTo, Rs.isClosed, Rs.emitStart, Rs.emitLazy, Rs.emitSched, $ts,*])

macro "rs_tie" "[" ts:Lean.Parser.Tactic.simpLemma,* "]" : tactic =>
  `(tactic| (rs_simp [$ts,*] <;> (repeat' split) <;> simp_all))

end Rx.GenTie
