import RxModel.Gen.SkipLast
import RxModel.GenTie.Tactics
/-! Tie: `SkipLastObserver` generated from `/repo/src` IS the `St1.skipLast` machine. -/
namespace Rx.GenTie
open Rx Rx.Gen.SkipLast

def absSkipLast (g : SkipLastObserver) : St1 := .skipLast g.count_down g.queue

theorem tie_SkipLast_next (g : SkipLastObserver) (v : Val) :
    (SkipLastObserver.next g v).map (fun r => (absSkipLast r.1, r.2)) = some (Rs.lift (St1.onNext (absSkipLast g) v)) := by
  rcases g with ⟨o, cd, q⟩
  cases q with
  | nil => cases cd <;> rs_simp [SkipLastObserver.next, absSkipLast, St1.onNext]
  | cons h t => cases cd <;> rs_simp [SkipLastObserver.next, absSkipLast, St1.onNext]

theorem tie_SkipLast_error (g : SkipLastObserver) (e : Err) :
    (SkipLastObserver.error g e).map (fun r => r.2) = some ((St1.onError' (absSkipLast g) e).2.map Rs.Ev.n) := by
  rcases g with ⟨⟩ <;> rs_tie [SkipLastObserver.error, absSkipLast, St1.onError']

theorem tie_SkipLast_complete (g : SkipLastObserver) :
    (SkipLastObserver.complete g).map (fun r => r.2) = some ((St1.onComplete' (absSkipLast g)).2.map Rs.Ev.n) := by
  rcases g with ⟨⟩ <;> rs_tie [SkipLastObserver.complete, absSkipLast, St1.onComplete']


theorem tie_SkipLast_init (n : Nat) :
    absSkipLast (SkipLastObserver.init n) = Spec.Op1.init (.skipLast n) := by
  rs_simp [SkipLastObserver.init, absSkipLast, Spec.Op1.init]

end Rx.GenTie
