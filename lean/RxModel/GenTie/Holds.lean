import RxModel.Gen.Holds
/-! Critical sections read off the source (DESIGN II.7): `rs2lean/src/holds.rs` lists, for every function of the cell-using
    modules (compiler-expanded source, both flavours), each shared cell whose guard (`rc_deref_mut()` / `rc_deref()` /
    `borrow_mut()` / `lock()`) is alive while an EFFECT call is made — a call on an observer, a subscriber, a subscription, a
    scheduler, a user callback or a deferred task — following Rust's rules for temporaries (a `let`-bound guard and an
    extended `&mut *guard` live to the end of the block, a scrutinee temporary through the bodies of `if let` / `match` /
    `for`, any other temporary to the end of its statement; a closure handed to `Box::new` is a body of its own).

    The sequential translation is blind to this by construction (cells are transparent there).  The POLICIES below are what
    the lock-level models of C10 / C12 / C17 / C05 and the re-entrancy behaviour of the local flavour rest on; each is a
    decidable statement about the generated table, re-checked on every run, and robust against refactorings that do not
    change who is called under which cell:

      P1  BehaviorSubject::next makes NO call while its value cell is held (store, release, THEN broadcast)
      P2  MultiSubscription(Threads)::unsubscribe tears its children down with the composite cell RELEASED; `append` calls
          nothing under the cell either
      P3  merge_all: an inner's `complete` and the outer's `next` start an inner observable with the state cell RELEASED,
          and no deferred start (`#closure`) holds any cell
      P4  a subject delivers under its `observers` cell ONLY — never under the chamber (subscribing during an emission must
          not block or panic); `actual_subscribe` of a subject calls nothing under a cell
      P5  the slot observer (`impl_rc_observer!`) holds exactly its own slot while calling downstream — the one nesting
          `slot ▸ downstream` the rank argument of C10 uses
      P6  the handle cell of a scheduled task (`TaskHandle`) is held while the value's subscription is unsubscribed (the
          `handle section` of C17 / C19), and nowhere else in scheduler.rs is a cell held across an effect call -/
namespace Rx.GenTie
open Rx.Gen.Holds

/-- the rows of a table for the functions named in `fs` -/
def rowsFor (t : List (String × String × String × List String)) (fs : List String) : List (String × String × String × List String) :=
  t.filter (fun r => fs.contains r.1)

def fns (t : List (String × String × String × List String)) : List String := t.map (·.1)

/-- P1: no row at all for behavior_subject.rs: neither `next` / `next_by` / the terminals of a BehaviorSubject nor (since
    the repair of the greeting, DESIGN II.3: the value is read out first, `let value = self.value.rc_deref().clone();
    observer.next(value)`) the greeting of a new subscriber calls anything while the value cell is held -/
theorem P1_behavior_next_releases_value_cell :
    behavior_subject = [] := rfl

/-- P2: the composite: `is_closed` asks its children under the cell, `retain` prunes under it; `unsubscribe` and `append` are
    NOT in the table — they call their children with the cell released; the blanket impl for an `Option` cell holds it -/
theorem P2_multi_unsubscribe_releases_cell :
    fns subscription =
      ["<MultiSubscription<'a> as Subscription>::is_closed", "<MultiSubscriptionThreads as Subscription>::is_closed",
       "<T as Subscription>::unsubscribe"] := by decide

/-- P3: merge_all — the state cell is held while an inner item / error or the outer terminal goes downstream, and in
    `is_finished`; NOT in `InnerObserver::complete` (the hand-over to a queued inner), NOT in `OutsideObserver::next` (the
    start of an inner) and in no deferred start (`#closure`) -/
theorem P3_merge_all_starts_inners_with_cell_released :
    fns merge_all =
      ["<InnerObserver<'a,O> as Observer>::next", "<InnerObserver<'a,O> as Observer>::error",
       "<InnerObserver<'a,O> as Observer>::is_finished",
       "<InnerObserverThreads<O> as Observer>::next", "<InnerObserverThreads<O> as Observer>::error",
       "<InnerObserverThreads<O> as Observer>::is_finished",
       "<OutsideObserver<'a,O,Item> as Observer>::error", "<OutsideObserver<'a,O,Item> as Observer>::complete",
       "<OutsideObserver<'a,O,Item> as Observer>::is_finished",
       "<OutsideObserverThreads<O,Item> as Observer>::error", "<OutsideObserverThreads<O,Item> as Observer>::complete",
       "<OutsideObserverThreads<O,Item> as Observer>::is_finished"] := by decide

/-- P4: a subject calls its subscribers under the `observers` cell ONLY; the chamber is held for nothing but the `Vec::append`
    of `load` (so subscribing during an emission neither blocks nor panics) -/
theorem P4_subject_delivers_under_observers_only :
    subject.all (fun r => r.2.1 == "self.observers" || (r.2.1 == "self.chamber" && r.2.2.2 == ["append"])) = true ∧
    (subject.filter (fun r => r.2.2.2.any (fun e => e == "p_next" || e == "p_error" || e == "p_complete"))).all
      (fun r => r.2.1 == "self.observers" && r.2.2.1 == "scrutinee") = true := by decide

/-- P5: the slot observer (`impl_rc_observer!`) holds exactly its own slot while calling downstream — the one nesting
    `slot ▸ downstream` the rank argument of C10 uses -/
theorem P5_slot_observer :
    observer.all (fun r => r.2.1 == "self") = true ∧ observer.length = 8 := by decide

/-- P6 -/
theorem P6_scheduler_handle_section :
    scheduler =
      [("<TaskHandle<SubscribeReturn<T>> as Subscription>::unsubscribe", "self.0", "let", ["unsubscribe"]),
       ("<TaskHandle<SubscribeReturn<T>> as Subscription>::is_closed", "self.0", "let", ["is_closed"])] := rfl

/-- buffer(notifier) and the timed buffers flush the window with the shared cell HELD: a source notification arriving from
    another thread meanwhile waits, it is not lost (seed C04-8 released the cell there) -/
theorem P7_buffer_flushes_under_its_cell :
    buffer =
      [("<NotifierObserver<O,Item> as Observer>::next", "self.0", "scrutinee", ["emit"]),
       ("emit_buffer", "observer", "scrutinee", ["emit"]),
       ("emit_count_buffer", "observer", "scrutinee", ["emit"])] := rfl

end Rx.GenTie
