import RxModel.Gen.OnErrorMap
import RxModel.GenTie.Tactics
/-! Tie: `OnErrorMapObserver` generated from `/repo/src` IS the `St1` machine of the hand-written model. -/
namespace Rx.GenTie
open Rx Rx.Gen.OnErrorMap

/-- a Rust state read as a model state -/
def absOnErrorMap (g : OnErrorMapObserver) : St1 := .onErrorMap g.map

theorem tie_OnErrorMap_next (g : OnErrorMapObserver) (v : Val) :
    (OnErrorMapObserver.next g v).map (fun r => (absOnErrorMap r.1, r.2)) = some (Rs.lift (St1.onNext (absOnErrorMap g) v)) := by
  rcases g with ⟨⟩ <;> rs_tie [OnErrorMapObserver.next, absOnErrorMap, St1.onNext]

theorem tie_OnErrorMap_error (g : OnErrorMapObserver) (e : Err) :
    (OnErrorMapObserver.error g e).map (fun r => r.2) = some ((St1.onError' (absOnErrorMap g) e).2.map Rs.Ev.n) := by
  rcases g with ⟨⟩ <;> rs_tie [OnErrorMapObserver.error, absOnErrorMap, St1.onError']

theorem tie_OnErrorMap_complete (g : OnErrorMapObserver) :
    (OnErrorMapObserver.complete g).map (fun r => r.2) = some ((St1.onComplete' (absOnErrorMap g)).2.map Rs.Ev.n) := by
  rcases g with ⟨⟩ <;> rs_tie [OnErrorMapObserver.complete, absOnErrorMap, St1.onComplete']


theorem tie_OnErrorMap_init (f : Err → Err) :
    absOnErrorMap (OnErrorMapObserver.init f) = Spec.Op1.init (.onErrorMap f) := by
  rs_simp [OnErrorMapObserver.init, absOnErrorMap, Spec.Op1.init]

end Rx.GenTie
