import RxModel.Gen.Sample
/-! Tie (topology): the cells `SampleOp::actual_subscribe` allocates, which observer field holds which cell, and the
    order in which the inputs are subscribed — extracted from /repo/src by rs2lean, pinned here.  The behaviour
    ties (GenTie/Sample.lean) read the observers' fields as views of ONE shared state; this is the declaration
    they rest on (`firstSide` of the model = the first entry of `order`). -/
namespace Rx.GenTie
open Rx.Gen.Sample

theorem wiring_Sample_lets : SampleOp.lets =
  [("value", "MutRc::own(None)"),
   ("observer", "MutRc::own(Some(observer))"),
   ("source_observer", "SourceObserver { observer : observer , value : value , }"),
   ("sample_observer", "SampleObserver { observer, value }"),
   ("source_unsub", "self.source.actual_subscribe(source_observer)"),
   ("sample_unsub", "self.sample.actual_subscribe(sample_observer)")] := by decide

theorem wiring_Sample_views : SampleOp.views =
  [("SourceObserver", "observer", "observer"),
   ("SourceObserver", "value", "value"),
   ("SampleObserver", "observer", "observer"),
   ("SampleObserver", "value", "value")] := by decide

theorem wiring_Sample_order : SampleOp.order =
  [("self.source", "source_observer"),
   ("self.sample", "sample_observer")] := by decide

end Rx.GenTie
