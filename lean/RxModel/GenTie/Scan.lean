import RxModel.Gen.Scan
import RxModel.GenTie.Tactics
/-! Tie: `ScanObserver` generated from `/repo/src` IS the `St1` machine of the hand-written model. -/
namespace Rx.GenTie
open Rx Rx.Gen.Scan

/-- a Rust state read as a model state -/
def absScan (g : ScanObserver) : St1 := .scan g.binary_op g.acc

theorem tie_Scan_next (g : ScanObserver) (v : Val) :
    (ScanObserver.next g v).map (fun r => (absScan r.1, r.2)) = some (Rs.lift (St1.onNext (absScan g) v)) := by
  rcases g with ⟨⟩ <;> rs_tie [ScanObserver.next, absScan, St1.onNext]

theorem tie_Scan_error (g : ScanObserver) (e : Err) :
    (ScanObserver.error g e).map (fun r => r.2) = some ((St1.onError' (absScan g) e).2.map Rs.Ev.n) := by
  rcases g with ⟨⟩ <;> rs_tie [ScanObserver.error, absScan, St1.onError']

theorem tie_Scan_complete (g : ScanObserver) :
    (ScanObserver.complete g).map (fun r => r.2) = some ((St1.onComplete' (absScan g)).2.map Rs.Ev.n) := by
  rcases g with ⟨⟩ <;> rs_tie [ScanObserver.complete, absScan, St1.onComplete']


theorem tie_Scan_init (op : Val → Val → Val) (i : Val) :
    absScan (ScanObserver.init op i) = Spec.Op1.init (.scan op i) := by
  rs_simp [ScanObserver.init, absScan, Spec.Op1.init]

end Rx.GenTie
