import RxModel.Gen.Take
import RxModel.GenTie.Tactics
/-! Tie: `TakeObserver` generated from `/repo/src` IS the `St1` machine of the hand-written model. -/
namespace Rx.GenTie
open Rx Rx.Gen.Take

/-- a Rust state read as a model state -/
def absTake (g : TakeObserver) : St1 := .take g.count g.hits g.observer.isSome

theorem tie_Take_next (g : TakeObserver) (v : Val) :
    (TakeObserver.next g v).map (fun r => (absTake r.1, r.2)) = some (Rs.lift (St1.onNext (absTake g) v)) := by
  rcases g with ⟨_ | _, _, _⟩ <;> rs_tie [TakeObserver.next, absTake, St1.onNext]

theorem tie_Take_error (g : TakeObserver) (e : Err) :
    (TakeObserver.error g e).map (fun r => r.2) = some ((St1.onError' (absTake g) e).2.map Rs.Ev.n) := by
  rcases g with ⟨_ | _, _, _⟩ <;> rs_tie [TakeObserver.error, absTake, St1.onError']

theorem tie_Take_complete (g : TakeObserver) :
    (TakeObserver.complete g).map (fun r => r.2) = some ((St1.onComplete' (absTake g)).2.map Rs.Ev.n) := by
  rcases g with ⟨_ | _, _, _⟩ <;> rs_tie [TakeObserver.complete, absTake, St1.onComplete']


theorem tie_Take_init (n : Nat) :
    absTake (TakeObserver.init n) = Spec.Op1.init (.take n) := by
  rs_simp [TakeObserver.init, absTake, Spec.Op1.init]

end Rx.GenTie
