import RxModel.Gen.Delay
import RxModel.GenTie.Subscription
import RxModel.GenTie.RcObserver
/-! Tie: `DelayObserver` (src/ops/delay.rs, compiler-expanded, translated) in closed form — the `delay` stage of the
    chain model (`Sched/Chain.lean`):
      next v     ONE task `delay_emit_value [v]` scheduled with `Some(delay)`, its handle appended to the operator's
                 MultiSubscription (after `retain`); nothing is delivered synchronously; the task's observer is the
                 operator's own slot (the translator refuses anything else) and its body is `observer.next(v)`
      complete   ONE task `delay_complete []`, same delay, handle appended; body `observer.complete()`
      error      forwarded AT ONCE through the slot (which it empties): pending item tasks find it empty
      is_finished  the slot's answer. -/
namespace Rx.GenTie
open Rx Rx.Gen.Delay Rx.Gen.Subscription

theorem tie_Delay_next (g : DelayObserver) (v : Val) (h : Rs.Sub) :
    DelayObserver.next g v h =
      (MultiSubscription.append (g.subscription.map (List.filter Option.isSome)) h).map (fun r =>
        ({ g with subscription := r.1 }, Rs.Ev.sched "delay_emit_value" [v] (some g.delay) h.id :: r.2)) := by
  rcases g with ⟨d, sc, o, sub⟩
  rs_simp [DelayObserver.next, tie_Multi_retain]
  cases MultiSubscription.append (Option.map (List.filter Option.isSome) sub) h <;> simp

theorem tie_Delay_complete (g : DelayObserver) (h : Rs.Sub) :
    DelayObserver.complete g h =
      (MultiSubscription.append (g.subscription.map (List.filter Option.isSome)) h).map (fun r =>
        ({ g with subscription := r.1 }, Rs.Ev.sched "delay_complete" [] (some g.delay) h.id :: r.2)) := by
  rcases g with ⟨d, sc, o, sub⟩
  rs_simp [DelayObserver.complete, tie_Multi_retain]
  cases MultiSubscription.append (Option.map (List.filter Option.isSome) sub) h <;> simp

theorem tie_Delay_error (g : DelayObserver) (e : Err) :
    DelayObserver.error g e =
      some ({ g with observer := none }, if g.observer.isSome then [Rs.Ev.n (Notif.error e)] else []) := by
  rcases g with ⟨d, sc, o, sub⟩
  rs_simp [DelayObserver.error, rc_error]

theorem tie_Delay_finished (g : DelayObserver) (d : Bool) :
    DelayObserver.is_finished g d = (!g.observer.isSome || d) := by
  rcases g with ⟨dl, sc, o, sub⟩
  rs_simp [DelayObserver.is_finished, rc_finished]

/-- the bodies of the two tasks: one call on the observer they are handed -/
theorem tie_Delay_tasks (o : Rs.Obs) (v : Val) :
    DelayObserver.next__delay_emit_value o v = some [Rs.Ev.n (Notif.next v)] ∧
    DelayObserver.complete__delay_complete o = some [Rs.Ev.n Notif.complete] := by
  rs_simp [DelayObserver.next__delay_emit_value, DelayObserver.complete__delay_complete]

end Rx.GenTie
