import RxModel.Gen.ZipThreads
import RxModel.GenTie.Tactics
/-! Tie (thread-safe flavour, C18: the `MutArc` / atomic instantiation of the same source is the SAME model cell): `ZipObserver` behind its cell and the tagged `AObserver` / `BObserver` generated from
    src/ops/zip.rs ARE the `St2.zip` cell of the model. -/
namespace Rx.GenTie
open Rx Rx.Gen.ZipThreads

def absTZip (g : ZipObserver) : St2 := .zip g.observer.isSome g.a g.b g.completed_one

theorem tieT_Zip_a_next (g : ZipObserver) (v : Val) :
    (AObserver.next g v).map (fun r => (absTZip r.1, r.2)) = some (Rs.lift (St2.step (absTZip g) .a (.next v))) := by
  rcases g with ⟨_ | _, qa, _ | ⟨w, qb⟩, c⟩ <;>
    rs_tie [AObserver.next, ZipObserver.next, absTZip, St2.step, St2.guard]

theorem tieT_Zip_b_next (g : ZipObserver) (v : Val) :
    (BObserver.next g v).map (fun r => (absTZip r.1, r.2)) = some (Rs.lift (St2.step (absTZip g) .b (.next v))) := by
  rcases g with ⟨_ | _, _ | ⟨w, qa⟩, qb, c⟩ <;>
    rs_tie [BObserver.next, ZipObserver.next, absTZip, St2.step, St2.guard]

theorem tieT_Zip_a_error (g : ZipObserver) (e : Err) :
    (AObserver.error g e).map (fun r => (absTZip r.1, r.2)) = some (Rs.lift (St2.step (absTZip g) .a (.error e))) := by
  rcases g with ⟨_ | _, qa, qb, c⟩ <;> rs_tie [AObserver.error, ZipObserver.error, absTZip, St2.step, St2.guard]

theorem tieT_Zip_b_error (g : ZipObserver) (e : Err) :
    (BObserver.error g e).map (fun r => (absTZip r.1, r.2)) = some (Rs.lift (St2.step (absTZip g) .b (.error e))) := by
  rcases g with ⟨_ | _, qa, qb, c⟩ <;> rs_tie [BObserver.error, ZipObserver.error, absTZip, St2.step, St2.guard]

theorem tieT_Zip_a_complete (g : ZipObserver) :
    (AObserver.complete g).map (fun r => (absTZip r.1, r.2)) = some (Rs.lift (St2.step (absTZip g) .a .complete)) := by
  rcases g with ⟨_ | _, qa, qb, _ | _⟩ <;> rs_tie [AObserver.complete, ZipObserver.complete, absTZip, St2.step, St2.guard]

theorem tieT_Zip_b_complete (g : ZipObserver) :
    (BObserver.complete g).map (fun r => (absTZip r.1, r.2)) = some (Rs.lift (St2.step (absTZip g) .b .complete)) := by
  rcases g with ⟨_ | _, qa, qb, _ | _⟩ <;> rs_tie [BObserver.complete, ZipObserver.complete, absTZip, St2.step, St2.guard]


theorem tieT_Zip_init : absTZip ZipObserver.init = Kind2.init .zip := by
  rs_simp [ZipObserver.init, absTZip, Kind2.init]

end Rx.GenTie
