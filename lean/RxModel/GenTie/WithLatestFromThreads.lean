import RxModel.Gen.WithLatestFromThreads
import RxModel.GenTie.Tactics
/-! Tie (thread-safe flavour, C18: the `MutArc` / atomic instantiation of the same source is the SAME model cell): `AObserver` (source side) and `BObserver` (from side) generated from src/ops/with_latest_from.rs ARE
    the two inputs of the `St2.withLatest` cell.  DECLARED topology (actual_subscribe, pinned in
    GenTie/Wiring.lean): both observers hold the SAME slot cell (`observer`) and the SAME value cell (`value`);
    hence both views read one model state. -/
namespace Rx.GenTie
open Rx Rx.Gen.WithLatestFromThreads

def absTWlfA (g : AObserver) : St2 := .withLatest g.observer.isSome g.value
def absTWlfB (g : BObserver) : St2 := .withLatest g.observer.isSome g.value

theorem tieT_Wlf_a_next (g : AObserver) (v : Val) :
    (AObserver.next g v).map (fun r => (absTWlfA r.1, r.2)) = some (Rs.lift (St2.step (absTWlfA g) .a (.next v))) := by
  rcases g with ⟨_ | _, _ | w⟩ <;>
    rs_tie [AObserver.next, Rx.Gen.RcObserver.RcObserver.next, absTWlfA, St2.step, St2.guard]

theorem tieT_Wlf_a_error (g : AObserver) (e : Err) :
    (AObserver.error g e).map (fun r => (absTWlfA r.1, r.2)) = some (Rs.lift (St2.step (absTWlfA g) .a (.error e))) := by
  rcases g with ⟨_ | _, w⟩ <;>
    rs_tie [AObserver.error, Rx.Gen.RcObserver.RcObserver.error, absTWlfA, St2.step, St2.guard]

theorem tieT_Wlf_a_complete (g : AObserver) :
    (AObserver.complete g).map (fun r => (absTWlfA r.1, r.2)) = some (Rs.lift (St2.step (absTWlfA g) .a .complete)) := by
  rcases g with ⟨_ | _, w⟩ <;>
    rs_tie [AObserver.complete, Rx.Gen.RcObserver.RcObserver.complete, absTWlfA, St2.step, St2.guard]

theorem tieT_Wlf_b_next (g : BObserver) (v : Val) :
    (BObserver.next g v).map (fun r => (absTWlfB r.1, r.2)) = some (Rs.lift (St2.step (absTWlfB g) .b (.next v))) := by
  rcases g with ⟨_ | _, w⟩ <;> rs_tie [BObserver.next, absTWlfB, St2.step, St2.guard]

theorem tieT_Wlf_b_error (g : BObserver) (e : Err) :
    (BObserver.error g e).map (fun r => (absTWlfB r.1, r.2)) = some (Rs.lift (St2.step (absTWlfB g) .b (.error e))) := by
  rcases g with ⟨_ | _, w⟩ <;>
    rs_tie [BObserver.error, Rx.Gen.RcObserver.RcObserver.error, absTWlfB, St2.step, St2.guard]

theorem tieT_Wlf_b_complete (g : BObserver) :
    (BObserver.complete g).map (fun r => (absTWlfB r.1, r.2)) = some (Rs.lift (St2.step (absTWlfB g) .b .complete)) := by
  rcases g with ⟨_ | _, w⟩ <;> rs_tie [BObserver.complete, absTWlfB, St2.step, St2.guard]


end Rx.GenTie
