import RxModel.Gen.PinSubscriptionText
import RxModel.Gen.PinSubscriberText
import RxModel.Gen.PinObserverText
/-! Transcription pins (DESIGN II.7, weakest tie): for the files of /repo/src whose Lean model is a HAND transcription
    (ref_count, connectable, from_future, from_stream(_result), complete_status, box_it, defer, create, rc.rs, behavior.rs,
    subscribe_item), `rs2lean` writes the token text of every item (doc comments and test modules dropped) into
    `Gen/Pin*.lean` on every run; the theorems below say that this text is the one the transcription was made from.
    A pin that no longer holds means: the file changed — the sampled correspondence decides whether a property broke, and
    the transcription has to be re-read (tools/gen_pins.py regenerates this file afterwards). -/
namespace Rx.GenTie

/-! ### PinSubscriptionText -/
theorem pin_SubscriptionText_0 : Rx.Gen.PinSubscriptionText.item_0 = ("trait Subscription :: fn unsubscribe", "fn unsubscribe (self) ;") := rfl
theorem pin_SubscriptionText_1 : Rx.Gen.PinSubscriptionText.item_1 = ("trait Subscription :: fn is_closed", "fn is_closed (& self) -> bool ;") := rfl
theorem pin_SubscriptionText_2 : Rx.Gen.PinSubscriptionText.item_2 = ("trait Subscription :: fn unsubscribe_when_dropped", "fn unsubscribe_when_dropped (self) -> SubscriptionGuard < Self > where Self : Sized , { SubscriptionGuard :: new (self) }") := rfl
theorem pin_SubscriptionText_3 : Rx.Gen.PinSubscriptionText.item_3 = ("struct SubscriptionGuard", "# [must_use] pub struct SubscriptionGuard < T : Subscription > (pub (crate) Option < T >) ;") := rfl
theorem pin_SubscriptionText_4 : Rx.Gen.PinSubscriptionText.item_4 = ("struct ZipSubscription", "pub struct ZipSubscription < A , B > { a : A , b : B , }") := rfl
theorem pin_SubscriptionText_5 : Rx.Gen.PinSubscriptionText.item_5 = ("struct MultiSubscription", "# [derive (Clone)] pub struct MultiSubscription < 'a > (MutRc < Option < SmallVec < [Option < BoxSubscription < 'a > > ; 1] > > > ,) ;") := rfl
theorem pin_SubscriptionText_6 : Rx.Gen.PinSubscriptionText.item_6 = ("struct MultiSubscriptionThreads", "# [derive (Clone)] pub struct MultiSubscriptionThreads (MutArc < Option < SmallVec < [Option < BoxSubscriptionThreads > ; 1] > > > ,) ;") := rfl
theorem pin_SubscriptionText_7 : Rx.Gen.PinSubscriptionText.item_7 = ("struct BoxSubscription", "pub struct BoxSubscription < 'a > (Box < dyn BoxSubscriptionInner + 'a >) ;") := rfl
theorem pin_SubscriptionText_8 : Rx.Gen.PinSubscriptionText.item_8 = ("struct BoxSubscriptionThreads", "pub struct BoxSubscriptionThreads (Box < dyn BoxSubscriptionInner + Send >) ;") := rfl
theorem pin_SubscriptionText_9 : Rx.Gen.PinSubscriptionText.item_9 = ("impl ZipSubscription < A , B > (header)", "< A : Subscription , B : Subscription > impl ZipSubscription < A , B >") := rfl
theorem pin_SubscriptionText_10 : Rx.Gen.PinSubscriptionText.item_10 = ("impl ZipSubscription < A , B > :: fn new", "# [inline] pub fn new (a : A , b : B) -> Self { ZipSubscription { a , b } }") := rfl
theorem pin_SubscriptionText_11 : Rx.Gen.PinSubscriptionText.item_11 = ("impl Subscription for ZipSubscription < H , U > (header)", "< U : Subscription , H : Subscription > impl Subscription for ZipSubscription < H , U >") := rfl
theorem pin_SubscriptionText_12 : Rx.Gen.PinSubscriptionText.item_12 = ("impl Subscription for ZipSubscription < H , U > :: fn unsubscribe", "fn unsubscribe (self) { self . a . unsubscribe () ; self . b . unsubscribe () ; }") := rfl
theorem pin_SubscriptionText_13 : Rx.Gen.PinSubscriptionText.item_13 = ("impl Subscription for ZipSubscription < H , U > :: fn is_closed", "fn is_closed (& self) -> bool { self . a . is_closed () && self . b . is_closed () }") := rfl
theorem pin_SubscriptionText_14 : Rx.Gen.PinSubscriptionText.item_14 = ("macro impl_multi_subscription", "macro_rules ! impl_multi_subscription { ($ ty : ty , $ box_ty : ty $ (,$ lf : lifetime) ?) => { impl <$ ($ lf) ?> Subscription for $ ty { fn unsubscribe (self) { let vec = self . 0 . rc_deref_mut () . take () ; if let Some (vec) = vec { vec . into_iter () . for_each (| u | { if let Some (unsub) = u { unsub . 0 . boxed_unsubscribe () ; } }) } } fn is_closed (& self) -> bool { self . 0 . rc_deref () . as_ref () . map_or (true , | m | { m . iter () . all (| u | u . as_ref () . map_or (true , | v | v . is_closed ())) }) } } impl <$ ($ lf) ?> $ ty { pub fn teardown_size (& self) -> usize { self . 0 . rc_deref_mut () . as_mut () . map_or (0 , | vec | vec . len ()) } pub fn append (& mut self , v : $ box_ty) { let mut inner = self . 0 . rc_deref_mut () ; match inner . as_mut () { Some (vec) => vec . push (Some (v)) , None => { drop (inner) ; v . unsubscribe () ; } } } pub fn retain (& mut self) { if let Some (vec) = self . 0 . rc_deref_mut () . as_mut () { vec . retain (| v | v . is_some ()) ; } } } } ; }") := rfl
theorem pin_SubscriptionText_15 : Rx.Gen.PinSubscriptionText.item_15 = ("impl Subscription for () (header)", " impl Subscription for ()") := rfl
theorem pin_SubscriptionText_16 : Rx.Gen.PinSubscriptionText.item_16 = ("impl Subscription for () :: fn unsubscribe", "# [inline] fn unsubscribe (self) { }") := rfl
theorem pin_SubscriptionText_17 : Rx.Gen.PinSubscriptionText.item_17 = ("impl Subscription for () :: fn is_closed", "# [inline] fn is_closed (& self) -> bool { true }") := rfl
theorem pin_SubscriptionText_18 : Rx.Gen.PinSubscriptionText.item_18 = ("macro impl_multi_subscription", "impl_multi_subscription ! (MultiSubscription <'a >, BoxSubscription <'a >, 'a) ;") := rfl
theorem pin_SubscriptionText_19 : Rx.Gen.PinSubscriptionText.item_19 = ("macro impl_multi_subscription", "impl_multi_subscription ! (MultiSubscriptionThreads , BoxSubscriptionThreads) ;") := rfl
theorem pin_SubscriptionText_20 : Rx.Gen.PinSubscriptionText.item_20 = ("impl Default for MultiSubscription < 'a > (header)", "< 'a > impl Default for MultiSubscription < 'a >") := rfl
theorem pin_SubscriptionText_21 : Rx.Gen.PinSubscriptionText.item_21 = ("impl Default for MultiSubscription < 'a > :: fn default", "fn default () -> Self { Self (MutRc :: own (Some (< _ > :: default ()))) }") := rfl
theorem pin_SubscriptionText_22 : Rx.Gen.PinSubscriptionText.item_22 = ("impl Default for MultiSubscriptionThreads (header)", " impl Default for MultiSubscriptionThreads") := rfl
theorem pin_SubscriptionText_23 : Rx.Gen.PinSubscriptionText.item_23 = ("impl Default for MultiSubscriptionThreads :: fn default", "fn default () -> Self { Self (MutArc :: own (Some (< _ > :: default ()))) }") := rfl
theorem pin_SubscriptionText_24 : Rx.Gen.PinSubscriptionText.item_24 = ("impl SubscriptionGuard < T > (header)", "< T : Subscription > impl SubscriptionGuard < T >") := rfl
theorem pin_SubscriptionText_25 : Rx.Gen.PinSubscriptionText.item_25 = ("impl SubscriptionGuard < T > :: fn new", "pub fn new (subscription : T) -> SubscriptionGuard < T > { SubscriptionGuard (Some (subscription)) }") := rfl
theorem pin_SubscriptionText_26 : Rx.Gen.PinSubscriptionText.item_26 = ("impl Drop for SubscriptionGuard < T > (header)", "< T : Subscription > impl Drop for SubscriptionGuard < T >") := rfl
theorem pin_SubscriptionText_27 : Rx.Gen.PinSubscriptionText.item_27 = ("impl Drop for SubscriptionGuard < T > :: fn drop", "fn drop (& mut self) { if let Some (u) = self . 0 . take () { u . unsubscribe () } }") := rfl
theorem pin_SubscriptionText_28 : Rx.Gen.PinSubscriptionText.item_28 = ("impl Subscription for T (header)", "< T , S > impl Subscription for T where T : RcDerefMut < Target = Option < S > > + RcDeref < Target = Option < S > > , S : Subscription ,") := rfl
theorem pin_SubscriptionText_29 : Rx.Gen.PinSubscriptionText.item_29 = ("impl Subscription for T :: fn unsubscribe", "# [inline] fn unsubscribe (self) { if let Some (u) = self . rc_deref_mut () . take () { u . unsubscribe () } }") := rfl
theorem pin_SubscriptionText_30 : Rx.Gen.PinSubscriptionText.item_30 = ("impl Subscription for T :: fn is_closed", "fn is_closed (& self) -> bool { self . rc_deref () . is_none () }") := rfl
theorem pin_SubscriptionText_31 : Rx.Gen.PinSubscriptionText.item_31 = ("trait BoxSubscriptionInner :: fn boxed_unsubscribe", "fn boxed_unsubscribe (self : Box < Self >) ;") := rfl
theorem pin_SubscriptionText_32 : Rx.Gen.PinSubscriptionText.item_32 = ("trait BoxSubscriptionInner :: fn boxed_is_closed", "fn boxed_is_closed (& self) -> bool ;") := rfl
theorem pin_SubscriptionText_33 : Rx.Gen.PinSubscriptionText.item_33 = ("impl BoxSubscriptionInner for T (header)", "< T : Subscription > impl BoxSubscriptionInner for T") := rfl
theorem pin_SubscriptionText_34 : Rx.Gen.PinSubscriptionText.item_34 = ("impl BoxSubscriptionInner for T :: fn boxed_unsubscribe", "# [inline] fn boxed_unsubscribe (self : Box < Self >) { self . unsubscribe () }") := rfl
theorem pin_SubscriptionText_35 : Rx.Gen.PinSubscriptionText.item_35 = ("impl BoxSubscriptionInner for T :: fn boxed_is_closed", "# [inline] fn boxed_is_closed (& self) -> bool { (* self) . is_closed () }") := rfl
theorem pin_SubscriptionText_36 : Rx.Gen.PinSubscriptionText.item_36 = ("impl BoxSubscription < 'a > (header)", "< 'a > impl BoxSubscription < 'a >") := rfl
theorem pin_SubscriptionText_37 : Rx.Gen.PinSubscriptionText.item_37 = ("impl BoxSubscription < 'a > :: fn new", "# [inline] pub fn new (subscription : impl Subscription + 'a) -> Self { Self (Box :: new (subscription)) }") := rfl
theorem pin_SubscriptionText_38 : Rx.Gen.PinSubscriptionText.item_38 = ("impl BoxSubscriptionThreads (header)", " impl BoxSubscriptionThreads") := rfl
theorem pin_SubscriptionText_39 : Rx.Gen.PinSubscriptionText.item_39 = ("impl BoxSubscriptionThreads :: fn new", "# [inline] pub fn new (subscription : impl Subscription + Send + 'static) -> Self { Self (Box :: new (subscription)) }") := rfl
theorem pin_SubscriptionText_40 : Rx.Gen.PinSubscriptionText.item_40 = ("impl Subscription for BoxSubscription < 'a > (header)", "< 'a > impl Subscription for BoxSubscription < 'a >") := rfl
theorem pin_SubscriptionText_41 : Rx.Gen.PinSubscriptionText.item_41 = ("impl Subscription for BoxSubscription < 'a > :: fn unsubscribe", "# [inline] fn unsubscribe (self) { self . 0 . boxed_unsubscribe () }") := rfl
theorem pin_SubscriptionText_42 : Rx.Gen.PinSubscriptionText.item_42 = ("impl Subscription for BoxSubscription < 'a > :: fn is_closed", "# [inline] fn is_closed (& self) -> bool { self . 0 . boxed_is_closed () }") := rfl
theorem pin_SubscriptionText_43 : Rx.Gen.PinSubscriptionText.item_43 = ("impl Subscription for BoxSubscriptionThreads (header)", " impl Subscription for BoxSubscriptionThreads") := rfl
theorem pin_SubscriptionText_44 : Rx.Gen.PinSubscriptionText.item_44 = ("impl Subscription for BoxSubscriptionThreads :: fn unsubscribe", "# [inline] fn unsubscribe (self) { self . 0 . boxed_unsubscribe () }") := rfl
theorem pin_SubscriptionText_45 : Rx.Gen.PinSubscriptionText.item_45 = ("impl Subscription for BoxSubscriptionThreads :: fn is_closed", "# [inline] fn is_closed (& self) -> bool { self . 0 . boxed_is_closed () }") := rfl
theorem pin_SubscriptionText_count : Rx.Gen.PinSubscriptionText.items.length = 46 := rfl

/-! ### PinSubscriberText -/
theorem pin_SubscriberText_0 : Rx.Gen.PinSubscriberText.item_0 = ("struct Subscriber", "pub struct Subscriber < O > (MutRc < Option < O > >) ;") := rfl
theorem pin_SubscriberText_1 : Rx.Gen.PinSubscriberText.item_1 = ("struct SubscriberThreads", "pub struct SubscriberThreads < O > (MutArc < Option < O > >) ;") := rfl
theorem pin_SubscriberText_2 : Rx.Gen.PinSubscriberText.item_2 = ("impl Subscriber < O > (header)", "< O > impl Subscriber < O >") := rfl
theorem pin_SubscriberText_3 : Rx.Gen.PinSubscriberText.item_3 = ("impl Subscriber < O > :: fn new", "# [inline] pub fn new < Item , Err > (observer : Option < O >) -> Self where O : Observer < Item , Err > , { Self (MutRc :: own (observer)) }") := rfl
theorem pin_SubscriberText_4 : Rx.Gen.PinSubscriberText.item_4 = ("impl SubscriberThreads < O > (header)", "< O > impl SubscriberThreads < O >") := rfl
theorem pin_SubscriberText_5 : Rx.Gen.PinSubscriberText.item_5 = ("impl SubscriberThreads < O > :: fn new", "# [inline] pub fn new < Item , Err > (observer : Option < O >) -> Self where O : Observer < Item , Err > + Send , { Self (MutArc :: own (observer)) }") := rfl
theorem pin_SubscriberText_6 : Rx.Gen.PinSubscriberText.item_6 = ("trait Publisher :: fn p_next", "fn p_next (& mut self , value : Item) ;") := rfl
theorem pin_SubscriberText_7 : Rx.Gen.PinSubscriberText.item_7 = ("trait Publisher :: fn p_error", "fn p_error (self : Box < Self > , err : Err) ;") := rfl
theorem pin_SubscriberText_8 : Rx.Gen.PinSubscriberText.item_8 = ("trait Publisher :: fn p_complete", "fn p_complete (self : Box < Self >) ;") := rfl
theorem pin_SubscriberText_9 : Rx.Gen.PinSubscriberText.item_9 = ("trait Publisher :: fn p_unsubscribe", "fn p_unsubscribe (self : Box < Self >) ;") := rfl
theorem pin_SubscriberText_10 : Rx.Gen.PinSubscriberText.item_10 = ("trait Publisher :: fn p_is_closed", "fn p_is_closed (& self) -> bool ;") := rfl
theorem pin_SubscriberText_11 : Rx.Gen.PinSubscriberText.item_11 = ("macro impl_subscriber", "macro_rules ! impl_subscriber { ($ subscriber : ident) => { impl < Item , Err , O > Observer < Item , Err > for $ subscriber < O > where O : Observer < Item , Err >, { # [inline] fn next (& mut self , value : Item) { self . 0 . next (value) ; } # [inline] fn error (self , err : Err) { self . 0 . error (err) } # [inline] fn complete (self) { self . 0 . complete () } # [inline] fn is_finished (& self) -> bool { self . 0 . is_finished () } } impl < O > Subscription for $ subscriber < O > { # [inline] fn unsubscribe (self) { self . 0 . rc_deref_mut () . take () ; } # [inline] fn is_closed (& self) -> bool { self . 0 . rc_deref () . is_none () } } impl < Item , Err , O > Publisher < Item , Err > for $ subscriber < O > where O : Observer < Item , Err >, { # [inline] fn p_next (& mut self , value : Item) { self . next (value) ; } # [inline] fn p_error (self : Box < Self >, err : Err) { self . error (err) ; } # [inline] fn p_complete (self : Box < Self >) { self . complete () ; } # [inline] fn p_unsubscribe (self : Box < Self >) { self . unsubscribe () } fn p_is_closed (& self) -> bool { self . is_finished () || self . is_closed () } } impl < O > Clone for $ subscriber < O > { # [inline] fn clone (& self) -> Self { Self (self . 0 . clone ()) } } } ; }") := rfl
theorem pin_SubscriberText_12 : Rx.Gen.PinSubscriberText.item_12 = ("macro impl_subscriber", "impl_subscriber ! (Subscriber) ;") := rfl
theorem pin_SubscriberText_13 : Rx.Gen.PinSubscriberText.item_13 = ("macro impl_subscriber", "impl_subscriber ! (SubscriberThreads) ;") := rfl
theorem pin_SubscriberText_count : Rx.Gen.PinSubscriberText.items.length = 14 := rfl

/-! ### PinObserverText -/
theorem pin_ObserverText_0 : Rx.Gen.PinObserverText.item_0 = ("trait Observer :: fn next", "fn next (& mut self , value : Item) ;") := rfl
theorem pin_ObserverText_1 : Rx.Gen.PinObserverText.item_1 = ("trait Observer :: fn error", "fn error (self , err : Err) ;") := rfl
theorem pin_ObserverText_2 : Rx.Gen.PinObserverText.item_2 = ("trait Observer :: fn complete", "fn complete (self) ;") := rfl
theorem pin_ObserverText_3 : Rx.Gen.PinObserverText.item_3 = ("trait Observer :: fn is_finished", "fn is_finished (& self) -> bool ;") := rfl
theorem pin_ObserverText_4 : Rx.Gen.PinObserverText.item_4 = ("struct BoxObserver", "pub struct BoxObserver < 'a , Item , Err > (Box < dyn BoxObserverInner < Item , Err > + 'a > ,) ;") := rfl
theorem pin_ObserverText_5 : Rx.Gen.PinObserverText.item_5 = ("struct BoxObserverThreads", "pub struct BoxObserverThreads < Item , Err > (Box < dyn BoxObserverInner < Item , Err > + Send > ,) ;") := rfl
theorem pin_ObserverText_6 : Rx.Gen.PinObserverText.item_6 = ("trait BoxObserverInner :: fn box_next", "fn box_next (& mut self , value : Item) ;") := rfl
theorem pin_ObserverText_7 : Rx.Gen.PinObserverText.item_7 = ("trait BoxObserverInner :: fn box_error", "fn box_error (self : Box < Self > , err : Err) ;") := rfl
theorem pin_ObserverText_8 : Rx.Gen.PinObserverText.item_8 = ("trait BoxObserverInner :: fn box_complete", "fn box_complete (self : Box < Self >) ;") := rfl
theorem pin_ObserverText_9 : Rx.Gen.PinObserverText.item_9 = ("trait BoxObserverInner :: fn box_is_finished", "fn box_is_finished (& self) -> bool ;") := rfl
theorem pin_ObserverText_10 : Rx.Gen.PinObserverText.item_10 = ("impl BoxObserverInner < Item , Err > for T (header)", "< Item , Err , T > impl BoxObserverInner < Item , Err > for T where T : Observer < Item , Err > ,") := rfl
theorem pin_ObserverText_11 : Rx.Gen.PinObserverText.item_11 = ("impl BoxObserverInner < Item , Err > for T :: fn box_next", "# [inline] fn box_next (& mut self , value : Item) { self . next (value) }") := rfl
theorem pin_ObserverText_12 : Rx.Gen.PinObserverText.item_12 = ("impl BoxObserverInner < Item , Err > for T :: fn box_error", "# [inline] fn box_error (self : Box < Self > , err : Err) { self . error (err) }") := rfl
theorem pin_ObserverText_13 : Rx.Gen.PinObserverText.item_13 = ("impl BoxObserverInner < Item , Err > for T :: fn box_complete", "# [inline] fn box_complete (self : Box < Self >) { self . complete () }") := rfl
theorem pin_ObserverText_14 : Rx.Gen.PinObserverText.item_14 = ("impl BoxObserverInner < Item , Err > for T :: fn box_is_finished", "# [inline] fn box_is_finished (& self) -> bool { self . is_finished () }") := rfl
theorem pin_ObserverText_15 : Rx.Gen.PinObserverText.item_15 = ("macro impl_observer_for_boxed", "macro_rules ! impl_observer_for_boxed { ($ ty : ty $ (, $ lf : lifetime) ?) => { impl <$ ($ lf ,) ? Item , Err > Observer < Item , Err > for $ ty { # [inline] fn next (& mut self , value : Item) { self . 0 . box_next (value) } # [inline] fn error (self , err : Err) { self . 0 . box_error (err) } # [inline] fn complete (self) { self . 0 . box_complete () } # [inline] fn is_finished (& self) -> bool { self . 0 . box_is_finished () } } } ; }") := rfl
theorem pin_ObserverText_16 : Rx.Gen.PinObserverText.item_16 = ("macro impl_observer_for_boxed", "impl_observer_for_boxed ! (BoxObserver <'a , Item , Err >, 'a) ;") := rfl
theorem pin_ObserverText_17 : Rx.Gen.PinObserverText.item_17 = ("macro impl_observer_for_boxed", "impl_observer_for_boxed ! (BoxObserverThreads < Item , Err >) ;") := rfl
theorem pin_ObserverText_18 : Rx.Gen.PinObserverText.item_18 = ("impl BoxObserver < 'a , Item , Err > (header)", "< 'a , Item , Err > impl BoxObserver < 'a , Item , Err >") := rfl
theorem pin_ObserverText_19 : Rx.Gen.PinObserverText.item_19 = ("impl BoxObserver < 'a , Item , Err > :: fn new", "# [inline] pub fn new (o : impl Observer < Item , Err > + 'a) -> Self { Self (Box :: new (o)) }") := rfl
theorem pin_ObserverText_20 : Rx.Gen.PinObserverText.item_20 = ("impl BoxObserverThreads < Item , Err > (header)", "< Item , Err > impl BoxObserverThreads < Item , Err >") := rfl
theorem pin_ObserverText_21 : Rx.Gen.PinObserverText.item_21 = ("impl BoxObserverThreads < Item , Err > :: fn new", "# [inline] pub fn new (o : impl Observer < Item , Err > + Send + 'static) -> Self { Self (Box :: new (o)) }") := rfl
theorem pin_ObserverText_22 : Rx.Gen.PinObserverText.item_22 = ("macro impl_rc_observer", "macro_rules ! impl_rc_observer { ($ rc : ident) => { impl < Item , Err , O > Observer < Item , Err > for $ rc < Option < O >> where O : Observer < Item , Err >, { fn next (& mut self , value : Item) { if let Some (o) = & mut * self . rc_deref_mut () { o . next (value) } } fn error (self , err : Err) { if let Some (o) = self . rc_deref_mut () . take () { o . error (err) } } fn complete (self) { if let Some (o) = self . rc_deref_mut () . take () { o . complete () } } fn is_finished (& self) -> bool { self . rc_deref () . as_ref () . map_or (true , | o | o . is_finished ()) } } } ; }") := rfl
theorem pin_ObserverText_23 : Rx.Gen.PinObserverText.item_23 = ("macro impl_rc_observer", "impl_rc_observer ! (MutRc) ;") := rfl
theorem pin_ObserverText_24 : Rx.Gen.PinObserverText.item_24 = ("macro impl_rc_observer", "impl_rc_observer ! (MutArc) ;") := rfl
theorem pin_ObserverText_count : Rx.Gen.PinObserverText.items.length = 25 := rfl

end Rx.GenTie
