import RxModel.Gen.BufferCell
/-! Tie (topology): `actual_subscribe` of `BufferOp`, `BufferWithTimeOp`, `BufferWithCountOrTimerOp` (src/ops/buffer.rs):
    ONE shared cell `MutArc::own(Some(BufferObserver{..}))`; the source gets the cell itself, the notifier gets
    `NotifierObserver(cell)` (subscribed SECOND); the timed variants hand the same cell to
    `RepeatTask::new(time, emit_buffer | emit_count_buffer, cell)` scheduled BEFORE the source is subscribed, and
    return `ZipSubscription(handler, source subscription)`. -/
namespace Rx.GenTie
open Rx.Gen.BufferCell

theorem wiring_BufferOp_lets : BufferOp.lets =
  [("observer", "MutArc::own(Some(BufferObserver { observer, data : vec ! [] }))")] := by first | rfl | decide

theorem wiring_BufferOp_views : BufferOp.views =
  [("BufferObserver", "observer", "observer"),
   ("BufferObserver", "data", "vec ! []"),
   ("NotifierObserver", "0", "observer")] := by first | rfl | decide

theorem wiring_BufferOp_order : BufferOp.order =
  [("self.source", "observer"),
   ("self.closing_notifier", "NotifierObserver(observer)")] := by first | rfl | decide

theorem wiring_BufferWithTimeOp_lets : BufferWithTimeOp.lets =
  [("observer", "BufferObserver { observer, data : vec ! [] }"),
   ("observer", "MutArc::own(Some(observer))"),
   ("handler", "scheduler.schedule(RepeatTask::new(time, emit_buffer, observer), None)"),
   ("subscription", "source.actual_subscribe(observer)")] := by first | rfl | decide

theorem wiring_BufferWithTimeOp_views : BufferWithTimeOp.views =
  [("BufferObserver", "observer", "observer"),
   ("BufferObserver", "data", "vec ! []")] := by first | rfl | decide

theorem wiring_BufferWithTimeOp_order : BufferWithTimeOp.order =
  [("source", "observer")] := by first | rfl | decide

theorem wiring_BufferWithCountOrTimerOp_lets : BufferWithCountOrTimerOp.lets =
  [("observer", "BufferWithCountObserver { buffer : BufferObserver { observer, data : vec ! [] }, count, }"),
   ("observer", "MutArc::own(Some(observer))"),
   ("handler", "scheduler.schedule(RepeatTask::new(time, emit_count_buffer, observer), None,)"),
   ("subscription", "source.actual_subscribe(observer)")] := by first | rfl | decide

theorem wiring_BufferWithCountOrTimerOp_views : BufferWithCountOrTimerOp.views =
  [("BufferObserver", "observer", "observer"),
   ("BufferObserver", "data", "vec ! []"),
   ("BufferWithCountObserver", "buffer", "BufferObserver { observer, data : vec ! [] }"),
   ("BufferWithCountObserver", "count", "count")] := by first | rfl | decide

theorem wiring_BufferWithCountOrTimerOp_order : BufferWithCountOrTimerOp.order =
  [("source", "observer")] := by first | rfl | decide

end Rx.GenTie
