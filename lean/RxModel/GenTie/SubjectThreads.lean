import RxModel.Gen.SubjectThreads
import RxModel.GenTie.Tactics
import RxModel.Subject.Subject
/-! Tie (thread-safe flavour): `SubjectThreads` (the compiler's own expansion of `impl_subject_trivial!` / `impl_observer_methods!` /
    `impl_observable_for_subject!` of src/subject.rs, translated by rs2lean) IS the list part of the subject
    model `Subj.State` (SubjectThreads/Subject.lean): `load` moves the chamber behind the observers (panics on an absent
    chamber), `next` loads and calls `p_next` on EVERY entry of the loaded list in order with the cells unchanged,
    `error/complete` load, take the list (the subject is finished from then on) and call every entry,
    `unsubscribe` takes both lists, `actual_subscribe` pushes to the chamber iff it is there, `retain` filters the
    observers only, `len / is_empty` count both lists.  What a call on an entry does (the slot) is the Subscriber
    tie; callbacks that re-enter the subject are the model's `bcast`, not part of the generated code. -/
namespace Rx.GenTie
open Rx Rx.Gen.SubjectThreads

def pubsT (l : List Nat) : List Rs.Pub := l.map Rs.Pub.mk
/-- the two cells of a model state as the Rust struct -/
def genSubjectT (s : Subj.State) : SubjectThreads :=
  { observers := s.observers.map pubsT, chamber := s.chamber.map pubsT }

theorem forEach_emitT (g : SubjectThreads) (f : Nat → Notif) :
    ∀ (l : List Nat) (out : Rs.Out),
      Rs.forEach (pubsT l) (g, out) (fun (p : SubjectThreads × Rs.Out) q => some (p.fst, p.snd ++ [Rs.Ev.to q.id (f q.id)]))
        = some (g, out ++ l.map (fun i => Rs.Ev.to i (f i))) := by
  intro l
  induction l with
  | nil => intro out; simp [pubsT]
  | cons x t ih => intro out; simp [pubsT] at ih ⊢; simp [ih, List.append_assoc]

theorem tieT_Subject_load (s : Subj.State) (h : s.panicked = false) :
    SubjectThreads.load (genSubjectT s) = if s.load.panicked then none else some (genSubjectT s.load, []) := by
  rcases s with ⟨_ | obs, _ | ch, sl, p⟩ <;> simp only at h <;> subst h <;>
    rs_simp [SubjectThreads.load, genSubjectT, Subj.State.load, pubsT]

/-- `next`: after `load`, `p_next` on every entry of the observers list, in order; the cells stay as loaded. -/
theorem tieT_Subject_next (s : Subj.State) (h : s.panicked = false) (v : Val) :
    SubjectThreads.next (genSubjectT s) v =
      if s.load.panicked then none
      else some (genSubjectT s.load, (s.load.observers.getD []).map (fun i => Rs.Ev.to i (Notif.next v))) := by
  rcases s with ⟨_ | obs, _ | ch, sl, p⟩ <;> simp only at h <;> subst h <;>
    rs_simp [SubjectThreads.next, SubjectThreads.load, genSubjectT, Subj.State.load]
  have := forEach_emitT ⟨some (pubsT obs ++ pubsT ch), some []⟩ (fun _ => Notif.next v) (obs ++ ch) []
  simp [pubsT] at this ⊢
  simp [this]

/-- `error` / `complete`: load, take the list (finished from now on), every entry is handed the terminal. -/
theorem tieT_Subject_error (s : Subj.State) (h : s.panicked = false) (e : Err) :
    SubjectThreads.error (genSubjectT s) e =
      if s.load.panicked then none
      else some (genSubjectT { s.load with observers := none },
                 (s.load.observers.getD []).map (fun i => Rs.Ev.to i (Notif.error e))) := by
  rcases s with ⟨_ | obs, _ | ch, sl, p⟩ <;> simp only at h <;> subst h <;>
    rs_simp [SubjectThreads.error, SubjectThreads.load, genSubjectT, Subj.State.load]
  have := forEach_emitT ⟨none, some []⟩ (fun _ => Notif.error e) (obs ++ ch) []
  simp [pubsT] at this ⊢
  simp [this]

theorem tieT_Subject_complete (s : Subj.State) (h : s.panicked = false) :
    SubjectThreads.complete (genSubjectT s) =
      if s.load.panicked then none
      else some (genSubjectT { s.load with observers := none },
                 (s.load.observers.getD []).map (fun i => Rs.Ev.to i Notif.complete)) := by
  rcases s with ⟨_ | obs, _ | ch, sl, p⟩ <;> simp only at h <;> subst h <;>
    rs_simp [SubjectThreads.complete, SubjectThreads.load, genSubjectT, Subj.State.load]
  have := forEach_emitT ⟨none, some []⟩ (fun _ => Notif.complete) (obs ++ ch) []
  simp [pubsT] at this ⊢
  simp [this]

/-- the model's terminal fan-out starts from exactly that state and that list -/
theorem model_terminal_unfoldT (s : Subj.State) (n : Notif) (h : s.load.panicked = false) :
    s.terminal n = match s.load.observers with
      | some obs => Subj.term n { s.load with observers := none } obs
      | none => (s.load, []) := by
  simp only [Subj.State.terminal, h, Bool.false_eq_true, if_false]
  cases s.load.observers <;> rfl

theorem tieT_Subject_unsubscribe (s : Subj.State) :
    SubjectThreads.unsubscribe (genSubjectT s) = some (genSubjectT s.unsubscribe, []) := by
  rs_simp [SubjectThreads.unsubscribe, genSubjectT, Subj.State.unsubscribe]

theorem tieT_Subject_subscribe (s : Subj.State) (o : Rs.Obs) (script : List Subj.Act) (log0 : List Notif) :
    SubjectThreads.actual_subscribe (genSubjectT s) o ⟨s.slots.length⟩ = some (genSubjectT (s.subscribe script log0), []) := by
  rcases s with ⟨obs, _ | ch, sl, p⟩ <;>
    rs_simp [SubjectThreads.actual_subscribe, genSubjectT, Subj.State.subscribe, pubsT]

theorem tieT_Subject_retain (s : Subj.State) :
    SubjectThreads.retain (genSubjectT s) (fun i => !Subj.aliveAt s.slots i) = some (genSubjectT s.retain, []) := by
  rcases s with ⟨_ | obs, ch, sl, p⟩ <;>
    rs_simp [SubjectThreads.retain, genSubjectT, Subj.State.retain, pubsT, List.filter_map, Function.comp_def]

theorem tieT_Subject_len (s : Subj.State) : SubjectThreads.len (genSubjectT s) = s.len? := by
  rcases s with ⟨_ | obs, _ | ch, sl, p⟩ <;> rs_simp [SubjectThreads.len, genSubjectT, Subj.State.len?, pubsT]

theorem tieT_Subject_is_empty (s : Subj.State) (h : s.len?.isSome) :
    SubjectThreads.is_empty (genSubjectT s) = some s.isEmpty := by
  rcases s with ⟨_ | obs, _ | ch, sl, p⟩ <;> simp [Subj.State.len?] at h <;>
    rs_simp [SubjectThreads.is_empty, genSubjectT, Subj.State.isEmpty, pubsT]
  cases obs <;> simp

theorem tieT_Subject_finished_closed (s : Subj.State) (d : Bool) (c : Nat → Bool) :
    SubjectThreads.is_finished (genSubjectT s) d = s.isFinished ∧ SubjectThreads.is_closed (genSubjectT s) c = s.isClosed := by
  rcases s with ⟨_ | obs, ch, sl, p⟩ <;>
    rs_simp [SubjectThreads.is_finished, SubjectThreads.is_closed, genSubjectT, Subj.State.isFinished, Subj.State.isClosed]

theorem tieT_Subject_init : SubjectThreads.init = genSubjectT Subj.State.init := by
  rs_simp [SubjectThreads.init, genSubjectT, Subj.State.init, pubsT]

end Rx.GenTie
