import RxModel.Gen.Map
import RxModel.GenTie.Tactics
/-! Tie: `MapObserver` generated from `/repo/src` IS the `St1` machine of the hand-written model. -/
namespace Rx.GenTie
open Rx Rx.Gen.Map

/-- a Rust state read as a model state -/
def absMap (g : MapObserver) : St1 := .map g.map

theorem tie_Map_next (g : MapObserver) (v : Val) :
    (MapObserver.next g v).map (fun r => (absMap r.1, r.2)) = some (Rs.lift (St1.onNext (absMap g) v)) := by
  rcases g with ⟨⟩ <;> rs_tie [MapObserver.next, absMap, St1.onNext]

theorem tie_Map_error (g : MapObserver) (e : Err) :
    (MapObserver.error g e).map (fun r => r.2) = some ((St1.onError' (absMap g) e).2.map Rs.Ev.n) := by
  rcases g with ⟨⟩ <;> rs_tie [MapObserver.error, absMap, St1.onError']

theorem tie_Map_complete (g : MapObserver) :
    (MapObserver.complete g).map (fun r => r.2) = some ((St1.onComplete' (absMap g)).2.map Rs.Ev.n) := by
  rcases g with ⟨⟩ <;> rs_tie [MapObserver.complete, absMap, St1.onComplete']


theorem tie_Map_init (f : Val → Val) :
    absMap (MapObserver.init f) = Spec.Op1.init (.map f) := by
  rs_simp [MapObserver.init, absMap, Spec.Op1.init]

end Rx.GenTie
