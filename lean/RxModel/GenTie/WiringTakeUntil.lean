import RxModel.Gen.TakeUntil
/-! Tie (topology): the cells `TakeUntilOp::actual_subscribe` allocates, which observer field holds which cell, and the
    order in which the inputs are subscribed — extracted from /repo/src by rs2lean, pinned here.  The behaviour
    ties (GenTie/TakeUntil.lean) read the observers' fields as views of ONE shared state; this is the declaration
    they rest on (`firstSide` of the model = the first entry of `order`). -/
namespace Rx.GenTie
open Rx.Gen.TakeUntil

theorem wiring_TakeUntil_lets : TakeUntilOp.lets =
  [("main_observer", "MutRc::own(Some(observer))"),
   ("a", "self.source.actual_subscribe(main_observer)"),
   ("notify_observer", "TakeUntilNotifierObserver { main_observer, _hint : TypeHint::default(), }"),
   ("b", "self.notifier.actual_subscribe(notify_observer)")] := by decide

theorem wiring_TakeUntil_views : TakeUntilOp.views =
  [("TakeUntilNotifierObserver", "main_observer", "main_observer"),
   ("TakeUntilNotifierObserver", "_hint", "TypeHint::default()")] := by decide

theorem wiring_TakeUntil_order : TakeUntilOp.order =
  [("self.source", "main_observer"),
   ("self.notifier", "notify_observer")] := by decide

end Rx.GenTie
