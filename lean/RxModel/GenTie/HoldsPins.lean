import RxModel.Gen.Holds
/-! Pins of the critical-section tables (`Gen/Holds.lean`, written by rs2lean/src/holds.rs on every run): per module the
    list (function, cell, how its guard is held, the effect calls made while it is alive) is the one the footprint model
    `Conc/Footprint.lean` (C10) and the lock-level LTS models (C06T, C12T, C14T, C15T, C19T) were transcribed from.
    The robust part — the POLICIES those models rest on — is in `GenTie/Holds.lean`. -/
namespace Rx.GenTie

theorem holds_pin_observer : Rx.Gen.Holds.observer =
  [
   ("<MutRc<Option<O>> as Observer>::next", "self", "scrutinee", ["next"]),
   ("<MutRc<Option<O>> as Observer>::error", "self", "scrutinee", ["error"]),
   ("<MutRc<Option<O>> as Observer>::complete", "self", "scrutinee", ["complete"]),
   ("<MutRc<Option<O>> as Observer>::is_finished", "self", "statement", ["is_finished"]),
   ("<MutArc<Option<O>> as Observer>::next", "self", "scrutinee", ["next"]),
   ("<MutArc<Option<O>> as Observer>::error", "self", "scrutinee", ["error"]),
   ("<MutArc<Option<O>> as Observer>::complete", "self", "scrutinee", ["complete"]),
   ("<MutArc<Option<O>> as Observer>::is_finished", "self", "statement", ["is_finished"])
  ] := rfl

theorem holds_pin_subscriber : Rx.Gen.Holds.subscriber =
  [

  ] := rfl

theorem holds_pin_subscription : Rx.Gen.Holds.subscription =
  [
   ("<MultiSubscription<'a> as Subscription>::is_closed", "self.0", "statement", ["is_closed"]),
   ("<MultiSubscriptionThreads as Subscription>::is_closed", "self.0", "statement", ["is_closed"]),
   ("<T as Subscription>::unsubscribe", "self", "scrutinee", ["unsubscribe"])
  ] := rfl

theorem holds_pin_subject : Rx.Gen.Holds.subject =
  [
   ("Subject<'a,Item,Err>::retain", "self.observers", "scrutinee", ["p_is_closed"]),
   ("Subject<'a,Item,Err>::load", "self.chamber", "statement", ["append"]),
   ("Subject<'a,Item,Err>::load", "self.observers", "scrutinee", ["append"]),
   ("SubjectThreads<Item,Err>::retain", "self.observers", "scrutinee", ["p_is_closed"]),
   ("SubjectThreads<Item,Err>::load", "self.chamber", "statement", ["append"]),
   ("SubjectThreads<Item,Err>::load", "self.observers", "scrutinee", ["append"]),
   ("MutRefItemSubject<'a,Item,Err>::retain", "self.observers", "scrutinee", ["p_is_closed"]),
   ("MutRefItemSubject<'a,Item,Err>::load", "self.chamber", "statement", ["append"]),
   ("MutRefItemSubject<'a,Item,Err>::load", "self.observers", "scrutinee", ["append"]),
   ("MutRefErrSubject<'a,Item,Err>::retain", "self.observers", "scrutinee", ["p_is_closed"]),
   ("MutRefErrSubject<'a,Item,Err>::load", "self.chamber", "statement", ["append"]),
   ("MutRefErrSubject<'a,Item,Err>::load", "self.observers", "scrutinee", ["append"]),
   ("MutRefItemErrSubject<'a,Item,Err>::retain", "self.observers", "scrutinee", ["p_is_closed"]),
   ("MutRefItemErrSubject<'a,Item,Err>::load", "self.chamber", "statement", ["append"]),
   ("MutRefItemErrSubject<'a,Item,Err>::load", "self.observers", "scrutinee", ["append"]),
   ("<Subject<'a,Item,Err> as Observer>::next", "self.observers", "scrutinee", ["p_next"]),
   ("<Subject<'a,Item,Err> as Observer>::error", "self.observers", "scrutinee", ["p_error"]),
   ("<Subject<'a,Item,Err> as Observer>::complete", "self.observers", "scrutinee", ["p_complete"]),
   ("<SubjectThreads<Item,Err> as Observer>::next", "self.observers", "scrutinee", ["p_next"]),
   ("<SubjectThreads<Item,Err> as Observer>::error", "self.observers", "scrutinee", ["p_error"]),
   ("<SubjectThreads<Item,Err> as Observer>::complete", "self.observers", "scrutinee", ["p_complete"]),
   ("<MutRefItemSubject<'a,Item,Err> as Observer>::next", "self.observers", "scrutinee", ["p_next"]),
   ("<MutRefItemSubject<'a,Item,Err> as Observer>::error", "self.observers", "scrutinee", ["p_error"]),
   ("<MutRefItemSubject<'a,Item,Err> as Observer>::complete", "self.observers", "scrutinee", ["p_complete"]),
   ("<MutRefErrSubject<'a,Item,Err> as Observer>::next", "self.observers", "scrutinee", ["p_next"]),
   ("<MutRefErrSubject<'a,Item,Err> as Observer>::error", "self.observers", "scrutinee", ["p_error"]),
   ("<MutRefErrSubject<'a,Item,Err> as Observer>::complete", "self.observers", "scrutinee", ["p_complete"]),
   ("<MutRefItemErrSubject<'a,Item,Err> as Observer>::next", "self.observers", "scrutinee", ["p_next"]),
   ("<MutRefItemErrSubject<'a,Item,Err> as Observer>::error", "self.observers", "scrutinee", ["p_error"]),
   ("<MutRefItemErrSubject<'a,Item,Err> as Observer>::complete", "self.observers", "scrutinee", ["p_complete"])
  ] := rfl

theorem holds_pin_behavior_subject : Rx.Gen.Holds.behavior_subject =
  [
  ] := rfl

theorem holds_pin_ref_count : Rx.Gen.Holds.ref_count =
  [
   ("<ShareOp<'a,Item,Err,S> as Observable>::actual_subscribe", "self.0", "let", ["fork", "actual_subscribe", "connect"]),
   ("<ShareOpThreads<Item,Err,S> as Observable>::actual_subscribe", "self.0", "let", ["fork", "actual_subscribe", "connect"])
  ] := rfl

theorem holds_pin_merge_all : Rx.Gen.Holds.merge_all =
  [
   ("<InnerObserver<'a,O> as Observer>::next", "self.0", "scrutinee", ["next"]),
   ("<InnerObserver<'a,O> as Observer>::error", "self.0", "scrutinee", ["error"]),
   ("<InnerObserver<'a,O> as Observer>::is_finished", "self.0", "statement", ["is_finished"]),
   ("<InnerObserverThreads<O> as Observer>::next", "self.0", "scrutinee", ["next"]),
   ("<InnerObserverThreads<O> as Observer>::error", "self.0", "scrutinee", ["error"]),
   ("<InnerObserverThreads<O> as Observer>::is_finished", "self.0", "statement", ["is_finished"]),
   ("<OutsideObserver<'a,O,Item> as Observer>::error", "self.observer_data", "scrutinee", ["error"]),
   ("<OutsideObserver<'a,O,Item> as Observer>::complete", "self.observer_data", "let", ["complete"]),
   ("<OutsideObserver<'a,O,Item> as Observer>::is_finished", "self.observer_data", "statement", ["is_finished"]),
   ("<OutsideObserverThreads<O,Item> as Observer>::error", "self.observer_data", "scrutinee", ["error"]),
   ("<OutsideObserverThreads<O,Item> as Observer>::complete", "self.observer_data", "let", ["complete"]),
   ("<OutsideObserverThreads<O,Item> as Observer>::is_finished", "self.observer_data", "statement", ["is_finished"])
  ] := rfl

theorem holds_pin_merge : Rx.Gen.Holds.merge =
  [
   ("<MutRc<MergeObserver<O>> as Observer>::next", "self", "let", ["next"]),
   ("<MutRc<MergeObserver<O>> as Observer>::error", "self", "let", ["error"]),
   ("<MutRc<MergeObserver<O>> as Observer>::complete", "self", "let", ["complete"]),
   ("<MutRc<MergeObserver<O>> as Observer>::is_finished", "self", "statement", ["is_finished"]),
   ("<MutArc<MergeObserver<O>> as Observer>::next", "self", "let", ["next"]),
   ("<MutArc<MergeObserver<O>> as Observer>::error", "self", "let", ["error"]),
   ("<MutArc<MergeObserver<O>> as Observer>::complete", "self", "let", ["complete"]),
   ("<MutArc<MergeObserver<O>> as Observer>::is_finished", "self", "statement", ["is_finished"])
  ] := rfl

theorem holds_pin_zip : Rx.Gen.Holds.zip =
  [
   ("<MutRc<ZipObserver<O,ItemA,ItemB>> as Observer>::next", "self", "let", ["next"]),
   ("<MutRc<ZipObserver<O,ItemA,ItemB>> as Observer>::error", "self", "scrutinee", ["error"]),
   ("<MutRc<ZipObserver<O,ItemA,ItemB>> as Observer>::complete", "self", "let", ["complete"]),
   ("<MutRc<ZipObserver<O,ItemA,ItemB>> as Observer>::is_finished", "self", "statement", ["is_finished"]),
   ("<MutArc<ZipObserver<O,ItemA,ItemB>> as Observer>::next", "self", "let", ["next"]),
   ("<MutArc<ZipObserver<O,ItemA,ItemB>> as Observer>::error", "self", "scrutinee", ["error"]),
   ("<MutArc<ZipObserver<O,ItemA,ItemB>> as Observer>::complete", "self", "let", ["complete"]),
   ("<MutArc<ZipObserver<O,ItemA,ItemB>> as Observer>::is_finished", "self", "statement", ["is_finished"])
  ] := rfl

theorem holds_pin_combine_latest : Rx.Gen.Holds.combine_latest =
  [
   ("<MutRc<CombineLatestObserver<O,A,B,BinaryOp>> as Observer>::next", "self", "let", ["call:binary_op", "next"]),
   ("<MutRc<CombineLatestObserver<O,A,B,BinaryOp>> as Observer>::error", "self", "scrutinee", ["error"]),
   ("<MutRc<CombineLatestObserver<O,A,B,BinaryOp>> as Observer>::complete", "self", "let", ["complete"]),
   ("<MutRc<CombineLatestObserver<O,A,B,BinaryOp>> as Observer>::is_finished", "self", "statement", ["is_finished"]),
   ("<MutArc<CombineLatestObserver<O,A,B,BinaryOp>> as Observer>::next", "self", "let", ["call:binary_op", "next"]),
   ("<MutArc<CombineLatestObserver<O,A,B,BinaryOp>> as Observer>::error", "self", "scrutinee", ["error"]),
   ("<MutArc<CombineLatestObserver<O,A,B,BinaryOp>> as Observer>::complete", "self", "let", ["complete"]),
   ("<MutArc<CombineLatestObserver<O,A,B,BinaryOp>> as Observer>::is_finished", "self", "statement", ["is_finished"])
  ] := rfl

theorem holds_pin_with_latest_from : Rx.Gen.Holds.with_latest_from =
  [

  ] := rfl

theorem holds_pin_take_until : Rx.Gen.Holds.take_until =
  [

  ] := rfl

theorem holds_pin_skip_until : Rx.Gen.Holds.skip_until =
  [

  ] := rfl

theorem holds_pin_sample : Rx.Gen.Holds.sample =
  [
   ("<SampleObserver<O,V> as Observer>::next", "self.value", "scrutinee", ["next"]),
   ("<SampleObserver<O,V> as Observer>::complete", "self.value", "scrutinee", ["next"])
  ] := rfl

theorem holds_pin_finalize : Rx.Gen.Holds.finalize =
  [
   ("<FinalizerObserver<O,C> as Observer>::error", "self.func", "scrutinee", ["call:func"]),
   ("<FinalizerObserver<O,C> as Observer>::complete", "self.func", "scrutinee", ["call:func"]),
   ("<FinalizerSubscription<U,C> as Subscription>::unsubscribe", "self.func", "scrutinee", ["call:func"])
  ] := rfl

theorem holds_pin_buffer : Rx.Gen.Holds.buffer =
  [
   ("<NotifierObserver<O,Item> as Observer>::next", "self.0", "scrutinee", ["emit"]),
   ("emit_buffer", "observer", "scrutinee", ["emit"]),
   ("emit_count_buffer", "observer", "scrutinee", ["emit"])
  ] := rfl

theorem holds_pin_delay : Rx.Gen.Holds.delay =
  [

  ] := rfl

theorem holds_pin_observe_on : Rx.Gen.Holds.observe_on =
  [

  ] := rfl

theorem holds_pin_debounce : Rx.Gen.Holds.debounce =
  [
   ("debounce_task", "value", "scrutinee", ["next"]),
   ("<DebounceObserver<O,SD,Item> as Observer>::next", "self.task_handler", "scrutinee", ["unsubscribe"]),
   ("<DebounceObserver<O,SD,Item> as Observer>::complete", "self.trailing_value", "scrutinee", ["next"])
  ] := rfl

theorem holds_pin_throttle : Rx.Gen.Holds.throttle =
  [
   ("<ThrottleObserver<O,SD,Item,F> as Observer>::next", "self.task_handler", "statement", ["is_closed"]),
   ("<ThrottleObserver<O,SD,Item,F> as Observer>::complete", "self.trailing_value", "scrutinee", ["next"]),
   ("throttle_task", "trailing_value", "scrutinee", ["next"])
  ] := rfl

theorem holds_pin_group_by : Rx.Gen.Holds.group_by =
  [

  ] := rfl

theorem holds_pin_scheduler : Rx.Gen.Holds.scheduler =
  [
   ("<TaskHandle<SubscribeReturn<T>> as Subscription>::unsubscribe", "self.0", "let", ["unsubscribe"]),
   ("<TaskHandle<SubscribeReturn<T>> as Subscription>::is_closed", "self.0", "let", ["is_closed"])
  ] := rfl

end Rx.GenTie
