import RxModel.Gen.Finalize
/-! Tie (topology): `FinalizeOp::actual_subscribe` — one `func` cell, held by the observer handed to the source AND by the
    returned subscription. -/
namespace Rx.GenTie
open Rx.Gen.Finalize

theorem wiring_Finalize_lets : FinalizeOp.lets =
  [("func", "MutRc::own(Some(self.func))"),
   ("subscription", "self.source.actual_subscribe(FinalizerObserver { observer, func : func })")] := by decide

theorem wiring_Finalize_views : FinalizeOp.views =
  [("FinalizerObserver", "observer", "observer"),
   ("FinalizerObserver", "func", "func"),
   ("FinalizerSubscription", "subscription", "subscription"),
   ("FinalizerSubscription", "func", "func")] := by decide

theorem wiring_Finalize_order : FinalizeOp.order =
  [("self.source", "FinalizerObserver { observer, func : func }")] := by decide

end Rx.GenTie
