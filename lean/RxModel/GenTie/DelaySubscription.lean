import RxModel.Gen.DelaySubscription
import RxModel.GenTie.Tactics
/-! Tie: `delay_subscription` (src/ops/delay.rs, compiler-expanded): ONE task `subscribe_task` holding the source, outer delay
    = the configured delay; the task subscribes the source (nothing else). -/
namespace Rx.GenTie
open Rx Rx.Gen.DelaySubscription

theorem tie_DelaySubscription_subscribe (g : DelaySubscriptionOp) (o : Rs.Obs) (h : Rs.Sub) :
    DelaySubscriptionOp.actual_subscribe g o h =
      some (g, [Rs.Ev.sched "subscribe_task" [Val.obs g.source.id] (some g.delay) h.id]) := by
  rcases g with ⟨s, d, sc⟩; rs_simp [DelaySubscriptionOp.actual_subscribe]

theorem tie_DelaySubscription_task (o : Rs.Obs) (src : Rs.Inner) :
    Observer.task_subscribe_task o src = some (o, [Rs.Ev.start src.id]) := by
  rs_simp [Observer.task_subscribe_task]

end Rx.GenTie
