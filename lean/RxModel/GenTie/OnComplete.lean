import RxModel.Gen.OnComplete
import RxModel.GenTie.Tactics
/-! Tie: `OnCompleteObserver` generated from `/repo/src` IS the `St1` machine of the hand-written model. -/
namespace Rx.GenTie
open Rx Rx.Gen.OnComplete

/-- a Rust state read as a model state -/
def absOnComplete (g : OnCompleteObserver) : St1 := .onComplete g.func

theorem tie_OnComplete_next (g : OnCompleteObserver) (v : Val) :
    (OnCompleteObserver.next g v).map (fun r => (absOnComplete r.1, r.2)) = some (Rs.lift (St1.onNext (absOnComplete g) v)) := by
  rcases g with ⟨⟩ <;> rs_tie [OnCompleteObserver.next, absOnComplete, St1.onNext]

theorem tie_OnComplete_error (g : OnCompleteObserver) (e : Err) :
    (OnCompleteObserver.error g e).map (fun r => r.2) = some ((St1.onError' (absOnComplete g) e).2.map Rs.Ev.n) := by
  rcases g with ⟨⟩ <;> rs_tie [OnCompleteObserver.error, absOnComplete, St1.onError']

theorem tie_OnComplete_complete (g : OnCompleteObserver) :
    (OnCompleteObserver.complete g).map (fun r => r.2) = some ((St1.onComplete' (absOnComplete g)).2.map Rs.Ev.n) := by
  rcases g with ⟨⟩ <;> rs_tie [OnCompleteObserver.complete, absOnComplete, St1.onComplete']


end Rx.GenTie
