import RxModel.Gen.Sample
import RxModel.GenTie.Tactics
/-! Tie: `SourceObserver` and `SampleObserver` generated from src/ops/sample.rs ARE the two inputs of the
    `St2.sample` cell.  DECLARED topology: both hold the same slot cell and the same value cell. -/
namespace Rx.GenTie
open Rx Rx.Gen.Sample

def absSampleA (g : SourceObserver) : St2 := .sample g.observer.isSome g.value
def absSampleB (g : SampleObserver) : St2 := .sample g.observer.isSome g.value

theorem tie_Sample_a_next (g : SourceObserver) (v : Val) :
    (SourceObserver.next g v).map (fun r => (absSampleA r.1, r.2)) = some (Rs.lift (St2.step (absSampleA g) .a (.next v))) := by
  rcases g with ⟨_ | _, w⟩ <;> rs_tie [SourceObserver.next, absSampleA, St2.step, St2.guard]

theorem tie_Sample_a_error (g : SourceObserver) (e : Err) :
    (SourceObserver.error g e).map (fun r => (absSampleA r.1, r.2)) = some (Rs.lift (St2.step (absSampleA g) .a (.error e))) := by
  rcases g with ⟨_ | _, w⟩ <;>
    rs_tie [SourceObserver.error, Rx.Gen.RcObserver.RcObserver.error, absSampleA, St2.step, St2.guard]

theorem tie_Sample_a_complete (g : SourceObserver) :
    (SourceObserver.complete g).map (fun r => (absSampleA r.1, r.2)) = some (Rs.lift (St2.step (absSampleA g) .a .complete)) := by
  rcases g with ⟨_ | _, w⟩ <;>
    rs_tie [SourceObserver.complete, Rx.Gen.RcObserver.RcObserver.complete, absSampleA, St2.step, St2.guard]

theorem tie_Sample_b_next (g : SampleObserver) (v : Val) :
    (SampleObserver.next g v).map (fun r => (absSampleB r.1, r.2)) = some (Rs.lift (St2.step (absSampleB g) .b (.next v))) := by
  rcases g with ⟨_ | _, _ | w⟩ <;>
    rs_tie [SampleObserver.next, Rx.Gen.RcObserver.RcObserver.next, absSampleB, St2.step, St2.guard]

theorem tie_Sample_b_error (g : SampleObserver) (e : Err) :
    (SampleObserver.error g e).map (fun r => (absSampleB r.1, r.2)) = some (Rs.lift (St2.step (absSampleB g) .b (.error e))) := by
  rcases g with ⟨_ | _, w⟩ <;>
    rs_tie [SampleObserver.error, Rx.Gen.RcObserver.RcObserver.error, absSampleB, St2.step, St2.guard]

theorem tie_Sample_b_complete (g : SampleObserver) :
    (SampleObserver.complete g).map (fun r => (absSampleB r.1, r.2)) = some (Rs.lift (St2.step (absSampleB g) .b .complete)) := by
  rcases g with ⟨_ | _, _ | w⟩ <;>
    rs_tie [SampleObserver.complete, Rx.Gen.RcObserver.RcObserver.next, absSampleB, St2.step, St2.guard]


end Rx.GenTie
