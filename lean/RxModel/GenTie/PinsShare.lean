import RxModel.Gen.PinRefCount
import RxModel.Gen.PinConnectable
/-! Transcription pins (DESIGN II.7, weakest tie): for the files of /repo/src whose Lean model is a HAND transcription
    (ref_count, connectable, from_future, from_stream(_result), complete_status, box_it, defer, create, rc.rs, behavior.rs,
    subscribe_item), `rs2lean` writes the token text of every item (doc comments and test modules dropped) into
    `Gen/Pin*.lean` on every run; the theorems below say that this text is the one the transcription was made from.
    A pin that no longer holds means: the file changed — the sampled correspondence decides whether a property broke, and
    the transcription has to be re-read (tools/gen_pins.py regenerates this file afterwards). -/
namespace Rx.GenTie

/-! ### PinRefCount -/
theorem pin_RefCount_0 : Rx.Gen.PinRefCount.item_0 = ("struct ShareOp", "pub struct ShareOp < 'a , Item , Err , Source > (MutRc < InnerShareOp < Source , Subject < 'a , Item , Err > > > ,) ;") := rfl
theorem pin_RefCount_1 : Rx.Gen.PinRefCount.item_1 = ("struct ShareOpThreads", "pub struct ShareOpThreads < Item , Err , Source > (MutArc < InnerShareOp < Source , SubjectThreads < Item , Err > > > ,) ;") := rfl
theorem pin_RefCount_2 : Rx.Gen.PinRefCount.item_2 = ("enum InnerShareOp", "enum InnerShareOp < Source , Subject > { Connectable (ConnectableObservable < Source , Subject >) , Connected (Subject) , }") := rfl
theorem pin_RefCount_3 : Rx.Gen.PinRefCount.item_3 = ("macro impl_trivial", "macro_rules ! impl_trivial { ($ name : ident , $ rc : ident $ (,$ lf : lifetime) ?) => { impl <$ ($ lf ,) ? Item , Err , S > Clone for $ name <$ ($ lf ,) ? Item , Err , S > { fn clone (& self) -> Self { Self (self . 0 . clone ()) } } impl <$ ($ lf ,) ? Item , Err , S > $ name <$ ($ lf ,) ? Item , Err , S > { # [inline] pub fn new (source : S) -> Self { let inner = InnerShareOp :: Connectable (ConnectableObservable :: new (source)) ; $ name ($ rc :: own (inner)) } } } ; }") := rfl
theorem pin_RefCount_4 : Rx.Gen.PinRefCount.item_4 = ("macro impl_trivial", "impl_trivial ! (ShareOp , MutRc , 'a) ;") := rfl
theorem pin_RefCount_5 : Rx.Gen.PinRefCount.item_5 = ("macro impl_trivial", "impl_trivial ! (ShareOpThreads , MutArc) ;") := rfl
theorem pin_RefCount_6 : Rx.Gen.PinRefCount.item_6 = ("macro impl_observable_methods", "macro_rules ! impl_observable_methods { ($ subject : ty) => { type Unsub = RefCountSubscription < $ subject , <$ subject as Observable < Item , Err , O >>:: Unsub , >; fn actual_subscribe (self , observer : O) -> Self :: Unsub { let mut inner = self . 0 . rc_deref_mut () ; match & mut * inner { InnerShareOp :: Connectable (c) => { let subject = c . fork () ; let subscription = subject . clone () . actual_subscribe (observer) ; let connected = InnerShareOp :: Connected (subject . clone ()) ; let connectable = std :: mem :: replace (& mut * inner , connected) ; match connectable { InnerShareOp :: Connectable (connectable) => connectable . connect () , InnerShareOp :: Connected { .. } => unreachable ! () , } ; RefCountSubscription { subject , subscription } } InnerShareOp :: Connected (subject) => { let subscription = subject . clone () . actual_subscribe (observer) ; RefCountSubscription { subject : subject . clone () , subscription } } } } } ; }") := rfl
theorem pin_RefCount_7 : Rx.Gen.PinRefCount.item_7 = ("impl Observable < Item , Err , O > for ShareOp < 'a , Item , Err , S > (header)", "< 'a , S , Item , Err , O > impl Observable < Item , Err , O > for ShareOp < 'a , Item , Err , S > where Item : Clone , Err : Clone , O : Observer < Item , Err > + 'a , S : Observable < Item , Err , Subject < 'a , Item , Err > > ,") := rfl
theorem pin_RefCount_8 : Rx.Gen.PinRefCount.item_8 = ("impl Observable < Item , Err , O > for ShareOp < 'a , Item , Err , S > :: item", "impl_observable_methods ! (Subject <'a , Item , Err >) ;") := rfl
theorem pin_RefCount_9 : Rx.Gen.PinRefCount.item_9 = ("impl ObservableExt < Item , Err > for ShareOp < 'a , Item , Err , S > (header)", "< 'a , S , Item , Err > impl ObservableExt < Item , Err > for ShareOp < 'a , Item , Err , S > where S : ObservableExt < Item , Err >") := rfl
theorem pin_RefCount_10 : Rx.Gen.PinRefCount.item_10 = ("impl Observable < Item , Err , O > for ShareOpThreads < Item , Err , S > (header)", "< S , Item , Err , O > impl Observable < Item , Err , O > for ShareOpThreads < Item , Err , S > where Item : Clone , Err : Clone , O : Observer < Item , Err > + Send + 'static , S : Observable < Item , Err , SubjectThreads < Item , Err > > ,") := rfl
theorem pin_RefCount_11 : Rx.Gen.PinRefCount.item_11 = ("impl Observable < Item , Err , O > for ShareOpThreads < Item , Err , S > :: item", "impl_observable_methods ! (SubjectThreads < Item , Err >) ;") := rfl
theorem pin_RefCount_12 : Rx.Gen.PinRefCount.item_12 = ("impl ObservableExt < Item , Err > for ShareOpThreads < Item , Err , S > (header)", "< S , Item , Err > impl ObservableExt < Item , Err > for ShareOpThreads < Item , Err , S > where S : ObservableExt < Item , Err >") := rfl
theorem pin_RefCount_13 : Rx.Gen.PinRefCount.item_13 = ("struct RefCountSubscription", "pub struct RefCountSubscription < Subject , U > { subject : Subject , subscription : U , }") := rfl
theorem pin_RefCount_14 : Rx.Gen.PinRefCount.item_14 = ("impl Subscription for RefCountSubscription < Subject , U > (header)", "< U , Subject > impl Subscription for RefCountSubscription < Subject , U > where Subject : Subscription + SubjectSize , U : Subscription ,") := rfl
theorem pin_RefCount_15 : Rx.Gen.PinRefCount.item_15 = ("impl Subscription for RefCountSubscription < Subject , U > :: fn unsubscribe", "fn unsubscribe (self) { self . subscription . unsubscribe () ; if self . subject . is_empty () { self . subject . unsubscribe () } }") := rfl
theorem pin_RefCount_16 : Rx.Gen.PinRefCount.item_16 = ("impl Subscription for RefCountSubscription < Subject , U > :: fn is_closed", "# [inline (always)] fn is_closed (& self) -> bool { self . subscription . is_closed () }") := rfl
theorem pin_RefCount_count : Rx.Gen.PinRefCount.items.length = 17 := rfl

/-! ### PinConnectable -/
theorem pin_Connectable_0 : Rx.Gen.PinConnectable.item_0 = ("struct ConnectableObservable", "pub struct ConnectableObservable < S , Subject > { source : S , subject : Subject , }") := rfl
theorem pin_Connectable_1 : Rx.Gen.PinConnectable.item_1 = ("impl Observable < Item , Err , O > for ConnectableObservable < S , Subject > (header)", "< S , Subject , Item , Err , O > impl Observable < Item , Err , O > for ConnectableObservable < S , Subject > where Subject : Observable < Item , Err , O > , O : Observer < Item , Err > ,") := rfl
theorem pin_Connectable_2 : Rx.Gen.PinConnectable.item_2 = ("impl Observable < Item , Err , O > for ConnectableObservable < S , Subject > :: item", "type Unsub = Subject :: Unsub ;") := rfl
theorem pin_Connectable_3 : Rx.Gen.PinConnectable.item_3 = ("impl Observable < Item , Err , O > for ConnectableObservable < S , Subject > :: fn actual_subscribe", "# [inline] fn actual_subscribe (self , observer : O) -> Self :: Unsub { self . subject . actual_subscribe (observer) }") := rfl
theorem pin_Connectable_4 : Rx.Gen.PinConnectable.item_4 = ("impl ConnectableObservable < S , Subject > (header)", "< S , Subject > impl ConnectableObservable < S , Subject >") := rfl
theorem pin_Connectable_5 : Rx.Gen.PinConnectable.item_5 = ("impl ConnectableObservable < S , Subject > :: fn new", "# [inline] pub fn new (source : S) -> Self where Subject : Default , { ConnectableObservable { source , subject : < _ > :: default () } }") := rfl
theorem pin_Connectable_6 : Rx.Gen.PinConnectable.item_6 = ("impl ConnectableObservable < S , Subject > :: fn fork", "# [inline] pub fn fork (& self) -> Subject where Subject : Clone , { self . subject . clone () }") := rfl
theorem pin_Connectable_7 : Rx.Gen.PinConnectable.item_7 = ("impl ConnectableObservable < S , Subject > :: fn connect", "# [inline] pub fn connect < Item , Err > (self) -> S :: Unsub where S : Observable < Item , Err , Subject > , Subject : Observer < Item , Err > , { self . source . actual_subscribe (self . subject) }") := rfl
theorem pin_Connectable_count : Rx.Gen.PinConnectable.items.length = 8 := rfl

end Rx.GenTie
