import RxModel.Gen.CombineLatest
import RxModel.GenTie.Tactics
/-! Tie: `CombineLatestObserver` behind its cell and the tagged `AObserver` / `BObserver` generated from
    src/ops/combine_latest.rs ARE the `St2.combine` cell of the model (the model's and the harness' binary
    operation is pairing, hence the hypothesis on `binary_op`). -/
namespace Rx.GenTie
open Rx Rx.Gen.CombineLatest

def absCombine (g : CombineLatestObserver) : St2 := .combine g.observer.isSome g.a g.b g.completed_one

theorem tie_Combine_a_next (g : CombineLatestObserver) (h : g.binary_op = Val.pair) (v : Val) :
    (AObserver.next g v).map (fun r => (absCombine r.1, r.2)) = some (Rs.lift (St2.step (absCombine g) .a (.next v))) := by
  rcases g with ⟨_ | _, a, _ | b, op, c⟩ <;> simp only at h <;> subst h <;>
    rs_tie [AObserver.next, CombineLatestObserver.next, absCombine, St2.step, St2.guard]

theorem tie_Combine_b_next (g : CombineLatestObserver) (h : g.binary_op = Val.pair) (v : Val) :
    (BObserver.next g v).map (fun r => (absCombine r.1, r.2)) = some (Rs.lift (St2.step (absCombine g) .b (.next v))) := by
  rcases g with ⟨_ | _, _ | a, b, op, c⟩ <;> simp only at h <;> subst h <;>
    rs_tie [BObserver.next, CombineLatestObserver.next, absCombine, St2.step, St2.guard]

theorem tie_Combine_next_keeps_op (g : CombineLatestObserver) (v : Val) :
    (∀ r, AObserver.next g v = some r → r.1.binary_op = g.binary_op) ∧
    (∀ r, BObserver.next g v = some r → r.1.binary_op = g.binary_op) := by
  rcases g with ⟨_ | _, _ | a, _ | b, op, c⟩ <;>
    rs_tie [AObserver.next, BObserver.next, CombineLatestObserver.next]

theorem tie_Combine_a_error (g : CombineLatestObserver) (e : Err) :
    (AObserver.error g e).map (fun r => (absCombine r.1, r.2)) = some (Rs.lift (St2.step (absCombine g) .a (.error e))) := by
  rcases g with ⟨_ | _, a, b, op, c⟩ <;> rs_tie [AObserver.error, CombineLatestObserver.error, absCombine, St2.step, St2.guard]

theorem tie_Combine_b_error (g : CombineLatestObserver) (e : Err) :
    (BObserver.error g e).map (fun r => (absCombine r.1, r.2)) = some (Rs.lift (St2.step (absCombine g) .b (.error e))) := by
  rcases g with ⟨_ | _, a, b, op, c⟩ <;> rs_tie [BObserver.error, CombineLatestObserver.error, absCombine, St2.step, St2.guard]

theorem tie_Combine_a_complete (g : CombineLatestObserver) :
    (AObserver.complete g).map (fun r => (absCombine r.1, r.2)) = some (Rs.lift (St2.step (absCombine g) .a .complete)) := by
  rcases g with ⟨_ | _, a, b, op, _ | _⟩ <;> rs_tie [AObserver.complete, CombineLatestObserver.complete, absCombine, St2.step, St2.guard]

theorem tie_Combine_b_complete (g : CombineLatestObserver) :
    (BObserver.complete g).map (fun r => (absCombine r.1, r.2)) = some (Rs.lift (St2.step (absCombine g) .b .complete)) := by
  rcases g with ⟨_ | _, a, b, op, _ | _⟩ <;> rs_tie [BObserver.complete, CombineLatestObserver.complete, absCombine, St2.step, St2.guard]


theorem tie_Combine_init (op : Val → Val → Val) : absCombine (CombineLatestObserver.init op) = Kind2.init .combine := by
  rs_simp [CombineLatestObserver.init, absCombine, Kind2.init]

end Rx.GenTie
