import RxModel.Gen.MapTo
import RxModel.GenTie.Tactics
/-! Tie: `MapToObserver` generated from `/repo/src` IS the `St1` machine of the hand-written model. -/
namespace Rx.GenTie
open Rx Rx.Gen.MapTo

/-- a Rust state read as a model state -/
def absMapTo (g : MapToObserver) : St1 := .mapTo g.value

theorem tie_MapTo_next (g : MapToObserver) (v : Val) :
    (MapToObserver.next g v).map (fun r => (absMapTo r.1, r.2)) = some (Rs.lift (St1.onNext (absMapTo g) v)) := by
  rcases g with ⟨⟩ <;> rs_tie [MapToObserver.next, absMapTo, St1.onNext]

theorem tie_MapTo_error (g : MapToObserver) (e : Err) :
    (MapToObserver.error g e).map (fun r => r.2) = some ((St1.onError' (absMapTo g) e).2.map Rs.Ev.n) := by
  rcases g with ⟨⟩ <;> rs_tie [MapToObserver.error, absMapTo, St1.onError']

theorem tie_MapTo_complete (g : MapToObserver) :
    (MapToObserver.complete g).map (fun r => r.2) = some ((St1.onComplete' (absMapTo g)).2.map Rs.Ev.n) := by
  rcases g with ⟨⟩ <;> rs_tie [MapToObserver.complete, absMapTo, St1.onComplete']


theorem tie_MapTo_init (v : Val) :
    absMapTo (MapToObserver.init v) = Spec.Op1.init (.mapTo v) := by
  rs_simp [MapToObserver.init, absMapTo, Spec.Op1.init]

end Rx.GenTie
