import RxModel.Gen.SampleThreads
import RxModel.GenTie.Tactics
/-! Tie (thread-safe flavour, C18: the `MutArc` / atomic instantiation of the same source is the SAME model cell): `SourceObserver` and `SampleObserver` generated from src/ops/sample.rs ARE the two inputs of the
    `St2.sample` cell.  DECLARED topology: both hold the same slot cell and the same value cell. -/
namespace Rx.GenTie
open Rx Rx.Gen.SampleThreads

def absTSampleA (g : SourceObserver) : St2 := .sample g.observer.isSome g.value
def absTSampleB (g : SampleObserver) : St2 := .sample g.observer.isSome g.value

theorem tieT_Sample_a_next (g : SourceObserver) (v : Val) :
    (SourceObserver.next g v).map (fun r => (absTSampleA r.1, r.2)) = some (Rs.lift (St2.step (absTSampleA g) .a (.next v))) := by
  rcases g with ⟨_ | _, w⟩ <;> rs_tie [SourceObserver.next, absTSampleA, St2.step, St2.guard]

theorem tieT_Sample_a_error (g : SourceObserver) (e : Err) :
    (SourceObserver.error g e).map (fun r => (absTSampleA r.1, r.2)) = some (Rs.lift (St2.step (absTSampleA g) .a (.error e))) := by
  rcases g with ⟨_ | _, w⟩ <;>
    rs_tie [SourceObserver.error, Rx.Gen.RcObserver.RcObserver.error, absTSampleA, St2.step, St2.guard]

theorem tieT_Sample_a_complete (g : SourceObserver) :
    (SourceObserver.complete g).map (fun r => (absTSampleA r.1, r.2)) = some (Rs.lift (St2.step (absTSampleA g) .a .complete)) := by
  rcases g with ⟨_ | _, w⟩ <;>
    rs_tie [SourceObserver.complete, Rx.Gen.RcObserver.RcObserver.complete, absTSampleA, St2.step, St2.guard]

theorem tieT_Sample_b_next (g : SampleObserver) (v : Val) :
    (SampleObserver.next g v).map (fun r => (absTSampleB r.1, r.2)) = some (Rs.lift (St2.step (absTSampleB g) .b (.next v))) := by
  rcases g with ⟨_ | _, _ | w⟩ <;>
    rs_tie [SampleObserver.next, Rx.Gen.RcObserver.RcObserver.next, absTSampleB, St2.step, St2.guard]

theorem tieT_Sample_b_error (g : SampleObserver) (e : Err) :
    (SampleObserver.error g e).map (fun r => (absTSampleB r.1, r.2)) = some (Rs.lift (St2.step (absTSampleB g) .b (.error e))) := by
  rcases g with ⟨_ | _, w⟩ <;>
    rs_tie [SampleObserver.error, Rx.Gen.RcObserver.RcObserver.error, absTSampleB, St2.step, St2.guard]

theorem tieT_Sample_b_complete (g : SampleObserver) :
    (SampleObserver.complete g).map (fun r => (absTSampleB r.1, r.2)) = some (Rs.lift (St2.step (absTSampleB g) .b .complete)) := by
  rcases g with ⟨_ | _, _ | w⟩ <;>
    rs_tie [SampleObserver.complete, Rx.Gen.RcObserver.RcObserver.next, absTSampleB, St2.step, St2.guard]


end Rx.GenTie
