import RxModel.Gen.ObserveOn
import RxModel.GenTie.Subscription
import RxModel.GenTie.RcObserver
/-! Tie: `ObserveOnObserver` (src/ops/observe_on.rs, compiler-expanded, translated) in closed form — the `observe_on`
    stage of the chain model: EVERY notification (item, error, completion) becomes ONE task scheduled with no delay,
    its handle appended to the operator's MultiSubscription (after `retain`); nothing is delivered synchronously; the
    task bodies are one call on the observer they are handed (the operator's own slot). -/
namespace Rx.GenTie
open Rx Rx.Gen.ObserveOn Rx.Gen.Subscription

theorem tie_ObserveOn_next (g : ObserveOnObserver) (v : Val) (h : Rs.Sub) :
    ObserveOnObserver.next g v h =
      (MultiSubscription.append (g.subscription.map (List.filter Option.isSome)) h).map (fun r =>
        ({ g with subscription := r.1 }, Rs.Ev.sched "delay_emit_value" [v] none h.id :: r.2)) := by
  rcases g with ⟨o, sc, sub⟩
  rs_simp [ObserveOnObserver.next, tie_Multi_retain]
  cases MultiSubscription.append (Option.map (List.filter Option.isSome) sub) h <;> simp

theorem tie_ObserveOn_error (g : ObserveOnObserver) (e : Err) (h : Rs.Sub) :
    ObserveOnObserver.error g e h =
      (MultiSubscription.append (g.subscription.map (List.filter Option.isSome)) h).map (fun r =>
        ({ g with subscription := r.1 }, Rs.Ev.sched "delay_emit_err" [Val.int e] none h.id :: r.2)) := by
  rcases g with ⟨o, sc, sub⟩
  rs_simp [ObserveOnObserver.error, tie_Multi_retain]
  cases MultiSubscription.append (Option.map (List.filter Option.isSome) sub) h <;> simp

theorem tie_ObserveOn_complete (g : ObserveOnObserver) (h : Rs.Sub) :
    ObserveOnObserver.complete g h =
      (MultiSubscription.append (g.subscription.map (List.filter Option.isSome)) h).map (fun r =>
        ({ g with subscription := r.1 }, Rs.Ev.sched "delay_complete" [] none h.id :: r.2)) := by
  rcases g with ⟨o, sc, sub⟩
  rs_simp [ObserveOnObserver.complete, tie_Multi_retain]
  cases MultiSubscription.append (Option.map (List.filter Option.isSome) sub) h <;> simp

theorem tie_ObserveOn_finished (g : ObserveOnObserver) (d : Bool) :
    ObserveOnObserver.is_finished g d = (!g.observer.isSome || d) := by
  rcases g with ⟨o, sc, sub⟩
  rs_simp [ObserveOnObserver.is_finished, rc_finished]

theorem tie_ObserveOn_tasks (o : Rs.Obs) (v : Val) (e : Err) :
    ObserveOnObserver.next__delay_emit_value o v = some [Rs.Ev.n (Notif.next v)] ∧
    ObserveOnObserver.error__delay_emit_err o e = some [Rs.Ev.n (Notif.error e)] ∧
    ObserveOnObserver.complete__delay_complete o = some [Rs.Ev.n Notif.complete] := by
  rs_simp [ObserveOnObserver.next__delay_emit_value, ObserveOnObserver.error__delay_emit_err,
    ObserveOnObserver.complete__delay_complete]

end Rx.GenTie
