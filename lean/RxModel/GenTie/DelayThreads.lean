import RxModel.Gen.DelayThreads
import RxModel.GenTie.Subscription
import RxModel.GenTie.RcObserver
/-! Tie (thread-safe flavour): `DelayObserverThreads` (src/ops/delay.rs, compiler-expanded, translated) in closed form — the `delay` stage of the
    chain model (`Sched/Chain.lean`):
      next v     ONE task `delay_emit_value [v]` scheduled with `Some(delay)`, its handle appended to the operator's
                 MultiSubscription (after `retain`); nothing is delivered synchronously; the task's observer is the
                 operator's own slot (the translator refuses anything else) and its body is `observer.next(v)`
      complete   ONE task `delay_complete []`, same delay, handle appended; body `observer.complete()`
      error      forwarded AT ONCE through the slot (which it empties): pending item tasks find it empty
      is_finished  the slot's answer. -/
namespace Rx.GenTie
open Rx Rx.Gen.DelayThreads Rx.Gen.Subscription

theorem tieT_Delay_next (g : DelayObserverThreads) (v : Val) (h : Rs.Sub) :
    DelayObserverThreads.next g v h =
      (MultiSubscriptionThreads.append (g.subscription.map (List.filter Option.isSome)) h).map (fun r =>
        ({ g with subscription := r.1 }, Rs.Ev.sched "delay_emit_value" [v] (some g.delay) h.id :: r.2)) := by
  rcases g with ⟨d, sc, o, sub⟩
  rs_simp [DelayObserverThreads.next, tieT_Multi_retain]
  cases MultiSubscriptionThreads.append (Option.map (List.filter Option.isSome) sub) h <;> simp

theorem tieT_Delay_complete (g : DelayObserverThreads) (h : Rs.Sub) :
    DelayObserverThreads.complete g h =
      (MultiSubscriptionThreads.append (g.subscription.map (List.filter Option.isSome)) h).map (fun r =>
        ({ g with subscription := r.1 }, Rs.Ev.sched "delay_complete" [] (some g.delay) h.id :: r.2)) := by
  rcases g with ⟨d, sc, o, sub⟩
  rs_simp [DelayObserverThreads.complete, tieT_Multi_retain]
  cases MultiSubscriptionThreads.append (Option.map (List.filter Option.isSome) sub) h <;> simp

theorem tieT_Delay_error (g : DelayObserverThreads) (e : Err) :
    DelayObserverThreads.error g e =
      some ({ g with observer := none }, if g.observer.isSome then [Rs.Ev.n (Notif.error e)] else []) := by
  rcases g with ⟨d, sc, o, sub⟩
  rs_simp [DelayObserverThreads.error, rc_error]

theorem tieT_Delay_finished (g : DelayObserverThreads) (d : Bool) :
    DelayObserverThreads.is_finished g d = (!g.observer.isSome || d) := by
  rcases g with ⟨dl, sc, o, sub⟩
  rs_simp [DelayObserverThreads.is_finished, rc_finished]

/-- the bodies of the two tasks: one call on the observer they are handed -/
theorem tieT_Delay_tasks (o : Rs.Obs) (v : Val) :
    DelayObserverThreads.next__delay_emit_value o v = some [Rs.Ev.n (Notif.next v)] ∧
    DelayObserverThreads.complete__delay_complete o = some [Rs.Ev.n Notif.complete] := by
  rs_simp [DelayObserverThreads.next__delay_emit_value, DelayObserverThreads.complete__delay_complete]

end Rx.GenTie
