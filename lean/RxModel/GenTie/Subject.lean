import RxModel.Gen.Subject
import RxModel.GenTie.Tactics
import RxModel.Subject.Subject
/-! Tie: `Subject` (the compiler's own expansion of `impl_subject_trivial!` / `impl_observer_methods!` /
    `impl_observable_for_subject!` of src/subject.rs, translated by rs2lean) IS the list part of the subject
    model `Subj.State` (Subject/Subject.lean): `load` moves the chamber behind the observers (panics on an absent
    chamber), `next` loads and calls `p_next` on EVERY entry of the loaded list in order with the cells unchanged,
    `error/complete` load, take the list (the subject is finished from then on) and call every entry,
    `unsubscribe` takes both lists, `actual_subscribe` pushes to the chamber iff it is there, `retain` filters the
    observers only, `len / is_empty` count both lists.  What a call on an entry does (the slot) is the Subscriber
    tie; callbacks that re-enter the subject are the model's `bcast`, not part of the generated code. -/
namespace Rx.GenTie
open Rx Rx.Gen.Subject

def pubs (l : List Nat) : List Rs.Pub := l.map Rs.Pub.mk
/-- the two cells of a model state as the Rust struct -/
def genSubject (s : Subj.State) : Subject :=
  { observers := s.observers.map pubs, chamber := s.chamber.map pubs }

theorem forEach_emit (g : Subject) (f : Nat → Notif) :
    ∀ (l : List Nat) (out : Rs.Out),
      Rs.forEach (pubs l) (g, out) (fun (p : Subject × Rs.Out) q => some (p.fst, p.snd ++ [Rs.Ev.to q.id (f q.id)]))
        = some (g, out ++ l.map (fun i => Rs.Ev.to i (f i))) := by
  intro l
  induction l with
  | nil => intro out; simp [pubs]
  | cons x t ih => intro out; simp [pubs] at ih ⊢; simp [ih, List.append_assoc]

theorem tie_Subject_load (s : Subj.State) (h : s.panicked = false) :
    Subject.load (genSubject s) = if s.load.panicked then none else some (genSubject s.load, []) := by
  rcases s with ⟨_ | obs, _ | ch, sl, p⟩ <;> simp only at h <;> subst h <;>
    rs_simp [Subject.load, genSubject, Subj.State.load, pubs]

/-- `next`: after `load`, `p_next` on every entry of the observers list, in order; the cells stay as loaded. -/
theorem tie_Subject_next (s : Subj.State) (h : s.panicked = false) (v : Val) :
    Subject.next (genSubject s) v =
      if s.load.panicked then none
      else some (genSubject s.load, (s.load.observers.getD []).map (fun i => Rs.Ev.to i (Notif.next v))) := by
  rcases s with ⟨_ | obs, _ | ch, sl, p⟩ <;> simp only at h <;> subst h <;>
    rs_simp [Subject.next, Subject.load, genSubject, Subj.State.load]
  have := forEach_emit ⟨some (pubs obs ++ pubs ch), some []⟩ (fun _ => Notif.next v) (obs ++ ch) []
  simp [pubs] at this ⊢
  simp [this]

/-- `error` / `complete`: load, take the list (finished from now on), every entry is handed the terminal. -/
theorem tie_Subject_error (s : Subj.State) (h : s.panicked = false) (e : Err) :
    Subject.error (genSubject s) e =
      if s.load.panicked then none
      else some (genSubject { s.load with observers := none },
                 (s.load.observers.getD []).map (fun i => Rs.Ev.to i (Notif.error e))) := by
  rcases s with ⟨_ | obs, _ | ch, sl, p⟩ <;> simp only at h <;> subst h <;>
    rs_simp [Subject.error, Subject.load, genSubject, Subj.State.load]
  have := forEach_emit ⟨none, some []⟩ (fun _ => Notif.error e) (obs ++ ch) []
  simp [pubs] at this ⊢
  simp [this]

theorem tie_Subject_complete (s : Subj.State) (h : s.panicked = false) :
    Subject.complete (genSubject s) =
      if s.load.panicked then none
      else some (genSubject { s.load with observers := none },
                 (s.load.observers.getD []).map (fun i => Rs.Ev.to i Notif.complete)) := by
  rcases s with ⟨_ | obs, _ | ch, sl, p⟩ <;> simp only at h <;> subst h <;>
    rs_simp [Subject.complete, Subject.load, genSubject, Subj.State.load]
  have := forEach_emit ⟨none, some []⟩ (fun _ => Notif.complete) (obs ++ ch) []
  simp [pubs] at this ⊢
  simp [this]

/-- the model's terminal fan-out starts from exactly that state and that list -/
theorem model_terminal_unfold (s : Subj.State) (n : Notif) (h : s.load.panicked = false) :
    s.terminal n = match s.load.observers with
      | some obs => Subj.term n { s.load with observers := none } obs
      | none => (s.load, []) := by
  simp only [Subj.State.terminal, h, Bool.false_eq_true, if_false]
  cases s.load.observers <;> rfl

theorem tie_Subject_unsubscribe (s : Subj.State) :
    Subject.unsubscribe (genSubject s) = some (genSubject s.unsubscribe, []) := by
  rs_simp [Subject.unsubscribe, genSubject, Subj.State.unsubscribe]

theorem tie_Subject_subscribe (s : Subj.State) (o : Rs.Obs) (script : List Subj.Act) (log0 : List Notif) :
    Subject.actual_subscribe (genSubject s) o ⟨s.slots.length⟩ = some (genSubject (s.subscribe script log0), []) := by
  rcases s with ⟨obs, _ | ch, sl, p⟩ <;>
    rs_simp [Subject.actual_subscribe, genSubject, Subj.State.subscribe, pubs]

theorem tie_Subject_retain (s : Subj.State) :
    Subject.retain (genSubject s) (fun i => !Subj.aliveAt s.slots i) = some (genSubject s.retain, []) := by
  rcases s with ⟨_ | obs, ch, sl, p⟩ <;>
    rs_simp [Subject.retain, genSubject, Subj.State.retain, pubs, List.filter_map, Function.comp_def]

theorem tie_Subject_len (s : Subj.State) : Subject.len (genSubject s) = s.len? := by
  rcases s with ⟨_ | obs, _ | ch, sl, p⟩ <;> rs_simp [Subject.len, genSubject, Subj.State.len?, pubs]

theorem tie_Subject_is_empty (s : Subj.State) (h : s.len?.isSome) :
    Subject.is_empty (genSubject s) = some s.isEmpty := by
  rcases s with ⟨_ | obs, _ | ch, sl, p⟩ <;> simp [Subj.State.len?] at h <;>
    rs_simp [Subject.is_empty, genSubject, Subj.State.isEmpty, pubs]
  cases obs <;> simp

theorem tie_Subject_finished_closed (s : Subj.State) (d : Bool) (c : Nat → Bool) :
    Subject.is_finished (genSubject s) d = s.isFinished ∧ Subject.is_closed (genSubject s) c = s.isClosed := by
  rcases s with ⟨_ | obs, ch, sl, p⟩ <;>
    rs_simp [Subject.is_finished, Subject.is_closed, genSubject, Subj.State.isFinished, Subj.State.isClosed]

theorem tie_Subject_init : Subject.init = genSubject Subj.State.init := by
  rs_simp [Subject.init, genSubject, Subj.State.init, pubs]

end Rx.GenTie
