import RxModel.Gen.WithLatestFromThreads
/-! Tie (topology, thread-safe flavour): as GenTie/WiringWithLatestFrom.lean, for `WithLatestFromOpThreads`. -/
namespace Rx.GenTie
open Rx.Gen.WithLatestFromThreads

theorem wiringT_WithLatestFrom_lets : WithLatestFromOpThreads.lets =
  [("item", "MutArc::own(None)"),
   ("source_observer", "MutArc::own(Some(observer))"),
   ("from_observer", "BObserver { observer : source_observer , value : item , _marker : std::marker::PhantomData::< ItemA >, }"),
   ("from_unsub", "self.from.actual_subscribe(from_observer)"),
   ("source_unsub", "self.source.actual_subscribe(AObserver { observer : source_observer, value : item, })")] := by decide

theorem wiringT_WithLatestFrom_views : WithLatestFromOpThreads.views =
  [("BObserver", "observer", "source_observer"),
   ("BObserver", "value", "item"),
   ("BObserver", "_marker", "std::marker::PhantomData::< ItemA >"),
   ("AObserver", "observer", "source_observer"),
   ("AObserver", "value", "item")] := by decide

theorem wiringT_WithLatestFrom_order : WithLatestFromOpThreads.order =
  [("self.from", "from_observer"),
   ("self.source", "AObserver { observer : source_observer, value : item, }")] := by decide

end Rx.GenTie
