import RxModel.Gen.SrcStream
import RxModel.Gen.SrcStreamResult
import RxModel.Gen.SrcFuture
import RxModel.GenTie.Tactics
/-! Tie: the asynchronous sources `from_stream`, `from_stream_result`, `from_future`, `from_future_result`
    (src/observable/{from_stream,from_stream_result,from_future}.rs, compiler-expanded, translated): what `actual_subscribe`
    schedules, and the driver futures' `poll` as functions of the ORACLES `futs` (what the k-th `poll_next` of the wrapped
    stream answers during this poll) and `downF` (the observer's `is_finished()` as a function of what has been delivered).

      from_stream(_result)   ONE driver task, no delay.  One `poll` of the driver = `streamSpec` / `tryStreamSpec`:
                             before every `poll_next` the observer is asked `is_finished()` (finished ⇒ the observer is
                             dropped, `Ready`, the stream is not polled again); `Pending` ⇒ `Pending` with the observer STILL
                             IN ITS SLOT and everything delivered so far kept; an item is relayed; `None` ⇒ `complete`,
                             `Ready`; (`_result`) `Err(e)` ⇒ `error(e)`, `Ready`
      from_future(_result)   ONE `FutureTask`, no delay; its body: `next(v); complete()` / for a `Result`: that, or `error(e)`

    `stream_relays_all`: a stream that is ready with the items `vs` and then ends is relayed completely, in order, followed
    by `complete`, in ONE poll — for every list `vs`. -/
namespace Rx.GenTie
open Rx

section stream
open Rx.Gen.SrcStream

theorem tie_Stream_subscribe (g : StreamObservable) (o : Rs.Obs) (h : Rs.Sub) :
    StreamObservable.actual_subscribe g o h = some (g, [Rs.Ev.sched "StreamObserverFuture" [] none h.id]) := by
  rcases g with ⟨s, sc⟩; rs_simp [StreamObservable.actual_subscribe]

/-- one `poll` of the driver, from poll number `pc` of this call on -/
def streamSpec (futs : Nat → Rs.Poll (Option Val)) (downF : Rs.Out → Bool) :
    Nat → StreamObserverFuture → Nat → Rs.Out → Option (StreamObserverFuture × Rs.Out × Rs.Poll Unit)
  | 0, _, _, _ => none
  | fuel + 1, g, pc, out =>
    match g.observer with
    | none => some (g, out, Rs.Poll.ready ())
    | some o =>
      if downF out then some ({ g with observer := none }, out, Rs.Poll.ready ())
      else match futs pc with
        | Rs.Poll.pending => some (g, out, Rs.Poll.pending)
        | Rs.Poll.ready (some v) => streamSpec futs downF fuel g (pc + 1) (out ++ [Rs.Ev.n (Notif.next v)])
        | Rs.Poll.ready none => some ({ g with observer := none }, out ++ [Rs.Ev.n Notif.complete], Rs.Poll.ready ())

abbrev SS := StreamObserverFuture × Rs.Out × Nat × Option (Rs.Poll Unit)

theorem stream_loop (futs : Nat → Rs.Poll (Option Val)) (downF : Rs.Out → Bool) (cond : SS → Bool)
    (body : SS → Option (SS × Bool)) (hc : ∀ p, cond p = true)
    (hb : ∀ p : SS, body p =
      match p.1.observer with
      | none => some ((p.1, p.2.1, p.2.2.1, some (Rs.Poll.ready ())), true)
      | some o =>
        if downF p.2.1 then some (({ p.1 with observer := none }, p.2.1, p.2.2.1, some (Rs.Poll.ready ())), true)
        else match futs p.2.2.1 with
          | Rs.Poll.pending => some ((p.1, p.2.1, p.2.2.1 + 1, some Rs.Poll.pending), true)
          | Rs.Poll.ready (some v) => some ((p.1, p.2.1 ++ [Rs.Ev.n (Notif.next v)], p.2.2.1 + 1, none), false)
          | Rs.Poll.ready none =>
              some (({ p.1 with observer := none }, p.2.1 ++ [Rs.Ev.n Notif.complete], p.2.2.1 + 1, some (Rs.Poll.ready ())), true)) :
    ∀ (fuel : Nat) (g : StreamObserverFuture) (pc : Nat) (out : Rs.Out),
      (Rs.loopFuel fuel cond body (g, out, pc, none)).bind
          (fun r => match r.2.2.2 with | some v => some (r.1, r.2.1, v) | none => some (r.1, r.2.1, Rs.Poll.pending)) =
        streamSpec futs downF fuel g pc out := by
  intro fuel
  induction fuel with
  | zero => intro g pc out; simp [Rs.loopFuel, hc, streamSpec]
  | succ n ih =>
    intro g pc out
    rcases g with ⟨st, _ | o⟩
    · simp [Rs.loopFuel, hc, hb, streamSpec]
    · by_cases hd : downF out
      · simp [Rs.loopFuel, hc, hb, streamSpec, hd]
      · cases hf : futs pc with
        | pending => simp [Rs.loopFuel, hc, hb, streamSpec, hd, hf]
        | ready m =>
          cases m with
          | none => simp [Rs.loopFuel, hc, hb, streamSpec, hd, hf]
          | some v =>
            simp only [Rs.loopFuel, hc, hb, streamSpec, hd, hf, if_true, Option.bind_some, Bool.false_eq_true, if_false]
            exact ih _ _ _

theorem tie_Stream_poll (g : StreamObserverFuture) (futs : Nat → Rs.Poll (Option Val)) (downF : Rs.Out → Bool) (fuel : Nat) :
    StreamObserverFuture.poll g futs downF fuel = streamSpec futs downF fuel g 0 [] := by
  refine Eq.trans ?h1 (stream_loop futs downF ?c ?b ?hc ?hb fuel g 0 [])
  case h1 =>
    unfold StreamObserverFuture.poll
    simp only [Option.pure_def, Option.bind_eq_bind]
    congr 1 <;> first | rfl | (funext r; rcases r with ⟨a, b, c, _ | v⟩ <;> rfl)
  case hc => intro p; rfl
  case hb =>
    intro p; rcases p with ⟨⟨st, _ | o⟩, b, c, d⟩
    · simp [Rs.isFinished]
    · by_cases hd : downF b
      · simp [Rs.isFinished, hd]
      · cases h : futs c with
        | pending => simp [Rs.isFinished, hd, h]
        | ready m => cases m <;> simp [Rs.isFinished, hd, h, Rs.unwrap, Rs.emitNext, Rs.emitComplete, Rs.ToVal.toVal]

/-- `Pending` leaves the driver exactly as it was — the observer stays in its slot (seed C08-7 lost it there) -/
theorem stream_pending_keeps_observer (g : StreamObserverFuture) (o : Rs.Obs) (futs : Nat → Rs.Poll (Option Val))
    (downF : Rs.Out → Bool) (fuel : Nat) (ho : g.observer = some o) (hd : downF [] = false) (hp : futs 0 = Rs.Poll.pending) :
    StreamObserverFuture.poll g futs downF (fuel + 1) = some (g, [], Rs.Poll.pending) := by
  rcases g with ⟨st, ob⟩; simp only at ho; subst ho
  simp [tie_Stream_poll, streamSpec, hd, hp]

theorem streamSpec_item (futs : Nat → Rs.Poll (Option Val)) (downF : Rs.Out → Bool) (n : Nat) (st : Rs.Fut) (o : Rs.Obs)
    (pc : Nat) (out : Rs.Out) (v : Val) (h0 : futs pc = Rs.Poll.ready (some v)) (hd : downF out = false) :
    streamSpec futs downF (n + 1) ⟨st, some o⟩ pc out =
      streamSpec futs downF n ⟨st, some o⟩ (pc + 1) (out ++ [Rs.Ev.n (Notif.next v)]) := by
  simp [streamSpec, h0, hd]

/-- a stream that is ready with the items `vs` and then ends, an observer that never finishes: everything is relayed in
    order, then `complete`, in one poll -/
theorem stream_relays_all (st : Rs.Fut) (o : Rs.Obs) (vs : List Val) :
    ∀ (futs : Nat → Rs.Poll (Option Val)) (pc : Nat) (out : Rs.Out),
      (∀ k, (h : k < vs.length) → futs (pc + k) = Rs.Poll.ready (some vs[k])) → futs (pc + vs.length) = Rs.Poll.ready none →
      streamSpec futs (fun _ => false) (vs.length + 1) ⟨st, some o⟩ pc out =
        some (⟨st, none⟩, out ++ vs.map (fun v => Rs.Ev.n (Notif.next v)) ++ [Rs.Ev.n Notif.complete], Rs.Poll.ready ()) := by
  induction vs with
  | nil => intro futs pc out _ he; simp at he; simp [streamSpec, he]
  | cons v r ih =>
    intro futs pc out hi he
    have h0 := hi 0 (by simp); simp at h0
    rw [List.length_cons, streamSpec_item futs _ _ st o pc out v h0 rfl]
    rw [ih futs (pc + 1) _ (by intro k hk; have := hi (k + 1) (by simp; omega); simpa [Nat.add_assoc, Nat.add_comm 1 k] using this)
        (by simpa [Nat.add_assoc, Nat.add_comm 1] using he)]
    simp [List.append_assoc]

end stream

section tryStream
open Rx.Gen.SrcStreamResult

theorem tie_TryStream_subscribe (g : TryStreamObservable) (o : Rs.Obs) (h : Rs.Sub) :
    TryStreamObservable.actual_subscribe g o h = some (g, [Rs.Ev.sched "TryStreamObserverFuture" [] none h.id]) := by
  rcases g with ⟨s, sc⟩; rs_simp [TryStreamObservable.actual_subscribe]

def tryStreamSpec (futs : Nat → Rs.Poll (Option (Except Err Val))) (downF : Rs.Out → Bool) :
    Nat → TryStreamObserverFuture → Nat → Rs.Out → Option (TryStreamObserverFuture × Rs.Out × Rs.Poll Unit)
  | 0, _, _, _ => none
  | fuel + 1, g, pc, out =>
    match g.observer with
    | none => some (g, out, Rs.Poll.ready ())
    | some o =>
      if downF out then some ({ g with observer := none }, out, Rs.Poll.ready ())
      else match futs pc with
        | Rs.Poll.pending => some (g, out, Rs.Poll.pending)
        | Rs.Poll.ready (some (Except.ok v)) => tryStreamSpec futs downF fuel g (pc + 1) (out ++ [Rs.Ev.n (Notif.next v)])
        | Rs.Poll.ready (some (Except.error e)) =>
            some ({ g with observer := none }, out ++ [Rs.Ev.n (Notif.error e)], Rs.Poll.ready ())
        | Rs.Poll.ready none => some ({ g with observer := none }, out ++ [Rs.Ev.n Notif.complete], Rs.Poll.ready ())

abbrev TS := TryStreamObserverFuture × Rs.Out × Nat × Option (Rs.Poll Unit)

theorem tryStream_loop (futs : Nat → Rs.Poll (Option (Except Err Val))) (downF : Rs.Out → Bool) (cond : TS → Bool)
    (body : TS → Option (TS × Bool)) (hc : ∀ p, cond p = true)
    (hb : ∀ p : TS, body p =
      match p.1.observer with
      | none => some ((p.1, p.2.1, p.2.2.1, some (Rs.Poll.ready ())), true)
      | some o =>
        if downF p.2.1 then some (({ p.1 with observer := none }, p.2.1, p.2.2.1, some (Rs.Poll.ready ())), true)
        else match futs p.2.2.1 with
          | Rs.Poll.pending => some ((p.1, p.2.1, p.2.2.1 + 1, some Rs.Poll.pending), true)
          | Rs.Poll.ready (some (Except.ok v)) => some ((p.1, p.2.1 ++ [Rs.Ev.n (Notif.next v)], p.2.2.1 + 1, none), false)
          | Rs.Poll.ready (some (Except.error e)) =>
              some (({ p.1 with observer := none }, p.2.1 ++ [Rs.Ev.n (Notif.error e)], p.2.2.1 + 1, some (Rs.Poll.ready ())), true)
          | Rs.Poll.ready none =>
              some (({ p.1 with observer := none }, p.2.1 ++ [Rs.Ev.n Notif.complete], p.2.2.1 + 1, some (Rs.Poll.ready ())), true)) :
    ∀ (fuel : Nat) (g : TryStreamObserverFuture) (pc : Nat) (out : Rs.Out),
      (Rs.loopFuel fuel cond body (g, out, pc, none)).bind
          (fun r => match r.2.2.2 with | some v => some (r.1, r.2.1, v) | none => some (r.1, r.2.1, Rs.Poll.pending)) =
        tryStreamSpec futs downF fuel g pc out := by
  intro fuel
  induction fuel with
  | zero => intro g pc out; simp [Rs.loopFuel, hc, tryStreamSpec]
  | succ n ih =>
    intro g pc out
    rcases g with ⟨st, _ | o⟩
    · simp [Rs.loopFuel, hc, hb, tryStreamSpec]
    · by_cases hd : downF out
      · simp [Rs.loopFuel, hc, hb, tryStreamSpec, hd]
      · cases hf : futs pc with
        | pending => simp [Rs.loopFuel, hc, hb, tryStreamSpec, hd, hf]
        | ready m =>
          rcases m with _ | (e | v)
          · simp [Rs.loopFuel, hc, hb, tryStreamSpec, hd, hf]
          · simp [Rs.loopFuel, hc, hb, tryStreamSpec, hd, hf]
          · simp only [Rs.loopFuel, hc, hb, tryStreamSpec, hd, hf, if_true, Option.bind_some, Bool.false_eq_true, if_false]
            exact ih _ _ _

theorem tie_TryStream_poll (g : TryStreamObserverFuture) (futs : Nat → Rs.Poll (Option (Except Err Val)))
    (downF : Rs.Out → Bool) (fuel : Nat) :
    TryStreamObserverFuture.poll g futs downF fuel = tryStreamSpec futs downF fuel g 0 [] := by
  refine Eq.trans ?h1 (tryStream_loop futs downF ?c ?b ?hc ?hb fuel g 0 [])
  case h1 =>
    unfold TryStreamObserverFuture.poll
    simp only [Option.pure_def, Option.bind_eq_bind]
    congr 1 <;> first | rfl | (funext r; rcases r with ⟨a, b, c, _ | v⟩ <;> rfl)
  case hc => intro p; rfl
  case hb =>
    intro p; rcases p with ⟨⟨st, _ | o⟩, b, c, d⟩
    · simp [Rs.isFinished]
    · by_cases hd : downF b
      · simp [Rs.isFinished, hd]
      · cases h : futs c with
        | pending => simp [Rs.isFinished, hd, h]
        | ready m =>
          rcases m with _ | (e | v) <;>
            simp [Rs.isFinished, hd, h, Rs.unwrap, Rs.emitNext, Rs.emitComplete, Rs.emitError, Rs.ToVal.toVal]

end tryStream

section future
open Rx.Gen.SrcFuture

theorem tie_Future_subscribe (g : FutureObservable) (o : Rs.Obs) (h : Rs.Sub) :
    FutureObservable.actual_subscribe g o h = some (g, [Rs.Ev.sched "future:item_task" [] none h.id]) := by
  rcases g with ⟨f, sc⟩; rs_simp [FutureObservable.actual_subscribe]

theorem tie_FutureResult_subscribe (g : FutureResultObservable) (o : Rs.Obs) (h : Rs.Sub) :
    FutureResultObservable.actual_subscribe g o h = some (g, [Rs.Ev.sched "future:result_task" [] none h.id]) := by
  rcases g with ⟨f, sc⟩; rs_simp [FutureResultObservable.actual_subscribe]

theorem tie_item_task (o : Rs.Obs) (v : Val) :
    Observer.task_item_task o v = some (o, [Rs.Ev.n (Notif.next v), Rs.Ev.n Notif.complete]) := by
  rs_simp [Observer.task_item_task]

theorem tie_result_task (o : Rs.Obs) (r : Except Err Val) :
    Observer.task_result_task o r =
      some (o, match r with
        | Except.ok v => [Rs.Ev.n (Notif.next v), Rs.Ev.n Notif.complete]
        | Except.error e => [Rs.Ev.n (Notif.error e)]) := by
  cases r <;> rs_simp [Observer.task_result_task]

end future
end Rx.GenTie
