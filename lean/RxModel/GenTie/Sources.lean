import RxModel.Gen.SrcOf
import RxModel.Gen.SrcIter
import RxModel.Gen.SrcTrivial
import RxModel.GenTie.Tactics
import RxModel.Ops.Source
/-! Tie: the cold sources of src/observable/{of,from_iter,trivial}.rs — `actual_subscribe(self, observer)` translated as a
    function of the source's content and of the observer's DYNAMIC `is_finished()` answer (`downF`, a function of what
    has been delivered so far) — are `Src.emit` of the model (Ops/Source.lean), notification for notification.
    `from_iter` stops pulling once the observer reports finished: it delivers a PREFIX of the items, the whole list when
    the observer never finishes, and always ends with `complete`. -/
namespace Rx.GenTie
open Rx Rx.Gen.SrcOf Rx.Gen.SrcIter Rx.Gen.SrcTrivial

def evs' (ns : List Notif) : Rs.Out := ns.map Rs.Ev.n

theorem tie_Src_of (v : Val) (o : Rs.Obs) :
    OfObservable.actual_subscribe v o = some (v, evs' (Src.emit (.of v))) := by
  rs_simp [OfObservable.actual_subscribe, Src.emit, evs']

theorem tie_Src_ofResult (r : Except Err Val) (o : Rs.Obs) :
    ResultObservable.actual_subscribe r o = some (r, evs' (Src.emit (.ofResult r))) := by
  cases r <;> rs_simp [ResultObservable.actual_subscribe, Src.emit, evs']

theorem tie_Src_ofOption (x : Option Val) (o : Rs.Obs) :
    OptionObservable.actual_subscribe x o = some (x, evs' (Src.emit (.ofOption x))) := by
  cases x <;> rs_simp [OptionObservable.actual_subscribe, Src.emit, evs']

/-- `of_fn(f)`: the closure is called exactly once, its result delivered, then `complete` -/
theorem tie_Src_ofFn (v : Val) (o : Rs.Obs) :
    CallableObservable.actual_subscribe v o = some (v, evs' (Src.emit (.ofFn v))) := by
  rs_simp [CallableObservable.actual_subscribe, Src.emit, evs']

theorem tie_Src_throw (e : Err) (o : Rs.Obs) :
    ThrowObservable.actual_subscribe e o = some (e, evs' (Src.emit (.throw e))) := by
  rs_simp [ThrowObservable.actual_subscribe, Src.emit, evs']

theorem tie_Src_empty (o : Rs.Obs) :
    EmptyObservable.actual_subscribe () o = some ((), evs' (Src.emit .empty)) := by
  rs_simp [EmptyObservable.actual_subscribe, Src.emit, evs']

/-- `never()` calls nothing on its observer (after `fix: never() must not complete`) -/
theorem tie_Src_never (o : Rs.Obs) :
    NeverObservable.actual_subscribe () o = some ((), evs' (Src.emit .never)) := by
  rs_simp [NeverObservable.actual_subscribe, Src.emit, evs']

/-! ### from_iter -/

/-- what the pulling loop has delivered and what it has left in the iterator -/
def iterRun (downF : Rs.Out → Bool) : List Val → Rs.Out → Rs.Out × List Val
  | [], out => (out, [])
  | v :: r, out => if downF out then (out, v :: r) else iterRun downF r (out ++ [Rs.Ev.n (Notif.next v)])

theorem iter_loop (o : Rs.Obs) (downF : Rs.Out → Bool) (s0 : ObservableIter)
    (cond : (ObservableIter × Rs.Out × List Val) → Bool)
    (body : (ObservableIter × Rs.Out × List Val) → Option ((ObservableIter × Rs.Out × List Val) × Bool))
    (hc : ∀ p, cond p = !(downF p.2.1))
    (hb : ∀ p, body p = match p.2.2 with
        | v :: r => some ((p.1, p.2.1 ++ [Rs.Ev.n (Notif.next v)], r), false)
        | [] => some ((p.1, p.2.1, []), true)) :
    ∀ (xs : List Val) (out : Rs.Out) (fuel : Nat), xs.length < fuel →
      Rs.loopFuel fuel cond body (s0, out, xs) = some (s0, (iterRun downF xs out).1, (iterRun downF xs out).2) := by
  intro xs
  induction xs with
  | nil =>
    intro out fuel hf
    cases fuel with
    | zero => omega
    | succ n => simp [Rs.loopFuel, hc, hb, iterRun]
  | cons v r ih =>
    intro out fuel hf
    cases fuel with
    | zero => omega
    | succ n =>
      have hn : r.length < n := by simp at hf; omega
      by_cases hd : downF out
      · simp [Rs.loopFuel, hc, hd, iterRun]
      · simp [Rs.loopFuel, hc, hb, hd, iterRun, ih _ n hn]

theorem tie_Src_iter (xs : List Val) (o : Rs.Obs) (downF : Rs.Out → Bool) :
    ObservableIter.actual_subscribe xs o downF =
      some (xs, (iterRun downF xs []).1 ++ [Rs.Ev.n Notif.complete]) := by
  unfold ObservableIter.actual_subscribe
  simp only [Option.pure_def, Option.bind_eq_bind]
  rw [iter_loop o downF xs _ _ (by intro p; rfl) (by
        intro p; rcases p with ⟨a, b, c⟩; cases c <;> rs_simp []) xs [] _ (by omega)]
  rs_simp []

/-- an observer that never reports finished gets every item: `Src.emit (.iter xs)` -/
theorem iterRun_all (xs : List Val) (out : Rs.Out) :
    iterRun (fun _ => false) xs out = (out ++ xs.map (fun v => Rs.Ev.n (Notif.next v)), []) := by
  induction xs generalizing out with
  | nil => simp [iterRun]
  | cons v r ih => simp [iterRun, ih, List.append_assoc]

theorem tie_Src_iter_all (xs : List Val) (o : Rs.Obs) :
    ObservableIter.actual_subscribe xs o (fun _ => false) = some (xs, evs' (Src.emit (.iter xs))) := by
  simp [tie_Src_iter, iterRun_all, Src.emit, evs', List.map_map, Function.comp_def]

/-- whatever the observer answers, what `from_iter` delivers before `complete` is a prefix of its items, in order,
    and the undelivered rest is exactly what is left in the iterator -/
theorem iterRun_prefix (downF : Rs.Out → Bool) (xs : List Val) (out : Rs.Out) :
    ∃ k, k ≤ xs.length ∧ (iterRun downF xs out).1 = out ++ (xs.take k).map (fun v => Rs.Ev.n (Notif.next v)) ∧
      (iterRun downF xs out).2 = xs.drop k := by
  induction xs generalizing out with
  | nil => exact ⟨0, by simp [iterRun]⟩
  | cons v r ih =>
    by_cases hd : downF out
    · exact ⟨0, by simp [iterRun, hd]⟩
    · obtain ⟨k, hk, h1, h2⟩ := ih (out ++ [Rs.Ev.n (Notif.next v)])
      exact ⟨k + 1, by simp; omega, by simp [iterRun, hd, h1, List.append_assoc], by simp [iterRun, hd, h2]⟩

/-- and it stops at the first moment the observer reports finished: nothing is pulled after that -/
theorem iterRun_stops (downF : Rs.Out → Bool) (xs : List Val) (out : Rs.Out) (h : downF out = true) :
    iterRun downF xs out = (out, xs) := by
  cases xs <;> simp [iterRun, h]

end Rx.GenTie
