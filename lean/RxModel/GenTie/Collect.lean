import RxModel.Gen.Collect
import RxModel.GenTie.Tactics
/-! Tie: `CollectObserver` generated from `/repo/src` IS the `St1` machine of the hand-written model. -/
namespace Rx.GenTie
open Rx Rx.Gen.Collect

/-- a Rust state read as a model state -/
def absCollect (g : CollectObserver) : St1 := .collect g.collection

theorem tie_Collect_next (g : CollectObserver) (v : Val) :
    (CollectObserver.next g v).map (fun r => (absCollect r.1, r.2)) = some (Rs.lift (St1.onNext (absCollect g) v)) := by
  rcases g with ⟨⟩ <;> rs_tie [CollectObserver.next, absCollect, St1.onNext]

theorem tie_Collect_error (g : CollectObserver) (e : Err) :
    (CollectObserver.error g e).map (fun r => r.2) = some ((St1.onError' (absCollect g) e).2.map Rs.Ev.n) := by
  rcases g with ⟨⟩ <;> rs_tie [CollectObserver.error, absCollect, St1.onError']

theorem tie_Collect_complete (g : CollectObserver) :
    (CollectObserver.complete g).map (fun r => r.2) = some ((St1.onComplete' (absCollect g)).2.map Rs.Ev.n) := by
  rcases g with ⟨⟩ <;> rs_tie [CollectObserver.complete, absCollect, St1.onComplete']


theorem tie_Collect_init  :
    absCollect (CollectObserver.init []) = Spec.Op1.init (.collect) := by
  rs_simp [CollectObserver.init, absCollect, Spec.Op1.init]

end Rx.GenTie
