import RxModel.Gen.TakeUntil
import RxModel.Gen.RcObserver
import RxModel.GenTie.Tactics
/-! Tie: the source side of take_until IS the shared slot itself (`impl_rc_observer!`, src/observer.rs), the
    notifier side is `TakeUntilNotifierObserver` generated from src/ops/take_until.rs; together they ARE the
    `St2.takeUntil` cell.  DECLARED topology: `main_observer` is the same slot cell the source feeds. -/
namespace Rx.GenTie
open Rx Rx.Gen.TakeUntil Rx.Gen.RcObserver

def absTuA (g : RcObserver) : St2 := .takeUntil g.isSome
def absTuB (g : TakeUntilNotifierObserver) : St2 := .takeUntil g.main_observer.isSome

theorem tie_Tu_a_next (g : RcObserver) (v : Val) :
    (RcObserver.next g v).map (fun r => (absTuA r.1, r.2)) = some (Rs.lift (St2.step (absTuA g) .a (.next v))) := by
  cases g <;> rs_tie [RcObserver.next, absTuA, St2.step, St2.guard]

theorem tie_Tu_a_error (g : RcObserver) (e : Err) :
    (RcObserver.error g e).map (fun r => (absTuA r.1, r.2)) = some (Rs.lift (St2.step (absTuA g) .a (.error e))) := by
  cases g <;> rs_tie [RcObserver.error, absTuA, St2.step, St2.guard]

theorem tie_Tu_a_complete (g : RcObserver) :
    (RcObserver.complete g).map (fun r => (absTuA r.1, r.2)) = some (Rs.lift (St2.step (absTuA g) .a .complete)) := by
  cases g <;> rs_tie [RcObserver.complete, absTuA, St2.step, St2.guard]

theorem tie_Tu_b_next (g : TakeUntilNotifierObserver) (v : Val) :
    (TakeUntilNotifierObserver.next g v).map (fun r => (absTuB r.1, r.2)) = some (Rs.lift (St2.step (absTuB g) .b (.next v))) := by
  rcases g with ⟨_ | _⟩ <;> rs_tie [TakeUntilNotifierObserver.next, RcObserver.complete, absTuB, St2.step, St2.guard]

theorem tie_Tu_b_error (g : TakeUntilNotifierObserver) (e : Err) :
    (TakeUntilNotifierObserver.error g e).map (fun r => (absTuB r.1, r.2)) = some (Rs.lift (St2.step (absTuB g) .b (.error e))) := by
  rcases g with ⟨_ | _⟩ <;> rs_tie [TakeUntilNotifierObserver.error, absTuB, St2.step, St2.guard]

theorem tie_Tu_b_complete (g : TakeUntilNotifierObserver) :
    (TakeUntilNotifierObserver.complete g).map (fun r => (absTuB r.1, r.2)) = some (Rs.lift (St2.step (absTuB g) .b .complete)) := by
  rcases g with ⟨_ | _⟩ <;> rs_tie [TakeUntilNotifierObserver.complete, absTuB, St2.step, St2.guard]


end Rx.GenTie
