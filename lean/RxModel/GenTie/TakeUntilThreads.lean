import RxModel.Gen.TakeUntilThreads
import RxModel.Gen.RcObserver
import RxModel.GenTie.Tactics
/-! Tie (thread-safe flavour, C18: the `MutArc` / atomic instantiation of the same source is the SAME model cell): the source side of take_until IS the shared slot itself (`impl_rc_observer!`, src/observer.rs), the
    notifier side is `TakeUntilNotifierObserver` generated from src/ops/take_until.rs; together they ARE the
    `St2.takeUntil` cell.  DECLARED topology: `main_observer` is the same slot cell the source feeds. -/
namespace Rx.GenTie
open Rx Rx.Gen.TakeUntilThreads Rx.Gen.RcObserver

def absTTuA (g : RcObserver) : St2 := .takeUntil g.isSome
def absTTuB (g : TakeUntilNotifierObserver) : St2 := .takeUntil g.main_observer.isSome

theorem tieT_Tu_a_next (g : RcObserver) (v : Val) :
    (RcObserver.next g v).map (fun r => (absTTuA r.1, r.2)) = some (Rs.lift (St2.step (absTTuA g) .a (.next v))) := by
  cases g <;> rs_tie [RcObserver.next, absTTuA, St2.step, St2.guard]

theorem tieT_Tu_a_error (g : RcObserver) (e : Err) :
    (RcObserver.error g e).map (fun r => (absTTuA r.1, r.2)) = some (Rs.lift (St2.step (absTTuA g) .a (.error e))) := by
  cases g <;> rs_tie [RcObserver.error, absTTuA, St2.step, St2.guard]

theorem tieT_Tu_a_complete (g : RcObserver) :
    (RcObserver.complete g).map (fun r => (absTTuA r.1, r.2)) = some (Rs.lift (St2.step (absTTuA g) .a .complete)) := by
  cases g <;> rs_tie [RcObserver.complete, absTTuA, St2.step, St2.guard]

theorem tieT_Tu_b_next (g : TakeUntilNotifierObserver) (v : Val) :
    (TakeUntilNotifierObserver.next g v).map (fun r => (absTTuB r.1, r.2)) = some (Rs.lift (St2.step (absTTuB g) .b (.next v))) := by
  rcases g with ⟨_ | _⟩ <;> rs_tie [TakeUntilNotifierObserver.next, RcObserver.complete, absTTuB, St2.step, St2.guard]

theorem tieT_Tu_b_error (g : TakeUntilNotifierObserver) (e : Err) :
    (TakeUntilNotifierObserver.error g e).map (fun r => (absTTuB r.1, r.2)) = some (Rs.lift (St2.step (absTTuB g) .b (.error e))) := by
  rcases g with ⟨_ | _⟩ <;> rs_tie [TakeUntilNotifierObserver.error, absTTuB, St2.step, St2.guard]

theorem tieT_Tu_b_complete (g : TakeUntilNotifierObserver) :
    (TakeUntilNotifierObserver.complete g).map (fun r => (absTTuB r.1, r.2)) = some (Rs.lift (St2.step (absTTuB g) .b .complete)) := by
  rcases g with ⟨_ | _⟩ <;> rs_tie [TakeUntilNotifierObserver.complete, absTTuB, St2.step, St2.guard]


end Rx.GenTie
