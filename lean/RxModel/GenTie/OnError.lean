import RxModel.Gen.OnError
import RxModel.GenTie.Tactics
/-! Tie: `OnErrorObserver` generated from `/repo/src` IS the `St1` machine of the hand-written model. -/
namespace Rx.GenTie
open Rx Rx.Gen.OnError

/-- a Rust state read as a model state -/
def absOnError (g : OnErrorObserver) : St1 := .onError g.func

theorem tie_OnError_next (g : OnErrorObserver) (v : Val) :
    (OnErrorObserver.next g v).map (fun r => (absOnError r.1, r.2)) = some (Rs.lift (St1.onNext (absOnError g) v)) := by
  rcases g with ⟨⟩ <;> rs_tie [OnErrorObserver.next, absOnError, St1.onNext]

theorem tie_OnError_error (g : OnErrorObserver) (e : Err) :
    (OnErrorObserver.error g e).map (fun r => r.2) = some ((St1.onError' (absOnError g) e).2.map Rs.Ev.n) := by
  rcases g with ⟨⟩ <;> rs_tie [OnErrorObserver.error, absOnError, St1.onError']

theorem tie_OnError_complete (g : OnErrorObserver) :
    (OnErrorObserver.complete g).map (fun r => r.2) = some ((St1.onComplete' (absOnError g)).2.map Rs.Ev.n) := by
  rcases g with ⟨⟩ <;> rs_tie [OnErrorObserver.complete, absOnError, St1.onComplete']


end Rx.GenTie
