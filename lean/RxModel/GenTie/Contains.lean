import RxModel.Gen.Contains
import RxModel.GenTie.Tactics
/-! Tie: `ContainsObserver` generated from `/repo/src` IS the `St1` machine of the hand-written model. -/
namespace Rx.GenTie
open Rx Rx.Gen.Contains

/-- a Rust state read as a model state -/
def absContains (g : ContainsObserver) : St1 := .contains g.target g.observer.isSome

theorem tie_Contains_next (g : ContainsObserver) (v : Val) :
    (ContainsObserver.next g v).map (fun r => (absContains r.1, r.2)) = some (Rs.lift (St1.onNext (absContains g) v)) := by
  rcases g with ⟨_ | _, _⟩ <;> rs_tie [ContainsObserver.next, absContains, St1.onNext]

theorem tie_Contains_error (g : ContainsObserver) (e : Err) :
    (ContainsObserver.error g e).map (fun r => r.2) = some ((St1.onError' (absContains g) e).2.map Rs.Ev.n) := by
  rcases g with ⟨_ | _, _⟩ <;> rs_tie [ContainsObserver.error, absContains, St1.onError']

theorem tie_Contains_complete (g : ContainsObserver) :
    (ContainsObserver.complete g).map (fun r => r.2) = some ((St1.onComplete' (absContains g)).2.map Rs.Ev.n) := by
  rcases g with ⟨_ | _, _⟩ <;> rs_tie [ContainsObserver.complete, absContains, St1.onComplete']


theorem tie_Contains_init (t : Val) :
    absContains (ContainsObserver.init t) = Spec.Op1.init (.contains t) := by
  rs_simp [ContainsObserver.init, absContains, Spec.Op1.init]

end Rx.GenTie
