import RxModel.Gen.PinRc
import RxModel.Gen.PinBehaviorTrait
import RxModel.Gen.PinSubscribeItem
/-! Transcription pins (DESIGN II.7, weakest tie): for the files of /repo/src whose Lean model is a HAND transcription
    (ref_count, connectable, from_future, from_stream(_result), complete_status, box_it, defer, create, rc.rs, behavior.rs,
    subscribe_item), `rs2lean` writes the token text of every item (doc comments and test modules dropped) into
    `Gen/Pin*.lean` on every run; the theorems below say that this text is the one the transcription was made from.
    A pin that no longer holds means: the file changed — the sampled correspondence decides whether a property broke, and
    the transcription has to be re-read (tools/gen_pins.py regenerates this file afterwards). -/
namespace Rx.GenTie

/-! ### PinRc -/
theorem pin_Rc_0 : Rx.Gen.PinRc.item_0 = ("trait RcDeref :: item", "type Target ;") := rfl
theorem pin_Rc_1 : Rx.Gen.PinRc.item_1 = ("trait RcDeref :: item", "type Ref < 'a > : Deref < Target = Self :: Target > where Self : 'a ;") := rfl
theorem pin_Rc_2 : Rx.Gen.PinRc.item_2 = ("trait RcDeref :: fn rc_deref", "fn rc_deref (& self) -> Self :: Ref < '_ > ;") := rfl
theorem pin_Rc_3 : Rx.Gen.PinRc.item_3 = ("trait RcDerefMut :: item", "type Target ;") := rfl
theorem pin_Rc_4 : Rx.Gen.PinRc.item_4 = ("trait RcDerefMut :: item", "type MutRef < 'a > : DerefMut < Target = Self :: Target > where Self : 'a ;") := rfl
theorem pin_Rc_5 : Rx.Gen.PinRc.item_5 = ("trait RcDerefMut :: fn rc_deref_mut", "fn rc_deref_mut (& self) -> Self :: MutRef < '_ > ;") := rfl
theorem pin_Rc_6 : Rx.Gen.PinRc.item_6 = ("trait AssociatedRefPtr :: item", "type Rc < T > : RcDeref < Target = T > + RcDerefMut < Target = T > + From < T > ;") := rfl
theorem pin_Rc_7 : Rx.Gen.PinRc.item_7 = ("struct MutRc", "# [derive (Default)] pub struct MutRc < T > (Rc < RefCell < T > >) ;") := rfl
theorem pin_Rc_8 : Rx.Gen.PinRc.item_8 = ("struct MutArc", "# [derive (Default)] pub struct MutArc < T > (Arc < Mutex < T > >) ;") := rfl
theorem pin_Rc_9 : Rx.Gen.PinRc.item_9 = ("impl From < T > for MutArc < T > (header)", "< T > impl From < T > for MutArc < T >") := rfl
theorem pin_Rc_10 : Rx.Gen.PinRc.item_10 = ("impl From < T > for MutArc < T > :: fn from", "fn from (t : T) -> Self { Self (Arc :: from (Mutex :: from (t))) }") := rfl
theorem pin_Rc_11 : Rx.Gen.PinRc.item_11 = ("impl From < T > for MutRc < T > (header)", "< T > impl From < T > for MutRc < T >") := rfl
theorem pin_Rc_12 : Rx.Gen.PinRc.item_12 = ("impl From < T > for MutRc < T > :: fn from", "fn from (t : T) -> Self { Self (Rc :: from (RefCell :: from (t))) }") := rfl
theorem pin_Rc_13 : Rx.Gen.PinRc.item_13 = ("impl MutArc < T > (header)", "< T > impl MutArc < T >") := rfl
theorem pin_Rc_14 : Rx.Gen.PinRc.item_14 = ("impl MutArc < T > :: fn own", "pub fn own (t : T) -> Self { Self :: from (t) }") := rfl
theorem pin_Rc_15 : Rx.Gen.PinRc.item_15 = ("impl MutRc < T > (header)", "< T > impl MutRc < T >") := rfl
theorem pin_Rc_16 : Rx.Gen.PinRc.item_16 = ("impl MutRc < T > :: fn own", "pub fn own (t : T) -> Self { Self :: from (t) }") := rfl
theorem pin_Rc_17 : Rx.Gen.PinRc.item_17 = ("impl RcDeref for MutRc < T > (header)", "< T > impl RcDeref for MutRc < T >") := rfl
theorem pin_Rc_18 : Rx.Gen.PinRc.item_18 = ("impl RcDeref for MutRc < T > :: item", "type Target = T ;") := rfl
theorem pin_Rc_19 : Rx.Gen.PinRc.item_19 = ("impl RcDeref for MutRc < T > :: item", "type Ref < 'a > = Ref < 'a , T > where Self : 'a ;") := rfl
theorem pin_Rc_20 : Rx.Gen.PinRc.item_20 = ("impl RcDeref for MutRc < T > :: fn rc_deref", "# [inline] fn rc_deref (& self) -> Self :: Ref < '_ > { self . 0 . borrow () }") := rfl
theorem pin_Rc_21 : Rx.Gen.PinRc.item_21 = ("impl RcDeref for MutArc < T > (header)", "< T > impl RcDeref for MutArc < T >") := rfl
theorem pin_Rc_22 : Rx.Gen.PinRc.item_22 = ("impl RcDeref for MutArc < T > :: item", "type Target = T ;") := rfl
theorem pin_Rc_23 : Rx.Gen.PinRc.item_23 = ("impl RcDeref for MutArc < T > :: item", "type Ref < 'a > = MutexGuard < 'a , T > where Self : 'a ;") := rfl
theorem pin_Rc_24 : Rx.Gen.PinRc.item_24 = ("impl RcDeref for MutArc < T > :: fn rc_deref", "# [inline] fn rc_deref (& self) -> Self :: Ref < '_ > { # [cfg (feature = \"verif_hooks\")] verif :: before_lock (& self . 0) ; self . 0 . lock () . unwrap () }") := rfl
theorem pin_Rc_25 : Rx.Gen.PinRc.item_25 = ("impl RcDerefMut for MutRc < T > (header)", "< T > impl RcDerefMut for MutRc < T >") := rfl
theorem pin_Rc_26 : Rx.Gen.PinRc.item_26 = ("impl RcDerefMut for MutRc < T > :: item", "type Target = T ;") := rfl
theorem pin_Rc_27 : Rx.Gen.PinRc.item_27 = ("impl RcDerefMut for MutRc < T > :: item", "type MutRef < 'a > = RefMut < 'a , T > where Self : 'a ;") := rfl
theorem pin_Rc_28 : Rx.Gen.PinRc.item_28 = ("impl RcDerefMut for MutRc < T > :: fn rc_deref_mut", "# [inline] fn rc_deref_mut (& self) -> Self :: MutRef < '_ > { (* self . 0) . borrow_mut () }") := rfl
theorem pin_Rc_29 : Rx.Gen.PinRc.item_29 = ("impl RcDerefMut for MutArc < T > (header)", "< T > impl RcDerefMut for MutArc < T >") := rfl
theorem pin_Rc_30 : Rx.Gen.PinRc.item_30 = ("impl RcDerefMut for MutArc < T > :: item", "type Target = T ;") := rfl
theorem pin_Rc_31 : Rx.Gen.PinRc.item_31 = ("impl RcDerefMut for MutArc < T > :: item", "type MutRef < 'a > = MutexGuard < 'a , T > where Self : 'a ;") := rfl
theorem pin_Rc_32 : Rx.Gen.PinRc.item_32 = ("impl RcDerefMut for MutArc < T > :: fn rc_deref_mut", "# [inline] fn rc_deref_mut (& self) -> Self :: MutRef < '_ > { # [cfg (feature = \"verif_hooks\")] verif :: before_lock (& self . 0) ; self . 0 . lock () . unwrap () }") := rfl
theorem pin_Rc_33 : Rx.Gen.PinRc.item_33 = ("impl Clone for MutRc < T > (header)", "< T > impl Clone for MutRc < T >") := rfl
theorem pin_Rc_34 : Rx.Gen.PinRc.item_34 = ("impl Clone for MutRc < T > :: fn clone", "# [inline] fn clone (& self) -> Self { Self (self . 0 . clone ()) }") := rfl
theorem pin_Rc_35 : Rx.Gen.PinRc.item_35 = ("impl Clone for MutArc < T > (header)", "< T > impl Clone for MutArc < T >") := rfl
theorem pin_Rc_36 : Rx.Gen.PinRc.item_36 = ("impl Clone for MutArc < T > :: fn clone", "# [inline] fn clone (& self) -> Self { Self (self . 0 . clone ()) }") := rfl
theorem pin_Rc_count : Rx.Gen.PinRc.items.length = 37 := rfl

/-! ### PinBehaviorTrait -/
theorem pin_BehaviorTrait_0 : Rx.Gen.PinBehaviorTrait.item_0 = ("trait Behavior :: fn peek", "fn peek (& self) -> Item ;") := rfl
theorem pin_BehaviorTrait_1 : Rx.Gen.PinBehaviorTrait.item_1 = ("trait Behavior :: fn next_by", "fn next_by (& mut self , f : impl FnOnce (Item) -> Item) { let data = f (self . peek ()) ; self . next (data) ; }") := rfl
theorem pin_BehaviorTrait_count : Rx.Gen.PinBehaviorTrait.items.length = 2 := rfl

/-! ### PinSubscribeItem -/
theorem pin_SubscribeItem_0 : Rx.Gen.PinSubscribeItem.item_0 = ("struct ObserverItem", "# [derive (Clone)] pub struct ObserverItem < N > { next : N , }") := rfl
theorem pin_SubscribeItem_1 : Rx.Gen.PinSubscribeItem.item_1 = ("impl Observer < Item , Infallible > for ObserverItem < N > (header)", "< Item , N > impl Observer < Item , Infallible > for ObserverItem < N > where N : FnMut (Item) ,") := rfl
theorem pin_SubscribeItem_2 : Rx.Gen.PinSubscribeItem.item_2 = ("impl Observer < Item , Infallible > for ObserverItem < N > :: fn next", "fn next (& mut self , value : Item) { (self . next) (value) ; }") := rfl
theorem pin_SubscribeItem_3 : Rx.Gen.PinSubscribeItem.item_3 = ("impl Observer < Item , Infallible > for ObserverItem < N > :: fn error", "# [inline] fn error (self , _err : Infallible) { }") := rfl
theorem pin_SubscribeItem_4 : Rx.Gen.PinSubscribeItem.item_4 = ("impl Observer < Item , Infallible > for ObserverItem < N > :: fn complete", "# [inline] fn complete (self) { }") := rfl
theorem pin_SubscribeItem_5 : Rx.Gen.PinSubscribeItem.item_5 = ("impl Observer < Item , Infallible > for ObserverItem < N > :: fn is_finished", "# [inline] fn is_finished (& self) -> bool { false }") := rfl
theorem pin_SubscribeItem_6 : Rx.Gen.PinSubscribeItem.item_6 = ("trait ObservableItem :: item", "type Unsub : Subscription ;") := rfl
theorem pin_SubscribeItem_7 : Rx.Gen.PinSubscribeItem.item_7 = ("trait ObservableItem :: fn subscribe", "fn subscribe (self , next : F) -> Self :: Unsub ;") := rfl
theorem pin_SubscribeItem_8 : Rx.Gen.PinSubscribeItem.item_8 = ("impl ObservableItem < Item , F > for S (header)", "< S , Item , F > impl ObservableItem < Item , F > for S where S : Observable < Item , Infallible , ObserverItem < F > > , F : FnMut (Item) ,") := rfl
theorem pin_SubscribeItem_9 : Rx.Gen.PinSubscribeItem.item_9 = ("impl ObservableItem < Item , F > for S :: item", "type Unsub = S :: Unsub ;") := rfl
theorem pin_SubscribeItem_10 : Rx.Gen.PinSubscribeItem.item_10 = ("impl ObservableItem < Item , F > for S :: fn subscribe", "fn subscribe (self , next : F) -> Self :: Unsub { self . actual_subscribe (ObserverItem { next }) }") := rfl
theorem pin_SubscribeItem_11 : Rx.Gen.PinSubscribeItem.item_11 = ("fn raii", "# [test] fn raii () { let mut times = 0 ; { let mut subject = Subject :: default () ; { let _ = subject . clone () . subscribe (| _ | { times += 1 ; }) . unsubscribe_when_dropped () ; } subject . next (()) ; } assert_eq ! (times , 0) ; }") := rfl
theorem pin_SubscribeItem_count : Rx.Gen.PinSubscribeItem.items.length = 12 := rfl

end Rx.GenTie
