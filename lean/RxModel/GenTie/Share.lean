import RxModel.Gen.Share
import RxModel.GenTie.Tactics
/-! Tie: `share()` / `publish()` — `ShareOp`, `ConnectableObservable`, `RefCountSubscription` of src/ops/ref_count.rs and
    src/observable/connectable_observable.rs (compiler-expanded, translated; the inner subject is a token: `Ev.subj k` = a
    subscriber is added to it, `Ev.start k` = the source is subscribed with the subject as its observer, `Ev.gunsub k` = the
    subject is torn down), in closed form:

      first subscribe    the subscriber is registered with the inner subject FIRST, then the source is connected (so the
                         items a cold source emits while being subscribed reach the first subscriber); state: Connected
      later subscribes   registered with the subject, NOTHING else — the source is not subscribed again
      unsubscribe        the subscriber's own subscription; then, iff the subject reports no subscriber left, the SUBJECT is
                         torn down.  The subscription `connect()` returned was dropped at the first subscribe: nothing ever
                         unsubscribes the source (known finding C11: share never releases its source)
      publish            `actual_subscribe` registers with the subject only; `connect()` subscribes the source (once per call)

    and for EVERY number of subscribers: the source is subscribed exactly once, lazily (`share_source_once`). -/
namespace Rx.GenTie
open Rx Rx.Gen.Share

theorem tie_Connectable_subscribe (c : ConnectableObservable) (o : Rs.Obs) (p : Rs.Pub) :
    ConnectableObservable.actual_subscribe c o p = some (c, [Rs.Ev.subj c.subject.id]) := by
  rcases c with ⟨s, g⟩; rs_simp [ConnectableObservable.actual_subscribe, Rs.emitSubj]

theorem tie_Connectable_connect (c : ConnectableObservable) :
    ConnectableObservable.connect c = some (c, [Rs.Ev.start c.source.id]) := by
  rcases c with ⟨s, g⟩; rs_simp [ConnectableObservable.connect]

theorem tie_Connectable_fork (c : ConnectableObservable) : ConnectableObservable.fork c = c.subject := rfl

theorem tie_Share_first (c : ConnectableObservable) (o : Rs.Obs) (p : Rs.Pub) :
    ShareOp.actual_subscribe (InnerShareOp.Connectable c) o p =
      some (InnerShareOp.Connected c.subject, [Rs.Ev.subj c.subject.id, Rs.Ev.start c.source.id]) := by
  rcases c with ⟨s, g⟩
  rs_simp [ShareOp.actual_subscribe, ConnectableObservable.fork, ConnectableObservable.connect, Rs.emitSubj]

theorem tie_Share_later (g : Rs.Grp) (o : Rs.Obs) (p : Rs.Pub) :
    ShareOp.actual_subscribe (InnerShareOp.Connected g) o p = some (InnerShareOp.Connected g, [Rs.Ev.subj g.id]) := by
  rs_simp [ShareOp.actual_subscribe, Rs.emitSubj]

theorem tie_RefCount_unsubscribe (g : RefCountSubscription) (emptyOf : Nat → Bool) :
    RefCountSubscription.unsubscribe g emptyOf =
      some (g, Rs.Ev.unsub g.subscription.id :: (if emptyOf g.subject.id then [Rs.Ev.gunsub g.subject.id] else [])) := by
  rcases g with ⟨s, u⟩
  cases h : emptyOf s.id <;> rs_simp [RefCountSubscription.unsubscribe, Rs.emitGrpUnsub, h]

theorem tie_RefCount_is_closed (g : RefCountSubscription) (c : Nat → Bool) :
    RefCountSubscription.is_closed g c = c g.subscription.id := by
  rcases g with ⟨s, u⟩; rs_simp [RefCountSubscription.is_closed]

/-- `n` subscribers one after the other (any observers, any tokens) -/
def subscribeMany : ShareOp → List (Rs.Obs × Rs.Pub) → Option (ShareOp × Rs.Out)
  | st, [] => some (st, [])
  | st, (o, p) :: r =>
    (ShareOp.actual_subscribe st o p).bind (fun a => (subscribeMany a.1 r).map (fun b => (b.1, a.2 ++ b.2)))

def starts (out : Rs.Out) : Nat := (out.filter (fun e => match e with | Rs.Ev.start _ => true | _ => false)).length

theorem subscribeMany_connected (g : Rs.Grp) (l : List (Rs.Obs × Rs.Pub)) :
    ∃ out, subscribeMany (InnerShareOp.Connected g) l = some (InnerShareOp.Connected g, out) ∧ starts out = 0 ∧
      out = l.map (fun _ => Rs.Ev.subj g.id) := by
  induction l with
  | nil => exact ⟨[], rfl, rfl, rfl⟩
  | cons x r ih =>
    obtain ⟨out, h1, h2, h3⟩ := ih
    rcases x with ⟨o, p⟩
    refine ⟨Rs.Ev.subj g.id :: out, by simp [subscribeMany, tie_Share_later, h1], ?_, by simp [h3]⟩
    simp [starts] at h2 ⊢; exact h2

/-- share subscribes its source exactly ONCE however many subscribers come (and not at all before the first):
    every subscriber is registered with the one inner subject, in order -/
theorem share_source_once (c : ConnectableObservable) (l : List (Rs.Obs × Rs.Pub)) :
    ∃ st out, subscribeMany (InnerShareOp.Connectable c) l = some (st, out) ∧
      starts out = (if l.isEmpty then 0 else 1) ∧
      (out.filter (fun e => match e with | Rs.Ev.subj _ => true | _ => false)) = l.map (fun _ => Rs.Ev.subj c.subject.id) := by
  cases l with
  | nil => exact ⟨_, [], rfl, rfl, rfl⟩
  | cons x r =>
    rcases x with ⟨o, p⟩
    obtain ⟨out, h1, h2, h3⟩ := subscribeMany_connected c.subject r
    refine ⟨InnerShareOp.Connected c.subject, Rs.Ev.subj c.subject.id :: Rs.Ev.start c.source.id :: out,
      by simp [subscribeMany, tie_Share_first, h1], ?_, ?_⟩
    · have : starts (Rs.Ev.subj c.subject.id :: Rs.Ev.start c.source.id :: out) = 1 + starts out := by
        simp [starts, List.filter_cons]; omega
      simp [this, h2]
    · subst h3
      simp only [List.filter_cons, List.map_cons]
      simp only [if_true, if_false, Bool.false_eq_true]
      congr 1
      rw [List.filter_eq_self.mpr]
      intro a ha; simp at ha; obtain ⟨_, _, _, rfl⟩ := ha; rfl

end Rx.GenTie
