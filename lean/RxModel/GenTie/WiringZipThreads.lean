import RxModel.Gen.ZipThreads
/-! Tie (topology, thread-safe flavour): as GenTie/WiringZip.lean, for `ZipOpThreads`. -/
namespace Rx.GenTie
open Rx.Gen.ZipThreads

theorem wiringT_Zip_lets : ZipOpThreads.lets =
  [("o_zip", "ZipObserver::new(observer)"),
   ("o_zip", "MutArc::own(o_zip)"),
   ("a_unsub", "self.a.actual_subscribe(AObserver(o_zip , TypeHint::new()))"),
   ("b_unsub", "self.b.actual_subscribe(BObserver(o_zip, TypeHint::new()))")] := by decide

theorem wiringT_Zip_views : ZipOpThreads.views =
  [("AObserver", "0", "o_zip"),
   ("AObserver", "1", "TypeHint::new()"),
   ("BObserver", "0", "o_zip"),
   ("BObserver", "1", "TypeHint::new()")] := by decide

theorem wiringT_Zip_order : ZipOpThreads.order =
  [("self.a", "AObserver(o_zip , TypeHint::new())"),
   ("self.b", "BObserver(o_zip, TypeHint::new())")] := by decide

end Rx.GenTie
