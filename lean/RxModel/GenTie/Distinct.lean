import RxModel.Gen.Distinct
import RxModel.GenTie.Tactics
/-! Tie: the four observers of `src/ops/distinct.rs` ARE the `St1` machines of the hand-written model
    (`HashSet` read as a list with the newest member first; only membership is observable). -/
namespace Rx.GenTie
open Rx Rx.Gen.Distinct

def absDistinct (g : DistinctObserver) : St1 := .distinct g.seen

theorem tie_Distinct_next (g : DistinctObserver) (v : Val) :
    (DistinctObserver.next g v).map (fun r => (absDistinct r.1, r.2)) = some (Rs.lift (St1.onNext (absDistinct g) v)) := by
  rcases g with ⟨⟩ <;> rs_tie [DistinctObserver.next, absDistinct, St1.onNext]

theorem tie_Distinct_error (g : DistinctObserver) (e : Err) :
    (DistinctObserver.error g e).map (fun r => r.2) = some ((St1.onError' (absDistinct g) e).2.map Rs.Ev.n) := by
  rcases g with ⟨⟩ <;> rs_tie [DistinctObserver.error, absDistinct, St1.onError']

theorem tie_Distinct_complete (g : DistinctObserver) :
    (DistinctObserver.complete g).map (fun r => r.2) = some ((St1.onComplete' (absDistinct g)).2.map Rs.Ev.n) := by
  rcases g with ⟨⟩ <;> rs_tie [DistinctObserver.complete, absDistinct, St1.onComplete']


theorem tie_Distinct_init  :
    absDistinct (DistinctObserver.init ) = Spec.Op1.init (.distinct) := by
  rs_simp [DistinctObserver.init, absDistinct, Spec.Op1.init]

def absDistinctKey (g : DistinctKeyObserver) : St1 := .distinctKey g.key g.seen

theorem tie_DistinctKey_next (g : DistinctKeyObserver) (v : Val) :
    (DistinctKeyObserver.next g v).map (fun r => (absDistinctKey r.1, r.2)) = some (Rs.lift (St1.onNext (absDistinctKey g) v)) := by
  rcases g with ⟨⟩ <;> rs_tie [DistinctKeyObserver.next, absDistinctKey, St1.onNext]

theorem tie_DistinctKey_error (g : DistinctKeyObserver) (e : Err) :
    (DistinctKeyObserver.error g e).map (fun r => r.2) = some ((St1.onError' (absDistinctKey g) e).2.map Rs.Ev.n) := by
  rcases g with ⟨⟩ <;> rs_tie [DistinctKeyObserver.error, absDistinctKey, St1.onError']

theorem tie_DistinctKey_complete (g : DistinctKeyObserver) :
    (DistinctKeyObserver.complete g).map (fun r => r.2) = some ((St1.onComplete' (absDistinctKey g)).2.map Rs.Ev.n) := by
  rcases g with ⟨⟩ <;> rs_tie [DistinctKeyObserver.complete, absDistinctKey, St1.onComplete']


theorem tie_DistinctKey_init (key : Val → Val) :
    absDistinctKey (DistinctKeyObserver.init key) = Spec.Op1.init (.distinctKey key) := by
  rs_simp [DistinctKeyObserver.init, absDistinctKey, Spec.Op1.init]

def absDistinctUntilChanged (g : DistinctUntilChangedObserver) : St1 := .distinctUntilChanged g.last

theorem tie_DistinctUntilChanged_next (g : DistinctUntilChangedObserver) (v : Val) :
    (DistinctUntilChangedObserver.next g v).map (fun r => (absDistinctUntilChanged r.1, r.2)) = some (Rs.lift (St1.onNext (absDistinctUntilChanged g) v)) := by
  rcases g with ⟨o, _ | l⟩ <;> rs_simp [DistinctUntilChangedObserver.next, absDistinctUntilChanged, St1.onNext]
  by_cases h : l = v <;> simp [h]

theorem tie_DistinctUntilChanged_error (g : DistinctUntilChangedObserver) (e : Err) :
    (DistinctUntilChangedObserver.error g e).map (fun r => r.2) = some ((St1.onError' (absDistinctUntilChanged g) e).2.map Rs.Ev.n) := by
  rcases g with ⟨⟩ <;> rs_tie [DistinctUntilChangedObserver.error, absDistinctUntilChanged, St1.onError']

theorem tie_DistinctUntilChanged_complete (g : DistinctUntilChangedObserver) :
    (DistinctUntilChangedObserver.complete g).map (fun r => r.2) = some ((St1.onComplete' (absDistinctUntilChanged g)).2.map Rs.Ev.n) := by
  rcases g with ⟨⟩ <;> rs_tie [DistinctUntilChangedObserver.complete, absDistinctUntilChanged, St1.onComplete']


theorem tie_DistinctUntilChanged_init  :
    absDistinctUntilChanged (DistinctUntilChangedObserver.init ) = Spec.Op1.init (.distinctUntilChanged) := by
  rs_simp [DistinctUntilChangedObserver.init, absDistinctUntilChanged, Spec.Op1.init]

def absDistinctUntilKeyChanged (g : DistinctUntilKeyChangedObserver) : St1 := .distinctUntilKeyChanged g.key g.last

theorem tie_DistinctUntilKeyChanged_next (g : DistinctUntilKeyChangedObserver) (v : Val) :
    (DistinctUntilKeyChangedObserver.next g v).map (fun r => (absDistinctUntilKeyChanged r.1, r.2)) = some (Rs.lift (St1.onNext (absDistinctUntilKeyChanged g) v)) := by
  rcases g with ⟨o, k, _ | l⟩ <;> rs_simp [DistinctUntilKeyChangedObserver.next, absDistinctUntilKeyChanged, St1.onNext]
  by_cases h : k l = k v <;> simp [h]

theorem tie_DistinctUntilKeyChanged_error (g : DistinctUntilKeyChangedObserver) (e : Err) :
    (DistinctUntilKeyChangedObserver.error g e).map (fun r => r.2) = some ((St1.onError' (absDistinctUntilKeyChanged g) e).2.map Rs.Ev.n) := by
  rcases g with ⟨⟩ <;> rs_tie [DistinctUntilKeyChangedObserver.error, absDistinctUntilKeyChanged, St1.onError']

theorem tie_DistinctUntilKeyChanged_complete (g : DistinctUntilKeyChangedObserver) :
    (DistinctUntilKeyChangedObserver.complete g).map (fun r => r.2) = some ((St1.onComplete' (absDistinctUntilKeyChanged g)).2.map Rs.Ev.n) := by
  rcases g with ⟨⟩ <;> rs_tie [DistinctUntilKeyChangedObserver.complete, absDistinctUntilKeyChanged, St1.onComplete']


theorem tie_DistinctUntilKeyChanged_init (key : Val → Val) :
    absDistinctUntilKeyChanged (DistinctUntilKeyChangedObserver.init key) = Spec.Op1.init (.distinctUntilKeyChanged key) := by
  rs_simp [DistinctUntilKeyChangedObserver.init, absDistinctUntilKeyChanged, Spec.Op1.init]

end Rx.GenTie
