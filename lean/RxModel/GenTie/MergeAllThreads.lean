import RxModel.Gen.MergeAllThreads
import RxModel.GenTie.Subscription
import RxModel.Ops.MergeAll
/-! Tie (thread-safe flavour): `InnerObserverThreads` / `OutsideObserverThreads` of merge_all (src/ops/merge_all.rs, compiler-expanded, translated; the
    shared cell `Option<ObserverData>`, stored closures as tokens, inner observables as tokens) in closed form —
    the bookkeeping skeleton of the model (`Ops/MergeAll.lean`: `alive`, `subscribed`, `queue`, `outsideCompleted`,
    `concurrent`; `drain`, `innerError`, the outer `next`):
      inner next      forwards while the cell is full
      inner error     takes the data, forwards the error (everything is silent afterwards)
      inner complete  a waiting closure: POP THE FRONT of the queue and run it, `subscribed` unchanged (the slot is
                      handed over); none waiting: `subscribed -= 1` (never below zero: that is a panic), and iff it
                      reached 0 and the outer stream has completed the data is taken and the downstream completed
      outer next      `subscribed < concurrent`: count it, subscribe the inner NOW, append its subscription;
                      else push a closure at the BACK of the queue
      outer complete  marks `outside_completed`; completes downstream iff nothing is subscribed and nothing waits
      the closure     subscribes the inner and appends its subscription — exactly what the immediate path does. -/
namespace Rx.GenTie
open Rx Rx.Gen.MergeAllThreads Rx.Gen.Subscription

theorem tieT_MergeAll_inner_next (g : InnerObserverThreads) (v : Val) :
    InnerObserverThreads.next g v = some (g, if g.isSome then [Rs.Ev.n (Notif.next v)] else []) := by
  cases g <;> rs_simp [InnerObserverThreads.next]

theorem tieT_MergeAll_inner_error (g : InnerObserverThreads) (e : Err) :
    InnerObserverThreads.error g e = some (none, if g.isSome then [Rs.Ev.n (Notif.error e)] else []) := by
  cases g <;> rs_simp [InnerObserverThreads.error]

theorem tieT_MergeAll_inner_complete_waiting (d : ObserverData) (t : Rs.Lazy) (r : List Rs.Lazy)
    (h : d.subscribe_tasks = t :: r) :
    InnerObserverThreads.complete (some d) = some (some { d with subscribe_tasks := r }, [Rs.Ev.lazy t.id]) := by
  rcases d with ⟨o, q, oc, s, c⟩
  simp only at h; subst h
  rs_simp [InnerObserverThreads.complete]

theorem tieT_MergeAll_inner_complete_last (d : ObserverData) (h : d.subscribe_tasks = []) :
    InnerObserverThreads.complete (some d) =
      if d.subscribed = 0 then none                                     -- `usize` underflow: panic
      else if d.subscribed - 1 = 0 ∧ d.outside_completed = true then some (none, [Rs.Ev.n Notif.complete])
      else some (some { d with subscribed := d.subscribed - 1 }, []) := by
  rcases d with ⟨o, q, oc, s, c⟩
  simp only at h; subst h
  cases s with
  | zero => rs_simp [InnerObserverThreads.complete]
  | succ n =>
    cases n <;> cases oc <;> rs_simp [InnerObserverThreads.complete]

theorem tieT_MergeAll_inner_complete_dead : InnerObserverThreads.complete none = some (none, []) := by
  rs_simp [InnerObserverThreads.complete]

/-- the model's `drain` with nobody waiting: the same decrement and the same completion condition -/
theorem model_drain_nilT (fixed : Bool) (s : MergeAll.St) :
    MergeAll.drain fixed s [] =
      if s.subscribed - 1 = 0 ∧ s.outsideCompleted = true then
        ({ s with subscribed := s.subscribed - 1, queue := [], completed := s.completed + 1, alive := false }, [.complete])
      else ({ s with subscribed := s.subscribed - 1, queue := [], completed := s.completed + 1 }, []) := by
  simp [MergeAll.drain]

theorem model_innerErrorT (s : MergeAll.St) (e : Err) :
    MergeAll.innerError s e = if s.alive then ({ s with alive := false }, [.error e]) else (s, []) := rfl

theorem tieT_MergeAll_lazy (g : OutsideObserverThreads) (k : Rs.Inner) :
    OutsideObserverThreads.next_lazy g k =
      (MultiSubscriptionThreads.append g.subscription ⟨k.id⟩).map
        (fun r => ({ g with subscription := r.1 }, Rs.Ev.start k.id :: r.2)) := by
  rcases g with ⟨d, sub⟩
  rs_simp [OutsideObserverThreads.next_lazy]
  cases MultiSubscriptionThreads.append sub ⟨k.id⟩ <;> simp

theorem tieT_MergeAll_outer_next_room (g : OutsideObserverThreads) (d : ObserverData) (k : Rs.Inner)
    (hd : g.observer_data = some d) (h : d.subscribed < d.concurrent) :
    OutsideObserverThreads.next g k =
      (MultiSubscriptionThreads.append g.subscription ⟨k.id⟩).map
        (fun r => ({ observer_data := some { d with subscribed := d.subscribed + 1 }, subscription := r.1 },
                   Rs.Ev.start k.id :: r.2)) := by
  rcases g with ⟨dd, sub⟩
  simp only at hd; subst hd
  rs_simp [OutsideObserverThreads.next, h]
  cases MultiSubscriptionThreads.append sub ⟨k.id⟩ <;> simp

theorem tieT_MergeAll_outer_next_full (g : OutsideObserverThreads) (d : ObserverData) (k : Rs.Inner)
    (hd : g.observer_data = some d) (h : ¬ d.subscribed < d.concurrent) :
    OutsideObserverThreads.next g k =
      some ({ g with observer_data := some { d with subscribe_tasks := d.subscribe_tasks ++ [⟨k.id⟩] } }, []) := by
  rcases g with ⟨dd, sub⟩
  simp only at hd; subst hd
  rs_simp [OutsideObserverThreads.next, h]

theorem tieT_MergeAll_outer_next_dead (g : OutsideObserverThreads) (k : Rs.Inner) (hd : g.observer_data = none) :
    OutsideObserverThreads.next g k = some (g, []) := by
  rcases g with ⟨dd, sub⟩
  simp only at hd; subst hd
  rs_simp [OutsideObserverThreads.next]

theorem tieT_MergeAll_outer_error (g : OutsideObserverThreads) (e : Err) :
    OutsideObserverThreads.error g e =
      some ({ g with observer_data := none }, if g.observer_data.isSome then [Rs.Ev.n (Notif.error e)] else []) := by
  rcases g with ⟨_ | d, sub⟩ <;> rs_simp [OutsideObserverThreads.error]

theorem tieT_MergeAll_outer_complete (g : OutsideObserverThreads) :
    OutsideObserverThreads.complete g =
      match g.observer_data with
      | none => some (g, [])
      | some d =>
        if d.subscribed = 0 ∧ d.subscribe_tasks = [] then
          some ({ g with observer_data := none }, [Rs.Ev.n Notif.complete])
        else some ({ g with observer_data := some { d with outside_completed := true } }, []) := by
  rcases g with ⟨_ | ⟨o, q, oc, s, c⟩, sub⟩
  · rs_simp [OutsideObserverThreads.complete]
  · cases s <;> cases q <;> rs_simp [OutsideObserverThreads.complete]

theorem tieT_MergeAll_finished (g : OutsideObserverThreads) (i : InnerObserverThreads) (dn : Bool) :
    OutsideObserverThreads.is_finished g dn = (!g.observer_data.isSome || dn) ∧
    InnerObserverThreads.is_finished i dn = (!i.isSome || dn) := by
  rcases g with ⟨_ | d, sub⟩ <;> cases i <;> rs_simp [OutsideObserverThreads.is_finished, InnerObserverThreads.is_finished]

end Rx.GenTie
