import RxModel.Gen.RcObserver
import RxModel.GenTie.Tactics
/-! The shared slot `MutRc<Option<O>>` / `MutArc<Option<O>>` used as an observer (`impl_rc_observer!` of
    src/observer.rs), generated from the source: it lets everything through until the first terminal, which
    empties it — the `gate` of the model. -/
namespace Rx.GenTie
open Rx Rx.Gen.RcObserver

theorem rc_next (g : RcObserver) (v : Val) :
    RcObserver.next g v = some (g, if g.isSome then [Rs.Ev.n (Notif.next v)] else []) := by
  cases g <;> rs_simp [RcObserver.next]

theorem rc_error (g : RcObserver) (e : Err) :
    RcObserver.error g e = some (none, if g.isSome then [Rs.Ev.n (Notif.error e)] else []) := by
  cases g <;> rs_simp [RcObserver.error]

theorem rc_complete (g : RcObserver) :
    RcObserver.complete g = some (none, if g.isSome then [Rs.Ev.n Notif.complete] else []) := by
  cases g <;> rs_simp [RcObserver.complete]

theorem rc_finished (g : RcObserver) (d : Bool) :
    RcObserver.is_finished g d = (!g.isSome || d) := by
  cases g <;> rs_simp [RcObserver.is_finished]

end Rx.GenTie
