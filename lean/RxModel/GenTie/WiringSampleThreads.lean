import RxModel.Gen.SampleThreads
/-! Tie (topology, thread-safe flavour): as GenTie/WiringSample.lean, for `SampleOpThreads`. -/
namespace Rx.GenTie
open Rx.Gen.SampleThreads

theorem wiringT_Sample_lets : SampleOpThreads.lets =
  [("value", "MutArc::own(None)"),
   ("observer", "MutArc::own(Some(observer))"),
   ("source_observer", "SourceObserver { observer : observer , value : value , }"),
   ("sample_observer", "SampleObserver { observer, value }"),
   ("source_unsub", "self.source.actual_subscribe(source_observer)"),
   ("sample_unsub", "self.sample.actual_subscribe(sample_observer)")] := by decide

theorem wiringT_Sample_views : SampleOpThreads.views =
  [("SourceObserver", "observer", "observer"),
   ("SourceObserver", "value", "value"),
   ("SampleObserver", "observer", "observer"),
   ("SampleObserver", "value", "value")] := by decide

theorem wiringT_Sample_order : SampleOpThreads.order =
  [("self.source", "source_observer"),
   ("self.sample", "sample_observer")] := by decide

end Rx.GenTie
