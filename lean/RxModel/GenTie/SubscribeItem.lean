import RxModel.Gen.SubscribeItem
import RxModel.GenTie.Tactics
/-! Tie: the closure observer behind `subscribe(|v| ..)` (src/observable/subscribe_item.rs): the user's closure is called
    exactly once per item, never by a terminal; the observer never reports finished (so it never makes a producer retire);
    after ANY history of n items and terminals the closure has been called exactly as often as there were items. -/
namespace Rx.GenTie
open Rx Rx.Gen.SubscribeItem

theorem tie_ObserverItem_next (g : ObserverItem) (v : Val) :
    ObserverItem.next g v = some ({ g with next_ := g.next_ + 1 }, []) := by
  rcases g with ⟨n⟩; rs_simp [ObserverItem.next]

theorem tie_ObserverItem_terminals (g : ObserverItem) (e : Err) :
    ObserverItem.error g e = some (g, []) ∧ ObserverItem.complete g = some (g, []) := by
  rcases g with ⟨n⟩; rs_simp [ObserverItem.error, ObserverItem.complete]

theorem tie_ObserverItem_finished (g : ObserverItem) (d : Bool) : ObserverItem.is_finished g d = false := rfl

/-- feeding a list of items: the closure is called once per item -/
def feedItems (g : ObserverItem) : List Val → Option ObserverItem
  | [] => some g
  | v :: r => (ObserverItem.next g v).bind (fun p => feedItems p.1 r)

theorem ObserverItem_calls (g : ObserverItem) (vs : List Val) :
    feedItems g vs = some { g with next_ := g.next_ + vs.length } := by
  induction vs generalizing g with
  | nil => rfl
  | cons v r ih => simp [feedItems, tie_ObserverItem_next, ih]; omega

end Rx.GenTie
