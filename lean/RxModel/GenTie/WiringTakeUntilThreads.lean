import RxModel.Gen.TakeUntilThreads
/-! Tie (topology, thread-safe flavour): as GenTie/WiringTakeUntil.lean, for `TakeUntilOpThreads`. -/
namespace Rx.GenTie
open Rx.Gen.TakeUntilThreads

theorem wiringT_TakeUntil_lets : TakeUntilOpThreads.lets =
  [("main_observer", "MutArc::own(Some(observer))"),
   ("a", "self.source.actual_subscribe(main_observer)"),
   ("notify_observer", "TakeUntilNotifierObserver { main_observer, _hint : TypeHint::default(), }"),
   ("b", "self.notifier.actual_subscribe(notify_observer)")] := by decide

theorem wiringT_TakeUntil_views : TakeUntilOpThreads.views =
  [("TakeUntilNotifierObserver", "main_observer", "main_observer"),
   ("TakeUntilNotifierObserver", "_hint", "TypeHint::default()")] := by decide

theorem wiringT_TakeUntil_order : TakeUntilOpThreads.order =
  [("self.source", "main_observer"),
   ("self.notifier", "notify_observer")] := by decide

end Rx.GenTie
