import RxModel.Gen.SkipUntil
import RxModel.GenTie.Tactics
/-! Tie: `ShareObserver` (source side) and `SkipUntilNotifierObserver` (a newtype around a clone of it) generated
    from src/ops/skip_until.rs ARE the `St2.skipUntil` cell.  DECLARED topology: the clone shares the slot cell
    and the `skip` flag cell. -/
namespace Rx.GenTie
open Rx Rx.Gen.SkipUntil

def absSkipUntil (g : ShareObserver) : St2 := .skipUntil g.observer.isSome g.skip

theorem tie_Su_a_next (g : ShareObserver) (v : Val) :
    (ShareObserver.next g v).map (fun r => (absSkipUntil r.1, r.2)) = some (Rs.lift (St2.step (absSkipUntil g) .a (.next v))) := by
  rcases g with ⟨_ | _, _ | _⟩ <;>
    rs_tie [ShareObserver.next, ShareObserver.is_skipping, Rx.Gen.RcObserver.RcObserver.next, absSkipUntil, St2.step, St2.guard]

theorem tie_Su_a_error (g : ShareObserver) (e : Err) :
    (ShareObserver.error g e).map (fun r => (absSkipUntil r.1, r.2)) = some (Rs.lift (St2.step (absSkipUntil g) .a (.error e))) := by
  rcases g with ⟨_ | _, s⟩ <;>
    rs_tie [ShareObserver.error, Rx.Gen.RcObserver.RcObserver.error, absSkipUntil, St2.step, St2.guard]

theorem tie_Su_a_complete (g : ShareObserver) :
    (ShareObserver.complete g).map (fun r => (absSkipUntil r.1, r.2)) = some (Rs.lift (St2.step (absSkipUntil g) .a .complete)) := by
  rcases g with ⟨_ | _, s⟩ <;>
    rs_tie [ShareObserver.complete, Rx.Gen.RcObserver.RcObserver.complete, absSkipUntil, St2.step, St2.guard]

theorem tie_Su_b_next (g : SkipUntilNotifierObserver) (v : Val) :
    (SkipUntilNotifierObserver.next g v).map (fun r => (absSkipUntil r.1, r.2)) = some (Rs.lift (St2.step (absSkipUntil g) .b (.next v))) := by
  rcases g with ⟨_ | _, s⟩ <;>
    rs_tie [SkipUntilNotifierObserver.next, ShareObserver.stop_skipping, absSkipUntil, St2.step, St2.guard]

theorem tie_Su_b_error (g : SkipUntilNotifierObserver) (e : Err) :
    (SkipUntilNotifierObserver.error g e).map (fun r => (absSkipUntil r.1, r.2)) = some (Rs.lift (St2.step (absSkipUntil g) .b (.error e))) := by
  rcases g with ⟨_ | _, s⟩ <;> rs_tie [SkipUntilNotifierObserver.error, absSkipUntil, St2.step, St2.guard]

theorem tie_Su_b_complete (g : SkipUntilNotifierObserver) :
    (SkipUntilNotifierObserver.complete g).map (fun r => (absSkipUntil r.1, r.2)) = some (Rs.lift (St2.step (absSkipUntil g) .b .complete)) := by
  rcases g with ⟨_ | _, s⟩ <;> rs_tie [SkipUntilNotifierObserver.complete, absSkipUntil, St2.step, St2.guard]


theorem tie_Su_init : absSkipUntil ShareObserver.init = Kind2.init .skipUntil := by
  rs_simp [ShareObserver.init, absSkipUntil, Kind2.init]

end Rx.GenTie
