import RxModel.Gen.CombineLatestThreads
/-! Tie (topology, thread-safe flavour): as GenTie/WiringCombineLatest.lean, for `CombineLatestOpThread`. -/
namespace Rx.GenTie
open Rx.Gen.CombineLatestThreads

theorem wiringT_CombineLatest_lets : CombineLatestOpThread.lets =
  [("o_combine", "CombineLatestObserver::new(observer, self.binary_op)"),
   ("o_combine", "MutArc::own(o_combine)"),
   ("a_unsub", "self.a.actual_subscribe(AObserver(o_combine , TypeHint::new()))"),
   ("b_unsub", "self.b.actual_subscribe(BObserver(o_combine, TypeHint::new()))")] := by decide

theorem wiringT_CombineLatest_views : CombineLatestOpThread.views =
  [("AObserver", "0", "o_combine"),
   ("AObserver", "1", "TypeHint::new()"),
   ("BObserver", "0", "o_combine"),
   ("BObserver", "1", "TypeHint::new()")] := by decide

theorem wiringT_CombineLatest_order : CombineLatestOpThread.order =
  [("self.a", "AObserver(o_combine , TypeHint::new())"),
   ("self.b", "BObserver(o_combine, TypeHint::new())")] := by decide

end Rx.GenTie
