import RxModel.Gen.Buffer
import RxModel.GenTie.Tactics
/-! Tie: `BufferWithCountObserver` (over `BufferObserver` and its helper `emit`) generated from
    `src/ops/buffer.rs` IS the `St1.bufferCount` machine. -/
namespace Rx.GenTie
open Rx Rx.Gen.Buffer

def absBufferWithCount (g : BufferWithCountObserver) : St1 := .bufferCount g.count g.buffer.data

theorem tie_BufferWithCount_next (g : BufferWithCountObserver) (v : Val) :
    (BufferWithCountObserver.next g v).map (fun r => (absBufferWithCount r.1, r.2)) = some (Rs.lift (St1.onNext (absBufferWithCount g) v)) := by
  rcases g with ⟨⟨o, d⟩, c⟩
  rs_tie [BufferWithCountObserver.next, BufferObserver.next, BufferObserver.emit, absBufferWithCount, St1.onNext]

theorem tie_BufferWithCount_error (g : BufferWithCountObserver) (e : Err) :
    (BufferWithCountObserver.error g e).map (fun r => r.2) = some ((St1.onError' (absBufferWithCount g) e).2.map Rs.Ev.n) := by
  rcases g with ⟨⟨o, d⟩, c⟩
  rs_tie [BufferWithCountObserver.error, BufferObserver.error, absBufferWithCount, St1.onError']

theorem tie_BufferWithCount_complete (g : BufferWithCountObserver) :
    (BufferWithCountObserver.complete g).map (fun r => r.2) = some ((St1.onComplete' (absBufferWithCount g)).2.map Rs.Ev.n) := by
  rcases g with ⟨⟨o, d⟩, c⟩
  rs_tie [BufferWithCountObserver.complete, BufferObserver.complete, BufferObserver.emit, absBufferWithCount, St1.onComplete']


theorem tie_BufferWithCount_init (n : Nat) :
    absBufferWithCount (BufferWithCountObserver.init n) = Spec.Op1.init (.bufferCount n) := by
  rs_simp [BufferWithCountObserver.init, absBufferWithCount, Spec.Op1.init]

end Rx.GenTie
