import RxModel.GenTie.TimeSources
import RxModel.GenTie.DelaySubscription
import RxModel.GenTie.BufferCell
import RxModel.Sched.Chain
/-! The scheduling events of the GENERATED `actual_subscribe` functions, read into the scheduler model, are the
    scheduling calls of the world model (`TW.subscribeSource`, `TW.subscribeFrom` of Sched/Chain.lean): same task kind,
    same first delay, same period, same outer delay.  `interpSched` is the (small, explicit) dictionary from the event
    vocabulary of the translator to the model's `scheduleOnce` / `scheduleRepeat`; `stageIx` is the position of the
    scheduling operator in the chain (a datum of the world, not of the code). -/
namespace Rx.GenTie
open Rx Rx.T

/-- the model call a scheduling event stands for -/
def interpSched (stageIx : Nat) : Rs.Ev → Sched → Option (Sched × TaskId)
  | Rs.Ev.sched "repeat:interval_task" [Val.int first, Val.int dur] delay _, s =>
      some (s.scheduleRepeat .tick dur.toNat delay first.toNat)
  | Rs.Ev.sched "timer_task" [v] delay _, s => some (s.scheduleOnce (.timerSrc v) delay)
  | Rs.Ev.sched "subscribe_task" [_] delay _, s => some (s.scheduleOnce (.subscribe stageIx) delay)
  | _, _ => none

/-- interval / interval_at: what the code schedules is what `TW.subscribeSource` schedules -/
theorem model_interval_subscribe (w : TW) (g : Rx.Gen.SrcInterval.IntervalObservable) (o : Rs.Obs) (h : Rs.Sub)
    (hs : w.src = .interval g.delay g.dur) :
    ∃ out, Rx.Gen.SrcInterval.IntervalObservable.actual_subscribe g o h = some (g, out) ∧
      ∃ e, out = [e] ∧
        (interpSched 0 e w.sched).map (fun r => (r.1, some r.2)) =
          some ((w.subscribeSource).sched, (w.subscribeSource).srcTask) := by
  refine ⟨_, tie_Interval_subscribe g o h, _, rfl, ?_⟩
  simp [interpSched, TW.subscribeSource, hs]

/-- timer / timer_at -/
theorem model_timer_subscribe (w : TW) (g : Rx.Gen.SrcTimer.TimerObservable) (o : Rs.Obs) (h : Rs.Sub)
    (hs : w.src = .timer g.item g.dur) :
    ∃ out, Rx.Gen.SrcTimer.TimerObservable.actual_subscribe g o h = some (g, out) ∧
      ∃ e, out = [e] ∧
        (interpSched 0 e w.sched).map (fun r => (r.1, some r.2)) =
          some ((w.subscribeSource).sched, (w.subscribeSource).srcTask) := by
  refine ⟨_, tie_Timer_subscribe g o h, _, rfl, ?_⟩
  simp [interpSched, TW.subscribeSource, hs]

/-- subscribe_on: the stage schedules ONE subscribing task without delay and stops (`TW.subscribeFrom`) -/
theorem model_subscribeOn_subscribe (w : TW) (j : Nat) (t : Option TaskId) (g : Rx.Gen.SubscribeOn.SubscribeOnOP)
    (o : Rs.Obs) (h : Rs.Sub) (hs : w.stages[j]? = some (.subscribeOn none t)) :
    ∃ out, Rx.Gen.SubscribeOn.SubscribeOnOP.actual_subscribe g o h = some (g, out) ∧
      ∃ e, out = [e] ∧
        (interpSched j e w.sched).map (fun r => r.1) = some (w.subscribeFrom (j + 1)).sched := by
  refine ⟨_, tie_SubscribeOn_subscribe g o h, _, rfl, ?_⟩
  simp [interpSched, TW.subscribeFrom, hs, TW.setStage]

/-- delay_subscription: the same task, with the configured delay as the scheduler's outer delay -/
theorem model_delaySubscription_subscribe (w : TW) (j : Nat) (t : Option TaskId)
    (g : Rx.Gen.DelaySubscription.DelaySubscriptionOp) (o : Rs.Obs) (h : Rs.Sub)
    (hs : w.stages[j]? = some (.subscribeOn (some g.delay) t)) :
    ∃ out, Rx.Gen.DelaySubscription.DelaySubscriptionOp.actual_subscribe g o h = some (g, out) ∧
      ∃ e, out = [e] ∧
        (interpSched j e w.sched).map (fun r => r.1) = some (w.subscribeFrom (j + 1)).sched := by
  refine ⟨_, tie_DelaySubscription_subscribe g o h, _, rfl, ?_⟩
  simp [interpSched, TW.subscribeFrom, hs, TW.setStage]

/-- the tick of `interval` is the `.tick` clause of `runTick`: stop iff the chain is finished, else push `next(seq)` -/
theorem model_interval_tick (w : TW) (o : Rs.Obs) (seq : Nat) :
    ∃ o' out keep, Rx.Gen.SrcInterval.Observer.tick_interval_task o (fin w.stages) seq = some (o', out, keep) ∧
      keep = (w.runTick .tick seq).2 ∧
      (w.runTick .tick seq).1 = (if keep then w.push 0 (out.filterMap (fun e => match e with | Rs.Ev.n x => some x | _ => none)) else w) := by
  by_cases hf : fin w.stages <;> simp [tie_Interval_tick, TW.runTick, hf]

end Rx.GenTie
