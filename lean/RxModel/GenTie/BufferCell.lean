import RxModel.Gen.BufferCell
import RxModel.GenTie.Tactics
import RxModel.Sched.Chain
/-! Tie: the SHARED buffer cell of src/ops/buffer.rs — `MutArc<Option<BufferObserver>>` used as an observer
    (`impl_rc_observer!` of src/observer.rs instantiated over the translated `BufferObserver` /
    `BufferWithCountObserver`), the `NotifierObserver` of `buffer(notifier)`, and the tick functions
    `emit_buffer` / `emit_count_buffer` of `buffer_with_time` / `buffer_with_count_and_time`.

    Closed forms first (every method, every state), then the forward simulations:
      * `buffer(notifier)`:   source side + notifier side  ⊑  `St2.step (.buffer alive data)` (Ops/Multi.lean)
      * `buffer_with_time`:   cell as observer             ⊑  `Stage.onNotif (.bufTime d none ..)`  (Sched/Chain.lean)
      * `buffer_with_count_and_time`                        ⊑  `Stage.onNotif (.bufTime d (some c) ..)`
      * the tick functions                                   =  the `bufTick` clause of `runTick`
    The relation reads `Some(b)` as "alive with `b.data`" and `None` as "terminated" (the model keeps the stale
    data of a terminated cell, the code has dropped the whole observer: both are silent from then on). -/
namespace Rx.GenTie
open Rx Rx.Gen.Buffer Rx.Gen.BufferCell

def evs (ns : List Notif) : Rs.Out := ns.map Rs.Ev.n

/-! ### closed forms: the cell over `BufferObserver` -/

theorem tie_SlotBuffer_next (g : SlotBufferObserver) (v : Val) :
    SlotBufferObserver.next g v =
      some (g.map (fun b => { b with data := b.data ++ [v] }), []) := by
  rcases g with _ | ⟨o, d⟩ <;> rs_simp [SlotBufferObserver.next, BufferObserver.next]

theorem tie_SlotBuffer_error (g : SlotBufferObserver) (e : Err) :
    SlotBufferObserver.error g e =
      some (none, match g with | some _ => [Rs.Ev.n (Notif.error e)] | none => []) := by
  rcases g with _ | ⟨o, d⟩ <;> rs_simp [SlotBufferObserver.error, BufferObserver.error]

theorem tie_SlotBuffer_complete (g : SlotBufferObserver) :
    SlotBufferObserver.complete g =
      some (none, match g with | some b => evs (St2.flush b.data ++ [Notif.complete]) | none => []) := by
  rcases g with _ | ⟨o, d⟩
  · rs_simp [SlotBufferObserver.complete]
  · cases d <;> rs_simp [SlotBufferObserver.complete, BufferObserver.complete, BufferObserver.emit, St2.flush, evs]

theorem tie_SlotBuffer_finished (g : SlotBufferObserver) (down : Bool) :
    SlotBufferObserver.is_finished g down = (match g with | some _ => down | none => true) := by
  rcases g with _ | ⟨o, d⟩ <;> rs_simp [SlotBufferObserver.is_finished, BufferObserver.is_finished]

/-- the notifier's `next`: flush what has been collected (nothing when empty), keep the cell -/
theorem tie_Notifier_next (g : NotifierObserver) (u : Unit) :
    NotifierObserver.next g u =
      some (g.map (fun b => { b with data := [] }),
            match g with | some b => evs (St2.flush b.data) | none => []) := by
  rcases g with _ | ⟨o, d⟩
  · rs_simp [NotifierObserver.next]
  · cases d <;> rs_simp [NotifierObserver.next, BufferObserver.emit, St2.flush, evs]

theorem tie_Notifier_error (g : NotifierObserver) (e : Err) :
    NotifierObserver.error g e = SlotBufferObserver.error g e := by
  rcases g with _ | ⟨o, d⟩ <;> rs_simp [NotifierObserver.error, SlotBufferObserver.error, BufferObserver.error]

theorem tie_Notifier_complete (g : NotifierObserver) :
    NotifierObserver.complete g = SlotBufferObserver.complete g := by
  rcases g with _ | ⟨o, d⟩
  · rs_simp [NotifierObserver.complete, SlotBufferObserver.complete]
  · cases d <;> rs_simp [NotifierObserver.complete, SlotBufferObserver.complete, BufferObserver.complete, BufferObserver.emit]

theorem tie_Notifier_finished (g : NotifierObserver) (down : Bool) :
    NotifierObserver.is_finished g down = SlotBufferObserver.is_finished g down := rfl

/-- `emit_buffer`: a finished cell stops the repeating task; otherwise flush and go on -/
theorem tie_emit_buffer (g : SlotBufferObserver) (down : Bool) :
    SlotBufferObserver.tick_emit_buffer g down =
      match g with
      | none => some (none, [], false)
      | some b =>
          if down then some (some b, [], false)
          else some (some { b with data := [] }, evs (St2.flush b.data), true) := by
  rcases g with _ | ⟨o, d⟩
  · rs_simp [SlotBufferObserver.tick_emit_buffer, SlotBufferObserver.is_finished]
  · cases down <;> cases d <;>
      rs_simp [SlotBufferObserver.tick_emit_buffer, SlotBufferObserver.is_finished, BufferObserver.is_finished,
        BufferObserver.emit, St2.flush, evs]

/-! ### closed forms: the cell over `BufferWithCountObserver` -/

theorem tie_SlotCount_next (g : SlotBufferWithCountObserver) (v : Val) :
    SlotBufferWithCountObserver.next g v =
      match g with
      | none => some (none, [])
      | some b =>
          if b.count ≤ (b.buffer.data ++ [v]).length then
            some (some { b with buffer := { b.buffer with data := [] } }, evs (St2.flush (b.buffer.data ++ [v])))
          else some (some { b with buffer := { b.buffer with data := b.buffer.data ++ [v] } }, []) := by
  rcases g with _ | ⟨⟨o, d⟩, c⟩
  · rs_simp [SlotBufferWithCountObserver.next]
  · by_cases h : c ≤ (d ++ [v]).length
    · have h' : c ≤ d.length + 1 := by simpa using h
      rs_simp [SlotBufferWithCountObserver.next, BufferWithCountObserver.next, BufferObserver.next, BufferObserver.emit,
        St2.flush, evs, h']
    · have h' : ¬ c ≤ d.length + 1 := by simpa using h
      rs_simp [SlotBufferWithCountObserver.next, BufferWithCountObserver.next, BufferObserver.next, BufferObserver.emit,
        St2.flush, evs, h']

theorem tie_SlotCount_error (g : SlotBufferWithCountObserver) (e : Err) :
    SlotBufferWithCountObserver.error g e =
      some (none, match g with | some _ => [Rs.Ev.n (Notif.error e)] | none => []) := by
  rcases g with _ | ⟨⟨o, d⟩, c⟩ <;>
    rs_simp [SlotBufferWithCountObserver.error, BufferWithCountObserver.error, BufferObserver.error]

theorem tie_SlotCount_complete (g : SlotBufferWithCountObserver) :
    SlotBufferWithCountObserver.complete g =
      some (none, match g with | some b => evs (St2.flush b.buffer.data ++ [Notif.complete]) | none => []) := by
  rcases g with _ | ⟨⟨o, d⟩, c⟩
  · rs_simp [SlotBufferWithCountObserver.complete]
  · cases d <;>
      rs_simp [SlotBufferWithCountObserver.complete, BufferWithCountObserver.complete, BufferObserver.complete,
        BufferObserver.emit, St2.flush, evs]

theorem tie_SlotCount_finished (g : SlotBufferWithCountObserver) (down : Bool) :
    SlotBufferWithCountObserver.is_finished g down = (match g with | some _ => down | none => true) := by
  rcases g with _ | ⟨⟨o, d⟩, c⟩ <;>
    rs_simp [SlotBufferWithCountObserver.is_finished, BufferWithCountObserver.is_finished, BufferObserver.is_finished]

theorem tie_emit_count_buffer (g : SlotBufferWithCountObserver) (down : Bool) :
    SlotBufferWithCountObserver.tick_emit_count_buffer g down =
      match g with
      | none => some (none, [], false)
      | some b =>
          if down then some (some b, [], false)
          else some (some { b with buffer := { b.buffer with data := [] } }, evs (St2.flush b.buffer.data), true) := by
  rcases g with _ | ⟨⟨o, d⟩, c⟩
  · rs_simp [SlotBufferWithCountObserver.tick_emit_count_buffer, SlotBufferWithCountObserver.is_finished]
  · cases down <;> cases d <;>
      rs_simp [SlotBufferWithCountObserver.tick_emit_count_buffer, SlotBufferWithCountObserver.is_finished,
        BufferWithCountObserver.is_finished, BufferObserver.is_finished, BufferObserver.emit, St2.flush, evs]

/-! ### forward simulation: `buffer(notifier)` is the `St2.buffer` cell -/

/-- the cell read as the two-input model state -/
def RBuf (g : SlotBufferObserver) (m : St2) : Prop :=
  match g with
  | some b => m = .buffer true b.data
  | none => ∃ d, m = .buffer false d

theorem sim_Buffer_source (g : SlotBufferObserver) (m : St2) (h : RBuf g m) (n : Notif) :
    ∃ g' out,
      (match n with
        | .next v => SlotBufferObserver.next g v
        | .error e => SlotBufferObserver.error g e
        | .complete => SlotBufferObserver.complete g) = some (g', out) ∧
      out = evs (St2.step m .a n).2 ∧ RBuf g' (St2.step m .a n).1 := by
  rcases g with _ | ⟨o, d⟩
  · obtain ⟨d, rfl⟩ := h
    cases n <;> simp only [tie_SlotBuffer_next, tie_SlotBuffer_error, tie_SlotBuffer_complete] <;>
      refine ⟨_, _, rfl, ?_, ?_⟩ <;> simp [St2.step, St2.guard, RBuf, evs]
  · simp only [RBuf] at h; subst h
    cases n <;> simp only [tie_SlotBuffer_next, tie_SlotBuffer_error, tie_SlotBuffer_complete] <;>
      refine ⟨_, _, rfl, ?_, ?_⟩ <;> simp [St2.step, St2.guard, RBuf, evs]

theorem sim_Buffer_notifier (g : NotifierObserver) (m : St2) (h : RBuf g m) (n : Notif) :
    ∃ g' out,
      (match n with
        | .next _ => NotifierObserver.next g ()
        | .error e => NotifierObserver.error g e
        | .complete => NotifierObserver.complete g) = some (g', out) ∧
      out = evs (St2.step m .b n).2 ∧ RBuf g' (St2.step m .b n).1 := by
  rcases g with _ | ⟨o, d⟩
  · obtain ⟨d, rfl⟩ := h
    cases n <;> simp only [tie_Notifier_next, tie_Notifier_error, tie_Notifier_complete, tie_SlotBuffer_error,
        tie_SlotBuffer_complete] <;>
      refine ⟨_, _, rfl, ?_, ?_⟩ <;> simp [St2.step, St2.guard, RBuf, evs]
  · simp only [RBuf] at h; subst h
    cases n <;> simp only [tie_Notifier_next, tie_Notifier_error, tie_Notifier_complete, tie_SlotBuffer_error,
        tie_SlotBuffer_complete] <;>
      refine ⟨_, _, rfl, ?_, ?_⟩ <;> simp [St2.step, St2.guard, RBuf, evs]

/-- `is_finished` of either side = `St2.finished` of the cell -/
theorem sim_Buffer_finished (g : SlotBufferObserver) (m : St2) (h : RBuf g m) (down : Bool) (sd : Side) :
    SlotBufferObserver.is_finished g down = m.finished sd down := by
  rcases g with _ | ⟨o, d⟩
  · obtain ⟨d, rfl⟩ := h; cases sd <;> simp [tie_SlotBuffer_finished, St2.finished, St2.alive]
  · simp only [RBuf] at h; subst h; cases sd <;> simp [tie_SlotBuffer_finished, St2.finished, St2.alive]

theorem sim_Buffer_init : RBuf (some { observer := Rs.Obs.mk, data := [] }) (Kind2.init .buffer) := by
  simp [RBuf, Kind2.init]

/-! ### forward simulation: the timed buffers are the `bufTime` stage of the chain model -/

open Rx.T in
def RBufT (d : Nat) (task : Option TaskId) (g : SlotBufferObserver) (st : Stage) : Prop :=
  match g with
  | some b => st = .bufTime d none true b.data task
  | none => ∃ data, st = .bufTime d none false data task

open Rx.T in
theorem sim_BufTime (d : Nat) (task : Option TaskId) (g : SlotBufferObserver) (st : Stage) (h : RBufT d task g st)
    (j : Nat) (s : Sched) (n : Notif) :
    ∃ g' out,
      (match n with
        | .next v => SlotBufferObserver.next g v
        | .error e => SlotBufferObserver.error g e
        | .complete => SlotBufferObserver.complete g) = some (g', out) ∧
      out = evs (st.onNotif j n s).2.1 ∧ RBufT d task g' (st.onNotif j n s).1 ∧ (st.onNotif j n s).2.2 = s := by
  rcases g with _ | ⟨o, dt⟩
  · obtain ⟨data, rfl⟩ := h
    cases n <;> simp only [tie_SlotBuffer_next, tie_SlotBuffer_error, tie_SlotBuffer_complete] <;>
      refine ⟨_, _, rfl, ?_, ?_, ?_⟩ <;> simp [Stage.onNotif, RBufT, evs]
  · simp only [RBufT] at h; subst h
    cases n <;> simp only [tie_SlotBuffer_next, tie_SlotBuffer_error, tie_SlotBuffer_complete] <;>
      refine ⟨_, _, rfl, ?_, ?_, ?_⟩ <;> simp [Stage.onNotif, RBufT, evs, St2.flush, flushBuf]

open Rx.T in
def RBufCT (d c : Nat) (task : Option TaskId) (g : SlotBufferWithCountObserver) (st : Stage) : Prop :=
  match g with
  | some b => b.count = c ∧ st = .bufTime d (some c) true b.buffer.data task
  | none => ∃ data, st = .bufTime d (some c) false data task

open Rx.T in
theorem sim_BufCountTime (d c : Nat) (task : Option TaskId) (g : SlotBufferWithCountObserver) (st : Stage)
    (h : RBufCT d c task g st) (j : Nat) (s : Sched) (n : Notif) :
    ∃ g' out,
      (match n with
        | .next v => SlotBufferWithCountObserver.next g v
        | .error e => SlotBufferWithCountObserver.error g e
        | .complete => SlotBufferWithCountObserver.complete g) = some (g', out) ∧
      out = evs (st.onNotif j n s).2.1 ∧ RBufCT d c task g' (st.onNotif j n s).1 ∧ (st.onNotif j n s).2.2 = s := by
  rcases g with _ | ⟨⟨o, dt⟩, cc⟩
  · obtain ⟨data, rfl⟩ := h
    cases n <;> simp only [tie_SlotCount_next, tie_SlotCount_error, tie_SlotCount_complete] <;>
      refine ⟨_, _, rfl, ?_, ?_, ?_⟩ <;> simp [Stage.onNotif, RBufCT, evs]
  · simp only [RBufCT] at h; obtain ⟨rfl, rfl⟩ := h
    cases n with
    | next v =>
      by_cases hc : cc ≤ (dt ++ [v]).length
      · simp only [tie_SlotCount_next, hc, if_true]
        have hc' : cc ≤ dt.length + 1 := by simpa using hc
        refine ⟨_, _, rfl, ?_, ?_, ?_⟩ <;> simp [Stage.onNotif, RBufCT, evs, St2.flush, flushBuf, hc']
      · simp only [tie_SlotCount_next, hc, if_false]
        have hc' : ¬ cc ≤ dt.length + 1 := by simpa using hc
        refine ⟨_, _, rfl, ?_, ?_, ?_⟩ <;> simp [Stage.onNotif, RBufCT, evs, St2.flush, flushBuf, hc']
    | error e =>
      simp only [tie_SlotCount_error]
      refine ⟨_, _, rfl, ?_, ?_, ?_⟩ <;> simp [Stage.onNotif, RBufCT, evs]
    | complete =>
      simp only [tie_SlotCount_complete]
      refine ⟨_, _, rfl, ?_, ?_, ?_⟩ <;> simp [Stage.onNotif, RBufCT, evs, St2.flush, flushBuf]

/-- the tick of `buffer_with_time` is the `bufTick` clause of `runTick`: stop iff the cell or what is below it
    has finished; otherwise flush (same notifications, data emptied) and keep repeating -/
theorem sim_emit_buffer (g : SlotBufferObserver) (alive : Bool) (data : List Val) (down : Bool)
    (h : match g with | some b => alive = true ∧ data = b.data | none => alive = false) :
    ∃ g' out,
      SlotBufferObserver.tick_emit_buffer g down = some (g', out, !(!alive || down)) ∧
      out = (if !alive || down then [] else evs (T.flushBuf data)) ∧
      (match g' with
        | some b' => alive = true ∧ b'.data = (if !alive || down then data else [])
        | none => alive = false) := by
  rcases g with _ | ⟨o, dt⟩
  · subst h; simp only [tie_emit_buffer]; refine ⟨_, _, rfl, ?_, ?_⟩ <;> simp
  · obtain ⟨rfl, rfl⟩ := h
    cases down <;> simp only [tie_emit_buffer] <;> refine ⟨_, _, rfl, ?_, ?_⟩ <;> simp [evs, St2.flush, T.flushBuf]

theorem sim_emit_count_buffer (g : SlotBufferWithCountObserver) (alive : Bool) (data : List Val) (down : Bool)
    (h : match g with | some b => alive = true ∧ data = b.buffer.data | none => alive = false) :
    ∃ g' out,
      SlotBufferWithCountObserver.tick_emit_count_buffer g down = some (g', out, !(!alive || down)) ∧
      out = (if !alive || down then [] else evs (T.flushBuf data)) ∧
      (match g' with
        | some b' => alive = true ∧ b'.buffer.data = (if !alive || down then data else [])
        | none => alive = false) := by
  rcases g with _ | ⟨⟨o, dt⟩, c⟩
  · subst h; simp only [tie_emit_count_buffer]; refine ⟨_, _, rfl, ?_, ?_⟩ <;> simp
  · obtain ⟨rfl, rfl⟩ := h
    cases down <;> simp only [tie_emit_count_buffer] <;> refine ⟨_, _, rfl, ?_, ?_⟩ <;> simp [evs, St2.flush, T.flushBuf]

end Rx.GenTie
