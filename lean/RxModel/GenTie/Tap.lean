import RxModel.Gen.Tap
import RxModel.GenTie.Tactics
/-! Tie: `TapObserver` generated from `/repo/src` IS the `St1` machine of the hand-written model. -/
namespace Rx.GenTie
open Rx Rx.Gen.Tap

/-- a Rust state read as a model state -/
def absTap (g : TapObserver) : St1 := .tap g.func

theorem tie_Tap_next (g : TapObserver) (v : Val) :
    (TapObserver.next g v).map (fun r => (absTap r.1, r.2)) = some (Rs.lift (St1.onNext (absTap g) v)) := by
  rcases g with ⟨⟩ <;> rs_tie [TapObserver.next, absTap, St1.onNext]

theorem tie_Tap_error (g : TapObserver) (e : Err) :
    (TapObserver.error g e).map (fun r => r.2) = some ((St1.onError' (absTap g) e).2.map Rs.Ev.n) := by
  rcases g with ⟨⟩ <;> rs_tie [TapObserver.error, absTap, St1.onError']

theorem tie_Tap_complete (g : TapObserver) :
    (TapObserver.complete g).map (fun r => r.2) = some ((St1.onComplete' (absTap g)).2.map Rs.Ev.n) := by
  rcases g with ⟨⟩ <;> rs_tie [TapObserver.complete, absTap, St1.onComplete']


theorem tie_Tap_init  :
    absTap (TapObserver.init 0) = Spec.Op1.init (.tap) := by
  rs_simp [TapObserver.init, absTap, Spec.Op1.init]

end Rx.GenTie
