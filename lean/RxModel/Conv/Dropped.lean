import RxModel.Conv.Convert
/-
  C14, robustness corner — the consumer of a conversion is DROPPED while the source is still
  running: `let f = subject.to_future(); drop(f); subject.complete()`.

  Dropping an `ObservableFuture` / `ObservableStream` drops its `UnboundedReceiver`
  (futures-channel 0.3, `impl Drop for UnboundedReceiver`): `close()` = `set_closed`, then the
  queue is drained and `inner` released.  The registered waker is NOT cleared.  From then on
  `UnboundedSender::unbounded_send` answers `Err(Disconnected)` and `is_closed()` = true, so the
  observer reports `is_finished()`.

  Since `fix: Subject::error/complete hand the terminal to every subscriber` the source subject
  still calls such an observer with its terminal; since `fix: a dropped future/stream cannot make
  a terminal panic` the terminal paths of the two observers ignore the failed send
  (`Chan.trySend`).  The `next` path of `to_stream` still `expect`s the send (`Chan.send`,
  `sendFailed` = the panic): a dropped stream whose source goes on emitting ITEMS panics, before
  and after both fixes — recorded here, not part of the property.

  Suite `convert`, event `drop` (kinds future / collectfuture / stream; for kind status the
  harness has nothing to drop: no-op).  After `drop` nothing is polled any more (`poll` → `na`).
-/
namespace Rx.Conv

/-- `impl Drop for UnboundedReceiver`. -/
def Chan.dropRx {α : Type} (c : Chan α) : Chan α :=
  { c with isOpen := false, rxInner := false, queue := [] }

/-- Events of suite `convert` with the consumer's drop. -/
inductive DEv where
  | ev (e : Ev)
  | drop
  deriving DecidableEq, Repr, Inhabited

/-- A conversion world together with "the consumer has been dropped". -/
structure DW (σ : Type) where
  w : σ
  dropped : Bool := false

/-- What one event prints: `some o` = the line of the underlying world, `none` = `dropped` / `na`. -/
def dstep {σ ω : Type} (step : σ → Ev → σ × ω) (dropFn : σ → σ) (d : DW σ) : DEv → DW σ × Option ω
  | .drop => if d.dropped then (d, none) else ({ w := dropFn d.w, dropped := true }, none)
  | .ev .poll =>
    if d.dropped then (d, none)
    else let (w', o) := step d.w .poll; ({ d with w := w' }, some o)
  | .ev e => let (w', o) := step d.w e; ({ d with w := w' }, some o)

def FutW.dropFn (w : FutW) : FutW := { w with chan := w.chan.dropRx }
def CFW.dropFn (w : CFW) : CFW := { w with chan := w.chan.dropRx }
def StrW.dropFn (w : StrW) : StrW := { w with chan := w.chan.dropRx }

def futDStep (m : Model) : DW FutW → DEv → DW FutW × Option FOut := dstep (FutW.step m) FutW.dropFn
def cfDStep (m : Model) : DW CFW → DEv → DW CFW × Option FOut := dstep (CFW.step m) CFW.dropFn
def strDStep (m : Model) : DW StrW → DEv → DW StrW × Option SOut := dstep (StrW.step m) StrW.dropFn
/-- kind status: the harness holds an `Arc<CompleteStatus>`, there is no consumer to drop. -/
def statDStep : DW StatW → DEv → DW StatW × Option StOut
  | d, .drop => (d, none)
  | d, .ev e => let (w', o) := StatW.step d.w e; ({ d with w := w' }, some o)

def runD {σ ω : Type} (step : DW σ → DEv → DW σ × Option ω) : DW σ → List DEv → DW σ × List (Option ω) :=
  runM step

/-! ### no terminal send can fail (panic) any more; `to_future` never sends in `next` -/

namespace Chan
variable {α : Type}

@[simp] theorem wake_sendFailed (c : Chan α) : c.wake.sendFailed = c.sendFailed := by
  unfold wake; split <;> rfl
@[simp] theorem trySend_sendFailed (c : Chan α) (m : α) : (c.trySend m).sendFailed = c.sendFailed := by
  unfold trySend; split <;> simp
@[simp] theorem closeTx_sendFailed (c : Chan α) : c.closeTx.sendFailed = c.sendFailed := by
  simp [closeTx]
@[simp] theorem closeRx_sendFailed (c : Chan α) : c.closeRx.sendFailed = c.sendFailed := by
  unfold closeRx; split <;> rfl
@[simp] theorem dropRx_sendFailed (c : Chan α) : c.dropRx.sendFailed = c.sendFailed := rfl

theorem nextMessage_sendFailed (c : Chan α) : c.nextMessage.1.sendFailed = c.sendFailed := by
  unfold nextMessage
  split
  · split
    · rfl
    · split <;> rfl
  · rfl

theorem pollNext_sendFailed (c : Chan α) : c.pollNext.1.sendFailed = c.sendFailed := by
  unfold pollNext
  have h1 := nextMessage_sendFailed c
  have h2 := nextMessage_sendFailed ({ c.nextMessage.1 with parked := true } : Chan α)
  split
  · rename_i c1 m h; rw [h] at h1; exact h1
  · rename_i c1 h; rw [h] at h1; exact h1
  · rename_i c1 h
    rw [h] at h1 h2
    simp only at h1 h2 ⊢
    rw [h2, h1]

end Chan

theorem futError_sendFailed (m : Model) (last : Option FMsg) (e : Err) (c : Chan FMsg) :
    (futError m last e c).sendFailed = c.sendFailed := by
  cases m <;> simp [futError, futComplete]

theorem FutW.step_sendFailed (m : Model) (w : FutW) (e : Ev) :
    ((FutW.step m w e).1).chan.sendFailed = w.chan.sendFailed := by
  cases e with
  | emit n =>
    cases n with
    | next v =>
      simp only [FutW.step, FutW.emit]
      split
      · split <;> rfl
      · rfl
    | error er =>
      simp only [FutW.step, FutW.emit]
      split
      · split
        · simp [futError_sendFailed]
        · rfl
      · rfl
    | complete =>
      simp only [FutW.step, FutW.emit]
      split
      · split
        · simp [futComplete]
        · rfl
      · rfl
  | poll =>
    simp only [FutW.step, futPoll]
    have := Chan.pollNext_sendFailed w.chan
    split <;> simp_all
  | qStatus => rfl

theorem CFW.step_sendFailed (m : Model) (w : CFW) (e : Ev) :
    ((CFW.step m w e).1).chan.sendFailed = w.chan.sendFailed := by
  cases e with
  | emit n =>
    cases n with
    | next v =>
      simp only [CFW.step, CFW.emit]
      split
      · split <;> rfl
      · rfl
    | error er =>
      simp only [CFW.step, CFW.emit]
      split
      · split
        · simp [futError_sendFailed]
        · rfl
      · rfl
    | complete =>
      simp only [CFW.step, CFW.emit]
      split
      · split
        · simp [futComplete]
        · rfl
      · rfl
  | poll =>
    simp only [CFW.step, futPoll]
    have := Chan.pollNext_sendFailed w.chan
    split <;> simp_all
  | qStatus => rfl

/-- `to_stream`: a TERMINAL of the source never makes a send fail; neither does a poll. -/
theorem StrW.step_sendFailed (m : Model) (w : StrW) (e : Ev) (he : ∀ v, e ≠ .emit (.next v)) :
    ((StrW.step m w e).1).chan.sendFailed = w.chan.sendFailed := by
  cases e with
  | emit n =>
    cases n with
    | next v => exact absurd rfl (he v)
    | error er =>
      simp only [StrW.step, StrW.emit]
      split
      · split
        · simp
        · rfl
      · rfl
    | complete =>
      simp only [StrW.step, StrW.emit]
      split
      · split
        · simp
        · rfl
      · rfl
  | poll =>
    simp only [StrW.step, strPoll]
    have := Chan.pollNext_sendFailed w.chan
    split <;> simp_all
  | qStatus => rfl

end Rx.Conv
