import RxModel.Conv.Convert
/-
  Reference ("documented") semantics of the conversions of C14, written from the
  doc comments of `to_future`, `to_stream`, `collect`, `complete_status`
  (src/observable.rs) and the property text — NOT from the observers.

  A reference machine sees the same events as the model: calls on the hot source
  and polls.  It keeps the *history* of the source (items, first terminal) and
  answers polls from it.  DECISIONS are marked.
-/
namespace Rx.Conv.Ref

/-- What a hot source has delivered: items, then the first terminal (`error`/`complete`). -/
structure Hist where
  items : List Val := []
  term : Option Notif := none
  deriving DecidableEq, Repr

/-- The source is called with `n`; a terminated source delivers nothing any more. -/
def Hist.push (h : Hist) (n : Notif) : Hist :=
  match h.term with
  | some _ => h
  | none =>
    match n with
    | .next v => { h with items := h.items ++ [v] }
    | t => { h with term := some t }

/-- The history after a list of events. -/
def hist : Hist → List Ev → Hist
  | h, [] => h
  | h, .emit n :: r => hist (h.push n) r
  | h, _ :: r => hist h r

/-- `to_future`: "resolves to the single item; `Empty` if the observable emitted no
    values; `MultipleValues` if it emitted more than one"; a source error resolves to
    that error.  DECISION (DESIGN §7): items followed by an error count as more than
    one value (what the code's bookkeeping does; the docs are silent). -/
def futureResult (xs : List Val) : Notif → FMsg
  | .error e => match xs with | [] => .err e | _ => .multiple
  | _ => match xs with | [] => .empty | [v] => .ok v | _ => .multiple

/-- `collect().to_future()`: all items as one collection; an error alone. -/
def collectResult (xs : List Val) : Notif → FMsg
  | .error e => .err e
  | _ => .ok (Val.ofList xs)

/-- Ghost-free view of an output: how often the waker fired is not part of the reference. -/
def fobs : FOut → FOut
  | .woke _ => .woke 0
  | o => o

def sobs : SOut → SOut
  | .woke _ => .woke 0
  | o => o

/-! ### future (and collect + future): Pending until the source terminates, then Ready once -/
structure FutS where
  h : Hist := {}
  /-- the result has been handed out (polling a resolved future again is outside the contract: Pending) -/
  delivered : Bool := false
  deriving DecidableEq, Repr

def futStep (result : List Val → Notif → FMsg) (s : FutS) : Ev → FutS × FOut
  | .emit n => ({ s with h := s.h.push n }, .woke 0)
  | .poll =>
    match s.h.term with
    | some t => if s.delivered then (s, .pending) else ({ s with delivered := true }, .ready (result s.h.items t))
    | none => (s, .pending)
  | .qStatus => (s, .na)

def futRun (result : List Val → Notif → FMsg) : FutS → List Ev → FutS × List FOut := runM (futStep result)

/-! ### stream: a FIFO of results — each item, the error, then the end marker -/
structure StrS where
  /-- items (and the error) not yet yielded, in order -/
  front : List SItem := []
  /-- the end marker `None` is due after `front` -/
  fin : Bool := false
  term : Option Notif := none
  /-- `None` has been yielded -/
  ended : Bool := false
  deriving DecidableEq, Repr

/-- Polling a stream again after it returned `None` is outside the `Stream` contract;
    the reference follows the transcription there (code: Pending, repaired: `None` again). -/
def afterEnd : Model → SOut
  | .code => .pending
  | .fixed => .yield none

def strStep (m : Model) (s : StrS) : Ev → StrS × SOut
  | .emit n =>
    match s.term with
    | some _ => (s, .woke 0)
    | none =>
      match n with
      | .next v => ({ s with front := s.front ++ [.ok v] }, .woke 0)
      | .error e => ({ s with front := s.front ++ [.err e], fin := true, term := some (.error e) }, .woke 0)
      | .complete => ({ s with fin := true, term := some .complete }, .woke 0)
  | .poll =>
    match s.front with
    | x :: r => ({ s with front := r }, .yield (some x))
    | [] =>
      if s.fin then ({ s with fin := false, ended := true }, .yield none)
      else if s.ended then (s, afterEnd m) else (s, .pending)
  | .qStatus => (s, .na)

def strRun (m : Model) : StrS → List Ev → StrS × List SOut := runM (strStep m)

/-! ### complete_status: downstream unchanged; flag and waiter follow the terminal -/
def statFlag : Option Notif → Int
  | none => 0
  | some (.error _) => -1
  | some _ => 1

def statStep (h : Hist) : Ev → Hist × StOut
  | .emit n => (h.push n, .out (match h.term with | some _ => [] | none => [n]))
  | .poll => (h, if h.term.isSome then .ready else .pending)
  | .qStatus =>
    (h, .status h.term.isSome (h.term == some .complete)
          (match h.term with | some (.error _) => true | _ => false))

def statRun : Hist → List Ev → Hist × List StOut := runM statStep

end Rx.Conv.Ref
