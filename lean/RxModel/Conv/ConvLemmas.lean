import RxModel.Conv.ConvSpec
/-
  Helper lemmas for C14: generic run/simulation lemmas and the simulation
  relations between the transcribed conversions and their reference machines.
-/
namespace Rx.Conv
open Ref

/-! ## generic -/

theorem runM_snoc {σ ε ω : Type} (step : σ → ε → σ × ω) (s : σ) (es : List ε) (e : ε) :
    runM step s (es ++ [e]) =
      ((step (runM step s es).1 e).1, (runM step s es).2 ++ [(step (runM step s es).1 e).2]) := by
  rw [runM_append]; simp [runM]

/-- An invariant of (state, outputs so far). -/
theorem runM_invariant {σ ε ω : Type} (step : σ → ε → σ × ω) (P : σ → List ω → Prop)
    (hs : ∀ s os e, P s os → P (step s e).1 (os ++ [(step s e).2])) :
    ∀ (es : List ε) (s : σ) (os : List ω), P s os →
      P (runM step s es).1 (os ++ (runM step s es).2) := by
  intro es
  induction es with
  | nil => intro s os h; simpa [runM] using h
  | cons e r ih =>
    intro s os h
    have := ih (step s e).1 (os ++ [(step s e).2]) (hs s os e h)
    simpa [runM, List.append_assoc] using this

/-- Lock-step simulation: related states stay related and print the same (after projection),
    along every event list all of whose events are `ok`. -/
theorem runM_sim {σ τ ε ω ω' : Type} (stepC : σ → ε → σ × ω) (stepA : τ → ε → τ × ω)
    (R : σ → τ → Prop) (f : ω → ω') (ok : ε → Prop)
    (hstep : ∀ c a e, ok e → R c a →
      R (stepC c e).1 (stepA a e).1 ∧ f (stepC c e).2 = f (stepA a e).2) :
    ∀ (es : List ε) (c : σ) (a : τ), (∀ e ∈ es, ok e) → R c a →
      R (runM stepC c es).1 (runM stepA a es).1 ∧
        (runM stepC c es).2.map f = (runM stepA a es).2.map f := by
  intro es
  induction es with
  | nil => intro c a _ h; exact ⟨by simpa [runM] using h, by simp [runM]⟩
  | cons e r ih =>
    intro c a hok h
    have h1 := hstep c a e (hok e (by simp)) h
    have h2 := ih (stepC c e).1 (stepA a e).1 (fun e' he' => hok e' (by simp [he'])) h1.1
    exact ⟨by simpa [runM] using h2.1, by simp [runM, h1.2, h2.2]⟩

/-! ## to_future -/

/-- `last_value` as a function of the items seen so far. -/
def lvOf : List Val → Option FMsg
  | [] => none
  | [v] => some (.ok v)
  | _ => some .multiple

theorem lvOf_snoc (xs : List Val) (v : Val) :
    lvOf (xs ++ [v]) = sendObservableValue (lvOf xs) (.ok v) := by
  match xs with
  | [] => rfl
  | [a] => rfl
  | a :: b :: r => simp [lvOf, sendObservableValue]

theorem lvOf_complete (xs : List Val) : (lvOf xs).getD .empty = futureResult xs .complete := by
  match xs with
  | [] => rfl
  | [a] => rfl
  | a :: b :: r => simp [lvOf, futureResult]

theorem lvOf_error (xs : List Val) (e : Err) :
    (sendObservableValue (lvOf xs) (.err e)).getD .empty = futureResult xs (.error e) := by
  match xs with
  | [] => rfl
  | [a] => rfl
  | a :: b :: r => simp [lvOf, futureResult, sendObservableValue]

/-- Events on which the code as it is agrees with the reference: everything but a source error. -/
def okEv (m : Model) : Ev → Prop
  | .emit (.error _) => m = .fixed
  | _ => True

/-- to_future: model state ↔ reference state. -/
def FutR (w : FutW) (s : FutS) : Prop :=
  match s.h.term with
  | none =>
    w.srcOpen = true ∧ w.obs = some (lvOf s.h.items) ∧ w.chan.queue = [] ∧ w.chan.isOpen = true ∧
      w.chan.rxInner = true ∧ s.delivered = false
  | some t =>
    w.srcOpen = false ∧ w.chan.isOpen = false ∧
      (if s.delivered then w.chan.queue = []
       else w.chan.queue = [futureResult s.h.items t] ∧ w.chan.rxInner = true)

theorem fut_step (m : Model) (w : FutW) (s : FutS) (e : Ev) (hok : okEv m e) (h : FutR w s) :
    FutR (FutW.step m w e).1 (futStep futureResult s e).1 ∧
      fobs (FutW.step m w e).2 = fobs (futStep futureResult s e).2 := by
  obtain ⟨so, ob, ⟨q, io, rx, pk, wk, sf⟩⟩ := w
  obtain ⟨⟨xs, t⟩, d⟩ := s
  cases t with
  | none =>
    simp only [FutR] at h
    obtain ⟨h1, h2, h3, h4, h5, h6⟩ := h
    subst h1 h2 h3 h4 h5 h6
    cases e with
    | emit n =>
      cases n with
      | next v =>
        simp [FutW.step, FutW.emit, futStep, Hist.push, FutR, fobs, lvOf_snoc]
      | error e =>
        cases m with
        | code => simp [okEv] at hok
        | fixed =>
          simp [FutW.step, FutW.emit, futStep, Hist.push, FutR, fobs, futError, futComplete,
            Chan.trySend, Chan.closeTx, Chan.wake, lvOf_error]
          cases pk <;> simp
      | complete =>
        simp [FutW.step, FutW.emit, futStep, Hist.push, FutR, fobs, futComplete,
            Chan.trySend, Chan.closeTx, Chan.wake]
        cases pk <;> simp [lvOf_complete]
    | poll =>
      simp [FutW.step, futPoll, Chan.pollNext, Chan.nextMessage, futStep, FutR, fobs]
    | qStatus => simp [FutW.step, futStep, FutR, fobs]
  | some t =>
    simp only [FutR] at h
    obtain ⟨h1, h2, h3⟩ := h
    subst h1 h2
    cases e with
    | emit n =>
      cases n <;> simp [FutW.step, FutW.emit, futStep, Hist.push, FutR, fobs, h3]
    | poll =>
      cases d with
      | true =>
        simp at h3; subst h3
        cases rx <;> simp [FutW.step, futPoll, Chan.pollNext, Chan.nextMessage, futStep, FutR, fobs]
      | false =>
        simp at h3; obtain ⟨h3, h4⟩ := h3; subst h3 h4
        simp [FutW.step, futPoll, Chan.pollNext, Chan.nextMessage, futStep, FutR, fobs]
    | qStatus => simp [FutW.step, futStep, FutR, fobs]; exact h3

/-- collect + to_future: model state ↔ reference state. -/
def CFR (w : CFW) (s : FutS) : Prop :=
  match s.h.term with
  | none =>
    w.srcOpen = true ∧ w.obs = some (s.h.items, none) ∧ w.chan.queue = [] ∧ w.chan.isOpen = true ∧
      w.chan.rxInner = true ∧ s.delivered = false
  | some t =>
    w.srcOpen = false ∧ w.chan.isOpen = false ∧
      (if s.delivered then w.chan.queue = []
       else w.chan.queue = [collectResult s.h.items t] ∧ w.chan.rxInner = true)

theorem cf_step (m : Model) (w : CFW) (s : FutS) (e : Ev) (hok : okEv m e) (h : CFR w s) :
    CFR (CFW.step m w e).1 (futStep collectResult s e).1 ∧
      fobs (CFW.step m w e).2 = fobs (futStep collectResult s e).2 := by
  obtain ⟨so, ob, ⟨q, io, rx, pk, wk, sf⟩⟩ := w
  obtain ⟨⟨xs, t⟩, d⟩ := s
  cases t with
  | none =>
    simp only [CFR] at h
    obtain ⟨h1, h2, h3, h4, h5, h6⟩ := h
    subst h1 h2 h3 h4 h5 h6
    cases e with
    | emit n =>
      cases n with
      | next v =>
        simp [CFW.step, CFW.emit, futStep, Hist.push, CFR, fobs]
      | error e =>
        cases m with
        | code => simp [okEv] at hok
        | fixed =>
          simp [CFW.step, CFW.emit, futStep, Hist.push, CFR, fobs, futError, futComplete,
            Chan.trySend, Chan.closeTx, Chan.wake]
          cases pk <;> simp [collectResult, sendObservableValue]
      | complete =>
        simp [CFW.step, CFW.emit, futStep, Hist.push, CFR, fobs, futComplete,
            Chan.trySend, Chan.closeTx, Chan.wake]
        cases pk <;> simp [collectResult, sendObservableValue]
    | poll =>
      simp [CFW.step, futPoll, Chan.pollNext, Chan.nextMessage, futStep, CFR, fobs]
    | qStatus => simp [CFW.step, futStep, CFR, fobs]
  | some t =>
    simp only [CFR] at h
    obtain ⟨h1, h2, h3⟩ := h
    subst h1 h2
    cases e with
    | emit n =>
      cases n <;> simp [CFW.step, CFW.emit, futStep, Hist.push, CFR, fobs, h3]
    | poll =>
      cases d with
      | true =>
        simp at h3; subst h3
        cases rx <;> simp [CFW.step, futPoll, Chan.pollNext, Chan.nextMessage, futStep, CFR, fobs]
      | false =>
        simp at h3; obtain ⟨h3, h4⟩ := h3; subst h3 h4
        simp [CFW.step, futPoll, Chan.pollNext, Chan.nextMessage, futStep, CFR, fobs]
    | qStatus => simp [CFW.step, futStep, CFR, fobs]; exact h3

/-! ## to_stream -/

/-- to_stream: model state ↔ reference state. -/
def StrR (m : Model) (w : StrW) (s : StrS) : Prop :=
  (m = .code → ∀ e, s.term ≠ some (.error e)) ∧
  match s.term with
  | none =>
    w.srcOpen = true ∧ w.obs = true ∧ w.chan.isOpen = true ∧ w.chan.rxInner = true ∧
      w.chan.queue = s.front.map SMsg.item ∧ s.fin = false ∧ s.ended = false
  | some t =>
    w.srcOpen = false ∧ w.chan.isOpen = false ∧
      (if s.ended then w.chan.queue = [] ∧ s.front = [] ∧ s.fin = false
       else w.chan.rxInner = true ∧ s.fin = true ∧
         w.chan.queue = s.front.map SMsg.item ++ (match t with | .error _ => [] | _ => [SMsg.complete]))

theorem str_step (m : Model) (w : StrW) (s : StrS) (e : Ev) (hok : okEv m e) (h : StrR m w s) :
    StrR m (StrW.step m w e).1 (strStep m s e).1 ∧
      sobs (StrW.step m w e).2 = sobs (strStep m s e).2 := by
  obtain ⟨so, ob, ⟨q, io, rx, pk, wk, sf⟩⟩ := w
  obtain ⟨fr, fin, t, en⟩ := s
  cases t with
  | none =>
    simp only [StrR] at h
    obtain ⟨h0, h1, h2, h3, h4, h5, h6, h7⟩ := h
    subst h1 h2 h3 h4 h5 h6 h7
    cases e with
    | emit n =>
      cases n with
      | next v =>
        simp [StrW.step, StrW.emit, strStep, StrR, sobs, Chan.send, Chan.wake]
        cases pk <;> simp
      | error e =>
        cases m with
        | code => simp [okEv] at hok
        | fixed =>
          simp [StrW.step, StrW.emit, strStep, StrR, sobs, Chan.trySend, Chan.wake, Chan.closeTx]
          cases pk <;> simp
      | complete =>
        simp [StrW.step, StrW.emit, strStep, StrR, sobs, Chan.trySend, Chan.wake, Chan.closeTx]
        cases pk <;> simp
    | poll =>
      cases fr with
      | nil => simp [StrW.step, strPoll, Chan.pollNext, Chan.nextMessage, strStep, StrR, sobs]
      | cons x r => simp [StrW.step, strPoll, Chan.pollNext, Chan.nextMessage, strStep, StrR, sobs]
    | qStatus => simp [StrW.step, strStep, StrR, sobs]
  | some t =>
    simp only [StrR] at h
    obtain ⟨h0, h1, h2, h3⟩ := h
    subst h1 h2
    have h0' : m = Model.code → ∀ (e : Err), ¬t = Notif.error e := by simpa using h0
    cases e with
    | emit n =>
      cases n <;> (simp [StrW.step, StrW.emit, strStep, StrR, sobs]; exact ⟨h0', h3⟩)
    | poll =>
      cases en with
      | true =>
        simp at h3; obtain ⟨h3, h4, h5⟩ := h3; subst h3 h4 h5
        cases rx <;> cases m <;>
          simp [StrW.step, strPoll, Chan.pollNext, Chan.nextMessage, strStep, StrR, sobs, afterEnd] <;>
          first | exact h0' | exact h0' rfl | skip
      | false =>
        simp at h3; obtain ⟨h3, h4, h5⟩ := h3; subst h3 h4 h5
        cases fr with
        | cons x r =>
          simp [StrW.step, strPoll, Chan.pollNext, Chan.nextMessage, strStep, StrR, sobs]
          exact h0'
        | nil =>
          cases t with
          | next v =>
            simp [StrW.step, strPoll, Chan.pollNext, Chan.nextMessage, strStep, StrR, sobs, Chan.closeRx]
          | complete =>
            simp [StrW.step, strPoll, Chan.pollNext, Chan.nextMessage, strStep, StrR, sobs, Chan.closeRx]
          | error e =>
            cases m with
            | code => exact absurd rfl (h0' rfl e)
            | fixed =>
              simp [StrW.step, strPoll, Chan.pollNext, Chan.nextMessage, strStep, StrR, sobs]
    | qStatus => simp [StrW.step, strStep, StrR, sobs]; exact ⟨h0', h3⟩

/-! ## complete_status -/

/-- The history never stores an item as its terminal. -/
def Ref.Hist.Valid (h : Hist) : Prop := ∀ v, h.term ≠ some (.next v)

theorem Ref.Hist.push_valid (h : Hist) (n : Notif) (hv : h.Valid) : (h.push n).Valid := by
  unfold Hist.push
  cases ht : h.term with
  | some t => simpa [Hist.Valid, ht] using hv
  | none => cases n <;> simp [Hist.Valid, ht]

def StatR (w : StatW) (h : Hist) : Prop :=
  h.Valid ∧ w.srcOpen = h.term.isNone ∧ w.obs = h.term.isNone ∧ w.flag = statFlag h.term

theorem stat_step (w : StatW) (h : Hist) (e : Ev) (hr : StatR w h) :
    StatR (StatW.step w e).1 (statStep h e).1 ∧ (StatW.step w e).2 = (statStep h e).2 := by
  obtain ⟨so, ob, fl, pk, wk⟩ := w
  obtain ⟨xs, t⟩ := h
  obtain ⟨hv, h1, h2, h3⟩ := hr
  simp only at h1 h2 h3
  subst h1 h2 h3
  cases t with
  | none =>
    cases e with
    | emit n =>
      cases n <;> cases pk <;>
        simp [StatW.step, StatW.emit, StatW.wake, statStep, Hist.push, StatR, statFlag, Hist.Valid]
    | poll => simp [StatW.step, StatW.isClosed, statStep, StatR, statFlag, Hist.Valid]
    | qStatus =>
      simp [StatW.step, StatW.isClosed, StatW.isCompleted, StatW.errorOccur, statStep, StatR, statFlag,
        Hist.Valid]
  | some t =>
    cases t with
    | next v => exact absurd rfl (hv v)
    | error x =>
      cases e with
      | emit n =>
        cases n <;> simp [StatW.step, StatW.emit, statStep, Hist.push, StatR, statFlag, Hist.Valid]
      | poll => simp [StatW.step, StatW.isClosed, statStep, StatR, statFlag, Hist.Valid]
      | qStatus =>
        simp [StatW.step, StatW.isClosed, StatW.isCompleted, StatW.errorOccur, statStep, StatR, statFlag,
          Hist.Valid]
    | complete =>
      cases e with
      | emit n =>
        cases n <;> simp [StatW.step, StatW.emit, statStep, Hist.push, StatR, statFlag, Hist.Valid]
      | poll => simp [StatW.step, StatW.isClosed, statStep, StatR, statFlag, Hist.Valid]
      | qStatus =>
        simp [StatW.step, StatW.isClosed, StatW.isCompleted, StatW.errorOccur, statStep, StatR, statFlag,
          Hist.Valid]

/-! ## whole runs -/

theorem okEv_fixed (e : Ev) : okEv .fixed e := by
  cases e with
  | emit n => cases n <;> simp [okEv]
  | _ => trivial

/-- No source error is ever emitted: the hypothesis of the `_partial` theorems. -/
def NoErrorEmit (es : List Ev) : Prop := ∀ x, Ev.emit (.error x) ∉ es

theorem okEv_code_of_noError {es : List Ev} (h : NoErrorEmit es) : ∀ e ∈ es, okEv .code e := by
  intro e he
  cases e with
  | emit n =>
    cases n with
    | error x => exact absurd he (h x)
    | _ => trivial
  | _ => trivial

theorem fobs_ready {o : FOut} {r : FMsg} (h : fobs o = .ready r) : o = .ready r := by
  cases o <;> simp_all [fobs]

theorem sobs_pending {o : SOut} (h : sobs o = .pending) : o = .pending := by
  cases o <;> simp_all [sobs]

theorem sobs_yield {o : SOut} {x : Option SItem} (h : sobs o = .yield x) : o = .yield x := by
  cases o <;> simp_all [sobs]

theorem FutR_init : FutR {} {} := by simp [FutR, lvOf]
theorem CFR_init : CFR {} {} := by simp [CFR]
theorem StrR_init (m : Model) : StrR m {} {} := by simp [StrR]
theorem StatR_init : StatR {} {} := by simp [StatR, Hist.Valid, statFlag]

theorem fut_sim (m : Model) (es : List Ev) (hok : ∀ e ∈ es, okEv m e) :
    FutR (FutW.run m {} es).1 (futRun futureResult {} es).1 ∧
      (FutW.run m {} es).2.map fobs = (futRun futureResult {} es).2.map fobs :=
  runM_sim (FutW.step m) (futStep futureResult) FutR fobs (okEv m)
    (fun c a e he h => fut_step m c a e he h) es {} {} hok FutR_init

theorem cf_sim (m : Model) (es : List Ev) (hok : ∀ e ∈ es, okEv m e) :
    CFR (CFW.run m {} es).1 (futRun collectResult {} es).1 ∧
      (CFW.run m {} es).2.map fobs = (futRun collectResult {} es).2.map fobs :=
  runM_sim (CFW.step m) (futStep collectResult) CFR fobs (okEv m)
    (fun c a e he h => cf_step m c a e he h) es {} {} hok CFR_init

theorem str_sim (m : Model) (es : List Ev) (hok : ∀ e ∈ es, okEv m e) :
    StrR m (StrW.run m {} es).1 (strRun m {} es).1 ∧
      (StrW.run m {} es).2.map sobs = (strRun m {} es).2.map sobs :=
  runM_sim (StrW.step m) (strStep m) (StrR m) sobs (okEv m)
    (fun c a e he h => str_step m c a e he h) es {} {} hok (StrR_init m)

theorem stat_sim (es : List Ev) :
    StatR (StatW.run {} es).1 (statRun {} es).1 ∧ (StatW.run {} es).2 = (statRun {} es).2 := by
  have := runM_sim StatW.step statStep StatR id (fun _ => True)
    (fun c a e _ h => stat_step c a e h) es {} {} (fun _ _ => trivial) StatR_init
  simpa [StatW.run, statRun] using this

/-! ## facts about the reference machines -/

theorem futRun_hist (result : List Val → Notif → FMsg) (es : List Ev) (s : FutS) :
    (futRun result s es).1.h = hist s.h es := by
  induction es generalizing s with
  | nil => rfl
  | cons e r ih =>
    cases e with
    | emit n => simpa [futRun, runM, futStep, hist] using ih _
    | poll =>
      simp only [futRun, runM, hist]
      have := ih (futStep result s .poll).1
      simp only [futRun] at this
      rw [this]
      simp only [futStep]
      cases s.h.term <;> simp
      split <;> rfl
    | qStatus => simpa [futRun, runM, futStep, hist] using ih _

/-- The reference future has handed out its result only if some output was `Ready`. -/
theorem futRun_delivered (result : List Val → Notif → FMsg) (es : List Ev) :
    (futRun result {} es).1.delivered = true → ∃ r, FOut.ready r ∈ (futRun result {} es).2 := by
  have := runM_invariant (futStep result)
    (fun s os => s.delivered = true → ∃ r, FOut.ready r ∈ os)
    (by
      intro s os e h
      cases e with
      | emit n => simpa [futStep] using h
      | poll =>
        simp only [futStep]
        cases ht : s.h.term with
        | none => simpa using h
        | some t =>
          cases hd : s.delivered with
          | true => simpa [hd] using h
          | false => simp
      | qStatus => simpa [futStep] using h)
    es {} [] (by simp)
  simpa [futRun] using this


theorem mem_map_fobs_ready {os : List FOut} {r : FMsg} (h : FOut.ready r ∈ os.map fobs) :
    FOut.ready r ∈ os := by
  obtain ⟨o, ho, hr⟩ := List.mem_map.1 h
  rw [← fobs_ready hr]; exact ho

/-- future kinds: source terminated, nothing handed out yet ⇒ the next poll is Ready with the
    reference result. -/
theorem fut_ready (m : Model) (es : List Ev) (hok : ∀ e ∈ es, okEv m e)
    (ht : (hist {} es).term.isSome = true)
    (hn : ∀ r, FOut.ready r ∉ (FutW.run m {} es).2) :
    ∃ t, (hist {} es).term = some t ∧
      (FutW.step m (FutW.run m {} es).1 .poll).2 = .ready (futureResult (hist {} es).items t) := by
  obtain ⟨hR, hO⟩ := fut_sim m es hok
  have hh := futRun_hist futureResult es {}
  have hd : (futRun futureResult {} es).1.delivered = false := by
    cases hdel : (futRun futureResult {} es).1.delivered with
    | false => rfl
    | true =>
      obtain ⟨r, hr⟩ := futRun_delivered futureResult es hdel
      have : FOut.ready r ∈ (FutW.run m {} es).2.map fobs := by
        rw [hO]; exact List.mem_map.2 ⟨_, hr, rfl⟩
      exact absurd (mem_map_fobs_ready this) (hn r)
  obtain ⟨t, htm⟩ := Option.isSome_iff_exists.1 ht
  refine ⟨t, htm, ?_⟩
  have hs := (fut_step m _ _ .poll trivial hR).2
  have hterm : (futRun futureResult {} es).1.h.term = some t := by rw [hh]; exact htm
  have hitems : (futRun futureResult {} es).1.h.items = (hist {} es).items := by rw [hh]
  simp only [futStep, hterm, hd] at hs
  rw [hitems] at hs
  exact fobs_ready (by simpa [fobs] using hs)


/-- collect + future: same statement. -/
theorem cf_ready (m : Model) (es : List Ev) (hok : ∀ e ∈ es, okEv m e)
    (ht : (hist {} es).term.isSome = true)
    (hn : ∀ r, FOut.ready r ∉ (CFW.run m {} es).2) :
    ∃ t, (hist {} es).term = some t ∧
      (CFW.step m (CFW.run m {} es).1 .poll).2 = .ready (collectResult (hist {} es).items t) := by
  obtain ⟨hR, hO⟩ := cf_sim m es hok
  have hh := futRun_hist collectResult es {}
  have hd : (futRun collectResult {} es).1.delivered = false := by
    cases hdel : (futRun collectResult {} es).1.delivered with
    | false => rfl
    | true =>
      obtain ⟨r, hr⟩ := futRun_delivered collectResult es hdel
      have : FOut.ready r ∈ (CFW.run m {} es).2.map fobs := by
        rw [hO]; exact List.mem_map.2 ⟨_, hr, rfl⟩
      exact absurd (mem_map_fobs_ready this) (hn r)
  obtain ⟨t, htm⟩ := Option.isSome_iff_exists.1 ht
  refine ⟨t, htm, ?_⟩
  have hs := (cf_step m _ _ .poll trivial hR).2
  have hterm : (futRun collectResult {} es).1.h.term = some t := by rw [hh]; exact htm
  have hitems : (futRun collectResult {} es).1.h.items = (hist {} es).items := by rw [hh]
  simp only [futStep, hterm, hd] at hs
  rw [hitems] at hs
  exact fobs_ready (by simpa [fobs] using hs)


theorem statRun_hist (es : List Ev) (h : Hist) : (statRun h es).1 = hist h es := by
  induction es generalizing h with
  | nil => rfl
  | cons e r ih =>
    cases e <;> simpa [statRun, runM, statStep, hist] using ih _

theorem strStep_poll_term (m : Model) (s : StrS) : (strStep m s .poll).1.term = s.term := by
  simp only [strStep]
  cases s.front with
  | cons x r => rfl
  | nil =>
    simp only
    split
    · rfl
    · split <;> rfl

theorem strRun_term (m : Model) (es : List Ev) (s : StrS) (h : Hist) (hs : s.term = h.term) :
    (strRun m s es).1.term = (hist h es).term := by
  induction es generalizing s h with
  | nil => exact hs
  | cons e r ih =>
    cases e with
    | emit n =>
      simp only [strRun, runM, hist]
      apply ih
      obtain ⟨fr, fin, t, en⟩ := s
      obtain ⟨xs, t'⟩ := h
      simp only at hs
      subst hs
      cases t <;> cases n <;> simp [strStep, Hist.push]
    | poll =>
      simp only [strRun, runM, hist]
      apply ih
      rw [strStep_poll_term, hs]
    | qStatus =>
      simp only [strRun, runM, hist]
      exact ih _ _ hs

/-- Reference stream: (a) a terminated, not yet ended stream still owes the end marker;
    (b) it has ended only if some output was `None`. -/
theorem strRun_inv (m : Model) (es : List Ev) :
    ((strRun m {} es).1.term.isSome = true → (strRun m {} es).1.ended = false →
        (strRun m {} es).1.fin = true) ∧
      ((strRun m {} es).1.ended = true → SOut.yield none ∈ (strRun m {} es).2) := by
  have := runM_invariant (strStep m)
    (fun s os => (s.term.isSome = true → s.ended = false → s.fin = true) ∧
      (s.ended = true → SOut.yield none ∈ os))
    (by
      intro s os e ⟨h1, h2⟩
      obtain ⟨fr, fin, t, en⟩ := s
      cases e with
      | emit n =>
        cases t with
        | some t => simp_all [strStep]
        | none => cases n <;> simp_all [strStep]
      | poll =>
        cases fr with
        | cons x r => simp_all [strStep]
        | nil =>
          cases fin with
          | true => simp [strStep]
          | false =>
            cases en with
            | true => simp_all [strStep]
            | false => simp_all [strStep]
      | qStatus => simp_all [strStep])
    es {} [] (by simp)
  simpa [strRun] using this

theorem mem_map_sobs_yield {os : List SOut} {x : Option SItem} (h : SOut.yield x ∈ os.map sobs) :
    SOut.yield x ∈ os := by
  obtain ⟨o, ho, hr⟩ := List.mem_map.1 h
  rw [← sobs_yield hr]; exact ho

/-- stream: source terminated, `None` not yet yielded ⇒ the next poll yields (never Pending). -/
theorem str_ready (m : Model) (es : List Ev) (hok : ∀ e ∈ es, okEv m e)
    (ht : (hist {} es).term.isSome = true)
    (hn : SOut.yield none ∉ (StrW.run m {} es).2) :
    ∃ x, (StrW.step m (StrW.run m {} es).1 .poll).2 = .yield x := by
  obtain ⟨hR, hO⟩ := str_sim m es hok
  obtain ⟨hi1, hi2⟩ := strRun_inv m es
  have hterm := strRun_term m es {} {} rfl
  have hen : (strRun m {} es).1.ended = false := by
    cases hdel : (strRun m {} es).1.ended with
    | false => rfl
    | true =>
      have : SOut.yield none ∈ (StrW.run m {} es).2.map sobs := by
        rw [hO]; exact List.mem_map.2 ⟨_, hi2 hdel, rfl⟩
      exact absurd (mem_map_sobs_yield this) hn
  have hfin := hi1 (by rw [hterm]; exact ht) hen
  have hs := (str_step m _ _ .poll trivial hR).2
  generalize (strRun m {} es).1 = s at hs hfin hen
  obtain ⟨fr, fin, t, en⟩ := s
  simp only at hfin hen
  subst hfin hen
  cases fr with
  | cons x r => exact ⟨some x, sobs_yield (by simpa [strStep, sobs] using hs)⟩
  | nil => exact ⟨none, sobs_yield (by simpa [strStep, sobs] using hs)⟩


end Rx.Conv
