import RxModel.Conv.ConvSpec
/-
  C14 — `complete_status` with a downstream that can finish BEFORE the source
  terminates (`source.complete_status()` then `take n` / `first` / `take_while p`).

  Transcription of
    src/ops/complete_status.rs   StatusObserver::{next,error,complete,is_finished}, StatusFuture::poll
    src/ops/take.rs              TakeObserver   (`first()` = `take(1)`, src/observable.rs)
    src/ops/take_while.rs        TakeWhileObserver
    src/observer.rs              impl Observer for MutRc<Option<O>> / MutArc<Option<O>>  (the slot)
    src/subscriber.rs            Subscriber: Observer + Publisher (`p_is_closed = is_finished() || is_closed()`)
    src/subject.rs               Subject::{next,error,complete}  (every entry is called; before `fix:
                                 Subject::error/complete hand the terminal to every subscriber` terminals
                                 went only to entries that were not `p_is_closed()`: `hotEmitBefore`)
    src/observable/from_fn.rs    `create`: the closure is handed the `Subscriber` slot itself
    src/observable/from_iter.rs  ObservableIter::actual_subscribe: `while !is_finished { next }; complete()`

  The cutter and the source are parameters of the world, not part of its state.
-/
namespace Rx.Conv

/-- What sits between `complete_status()` and the probe (whose `is_finished()` is always false). -/
inductive Cutter where
  /-- nothing: the probe directly (kind `status`) -/
  | id
  /-- `take(n)`; `first()` is `take(1)` -/
  | take (n : Nat)
  /-- `take_while(p)` / `take_while_inclusive(p)` -/
  | takeWhile (p : Val → Bool) (inclusive : Bool)

/-- `TakeObserver{observer: Option<O>, hits}` / `TakeWhileObserver{observer: Option<O>}`. -/
structure CutSt where
  /-- `observer.is_some()` -/
  live : Bool := true
  hits : Nat := 0
  deriving DecidableEq, Repr

namespace Cutter

/-- `next`: the new state and what the probe receives. -/
def next (c : Cutter) (s : CutSt) (v : Val) : CutSt × List Notif :=
  match c with
  | .id => (s, [.next v])
  | .take n =>
    -- `if self.hits < self.count { if let Some(observer) = self.observer.as_mut() { hits += 1; next;
    --    if self.hits == self.count { self.observer.take().unwrap().complete() } } }`
    if s.hits < n then
      if s.live then
        if s.hits + 1 = n then ({ live := false, hits := s.hits + 1 }, [.next v, .complete])
        else ({ s with hits := s.hits + 1 }, [.next v])
      else (s, [])
    else (s, [])
  | .takeWhile p incl =>
    -- `if let Some(observer) = .. { if callback(&v) { next } else { if inclusive { next }; take().complete() } }`
    if s.live then
      if p v then (s, [.next v])
      else ({ s with live := false }, (if incl then [.next v] else []) ++ [.complete])
    else (s, [])

/-- `error` / `complete` (`t` is the terminal): `if let Some(observer) = self.observer.take() { observer.t() }`;
    for `id` the probe itself is consumed. -/
def term (_c : Cutter) (s : CutSt) (t : Notif) : CutSt × List Notif :=
  if s.live then ({ s with live := false }, [t]) else (s, [])

/-- `is_finished`: `self.observer.as_ref().map_or(true, |o| o.is_finished())`; the probe says `false`. -/
def isFinished (c : Cutter) (s : CutSt) : Bool :=
  match c with
  | .id => false
  | _ => !s.live

/-- The cutter's state after the items `xs` (and no terminal). -/
def after (c : Cutter) (xs : List Val) : CutSt := xs.foldl (fun s v => (c.next s v).1) {}

/-- The cutter has finished the downstream by itself on the items `xs`. -/
def doneOn (c : Cutter) (xs : List Val) : Bool := c.isFinished (c.after xs)

end Cutter

/-- The source in front of `complete_status()`. -/
inductive TSrc where
  /-- hot `Subject`, subscribed at the start, `emit` calls the subject -/
  | hot
  /-- `observable::create`: subscribed at the start; `emit` calls the `Subscriber` the closure was handed -/
  | create
  /-- `from_iter(1..=k)`: event `sub` subscribes and runs it -/
  | iter (k : Nat)
  deriving DecidableEq, Repr, Inhabited

/-- External events of kind `statustake`. -/
inductive TEv where
  | emit (n : Notif)
  | sub
  | poll
  | qStatus
  deriving DecidableEq, Repr, Inhabited

/-- source → slot → `StatusObserver{observer = cutter → probe, status}`; `StatusFuture(status)`. -/
structure StatTW where
  /-- hot: the subject's `observers` is `Some` -/
  srcOpen : Bool := true
  /-- the `Subscriber` slot (hot, create) holds `Some(StatusObserver)`; iter: the observer has not been consumed -/
  slot : Bool := true
  /-- iter: `sub` has happened (the observable is consumed by `actual_subscribe`) -/
  subscribed : Bool := false
  cut : CutSt := {}
  /-- `CompleteStatus.flag`: 0 running, 1 completed, -1 error -/
  flag : Int := 0
  /-- `CompleteStatus.waker` holds a registered waker -/
  parked : Bool := false
  /-- ghost: how often a registered waker has been woken -/
  wakes : Nat := 0
  deriving Repr, DecidableEq

namespace StatTW

/-- `AtomicWaker::wake`. -/
def wake (w : StatTW) : StatTW :=
  if w.parked then { w with parked := false, wakes := w.wakes + 1 } else w

/-- The flag value `StatusObserver::error` / `complete` stores. -/
def flagOf : Notif → Int
  | .error _ => -1
  | _ => 1

/-- `StatusObserver::next`: `self.observer.next(value)`. -/
def soNext (c : Cutter) (w : StatTW) (v : Val) : StatTW × List Notif :=
  let (s, o) := c.next w.cut v
  ({ w with cut := s }, o)

/-- `StatusObserver::error` / `complete` (consumes the observer): downstream terminal first (a finished
    cutter ignores it), THEN `flag.store`, THEN `waker.wake()` — unconditionally. -/
def soTerm (c : Cutter) (w : StatTW) (t : Notif) : StatTW × List Notif :=
  let (s, o) := c.term w.cut t
  (({ w with cut := s, slot := false, flag := flagOf t } : StatTW).wake, o)

/-- `StatusObserver::is_finished`: the downstream's. -/
def soFinished (c : Cutter) (w : StatTW) : Bool := c.isFinished w.cut

/-- `MutRc<Option<O>>::next`: `if let Some(o) = .. { o.next(v) }`. -/
def slotNext (c : Cutter) (w : StatTW) (v : Val) : StatTW × List Notif :=
  if w.slot then soNext c w v else (w, [])

/-- `MutRc<Option<O>>::error/complete`: `if let Some(o) = self.take() { o.t() }`. -/
def slotTerm (c : Cutter) (w : StatTW) (t : Notif) : StatTW × List Notif :=
  if w.slot then soTerm c w t else (w, [])

/-- `Subscriber::p_is_closed` = `is_finished() || is_closed()`, with
    `MutRc<Option<O>>::is_finished` = `map_or(true, |o| o.is_finished())` (what `retain` asks; the
    terminal fan-out asked it too before the fix). -/
def pIsClosed (c : Cutter) (w : StatTW) : Bool :=
  (if w.slot then soFinished c w else true) || !w.slot

/-- The hot `Subject` is called with `n`. -/
def hotEmit (c : Cutter) (w : StatTW) : Notif → StatTW × List Notif
  | .next v => if w.srcOpen then slotNext c w v else (w, [])
  | t =>
    -- `if let Some(observers) = self.observers.take() { observers.into_iter()
    --     .for_each(|o| o.p_error(err)) }`: no filter in front of the slot
    if w.srcOpen then slotTerm c { w with srcOpen := false } t else (w, [])

/-- The hot `Subject` BEFORE `fix: Subject::error/complete hand the terminal to every subscriber`:
    `observers.into_iter().filter(|o| !o.p_is_closed()).for_each(|o| o.p_error(err))` — a status observer
    whose downstream had finished by itself never saw the source's terminal.  Not part of `step`; kept
    for the record of the defect (Props/C14K.lean, last section). -/
def hotEmitBefore (c : Cutter) (w : StatTW) : Notif → StatTW × List Notif
  | .next v => if w.srcOpen then slotNext c w v else (w, [])
  | t =>
    if w.srcOpen then
      if pIsClosed c w then ({ w with srcOpen := false }, [])
      else slotTerm c { w with srcOpen := false } t
    else (w, [])

/-- The producer of `create` calls the `Subscriber` it was handed (no `observers` list to be taken). -/
def createEmit (c : Cutter) (w : StatTW) : Notif → StatTW × List Notif
  | .next v => slotNext c w v
  | t => slotTerm c w t

/-- `while !observer.is_finished() { match iter.next() { Some(v) => observer.next(v), None => break } }`. -/
def iterLoop (c : Cutter) : StatTW → List Val → StatTW × List Notif
  | w, [] => (w, [])
  | w, v :: r =>
    if soFinished c w then (w, [])
    else
      let (w1, o) := soNext c w v
      let (w2, os) := iterLoop c w1 r
      (w2, o ++ os)

/-- The items of `from_iter(1..=k)`. -/
def iterItems (k : Nat) : List Val := (List.range k).map fun i => Val.int (Int.ofNat i + 1)

/-- `ObservableIter::actual_subscribe`: the loop, then `observer.complete()` unconditionally. -/
def iterSub (c : Cutter) (k : Nat) (w : StatTW) : StatTW × List Notif :=
  if w.subscribed then (w, [])
  else
    let (w1, o) := iterLoop c { w with subscribed := true } (iterItems k)
    let (w2, o2) := soTerm c w1 .complete
    (w2, o ++ o2)

def isClosed (w : StatTW) : Bool := w.flag != 0
def isCompleted (w : StatTW) : Bool := decide (w.flag > 0)
def errorOccur (w : StatTW) : Bool := decide (w.flag < 0)

def step (src : TSrc) (c : Cutter) (w : StatTW) : TEv → StatTW × StOut
  | .emit n =>
    match src with
    | .hot => let (w', o) := hotEmit c w n; (w', .out o)
    | .create => let (w', o) := createEmit c w n; (w', .out o)
    | .iter _ => (w, .out [])
  | .sub =>
    match src with
    | .iter k => let (w', o) := iterSub c k w; (w', .out o)
    | _ => (w, .out [])
  | .poll =>
    -- `StatusFuture::poll`: flag check; register the waker; check again (same answer on one thread)
    if w.isClosed then (w, .ready) else ({ w with parked := true }, .pending)
  | .qStatus => (w, .status w.isClosed w.isCompleted w.errorOccur)

def run (src : TSrc) (c : Cutter) : StatTW → List TEv → StatTW × List StOut := runM (step src c)

end StatTW

/-! ## Reference: what the source has delivered -/
namespace Ref

/-- The source's own history under event `e`: items and the first terminal it signalled — whatever the
    downstream did with them.  hot / create: the calls made on it (gated by its first terminal);
    `from_iter`: it completes when it is subscribed. -/
def tpush (src : TSrc) (h : Hist) : TEv → Hist
  | .emit n => match src with | .iter _ => h | _ => h.push n
  | .sub => match src with
    | .iter _ => (match h.term with | some _ => h | none => { h with term := some .complete })
    | _ => h
  | _ => h

def thist (src : TSrc) : Hist → List TEv → Hist
  | h, [] => h
  | h, e :: r => thist src (tpush src h e) r

/-- The source's terminal after the events `es` (`none`: still running). -/
def srcTerm (src : TSrc) (es : List TEv) : Option Notif := (thist src {} es).term

/-- The items the source delivered before its terminal. -/
def srcItems (src : TSrc) (es : List TEv) : List Val := (thist src {} es).items

end Ref

end Rx.Conv
