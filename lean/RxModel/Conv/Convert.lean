import RxModel.Core.Notif
/-
  C14 — conversions and completion status (sequential part).

  Transcription of
    src/ops/future.rs           ObservableFuture / ObservableFutureObserver
    src/ops/stream.rs           ObservableStream / ObservableStreamObserver
    src/ops/collect.rs          CollectObserver (in front of a to_future observer)
    src/ops/complete_status.rs  CompleteStatus / StatusObserver / StatusFuture
  plus the part of futures-channel 0.3 `mpsc::unbounded` they rely on
  (single sender, one thread) and the hot `Subject` source that holds the
  observer in a `Subscriber` slot (src/subject.rs, src/subscriber.rs).

  `Model.code` is the code as it is in /repo; `Model.fixed` the repaired code
  (to_future: `error` sends like `complete`; to_stream: a drained, closed
  channel ends the stream).  The two differ in exactly the two places marked
  FIX below; everything else is shared.  `namespace Fixed` (end of file) names
  the repaired instances.
-/
namespace Rx.Conv

/-- Which transcription runs: the code as it is, or the repaired code. -/
inductive Model where
  | code
  | fixed
  deriving DecidableEq, Repr, Inhabited

/-- Generic "run a step function over a list of events". -/
def runM {σ ε ω : Type} (step : σ → ε → σ × ω) : σ → List ε → σ × List ω
  | s, [] => (s, [])
  | s, e :: r =>
    let (s1, o) := step s e
    let (s2, os) := runM step s1 r
    (s2, o :: os)

theorem runM_append {σ ε ω : Type} (step : σ → ε → σ × ω) (s : σ) (a b : List ε) :
    runM step s (a ++ b) =
      ((runM step (runM step s a).1 b).1, (runM step s a).2 ++ (runM step (runM step s a).1 b).2) := by
  induction a generalizing s with
  | nil => simp [runM]
  | cons e r ih => simp [runM, ih]

/-! ## futures::channel::mpsc::unbounded, one sender, seen from one thread -/

/-- `UnboundedInner` + the receiver's `inner: Option<Arc<..>>`. -/
structure Chan (α : Type) where
  queue : List α := []
  /-- `state.is_open` -/
  isOpen : Bool := true
  /-- `UnboundedReceiver.inner.is_some()` -/
  rxInner : Bool := true
  /-- `recv_task` (AtomicWaker) holds a registered waker -/
  parked : Bool := false
  /-- ghost: how often the registered waker has been woken -/
  wakes : Nat := 0
  /-- ghost: an `unbounded_send` returned `Err` (the observers `.expect` it: panic) -/
  sendFailed : Bool := false
  deriving Repr

namespace Chan
variable {α : Type}

/-- `AtomicWaker::wake`: takes the waker, if any, and wakes it. -/
def wake (c : Chan α) : Chan α :=
  if c.parked then { c with parked := false, wakes := c.wakes + 1 } else c

/-- `UnboundedSender::unbounded_send`: `inc_num_messages` fails when `!is_open`;
    else push and `recv_task.wake()`. -/
def send (c : Chan α) (m : α) : Chan α :=
  if c.isOpen then ({ c with queue := c.queue ++ [m] }).wake else { c with sendFailed := true }

/-- `let _ = sender.unbounded_send(m)`: the terminal paths of the observers ignore a receiver that
    is gone (after `fix: a dropped future/stream cannot make a terminal panic`). -/
def trySend (c : Chan α) (m : α) : Chan α :=
  if c.isOpen then ({ c with queue := c.queue ++ [m] }).wake else c

/-- `close_channel()`, and also the drop of the last sender: `set_closed`, wake. -/
def closeTx (c : Chan α) : Chan α := ({ c with isOpen := false }).wake

/-- `UnboundedReceiver::close`. -/
def closeRx (c : Chan α) : Chan α := if c.rxInner then { c with isOpen := false } else c

/-- `UnboundedReceiver::next_message`; `none` = `Poll::Pending`. -/
def nextMessage (c : Chan α) : Chan α × Option (Option α) :=
  if c.rxInner then
    match c.queue with
    | m :: q => ({ c with queue := q }, some (some m))
    | [] => if c.isOpen then (c, none) else ({ c with rxInner := false }, some none)
  else (c, some none)

/-- `Stream::poll_next` of the receiver (what `receiver.next().poll_unpin(cx)` runs). -/
def pollNext (c : Chan α) : Chan α × Option (Option α) :=
  match c.nextMessage with
  | (c1, some (some m)) => (c1, some (some m))
  | (c1, some none) => ({ c1 with rxInner := false }, some none)
  | (c1, none) => ({ c1 with parked := true } : Chan α).nextMessage

end Chan

/-- External events of suite `convert`. -/
inductive Ev where
  | emit (n : Notif)     -- the hot source subject is called
  | poll                 -- the future / stream is polled once
  | qStatus              -- CompleteStatus::{is_closed,is_completed,error_occur}
  deriving DecidableEq, Repr, Inhabited

/-! ## to_future -/

/-- `Message<T,E> = Result<Result<T,E>, ObservableError>`. -/
inductive FMsg where
  | ok (v : Val)          -- Ok(Ok v)
  | err (e : Err)         -- Ok(Err e)
  | empty                 -- Err(ObservableError::Empty)
  | multiple              -- Err(ObservableError::MultipleValues)
  deriving DecidableEq, Repr, Inhabited

/-- `send_observable_value`: record the first value, or `MultipleValues`. -/
def sendObservableValue (last : Option FMsg) (x : FMsg) : Option FMsg :=
  match last with
  | some _ => some .multiple
  | none => some x

/-- `ObservableFutureObserver::complete` (then `self` is dropped: the sender's drop closes again). -/
def futComplete (last : Option FMsg) (c : Chan FMsg) : Chan FMsg :=
  ((c.trySend (last.getD .empty)).closeTx).closeTx

/-- `ObservableFutureObserver::error`.  Code: records, sends nothing, `self` is dropped
    (the drop of the only sender closes the channel).  FIX: then resolve as `complete` does. -/
def futError (m : Model) (last : Option FMsg) (e : Err) (c : Chan FMsg) : Chan FMsg :=
  match m with
  | .code => c.closeTx
  | .fixed => futComplete (sendObservableValue last (.err e)) c

/-- What one event prints for the future kinds. -/
inductive FOut where
  | woke (k : Nat)             -- emit: how often the waker was woken during the event
  | pending
  | ready (r : FMsg)
  | na                         -- event not applicable to this kind
  deriving DecidableEq, Repr, Inhabited

/-- `ObservableFuture::poll`. -/
def futPoll (c : Chan FMsg) : Chan FMsg × FOut :=
  match c.pollNext with
  | (c1, some (some msg)) => (c1, .ready msg)
  | (c1, some none) => (c1, .pending)        -- `None => Poll::Pending`
  | (c1, none) => (c1, .pending)             -- `ready!`

/-- hot `Subject` → `Subscriber` slot → `ObservableFutureObserver` → channel → `ObservableFuture`. -/
structure FutW where
  /-- the source subject's `observers` is `Some` -/
  srcOpen : Bool := true
  /-- the `Subscriber` slot: `Some(observer)` with the observer's `last_value` -/
  obs : Option (Option FMsg) := some none
  chan : Chan FMsg := {}
  deriving Repr

namespace FutW

/-- The source subject is called with `n`. -/
def emit (m : Model) (w : FutW) : Notif → FutW
  | .next v =>
    if w.srcOpen then
      match w.obs with
      | some last => { w with obs := some (sendObservableValue last (.ok v)) }
      | none => w
    else w
  | .error e =>
    if w.srcOpen then
      match w.obs with
      | some last =>
        -- every entry of the subject is handed the terminal, also one whose `is_finished()`
        -- (= `sender.is_closed()`) is true: no `p_is_closed()` filter since `fix: Subject::error/
        -- complete hand the terminal to every subscriber`
        { srcOpen := false, obs := none, chan := futError m last e w.chan }
      | none => { w with srcOpen := false }
    else w
  | .complete =>
    if w.srcOpen then
      match w.obs with
      | some last => { srcOpen := false, obs := none, chan := futComplete last w.chan }
      | none => { w with srcOpen := false }
    else w

def step (m : Model) (w : FutW) : Ev → FutW × FOut
  | .emit n =>
    let w' := w.emit m n
    (w', .woke (w'.chan.wakes - w.chan.wakes))
  | .poll =>
    let (c, o) := futPoll w.chan
    ({ w with chan := c }, o)
  | .qStatus => (w, .na)

def run (m : Model) : FutW → List Ev → FutW × List FOut := runM (step m)

end FutW

/-! ## collect → to_future -/

/-- hot `Subject` → slot → `CollectObserver{collection, observer = ObservableFutureObserver}`.
    Items are `Vec<Val>`, printed as a `Val` list. -/
structure CFW where
  srcOpen : Bool := true
  /-- slot: `Some((collection, last_value))` -/
  obs : Option (List Val × Option FMsg) := some ([], none)
  chan : Chan FMsg := {}
  deriving Repr

namespace CFW

def emit (m : Model) (w : CFW) : Notif → CFW
  | .next v =>
    if w.srcOpen then
      match w.obs with
      | some (coll, last) => { w with obs := some (coll ++ [v], last) }   -- `collection.extend(Some(value))`
      | none => w
    else w
  | .error e =>
    if w.srcOpen then
      match w.obs with
      | some (_, last) => { srcOpen := false, obs := none, chan := futError m last e w.chan }
      | none => { w with srcOpen := false }
    else w
  | .complete =>
    if w.srcOpen then
      match w.obs with
      | some (coll, last) =>
        -- `observer.next(collection); observer.complete()`
        { srcOpen := false, obs := none,
          chan := futComplete (sendObservableValue last (.ok (Val.ofList coll))) w.chan }
      | none => { w with srcOpen := false }
    else w

def step (m : Model) (w : CFW) : Ev → CFW × FOut
  | .emit n =>
    let w' := w.emit m n
    (w', .woke (w'.chan.wakes - w.chan.wakes))
  | .poll =>
    let (c, o) := futPoll w.chan
    ({ w with chan := c }, o)
  | .qStatus => (w, .na)

def run (m : Model) : CFW → List Ev → CFW × List FOut := runM (step m)

end CFW

/-! ## to_stream -/

/-- `Result<T,E>` item of the stream. -/
inductive SItem where
  | ok (v : Val)
  | err (e : Err)
  deriving DecidableEq, Repr, Inhabited

/-- `enum Message { Item(Result<T,E>), Complete }`. -/
inductive SMsg where
  | item (x : SItem)
  | complete
  deriving DecidableEq, Repr, Inhabited

inductive SOut where
  | woke (k : Nat)
  | pending
  | yield (x : Option SItem)     -- `Ready(Some x)` / `Ready(None)`
  | na
  deriving DecidableEq, Repr, Inhabited

/-- `ObservableStream::poll_next`.  FIX: a drained closed channel ends the stream. -/
def strPoll (m : Model) (c : Chan SMsg) : Chan SMsg × SOut :=
  match c.pollNext with
  | (c1, some (some (.item x))) => (c1, .yield (some x))
  | (c1, some (some .complete)) => (c1.closeRx, .yield none)
  | (c1, some none) => (c1, match m with | .code => .pending | .fixed => .yield none)
  | (c1, none) => (c1, .pending)

structure StrW where
  srcOpen : Bool := true
  /-- the `Subscriber` slot holds the observer (whose only field is the sender) -/
  obs : Bool := true
  chan : Chan SMsg := {}
  deriving Repr

namespace StrW

def emit (w : StrW) : Notif → StrW
  | .next v =>
    if w.srcOpen && w.obs then { w with chan := w.chan.send (.item (.ok v)) } else w
  | .error e =>
    if w.srcOpen then
      if w.obs then
        -- `let _ = unbounded_send(Item(Err(e)))`, then the observer (its sender) is dropped
        { srcOpen := false, obs := false, chan := (w.chan.trySend (.item (.err e))).closeTx }
      else { w with srcOpen := false }
    else w
  | .complete =>
    if w.srcOpen then
      if w.obs then
        { srcOpen := false, obs := false, chan := (w.chan.trySend .complete).closeTx }
      else { w with srcOpen := false }
    else w

def step (m : Model) (w : StrW) : Ev → StrW × SOut
  | .emit n =>
    let w' := w.emit n
    (w', .woke (w'.chan.wakes - w.chan.wakes))
  | .poll =>
    let (c, o) := strPoll m w.chan
    ({ w with chan := c }, o)
  | .qStatus => (w, .na)

def run (m : Model) : StrW → List Ev → StrW × List SOut := runM (step m)

end StrW

/-! ## complete_status -/

inductive StOut where
  | out (ns : List Notif)                         -- what the downstream probe received
  | pending
  | ready
  | status (closed completed error : Bool)
  deriving DecidableEq, Repr, Inhabited

/-- hot `Subject` → slot → `StatusObserver{observer = probe, status}`; `StatusFuture(status)`. -/
structure StatW where
  srcOpen : Bool := true
  obs : Bool := true
  /-- `CompleteStatus.flag`: 0 running, 1 completed, -1 error -/
  flag : Int := 0
  /-- `CompleteStatus.waker` holds a registered waker -/
  parked : Bool := false
  wakes : Nat := 0
  deriving Repr, DecidableEq

namespace StatW

def wake (w : StatW) : StatW :=
  if w.parked then { w with parked := false, wakes := w.wakes + 1 } else w

def emit (w : StatW) : Notif → StatW × List Notif
  | .next v => if w.srcOpen && w.obs then (w, [.next v]) else (w, [])
  | .error e =>
    if w.srcOpen then
      if w.obs then
        -- `observer.error(err); flag.store(-1); waker.wake()`
        (({ w with srcOpen := false, obs := false, flag := -1 } : StatW).wake, [.error e])
      else ({ w with srcOpen := false }, [])
    else (w, [])
  | .complete =>
    if w.srcOpen then
      if w.obs then
        (({ w with srcOpen := false, obs := false, flag := 1 } : StatW).wake, [.complete])
      else ({ w with srcOpen := false }, [])
    else (w, [])

def isClosed (w : StatW) : Bool := w.flag != 0
def isCompleted (w : StatW) : Bool := decide (w.flag > 0)
def errorOccur (w : StatW) : Bool := decide (w.flag < 0)

def step (w : StatW) : Ev → StatW × StOut
  | .emit n =>
    let (w', o) := w.emit n
    (w', .out o)
  | .poll =>
    -- `StatusFuture::poll`
    if w.isClosed then (w, .ready) else ({ w with parked := true }, .pending)
  | .qStatus => (w, .status w.isClosed w.isCompleted w.errorOccur)

def run : StatW → List Ev → StatW × List StOut := runM step

end StatW

/-! ## The repaired code -/
namespace Fixed
def futRun := FutW.run .fixed
def cfRun := CFW.run .fixed
def strRun := StrW.run .fixed
end Fixed

-- The code as it is in /repo.
namespace Code
def futRun := FutW.run .code
def cfRun := CFW.run .code
def strRun := StrW.run .code
end Code

end Rx.Conv
