import RxModel.Conv.StatusTake
/-
  Helper lemmas for the `complete_status` + cutter world (RxModel/Conv/StatusTake.lean):
  the invariant that ties the world to the source's own history, and what a terminal
  does to a parked waiter.
-/
namespace Rx.Conv
open Ref

/-! ## the cutter -/

/-- Induction from the right end of a list. -/
theorem list_snoc_induction {α : Type} {P : List α → Prop} (h0 : P [])
    (hs : ∀ xs x, P xs → P (xs ++ [x])) : ∀ xs, P xs := by
  intro xs
  have h : ∀ ys : List α, P ys.reverse := by
    intro ys
    induction ys with
    | nil => simpa using h0
    | cons y r ih => simpa using hs _ y ih
  simpa using h xs.reverse

theorem Cutter.after_snoc (c : Cutter) (xs : List Val) (v : Val) :
    c.after (xs ++ [v]) = (c.next (c.after xs) v).1 := by
  simp [Cutter.after, List.foldl_append]

theorem Cutter.doneOn_id (xs : List Val) : Cutter.id.doneOn xs = false := rfl

/-- State of `take n` after `xs`: `hits = min |xs| n`, and the observer is gone iff `n ≥ 1` items came. -/
theorem Cutter.after_take (n : Nat) (xs : List Val) :
    (Cutter.take n).after xs =
      { live := !(decide (0 < n) && decide (n ≤ xs.length)), hits := min xs.length n } := by
  induction xs using list_snoc_induction with
  | h0 =>
    cases n with
    | zero => simp [Cutter.after]
    | succ k => simp [Cutter.after]
  | hs xs v ih =>
    rw [Cutter.after_snoc, ih]
    simp only [Cutter.next, List.length_append, List.length_cons, List.length_nil]
    by_cases h1 : xs.length < n
    · have hmin : min xs.length n = xs.length := by omega
      have hlive : (!(decide (0 < n) && decide (n ≤ xs.length))) = true := by
        have : ¬ n ≤ xs.length := by omega
        simp [this]
      rw [hmin, hlive]
      simp only [if_pos h1, if_true]
      by_cases h2 : xs.length + 1 = n
      · rw [if_pos h2]
        have h3 : 0 < n := by omega
        have h4 : n ≤ xs.length + 0 + 1 := by omega
        have h5 : min (xs.length + 0 + 1) n = xs.length + 1 := by omega
        simp [h3, h4, h5]
      · rw [if_neg h2]
        have h4 : ¬ n ≤ xs.length + 0 + 1 := by omega
        have h5 : min (xs.length + 0 + 1) n = xs.length + 1 := by omega
        simp [h4, h5]
    · have hmin : min xs.length n = n := by omega
      have hmin' : min (xs.length + 0 + 1) n = n := by omega
      have h2 : n ≤ xs.length := by omega
      have h3 : n ≤ xs.length + 0 + 1 := by omega
      rw [hmin, hmin']
      simp [h2, h3]

/-- `take n` has finished the downstream by itself iff `n ≥ 1` and at least `n` items have arrived. -/
theorem Cutter.doneOn_take (n : Nat) (xs : List Val) :
    (Cutter.take n).doneOn xs = (decide (0 < n) && decide (n ≤ xs.length)) := by
  simp [Cutter.doneOn, Cutter.after_take, Cutter.isFinished]

/-- `take 0` never finishes by itself. -/
theorem Cutter.doneOn_take_zero (xs : List Val) : (Cutter.take 0).doneOn xs = false := by
  simp [Cutter.doneOn_take]

theorem Cutter.after_takeWhile (p : Val → Bool) (incl : Bool) (xs : List Val) :
    (Cutter.takeWhile p incl).after xs = { live := xs.all p, hits := 0 } := by
  induction xs using list_snoc_induction with
  | h0 => simp [Cutter.after]
  | hs xs v ih =>
    rw [Cutter.after_snoc, ih]
    simp only [Cutter.next]
    cases hall : xs.all p <;> cases hp : p v <;> simp [List.all_append, hall, hp]

/-- `take_while p` has finished the downstream iff some item failed `p`. -/
theorem Cutter.doneOn_takeWhile (p : Val → Bool) (incl : Bool) (xs : List Val) :
    (Cutter.takeWhile p incl).doneOn xs = !xs.all p := by
  simp [Cutter.doneOn, Cutter.after_takeWhile, Cutter.isFinished]

/-! ## frame lemmas -/
namespace StatTW

@[simp] theorem wake_flag (w : StatTW) : w.wake.flag = w.flag := by unfold wake; split <;> rfl
@[simp] theorem wake_srcOpen (w : StatTW) : w.wake.srcOpen = w.srcOpen := by unfold wake; split <;> rfl
@[simp] theorem wake_slot (w : StatTW) : w.wake.slot = w.slot := by unfold wake; split <;> rfl
@[simp] theorem wake_subscribed (w : StatTW) : w.wake.subscribed = w.subscribed := by
  unfold wake; split <;> rfl
@[simp] theorem wake_cut (w : StatTW) : w.wake.cut = w.cut := by unfold wake; split <;> rfl

theorem wake_parked (w : StatTW) (h : w.parked = true) :
    w.wake.wakes = w.wakes + 1 ∧ w.wake.parked = false := by
  unfold wake; simp [h]

theorem flagOf_eq (t : Notif) : flagOf t = statFlag (some t) := by cases t <;> rfl

/-- The pull loop of `from_iter` touches nothing but the cutter. -/
theorem iterLoop_frame (c : Cutter) (vs : List Val) : ∀ w : StatTW,
    (iterLoop c w vs).1.flag = w.flag ∧ (iterLoop c w vs).1.parked = w.parked ∧
    (iterLoop c w vs).1.wakes = w.wakes ∧ (iterLoop c w vs).1.slot = w.slot ∧
    (iterLoop c w vs).1.srcOpen = w.srcOpen ∧ (iterLoop c w vs).1.subscribed = w.subscribed := by
  induction vs with
  | nil => intro w; simp [iterLoop]
  | cons v r ih =>
    intro w
    unfold iterLoop
    by_cases hf : soFinished c w = true
    · simp [hf]
    · simp only [hf]
      have := ih (soNext c w v).1
      simpa [soNext] using this

end StatTW

/-! ## the invariant -/

/-- World ↔ source history. -/
def TInv (src : TSrc) (c : Cutter) (w : StatTW) (h : Hist) : Prop :=
  match h.term with
  | none =>
    w.cut = c.after h.items ∧ w.slot = true ∧ w.srcOpen = true ∧ w.flag = 0 ∧ w.subscribed = false
  | some _ =>
    w.flag = statFlag h.term ∧ (src = .hot → w.srcOpen = false) ∧ (src = .create → w.slot = false) ∧
      (∀ k, src = .iter k → w.subscribed = true)

theorem TInv_init (src : TSrc) (c : Cutter) : TInv src c {} {} := by
  simp [TInv, Cutter.after]

theorem tinv_step (src : TSrc) (c : Cutter) (w : StatTW) (h : Hist) (e : TEv) (hi : TInv src c w h) :
    TInv src c (StatTW.step src c w e).1 (tpush src h e) := by
  obtain ⟨so, sl, sb, ct, fl, pk, wk⟩ := w
  obtain ⟨xs, t⟩ := h
  cases t with
  | some t =>
    simp only [TInv] at hi
    obtain ⟨h1, h2, h3, h4⟩ := hi
    cases e with
    | emit n =>
      cases src with
      | hot =>
        have hso := h2 rfl
        subst hso
        have e1 : (StatTW.step .hot c ⟨false, sl, sb, ct, fl, pk, wk⟩ (.emit n)).1 =
            ⟨false, sl, sb, ct, fl, pk, wk⟩ := by
          cases n <;> simp [StatTW.step, StatTW.hotEmit]
        have e2 : tpush .hot ⟨xs, some t⟩ (.emit n) = ⟨xs, some t⟩ := by simp [tpush, Hist.push]
        rw [e1, e2]
        exact ⟨h1, fun _ => rfl, h3, h4⟩
      | create =>
        have := h3 rfl
        subst this
        cases n <;>
          simpa [StatTW.step, StatTW.createEmit, StatTW.slotNext, StatTW.slotTerm, tpush, Hist.push, TInv] using h1
      | iter k => simpa [StatTW.step, tpush, TInv] using ⟨h1, h4 k rfl⟩
    | sub =>
      cases src with
      | hot => simpa [StatTW.step, tpush, TInv] using ⟨h1, h2 rfl⟩
      | create => simpa [StatTW.step, tpush, TInv] using ⟨h1, h3 rfl⟩
      | iter k =>
        have := h4 k rfl
        subst this
        simpa [StatTW.step, StatTW.iterSub, tpush, TInv] using h1
    | poll =>
      simp only [StatTW.step, tpush, TInv]
      split <;> exact ⟨h1, h2, h3, h4⟩
    | qStatus => exact ⟨h1, h2, h3, h4⟩
  | none =>
    simp only [TInv] at hi
    obtain ⟨h1, h2, h3, h4, h5⟩ := hi
    subst h1 h2 h3 h4 h5
    cases e with
    | emit n =>
      cases src with
      | hot =>
        cases n with
        | next v =>
          simp [StatTW.step, StatTW.hotEmit, StatTW.slotNext, StatTW.soNext, tpush, Hist.push, TInv,
            Cutter.after_snoc]
        | error e =>
          simp [StatTW.step, StatTW.hotEmit, StatTW.slotTerm,
            StatTW.soTerm, tpush, Hist.push, TInv, StatTW.flagOf_eq]
        | complete =>
          simp [StatTW.step, StatTW.hotEmit, StatTW.slotTerm,
            StatTW.soTerm, tpush, Hist.push, TInv, StatTW.flagOf_eq]
      | create =>
        cases n with
        | next v =>
          simp [StatTW.step, StatTW.createEmit, StatTW.slotNext, StatTW.soNext, tpush, Hist.push, TInv,
            Cutter.after_snoc]
        | error e =>
          simp [StatTW.step, StatTW.createEmit, StatTW.slotTerm, StatTW.soTerm, tpush, Hist.push, TInv, StatTW.flagOf_eq]
        | complete =>
          simp [StatTW.step, StatTW.createEmit, StatTW.slotTerm, StatTW.soTerm, tpush, Hist.push, TInv, StatTW.flagOf_eq]
      | iter k => simp [StatTW.step, tpush, TInv]
    | sub =>
      cases src with
      | hot => simp [StatTW.step, tpush, TInv]
      | create => simp [StatTW.step, tpush, TInv]
      | iter k =>
        have hf := StatTW.iterLoop_frame c (StatTW.iterItems k)
          { srcOpen := true, slot := true, subscribed := true, cut := c.after xs, flag := 0, parked := pk,
            wakes := wk }
        simp [StatTW.step, StatTW.iterSub, StatTW.soTerm, tpush, TInv, StatTW.flagOf_eq, hf]
    | poll => simp [StatTW.step, StatTW.isClosed, tpush, TInv]
    | qStatus => simp [StatTW.step, tpush, TInv]

theorem tinv_run (src : TSrc) (c : Cutter) (es : List TEv) : ∀ (w : StatTW) (h : Hist),
    TInv src c w h → TInv src c (StatTW.run src c w es).1 (thist src h es) := by
  induction es with
  | nil => intro w h hi; simpa [StatTW.run, runM, thist] using hi
  | cons e r ih =>
    intro w h hi
    have := ih _ _ (tinv_step src c w h e hi)
    simpa [StatTW.run, runM, thist] using this

/-- The flag after any history, exactly: the source's terminal, whatever the source is and whatever the
    cutter had done before.  (Before `fix: Subject::error/complete hand the terminal to every subscriber`:
    over a hot `Subject`, `0` for ever once the downstream had finished by itself.) -/
theorem flag_run (src : TSrc) (c : Cutter) (es : List TEv) :
    (StatTW.run src c {} es).1.flag = statFlag (thist src {} es).term := by
  have hi := tinv_run src c es {} {} (TInv_init src c)
  unfold TInv at hi
  cases ht : (thist src {} es).term with
  | none =>
    rw [ht] at hi
    rw [hi.2.2.2.1]
    simp [statFlag]
  | some t =>
    rw [ht] at hi
    exact hi.1

theorem statFlag_ne_zero (t : Option Notif) : (statFlag t != 0) = t.isSome := by
  cases t with
  | none => rfl
  | some n => cases n <;> rfl

/-- A terminal of the source wakes a parked waiter — whatever the downstream had done before. -/
theorem wake_step (src : TSrc) (c : Cutter) (w : StatTW) (h : Hist) (e : TEv) (hi : TInv src c w h)
    (hn : h.term = none) (ht : (tpush src h e).term ≠ none) (hp : w.parked = true) :
    (StatTW.step src c w e).1.wakes = w.wakes + 1 ∧ (StatTW.step src c w e).1.parked = false := by
  obtain ⟨so, sl, sb, ct, fl, pk, wk⟩ := w
  obtain ⟨xs, t⟩ := h
  subst hn hp
  simp only [TInv] at hi
  obtain ⟨h1, h2, h3, h4, h5⟩ := hi
  subst h1 h2 h3 h4 h5
  cases e with
  | emit n =>
    cases src with
    | hot =>
      cases n with
      | next v => simp [tpush, Hist.push] at ht
      | error e =>
        simp [StatTW.step, StatTW.hotEmit, StatTW.slotTerm, StatTW.soTerm, StatTW.wake]
      | complete =>
        simp [StatTW.step, StatTW.hotEmit, StatTW.slotTerm, StatTW.soTerm, StatTW.wake]
    | create =>
      cases n with
      | next v => simp [tpush, Hist.push] at ht
      | error e => simp [StatTW.step, StatTW.createEmit, StatTW.slotTerm, StatTW.soTerm, StatTW.wake]
      | complete => simp [StatTW.step, StatTW.createEmit, StatTW.slotTerm, StatTW.soTerm, StatTW.wake]
    | iter k => simp [tpush] at ht
  | sub =>
    cases src with
    | hot => simp [tpush] at ht
    | create => simp [tpush] at ht
    | iter k =>
      have hf := StatTW.iterLoop_frame c (StatTW.iterItems k)
        { srcOpen := true, slot := true, subscribed := true, cut := c.after xs, flag := 0, parked := true,
          wakes := wk }
      simp [StatTW.step, StatTW.iterSub, StatTW.soTerm, StatTW.wake, hf]
  | poll => simp [tpush] at ht
  | qStatus => simp [tpush] at ht

theorem run_snoc (src : TSrc) (c : Cutter) (es : List TEv) (e : TEv) :
    (StatTW.run src c {} (es ++ [e])).1 = (StatTW.step src c (StatTW.run src c {} es).1 e).1 := by
  simp [StatTW.run, runM_append, runM]

theorem thist_snoc (src : TSrc) (es : List TEv) (e : TEv) : ∀ h : Hist,
    thist src h (es ++ [e]) = tpush src (thist src h es) e := by
  induction es with
  | nil => intro h; rfl
  | cons x r ih => intro h; simpa [thist] using ih _

end Rx.Conv
