import RxModel.Pipe.World
/-
  Several subscriptions of clones of one pipeline value (C13): every
  `actual_subscribe` instantiates its own tree of observer states from the
  immutable description; nothing is shared between subscriptions except the hot
  subjects the description refers to.
-/
namespace Rx
open Node

/-- Closures that run at subscription: of_fn / start bodies and defer suppliers. -/
def Pipe.callCount : Pipe → Nat
  | .hot _ => 0
  | .src (.ofFn _) => 1
  | .src _ => 0
  | .defer p => 1 + p.callCount
  | .op1 _ p => p.callCount
  | .startWith _ p => p.callCount
  | .op2 _ a b => a.callCount + b.callCount

structure MRoot where
  node : Node
  seen : Nat := 0              -- items its probe has received
  nest : Option Nat := none    -- subscribe one more clone at the item with this index

structure MWorld where
  pipe : Pipe
  roots : List MRoot := []
  terminated : List Nat := []
  calls : Nat := 0

namespace MWorld

/-- Log the output of root `r`; a probe with `nest = some k` subscribes a fresh
    clone when it receives its k-th item: that clone starts (and, if cold, runs
    to its end) before the outer delivery continues. -/
def absorb (w : MWorld) (r : Nat) : List Notif → MWorld × List (Nat × Notif)
  | [] => (w, [])
  | n :: rest =>
    match w.roots[r]? with
    | none => (w, [])
    | some root =>
      let trigger := n.isNext && root.nest == some root.seen
      let root' := if n.isNext then { root with seen := root.seen + 1 } else root
      let w1 := { w with roots := w.roots.set r root' }
      if trigger then
        let id := w1.roots.length
        let (nd, o) := w1.pipe.instantiate.start
        let w2 := { w1 with roots := w1.roots ++ [({ node := nd } : MRoot)], calls := w1.calls + w1.pipe.callCount }
        -- the nested probe has no nest of its own
        let (w3, l3) := absorb w2 r rest
        (w3, (r, n) :: (o.map fun m => (id, m)) ++ l3)
      else
        let (w3, l3) := absorb w1 r rest
        (w3, (r, n) :: l3)

def subscribe (w : MWorld) (nest : Option Nat) : MWorld × List (Nat × Notif) :=
  let id := w.roots.length
  let (nd, o) := w.pipe.instantiate.start
  let w1 := { w with roots := w.roots ++ [({ node := nd, nest := nest } : MRoot)], calls := w.calls + w.pipe.callCount }
  w1.absorb id o

/-- Deliver `n` of subject `i` to the subscribers that exist now, in subscription order. -/
def deliverRoots (w : MWorld) (i : Nat) (n : Notif) : List Nat → MWorld × List (Nat × Notif)
  | [] => (w, [])
  | r :: rs =>
    match w.roots[r]? with
    | none => deliverRoots w i n rs
    | some root =>
      let acts := (root.node.hotPaths i).map fun p => Node.Act.deliver p false n
      let (nd, o) := root.node.runActs acts
      let w1 := { w with roots := w.roots.set r { root with node := nd } }
      let (w2, l2) := w1.absorb r o
      let (w3, l3) := deliverRoots w2 i n rs
      (w3, l2 ++ l3)

def emit (w : MWorld) (i : Nat) (n : Notif) : MWorld × List (Nat × Notif) :=
  if w.terminated.contains i then (w, [])
  else
    let w1 := if n.isTerm then { w with terminated := i :: w.terminated } else w
    w1.deliverRoots i n (List.range w1.roots.length)

def taps (w : MWorld) : List Nat :=
  match w.roots with
  | [] => (w.pipe.instantiate.taps).map fun _ => 0
  | r :: rs => rs.foldl (fun acc x => List.zipWith (· + ·) acc x.node.taps) r.node.taps

end MWorld
end Rx
