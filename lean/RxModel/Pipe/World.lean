import RxModel.Ops.Init
import RxModel.Ops.Multi
import RxModel.Ops.Source
/-
  Synchronous pipelines: a description (`Pipe`), its instantiation at
  subscription (`Node`: the tree of observer states, leaves = sources, root =
  the user's observer) and the external events that drive it.

  A notification enters at a leaf (or at a `start_with` node) and is pushed
  root-wards through every observer on the path, exactly as the nested
  synchronous calls of the Rust code do; `is_finished` is the query in the
  other direction (`downFin`).
-/
namespace Rx
open Spec

inductive Pipe where
  | hot (i : Nat)
  | src (s : Src)
  | defer (p : Pipe)
  | op1 (o : Op1) (p : Pipe)
  | startWith (vs : List Val) (p : Pipe)
  | op2 (k : Kind2) (a b : Pipe)

instance : Inhabited Pipe := ⟨.hot 0⟩

/-- Instantiated pipeline = what `actual_subscribe` builds.  `started` records
    that the source side of the node has been subscribed (cold sources emit and
    `start_with` writes its values at that moment, once). -/
inductive Node where
  | hot (i : Nat) (alive : Bool)            -- `Subscriber` slot pushed into subject i
  | cold (s : Src) (started alive : Bool)   -- `create` owns a `Subscriber` slot; others: `()`
  | n1 (st : St1) (c : Node)
  | startWith (vs : List Val) (started : Bool) (c : Node)
  | n2 (st : St2) (a b : Node)

def Pipe.instantiate : Pipe → Node
  | .hot i => .hot i true
  | .src s => .cold s false true
  | .defer p => p.instantiate
  | .op1 o p => .n1 o.init p.instantiate
  | .startWith vs p => .startWith vs false p.instantiate
  | .op2 k a b => .n2 k.init a.instantiate b.instantiate

/-- Position of a node in the tree. -/
inductive Dir where
  | down        -- the single child of n1 / startWith
  | left        -- input a of n2
  | right       -- input b of n2
  deriving DecidableEq, Repr

abbrev Path := List Dir

namespace Node

/-- A subject calling the `Subscriber` it holds: items pass while the slot is
    full; a terminal is handed to every entry — finished downstream or not — and
    empties the slot (`if let Some(o) = slot.take() { o.error(e) }`).  Before `fix:
    Subject::error/complete hand the terminal to every subscriber` an entry with
    `p_is_closed()` (= `downFin || !alive`) was skipped and kept its slot; `downFin`
    is no longer consulted. -/
def hotDeliver (_downFin : Bool) (alive : Bool) : Notif → Bool × List Notif
  | .next v => (alive, if alive then [.next v] else [])
  | t => (false, if alive then [t] else [])

/-- Subject → subscriber at `path`: push `n` root-wards through every observer
    on the way.  Returns the new tree and what leaves its root.  `downFin` is the
    answer of the observer below this subtree to `is_finished`. -/
def deliver : Node → Path → Bool → Notif → Node × List Notif
  | hot i alive, [], downFin, n =>
      let (al, o) := hotDeliver downFin alive n
      (hot i al, o)
  | hot i alive, _ :: _, _, _ => (hot i alive, [])
  | cold s st al, _, _, _ => (cold s st al, [])
  | n1 st c, .down :: p, downFin, n =>
      let (c', o) := deliver c p (st.finished downFin) n
      let (st', o') := st.run o
      (n1 st' c', o')
  | n1 st c, _, _, _ => (n1 st c, [])
  | startWith vs started c, .down :: p, downFin, n =>
      -- before `start_with` has subscribed its source nothing can reach it
      if started then
        let (c', o) := deliver c p downFin n
        (startWith vs started c', o)
      else (startWith vs started c, [])
  | startWith vs started c, _, _, _ => (startWith vs started c, [])
  | n2 st a b, .left :: p, downFin, n =>
      let (a', o) := deliver a p (st.finished .a downFin) n
      let (st', o') := st.run .a o
      (n2 st' a' b, o')
  | n2 st a b, .right :: p, downFin, n =>
      let (b', o) := deliver b p (st.finished .b downFin) n
      let (st', o') := st.run .b o
      (n2 st' a b', o')
  | n2 st a b, _, _, _ => (n2 st a b, [])

/-- The work `actual_subscribe` performs, in the order it performs it: cold
    sources emit synchronously through the observers already built, `start_with`
    writes its values before subscribing its source, two-input operators
    subscribe their inputs in their own order.  Hot leaves only register. -/
def start : Node → Node × List Notif
  | hot i alive => (hot i alive, [])
  | cold s started alive =>
      if started then (cold s started alive, [])
      else (cold s true (alive && !terminated s.emit), s.emit)
  | n1 st c =>
      let (c', o) := start c
      let (st', o') := st.run o
      (n1 st' c', o')
  | startWith vs started c =>
      let (c', o) := start c
      if started then (startWith vs true c', o)
      else (startWith vs true c', vs.map .next ++ o)
  | n2 st a b =>
      match st.firstSide with
      | .a =>
        let (a', oa) := start a
        let (st1, o1) := st.run .a oa
        let (b', ob) := start b
        let (st2, o2) := st1.run .b ob
        (n2 st2 a' b', o1 ++ o2)
      | .b =>
        let (b', ob) := start b
        let (st1, o1) := st.run .b ob
        let (a', oa) := start a
        let (st2, o2) := st1.run .a oa
        (n2 st2 a' b', o1 ++ o2)

/-- Paths of the subscribers of subject `i`, in subscription order. -/
def hotPaths (i : Nat) : Node → List Path
  | hot j _ => if i = j then [[]] else []
  | cold _ _ _ => []
  | n1 _ c => (hotPaths i c).map (.down :: ·)
  | startWith _ _ c => (hotPaths i c).map (.down :: ·)
  | n2 st a b =>
      let pa := (hotPaths i a).map (Dir.left :: ·)
      let pb := (hotPaths i b).map (Dir.right :: ·)
      match st.firstSide with
      | .a => pa ++ pb
      | .b => pb ++ pa

/-- `Subscription::unsubscribe` of the value `actual_subscribe` returned. -/
def unsub : Node → Node
  | hot i _ => hot i false
  | cold (.create sc) st _ => cold (.create sc) st false
  | cold s st alive => cold s st alive
  | n1 st c => n1 st c.unsub
  | startWith vs st c => startWith vs st c.unsub
  | n2 st a b => n2 st a.unsub b.unsub

/-- `Subscription::is_closed` of the value `actual_subscribe` returned. -/
def isClosed : Node → Bool
  | hot _ alive => !alive
  | cold (.create _) _ alive => !alive
  | cold _ _ _ => true
  | n1 _ c => c.isClosed
  | startWith _ _ c => c.isClosed
  | n2 _ a b => a.isClosed && b.isClosed   -- ZipSubscription (after `fix: ZipSubscription::is_closed`)

/-- `tap` call counters, in construction order (source-most operator first). -/
def taps : Node → List Nat
  | hot _ _ => []
  | cold _ _ _ => []
  | n1 (.tap c) ch => taps ch ++ [c]
  | n1 _ ch => taps ch
  | startWith _ _ ch => taps ch
  | n2 _ a b => taps a ++ taps b

/-- What can happen to an instantiated pipeline. -/
inductive Act where
  | start
  | deliver (p : Path) (downFin : Bool) (n : Notif)
  | unsub

def act (nd : Node) : Act → Node × List Notif
  | .start => nd.start
  | .deliver p df n => nd.deliver p df n
  | .unsub => (nd.unsub, [])

def runActs (nd : Node) : List Act → Node × List Notif
  | [] => (nd, [])
  | a :: r =>
    let (nd1, o1) := nd.act a
    let (nd2, o2) := runActs nd1 r
    (nd2, o1 ++ o2)

end Node

/-- The world of one `pipe` case. -/
structure World where
  pipe : Pipe
  terminated : List Nat        -- subjects whose observer list was taken by error/complete
  root : Option Node

inductive Ext where
  | sub
  | emit (i : Nat) (n : Notif)
  | unsub
  | qClosed
  | qTap

inductive Obs where
  | out (ns : List Notif)
  | closed (b : Bool)
  | tap (cs : List Nat)

namespace World

def init (p : Pipe) : World := { pipe := p, terminated := [], root := none }

/-- The node-level actions an external event amounts to. -/
def acts (w : World) : Ext → List Node.Act
  | .sub => [.start]
  | .emit i n =>
      if w.terminated.contains i then []
      else match w.root with
        | some nd => (nd.hotPaths i).map fun p => .deliver p false n
        | none => []
  | .unsub => [.unsub]
  | _ => []

def step (w : World) : Ext → World × Obs
  | .sub =>
      match w.root with
      | some _ => (w, .out [])              -- a case subscribes its pipeline once
      | none =>
        let (nd', o) := w.pipe.instantiate.runActs (w.acts .sub)
        ({ w with root := some nd' }, .out o)
  | .emit i n =>
      let w' := if n.isTerm && !w.terminated.contains i
                then { w with terminated := i :: w.terminated } else w
      match w.root with
      | none => (w', .out [])
      | some nd =>
        let (nd', o) := nd.runActs (w.acts (.emit i n))
        ({ w' with root := some nd' }, .out o)
  | .unsub =>
      match w.root with
      | none => (w, .out [])
      | some nd => ({ w with root := some (nd.runActs (w.acts .unsub)).1 }, .out [])
  | .qClosed => (w, .closed (match w.root with | some nd => nd.isClosed | none => true))
  | .qTap => (w, .tap (match w.root with | some nd => nd.taps | none => []))

/-- Run a whole event list; the probe log is the concatenation of the outputs. -/
def run (w : World) : List Ext → World × List Notif
  | [] => (w, [])
  | e :: r =>
    let (w1, o) := w.step e
    let (w2, os) := run w1 r
    (w2, (match o with | .out ns => ns | _ => []) ++ os)

end World
end Rx
