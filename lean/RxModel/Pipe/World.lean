import RxModel.Ops.Init
import RxModel.Ops.Multi
import RxModel.Ops.Source
/-
  Synchronous pipelines: a description (`Pipe`), its instantiation at
  subscription (`Node`: the tree of observer states, leaves = sources, root =
  the user's observer) and the external events that drive it.

  A notification enters at a leaf (or at a `start_with` node) and is pushed
  root-wards through every observer on the path, exactly as the nested
  synchronous calls of the Rust code do; `is_finished` is the query in the
  other direction (`downFin`).
-/
namespace Rx
open Spec

inductive Pipe where
  | hot (i : Nat)
  | src (s : Src)
  | defer (p : Pipe)
  | op1 (o : Op1) (p : Pipe)
  | startWith (vs : List Val) (p : Pipe)
  | op2 (k : Kind2) (a b : Pipe)

instance : Inhabited Pipe := ⟨.hot 0⟩

/-- Instantiated pipeline = what `actual_subscribe` builds. -/
inductive Node where
  | hot (i : Nat) (alive : Bool)          -- `Subscriber` slot pushed into subject i
  | cold (s : Src) (alive : Bool)         -- `create` owns a `Subscriber` slot; others: `()`
  | n1 (st : St1) (c : Node)
  | startWith (vs : List Val) (c : Node)
  | n2 (st : St2) (a b : Node)

def Pipe.instantiate : Pipe → Node
  | .hot i => .hot i true
  | .src s => .cold s true
  | .defer p => p.instantiate
  | .op1 o p => .n1 o.init p.instantiate
  | .startWith vs p => .startWith vs p.instantiate
  | .op2 k a b => .n2 k.init a.instantiate b.instantiate

/-- Position of a node in the tree. -/
inductive Dir where
  | down        -- the single child of n1 / startWith
  | left        -- input a of n2
  | right       -- input b of n2
  deriving DecidableEq, Repr

abbrev Path := List Dir

namespace Node

/-- A subject calling the `Subscriber` it holds: items pass while the slot is
    full; a terminal is delivered only if `!p_is_closed()` and empties the slot. -/
def hotDeliver (downFin : Bool) : Bool → List Notif → Bool × List Notif
  | alive, [] => (alive, [])
  | alive, .next v :: r =>
      let (al, o) := hotDeliver downFin alive r
      (al, (if alive then [.next v] else []) ++ o)
  | alive, t :: _ => if alive && !downFin then (false, [t]) else (alive, [])

/-- Inject `ns` at the node addressed by `path` and push the result root-wards.
    Returns the new tree and what leaves its root.  `downFin` is the answer of
    the observer below the root of this subtree to `is_finished`. -/
def inject : Node → Path → Bool → List Notif → Node × List Notif
  -- a subject calls the subscriber it holds
  | hot i alive, _, downFin, ns =>
      let (al, o) := hotDeliver downFin alive ns
      (hot i al, o)
  -- a cold source calls its observer directly (`create`: through its slot)
  | cold s alive, _, _, ns =>
      match s with
      | .create _ => (cold s (alive && !terminated ns), if alive then gate ns else [])
      | _ => (cold s alive, ns)
  | n1 st c, .down :: p, downFin, ns =>
      let (c', o) := inject c p (st.finished downFin) ns
      let (st', o') := st.run o
      (n1 st' c', o')
  | n1 st c, _, _, _ => (n1 st c, [])
  -- start_with writes to its downstream observer itself
  | startWith vs c, [], _, ns => (startWith vs c, ns)
  | startWith vs c, .down :: p, downFin, ns =>
      let (c', o) := inject c p downFin ns
      (startWith vs c', o)
  | startWith vs c, _, _, _ => (startWith vs c, [])
  | n2 st a b, .left :: p, downFin, ns =>
      let (a', o) := inject a p (st.finished .a downFin) ns
      let (st', o') := st.run .a o
      (n2 st' a' b, o')
  | n2 st a b, .right :: p, downFin, ns =>
      let (b', o) := inject b p (st.finished .b downFin) ns
      let (st', o') := st.run .b o
      (n2 st' a b', o')
  | n2 st a b, _, _, _ => (n2 st a b, [])

/-- The work `actual_subscribe` performs, in the order it performs it: each
    entry is (path, what is injected there).  Hot leaves inject nothing. -/
def startPlan : Node → List (Path × List Notif)
  | hot _ _ => []
  | cold s _ => [([], s.emit)]
  | n1 _ c => (startPlan c).map fun (p, ns) => (.down :: p, ns)
  | startWith vs c =>
      ([], vs.map .next) :: (startPlan c).map fun (p, ns) => (.down :: p, ns)
  | n2 st a b =>
      let pa := (startPlan a).map fun (p, ns) => (Dir.left :: p, ns)
      let pb := (startPlan b).map fun (p, ns) => (Dir.right :: p, ns)
      match st.firstSide with
      | .a => pa ++ pb
      | .b => pb ++ pa

/-- Paths of the subscribers of subject `i`, in subscription order. -/
def hotPaths (i : Nat) : Node → List Path
  | hot j _ => if i = j then [[]] else []
  | cold _ _ => []
  | n1 _ c => (hotPaths i c).map (.down :: ·)
  | startWith _ c => (hotPaths i c).map (.down :: ·)
  | n2 st a b =>
      let pa := (hotPaths i a).map (Dir.left :: ·)
      let pb := (hotPaths i b).map (Dir.right :: ·)
      match st.firstSide with
      | .a => pa ++ pb
      | .b => pb ++ pa

/-- Run a list of injections in order. -/
def injectAll (nd : Node) : List (Path × List Notif) → Node × List Notif
  | [] => (nd, [])
  | (p, ns) :: r =>
    let (nd1, o1) := nd.inject p false ns
    let (nd2, o2) := injectAll nd1 r
    (nd2, o1 ++ o2)

/-- `Subscription::unsubscribe` of the value `actual_subscribe` returned. -/
def unsub : Node → Node
  | hot i _ => hot i false
  | cold (.create sc) _ => cold (.create sc) false
  | cold s alive => cold s alive
  | n1 st c => n1 st c.unsub
  | startWith vs c => startWith vs c.unsub
  | n2 st a b => n2 st a.unsub b.unsub

/-- `Subscription::is_closed` of the value `actual_subscribe` returned. -/
def isClosed : Node → Bool
  | hot _ alive => !alive
  | cold (.create _) alive => !alive
  | cold _ _ => true
  | n1 _ c => c.isClosed
  | startWith _ c => c.isClosed
  | n2 _ _ b => b.isClosed       -- ZipSubscription::is_closed looks at its second half only

/-- `tap` call counters, in construction order (source-most operator first). -/
def taps : Node → List Nat
  | hot _ _ => []
  | cold _ _ => []
  | n1 (.tap c) ch => taps ch ++ [c]
  | n1 _ ch => taps ch
  | startWith _ ch => taps ch
  | n2 _ a b => taps a ++ taps b

end Node

/-- The world of one `pipe` case. -/
structure World where
  pipe : Pipe
  terminated : List Nat        -- subjects whose observer list was taken by error/complete
  root : Option Node

inductive Ext where
  | sub
  | emit (i : Nat) (n : Notif)
  | unsub
  | qClosed
  | qTap

inductive Obs where
  | out (ns : List Notif)
  | closed (b : Bool)
  | tap (cs : List Nat)

namespace World

def init (p : Pipe) : World := { pipe := p, terminated := [], root := none }

def step (w : World) : Ext → World × Obs
  | .sub =>
      let nd := w.pipe.instantiate
      let (nd', o) := nd.injectAll nd.startPlan
      ({ w with root := some nd' }, .out o)
  | .emit i n =>
      if w.terminated.contains i then (w, .out [])
      else
        let w' := if n.isTerm then { w with terminated := i :: w.terminated } else w
        match w.root with
        | none => (w', .out [])
        | some nd =>
          let (nd', o) := nd.injectAll ((nd.hotPaths i).map fun p => (p, [n]))
          ({ w' with root := some nd' }, .out o)
  | .unsub =>
      ({ w with root := w.root.map Node.unsub }, .out [])
  | .qClosed => (w, .closed (match w.root with | some nd => nd.isClosed | none => true))
  | .qTap => (w, .tap (match w.root with | some nd => nd.taps | none => []))

end World
end Rx
