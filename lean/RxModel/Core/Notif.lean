/-
  Core data of the rxRust model: values, notifications, well-formed streams.
  Core Lean only (no Mathlib): everything here is linked into `rxdriver`.
-/
namespace Rx

/-- Items carried by streams.  Collections are cons-lists so that `DecidableEq`
    can be derived; `obs k` names the k-th inner observable of a case. -/
inductive Val where
  | int (i : Int)
  | bool (b : Bool)
  | unit
  | pair (a b : Val)
  | nil
  | cons (h t : Val)
  | none
  | some (v : Val)
  | obs (k : Nat)
  deriving DecidableEq, Repr, Inhabited

abbrev Err := Int

/-- One call on an observer: `next v`, `error e`, `complete`. -/
inductive Notif where
  | next (v : Val)
  | error (e : Err)
  | complete
  deriving DecidableEq, Repr, Inhabited

namespace Notif
def isTerm : Notif → Bool
  | .next _ => false
  | _ => true

def isNext : Notif → Bool
  | .next _ => true
  | _ => false
end Notif

/-- Encode a Lean list as a `Val` cons-list (what `Vec<Item>` becomes). -/
def Val.ofList : List Val → Val
  | [] => .nil
  | x :: xs => .cons x (Val.ofList xs)

/-- Items of a notification sequence. -/
def items : List Notif → List Val
  | [] => []
  | .next v :: r => v :: items r
  | _ :: r => items r

/-- Well-formed stream: items, then at most one terminal, then nothing. -/
def WF : List Notif → Prop
  | [] => True
  | .next _ :: r => WF r
  | _ :: r => r = []

def decWF : (s : List Notif) → Decidable (WF s)
  | [] => isTrue trivial
  | .next _ :: r => decWF r
  | .error _ :: r => (inferInstance : Decidable (r = []))
  | .complete :: r => (inferInstance : Decidable (r = []))

instance : DecidablePred WF := decWF

/-- A stream that has seen its terminal. -/
def terminated : List Notif → Bool
  | [] => false
  | .next _ :: r => terminated r
  | _ :: _ => true

/-- What an `Option` slot lets through: everything up to and including the first
    terminal. -/
def gate : List Notif → List Notif
  | [] => []
  | .next v :: r => .next v :: gate r
  | t :: _ => [t]

/-- Canonical well-formed stream: items then an optional terminal. -/
def mk (xs : List Val) (t : Option Notif) : List Notif :=
  xs.map Notif.next ++ (match t with | some n => [n] | none => [])

@[simp] theorem WF_nil : WF [] := trivial
@[simp] theorem WF_next_cons (v : Val) (r : List Notif) : WF (.next v :: r) ↔ WF r := Iff.rfl
@[simp] theorem WF_error_cons (e : Err) (r : List Notif) : WF (.error e :: r) ↔ r = [] := Iff.rfl
@[simp] theorem WF_complete_cons (r : List Notif) : WF (.complete :: r) ↔ r = [] := Iff.rfl

theorem WF_single (n : Notif) : WF [n] := by cases n <;> simp

theorem WF_gate (s : List Notif) : WF (gate s) := by
  induction s with
  | nil => simp [gate]
  | cons n r ih => cases n <;> simp [gate, ih]

theorem gate_of_WF {s : List Notif} (h : WF s) : gate s = s := by
  induction s with
  | nil => rfl
  | cons n r ih => cases n <;> simp_all [gate]

theorem WF_nexts (xs : List Val) : WF (xs.map Notif.next) := by
  induction xs with
  | nil => simp
  | cons x xs ih => simpa using ih

theorem WF_nexts_append (xs : List Val) (s : List Notif) :
    WF (xs.map Notif.next ++ s) ↔ WF s := by
  induction xs with
  | nil => simp
  | cons x xs ih => simpa using ih

/-- Appending to a well-formed, unterminated stream. -/
theorem WF_append {a b : List Notif} (ha : WF a) (hna : terminated a = false) (hb : WF b) :
    WF (a ++ b) := by
  induction a with
  | nil => simpa using hb
  | cons n r ih => cases n <;> simp_all [terminated]

theorem terminated_append (a b : List Notif) :
    terminated (a ++ b) = (terminated a || terminated b) := by
  induction a with
  | nil => simp [terminated]
  | cons n r ih => cases n <;> simp [terminated, ih]

theorem WF_append_iff (a b : List Notif) :
    WF (a ++ b) ↔ WF a ∧ (terminated a = true → b = []) ∧ WF b := by
  induction a with
  | nil => simp [terminated]
  | cons n r ih =>
    cases n with
    | next v => simpa [terminated] using ih
    | error e =>
      simp only [List.cons_append, WF_error_cons, List.append_eq_nil_iff, terminated]
      constructor
      · rintro ⟨rfl, rfl⟩; simp
      · rintro ⟨rfl, h, _⟩; simp [h]
    | complete =>
      simp only [List.cons_append, WF_complete_cons, List.append_eq_nil_iff, terminated]
      constructor
      · rintro ⟨rfl, rfl⟩; simp
      · rintro ⟨rfl, h, _⟩; simp [h]

theorem WF_mk (xs : List Val) (t : Option Notif) (ht : ∀ n, t = some n → n.isTerm = true) :
    WF (mk xs t) := by
  unfold mk
  rw [WF_nexts_append]
  cases t with
  | none => simp
  | some n => exact WF_single n

/-- Every well-formed stream is canonical. -/
theorem WF_iff_mk (s : List Notif) :
    WF s ↔ ∃ xs t, (∀ n, t = some n → n.isTerm = true) ∧ s = mk xs t := by
  constructor
  · intro h
    induction s with
    | nil => exact ⟨[], none, by simp, rfl⟩
    | cons n r ih =>
      cases n with
      | next v =>
        obtain ⟨xs, t, ht, rfl⟩ := ih h
        exact ⟨v :: xs, t, ht, by simp [mk]⟩
      | error e =>
        simp at h; subst h
        exact ⟨[], some (.error e), by simp [Notif.isTerm], by simp [mk]⟩
      | complete =>
        simp at h; subst h
        exact ⟨[], some .complete, by simp [Notif.isTerm], by simp [mk]⟩
  · rintro ⟨xs, t, ht, rfl⟩
    exact WF_mk xs t ht

theorem items_append (a b : List Notif) : items (a ++ b) = items a ++ items b := by
  induction a with
  | nil => rfl
  | cons n r ih => cases n <;> simp [items, ih]

@[simp] theorem items_nexts (xs : List Val) : items (xs.map Notif.next) = xs := by
  induction xs with
  | nil => rfl
  | cons x xs ih => simp [items, ih]

@[simp] theorem terminated_nexts (xs : List Val) : terminated (xs.map Notif.next) = false := by
  induction xs with
  | nil => rfl
  | cons x xs ih => simp [terminated, ih]

end Rx
