import RxModel.Subject.Share
/-
  Helper lemmas for C11 (publish/connect, share).
-/
namespace Rx.Share
namespace W

/-- Deliveries printed by an event. -/
def dlvOf : Out → List Dlv
  | .dlv ds _ _ => ds
  | .counters _ _ _ => []

/-- Fields a broadcast through the inner subject never touches. -/
def Frame (a b : W) : Prop :=
  b.model = a.model ∧ b.kind = a.kind ∧ b.cold = a.cold ∧ b.connected = a.connected ∧
    b.handles = a.handles ∧ b.hotOpen = a.hotOpen ∧ b.hotEntry = a.hotEntry ∧
    b.connCell = a.connCell ∧ b.connHeld = a.connHeld ∧ b.srcSubs = a.srcSubs

theorem Frame.refl (a : W) : Frame a a := by simp [Frame]

theorem Frame.trans {a b c : W} (h1 : Frame a b) (h2 : Frame b c) : Frame a c := by
  simp only [Frame] at *
  obtain ⟨a1, a2, a3, a4, a5, a6, a7, a8, a9, a10⟩ := h1
  obtain ⟨b1, b2, b3, b4, b5, b6, b7, b8, b9, b10⟩ := h2
  simp [*]

theorem subjNext_frame (w : W) (v : Val) : Frame w (w.subjNext v).1 := by
  simp only [subjNext]; split <;> simp [Frame]

theorem subjTerminal_frame (w : W) (t : Notif) : Frame w (w.subjTerminal t).1 := by
  simp only [subjTerminal]; split <;> simp [Frame]

theorem tapCall_frame (w : W) (n : Notif) : Frame w (w.tapCall n).1 := by
  cases n with
  | next v =>
    have := subjNext_frame { w with tap := w.tap + 1 } v
    simpa [tapCall, Frame] using this
  | error e => exact subjTerminal_frame w _
  | complete => exact subjTerminal_frame w _

theorem coldEmit_frame (w : W) (xs : List Val) : Frame w (w.coldEmit xs).1 := by
  induction xs generalizing w with
  | nil => exact tapCall_frame w _
  | cons v r ih =>
    simp only [coldEmit]
    exact Frame.trans (tapCall_frame w _) (ih _)

/-! ### a closed inner subject stays closed and delivers nothing -/

theorem load_none {s : Subj} (h : s.observers = none) : load s = s := by simp [load, h]

theorem subjNext_closed (w : W) (v : Val) (h : w.subj.observers = none) :
    (w.subjNext v).1.subj.observers = none ∧ (w.subjNext v).2 = [] ∧ (w.subjNext v).1.tap = w.tap := by
  simp [subjNext, load_none h, h]

theorem subjTerminal_closed (w : W) (t : Notif) :
    (w.subjTerminal t).1.subj.observers = none ∧ (w.subjTerminal t).1.tap = w.tap := by
  simp only [subjTerminal]
  cases h : (load w.subj).observers with
  | none => simp [h]
  | some obs => simp

theorem subjTerminal_closed_dlv (w : W) (t : Notif) (h : w.subj.observers = none) :
    (w.subjTerminal t).2 = [] := by
  simp [subjTerminal, load_none h, h]

theorem coldEmit_closed (w : W) (xs : List Val) : (w.coldEmit xs).1.subj.observers = none := by
  induction xs generalizing w with
  | nil => exact (subjTerminal_closed w _).1
  | cons v r ih => simp only [coldEmit]; exact ih _

/-- The event that makes the source subscription: the first `sub` (share), `connect` (publish). -/
def trigger : Kind → Ev → Bool
  | .share, .sub _ => true
  | .publish, .connect => true
  | _, _ => false

theorem doConnect_fields (w : W) (keep : Bool) :
    (w.doConnect keep).1.connected = true ∧ (w.doConnect keep).1.srcSubs = w.srcSubs + 1 ∧
      (w.doConnect keep).1.kind = w.kind ∧ (w.doConnect keep).1.model = w.model ∧
      (w.doConnect keep).1.cold = w.cold := by
  simp only [doConnect]
  split
  · rename_i xs _
    have := coldEmit_frame { w with connected := true, srcSubs := w.srcSubs + 1 } xs
    simp only [Frame] at this
    simp [this]
  · simp

theorem unsubscribe_fields (w : W) (k : Nat) :
    (w.unsubscribe k).connected = w.connected ∧ (w.unsubscribe k).srcSubs = w.srcSubs ∧
      (w.unsubscribe k).kind = w.kind ∧ (w.unsubscribe k).model = w.model ∧
      (w.unsubscribe k).cold = w.cold ∧ (w.unsubscribe k).tap = w.tap ∧
      (w.unsubscribe k).hotEntry = w.hotEntry ∧ (w.unsubscribe k).hotOpen = w.hotOpen := by
  simp only [unsubscribe]
  split
  · simp
  · split
    · simp
    · split
      · split
        · simp [subjUnsubscribe]
        · split <;> simp [subjUnsubscribe]
      · simp

theorem hotEmit_frame (w : W) (n : Notif) :
    (w.hotEmit n).1.connected = w.connected ∧ (w.hotEmit n).1.srcSubs = w.srcSubs ∧
      (w.hotEmit n).1.kind = w.kind ∧ (w.hotEmit n).1.model = w.model ∧
      (w.hotEmit n).1.cold = w.cold := by
  cases n with
  | next v =>
    simp only [hotEmit]
    split
    · have := tapCall_frame w (.next v); simp only [Frame] at this; simp [this]
    · simp
  | error e =>
    simp only [hotEmit]
    split
    · split
      · have := tapCall_frame { w with hotOpen := false, connCell := false } (.error e)
        simp only [Frame] at this; simp [this]
      · simp
    · simp
  | complete =>
    simp only [hotEmit]
    split
    · split
      · have := tapCall_frame { w with hotOpen := false, connCell := false } .complete
        simp only [Frame] at this; simp [this]
      · simp
    · simp

theorem attach_fields (w : W) (k : Nat) :
    (w.attach k).connected = w.connected ∧ (w.attach k).srcSubs = w.srcSubs ∧
      (w.attach k).kind = w.kind ∧ (w.attach k).model = w.model ∧ (w.attach k).cold = w.cold ∧
      (w.attach k).tap = w.tap ∧ (w.attach k).hotEntry = w.hotEntry ∧
      (w.attach k).hotOpen = w.hotOpen ∧ (w.attach k).connCell = w.connCell ∧
      (w.attach k).connHeld = w.connHeld ∧ (w.attach k).subj.observers = w.subj.observers := by
  simp only [attach, subjSubscribe]
  split <;> simp

/-- One step: configuration constant, `connected` is set by the trigger only, and the
    source-subscription counter follows it. -/
theorem step_once (w : W) (e : Ev) (hinv : w.srcSubs = if w.connected then 1 else 0) :
    (w.step e).1.kind = w.kind ∧ (w.step e).1.model = w.model ∧ (w.step e).1.cold = w.cold ∧
      (w.step e).1.connected = (w.connected || trigger w.kind e) ∧
      (w.step e).1.srcSubs = if (w.step e).1.connected then 1 else 0 := by
  cases e with
  | sub k =>
    have ha := attach_fields w k
    cases hk : w.kind with
    | publish => simp [step, subscribe, hk, ha, trigger, hinv]
    | share =>
      cases hc : w.connected with
      | true => simp [step, subscribe, hk, hc, ha, trigger, hinv]
      | false =>
        have hd := doConnect_fields (w.attach k) (keepConn w.model)
        simp [step, subscribe, hk, hc, trigger, hd, ha, hinv]
  | unsub k =>
    have := unsubscribe_fields w k
    cases hk : w.kind <;> simp [step, this, trigger, hinv, hk]
  | emit n =>
    have := hotEmit_frame w n
    cases hk : w.kind <;> simp [step, this, trigger, hinv, hk]
  | connect =>
    cases hk : w.kind with
    | share => simp [step, hk, trigger, hinv]
    | publish =>
      cases hc : w.connected with
      | true => simp [step, hk, hc, trigger, hinv]
      | false =>
        have := doConnect_fields w true
        simp [step, hk, hc, trigger, this, hinv]
  | q =>
    cases hk : w.kind <;> simp [step, trigger, hinv, hk]


theorem run_once (es : List Ev) (w : W) (hinv : w.srcSubs = if w.connected then 1 else 0) :
    (w.run es).1.kind = w.kind ∧ (w.run es).1.model = w.model ∧ (w.run es).1.cold = w.cold ∧
      (w.run es).1.connected = (w.connected || es.any (trigger w.kind)) ∧
      (w.run es).1.srcSubs = if (w.run es).1.connected then 1 else 0 := by
  induction es generalizing w with
  | nil => exact ⟨rfl, rfl, rfl, by simp [run], hinv⟩
  | cons e r ih =>
    obtain ⟨h1, h2, h3, h4, h5⟩ := step_once w e hinv
    obtain ⟨i1, i2, i3, i4, i5⟩ := ih (w.step e).1 h5
    simp only [run]
    refine ⟨by rw [i1, h1], by rw [i2, h2], by rw [i3, h3], ?_, i5⟩
    rw [i4, h4, h1]; simp [Bool.or_assoc]

/-- Nothing has been connected yet: no source subscription, the tap has not run, nothing is wired. -/
def Idle (w : W) : Prop :=
  w.connected = false ∧ w.srcSubs = 0 ∧ w.tap = 0 ∧ w.hotEntry = false

theorem step_idle (w : W) (e : Ev) (hi : Idle w) (ht : trigger w.kind e = false) :
    Idle (w.step e).1 ∧ (w.step e).1.kind = w.kind ∧ dlvOf (w.step e).2 = [] := by
  obtain ⟨h1, h2, h3, h4⟩ := hi
  cases e with
  | sub k =>
    have ha := attach_fields w k
    cases hk : w.kind with
    | publish => simp [step, subscribe, hk, ha, Idle, dlvOf, h1, h2, h3, h4]
    | share => simp [trigger, hk] at ht
  | unsub k =>
    have := unsubscribe_fields w k
    simp [step, this, Idle, dlvOf, h1, h2, h3, h4]
  | emit n =>
    cases n <;> simp [step, hotEmit, h4, Idle, dlvOf, h1, h2, h3] <;> split <;> simp [h1, h2, h3, h4]
  | connect =>
    cases hk : w.kind with
    | share => simp [step, hk, Idle, dlvOf, h1, h2, h3, h4]
    | publish => simp [trigger, hk] at ht
  | q => simp [step, Idle, dlvOf, h1, h2, h3, h4]

theorem run_idle (es : List Ev) (w : W) (hi : Idle w) (ht : ∀ e ∈ es, trigger w.kind e = false) :
    Idle (w.run es).1 ∧ ∀ o ∈ (w.run es).2, dlvOf o = [] := by
  induction es generalizing w with
  | nil => simp [run, hi]
  | cons e r ih =>
    obtain ⟨h1, h2, h3⟩ := step_idle w e hi (ht e (by simp))
    obtain ⟨i1, i2⟩ := ih (w.step e).1 h1 (by rw [h2]; intro e' he'; exact ht e' (by simp [he']))
    simp only [run]
    refine ⟨i1, ?_⟩
    intro o ho
    simp at ho
    rcases ho with rfl | ho
    · exact h3
    · exact i2 o ho


/-- Cell ids of every entry of the inner subject (loaded or still in the chamber). -/
def entries (w : W) : List Nat := w.subj.observers.getD [] ++ w.subj.chamber.getD []

/-- The hot source is wired to the inner subject and both are alive. -/
def Flowing (w : W) : Prop :=
  w.hotOpen = true ∧ w.hotEntry = true ∧ w.connCell = true ∧ w.subj.observers.isSome = true

theorem multicast_step (w : W) (v : Val) (hf : Flowing w) (id k : Nat)
    (hid : id ∈ w.entries) (hc : w.cell id = some k) :
    (k, Notif.next v) ∈ dlvOf (w.step (.emit (.next v))).2 := by
  obtain ⟨h1, h2, h3, h4⟩ := hf
  obtain ⟨obs, ho⟩ := Option.isSome_iff_exists.1 h4
  simp only [entries, ho, Option.getD_some] at hid
  simp only [step, hotEmit, h1, h2, h3, Bool.and_self, if_true, tapCall, subjNext, load, ho, dlvOf,
    broadcast]
  apply List.mem_filterMap.2
  refine ⟨id, hid, ?_⟩
  simp only [cell] at hc
  simp [hc]

/-- Nothing can be delivered and the upstream is not run any more. -/
def Quiet (w : W) : Prop :=
  w.connected = true ∧ w.subj.observers = none ∧ (w.hotOpen && w.hotEntry && w.connCell) = false

theorem unsubscribe_quiet (w : W) (k : Nat) (ho : w.subj.observers = none)
    (hw : (w.hotOpen && w.hotEntry && w.connCell) = false) :
    (w.unsubscribe k).subj.observers = none ∧
      ((w.unsubscribe k).hotOpen && (w.unsubscribe k).hotEntry && (w.unsubscribe k).connCell) = false := by
  simp only [unsubscribe]
  split
  · exact ⟨ho, hw⟩
  · split
    · exact ⟨ho, hw⟩
    · split
      · split
        · simp [subjUnsubscribe, hw]
        · split <;> simp [subjUnsubscribe, hw]
      · exact ⟨ho, hw⟩

theorem step_quiet (w : W) (e : Ev) (hq : Quiet w) :
    Quiet (w.step e).1 ∧ dlvOf (w.step e).2 = [] ∧ (w.step e).1.tap = w.tap := by
  obtain ⟨h1, h2, h3⟩ := hq
  cases e with
  | sub k =>
    have ha := attach_fields w k
    cases hk : w.kind <;> simp [step, subscribe, hk, h1, ha, Quiet, dlvOf, h2, h3]
  | unsub k =>
    have hf := unsubscribe_fields w k
    have hu := unsubscribe_quiet w k h2 h3
    exact ⟨⟨by simp [step, hf.1, h1], by simpa [step] using hu.1, by simpa [step] using hu.2⟩,
      by simp [step, dlvOf], by simp [step, hf]⟩
  | emit n =>
    cases n with
    | next v => simp [step, hotEmit, h3, Quiet, dlvOf, h1, h2]
    | error x =>
      simp only [step, hotEmit]
      split
      · rename_i ho
        have hec : (w.hotEntry && w.connCell) = false := by simpa [ho] using h3
        simp [hec, Quiet, dlvOf, h1, h2]
      · simp [Quiet, dlvOf, h1, h2, h3]
    | complete =>
      simp only [step, hotEmit]
      split
      · rename_i ho
        have hec : (w.hotEntry && w.connCell) = false := by simpa [ho] using h3
        simp [hec, Quiet, dlvOf, h1, h2]
      · simp [Quiet, dlvOf, h1, h2, h3]
  | connect => cases hk : w.kind <;> simp [step, hk, h1, Quiet, dlvOf, h2, h3]
  | q => simp [step, Quiet, dlvOf, h1, h2, h3]

theorem run_quiet (es : List Ev) (w : W) (hq : Quiet w) :
    (∀ o ∈ (w.run es).2, dlvOf o = []) ∧ (w.run es).1.tap = w.tap := by
  induction es generalizing w with
  | nil => simp [run]
  | cons e r ih =>
    obtain ⟨h1, h2, h3⟩ := step_quiet w e hq
    obtain ⟨i1, i2⟩ := ih (w.step e).1 h1
    simp only [run]
    refine ⟨?_, by rw [i2, h3]⟩
    intro o ho
    simp at ho
    rcases ho with rfl | ho
    · exact h2
    · exact i1 o ho


/-- Repaired share: while the connection cell is full, the connection subscription is held. -/
def Held (w : W) : Prop := w.connCell = true → w.connHeld = true

theorem doConnect_held (w : W) (hh : Held w) : Held (w.doConnect true).1 := by
  simp only [doConnect]
  split
  · rename_i xs _
    have := coldEmit_frame { w with connected := true, srcSubs := w.srcSubs + 1 } xs
    simp only [Frame] at this
    simp only [Held, this]; exact hh
  · simp [Held]

theorem step_held (w : W) (e : Ev) (hm : w.model = .fixed) (hk : w.kind = .share) (hh : Held w) :
    Held (w.step e).1 := by
  cases e with
  | sub k =>
    have ha := attach_fields w k
    have hha : Held (w.attach k) := by simp only [Held, ha]; exact hh
    cases hc : w.connected with
    | true => simpa [step, subscribe, hk, hc] using hha
    | false =>
      simp only [step, subscribe, hk, hc, hm, keepConn]
      exact doConnect_held _ hha
  | unsub k =>
    simp only [step, unsubscribe]
    split
    · exact hh
    · simp only [hk, hm]
      split
      · split
        · simp [Held, subjUnsubscribe]
        · rename_i hn
          simp only [Held, subjUnsubscribe] at *
          intro hc
          have := hh hc
          simp [this] at hn
      · exact hh
  | emit n =>
    cases n with
    | next v =>
      simp only [step, hotEmit]
      split
      · have := tapCall_frame w (.next v); simp only [Frame] at this
        simp only [Held, this]; exact hh
      · exact hh
    | error x =>
      simp only [step, hotEmit]
      split
      · split
        · have := tapCall_frame { w with hotOpen := false, connCell := false } (.error x)
          simp only [Frame] at this
          simp [Held, this]
        · exact hh
      · exact hh
    | complete =>
      simp only [step, hotEmit]
      split
      · split
        · have := tapCall_frame { w with hotOpen := false, connCell := false } .complete
          simp only [Frame] at this
          simp [Held, this]
        · exact hh
      · exact hh
  | connect => simpa [step, hk] using hh
  | q => simpa [step] using hh

theorem run_held (es : List Ev) (w : W) (hm : w.model = .fixed) (hk : w.kind = .share)
    (hi : w.srcSubs = if w.connected then 1 else 0) (hh : Held w) : Held (w.run es).1 := by
  induction es generalizing w with
  | nil => exact hh
  | cons e r ih =>
    obtain ⟨h1, h2, _, _, h5⟩ := step_once w e hi
    simp only [run]
    exact ih _ (by rw [h2, hm]) (by rw [h1, hk]) h5 (step_held w e hm hk hh)

/-- The last leaver of a repaired `share` releases: subject unsubscribed, connection unsubscribed. -/
theorem release_step (w : W) (k id : Nat) (hm : w.model = .fixed) (hk : w.kind = .share)
    (hc : w.connected = true) (hh : (w.handles[k]?).join = some id) (hJ : Held w)
    (hlast : ∀ j ∈ w.entries, j ≠ id → w.cell j = none) : Quiet (w.unsubscribe k) := by
  obtain ⟨model, kind, cold, connected, subj, cells, handles, hotOpen, hotEntry, connCell, connHeld,
    srcSubs, tap⟩ := w
  simp only at hm hk hc hh
  subst hm hk hc
  simp only [entries, cell, Held] at hlast hJ
  have hempty : subjIsEmpty
      { model := .fixed, kind := .share, cold := cold, connected := true, subj := subj,
        cells := cells.set id none, handles := handles.set k none, hotOpen := hotOpen,
        hotEntry := hotEntry, connCell := connCell, connHeld := connHeld, srcSubs := srcSubs,
        tap := tap } = true := by
    simp only [subjIsEmpty]
    cases ho : subj.observers with
    | none => rfl
    | some obs =>
      simp only [List.all_eq_true]
      intro j hj
      have hj' : j ∈ subj.observers.getD [] ++ subj.chamber.getD [] := by simpa [ho] using hj
      by_cases hji : j = id
      · subst hji
        simp only [cell]
        by_cases hlt : j < cells.length <;> simp [List.getElem?_set, hlt]
      · have := hlast j hj' hji
        simp only [cell]
        rw [List.getElem?_set_ne (Ne.symm hji)]
        simp [this]
  cases connHeld with
  | true =>
    simp only [unsubscribe, hh, hempty, if_true, subjUnsubscribe]
    simp [Quiet]
  | false =>
    have hcc : connCell = false := by
      cases connCell with
      | false => rfl
      | true => exact absurd (hJ rfl) (by simp)
    subst hcc
    simp only [unsubscribe, hh, hempty, if_true, subjUnsubscribe]
    simp [Quiet]

/-- Cold sources: by the time `connect()` returns the source has completed. -/
def ColdDone (w : W) : Prop :=
  w.connCell = false ∧ (w.connected = true → w.subj.observers = none)

theorem step_coldDone (w : W) (e : Ev) (xs : List Val) (hcold : w.cold = some xs) (h : ColdDone w) :
    ColdDone (w.step e).1 := by
  obtain ⟨h1, h2⟩ := h
  have hdc : ∀ (w' : W) (keep : Bool), w'.cold = some xs → w'.connCell = false →
      ColdDone (w'.doConnect keep).1 := by
    intro w' keep hc hcc
    simp only [doConnect]
    split
    · rename_i ys _
      have hf := coldEmit_frame { w' with connected := true, srcSubs := w'.srcSubs + 1 } ys
      simp only [Frame] at hf
      exact ⟨by rw [hf.2.2.2.2.2.2.2.1]; exact hcc, fun _ => coldEmit_closed _ _⟩
    · simp_all
  cases e with
  | sub k =>
    have ha := attach_fields w k
    cases hk : w.kind with
    | publish => simp [step, subscribe, hk, ColdDone, ha, h1]; exact h2
    | share =>
      cases hc : w.connected with
      | true => simp [step, subscribe, hk, hc, ColdDone, ha, h1]; exact h2 hc
      | false =>
        simp only [step, subscribe, hk, hc]
        exact hdc _ _ (by rw [ha.2.2.2.2.1, hcold]) (by rw [ha.2.2.2.2.2.2.2.2.1, h1])
  | unsub k =>
    have hf := unsubscribe_fields w k
    simp only [step, ColdDone, hf.1]
    simp only [unsubscribe]
    split
    · exact ⟨h1, h2⟩
    · split
      · exact ⟨h1, h2⟩
      · split
        · split
          · simp [subjUnsubscribe, h1]
          · split <;> simp [subjUnsubscribe, h1]
        · exact ⟨h1, h2⟩
  | emit n =>
    cases n with
    | next v => simp [step, hotEmit, h1, ColdDone]; exact h2
    | error x => simp only [step, hotEmit, h1]; split <;> simp [ColdDone, h1] <;> exact h2
    | complete => simp only [step, hotEmit, h1]; split <;> simp [ColdDone, h1] <;> exact h2
  | connect =>
    cases hk : w.kind with
    | share => simpa [step, hk, ColdDone] using ⟨h1, h2⟩
    | publish =>
      cases hc : w.connected with
      | true => simpa [step, hk, hc, ColdDone] using ⟨h1, h2 hc⟩
      | false =>
        simp only [step, hk, hc]
        exact hdc _ _ hcold h1
  | q => simpa [step, ColdDone] using ⟨h1, h2⟩

theorem run_coldDone (es : List Ev) (w : W) (xs : List Val) (hcold : w.cold = some xs)
    (hi : w.srcSubs = if w.connected then 1 else 0) (h : ColdDone w) : ColdDone (w.run es).1 := by
  induction es generalizing w with
  | nil => exact h
  | cons e r ih =>
    obtain ⟨_, _, h3, _, h5⟩ := step_once w e hi
    simp only [run]
    exact ih _ (by rw [h3, hcold]) h5 (step_coldDone w e xs hcold h)


end W
end Rx.Share
