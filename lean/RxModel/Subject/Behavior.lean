import RxModel.Subject.Subject
/-
  BehaviorSubject (src/subject/behavior_subject.rs, src/behavior.rs):
  `{subject, value}`; `#[derive(Clone)]` clones the subject (shared cells) and the
  `Rc`/`Arc` of the value cell, so every clone sees the same `BState`.
-/
namespace Rx.Subj

structure BState where
  subject : State
  value : Val
  deriving Repr, DecidableEq

/-- `BehaviorSubject::new(v)` -/
def BState.init (v : Val) : BState := ⟨State.init, v⟩

inductive BOp where
  | subscribe (script : List Act)
  | unsubOne (i : SlotId)
  | next (v : Val)
  | nextBy (f : Val → Val)
  | error (e : Err)
  | complete
  | unsubscribe
  | clone
  | peek

/-- `next`: `*self.value.rc_deref_mut() = value.clone();` (borrow released) then
    `self.subject.next(value)`.  A subscription made from inside a callback of this
    broadcast reads the cell, which already holds the in-flight value. -/
def BState.next (b : BState) (v : Val) : BState × List Delivery :=
  let r := b.subject.next (some v) v
  (⟨r.1, v⟩, r.2)

/-- `actual_subscribe`: `observer.next(self.value.rc_deref().clone())`, then
    `self.subject.actual_subscribe(observer)`.  The greeting is given to the bare
    observer (it is logged; the probe's script starts with the first broadcast item). -/
def BState.subscribe (b : BState) (script : List Act) : BState × List Delivery :=
  (⟨b.subject.subscribe script [.next b.value], b.value⟩,
   [(b.subject.slots.length, .next b.value)])

/-- `Behavior::peek` -/
def BState.peek (b : BState) : Val := b.value

def BState.apply (b : BState) : BOp → BState × List Delivery
  | .subscribe script => b.subscribe script
  | .unsubOne i => (⟨b.subject.killSlot i, b.value⟩, [])
  | .next v => b.next v
  -- `Behavior::next_by`: `let data = f(self.peek()); self.next(data)`
  | .nextBy f => b.next (f b.peek)
  | .error e => let r := b.subject.terminal (.error e); (⟨r.1, b.value⟩, r.2)
  | .complete => let r := b.subject.terminal .complete; (⟨r.1, b.value⟩, r.2)
  | .unsubscribe => (⟨b.subject.unsubscribe, b.value⟩, [])
  | .clone => (b, [])
  | .peek => (b, [])

structure BOutput where
  out : Output
  peek : Val
  deriving DecidableEq, Repr

def bstep (b : BState) (op : BOp) : BState × BOutput :=
  let r := b.apply op
  (r.1, ⟨r.1.subject.output r.2, r.1.peek⟩)

def brunFrom : BState → List BOp → List BOutput
  | _, [] => []
  | b, op :: r =>
    let x := bstep b op
    if x.2.out.panic then [x.2] else x.2 :: brunFrom x.1 r

def brun (v0 : Val) (ops : List BOp) : List BOutput := brunFrom (BState.init v0) ops

/-- final state of a history (used for state lemmas) -/
def bexec : BState → List BOp → BState
  | b, [] => b
  | b, op :: r => bexec (bstep b op).1 r

end Rx.Subj
