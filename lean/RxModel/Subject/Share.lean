import RxModel.Core.Notif
/-
  C11 — publish/connect and share.

  Transcription of
    src/observable/connectable_observable.rs   ConnectableObservable{source, subject}, fork, connect
    src/ops/ref_count.rs                       ShareOp (Connectable | Connected), RefCountSubscription
    src/subject.rs, src/subscriber.rs          Subject{observers, chamber}, Subscriber cells, SubjectSize
  in the setting of suite `share`: upstream `defer(count).tap(count)` over a cold
  `from_iter` or a hot subject `H`, up to three labelled probe subscribers.

  `Model.code`: the code as it is.  `Model.fixed`: `is_empty` ignores closed
  publishers, and the subscription made by `connect()` is kept and unsubscribed
  by the last leaver (the two places marked FIX).
-/
namespace Rx.Share

inductive Model where
  | code
  | fixed
  deriving DecidableEq, Repr, Inhabited

inductive Kind where
  | share      -- `source.share()` / `share_threads()`
  | publish    -- `source.publish::<Subject>()`, explicit `connect()`
  deriving DecidableEq, Repr, Inhabited

inductive Ev where
  | sub (k : Nat)
  | unsub (k : Nat)
  | emit (n : Notif)
  | connect
  | q
  deriving DecidableEq, Repr, Inhabited

/-- A delivery: probe label, notification. -/
abbrev Dlv := Nat × Notif

/-- `Subject{observers, chamber}`: entries are `Box<Subscriber<_>>`, named by their cell id. -/
structure Subj where
  observers : Option (List Nat) := some []
  chamber : Option (List Nat) := some []
  deriving DecidableEq, Repr

/-- What an event prints. -/
inductive Out where
  | dlv (ds : List Dlv) (srcSubs tap : Nat)
  | counters (srcSubs tap : Nat) (subj : Option (Bool × Nat))   -- publish: is_closed, len
  deriving DecidableEq, Repr, Inhabited

structure W where
  model : Model := .code
  kind : Kind := .share
  /-- `some xs`: cold `from_iter(xs)`; `none`: the hot subject `H` -/
  cold : Option (List Val) := none
  /-- share: `InnerShareOp::Connected`; publish: `connect()` has consumed the connectable -/
  connected : Bool := false
  /-- the inner subject (every fork/clone shares it) -/
  subj : Subj := {}
  /-- `Subscriber<Probe>` cells by id: `some label` = `Some(observer)` -/
  cells : List (Option Nat) := []
  /-- harness slot k: the cell id of the subscription it holds -/
  handles : List (Option Nat) := [none, none, none]
  /-- `H.observers` is `Some` -/
  hotOpen : Bool := true
  /-- `H` holds the entry `Box<Subscriber<TapObserver<S>>>` made by `connect()` -/
  hotEntry : Bool := false
  /-- that `Subscriber` cell is `Some(TapObserver{S})` -/
  connCell : Bool := false
  /-- the subscription returned by `connect()` is still held (code, share: dropped at once) -/
  connHeld : Bool := false
  /-- ghost: calls of the `defer` closure = subscriptions made on the source -/
  srcSubs : Nat := 0
  /-- ghost: calls of the upstream `tap` closure -/
  tap : Nat := 0
  deriving Repr

namespace W

def cell (w : W) (id : Nat) : Option Nat := (w.cells[id]?).join

/-- `Subject::actual_subscribe(probe k)`: a new `Subscriber` cell; pushed into the chamber if there is one. -/
def subjSubscribe (w : W) (k : Nat) : W × Nat :=
  let id := w.cells.length
  match w.subj.chamber with
  | some ch => ({ w with cells := w.cells ++ [some k], subj := { w.subj with chamber := some (ch ++ [id]) } }, id)
  | none => ({ w with cells := w.cells ++ [none] }, id)

/-- `Subject::load`. -/
def load (s : Subj) : Subj :=
  match s.observers with
  | some obs => { observers := some (obs ++ s.chamber.getD []), chamber := some [] }
  | none => s

/-- Deliveries of one broadcast: every entry whose cell is full. -/
def broadcast (cells : List (Option Nat)) (obs : List Nat) (n : Notif) : List Dlv :=
  obs.filterMap fun id => ((cells[id]?).join).map fun l => (l, n)

/-- `Subject::next` on the inner subject. -/
def subjNext (w : W) (v : Val) : W × List Dlv :=
  let s := load w.subj
  match s.observers with
  | some obs => ({ w with subj := s }, broadcast w.cells obs (.next v))
  | none => ({ w with subj := s }, [])

/-- `Subject::error` / `complete`: take `observers`, call the entries that are not closed
    (each call empties the entry's cell). -/
def subjTerminal (w : W) (t : Notif) : W × List Dlv :=
  let s := load w.subj
  match s.observers with
  | some obs =>
    ({ w with subj := { s with observers := none },
              cells := obs.foldl (fun cs id => cs.set id none) w.cells },
      broadcast w.cells obs t)
  | none => ({ w with subj := s }, [])

/-- `Subscription::unsubscribe` of the subject. -/
def subjUnsubscribe (w : W) : W := { w with subj := { observers := none, chamber := none } }

/-- `SubjectSize::is_empty`.  Code: counts entries, closed or not.  FIX: only live ones. -/
def subjIsEmpty (w : W) : Bool :=
  match w.subj.observers with
  | none => true
  | some obs =>
    match w.model with
    | .code => obs.isEmpty && (w.subj.chamber.getD []).isEmpty
    | .fixed => (obs ++ w.subj.chamber.getD []).all fun id => (w.cell id).isNone

def subjLen (w : W) : Nat :=
  match w.subj.observers with
  | none => 0
  | some obs => obs.length + (w.subj.chamber.getD []).length

/-- `TapObserver{observer = S}` is called with `n`. -/
def tapCall (w : W) : Notif → W × List Dlv
  | .next v => subjNext { w with tap := w.tap + 1 } v
  | t => subjTerminal w t

/-- `from_iter(xs)` drives its observer. -/
def coldEmit (w : W) : List Val → W × List Dlv
  | [] => tapCall w .complete
  | v :: r =>
    let (w1, d1) := tapCall w (.next v)
    let (w2, d2) := coldEmit w1 r
    (w2, d1 ++ d2)

/-- `ConnectableObservable::connect`: `source.actual_subscribe(subject)`;
    the source is `defer(|| {srcSubs += 1; src}).tap(..)`.  `keep`: is the returned
    subscription stored by the caller? -/
def doConnect (w : W) (keep : Bool) : W × List Dlv :=
  let w := { w with connected := true, srcSubs := w.srcSubs + 1 }
  match w.cold with
  | some xs => coldEmit w xs                 -- `Unsub = ()`
  | none =>
    -- `H.actual_subscribe(TapObserver{S})`: a new cell, pushed into H's chamber
    ({ w with hotEntry := w.hotOpen, connCell := true, connHeld := keep }, [])

/-- `subject.clone().actual_subscribe(probe k)`, the harness keeps the subscription in slot k. -/
def attach (w : W) (k : Nat) : W :=
  let (w1, id) := w.subjSubscribe k
  { w1 with handles := w1.handles.set k (some id) }

/-- Is the subscription returned by `connect()` kept?  Code: dropped.  FIX: kept in the shared
    `Connected(subject, connection)` cell. -/
def keepConn : Model → Bool
  | .code => false
  | .fixed => true

/-- `ShareOp::actual_subscribe` / `fork().actual_subscribe` for probe k. -/
def subscribe (w : W) (k : Nat) : W × List Dlv :=
  match w.kind with
  | .publish => (w.attach k, [])
  | .share =>
    -- subscribe the observer to the subject first, then (first time only) swap to `Connected` and connect
    if w.connected then (w.attach k, []) else doConnect (w.attach k) (keepConn w.model)

/-- `RefCountSubscription::unsubscribe` (share) / `Subscriber::unsubscribe` (publish) of slot k. -/
def unsubscribe (w : W) (k : Nat) : W :=
  match (w.handles[k]?).join with
  | none => w
  | some id =>
    let w1 := { w with cells := w.cells.set id none, handles := w.handles.set k none }
    match w.kind with
    | .publish => w1
    | .share =>
      if w1.subjIsEmpty then
        let w2 := w1.subjUnsubscribe
        -- FIX: `self.connection.unsubscribe()`
        match w.model with
        | .code => w2
        | .fixed => if w2.connHeld then { w2 with connCell := false, connHeld := false } else w2
      else w1

/-- The hot source `H` is called with `n`. -/
def hotEmit (w : W) : Notif → W × List Dlv
  | .next v =>
    if w.hotOpen && w.hotEntry && w.connCell then tapCall w (.next v) else (w, [])
  | t =>
    if w.hotOpen then
      let w1 := { w with hotOpen := false }
      -- every entry of `H` is handed the terminal (no `p_is_closed()` filter since `fix:
      -- Subject::error/complete hand the terminal to every subscriber`): the cell is taken and
      -- `TapObserver{S}` called — an inner subject `S` that is finished ignores it
      if w.hotEntry && w.connCell then
        tapCall { w1 with connCell := false } t
      else (w1, [])
    else (w, [])

def step (w : W) : Ev → W × Out
  | .sub k =>
    let (w', d) := w.subscribe k
    (w', .dlv d w'.srcSubs w'.tap)
  | .unsub k =>
    let w' := w.unsubscribe k
    (w', .dlv [] w'.srcSubs w'.tap)
  | .emit n =>
    let (w', d) := w.hotEmit n
    (w', .dlv d w'.srcSubs w'.tap)
  | .connect =>
    match w.kind with
    | .publish =>
      if w.connected then (w, .dlv [] w.srcSubs w.tap)
      else
        let (w', d) := w.doConnect true
        (w', .dlv d w'.srcSubs w'.tap)
    | .share => (w, .dlv [] w.srcSubs w.tap)
  | .q =>
    (w, .counters w.srcSubs w.tap
      (match w.kind with
       | .publish => some (w.subj.observers.isNone, w.subjLen)
       | .share => none))

def run : W → List Ev → W × List Out
  | w, [] => (w, [])
  | w, e :: r =>
    let (w1, o) := w.step e
    let (w2, os) := run w1 r
    (w2, o :: os)

end W

/-- Initial world of a case. -/
def init (m : Model) (k : Kind) (cold : Option (List Val)) : W := { model := m, kind := k, cold := cold }

namespace Fixed
def init (k : Kind) (cold : Option (List Val)) : W := Share.init .fixed k cold
end Fixed

namespace Code
def init (k : Kind) (cold : Option (List Val)) : W := Share.init .code k cold
end Code

end Rx.Share
