import RxModel.Core.Notif
/-
  The Subject family of src/subject.rs (Subject, SubjectThreads,
  MutRefItemSubject, MutRefErrSubject, MutRefItemErrSubject: one macro, one
  model), with the `Subscriber` slot of src/subscriber.rs and the
  `impl Observer for MutRc/MutArc<Option<O>>` of src/observer.rs in front of
  every subscriber.  Sequential semantics only; core Lean only.

  Transcription (see DESIGN Appendix A.1):
    observers / chamber : `MutRc<Option<SmallVec<Box<dyn Publisher>>>>`   ↦ `Option (List SlotId)`
    `Subscriber<O>(MutRc<Option<O>>)`                                     ↦ `Slot.alive`
    the probe observer of the harness                                      ↦ `Slot.script`, `Slot.log`
    a `RefCell` double borrow / an `unwrap()` on `None`                     ↦ `panicked := true`
  A clone of a subject shares both cells, so "through a clone" is the same
  operation on the same state (`SubjOp.clone` is the identity).
-/
namespace Rx.Subj

abbrev SlotId := Nat

/-- What a probe subscriber does from INSIDE its `next` callback (the k-th item it
    receives runs the k-th action of its script).  Re-entrant emission is excluded. -/
inductive Act where
  | nop
  /-- `subject.clone().actual_subscribe(fresh probe)` from inside the callback -/
  | sub
  /-- `handle[t].unsubscribe()` from inside the callback; `t` = the running
      subscriber itself is a double borrow of its own slot: panic (RefCell) -/
  | unsub (t : SlotId)
  deriving DecidableEq, Repr, Inhabited

/-- One `Subscriber`: the shared `Option<O>` cell (`alive`), and the probe in it. -/
structure Slot where
  alive : Bool
  script : List Act
  log : List Notif
  deriving Repr, DecidableEq

abbrev Delivery := SlotId × Notif

/-- the probe receives an item: logs it, and consumes one script action -/
def Slot.recv (v : Val) (x : Slot) : Slot := ⟨x.alive, x.script.tail, x.log ++ [Notif.next v]⟩
/-- the slot's `error/complete`: `take()` the observer, then call it -/
def Slot.finish (n : Notif) (x : Slot) : Slot := ⟨false, x.script, x.log ++ [n]⟩
/-- `Subscriber::unsubscribe`: `take()` -/
def Slot.kill (x : Slot) : Slot := ⟨false, x.script, x.log⟩

structure State where
  observers : Option (List SlotId)
  chamber : Option (List SlotId)
  slots : List Slot
  panicked : Bool
  deriving Repr, DecidableEq

/-- `Subject::default()` -/
def State.init : State := ⟨some [], some [], [], false⟩

/-- update slot `i` (no-op when there is no such slot) -/
def modSlot (f : Slot → Slot) : List Slot → Nat → List Slot
  | [], _ => []
  | x :: r, 0 => f x :: r
  | x :: r, n + 1 => x :: modSlot f r n

def aliveAt (slots : List Slot) (i : SlotId) : Bool :=
  match slots[i]? with
  | some s => s.alive
  | none => false

/-- `Subscriber::unsubscribe`: `self.0.rc_deref_mut().take()` -/
def State.killSlot (s : State) (t : SlotId) : State :=
  { s with slots := modSlot Slot.kill s.slots t }

/-- `actual_subscribe`: push a clone of the new subscriber to the chamber if it is
    `Some`, else hand back a dead subscriber (`Subscriber::new(None)`).  `log0`:
    what the observer had already been given before it was wrapped (BehaviorSubject). -/
def State.subscribe (s : State) (script : List Act) (log0 : List Notif) : State :=
  match s.chamber with
  | some ch => { s with chamber := some (ch ++ [s.slots.length]),
                        slots := s.slots ++ [⟨true, script, log0⟩] }
  | none => { s with slots := s.slots ++ [⟨false, script, log0⟩] }

/-- The script action of subscriber `i`, run inside its `next` callback.
    `greet = some v`: the subject is the inner subject of a BehaviorSubject whose
    value cell holds `v` (a subscription first emits it). -/
def State.act (s : State) (greet : Option Val) (i : SlotId) : Act → State × List Delivery
  | .nop => (s, [])
  | .sub =>
    match greet with
    | none => (s.subscribe [] [], [])
    | some v => (s.subscribe [] [.next v], [(s.slots.length, .next v)])
  | .unsub t =>
    if t = i then ({ s with panicked := true }, [])   -- slot `i` is mutably borrowed by its own `next`
    else (s.killSlot t, [])

/-- `p_next` on entry `i`: `if let Some(o) = &mut *slot.rc_deref_mut() { o.next(v) }` -/
def State.callNext (s : State) (greet : Option Val) (i : SlotId) (v : Val) : State × List Delivery :=
  match s.slots[i]? with
  | some sl =>
    if sl.alive then
      let s1 := { s with slots := modSlot (Slot.recv v) s.slots i }
      let r := s1.act greet i (sl.script.headD .nop)
      (r.1, (i, Notif.next v) :: r.2)
    else (s, [])
  | none => (s, [])

/-- `observers.iter_mut().for_each(|p| p.p_next(value.clone()))`, the observers
    cell staying borrowed: callbacks can only reach the chamber and the slots. -/
def bcast (greet : Option Val) (v : Val) : State → List SlotId → State × List Delivery
  | s, [] => (s, [])
  | s, i :: r =>
    let r1 := s.callNext greet i v
    if r1.1.panicked then r1
    else
      let r2 := bcast greet v r1.1 r
      (r2.1, r1.2 ++ r2.2)

/-- `load`: `observers.append(chamber.as_mut().unwrap())` iff observers is `Some`. -/
def State.load (s : State) : State :=
  match s.observers, s.chamber with
  | some obs, some ch => { s with observers := some (obs ++ ch), chamber := some [] }
  | some _, none => { s with panicked := true }
  | none, _ => s

/-- `Observer::next` of the subject. -/
def State.next (s : State) (greet : Option Val) (v : Val) : State × List Delivery :=
  let s := s.load
  if s.panicked then (s, [])
  else match s.observers with
    | some obs => bcast greet v s obs
    | none => (s, [])

/-- `observers.into_iter().for_each(|o| o.p_error(e))`: EVERY entry is handed the
    terminal (after `fix: Subject::error/complete hand the terminal to every
    subscriber`; before it a `.filter(|o| !o.p_is_closed())` stood in front, which for
    a probe — `is_finished()` constantly false — skipped exactly the entries whose
    slot is empty).  The slot's `error/complete` takes the observer out of the cell,
    then calls it; an entry whose slot was emptied by `unsubscribe()` does nothing. -/
def term (n : Notif) : State → List SlotId → State × List Delivery
  | s, [] => (s, [])
  | s, i :: r =>
    if aliveAt s.slots i then
      let s1 := { s with slots := modSlot (Slot.finish n) s.slots i }
      let r2 := term n s1 r
      (r2.1, (i, n) :: r2.2)
    else term n s r

/-- `Observer::error` / `Observer::complete` of the subject (`n` is the terminal). -/
def State.terminal (s : State) (n : Notif) : State × List Delivery :=
  let s := s.load
  if s.panicked then (s, [])
  else match s.observers with
    | some obs => term n { s with observers := none } obs
    | none => (s, [])

/-- `Subscription::unsubscribe` of the subject: take both lists. -/
def State.unsubscribe (s : State) : State := { s with observers := none, chamber := none }

/-- `retain`: drop the closed entries of `observers` (only). -/
def State.retain (s : State) : State :=
  match s.observers with
  | some obs => { s with observers := some (obs.filter (aliveAt s.slots)) }
  | none => s

/-- `SubjectSize::len`; `none` = the `unwrap()` on an absent chamber panics. -/
def State.len? (s : State) : Option Nat :=
  match s.observers, s.chamber with
  | none, _ => some 0
  | some obs, some ch => some (obs.length + ch.length)
  | some _, none => none

def State.len (s : State) : Nat := s.len?.getD 0

/-- `SubjectSize::is_empty` -/
def State.isEmpty (s : State) : Bool :=
  match s.observers with
  | none => true
  | some obs => obs.isEmpty && (s.chamber.getD []).isEmpty

/-- `Observer::is_finished` and `Subscription::is_closed`: both `observers.is_none()` -/
def State.isFinished (s : State) : Bool := s.observers.isNone
def State.isClosed (s : State) : Bool := s.observers.isNone

/-- External operations (each may be issued through any clone). -/
inductive SubjOp where
  | subscribe (script : List Act)
  | unsubOne (i : SlotId)
  | next (v : Val)
  | error (e : Err)
  | complete
  | retain
  | unsubscribe
  | clone
  deriving DecidableEq, Repr

/-- What one operation shows: the probe calls it caused, in order, and the answers
    of the size/state queries asked right after it. -/
structure Output where
  deliveries : List Delivery
  len : Nat
  empty : Bool
  finished : Bool
  closed : Bool
  panic : Bool
  deriving DecidableEq, Repr

def State.output (s : State) (ds : List Delivery) : Output :=
  { deliveries := ds, len := s.len, empty := s.isEmpty, finished := s.isFinished,
    closed := s.isClosed, panic := s.panicked || s.len?.isNone }

def State.apply (s : State) : SubjOp → State × List Delivery
  | .subscribe script => (s.subscribe script [], [])
  | .unsubOne i => (s.killSlot i, [])
  | .next v => s.next none v
  | .error e => s.terminal (.error e)
  | .complete => s.terminal .complete
  | .retain => (s.retain, [])
  | .unsubscribe => (s.unsubscribe, [])
  | .clone => (s, [])

def step (s : State) (op : SubjOp) : State × Output :=
  let r := s.apply op
  (r.1, r.1.output r.2)

/-- Outputs of a history; a panic ends it (the harness stops the case there). -/
def runFrom : State → List SubjOp → List Output
  | _, [] => []
  | s, op :: r =>
    let x := step s op
    if x.2.panic then [x.2] else x.2 :: runFrom x.1 r

def run (ops : List SubjOp) : List Output := runFrom State.init ops

/-- Final state of a history (panics do not stop it; used for state lemmas). -/
def exec : State → List SubjOp → State
  | s, [] => s
  | s, op :: r => exec (step s op).1 r

end Rx.Subj
