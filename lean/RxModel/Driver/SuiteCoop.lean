import RxModel.Driver.Proto
import RxModel.Conc.TimeSteps
/-
  Runner of suite `coop` (C02 / C10 / C19, threads flavour): the events of
  harness/src/suites/coop_suite.rs executed on the step model `Conc/TimeSteps.lean`.

    ev sub | emit 0 <notif> | unsub | adv <d> | fire <i> | poll <j> | run       on thread 2 (main), alone
        line:  o=<items> live=<n> tm=<n> t=<n> T=<lock tokens>
    ev par <k> (<eventA…>) (<eventB…>)                                        threads 0 (A) and 1 (B), `TS.par`
        line:  o=<items> s=<slices> A=<tokens> B=<tokens> live=<n> tm=<n> t=<n>     or  DEADLOCK s=… A=… B=…

  Tokens as the harness: `a<cell>[<held>]` per acquisition, `c0[<held>]` per probe call; cells numbered by
  first acquisition within the case.  Field `order swapped` selects the seeded variant C02-3 (for experiments).
  Pipelines other than one modelled operator over `(hot 0)`: `UNMODELLED` (the checks compare nothing).
-/
namespace Rx.Driver.CoopS
open Rx Rx.Driver Rx.Conc.TS

def parseEdge : SExp → Edge
  | .atom "l" => .leading
  | .atom "t" => .trailing
  | _ => .all

def isHot0 (e : SExp) : Bool :=
  match e with
  | .list [.atom "hot", .atom "0"] => true
  | _ => false

def parseKind (e : SExp) : Option Kind :=
  match e with
  | .list [.atom "debounce", d, src] => if isHot0 src then some (.debounce d.nat) else none
  | .list [.atom "throttle", d, ed, src] => if isHot0 src then some (.throttle d.nat (parseEdge ed)) else none
  | .list [.atom "delay", d, src] => if isHot0 src then some (.delay d.nat) else none
  | .list [.atom "observeon", src] => if isHot0 src then some .observeOn else none
  | _ => none

def parseOp : List SExp → Option Op
  | [.atom "emit", .atom "0", n] => some (.emit (parseNotif n))
  | [.atom "unsub"] => some .unsub
  | [.atom "poll", j] => some (.poll j.nat)
  | [.atom "run"] => some .run
  | [.atom "adv", d] => some (.adv d.nat)
  | [.atom "fire", i] => some (.fire i.nat)
  | _ => none

def showItem : Item → String
  | .n x => showNotif x
  | .R => "R"

def showItems (xs : List Item) : String := "o=" ++ String.intercalate ";" (xs.map showItem)

def isDelivery : Item → Bool
  | .n _ => true
  | .R => false

/-- index of a cell in the numbering, extending it if the cell is new -/
def number (seen : List Cell) (c : Cell) : List Cell × Nat :=
  match seen.findIdx? (· == c) with
  | some i => (seen, i)
  | none => (seen ++ [c], seen.length)

def insertSorted (x : Nat) : List Nat → List Nat
  | [] => [x]
  | y :: r => if x ≤ y then x :: y :: r else y :: insertSorted x r

def sortNat (xs : List Nat) : List Nat := xs.foldr insertSorted []

def showHeld (xs : List Nat) : String := String.intercalate "." ((sortNat xs).map toString)

/-- Thread `i` has arrived at a yield point: its cell gets a number (hook H2 registers the cell before parking). -/
def arrive (c : Cfg) (seen : List Cell) (i : Nat) : List Cell :=
  if c.finished i then seen else
  match (c.pcOf i).cell with
  | some cell => (number seen cell).1
  | none => seen

/-- Thread `i` of `c` takes one step; returns the new configuration, the numbering (the cell the thread arrives
    at next included) and the tokens of the step. -/
def tokStep (K : Conf) (c : Cfg) (seen : List Cell) (i : Nat) : Cfg × List Cell × List String :=
  let pc := c.pcOf i
  let c' := c.sched1 K i
  if !c.canRun i then (c', seen, []) else
  match pc.cell with
  | none => (c', arrive c' seen i, [])
  | some cell =>
    let (seen1, idx) := number seen cell
    let held := (c.st.heldBy i).filterMap fun h => seen1.findIdx? (· == h)
    let calls := ((c'.st.log.drop c.st.log.length).filter isDelivery).length
    let tok := s!"a{idx}[{showHeld held}]"
    (c', arrive c' seen1 i, tok :: List.replicate calls s!"c0[{showHeld (idx :: held)}]")

structure DS where
  cfg : Cfg
  seen : List Cell := []

def suffix (s : St) : String := s!" live={s.live.length} tm={s.timers.length} t={s.now}"

/-- run thread 2 alone until it has finished; `none`: it blocks on itself / out of fuel -/
def runMain (K : Conf) : Nat → Cfg → List Cell → List String → Option (Cfg × List Cell × List String)
  | 0, _, _, _ => none
  | f + 1, c, seen, toks =>
    if c.finished 2 then some (c, seen, toks)
    else if !c.canRun 2 then none
    else
      let (c', seen', t) := tokStep K c seen 2
      runMain K f c' seen' (toks ++ t)

/-- replay a fine schedule, collecting the tokens of threads 0 and 1 -/
def replay (K : Conf) : List Nat → Cfg → List Cell → List String → List String → Cfg × List Cell × List String × List String
  | [], c, seen, ta, tb => (c, seen, ta, tb)
  | i :: r, c, seen, ta, tb =>
    let (c', seen', t) := tokStep K c seen i
    if i == 0 then replay K r c' seen' (ta ++ t) tb else replay K r c' seen' ta (tb ++ t)

def letters (xs : List Nat) : String := String.join (xs.map fun i => if i == 0 then "A" else "B")

def setThread (c : Cfg) (i : Nat) (op : Op) : Cfg := { c with ths := c.ths.set i (Thread.mk' [op]) }

def runCoopCase (id : String) (field : String → List SExp) (events : List (List SExp)) : List String :=
  match (field "pipe").head?.bind parseKind with
  | none => [s!"{id}.0 UNMODELLED"]
  | some kind =>
    let order : Order := match field "order" with | [.atom "swapped"] => .swapped | _ => .original
    let K : Conf := ⟨kind, order⟩
    let idle : Thread := ⟨.fin, []⟩
    let rec go (d : DS) (k : Nat) : List (List SExp) → List String
      | [] => []
      | ev :: r =>
        match ev with
        | [.atom "sub"] =>
          if d.cfg.st.slotOpen || d.cfg.st.subHeld then [s!"{id}.{k} BADEV"] else
          -- `actual_subscribe`: `self.chamber.rc_deref_mut()`
          let (seen, idx) := number d.seen .chamber
          let c := { d.cfg with st := d.cfg.st.subscribe }
          s!"{id}.{k} o={suffix c.st} T=a{idx}[]" :: go ⟨c, seen⟩ (k + 1) r
        | [.atom "par", n, a, b] =>
          match parseOp a.elems, parseOp b.elems with
          | some oa, some ob =>
            let c0 := setThread (setThread d.cfg 0 oa) 1 ob
            let out := par K n.nat 4000 c0
            -- the two pre-runs (A alone to its first yield point, then B), then the policy
            let la := (drain K 4000 c0 0).2
            let (ca, seen, ta, tb) := replay K la c0 (arrive c0 d.seen 0) [] []
            let lb := (drain K 4000 ca 1).2
            let (cb, seen, ta, tb) := replay K lb ca (arrive ca seen 1) ta tb
            let (c1, seen, ta, tb) := replay K (out.fine.drop (la.length + lb.length)) cb seen ta tb
            let tail := s!"s={letters out.slices} A={String.intercalate "," ta} B={String.intercalate "," tb}"
            if out.deadlock then [s!"{id}.{k} DEADLOCK {tail}"]
            else if !(c1.finished 0 && c1.finished 1) then [s!"{id}.{k} FUEL"]
            else
              s!"{id}.{k} {showItems (c1.st.log.drop d.cfg.st.log.length)} {tail}{suffix c1.st}"
                :: go ⟨c1, seen⟩ (k + 1) r
          | _, _ => [s!"{id}.{k} BADEV"]
        | _ =>
          match parseOp ev with
          | some op =>
            match runMain K 4000 (setThread d.cfg 2 op) d.seen [] with
            | some (c1, seen, toks) =>
              s!"{id}.{k} {showItems (c1.st.log.drop d.cfg.st.log.length)}{suffix c1.st} T={String.intercalate "," toks}"
                :: go ⟨c1, seen⟩ (k + 1) r
            | none => [s!"{id}.{k} DEADLOCK"]
          | none => [s!"{id}.{k} BADEV"]
    go ⟨⟨St.init, [idle, idle, idle]⟩, []⟩ 0 events

end Rx.Driver.CoopS
