import RxModel.Driver.SExp
import RxModel.Driver.Fns
import RxModel.Pipe.World
/-
  Line protocol: parsing of values, notifications and pipelines; printing.
  (same text as harness/src/{val,pipe}.rs)
-/
namespace Rx.Driver
open Rx Rx.Spec

partial def parseVal : SExp → Val
  | .atom "T" => .bool true
  | .atom "F" => .bool false
  | .atom "U" => .unit
  | .atom "N" => .none
  | .atom s => .int ((String.toInt? s).getD 0)
  | .list (.atom "p" :: a :: b :: _) => .pair (parseVal a) (parseVal b)
  | .list (.atom "l" :: xs) => Val.ofList (xs.map parseVal)
  | .list (.atom "s" :: a :: _) => .some (parseVal a)
  | .list (.atom "o" :: k :: _) => .obs k.nat
  | _ => .unit

def parseNotif : SExp → Notif
  | .atom "c" => .complete
  | .list (.atom "n" :: v :: _) => .next (parseVal v)
  | .list (.atom "e" :: k :: _) => .error k.int
  | _ => .complete

partial def listOfVal : Val → Option (List Val)
  | .nil => some []
  | .cons h t => (listOfVal t).map (h :: ·)
  | _ => none

partial def showVal : Val → String
  | .int i => toString i
  | .bool true => "T"
  | .bool false => "F"
  | .unit => "U"
  | .pair a b => s!"(p {showVal a} {showVal b})"
  | .nil => "(l)"
  | .cons h t =>
      match listOfVal (.cons h t) with
      | some xs => "(l" ++ String.join (xs.map fun x => " " ++ showVal x) ++ ")"
      | none => s!"(cons {showVal h} {showVal t})"
  | .none => "N"
  | .some v => s!"(s {showVal v})"
  | .obs k => s!"(o {k})"

def showNotif : Notif → String
  | .next v => "N" ++ showVal v
  | .error e => "E" ++ toString e
  | .complete => "C"

def showOut (ns : List Notif) : String := "o=" ++ String.intercalate ";" (ns.map showNotif)

def chain (ops : List Op1) (p : Pipe) : Pipe := ops.foldl (fun p o => .op1 o p) p

partial def parsePipe (e : SExp) : Pipe :=
  let xs := e.args
  let arg (i : Nat) : SExp := xs.getD i (.atom "")
  let name (i : Nat) : String := (arg i).head
  let last : Pipe := match xs.getLast? with | some l => parsePipe l | none => .src .empty
  match e.head with
  | "hot" => .hot (arg 0).nat
  | "of" => .src (.of (parseVal (arg 0)))
  | "ofsome" => .src (.ofOption (some (parseVal (arg 0))))
  | "ofnone" => .src (.ofOption none)
  | "ofok" => .src (.ofResult (.ok (parseVal (arg 0))))
  | "oferr" => .src (.ofResult (.error (arg 0).int))
  | "offn" => .src (.ofFn (parseVal (arg 0)))
  | "start" => .src (.ofFn (parseVal (arg 0)))
  | "iter" => .src (.iter (xs.map parseVal))
  -- from_iter over a collection whose `into_iter()` is counted (a user closure run once per subscription,
  -- never at construction): observably `defer (from_iter xs)`
  | "iterl" => .defer (.src (.iter (xs.map parseVal)))
  | "repeat" => .src (.repeat_ (parseVal (arg 0)) (arg 1).nat)
  | "empty" => .src .empty
  -- the harness turns the `()` items of never/throw into U; they emit none
  | "never" => .src .never
  | "throw" => .src (.throw (arg 0).int)
  | "create" => .src (.create (xs.map parseNotif))
  | "defer" => .defer (parsePipe (arg 0))
  | "map" => .op1 (.map (fn1 (name 0))) last
  | "mapto" => .op1 (.mapTo (parseVal (arg 0))) last
  | "filter" => .op1 (.filter (pred (name 0))) last
  | "filtermap" => .op1 (.filterMap (fnopt (name 0))) last
  | "tap" => .op1 .tap last
  | "onerrmap" => .op1 (.onErrorMap (fne (name 0))) last
  | "take" => .op1 (.take (arg 0).nat) last
  | "takewhile" => .op1 (.takeWhile (pred (name 0)) false) last
  | "takewhilei" => .op1 (.takeWhile (pred (name 0)) true) last
  | "skip" => .op1 (.skip (arg 0).nat) last
  | "skipwhile" => .op1 (.skipWhile (pred (name 0))) last
  | "takelast" => .op1 (.takeLast (arg 0).nat) last
  | "skiplast" => .op1 (.skipLast (arg 0).nat) last
  | "last" => .op1 .last last
  | "dflt" => .op1 (.defaultIfEmpty (parseVal (arg 0))) last
  | "scan" => .op1 (.scan (fn2 (name 0)) (parseVal (arg 1))) last
  | "distinct" => .op1 .distinct last
  | "distinctkey" => .op1 (.distinctKey (fn1 (name 0))) last
  | "duc" => .op1 .distinctUntilChanged last
  | "dukc" => .op1 (.distinctUntilKeyChanged (fn1 (name 0))) last
  | "pairwise" => .op1 .pairwise last
  | "bufcount" => .op1 (.bufferCount (arg 0).nat) last
  | "contains" => .op1 (.contains (parseVal (arg 0))) last
  | "collect" => .op1 .collect last
  | "startwith" => .startWith ((arg 0).elems.map parseVal) last
  -- derived operators: the compositions the library builds
  | "first" => chain Derived.first last
  | "firstor" => chain (Derived.firstOr (parseVal (arg 0))) last
  | "lastor" => chain (Derived.lastOr (parseVal (arg 0))) last
  | "elementat" => chain (Derived.elementAt (arg 0).nat) last
  | "ignore" => chain Derived.ignoreElements last
  | "all" => chain (Derived.all (pred (name 0))) last
  | "reduce" => chain (Derived.reduceInitial (fn2 (name 0)) (parseVal (arg 1))) last
  | "sum" => chain (Derived.reduceInitial valAdd (.int 0)) last
  | "count" => chain (Derived.reduceInitial (fn2 "count") (.int 0)) last
  | "min" => chain (Derived.aggregate minOpt .none unwrapOpt) last
  | "max" => chain (Derived.aggregate maxOpt .none unwrapOpt) last
  | "average" => chain (Derived.aggregate avgAcc (.pair (.int 0) (.int 0)) avgFin) last
  | "merge" => .op2 .merge (parsePipe (arg 0)) (parsePipe (arg 1))
  | "zip" => .op2 .zip (parsePipe (arg 0)) (parsePipe (arg 1))
  | "combine" => .op2 .combine (parsePipe (arg 0)) (parsePipe (arg 1))
  | "withlatest" => .op2 .withLatest (parsePipe (arg 0)) (parsePipe (arg 1))
  | "takeuntil" => .op2 .takeUntil (parsePipe (arg 0)) (parsePipe (arg 1))
  | "skipuntil" => .op2 .skipUntil (parsePipe (arg 0)) (parsePipe (arg 1))
  | "sample" => .op2 .sample (parsePipe (arg 0)) (parsePipe (arg 1))
  | "buffer" => .op2 .buffer (parsePipe (arg 0)) (parsePipe (arg 1))
  | _ => .src .empty

end Rx.Driver
