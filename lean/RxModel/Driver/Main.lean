import RxModel.Driver.Proto
import RxModel.Driver.SuiteTime
import RxModel.Driver.SuiteSubject
import RxModel.Driver.SuiteGroupBy
import RxModel.Driver.SuiteFinalize
import RxModel.Driver.SuiteFlatten
import RxModel.Driver.SuiteConvert
import RxModel.Driver.SuiteShare
import RxModel.Driver.SuiteMulti
import RxModel.Driver.SuiteLocks
import RxModel.Driver.SuiteComposite
import RxModel.Driver.SuiteInject
import RxModel.Driver.SuiteCoop
/-
  rxdriver: reads the suite file on stdin, runs the model, prints one line per
  external event — the lines the harness prints for the real code.
-/
namespace Rx.Driver
open Rx

structure Case where
  id : String := ""
  suite : String := ""
  flavor : String := "local"
  fields : List (String × List SExp) := []
  events : List (List SExp) := []

def Case.field (c : Case) (k : String) : List SExp :=
  match c.fields.find? (·.1 == k) with
  | some (_, v) => v
  | none => []

def parseExt (ev : List SExp) : Option Ext :=
  match ev with
  | .atom "sub" :: _ => some .sub
  | .atom "emit" :: i :: n :: _ => some (.emit i.nat (parseNotif n))
  -- `temit`: the same emission made from ANOTHER thread (joined before the next event): no difference for the model
  | .atom "temit" :: i :: n :: _ => some (.emit i.nat (parseNotif n))
  | .atom "unsub" :: _ => some .unsub
  | .atom "q" :: .atom "closed" :: _ => some .qClosed
  | .atom "q" :: .atom "tap" :: _ => some .qTap
  | _ => none

def showObs : Obs → String
  | .out ns => showOut ns
  | .closed b => "closed=" ++ (if b then "1" else "0")
  | .tap cs => "tap=[" ++ String.intercalate "," (cs.map toString) ++ "]"

def runPipeCase (c : Case) : List String :=
  let pipe := match c.field "pipe" with | e :: _ => parsePipe e | [] => .src .empty
  let rec go (w : World) (k : Nat) : List (List SExp) → List String
    | [] => []
    | ev :: r =>
      match ev with
      | .atom "remit" :: i :: n :: j :: m :: _ =>
        -- `remit i n j m` (threads, C04): (i, n) is emitted on one thread and, WHILE the probe is being called for it,
        -- (j, m) on another.  The operators of the family hold their cell while they call downstream, so the second
        -- emission is ordered behind the first: the two outputs, in that order, on one line
        let (w1, o1) := w.step (.emit i.nat (parseNotif n))
        let (w2, o2) := w1.step (.emit j.nat (parseNotif m))
        let both := match o1, o2 with
          | .out a, .out b => showOut (a ++ b)
          | _, _ => "BADOUT"
        s!"{c.id}.{k} {both}" :: go w2 (k + 1) r
      | _ =>
      match parseExt ev with
      | some x =>
        let (w', o) := w.step x
        s!"{c.id}.{k} {showObs o}" :: go w' (k + 1) r
      | none => [s!"{c.id}.{k} BADEV"]
  go (World.init pipe) 0 c.events

def runCase (c : Case) : List String :=
  match c.suite with
  | "pipe" => runPipeCase c
  | "time" => runTimeCase c.id ((c.field "pipe").headD (.atom "")) c.events !(c.field "fb").isEmpty
  | "subject" => runSubjectCase c.id c.events
  | "behavior" => runBehaviorCase c.id (c.field "init") c.events
  | "groupby" => runGroupByCase c.id c.field c.events
  | "finalize" => runFinalizeCase c.id c.field c.events
  | "flatten" => runFlatten c.id c.flavor c.field c.events
  | "convert" => Conv.runConvertCase c.id c.field c.events
  | "share" => ShareS.runShareCase c.id c.field c.events
  | "multi" => MultiS.runMultiCase c.id ((c.field "pipe").headD (.atom "")) c.events
  | "locks" => LocksS.runLocksCase c.id (c.field "root") (c.field "subs") c.events
  | "behaviorrace" => LocksS.runBehaviorRace c.id c.events
  | "composite" => CompS.runCompositeCase c.id c.field c.events
  | "inject" => InjectS.runInjectCase c.id c.events
  | "coop" => CoopS.runCoopCase c.id c.field c.events
  | s => [s!"{c.id}.0 UNKNOWN-SUITE {s}"]

partial def loop (h : IO.FS.Stream) (out : IO.FS.Stream) (cur : Case) : IO Unit := do
  let line ← h.getLine
  if line.isEmpty then return ()
  let l := line.trimAscii.toString
  if l.isEmpty || l.startsWith "#" then
    loop h out cur
  else
    let (kw, rest) := match l.splitOn " " with
      | k :: r => (k, " ".intercalate r)
      | [] => ("", "")
    match kw with
    | "case" =>
      let parts := (rest.splitOn " ").filter (· ≠ "")
      loop h out { id := parts.getD 0 "", suite := parts.getD 1 "", flavor := parts.getD 2 "local" }
    | "ev" => loop h out { cur with events := cur.events ++ [parseAll rest] }
    | "end" =>
      for ln in runCase cur do
        out.putStrLn ln
      loop h out {}
    | key => loop h out { cur with fields := cur.fields ++ [(key, parseAll rest)] }

end Rx.Driver

def main : IO Unit := do
  let stdin ← IO.getStdin
  let stdout ← IO.getStdout
  Rx.Driver.loop stdin stdout {}
