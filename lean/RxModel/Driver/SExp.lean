/-
  Minimal S-expression reader (same grammar as harness/src/sexp.rs).
-/
namespace Rx.Driver

inductive SExp where
  | atom (s : String)
  | list (xs : List SExp)
  deriving Repr, Inhabited

partial def tokensAux : List Char → List Char → List String → List String
  | [], cur, acc => (if cur.isEmpty then acc else String.ofList cur.reverse :: acc).reverse
  | c :: r, cur, acc =>
    let flush := if cur.isEmpty then acc else String.ofList cur.reverse :: acc
    if c = '(' || c = ')' then tokensAux r [] (String.singleton c :: flush)
    else if c.isWhitespace then tokensAux r [] flush
    else tokensAux r (c :: cur) acc

def tokens (s : String) : List String := tokensAux s.toList [] []

mutual
partial def parseOne : List String → Option (SExp × List String)
  | [] => none
  | "(" :: r => parseList r []
  | ")" :: _ => none
  | t :: r => some (.atom t, r)
partial def parseList : List String → List SExp → Option (SExp × List String)
  | [], _ => none
  | ")" :: r, acc => some (.list acc.reverse, r)
  | ts, acc =>
    match parseOne ts with
    | some (e, r) => parseList r (e :: acc)
    | none => none
end

partial def parseAllAux : List String → List SExp → List SExp
  | [], acc => acc.reverse
  | ts, acc =>
    match parseOne ts with
    | some (e, r) => parseAllAux r (e :: acc)
    | none => acc.reverse

def parseAll (s : String) : List SExp := parseAllAux (tokens s) []

namespace SExp
def atom? : SExp → Option String
  | .atom s => some s
  | _ => none
def head : SExp → String
  | .atom s => s
  | .list (.atom s :: _) => s
  | _ => ""
def args : SExp → List SExp
  | .list (_ :: r) => r
  | _ => []
def elems : SExp → List SExp
  | .list xs => xs
  | _ => []
def nat (e : SExp) : Nat := (e.atom?.bind String.toNat?).getD 0
def int (e : SExp) : Int := (e.atom?.bind String.toInt?).getD 0
end SExp

end Rx.Driver
