import RxModel.Driver.Proto
import RxModel.Pipe.MultiSub
/-
  Runner of suite `multi` (C13): same lines as harness/src/suites/multi_suite.rs.
-/
namespace Rx.Driver.MultiS
open Rx.Driver Rx

def showTagged (l : List (Nat × Notif)) : String :=
  "o=" ++ String.intercalate ";" (l.map fun (k, n) => s!"{k}:{showNotif n}")

def runMultiCase (id : String) (pipe : SExp) (events : List (List SExp)) : List String :=
  let rec go (w : MWorld) (k : Nat) : List (List SExp) → List String
    | [] => []
    | ev :: r =>
      match ev with
      | .atom "sub" :: rest =>
        let nest := match rest with
          | .atom "nest" :: n :: _ => some n.nat
          | _ => none
        let (w', l) := w.subscribe nest
        s!"{id}.{k} {showTagged l}" :: go w' (k + 1) r
      | .atom "emit" :: i :: n :: _ =>
        let (w', l) := w.emit i.nat (parseNotif n)
        s!"{id}.{k} {showTagged l}" :: go w' (k + 1) r
      | .atom "q" :: _ =>
        s!"{id}.{k} tap=[{String.intercalate "," (w.taps.map toString)}] calls={w.calls} pulls=0"
          :: go w (k + 1) r
      | _ => [s!"{id}.{k} BADEV"]
  go { pipe := parsePipe pipe } 0 events

end Rx.Driver.MultiS
