import RxModel.Driver.Proto
import RxModel.Conc.StatusLts
import RxModel.Conv.Convert
import RxModel.Conv.Dropped
import RxModel.Conv.StatusTake
/-
  Runner of suite `convert` (C14): same lines as harness/src/suites/convert_suite.rs.
  Field `kind` = future | stream | collectfuture | status | statustake | statusrace | statuswait;
  kinds future / stream / collectfuture / status also take the event `drop` (the future / stream under
  test is dropped: `dropped`; later polls print `na`; RxModel/Conv/Dropped.lean) — a send that the
  real observer `expect`s and that fails is the line `PANIC` (the case stops there);
  kind statustake (and statuswait with a cutter): fields `src (hot)|(create)|(iter k)`,
  `cutter (id)|(take n)|(first)|(takewhile p)|(takewhilei p)` (RxModel/Conv/StatusTake.lean);
  field `model` = code | fixed (default `code`: the code as it is in /repo).
-/
namespace Rx.Driver.Conv
open Rx.Driver
open Rx Rx.Conv

def parseConvEv (ev : List SExp) : Option Ev :=
  match ev with
  | .atom "emit" :: _ :: n :: _ => some (.emit (parseNotif n))
  | .atom "poll" :: _ => some .poll
  | .atom "q" :: _ => some .qStatus
  | _ => none

def showFMsg : FMsg → String
  | .ok v => s!"Ok({showVal v})"
  | .err e => s!"SrcErr({e})"
  | .empty => "Err(Empty)"
  | .multiple => "Err(MultipleValues)"

def showFOut : FOut → String
  | .woke k => s!"w={k}"
  | .pending => "poll=Pending"
  | .ready r => s!"poll=Ready({showFMsg r})"
  | .na => "na"

def showSOut : SOut → String
  | .woke k => s!"w={k}"
  | .pending => "next=Pending"
  | .yield none => "next=None"
  | .yield (some (.ok v)) => s!"next=Some(Ok({showVal v}))"
  | .yield (some (.err e)) => s!"next=Some(Err({e}))"
  | .na => "na"

def cb01 (b : Bool) : String := if b then "1" else "0"

def showStOut : StOut → String
  | .out ns => showOut ns
  | .pending => "poll=Pending"
  | .ready => "poll=Ready"
  | .status a b c => s!"closed={cb01 a} completed={cb01 b} error={cb01 c}"

def parseDEv (ev : List SExp) : Option DEv :=
  match ev with
  | .atom "drop" :: _ => some .drop
  | _ => (parseConvEv ev).map DEv.ev

/-- Feed the events one by one, printing one line per event; `failed` = a send the observer
    `expect`s has failed (panic). -/
def goConvD {σ ω : Type} (id : String) (step : DW σ → DEv → DW σ × Option ω) (show_ : ω → String)
    (failed : σ → Bool) : DW σ → Nat → List (List SExp) → List String
  | _, _, [] => []
  | d, k, ev :: r =>
    match parseDEv ev with
    | some x =>
      let (d', o) := step d x
      if failed d'.w then [s!"{id}.{k} PANIC"]
      else
        let line := match o, x with
          | some o, _ => show_ o
          | none, .drop => "dropped"
          | none, _ => "na"
        s!"{id}.{k} {line}" :: goConvD id step show_ failed d' (k + 1) r
    | none => [s!"{id}.{k} BADEV"]

def parseTEv (ev : List SExp) : Option TEv :=
  match ev with
  | .atom "emit" :: _ :: n :: _ => some (.emit (parseNotif n))
  | .atom "sub" :: _ => some .sub
  | .atom "poll" :: _ => some .poll
  | .atom "q" :: _ => some .qStatus
  | _ => none

def parseCutter (f : List SExp) : Cutter :=
  match f with
  | e :: _ =>
    match e.head with
    | "take" => .take (e.args.getD 0 (.atom "")).nat
    | "first" => .take 1
    | "takewhile" => .takeWhile (pred (e.args.getD 0 (.atom "")).head) false
    | "takewhilei" => .takeWhile (pred (e.args.getD 0 (.atom "")).head) true
    | _ => .id
  | [] => .id

def parseTSrc (f : List SExp) : TSrc :=
  match f with
  | e :: _ =>
    match e.head with
    | "create" => .create
    | "iter" => .iter (e.args.getD 0 (.atom "")).nat
    | _ => .hot
  | [] => .hot

def goTake (id : String) (src : TSrc) (c : Cutter) : StatTW → Nat → List (List SExp) → List String
  | _, _, [] => []
  | w, k, ev :: r =>
    match parseTEv ev with
    | some x =>
      let (w', o) := StatTW.step src c w x
      s!"{id}.{k} {showStOut o}" :: goTake id src c w' (k + 1) r
    | none => [s!"{id}.{k} BADEV"]

/-- kind `statuswait` with a cutter: `pre` is delivered, the waiter polls (Pending: parked; or Ready),
    the terminal arrives: the waiter returns iff it was Ready or has been woken. -/
def waitCut (src : TSrc) (c : Cutter) (pre : List Notif) (term : Notif) : Bool :=
  let w0 := (StatTW.run src c {} (pre.map TEv.emit)).1
  let (w1, o) := StatTW.step src c w0 .poll
  let evs : List TEv := match src with
    | .iter _ => [.sub]
    | _ => match term with
      | .next v => [.emit (.next v), .emit .complete]
      | t => [.emit t]
  let w2 := (StatTW.run src c w1 evs).1
  o == .ready || decide (w2.wakes > w1.wakes)

def runConvertCase (id : String) (field : String → List SExp) (events : List (List SExp)) :
    List String :=
  let kind := match field "kind" with | e :: _ => e.head | [] => "future"
  let m : Model := match field "model" with
    | e :: _ => if e.head == "fixed" then .fixed else .code
    | [] => .code
  match kind with
  | "future" => goConvD id (futDStep m) showFOut (·.chan.sendFailed) {w := {}} 0 events
  | "collectfuture" => goConvD id (cfDStep m) showFOut (·.chan.sendFailed) {w := {}} 0 events
  | "stream" => goConvD id (strDStep m) showSOut (·.chan.sendFailed) {w := {}} 0 events
  | "status" => goConvD id statDStep showStOut (fun _ => false) {w := {}} 0 events
  | "statustake" => goTake id (parseTSrc (field "src")) (parseCutter (field "cutter")) {} 0 events
  | "statusrace" =>
    -- `wait_for_end` racing with the producer's terminal, the producer running
    -- exactly between the waiter's flag check and its waker registration
    -- (RxModel/Conc/StatusLts.lean; theorems in Props/C14T.lean)
    let res : Option (Option Bool × Bool) :=
      match m with
      | .code =>
        (Conc.dexec Conc.Status.sem (Conc.mkState [Conc.Status.producer, Conc.Status.waiterAsWritten])
          Conc.Status.d0 [1, 0, 0, 0, 1]).map fun x => (x.2.res, x.2.woken)
      | .fixed =>
        (Conc.dexec Conc.Status.sem (Conc.mkState [Conc.Status.producer, Conc.Status.waiterFixed])
          Conc.Status.d0 [0, 0, 0, 1, 1]).map fun x => (x.2.res, x.2.woken)
    let line := match res with
      | some (some true, _) => "wait=returned"
      | some (_, true) => "wait=returned"
      | _ => "wait=HANG"
    (List.range events.length).map fun k => s!"{id}.{k} {line}"
  | "statuswait" =>
    if !(field "cutter").isEmpty || !(field "src").isEmpty then
      let src := parseTSrc (field "src")
      let c := parseCutter (field "cutter")
      let pre := (field "pre").map parseNotif
      (List.range events.length).map fun k =>
        let term := match events.getD k [] with
          | _ :: n :: _ => parseNotif n
          | _ => .complete
        s!"{id}.{k} {if waitCut src c pre term then "wait=returned" else "wait=HANG"}"
    else
    -- the waiter has polled (registered its waker, answer Pending) before the producer's
    -- terminal, error or completion alike: store the flag, wake (one schedule of the
    -- system whose every schedule is covered by C14_no_lost_wakeup_fixed)
    let res := (Conc.dexec Conc.Status.sem (Conc.mkState [Conc.Status.producer, Conc.Status.waiterFixed])
        Conc.Status.d0 [1, 1, 0, 0, 0]).map fun x => (x.2.res, x.2.woken)
    let line := match res with
      | some (some true, _) => "wait=returned"
      | some (_, true) => "wait=returned"
      | _ => "wait=HANG"
    (List.range events.length).map fun k => s!"{id}.{k} {line}"
  | k => [s!"{id}.0 UNKNOWN-KIND {k}"]

end Rx.Driver.Conv
