import RxModel.Driver.Proto
import RxModel.Ops.GroupBy
/-
  Suite `groupby` (harness/src/suites/groupby_suite.rs): fields `key`, `skip`,
  `otake`; events `emit <notif>`, `unsub`, `gunsub <key>`.
-/
namespace Rx.Driver
open Rx Rx.GroupBy

def showGOut : Out → String
  | .outer (.next k) => "G" ++ showVal k
  | .outer n => showNotif n
  | .grp k n => "g" ++ showVal k ++ ":" ++ showNotif n

/-- In a terminal event the leading run of group tokens is sorted (the drain
    order of the real HashMap is unspecified). -/
def fmtGEvent (toks : List String) (terminal : Bool) : String :=
  let toks :=
    if terminal then
      let g := toks.takeWhile (·.startsWith "g")
      let r := toks.dropWhile (·.startsWith "g")
      (g.toArray.qsort (· < ·)).toList ++ r
    else toks
  "o=" ++ String.intercalate ";" toks

/-- the log of an `iter` event: the terminal fan-out at the end (`g<k>:C`* then the outer terminal) is sorted -/
def fmtIterEvent (toks : List String) : String :=
  let r := toks.reverse
  let (last, r1) := match r with
    | t :: r' => if t == "C" || t.startsWith "E" then ([t], r') else ([], r)
    | [] => ([], [])
  let run := r1.takeWhile (fun t => t.startsWith "g" && t.endsWith ":C")
  let rest := r1.dropWhile (fun t => t.startsWith "g" && t.endsWith ":C")
  "o=" ++ String.intercalate ";" (rest.reverse ++ (run.toArray.qsort (· < ·)).toList ++ last)

/-- event `iter k`: `from_iter(0..k)` in front of a fresh group_by: items are pulled while the observer
    (GroupByObserver, whose `is_finished` is that of the outer chain) does not report finished; then `complete`. -/
def runIter (key : Val → Val) (w : GroupBy.World) (k : Nat) : GroupBy.World × List Out × Nat :=
  let rec loop (fuel : Nat) (i : Nat) (w : GroupBy.World) (acc : List Out) : GroupBy.World × List Out × Nat :=
    match fuel with
    | 0 => (w, acc, i)
    | fuel + 1 =>
      if chainFinished w.outer || i ≥ k then (w, acc, i)
      else
        let (w', o) := w.step key id (.emit (.next (.int i)))
        loop fuel (i + 1) w' (acc ++ o)
  let (w1, o1, pulls) := loop (k + 1) 0 w []
  let (w2, o2) := w1.step key id (.emit .complete)
  (w2, o1 ++ o2, pulls)

def parseGEv (ev : List SExp) : Option Ev :=
  match ev with
  | .atom "emit" :: n :: _ => some (.emit (parseNotif n))
  | .atom "unsub" :: _ => some .unsub
  | .atom "gunsub" :: k :: _ => some (.gunsub (parseVal k))
  | _ => none

def runGroupByCase (cid : String) (field : String → List SExp) (events : List (List SExp)) :
    List String :=
  let key := fn1 (match field "key" with | e :: _ => e.head | [] => "id")
  let skip := (field "skip").map parseVal
  let outer : List St1 := match field "otake" with | e :: _ => [.take e.nat 0 true] | [] => []
  -- `kc`: calls of the key function so far — one per item that reaches GroupByObserver::next (event `q kc`)
  let rec go (w : GroupBy.World) (kc : Nat) (k : Nat) : List (List SExp) → List String
    | [] => []
    | ev :: r =>
      match ev with
      | .atom "q" :: _ => s!"{cid}.{k} kc={kc}" :: go w kc (k + 1) r
      | .atom "join" :: _ => s!"{cid}.{k} o=" :: go w kc (k + 1) r      -- a silent neighbour on the source subject
      | .atom "gjoin" :: _ => s!"{cid}.{k} o=" :: go w kc (k + 1) r     -- … on the subject of a group
      | .atom "iter" :: n :: _ =>
        -- a fresh pipeline (the hot one of the case is left as it is)
        let (_, o, pulls) := runIter key (GroupBy.World.init outer skip) n.nat
        s!"{cid}.{k} {fmtIterEvent (o.map showGOut)} pulls={pulls}" :: go w kc (k + 1) r
      | _ =>
      match parseGEv ev with
      | some x =>
        let (w', o) := w.step key id x
        let terminal := match x with | .emit n => n.isTerm | _ => false
        let kc' := match x with
          | .emit (.next _) => if !w.srcDone && w.slot.isSome then kc + 1 else kc
          | _ => kc
        s!"{cid}.{k} {fmtGEvent (o.map showGOut) terminal}" :: go w' kc' (k + 1) r
      | none => [s!"{cid}.{k} BADEV"]
  go (GroupBy.World.init outer skip) 0 0 events

end Rx.Driver
