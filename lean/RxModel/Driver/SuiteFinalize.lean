import RxModel.Driver.Proto
import RxModel.Ops.Finalize
/-
  Suite `finalize` (harness/src/suites/finalize_suite.rs): field `chain`
  (source side first), events `emit <notif>`, `unsub`.
-/
namespace Rx.Driver
open Rx Rx.Finalize Rx.Spec

def parseElem (e : SExp) : Elem :=
  let arg (i : Nat) : SExp := e.args.getD i (.atom "")
  match e.head with
  | "fin" => .fin (Fin.new (arg 0).nat)
  | "map" => .op (Op1.init (.map (fn1 (arg 0).head)))
  | "filter" => .op (Op1.init (.filter (pred (arg 0).head)))
  | "take" => .op (Op1.init (.take (arg 0).nat))
  | "skip" => .op (Op1.init (.skip (arg 0).nat))
  | "takewhile" => .op (Op1.init (.takeWhile (pred (arg 0).head) false))
  | "last" => .op (Op1.init .last)
  | "dflt" => .op (Op1.init (.defaultIfEmpty (parseVal (arg 0))))
  | "takelast" => .op (Op1.init (.takeLast (arg 0).nat))
  | "skiplast" => .op (Op1.init (.skipLast (arg 0).nat))
  | _ => .op (.map id)

def showFOut : FOut → String
  | .n x => showNotif x
  | .f 0 => "F"
  | .f k => "F" ++ toString k

def parseFEv (ev : List SExp) : Option Finalize.Ev :=
  match ev with
  | .atom "emit" :: n :: _ => some (.emit (parseNotif n))
  | .atom "unsub" :: _ => some .unsub
  | .atom "gdrop" :: _ => some .unsub      -- unsubscription through the RAII guard: the same thing
  | _ => none

def runFinalizeCase (cid : String) (field : String → List SExp) (events : List (List SExp)) :
    List String :=
  let chain := (field "chain").map parseElem
  -- field `dead`: the source subject was unsubscribed before the pipeline subscribed
  let w0 : Finalize.World :=
    if (field "dead").isEmpty then Finalize.World.init chain
    else { Finalize.World.init chain with srcDone := true, slot := false }
  -- field `clones n`: n independent subscriptions of clones of the one pipeline value
  let n := match field "clones" with | e :: _ => e.nat | [] => 1
  let rec stepAll (ws : List Finalize.World) (x : Finalize.Ev) : List Finalize.World × List FOut :=
    match ws with
    | [] => ([], [])
    | w :: r =>
      let (w', o) := w.step x
      let (r', o') := stepAll r x
      (w' :: r', o ++ o')
  let rec go (ws : List Finalize.World) (k : Nat) : List (List SExp) → List String
    | [] => []
    | ev :: r =>
      match ev with
      | .atom "join" :: _ =>
        -- another (silent) subscriber joins the SOURCE subject: nothing to do with this subscription
        s!"{cid}.{k} o=" :: go ws (k + 1) r
      | _ =>
      match parseFEv ev with
      | some x =>
        let (ws', o) := stepAll ws x
        s!"{cid}.{k} o={String.intercalate ";" (o.map showFOut)}" :: go ws' (k + 1) r
      | none => [s!"{cid}.{k} BADEV"]
  go (List.replicate n w0) 0 events

end Rx.Driver
