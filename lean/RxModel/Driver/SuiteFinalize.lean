import RxModel.Driver.Proto
import RxModel.Ops.Finalize
/-
  Suite `finalize` (harness/src/suites/finalize_suite.rs): field `chain`
  (source side first), events `emit <notif>`, `unsub`.
-/
namespace Rx.Driver
open Rx Rx.Finalize Rx.Spec

def parseElem (e : SExp) : Elem :=
  let arg (i : Nat) : SExp := e.args.getD i (.atom "")
  match e.head with
  | "fin" => .fin (Fin.new (arg 0).nat)
  | "map" => .op (Op1.init (.map (fn1 (arg 0).head)))
  | "filter" => .op (Op1.init (.filter (pred (arg 0).head)))
  | "take" => .op (Op1.init (.take (arg 0).nat))
  | "skip" => .op (Op1.init (.skip (arg 0).nat))
  | "takewhile" => .op (Op1.init (.takeWhile (pred (arg 0).head) false))
  | "last" => .op (Op1.init .last)
  | "dflt" => .op (Op1.init (.defaultIfEmpty (parseVal (arg 0))))
  | "takelast" => .op (Op1.init (.takeLast (arg 0).nat))
  | "skiplast" => .op (Op1.init (.skipLast (arg 0).nat))
  | _ => .op (.map id)

def showFOut : FOut → String
  | .n x => showNotif x
  | .f 0 => "F"
  | .f k => "F" ++ toString k

def parseFEv (ev : List SExp) : Option Finalize.Ev :=
  match ev with
  | .atom "emit" :: n :: _ => some (.emit (parseNotif n))
  | .atom "unsub" :: _ => some .unsub
  | _ => none

def runFinalizeCase (cid : String) (field : String → List SExp) (events : List (List SExp)) :
    List String :=
  let chain := (field "chain").map parseElem
  let rec go (w : Finalize.World) (k : Nat) : List (List SExp) → List String
    | [] => []
    | ev :: r =>
      match parseFEv ev with
      | some x =>
        let (w', o) := w.step x
        s!"{cid}.{k} o={String.intercalate ";" (o.map showFOut)}" :: go w' (k + 1) r
      | none => [s!"{cid}.{k} BADEV"]
  go (Finalize.World.init chain) 0 events

end Rx.Driver
