import RxModel.Core.Notif
/-
  The named function family (same tables as harness/src/val.rs).  Theorems
  quantify over arbitrary closures; the driver instantiates them from here.
-/
namespace Rx.Driver
open Rx

/-- Split `add-3` into (`add`, -3); a name without digits has parameter 0. -/
def splitName (name : String) : String × Int :=
  let cs := name.toList
  let h := cs.takeWhile (fun c => !(c.isDigit || c = '-'))
  let t := cs.dropWhile (fun c => !(c.isDigit || c = '-'))
  (String.ofList h, if t.isEmpty then 0 else (String.toInt? (String.ofList t)).getD 0)

def fn1 (name : String) : Val → Val :=
  let (h, k) := splitName name
  fun v => match h, v with
    | "id", v => v
    | "add", .int i => .int (i + k)
    | "mul", .int i => .int (i * k)
    | "mod", .int i => .int (if k = 0 then i else i.emod k)
    | "div", .int i => .int (if k = 0 then i else i / k)
    | "const", _ => .int k
    | "neg", .int i => .int (-i)
    | "fst", .pair a _ => a
    | "snd", .pair _ b => b
    | "unwrap", .some a => a
    | _, v => v

def pred (name : String) : Val → Bool :=
  let (h, k) := splitName name
  fun v => match h, v with
    | "true", _ => true
    | "false", _ => false
    | "even", .int i => i.emod 2 == 0
    | "lt", .int i => decide (i < k)
    | "gt", .int i => decide (i > k)
    | "eq", .int i => i == k
    | "ne", .int i => i != k
    | _, _ => false

def fnopt (name : String) : Val → Option Val :=
  let (h, k) := splitName name
  fun v => match h, v with
    | "some", v => some v
    | "none", _ => none
    | "evenhalf", .int i => if i.emod 2 == 0 then some (.int (i.ediv 2)) else none
    | "gtadd", .int i => if i > k then some (.int (i + k)) else none
    | _, _ => none

/-- `Val + Val` of the harness: integer addition, otherwise the right operand. -/
def valAdd : Val → Val → Val
  | .int a, .int b => .int (a + b)
  | _, b => b

def fn2 (name : String) : Val → Val → Val :=
  fun a b => match name, a, b with
    | "add", a, b => valAdd a b
    | "mul", .int x, .int y => .int (x * y)
    | "max", .int x, .int y => .int (max x y)
    | "min", .int x, .int y => .int (min x y)
    | "left", a, _ => a
    | "right", _, b => b
    | "count", .int x, _ => .int (x + 1)
    | "pair", a, b => .pair a b
    | _, _, b => b

def fne (name : String) : Err → Err :=
  let (h, k) := splitName name
  fun e => match h with
    | "id" => e
    | "add" => e + k
    | "neg" => -e
    | "const" => k
    | _ => e

/-! Closures the library itself supplies for min / max / average / count. -/

/-- `max_fn`: `Some(max) if max > v => Some(max), _ => Some(v)`; only integers are ordered. -/
def maxOpt : Val → Val → Val
  | .some (.int a), .int b => if a > b then .some (.int a) else .some (.int b)
  | _, v => .some v

def minOpt : Val → Val → Val
  | .some (.int a), .int b => if a < b then .some (.int a) else .some (.int b)
  | _, v => .some v

def unwrapOpt : Val → Val
  | .some v => v
  | v => v

/-- `accumulate_item`: `(acc.0 + v, acc.1 + 1)`. -/
def avgAcc : Val → Val → Val
  | .pair s (.int n), v => .pair (valAdd s v) (.int (n + 1))
  | a, _ => a

/-- `average_floats`: `acc.0 * (1.0 / acc.1)`, with the harness' integer `Mul<f64>`. -/
def avgFin : Val → Val
  | .pair (.int s) (.int n) => if n = 0 then .int s else .int (s.tdiv n)
  | .pair s _ => s
  | v => v

end Rx.Driver
