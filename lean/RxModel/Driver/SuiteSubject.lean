import RxModel.Driver.Proto
import RxModel.Subject.Behavior
/-
  Suites `subject` (C06) and `behavior` (C12): the lines
  harness/src/suites/subject_suite.rs prints for the real types, from the model.

    ev sub <act>*         act: `-` nop | `s` subscribe a fresh probe | (u t) unsubscribe subscriber t
    ev unsub i | next v | error e | complete | retain | unsubject | clone | peek | nextby <fn1>
    ev via h <op ...>     the same op issued through clone number h (same op in the model)
  line:  o=<id>:<notif>;...  len=<n> empty=<0|1> fin=<0|1> closed=<0|1> [peek=<v>]
-/
namespace Rx.Driver
open Rx Rx.Subj

def parseAct : SExp → Act
  | .atom "s" => .sub
  | .list (.atom "u" :: t :: _) => .unsub t.nat
  | _ => .nop

def stripVia : List SExp → List SExp
  | .atom "via" :: _ :: r => r
  | ev => ev

def parseSubjOp (ev : List SExp) : Option SubjOp :=
  match stripVia ev with
  | .atom "sub" :: acts => some (.subscribe (acts.map parseAct))
  | .atom "unsub" :: i :: _ => some (.unsubOne i.nat)
  | .atom "next" :: v :: _ => some (.next (parseVal v))
  | .atom "error" :: e :: _ => some (.error e.int)
  | .atom "complete" :: _ => some .complete
  | .atom "retain" :: _ => some .retain
  | .atom "unsubject" :: _ => some .unsubscribe
  | .atom "clone" :: _ => some .clone
  | _ => none

def parseBOp (ev : List SExp) : Option BOp :=
  match stripVia ev with
  | .atom "sub" :: acts => some (.subscribe (acts.map parseAct))
  | .atom "unsub" :: i :: _ => some (.unsubOne i.nat)
  | .atom "next" :: v :: _ => some (.next (parseVal v))
  | .atom "nextby" :: f :: _ => some (.nextBy (fn1 f.head))
  | .atom "error" :: e :: _ => some (.error e.int)
  | .atom "complete" :: _ => some .complete
  | .atom "unsubject" :: _ => some .unsubscribe
  | .atom "clone" :: _ => some .clone
  | .atom "peek" :: _ => some .peek
  | _ => none

def b01 (b : Bool) : String := if b then "1" else "0"

def showOutput (o : Output) : String :=
  if o.panic then "PANIC" else
  "o=" ++ String.intercalate ";" (o.deliveries.map fun d => toString d.1 ++ ":" ++ showNotif d.2)
    ++ s!" len={o.len} empty={b01 o.empty} fin={b01 o.finished} closed={b01 o.closed}"

def runSubjectCase (id : String) (events : List (List SExp)) : List String :=
  let rec go (s : State) (k : Nat) : List (List SExp) → List String
    | [] => []
    | ev :: r =>
      match parseSubjOp ev with
      | some op =>
        let x := step s op
        if x.2.panic then [s!"{id}.{k} PANIC"]
        else s!"{id}.{k} {showOutput x.2}" :: go x.1 (k + 1) r
      | none => [s!"{id}.{k} BADEV"]
  go State.init 0 events

def runBehaviorCase (id : String) (init : List SExp) (events : List (List SExp)) : List String :=
  let v0 := match init with | e :: _ => parseVal e | [] => .int 0
  let rec go (b : BState) (k : Nat) : List (List SExp) → List String
    | [] => []
    | ev :: r =>
      match parseBOp ev with
      | some op =>
        let x := bstep b op
        if x.2.out.panic then [s!"{id}.{k} PANIC"]
        else s!"{id}.{k} {showOutput x.2.out} peek={showVal x.2.peek}" :: go x.1 (k + 1) r
      | none => [s!"{id}.{k} BADEV"]
  go (BState.init v0) 0 events

end Rx.Driver
