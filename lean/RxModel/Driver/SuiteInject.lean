import RxModel.Driver.Proto
import RxModel.Conc.SubjectSteps
/-
  Runner of suite `inject` (C06 / C10, threads flavour): the events of
  harness/src/suites/inject_suite.rs executed on the step model
  `Conc/SubjectSteps.lean`.

    ev sub | next <v> | error <e> | complete | unsuball | unsub <u> | retain | size
    ev inj <k> (<opA…>) (<opB…>)     first k critical sections of A, all of B, the rest of A
  line:  o=<u>:<notif>;…[ len=<n>][ empty=<0|1>]…[ inj=<0|1>]      or PANIC
-/
namespace Rx.Driver.InjectS
open Rx Rx.Driver Rx.Conc.SS

def parseOp : List SExp → Option Op
  | .atom "sub" :: _ => some .subscribe
  | .atom "next" :: v :: _ => some (.next (parseVal v))
  | .atom "error" :: e :: _ => some (.error e.int)
  | .atom "complete" :: _ => some .complete
  | .atom "unsuball" :: _ => some .unsubAll
  | .atom "unsub" :: u :: _ => some (.unsub u.nat)
  | .atom "retain" :: _ => some .retain
  | .atom "size" :: _ => some .size
  | _ => none

def showSize : SizeOut → String
  | .len n => s!" len={n}"
  | .empty b => " empty=" ++ (if b then "1" else "0")

/-- What happened between state `s0` and the later state `s`. -/
def showDelta (s0 s : St) : String :=
  "o=" ++ String.intercalate ";" ((s.log.drop s0.log.length).map fun d => toString d.1 ++ ":" ++ showNotif d.2)
    ++ String.join ((s.sizes.drop s0.sizes.length).map showSize)

def runInjectCase (id : String) (events : List (List SExp)) : List String :=
  let rec go (s : St) (k : Nat) : List (List SExp) → List String
    | [] => []
    | ev :: r =>
      match ev with
      | .atom "inj" :: n :: a :: b :: _ =>
        match parseOp a.elems, parseOp b.elems with
        | some oa, some ob =>
          let x := s.inject n.nat oa ob
          if x.1.panicked then [s!"{id}.{k} PANIC"]
          else s!"{id}.{k} {showDelta s x.1} inj={if x.2 then "1" else "0"}" :: go x.1 (k + 1) r
        | _, _ => [s!"{id}.{k} BADEV"]
      | _ =>
        match parseOp ev with
        | some op =>
          let s' := s.runOp op
          if s'.panicked then [s!"{id}.{k} PANIC"]
          else s!"{id}.{k} {showDelta s s'}" :: go s' (k + 1) r
        | none => [s!"{id}.{k} BADEV"]
  go St.init 0 events

end Rx.Driver.InjectS
