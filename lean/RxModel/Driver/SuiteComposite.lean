import RxModel.Driver.SExp
import RxModel.Sub.Composite
/-
  Runner of suite `composite` (C17, composite part): the same lines as
  harness/src/suites/composite_suite.rs.  Fields: `leaves n` (default 3),
  `model code|fixed` (default `code`: `MultiSubscription::append` as it is in /repo).
-/
namespace Rx.Driver.CompS
open Rx.Driver Rx.Comp

/-- `(box t)` is transparent: BoxSubscription forwards both methods. -/
partial def parseSub (e : SExp) : Sub :=
  match e.head with
  | "u" => .unit
  | "l" => .leaf (e.args.getD 0 (.atom "")).nat
  | "m" => .multi (e.args.getD 0 (.atom "")).nat
  | "zip" => .zip (parseSub (e.args.getD 0 (.atom "u"))) (parseSub (e.args.getD 1 (.atom "u")))
  | "box" => parseSub (e.args.getD 0 (.atom "u"))
  | _ => .unit

def parseOp (ev : List SExp) : Option Op :=
  match ev with
  | .atom "append" :: j :: t :: _ => some (.append j.nat (parseSub t))
  | .atom "appendtask" :: j :: tag :: _ => some (.appendTask j.nat tag.nat)
  | .atom "unsub" :: t :: _ => some (.unsub (parseSub t))
  | .atom "unsubreapp" :: j :: t :: _ => some (.unsubReapp j.nat (parseSub t))
  | .atom "closed" :: t :: _ => some (.closed (parseSub t))
  | .atom "retain" :: j :: _ => some (.retain j.nat)
  | .atom "size" :: j :: _ => some (.size j.nat)
  | .atom "clone" :: j :: _ => some (.clone j.nat)
  | .atom "guard" :: t :: _ => some (.guard (parseSub t))
  | .atom "dropguard" :: k :: _ => some (.dropGuard k.nat)
  | .atom "emit" :: v :: _ => some (.emit v.int)
  | .atom "run" :: _ => some .run
  | _ => none

def showObs : Obs → String
  | .ok => "ok"
  | .closed b => "closed=" ++ (if b then "1" else "0")
  | .size n => s!"size={n}"
  | .handles n => s!"handles={n}"
  | .out ds => "d=" ++ String.intercalate ";" (ds.map fun d => s!"{d.1}:N{d.2}")
  | .ran ts => "t=" ++ String.intercalate ";" (ts.map fun t => s!"T{t}")

def runCompositeCase (id : String) (field : String → List SExp) (events : List (List SExp)) :
    List String :=
  let m : Model := match field "model" with
    | e :: _ => if e.head == "fixed" then .fixed else .code
    | [] => .code
  let n : Nat := match field "leaves" with
    | e :: _ => e.nat
    | [] => 3
  let rec go (w : W) (k : Nat) : List (List SExp) → List String
    | [] => []
    | ev :: r =>
      match parseOp ev with
      | some x =>
        let (w', o) := step m w x
        s!"{id}.{k} {showObs o}" :: go w' (k + 1) r
      | none => [s!"{id}.{k} BADEV"]
  go (init n) 0 events

end Rx.Driver.CompS
