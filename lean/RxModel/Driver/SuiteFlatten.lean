import RxModel.Driver.Proto
import RxModel.Ops.MergeAll
/-
  Suite `flatten` (harness/src/suites/flatten_suite.rs): one merge_all-family
  operator over a hot outer stream of inner observables.

    limit  n | inf | concat | flatten
    via    mergeall | flatmap | concatmap      (optional; flat_map = map · merge_all(MAX), the
                                                `map` from item k to the k-th inner is identity glue)
    model  code | fixed                        (optional, default code; read by the driver only)
    inners (cold (1 2) c) (cold () (e 3)) (cold (5) -) (hot 0) ...
    ev outer (o k) | outer c | outer (e 3) | inner j (n 5) | inner j c | inner j (e 4) | unsub
-/
namespace Rx.Driver
open Rx Rx.MergeAll

def parseFin : SExp → Fin
  | .atom "c" => .complete
  | .list (.atom "e" :: k :: _) => .error k.int
  | _ => .open_

def parseInner (e : SExp) : Inner :=
  match e with
  | .list (.atom "cold" :: .list xs :: f :: _) => .cold (xs.map parseVal) (parseFin f)
  | .list (.atom "cold" :: .list xs :: []) => .cold (xs.map parseVal) .open_
  | .list (.atom "hot" :: j :: _) => .hot j.nat
  | _ => .cold [] .open_

def parseLimit (via : String) : List SExp → Nat
  | .atom "inf" :: _ => usizeMax
  | .atom "flatten" :: _ => usizeMax
  | .atom "concat" :: _ => 1
  | e :: _ => e.nat
  | [] => if via == "concatmap" then 1 else usizeMax

def parseFlatEv : List SExp → Option Ev
  | .atom "outer" :: .list (.atom "o" :: k :: _) :: _ => some (.outerNext k.nat)
  | .atom "outer" :: .atom "c" :: _ => some .outerComplete
  | .atom "outer" :: .list (.atom "e" :: k :: _) :: _ => some (.outerError k.int)
  | .atom "inner" :: j :: .list (.atom "n" :: v :: _) :: _ => some (.innerNext j.nat (parseVal v))
  | .atom "inner" :: j :: .atom "c" :: _ => some (.innerComplete j.nat)
  | .atom "inner" :: j :: .list (.atom "e" :: k :: _) :: _ => some (.innerError j.nat k.int)
  | .atom "unsub" :: _ => some .unsub
  | _ => none

def runFlattenLines (id : String) (flavor : String) (fixed : Bool) (s0 : St)
    (events : List (List SExp)) : List String :=
  let rec go (s : St) (k : Nat) : List (List SExp) → List String
    | [] => []
    | ev :: r =>
      match ev with
      | .atom "rinner" :: j :: n :: j2 :: n2 :: _ =>
        -- `rinner j n j2 n2`: inner j emits on this thread; WHILE the subscriber is called for it inner j2 emits on another
        -- thread.  The operator hands items to its downstream with its cell held: the second emission waits — the line is
        -- that of the two emissions one after the other
        match parseFlatEv [.atom "inner", j, n], parseFlatEv [.atom "inner", j2, n2] with
        | some x1, some x2 =>
          let (s1, o1) := stepG fixed s x1
          let (s2, o2) := stepG fixed s1 x2
          if s1.stuck || s2.stuck then
            [s!"{id}.{k} " ++ (if flavor == "threads" then "RELOCK" else "PANIC")]
          else
            s!"{id}.{k} {showOut ((o1 ++ o2).map Out.toNotif)}" :: go s2 (k + 1) r
        | _, _ => [s!"{id}.{k} BADEV"]
      | _ =>
      match parseFlatEv ev with
      | some x =>
        let (s', o) := stepG fixed s x
        if s'.stuck then
          [s!"{id}.{k} " ++ (if flavor == "threads" then "RELOCK" else "PANIC")]
        else
          s!"{id}.{k} {showOut (o.map Out.toNotif)}" :: go s' (k + 1) r
      | none => [s!"{id}.{k} BADEV"]
  go s0 0 events

/-- Entry point registered in Driver/Main.lean (`field` = `Case.field`). -/
def runFlatten (id flavor : String) (field : String → List SExp) (events : List (List SExp)) :
    List String :=
  let via := match field "via" with | e :: _ => e.head | [] => "mergeall"
  let fixed := match field "model" with | .atom "fixed" :: _ => true | _ => false
  let s0 := MergeAll.init ((field "inners").map parseInner) (parseLimit via (field "limit"))
  runFlattenLines id flavor fixed s0 events

end Rx.Driver
