import RxModel.Driver.SExp
import RxModel.Conc.Footprint
import RxModel.Conc.BehaviorLts
/-
  Runner of suite `locks` (C10): the lock programs (`Conc.footprint`) of the
  operations of a script on a thread-safe pipeline, printed as the harness prints
  the lock trace it records through hook H2: `a<cell>[<held>]` per acquisition,
  `c<probe>[<held>]` per callback, `f0[<held>]` per finalizer call, cells renamed
  in order of first acquisition.

  The case describes a tree (harness/src/suites/locks_suite.rs): a root
  `SubjectThreads` / `BehaviorSubject<_, SubjectThreads>` / `share_threads()`, its
  subscriber chains over plain | cell | slot | fin | oo (observe_on_threads) |
  dl (delay_threads) stages, ending in a probe or in a nested subject with its
  own subscribers.  This file only keeps the book: which `Conc.Shape` the tree is
  right now (`toShape`: subscribers come and go, every scheduled task adds a
  handle cell), which `Conc.Op` (or script of them) a real API call is, and a
  stable NAME for every model cell (`labels`, in the order `Conc.cells` counts
  them) so that "the same cell" can be recognised across events although the
  model renumbers the cells whenever the shape grows.  Every token printed comes
  from `Conc.footprint` of the current shape.
-/
namespace Rx.Driver.LocksS
open Rx.Driver Rx.Conc

/-- What a subject node is. `share`: the notifications the source emits from
    inside `connect()`, and whether the first subscription has happened. -/
inductive SK where
  | plain
  | behavior
  | share (sync : List (Kind × Nat)) (connected : Bool)

inductive El where
  | plain | cell | slot | fin
  /-- `observe_on_threads` (`dl = false`) / `delay_threads`; the tasks scheduled so far
      (global spawn number, what they deliver), one handle cell each. -/
  | task (dl : Bool) (ts : List (Nat × Kind))

inductive W where
  | leaf (u : Nat)
  | st (e : El) (d : W)
  | subj (id : Nat) (k : SK) (subs : List W)

instance : Inhabited W := ⟨.leaf 0⟩
instance : Inhabited Shape := ⟨.leaf 0⟩
instance : Inhabited Shapes := ⟨.nil⟩

/-- Counters: next subject number, next probe number, next task number. -/
structure Ctr where
  subj : Nat := 0
  probe : Nat := 0
  task : Nat := 0

def parseNotifKind : SExp → Kind × Nat
  | .atom "c" => (.term false, 0)
  | .list (.atom "e" :: _) => (.term true, 0)
  | _ => (.next, 0)

def elOf : String → Option El
  | "plain" => some .plain
  | "cell" => some .cell
  | "slot" => some .slot
  | "fin" => some .fin
  | "oo" => some (.task false [])
  | "dl" => some (.task true [])
  | _ => none

mutual
/-- How a delivery changes the tree: every task stage it reaches on the calling thread
    schedules one task (but `delay_threads` forwards `error` at once). -/
partial def deliverW (kd : Kind) (c : Ctr) : W → W × Ctr
  | .leaf u => (.leaf u, c)
  | .st (.task dl ts) d =>
    match kd with
    | .fin => (.st (.task dl ts) d, c)
    | .term true =>
      if dl then
        let (d, c) := deliverW kd c d
        (.st (.task dl ts) d, c)
      else (.st (.task dl (ts ++ [(c.task, kd)])) d, { c with task := c.task + 1 })
    | _ => (.st (.task dl (ts ++ [(c.task, kd)])) d, { c with task := c.task + 1 })
  | .st e d =>
    let (d, c) := deliverW kd c d
    (.st e d, c)
  | .subj id k subs =>
    let (subs, c) := deliverWs kd c subs
    (.subj id k subs, c)
partial def deliverWs (kd : Kind) (c : Ctr) : List W → List W × Ctr
  | [] => ([], c)
  | d :: ds =>
    let (d, c) := deliverW kd c d
    let (ds, c) := deliverWs kd c ds
    (d :: ds, c)
end

mutual
/-- `(subject c*)` / `(behavior c*)` / `(share (notif*))`, numbered as the harness creates them. -/
partial def parseNode (c : Ctr) (e : SExp) : W × Ctr :=
  let id := c.subj
  let c := { c with subj := c.subj + 1 }
  match e with
  | .list (.atom "behavior" :: chains) =>
    let (subs, c) := parseChains true c chains
    (.subj id .behavior subs, c)
  | .list (.atom "share" :: r) =>
    (.subj id (.share ((r.headD (.list [])).elems.map parseNotifKind) false) [], c)
  | .list (_ :: chains) =>
    let (subs, c) := parseChains false c chains
    (.subj id .plain subs, c)
  | _ => (.subj id .plain [], c)
/-- The subscribers of a node, in order.  `greet`: the node is a `BehaviorSubject`, whose
    `actual_subscribe` hands the current value to the new observer at once (a task stage schedules a task). -/
partial def parseChains (greet : Bool) (c : Ctr) : List SExp → List W × Ctr
  | [] => ([], c)
  | ch :: r =>
    let (w, c) := parseChain c ch.elems
    let (w, c) := if greet then deliverW .next c w else (w, c)
    let (ws, c) := parseChains greet c r
    (w :: ws, c)
/-- One subscriber chain, source side first; the observer at its end is the last element
    if that is a list (a nested subject), a fresh probe otherwise. -/
partial def parseChain (c : Ctr) : List SExp → W × Ctr
  | [] => (.leaf c.probe, { c with probe := c.probe + 1 })
  | [.list xs] => parseNode c (.list xs)
  | x :: r =>
    let (d, c) := parseChain c r
    match elOf x.head with
    | some e => (.st e d, c)
    | none => (d, c)
end

mutual
partial def toShape : W → Shape
  | .leaf u => .leaf u
  | .st .plain d => .plain (toShape d)
  | .st .cell d => .cell (toShape d)
  | .st .slot d => .slot (toShape d)
  | .st .fin d => .fin (toShape d)
  | .st (.task dl ts) d => .task dl ts.length (toShape d)
  | .subj _ .plain subs => .subject (toShapes subs)
  | .subj _ .behavior subs => .behavior (.subject (toShapes subs))
  | .subj _ (.share _ _) subs => .share (.subject (toShapes subs))
partial def toShapes : List W → Shapes
  | [] => .nil
  | d :: ds => .cons (toShape d) (toShapes ds)
end

mutual
/-- A name for every cell of `toShape w`, in the order `Conc.cells` counts them (pre-order).
    `pfx`/`depth`: the subscriber the chain belongs to and the position of the stage in it. -/
partial def labels (pfx : String) (depth : Nat) : W → List String
  | .leaf _ => []
  | .st .plain d => labels pfx (depth + 1) d
  | .st (.task _ ts) d =>
    s!"{pfx}/{depth}m" :: (ts.map fun t => s!"h{t.1}") ++ s!"{pfx}/{depth}s" :: labels pfx (depth + 1) d
  | .st _ d => s!"{pfx}/{depth}" :: labels pfx (depth + 1) d
  | .subj id k subs =>
    let pre := match k with
      | .plain => []
      | .behavior => [s!"S{id}.v"]
      | .share _ _ => [s!"S{id}.sh"]
    pre ++ s!"S{id}.o" :: s!"S{id}.c" :: subLabels id 0 subs
partial def subLabels (id : Nat) (i : Nat) : List W → List String
  | [] => []
  | d :: ds => s!"S{id}.{i}" :: labels s!"S{id}.{i}" 0 d ++ subLabels id (i + 1) ds
end

def allLabels (w : W) : List String := labels "R" 0 w

/-- Address the inner `SubjectThreads` of a node from the node. -/
def innerSubj : SK → Op → Op
  | .plain, o => o
  | _, o => .inner o

mutual
/-- The address (`Conc.Op` context) of node `id`, and what it is. -/
partial def pathTo (id : Nat) : W → Option ((Op → Op) × SK × List W)
  | .leaf _ => none
  | .st _ d => (pathTo id d).map fun (f, r) => (fun o => .inner (f o), r)
  | .subj id' k subs =>
    if id' = id then some (fun o => o, k, subs)
    else (pathSubs id 0 subs).map fun (f, r) => (fun o => innerSubj k (f o), r)
partial def pathSubs (id : Nat) (i : Nat) : List W → Option ((Op → Op) × SK × List W)
  | [] => none
  | d :: ds =>
    match pathTo id d with
    | some (f, r) => some (fun o => .sub i (.inner (f o)), r)
    | none => pathSubs id (i + 1) ds
end

mutual
/-- The address of the task stage that owns task `g`, the task's index among the stage's
    handles and what it delivers. -/
partial def pathTask (g : Nat) : W → Option ((Op → Op) × Nat × Kind)
  | .leaf _ => none
  | .st (.task _ ts) d =>
    match ts.findIdx? (·.1 == g) with
    | some i => some (fun o => o, i, ((ts.getD i (0, .next)).2))
    | none => (pathTask g d).map fun (f, r) => (fun o => .inner (f o), r)
  | .st _ d => (pathTask g d).map fun (f, r) => (fun o => .inner (f o), r)
  | .subj _ k subs => (pathTaskSubs g 0 subs).map fun (f, r) => (fun o => innerSubj k (f o), r)
partial def pathTaskSubs (g : Nat) (i : Nat) : List W → Option ((Op → Op) × Nat × Kind)
  | [] => none
  | d :: ds =>
    match pathTask g d with
    | some (f, r) => some (fun o => .sub i (.inner (f o)), r)
    | none => pathTaskSubs g (i + 1) ds
end

/-- Apply `f` to node `id`. -/
partial def atNode (id : Nat) (f : W → Ctr → W × Ctr) (c : Ctr) : W → W × Ctr
  | .leaf u => (.leaf u, c)
  | .st e d =>
    let (d, c) := atNode id f c d
    (.st e d, c)
  | .subj id' k subs =>
    if id' = id then f (.subj id' k subs) c
    else
      let (subs, c) := subs.foldl (fun (acc : List W × Ctr) d =>
        let (d, c) := atNode id f acc.2 d
        (acc.1 ++ [d], c)) ([], c)
      (.subj id' k subs, c)

/-- Apply `f` to what is downstream of the task stage that owns task `g`. -/
partial def afterTask (g : Nat) (f : W → Ctr → W × Ctr) (c : Ctr) : W → W × Ctr
  | .leaf u => (.leaf u, c)
  | .st (.task dl ts) d =>
    if ts.any (·.1 == g) then
      let (d, c) := f d c
      (.st (.task dl ts) d, c)
    else
      let (d, c) := afterTask g f c d
      (.st (.task dl ts) d, c)
  | .st e d =>
    let (d, c) := afterTask g f c d
    (.st e d, c)
  | .subj id k subs =>
    let (subs, c) := subs.foldl (fun (acc : List W × Ctr) d =>
      let (d, c) := afterTask g f acc.2 d
      (acc.1 ++ [d], c)) ([], c)
    (.subj id k subs, c)

def addSub (new : W) : W → W
  | .subj id k subs => .subj id k (subs ++ [new])
  | w => w

def setConnected : W → W
  | .subj id (.share es _) subs => .subj id (.share es true) subs
  | w => w

/-- What `unsubscribe()` of a subscriber's subscription does below the subject's own slot:
    `FinalizerSubscription` runs the finalizer cell, `ZipSubscription<_, MultiSubscriptionThreads>`
    of observe_on / delay cancels the tasks; source side first. -/
partial def stageOps (wrap : Op → Op) : W → List Op
  | .st .fin d => wrap (.here .finUnsub) :: stageOps (fun o => wrap (.inner o)) d
  | .st (.task _ _) d => wrap (.here .multiUnsub) :: stageOps (fun o => wrap (.inner o)) d
  | .st _ d => stageOps (fun o => wrap (.inner o)) d
  | _ => []

/-- The held cells under their first-acquisition numbers, ascending. -/
def showHeld (labs : List String) (names : List String) (held : List Nat) : String :=
  let idxs := held.filterMap fun c => (labs[c]?).bind fun l => names.idxOf? l
  String.intercalate "." ((idxs.mergeSort (· ≤ ·)).map toString)

/-- Render a lock program; `labs` names the model cells, `names` lists the names in order of
    first acquisition. -/
def render (labs : List String) : List Act → List String → List Nat → List String → List String × List String
  | [], names, _, acc => (names, acc.reverse)
  | .acq c :: r, names, held, acc =>
      let lab := (labs[c]?).getD s!"?{c}"
      let (names', idx) := match names.idxOf? lab with
        | some i => (names, i)
        | none => (names ++ [lab], names.length)
      render labs r names' (c :: held) (s!"a{idx}[{showHeld labs names' held}]" :: acc)
  | .rel c :: r, names, held, acc => render labs r names (held.erase c) acc
  | .cb u _ :: r, names, held, acc => render labs r names held (s!"c{u}[{showHeld labs names held}]" :: acc)
  -- `atom 0` is the call of a finalizer (under its cell), which the harness's finalizers record;
  -- the other atoms (the value store of a behaviour subject) leave no trace
  | .atom 0 :: r, names, held, acc => render labs r names held (s!"f0[{showHeld labs names held}]" :: acc)
  | .atom _ :: r, names, held, acc => render labs r names held acc

structure St where
  w : W
  c : Ctr
  names : List String := []

/-- One event: the script of model operations the real call is, on which shape, under which
    cell names; and the tree afterwards. -/
def stepEv (s : St) (ev : List SExp) : Option (List Act × List String × W × Ctr) :=
  let (sid, ev) := match ev with
    | .atom "on" :: i :: r => (i.nat, r)
    | r => (0, r)
  let w := s.w
  let shape := toShape w
  let labs := allLabels w
  let run (os : List Op) := os.flatMap (footprint shape)
  match ev with
  | .atom "poll" :: g :: _ =>
    (pathTask g.nat w).map fun (f, i, kd) =>
      let (w', c') := afterTask g.nat (fun n c => deliverW kd c n) s.c w
      (run [f (.here (.taskPoll i kd 0))], labs, w', c')
  | .atom "pend" :: g :: _ =>
    (pathTask g.nat w).map fun (f, i, _) => (run [f (.here (.taskPend i))], labs, w, s.c)
  | .atom op :: args =>
    (pathTo sid w).bind fun (f, k, subs) =>
      let sub := fun o => f (innerSubj k o)
      let deliv (kd : Kind) :=
        let (w', c') := atNode sid (fun n c => deliverW kd c n) s.c w
        some (run [f (.here (.deliver kd 0))], labs, w', c')
      match op with
      | "next" => deliv .next
      | "complete" => deliv (.term false)
      | "error" => deliv (.term true)
      | "fin" => some (run [f (.here (.deliver .fin 0))], labs, w, s.c)
      | "retain" => some (run [sub (.here .retain)], labs, w, s.c)
      | "size" => some (run [sub (.here .size)], labs, w, s.c)
      | "unsuball" => some (run [sub (.here .unsubAll)], labs, w, s.c)
      | "unsub" =>
        let i := (args.headD (.atom "0")).nat
        let refc := match k with
          | .share _ _ => [sub (.here .size)]
          | _ => []
        let below := stageOps (fun o => sub (.sub i (.inner o))) (subs.getD i (.leaf 0))
        some (run (sub (.sub i (.here .slotUnsub)) :: refc ++ below), labs, w, s.c)
      | "subscribe" =>
        let (new, c1) := parseChain s.c (args.headD (.list [])).elems
        match k with
        | .plain =>
          let (w', c') := atNode sid (fun n c => (addSub new n, c)) c1 w
          some (run [f (.here (.subscribe (toShape new) 0))], labs, w', c')
        | .behavior =>
          -- the new observer is called (under the value cell) before it becomes a subscriber: its cells are
          -- numbered after the cells of the behaviour subject (`opAt`), whatever else the pipeline has there
          let nodeLabs := labels "R" 0 (.subj sid k subs)
          let pos := (labs.idxOf? s!"S{sid}.v").getD 0 + nodeLabs.length
          let labs' := labs.take pos ++ labels s!"S{sid}.{subs.length}" 0 new
          let (new', c2) := deliverW .next c1 new
          let (w', c') := atNode sid (fun n c => (addSub new' n, c)) c2 w
          some (run [f (.here (.subscribe (toShape new) 0))], labs', w', c')
        | .share es connected =>
          if connected then
            let (w', c') := atNode sid (fun n c => (addSub new n, c)) c1 w
            some (run [f (.here (.subscribe (toShape new) 0))], labs, w', c')
          else
            let (w1, c2) := atNode sid (fun n c => (setConnected (addSub new n), c)) c1 w
            let (w', c') := es.foldl (fun (acc : W × Ctr) e =>
              atNode sid (fun n c => deliverW e.1 c n) acc.2 acc.1) (w1, c2)
            some ((footprint (toShape w1) (f (.here (.shareConnect es)))), allLabels w1, w', c')
      | _ => none
  | _ => none

def runLocksCase (id : String) (root : List SExp) (subs : List SExp) (events : List (List SExp)) :
    List String :=
  let rootE : SExp := match root with
    | e :: _ => e
    | [] => .list (.atom "subject" :: subs)
  let (w, c) := parseNode {} rootE
  let rec go (s : St) (k : Nat) : List (List SExp) → List String
    | [] => []
    | ev :: r =>
      match stepEv s ev with
      | some (p, labs, w', c') =>
        let (names', toks) := render labs p s.names [] []
        s!"{id}.{k} t={String.intercalate "," toks}" :: go { w := w', c := c', names := names' } (k + 1) r
      | none => [s!"{id}.{k} BADEV"]
  go { w := w, c := c } 0 events

/-- Suite `behaviorrace`: the schedule store₁, store₂, broadcast₂, broadcast₁ of
    `C12_race_counterexample` executed on the behaviour-subject LTS. -/
def runBehaviorRace (id : String) (events : List (List SExp)) : List String :=
  let r := dexec Behavior.sem (mkState Behavior.progs2) (Behavior.d0 0)
    [0, 0, 0, 1, 1, 1, 1, 1, 1, 0, 0, 0]
  let line := match r with
    | some x => s!"log={String.intercalate ";" (x.2.log.map fun v => s!"N{v}")} peek={x.2.value}"
    | none => "log=? peek=?"
  (List.range events.length).map fun k => s!"{id}.{k} {line}"

end Rx.Driver.LocksS
