import RxModel.Driver.SExp
import RxModel.Conc.Footprint
import RxModel.Conc.BehaviorLts
/-
  Runner of suite `locks` (C10): the lock programs (`Conc.footprint`) of the
  operations of a script on a thread-safe subject with several subscriber
  chains, printed as the harness prints the lock trace it records through hook
  H2: `a<cell>@<depth>` per acquisition, `c<sub>@<depth>` per callback, cells
  renamed in order of first acquisition.
-/
namespace Rx.Driver.LocksS
open Rx.Driver Rx.Conc

def chainShape (u : Nat) : List SExp → Shape
  | [] => .leaf u
  | .atom "plain" :: r => .plain (chainShape u r)
  | .atom "cell" :: r => .cell (chainShape u r)
  | .atom "slot" :: r => .slot (chainShape u r)
  | .atom "fin" :: r => .fin (chainShape u r)
  | _ :: r => chainShape u r

def mkShapes (u : Nat) : List SExp → Shapes
  | [] => .nil
  | c :: r => .cons (chainShape u c.elems) (mkShapes (u + 1) r)

/-- The held cells under their first-acquisition numbers, ascending. -/
def showHeld (names : List Nat) (held : List Nat) : String :=
  let idxs := held.filterMap fun c => names.idxOf? c
  String.intercalate "." ((idxs.mergeSort (· ≤ ·)).map toString)

/-- Render a lock program; `names` maps model cells to their first-acquisition numbers. -/
def render : List Act → List Nat → List Nat → List String → List Nat × List String
  | [], names, _, acc => (names, acc.reverse)
  | .acq c :: r, names, held, acc =>
      let (names', idx) := match names.idxOf? c with
        | some i => (names, i)
        | none => (names ++ [c], names.length)
      render r names' (c :: held) (s!"a{idx}[{showHeld names' held}]" :: acc)
  | .rel c :: r, names, held, acc => render r names (held.erase c) acc
  | .cb u _ :: r, names, held, acc => render r names held (s!"c{u}[{showHeld names held}]" :: acc)
  | .atom _ :: r, names, held, acc => render r names held acc

def progOf (s : Shape) (ev : List SExp) : Option (List Act) :=
  match ev with
  | .atom "next" :: _ => some (footprint s (.here (.deliver .next 0)))
  | .atom "complete" :: _ => some (footprint s (.here (.deliver .term 0)))
  | .atom "error" :: _ => some (footprint s (.here (.deliver .term 0)))
  | .atom "retain" :: _ => some (footprint s (.here .retain))
  | .atom "size" :: _ => some (footprint s (.here .size))
  | .atom "unsuball" :: _ => some (footprint s (.here .unsubAll))
  | .atom "unsub" :: u :: _ => some (footprint s (.sub u.nat (.here .slotUnsub)))
  | _ => none

def runLocksCase (id : String) (subs : List SExp) (events : List (List SExp)) : List String :=
  let shape : Shape := .subject (mkShapes 0 subs)
  let rec go (names : List Nat) (k : Nat) : List (List SExp) → List String
    | [] => []
    | ev :: r =>
      match progOf shape ev with
      | some p =>
        let (names', toks) := render p names [] []
        s!"{id}.{k} t={String.intercalate "," toks}" :: go names' (k + 1) r
      | none => [s!"{id}.{k} BADEV"]
  go [] 0 events

/-- Suite `behaviorrace`: the schedule store₁, store₂, broadcast₂, broadcast₁ of
    `C12_race_counterexample` executed on the behaviour-subject LTS. -/
def runBehaviorRace (id : String) (events : List (List SExp)) : List String :=
  let r := dexec Behavior.sem (mkState Behavior.progs2) (Behavior.d0 0)
    [0, 0, 0, 1, 1, 1, 1, 1, 1, 0, 0, 0]
  let line := match r with
    | some x => s!"log={String.intercalate ";" (x.2.log.map fun v => s!"N{v}")} peek={x.2.value}"
    | none => "log=? peek=?"
  (List.range events.length).map fun k => s!"{id}.{k} {line}"

end Rx.Driver.LocksS
