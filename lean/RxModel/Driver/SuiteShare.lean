import RxModel.Driver.Proto
import RxModel.Subject.Share
/-
  Runner of suite `share` (C11): same lines as harness/src/suites/share_suite.rs.
  Fields: `kind` share|publish, `src` (hot) | (iter v ...),
  `model` code|fixed (default `code`: the code as it is in /repo).
-/
namespace Rx.Driver.ShareS
open Rx.Driver
open Rx Rx.Share

def parseShareEv (ev : List SExp) : Option Share.Ev :=
  match ev with
  | .atom "sub" :: k :: _ => some (.sub k.nat)
  | .atom "unsub" :: k :: _ => some (.unsub k.nat)
  | .atom "emit" :: _ :: n :: _ => some (.emit (parseNotif n))
  | .atom "connect" :: _ => some .connect
  | .atom "q" :: _ => some .q
  | _ => none

def showDlv (d : Dlv) : String := s!"{d.1}:{showNotif d.2}"

def showShareOut : Share.Out → String
  | .dlv ds s t => s!"d={String.intercalate ";" (ds.map showDlv)} s={s} t={t}"
  | .counters s t none => s!"srcsubs={s} tap={t}"
  | .counters s t (some (c, l)) => s!"srcsubs={s} tap={t} closed={if c then 1 else 0} len={l}"

def runShareCase (id : String) (field : String → List SExp) (events : List (List SExp)) :
    List String :=
  let kind : Share.Kind := match field "kind" with
    | e :: _ => if e.head == "publish" then .publish else .share
    | [] => .share
  let m : Share.Model := match field "model" with
    | e :: _ => if e.head == "fixed" then .fixed else .code
    | [] => .code
  let cold : Option (List Val) := match field "src" with
    | e :: _ => if e.head == "iter" then some (e.args.map parseVal) else none
    | [] => none
  -- `subfin k`: a subscriber whose observer reports `is_finished() = true` from the start and logs nothing (a probe
  -- the harness keeps silent): for the shared observable it is a subscriber like any other; its label is MUTED in the
  -- printed deliveries until the label is subscribed again
  let mute (muted : List Nat) (o : Share.Out) : Share.Out := match o with
    | .dlv ds s t => .dlv (ds.filter (fun d => !muted.contains d.1)) s t
    | o => o
  let rec go (w : Share.W) (muted : List Nat) (k : Nat) : List (List SExp) → List String
    | [] => []
    | ev :: r =>
      let (ev', muted') : List SExp × List Nat := match ev with
        | .atom "subfin" :: lbl :: rest => (SExp.atom "sub" :: lbl :: rest, lbl.nat :: muted)
        | .atom "sub" :: lbl :: _ => (ev, muted.filter (· != lbl.nat))
        | _ => (ev, muted)
      match ev' with
      | .atom "emitj" :: _ :: n :: lk :: lj :: _ =>
        -- `emitj 0 <notif> k j`: the emission, and from INSIDE subscriber k's callback for it subscriber j joins the shared
        -- observable: j misses the item in flight (it waits in the subject's chamber) and is there from the next one on
        let (w1, o1) := w.step (.emit (parseNotif n))
        let got := match o1 with
          | .dlv ds _ _ => ds.any (fun d => d.1 == lk.nat) && !muted'.contains lk.nat
          | _ => false
        if got then
          let (w2, o2) := w1.step (.sub lj.nat)
          let o := match o1, o2 with
            | .dlv ds _ _, .dlv ds2 s t => Share.Out.dlv (ds ++ ds2) s t
            | a, _ => a
          let muted2 := muted'.filter (· != lj.nat)
          s!"{id}.{k} {showShareOut (mute muted2 o)}" :: go w2 muted2 (k + 1) r
        else
          s!"{id}.{k} {showShareOut (mute muted' o1)}" :: go w1 muted' (k + 1) r
      | _ =>
      match parseShareEv ev' with
      | some x =>
        let (w', o) := w.step x
        s!"{id}.{k} {showShareOut (mute muted' o)}" :: go w' muted' (k + 1) r
      | none => [s!"{id}.{k} BADEV"]
  go (Share.init m kind cold) [] 0 events

end Rx.Driver.ShareS
