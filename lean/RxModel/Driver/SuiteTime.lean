import RxModel.Driver.Proto
import RxModel.Sched.Chain
/-
  Suite `time`: linear pipelines with scheduler-using operators on the virtual clock.
-/
namespace Rx.Driver
open Rx Rx.T Rx.Spec

instance : Inhabited TSrc := ⟨.hot 0⟩

def parseEdge : SExp → Edge
  | .atom "l" => .leading
  | .atom "t" => .trailing
  | _ => .all

/-- A scripted future / stream: steps `(ready v) (err e) (pending) (hang)`, a final
    `(again)` makes a stream script cyclic (harness/src/ascript.rs). -/
def parseScript (xs : List SExp) : List AStep × Bool :=
  let step (e : SExp) : Option AStep :=
    match e.head with
    | "ready" => some (.ready (parseVal (e.args.getD 0 (.atom ""))))
    | "err" => some (.err (e.args.getD 0 (.atom "")).int)
    | "pending" => some .pending
    | "hang" => some .hang
    | _ => none
  (xs.filterMap step, match xs.getLast? with | some l => l.head == "again" | none => false)

/-- Flatten the nested description into (source, stages source-side first). -/
partial def parseChain (e : SExp) : TSrc × List Stage :=
  let xs := e.args
  let arg (i : Nat) : SExp := xs.getD i (.atom "")
  let inner : TSrc × List Stage :=
    match xs.getLast? with | some l => parseChain l | none => (.cold .empty, [])
  let add (st : Stage) : TSrc × List Stage := (inner.1, inner.2 ++ [st])
  match e.head with
  | "hot" => (.hot (arg 0).nat, [])
  | "interval" => (.interval none (arg 0).nat, [])
  | "intervalat" => (.interval (some (arg 0).nat) (arg 1).nat, [])
  | "timer" => (.timer (parseVal (arg 0)) (arg 1).nat, [])
  | "timerat" => (.timer (parseVal (arg 0)) (arg 1).nat, [])
  | "iterc" => (.iterc (arg 0).nat, [])
  | "future" => (.future false (parseScript xs).1, [])
  | "futureres" => (.future true (parseScript xs).1, [])
  | "stream" => let (sc, cyc) := parseScript xs; (.stream false sc cyc, [])
  | "streamres" => let (sc, cyc) := parseScript xs; (.stream true sc cyc, [])
  | "merge" | "zip" | "combine" | "withlatest" | "takeuntil" | "skipuntil" | "sample" | "buffer" =>
    -- first input: a chain; second input: a bare source
    let k : Kind2 := match e.head with
      | "merge" => .merge | "zip" => .zip | "combine" => .combine | "withlatest" => .withLatest
      | "takeuntil" => .takeUntil | "skipuntil" => .skipUntil | "sample" => .sample | _ => .buffer
    let main := parseChain (arg 0)
    let nsrc := (parseChain (arg 1)).1
    (main.1, main.2 ++ [.op2n k.init nsrc false none])
  | "delay" => add (.delay (arg 0).nat true (some []))
  | "delayat" => add (.delay (arg 0).nat true (some []))
  | "observeon" => add (.observeOn true (some []))
  | "subscribeon" => add (.subscribeOn none none)
  | "delaysub" => add (.subscribeOn (some (arg 0).nat) none)
  | "delaysubat" => add (.subscribeOn (some (arg 0).nat) none)
  | "debounce" => add (.debounce (arg 0).nat true none none)
  | "throttle" => add (.throttle (arg 0).nat (parseEdge (arg 1)) true none none)
  | "buftime" => add (.bufTime (arg 0).nat none true [] none)
  | "bufcounttime" => add (.bufTime (arg 1).nat (some (arg 0).nat) true [] none)
  | _ =>
    -- a cold source or a single-input operator (possibly a derived chain) of the sync catalogue
    match parsePipe e with
    | .src s => (.cold s, [])
    | p =>
      -- peel the op1 layers that `parsePipe` produced for this head
      let rec peel (p : Pipe) (acc : List Stage) (fuel : Nat) : List Stage :=
        match fuel, p with
        | 0, _ => acc
        | fuel + 1, .op1 o q =>
            -- stop when we reach the sub-pipeline that `inner` already describes
            if fuel + 1 ≤ 0 then acc else peel q (.op1 o.init :: acc) fuel
        | _, _ => acc
      -- number of op1 layers contributed by this head = layers(p) - layers(inner part)
      let rec depth (p : Pipe) : Nat := match p with | .op1 _ q => depth q + 1 | _ => 0
      let innerPipe : Pipe := match xs.getLast? with | some l => parsePipe l | none => .src .empty
      let k := depth p - depth innerPipe
      (inner.1, inner.2 ++ (peel p [] k))

def parseEv (ev : List SExp) : Option TW.Ev :=
  match ev with
  | .atom "sub" :: _ => some .sub
  | .atom "emit" :: i :: n :: _ => some (.emit i.nat (parseNotif n))
  | .atom "temit" :: i :: n :: _ => some (.emit i.nat (parseNotif n))
  | .atom "unsub" :: _ => some .unsub
  | .atom "adv" :: d :: _ => some (.adv d.nat)
  | .atom "fire" :: i :: _ => some (.fire i.nat)
  | .atom "poll" :: i :: _ => some (.poll i.nat)
  | .atom "run" :: _ => some .run
  | _ => none

/-- Field `fb` (feedback): the subscriber, on receiving the item `v > 0`, pushes `v - 1` into hot subject 0 from
    inside its callback.  The generators use it only for chains in which every item passes through a scheduler
    task (`delay` / `observe_on`) and only with `poll` / `fire` / `adv` events (no `run`): a poll delivers at most
    one item and the task ends with that delivery, so doing the emission right AFTER the polling event is the same
    history as doing it INSIDE the callback. -/
def feedBack : Nat → TW → List Notif → TW
  | 0, w, _ => w
  | _, w, [] => w
  | f + 1, w, n :: ns =>
    match n with
    | .next (.int (.ofNat (v + 1))) =>
      let w1 := w.step (.emit 0 (.next (.int (.ofNat v))))
      feedBack f w1 (ns ++ w1.log.drop w.log.length)
    | _ => feedBack f w ns

def runTimeCase (id : String) (pipe : SExp) (events : List (List SExp)) (fb : Bool := false) :
    List String :=
  let (src, stages) := parseChain pipe
  let rec go (w : TW) (k : Nat) : List (List SExp) → List String
    | [] => []
    | ev :: r =>
      match ev with
      | .atom "q" :: .atom "timers" :: _ =>
        s!"{id}.{k} timers=[{String.intercalate "," (w.sched.timers.map fun t => toString t.dur)}]"
          :: go w (k + 1) r
      | .atom "q" :: .atom "pulls" :: _ =>
        s!"{id}.{k} pulls={w.pulls}" :: go w (k + 1) r
      | .atom "q" :: .atom "tap" :: _ =>
        -- the call counters of the `tap` stages, source side first (the order in which the harness builds them)
        let cs := w.stages.filterMap fun st => match st with | .op1 (.tap c) => some c | _ => none
        s!"{id}.{k} tap=[{String.intercalate "," (cs.map toString)}]" :: go w (k + 1) r
      | .atom "q" :: .atom "closed" :: _ =>
        s!"{id}.{k} closed={if w.isClosed then "1" else "0"}" :: go w (k + 1) r
      | _ =>
        -- `rq <event>`: the event, while ANOTHER thread asks the subscription is_closed() during the first delivery (the
        -- answer is outside the sequential model: the projection of the check blanks it, the oracle reads it)
        let (ev, sfx) := match ev with
          | .atom "rq" :: e => (e, " rclosed=?")
          | _ => (ev, "")
        -- `ru <event>`: the event, and unsubscribe() from another thread while the probe is called during it: the
        -- unsubscription takes effect after the event (it waits for the delivery)
        match ev with
        | .atom "ru" :: e =>
          match parseEv e with
          | some x =>
            let w1 := (w.step x).step .unsub
            let delta := w1.log.drop w.log.length
            s!"{id}.{k} {showOut delta} live={w1.sched.liveTasks.length} tm={w1.sched.timers.length} t={w1.sched.now}"
              :: go w1 (k + 1) r
          | none => [s!"{id}.{k} BADEV"]
        | _ =>
        match parseEv ev with
        | some x =>
          let w0 := w.step x
          let w' := if fb then feedBack 64 w0 (w0.log.drop w.log.length) else w0
          let delta := w'.log.drop w.log.length
          s!"{id}.{k} {showOut delta} live={w'.sched.liveTasks.length} tm={w'.sched.timers.length} t={w'.sched.now}{sfx}"
            :: go w' (k + 1) r
        | none => [s!"{id}.{k} BADEV"]
  go { src := src, stages := stages } 0 events

end Rx.Driver
