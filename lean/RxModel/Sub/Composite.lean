/-
  Composite subscriptions (src/subscription.rs, src/subscriber.rs, TaskHandle in
  src/scheduler.rs), transcribed operation by operation.

  Rust                                   model
  ----                                   -----
  Subscriber<O>(MutRc<Option<O>>)        leaf i: one flag `alive i`, shared by every clone;
                                         unsubscribe = take the slot, is_closed = slot is None,
                                         next = deliver iff Some
  ()                                     unit: unsubscribe no-op, is_closed = true
  ZipSubscription{a,b}                   zip a b: unsubscribe a then b; is_closed = a && b
                                         (after `fix: ZipSubscription::is_closed must consider both halves`)
  BoxSubscription(Box<dyn ..>)           transparent (boxed_unsubscribe / boxed_is_closed forward)
  MultiSubscription(MutRc<Option<Vec>>)  multi j: cell j : Option (List Child); clones share the cell
     unsubscribe                         take the vec (cell := None), RELEASE the borrow, unsubscribe each entry in order
     is_closed                           None => true; Some v => all entries closed (true when empty)
     append                              Some v => push; None => the box is DROPPED, not unsubscribed   (Model.code)
                                         Model.fixed: None => unsubscribe the box at once
     retain                              keeps the `Some(_)` entries: every entry is `Some`, so nothing changes
     teardown_size                       None => 0, Some v => v.len()
  TaskHandle<NormalReturn<()>>           a task: `ran` (HandleInfo.value.is_some()); handles are not Clone and are
                                         created only by `schedule`, so a task lives inside the vec it was appended to
                                         (or nowhere, if the append dropped it): unsubscribe = cancel (keep_running := false),
                                         is_closed = the task has produced its value
  SubscriptionGuard(Option<T>)           guard slot: drop = take and unsubscribe

  Two composite cells (j = 0, 1).  A cell is taken at most once and never refilled,
  so an unsubscription nests at most two cells deep: the three levels below are
  exact for every history (also cyclic ones).  `is_closed` on a cyclic structure
  does not terminate in Rust (stack overflow / relocked mutex); the third level of
  `isClosed` cuts there, generators never build a cycle.
-/
namespace Rx.Comp

inductive Model where
  | code | fixed
  deriving DecidableEq, Repr

/-- A subscription value as user code can build it (clones of shared handles). -/
inductive Sub where
  | unit
  | leaf (i : Nat)
  | multi (j : Nat)
  | zip (a b : Sub)
  deriving DecidableEq, Repr, Inhabited

/-- A task spawned on the executor: `id` = spawn order, `tag` = what its body logs. -/
structure Task where
  id : Nat
  tag : Nat
  ran : Bool := false
  deriving DecidableEq, Repr

/-- An entry of a composite's vector. -/
inductive Child where
  | sub (s : Sub)
  | task (t : Task)
  deriving DecidableEq, Repr

structure W where
  n : Nat := 3                              -- number of leaf subscribers
  alive : Nat → Bool := fun _ => true       -- Subscriber slot i is Some
  c0 : Option (List Child) := some []       -- MultiSubscription::default()
  c1 : Option (List Child) := some []
  orphans : List Task := []                 -- tasks whose handle was dropped (still in the executor)
  nextId : Nat := 0
  guards : List (Option Sub) := []
  h0 : Nat := 1                             -- number of handles (clones) of cell 0 / 1
  h1 : Nat := 1

namespace W

def cell (w : W) (j : Nat) : Option (List Child) :=
  match j with
  | 0 => w.c0
  | 1 => w.c1
  | _ => none

def setCell (w : W) (j : Nat) (v : Option (List Child)) : W :=
  match j with
  | 0 => { w with c0 := v }
  | 1 => { w with c1 := v }
  | _ => w

/-- `Subscriber::unsubscribe`: take the slot. -/
def kill (w : W) (i : Nat) : W := { w with alive := fun k => if k = i then false else w.alive k }

end W

/-! ### unsubscribe -/

/-- Unsubscribe a value; `k j` is what unsubscribing (a clone of) composite `j` does. -/
def unsubAt (k : Nat → W → W) : Sub → W → W
  | .unit, w => w
  | .leaf i, w => w.kill i
  | .multi j, w => k j w
  | .zip a b, w => unsubAt k b (unsubAt k a w)

/-- One entry of a taken vector: a task handle is cancelled (it vanishes from the model:
    `Remote::poll` finds `keep_running = false` and logs nothing). -/
def unsubChild (u : Sub → W → W) : Child → W → W
  | .sub s, w => u s w
  | .task _, w => w

/-- `MultiSubscription::unsubscribe`: take the vector, then unsubscribe its entries in order. -/
def takeCell (u : Sub → W → W) (j : Nat) (w : W) : W :=
  match w.cell j with
  | none => w
  | some cs => cs.foldl (fun w c => unsubChild u c w) (w.setCell j none)

/-- both cells already taken: a composite handle does nothing -/
def unsub2 : Sub → W → W := unsubAt (fun _ w => w)
/-- one cell already taken -/
def unsub1 : Sub → W → W := unsubAt (takeCell unsub2)
/-- `Subscription::unsubscribe` of a value -/
def unsub : Sub → W → W := unsubAt (takeCell unsub1)

/-! ### is_closed -/

def isClosedAt (look : Nat → Bool) (w : W) : Sub → Bool
  | .unit => true
  | .leaf i => !w.alive i
  | .multi j => look j
  | .zip a b => isClosedAt look w a && isClosedAt look w b

def childClosed (f : Sub → Bool) : Child → Bool
  | .sub s => f s
  | .task t => t.ran

def cellClosed (f : Sub → Bool) (w : W) (j : Nat) : Bool :=
  match w.cell j with
  | none => true
  | some cs => cs.all (childClosed f)

def isClosed2 (w : W) : Sub → Bool := isClosedAt (fun _ => true) w
def isClosed1 (w : W) : Sub → Bool := isClosedAt (cellClosed (isClosed2 w) w) w
/-- `Subscription::is_closed` -/
def isClosed (w : W) : Sub → Bool := isClosedAt (cellClosed (isClosed1 w) w) w

/-! ### the leaves a value can still silence (what "through that subscription" means) -/

def reachAt (r : Nat → List Nat) : Sub → List Nat
  | .unit => []
  | .leaf i => [i]
  | .multi j => r j
  | .zip a b => reachAt r a ++ reachAt r b

def childReach (f : Sub → List Nat) : Child → List Nat
  | .sub s => f s
  | .task _ => []

def cellReach (f : Sub → List Nat) (w : W) (j : Nat) : List Nat :=
  match w.cell j with
  | none => []
  | some cs => cs.flatMap (childReach f)

def reach2 : Sub → List Nat := reachAt (fun _ => [])
def reach1 (w : W) : Sub → List Nat := reachAt (cellReach reach2 w)
def reach (w : W) : Sub → List Nat := reachAt (cellReach (reach1 w) w)

/-! ### operations -/

inductive Op where
  | append (j : Nat) (s : Sub)        -- m_j.append(BoxSubscription::new(s))
  | appendTask (j : Nat) (tag : Nat)  -- m_j.append(BoxSubscription::new(scheduler.schedule(task, None)))
  | unsub (s : Sub)
  | closed (s : Sub)
  | retain (j : Nat)
  | size (j : Nat)
  | clone (j : Nat)
  | guard (s : Sub)                   -- s.unsubscribe_when_dropped(), kept in a slot
  | dropGuard (k : Nat)
  | emit (v : Int)                    -- subject.next(v)
  | run                               -- run the executor until idle
  /-- append to m_j a child whose own `unsubscribe()` appends `s` to m_j, then `m_j.unsubscribe()`:
      a late addition made WHILE the composite is being torn down. -/
  | unsubReapp (j : Nat) (s : Sub)
  deriving DecidableEq, Repr

inductive Obs where
  | ok
  | closed (b : Bool)
  | size (n : Nat)
  | handles (n : Nat)
  | out (ds : List (Nat × Int))       -- (leaf, value) for every leaf whose probe logged
  | ran (tags : List Nat)             -- bodies of the tasks that ran, in spawn order
  deriving DecidableEq, Repr

/-- `append` of an entry. -/
def appendChild (m : Model) (j : Nat) (c : Child) (w : W) : W :=
  match w.cell j with
  | some cs => w.setCell j (some (cs ++ [c]))
  | none =>
    match m, c with
    | .fixed, .sub s => unsub s w          -- repaired: unsubscribe at once
    | .fixed, .task _ => w                 -- repaired: the task is cancelled
    | .code, .sub _ => w                   -- the box is dropped: nothing is unsubscribed
    | .code, .task t => { w with orphans := w.orphans ++ [t] }   -- the task stays in the executor

def pendingOf : List Child → List Task
  | [] => []
  | .task t :: r => if t.ran then pendingOf r else t :: pendingOf r
  | .sub _ :: r => pendingOf r

def markRan : List Child → List Child
  | [] => []
  | .task t :: r => .task { t with ran := true } :: markRan r
  | .sub s :: r => .sub s :: markRan r

def insertById (t : Task) : List Task → List Task
  | [] => [t]
  | u :: r => if t.id ≤ u.id then t :: u :: r else u :: insertById t r

def sortById (ts : List Task) : List Task := ts.foldr insertById []

def pending (w : W) : List Task :=
  ((w.c0.map pendingOf).getD []) ++ ((w.c1.map pendingOf).getD []) ++ w.orphans.filter (fun t => !t.ran)

def step (m : Model) (w : W) : Op → W × Obs
  | .append j s => (appendChild m j (.sub s) w, .ok)
  | .appendTask j tag =>
      (appendChild m j (.task { id := w.nextId, tag := tag }) { w with nextId := w.nextId + 1 }, .ok)
  | .unsub s => (unsub s w, .ok)
  | .closed s => (w, .closed (isClosed w s))
  | .retain _ => (w, .ok)
  | .size j => (w, .size ((w.cell j).map List.length |>.getD 0))
  | .clone j =>
      match j with
      | 0 => ({ w with h0 := w.h0 + 1 }, .handles (w.h0 + 1))
      | 1 => ({ w with h1 := w.h1 + 1 }, .handles (w.h1 + 1))
      | _ => (w, .handles 0)
  | .guard s => ({ w with guards := w.guards ++ [some s] }, .ok)
  | .dropGuard k =>
      match w.guards[k]? with
      | some (some s) => (unsub s { w with guards := w.guards.set k none }, .ok)
      | _ => (w, .ok)
  | .emit v => (w, .out (((List.range w.n).filter w.alive).map fun i => (i, v)))
  | .unsubReapp j s =>
      -- `unsubscribe` takes the vector FIRST (the cell is `None` while the entries are torn down), so the
      -- re-entrant `append` finds the composite unsubscribed: repaired code unsubscribes `s` at once, the
      -- code before `fix: … late append` dropped it alive.  (Cell already `None`: the child itself is a late
      -- addition — repaired: torn down at once, which appends `s`, again late; before: dropped, `s` never appended.)
      let w1 := unsub (.multi j) w
      (match m with
       | .fixed => unsub s w1
       | .code => w1, .ok)
  | .run =>
      ({ w with c0 := w.c0.map markRan, c1 := w.c1.map markRan,
                orphans := w.orphans.map fun t => { t with ran := true } },
       .ran ((sortById (pending w)).map (·.tag)))

def run (m : Model) : W → List Op → W × List Obs
  | w, [] => (w, [])
  | w, e :: es =>
    let (w', o) := step m w e
    let (w'', os) := run m w' es
    (w'', o :: os)

def init (n : Nat := 3) : W := { n := n }

end Rx.Comp
