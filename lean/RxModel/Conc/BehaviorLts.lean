import RxModel.Conc.DLts
/-
  Conc/BehaviorLts.lean — `BehaviorSubject<_, SubjectThreads>` with concurrent
  producers (C12, threads clause).

  src/subject/behavior_subject.rs:26-29
      fn next(&mut self, value: Item) {
        *self.value.rc_deref_mut() = value.clone();     // section of the value cell, released at `;`
        Observer::next(&mut self.subject, value);       // section of the observers cell
      }
  Two separate critical sections.  Cell 0 = value cell, cell 1 = observers cell
  (the chamber/slot cells inside the broadcast section do not matter here).
  `atom x` = the store of `x`; `cb 0 x` = the delivery of `x` to the subscriber(s)
  inside the broadcast section — `log` is the common order all subscribers
  observe (C10_common_order / C06_threads).
-/
namespace Rx.Conc.Behavior

structure D where
  value : Nat
  log : List Nat
  deriving DecidableEq, Repr

def sem (_ : Tid) (a : Act) (d : D) : D :=
  match a with
  | .atom x => { d with value := x }
  | .cb _ x => { d with log := d.log ++ [x] }
  | _ => d

/-- `next(x)` on the behaviour subject. -/
def next (x : Nat) : List Act := sect 0 [.atom x] ++ sect 1 [.cb 0 x]

/-- Two producers: thread 0 emits 1, thread 1 emits 2. -/
def progs2 : List (List Act) := [next 1, next 2]

def d0 (init : Nat) : D := ⟨init, []⟩

/-- The effect of a script of `next`s executed by one thread. -/
theorem fold_script (xs : List Nat) : ∀ (d : D),
    (xs.flatMap next).foldl (fun d a => sem 0 a d) d =
      ⟨(xs.getLast?).getD d.value, d.log ++ xs⟩ := by
  induction xs with
  | nil => intro d; simp
  | cons x xs ih =>
    intro d
    rw [List.flatMap_cons, List.foldl_append, ih]
    cases xs with
    | nil => simp [next, sect, sem]
    | cons y ys =>
      simp [next, sect, sem, List.getLast?_cons_cons]
      cases h : (y :: ys).getLast? with
      | none => simp at h
      | some v => rfl

end Rx.Conc.Behavior
