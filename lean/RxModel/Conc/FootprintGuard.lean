import RxModel.Conc.Footprint
/-
  Conc/FootprintGuard.lean — in the delivery footprints every subscriber callback
  is issued inside a section of the cell that guards that subscriber, so
  `callbacks_serialised` applies to pipelines of the `_threads` building blocks.

  `WL sl g k d`: the shape `d` (first cell `k`, innermost enclosing guard `g`) is
  *well labelled* by `sl : subscriber → cell`: every leaf `u` sits behind at
  least one `MutArc` gate and `sl u` is the innermost one (its
  `SubscriberThreads` slot, the merge/zip/combine_latest cell, the take_until /
  observe_on slot).  A leaf with no gate at all in front of it is excluded: such
  an observer is reached through `&mut self` only and Rust's borrow checker, not
  a lock, makes its caller unique.
-/
namespace Rx.Conc

/-- `Guarded` with an explicit final stack (so that it composes). -/
def GuardedK (slot : Nat → Cell) : List Cell → List Act → List Cell → Prop
  | hs, [], k => hs = k
  | hs, .acq c :: p, k => GuardedK slot (c :: hs) p k
  | hs, .rel c :: p, k => hs.head? = some c ∧ GuardedK slot hs.tail p k
  | hs, .cb u _ :: p, k => slot u ∈ hs ∧ GuardedK slot hs p k
  | hs, .atom _ :: p, k => GuardedK slot hs p k

theorem GuardedK.guarded {slot : Nat → Cell} {p : List Act} {hs k : List Cell} :
    GuardedK slot hs p k → Guarded slot hs p := by
  induction p generalizing hs with
  | nil => intro _; trivial
  | cons a p ih =>
    intro h
    cases a with
    | acq c => exact ih h
    | rel c => exact ⟨h.1, ih h.2⟩
    | cb u n => exact ⟨h.1, ih h.2⟩
    | atom a => exact ih h

theorem GuardedK.append {slot : Nat → Cell} {p q : List Act} {hs k k' : List Cell} :
    GuardedK slot hs p k → GuardedK slot k q k' → GuardedK slot hs (p ++ q) k' := by
  induction p generalizing hs with
  | nil => intro h1 h2; cases h1; exact h2
  | cons a p ih =>
    intro h1 h2
    cases a with
    | acq c => exact ih h1 h2
    | rel c => exact ⟨h1.1, ih h1.2 h2⟩
    | cb u n => exact ⟨h1.1, ih h1.2 h2⟩
    | atom a => exact ih h1 h2

theorem GuardedK.sect {slot : Nat → Cell} {c : Cell} {body : List Act} {hs : List Cell}
    (hb : GuardedK slot (c :: hs) body (c :: hs)) : GuardedK slot hs (sect c body) hs :=
  GuardedK.append (p := .acq c :: body) hb ⟨rfl, rfl⟩

theorem gk_nil (slot : Nat → Cell) (hs : List Cell) : GuardedK slot hs [] hs := rfl
theorem gk_atom (slot : Nat → Cell) (hs : List Cell) (a : Nat) :
    GuardedK slot hs [.atom a] hs := rfl
theorem gk_sect_nil (slot : Nat → Cell) (c : Cell) (hs : List Cell) :
    GuardedK slot hs (sect c []) hs := GuardedK.sect (gk_nil _ _)

mutual
def WL (sl : Nat → Cell) : Option Cell → Nat → Shape → Prop
  | g, _, .leaf u => g = some (sl u)
  | g, k, .plain d => WL sl g k d
  | _, k, .slot d => WL sl (some k) (k + 1) d
  | _, k, .cell d => WL sl (some k) (k + 1) d
  | g, k, .fin d => WL sl g (k + 1) d
  | _, k, .subject ds => WLs sl (k + 2) ds
  | g, k, .behavior d => WL sl g (k + 1) d
  | g, k, .share d => WL sl g (k + 1) d
  | _, k, .task _ h d => WL sl (some (k + 1 + h)) (k + 2 + h) d
def WLs (sl : Nat → Cell) : Nat → Shapes → Prop
  | _, .nil => True
  | k, .cons d ds => WL sl (some k) (k + 1) d ∧ WLs sl (k + 1 + cells d) ds
end

mutual
theorem deliver_guarded (sl : Nat → Cell) : ∀ (d : Shape) (kd : Kind) (n k : Nat)
    (g : Option Cell) (hs : List Cell), WL sl g k d → (∀ c, g = some c → c ∈ hs) →
    GuardedK sl hs (deliver kd n k d) hs
  | .leaf u, kd, n, k, g, hs, hw, hg => by
    have hm : sl u ∈ hs := hg _ hw
    cases kd <;> simp only [deliver]
    · exact ⟨hm, rfl⟩
    · exact ⟨hm, rfl⟩
    · exact gk_nil _ _
  | .plain d, kd, n, k, g, hs, hw, hg => by
    simp only [deliver]; exact deliver_guarded sl d kd n k g hs hw hg
  | .slot d, kd, n, k, g, hs, hw, _ => by
    simp only [deliver]
    exact GuardedK.sect (deliver_guarded sl d kd n (k + 1) (some k) _ hw
      (fun c hc => by cases hc; exact List.mem_cons_self))
  | .cell d, kd, n, k, g, hs, hw, _ => by
    simp only [deliver]
    exact GuardedK.sect (deliver_guarded sl d kd n (k + 1) (some k) _ hw
      (fun c hc => by cases hc; exact List.mem_cons_self))
  | .fin d, kd, n, k, g, hs, hw, hg => by
    cases kd <;> simp only [deliver]
    · exact deliver_guarded sl d .next n (k + 1) g hs hw hg
    · exact GuardedK.append (deliver_guarded sl d (.term _) n (k + 1) g hs hw hg)
        (GuardedK.sect (gk_atom _ _ _))
    · exact deliver_guarded sl d .fin n (k + 1) g hs hw hg
  | .subject ds, kd, n, k, g, hs, hw, _ => by
    cases kd <;> simp only [deliver]
    · exact GuardedK.append (GuardedK.sect (gk_sect_nil _ _ _))
        (GuardedK.sect (bcast_guarded sl ds .next n (k + 2) _ hw))
    · exact GuardedK.append (GuardedK.sect (gk_sect_nil _ _ _))
        (GuardedK.sect (bcast_guarded sl ds (.term _) n (k + 2) _ hw))
    · exact gk_sect_nil _ _ _
  | .behavior d, kd, n, k, g, hs, hw, hg => by
    cases kd <;> simp only [deliver]
    · exact GuardedK.append (GuardedK.sect (gk_atom _ _ _))
        (deliver_guarded sl d .next n (k + 1) g hs hw hg)
    · exact deliver_guarded sl d (.term _) n (k + 1) g hs hw hg
    · exact deliver_guarded sl d .fin n (k + 1) g hs hw hg
  | .share d, kd, n, k, g, hs, hw, hg => by
    simp only [deliver]; exact deliver_guarded sl d kd n (k + 1) g hs hw hg
  | .task dl h d, kd, n, k, g, hs, hw, _ => by
    cases kd <;> simp only [deliver]
    · exact GuardedK.append (gk_sect_nil _ _ _) (gk_sect_nil _ _ _)
    · split
      · exact GuardedK.sect (deliver_guarded sl d (.term _) n (k + 2 + h) (some (k + 1 + h)) _ hw
          (fun c hc => by cases hc; exact List.mem_cons_self))
      · exact GuardedK.append (gk_sect_nil _ _ _) (gk_sect_nil _ _ _)
    · exact GuardedK.sect (deliver_guarded sl d .fin n (k + 2 + h) (some (k + 1 + h)) _ hw
        (fun c hc => by cases hc; exact List.mem_cons_self))
theorem bcast_guarded (sl : Nat → Cell) : ∀ (ds : Shapes) (kd : Kind) (n k : Nat)
    (hs : List Cell), WLs sl k ds → GuardedK sl hs (bcast kd n k ds) hs
  | .nil, kd, n, k, hs, _ => by cases kd <;> exact gk_nil _ _
  | .cons d ds, kd, n, k, hs, hw => by
    have hd := fun kd' => deliver_guarded sl d kd' n (k + 1) (some k) (k :: hs) hw.1
      (fun c hc => by cases hc; exact List.mem_cons_self)
    have hr := fun kd' => bcast_guarded sl ds kd' n (k + 1 + cells d) hs hw.2
    cases kd <;> simp only [bcast]
    · exact GuardedK.append (GuardedK.sect (hd .next)) (hr .next)
    · exact GuardedK.append (GuardedK.sect (hd (.term _))) (hr (.term _))
    · exact GuardedK.append (GuardedK.append (GuardedK.sect (hd .fin)) (gk_sect_nil _ _ _))
        (hr .fin)
end

/-- A script of deliveries at the root of a well-labelled pipeline. -/
def deliveries (p : Shape) (es : List (Kind × Nat)) : List Act :=
  es.flatMap fun e => deliver e.1 e.2 0 p

theorem deliveries_guardedK (sl : Nat → Cell) (p : Shape) (hw : WL sl none 0 p) :
    ∀ es, GuardedK sl [] (deliveries p es) []
  | [] => rfl
  | e :: es => by
    simp only [deliveries, List.flatMap_cons]
    exact GuardedK.append
      (deliver_guarded sl p e.1 e.2 0 none [] hw (fun _ h => by cases h))
      (deliveries_guardedK sl p hw es)

theorem deliveries_guarded (sl : Nat → Cell) (p : Shape) (hw : WL sl none 0 p)
    (es : List (Kind × Nat)) : Guarded sl [] (deliveries p es) :=
  (deliveries_guardedK sl p hw es).guarded

theorem deliveries_ranked (p : Shape) : ∀ es, Ranked [] (deliveries p es)
  | [] => rfl
  | e :: es => by
    have h1 := deliver_ranked p e.1 e.2 0 [] (Below.nil _)
    have h2 := rankedK_nil_iff.2 (deliveries_ranked p es)
    exact Ranked.of_rankedK (by
      simpa [deliveries, List.flatMap_cons] using RankedK.append h1 h2)

end Rx.Conc
