import RxModel.Conc.Exec
/-
  Conc/SubjectLts.lean — `SubjectThreads` under concurrent producers: one common
  order (C10 "common order", C06_threads).

  src/subject.rs:162-169 (`next`), 171-194 (`error`/`complete`): after `load()`,
  the broadcast is ONE critical section of the `observers` cell, inside which the
  live list is iterated in list order and each subscriber is called (through its
  own slot section).  Mutual exclusion of `observers` sections therefore fixes a
  single global order of broadcasts — the order in which the broadcasting
  threads acquire `observers` — and every subscriber sees (a subsequence of)
  exactly that order.

  Model.  Cell `obs` is the observers cell.  A broadcast of emission `n` is a
  section of `obs` that starts with the marker `atom n` (the first thing done
  under the lock: it stands for the acquisition itself) and then contains the
  callbacks `cb u n` of the receivers, each receiver at most once, possibly
  wrapped in sections of other cells (slots).  Sections of `obs` without a marker
  (`load`, `unsubscribe`, `len`, `retain`, …) contain no callbacks.  Outside `obs`
  sections threads may lock other cells (`subscribe` = chamber, `unsubscribe` of
  a subscriber = its slot) but issue no callbacks of this subject.  This
  discipline is the per-thread typestate `Bc`; `next`/`error`/`complete`
  footprints satisfy it (`bc_next`).

  Result (`common_order`): under every schedule, for every subscriber `u`, the
  sequence of emissions delivered to `u` is a subsequence of the global marker
  order.  Any number of threads, any number of emissions.
-/
namespace Rx.Conc

/-- Run with the trace of executed actions (`(thread, action)` in execution order). -/
inductive TRun : State → List (Tid × Act) → State → Prop where
  | nil {s : State} : TRun s [] s
  | snoc {s s1 s2 : State} {tr : List (Tid × Act)} {t : Tid} {a : Act} {p : List Act} :
      TRun s tr s1 → s1.prog t = a :: p → Step s1 t s2 → TRun s (tr ++ [(t, a)]) s2

theorem TRun.reach {s s' : State} {tr : List (Tid × Act)} (r : TRun s tr s') : Reach s s' := by
  induction r with
  | nil => exact Reach.refl
  | snoc _ _ st ih => exact Reach.step ih st

/-- What subscriber `u` has received: the emission numbers of its callbacks, in order. -/
def logOf (u : Nat) (tr : List (Tid × Act)) : List Nat :=
  tr.filterMap fun x => match x.2 with
    | .cb u' n => if u' = u then some n else none
    | _ => none

/-- The global broadcast order: the markers, i.e. the order in which broadcasting
    threads entered their `observers` section. -/
def gorder (tr : List (Tid × Act)) : List Nat :=
  tr.filterMap fun x => match x.2 with
    | .atom n => some n
    | _ => none

def logD (u : Nat) : Act → List Nat
  | .cb u' n => if u' = u then [n] else []
  | _ => []

def gD : Act → List Nat
  | .atom n => [n]
  | _ => []

theorem logOf_snoc (u : Nat) (tr : List (Tid × Act)) (t : Tid) (a : Act) :
    logOf u (tr ++ [(t, a)]) = logOf u tr ++ logD u a := by
  simp only [logOf, List.filterMap_append]
  cases a with
  | cb u' n => by_cases h : u' = u <;> simp [logD, h]
  | acq _ => simp [logD]
  | rel _ => simp [logD]
  | atom _ => simp [logD]

theorem gorder_snoc (tr : List (Tid × Act)) (t : Tid) (a : Act) :
    gorder (tr ++ [(t, a)]) = gorder tr ++ gD a := by
  simp only [gorder, List.filterMap_append]
  cases a <;> simp [gD]

/-- Typestate of a thread w.r.t. the observers cell. -/
inductive BcSt where
  | out
  | fresh
  | marked (n : Nat) (seen : List Nat)

def nextSt (obs : Cell) : BcSt → Act → BcSt
  | .out, .acq c => if c = obs then .fresh else .out
  | .fresh, .rel c => if c = obs then .out else .fresh
  | .fresh, .atom n => .marked n []
  | .marked n seen, .rel c => if c = obs then .out else .marked n seen
  | .marked n seen, .cb u _ => .marked n (u :: seen)
  | st, _ => st

/-- Is action `a` admissible in typestate `st`? -/
def Ok (obs : Cell) : BcSt → Act → Prop
  | .out, .acq _ => True
  | .out, .rel c => c ≠ obs
  | .out, .cb _ _ => False
  | .out, .atom _ => False
  | .fresh, .acq c => c ≠ obs
  | .fresh, .rel _ => True
  | .fresh, .atom _ => True
  | .fresh, .cb _ _ => False
  | .marked _ _, .acq c => c ≠ obs
  | .marked _ _, .rel _ => True
  | .marked n seen, .cb u m => m = n ∧ u ∉ seen
  | .marked _ _, .atom _ => False

/-- The broadcast discipline of a remaining program. -/
def Bc (obs : Cell) : BcSt → List Act → Prop
  | st, [] => st = .out
  | st, a :: p => Ok obs st a ∧ Bc obs (nextSt obs st a) p

/-- Callbacks of `u` still to come before the end of the current `obs` section. -/
def pend (obs : Cell) (u : Nat) : List Act → List Nat
  | [] => []
  | .rel c :: p => if c = obs then [] else pend obs u p
  | .cb u' m :: p => if u' = u then m :: pend obs u p else pend obs u p
  | .acq _ :: p => pend obs u p
  | .atom _ :: p => pend obs u p

def pendSt (obs : Cell) (u : Nat) : BcSt → List Act → List Nat
  | .marked _ _, p => pend obs u p
  | _, _ => []

theorem pend_seen {obs : Cell} {u n : Nat} :
    ∀ {p : List Act} {seen : List Nat}, u ∈ seen → Bc obs (.marked n seen) p → pend obs u p = []
  | [], _, _, _ => rfl
  | .acq c :: p, seen, hu, h => by
    simp only [pend]; exact pend_seen hu h.2
  | .rel c :: p, seen, hu, h => by
    simp only [pend]
    by_cases hc : c = obs
    · simp [hc]
    · have h2 := h.2
      simp only [nextSt, if_neg hc] at h2
      simp only [if_neg hc]; exact pend_seen hu h2
  | .cb u' m :: p, seen, hu, h => by
    simp only [pend]
    have hok : m = n ∧ u' ∉ seen := h.1
    have hne : u' ≠ u := by intro e; subst e; exact hok.2 hu
    simp only [if_neg hne]
    exact pend_seen (List.mem_cons_of_mem _ hu) h.2
  | .atom _ :: p, seen, _, h => h.1.elim

theorem pend_sub {obs : Cell} {u n : Nat} :
    ∀ {p : List Act} {seen : List Nat}, Bc obs (.marked n seen) p →
      List.Sublist (pend obs u p) [n]
  | [], _, _ => List.nil_sublist _
  | .acq c :: p, seen, h => by
    simp only [pend]; exact pend_sub h.2
  | .rel c :: p, seen, h => by
    simp only [pend]
    by_cases hc : c = obs
    · simp [hc]
    · have h2 := h.2
      simp only [nextSt, if_neg hc] at h2
      simp only [if_neg hc]; exact pend_sub h2
  | .cb u' m :: p, seen, h => by
    simp only [pend]
    have hok : m = n ∧ u' ∉ seen := h.1
    by_cases he : u' = u
    · subst he
      have : pend obs u' p = [] := pend_seen List.mem_cons_self h.2
      simp [this, hok.1]
    · simp only [if_neg he]; exact pend_sub h.2
  | .atom _ :: p, seen, h => h.1.elim

/-- Effect of one admissible action of a thread on (its view of) the invariant. -/
theorem step_local {obs : Cell} {u : Nat} {st : BcSt} {a : Act} {p : List Act}
    (hok : Ok obs st a) (hbc : Bc obs (nextSt obs st a) p) {L g : List Nat}
    (h : List.Sublist (L ++ pendSt obs u st (a :: p)) g) :
    List.Sublist ((L ++ logD u a) ++ pendSt obs u (nextSt obs st a) p) (g ++ gD a) := by
  cases st with
  | out =>
    cases a with
    | acq c =>
      by_cases hc : c = obs <;> simpa [nextSt, hc, logD, gD, pendSt] using h
    | rel c => simpa [nextSt, logD, gD, pendSt] using h
    | cb _ _ => exact hok.elim
    | atom _ => exact hok.elim
  | fresh =>
    cases a with
    | acq c => simpa [nextSt, logD, gD, pendSt] using h
    | rel c => by_cases hc : c = obs <;> simpa [nextSt, hc, logD, gD, pendSt] using h
    | cb _ _ => exact hok.elim
    | atom n =>
      have h1 : List.Sublist L g := by simpa [pendSt] using h
      have h2 : List.Sublist (pend obs u p) [n] := pend_sub (by simpa [nextSt] using hbc)
      simpa [nextSt, logD, gD, pendSt] using List.Sublist.append h1 h2
  | marked n seen =>
    cases a with
    | acq c => simpa [nextSt, logD, gD, pendSt, pend] using h
    | rel c =>
      by_cases hc : c = obs
      · have : List.Sublist L g := by simpa [pendSt, pend, hc] using h
        simpa [nextSt, hc, logD, gD, pendSt] using this
      · simpa [nextSt, hc, logD, gD, pendSt, pend] using h
    | cb u' m =>
      by_cases he : u' = u
      · simpa [nextSt, logD, gD, pendSt, pend, he] using h
      · simpa [nextSt, logD, gD, pendSt, pend, he] using h
    | atom _ => exact hok.elim

/-- An action that is not a lock action on `obs` does not change "outside". -/
theorem nextSt_out_iff {obs : Cell} {st : BcSt} {a : Act} (hok : Ok obs st a)
    (h1 : a ≠ .acq obs) (h2 : a ≠ .rel obs) : nextSt obs st a = .out ↔ st = .out := by
  cases st with
  | out =>
    cases a with
    | acq c =>
      have : c ≠ obs := fun e => h1 (by rw [e])
      simp [nextSt, this]
    | rel c => simp [nextSt]
    | cb _ _ => exact hok.elim
    | atom _ => exact hok.elim
  | fresh =>
    cases a with
    | acq c => simp [nextSt]
    | rel c =>
      have : c ≠ obs := fun e => h2 (by rw [e])
      simp [nextSt, this]
    | cb _ _ => exact hok.elim
    | atom _ => simp [nextSt]
  | marked n seen =>
    cases a with
    | acq c => simp [nextSt]
    | rel c =>
      have : c ≠ obs := fun e => h2 (by rw [e])
      simp [nextSt, this]
    | cb _ _ => simp [nextSt]
    | atom _ => exact hok.elim

/-- Outside an `obs` section a thread's actions leave both logs untouched. -/
theorem out_silent {obs : Cell} {a : Act} (hok : Ok obs .out a) (u : Nat) :
    logD u a = [] ∧ gD a = [] := by
  cases a with
  | acq _ => exact ⟨rfl, rfl⟩
  | rel _ => exact ⟨rfl, rfl⟩
  | cb _ _ => exact hok.elim
  | atom _ => exact hok.elim

/-- The global invariant. -/
structure GInv (obs : Cell) (tr : List (Tid × Act)) (s : State) (st : Tid → BcSt) : Prop where
  bc : ∀ t, Bc obs (st t) (s.prog t)
  hold : ∀ t, st t ≠ .out ↔ s.holder obs = some t
  sub : ∀ t u, List.Sublist (logOf u tr ++ pendSt obs u (st t) (s.prog t)) (gorder tr)

theorem GInv.init {obs : Cell} {s : State} (h0 : Init s) (hp : ∀ t, Bc obs .out (s.prog t)) :
    GInv obs [] s (fun _ => .out) where
  bc := hp
  hold t := by simp [h0 obs]
  sub t u := by simp [logOf, gorder, pendSt]

theorem GInv.step {obs : Cell} {tr : List (Tid × Act)} {s s' : State} {st : Tid → BcSt}
    (h : GInv obs tr s st) {t : Tid} {a : Act} {p : List Act} (hp : s.prog t = a :: p)
    (stp : Step s t s') :
    GInv obs (tr ++ [(t, a)]) s' (upd st t (nextSt obs (st t) a)) := by
  have hbt := h.bc t
  rw [hp] at hbt
  obtain ⟨hok, hbn⟩ := hbt
  obtain ⟨a', p', hp', hprog⟩ := stp.prog_eq
  rw [hp] at hp'
  cases hp'
  -- the new view of thread t
  have hsub_t : ∀ u, List.Sublist ((logOf u tr ++ logD u a) ++
      pendSt obs u (nextSt obs (st t) a) p) (gorder tr ++ gD a) := by
    intro u
    have := h.sub t u
    rw [hp] at this
    exact step_local hok hbn this
  refine ⟨?_, ?_, ?_⟩
  · intro t'
    by_cases ht : t' = t
    · subst ht; simpa [hprog] using hbn
    · simpa [hprog, ht] using h.bc t'
  · -- holder of obs
    intro t'
    cases stp with
    | @acq c q hq hfree =>
      rw [hp] at hq; cases hq
      by_cases hc : c = obs
      · subst hc
        have hout : st t = .out := by
          cases hst : st t with
          | out => rfl
          | fresh => rw [hst] at hok; exact (hok rfl).elim
          | marked n seen => rw [hst] at hok; exact (hok rfl).elim
        have hall : ∀ t'', st t'' = .out := by
          intro t''
          apply Classical.byContradiction
          intro hne
          have := (h.hold t'').1 hne
          rw [hfree] at this; cases this
        by_cases ht : t' = t
        · subst ht; simp [hout, nextSt]
        · have hne : t ≠ t' := fun e => ht e.symm
          simp [ht, hall t', hne]
      · have hne1 : Act.acq c ≠ .acq obs := by intro e; cases e; exact hc rfl
        have hne2 : Act.acq c ≠ .rel obs := by intro e; cases e
        have hiff := nextSt_out_iff hok hne1 hne2
        by_cases ht : t' = t
        · subst ht
          simp only [upd_same, upd_other _ _ (Ne.symm hc)]
          rw [← h.hold t']
          exact not_congr hiff
        · simp only [upd_other _ _ ht, upd_other _ _ (Ne.symm hc)]
          exact h.hold t'
    | @rel c q hq hheld =>
      rw [hp] at hq; cases hq
      by_cases hc : c = obs
      · subst hc
        have hnext : nextSt c (st t) (.rel c) = .out := by
          cases hst : st t with
          | out => rw [hst] at hok; exact (hok rfl).elim
          | fresh => simp [nextSt]
          | marked n seen => simp [nextSt]
        by_cases ht : t' = t
        · subst ht; simp [hnext]
        · have : st t' = .out := by
            apply Classical.byContradiction
            intro hne
            have := (h.hold t').1 hne
            rw [hheld] at this
            exact ht (Option.some.inj this).symm
          simp [ht, this]
      · have hne1 : Act.rel c ≠ .acq obs := by intro e; cases e
        have hne2 : Act.rel c ≠ .rel obs := by intro e; cases e; exact hc rfl
        have hiff := nextSt_out_iff hok hne1 hne2
        by_cases ht : t' = t
        · subst ht
          simp only [upd_same, upd_other _ _ (Ne.symm hc)]
          rw [← h.hold t']
          exact not_congr hiff
        · simp only [upd_other _ _ ht, upd_other _ _ (Ne.symm hc)]
          exact h.hold t'
    | @cb u n q hq =>
      rw [hp] at hq; cases hq
      have hiff := nextSt_out_iff hok (by intro e; cases e) (by intro e; cases e)
      by_cases ht : t' = t
      · subst ht
        simp only [upd_same]
        rw [← h.hold t']
        exact not_congr hiff
      · simp only [upd_other _ _ ht]; exact h.hold t'
    | @atom n q hq =>
      rw [hp] at hq; cases hq
      have hiff := nextSt_out_iff hok (by intro e; cases e) (by intro e; cases e)
      by_cases ht : t' = t
      · subst ht
        simp only [upd_same]
        rw [← h.hold t']
        exact not_congr hiff
      · simp only [upd_other _ _ ht]; exact h.hold t'
  · intro t' u
    rw [logOf_snoc, gorder_snoc]
    by_cases ht : t' = t
    · subst ht
      simpa [hprog] using hsub_t u
    · simp only [upd_other _ _ ht, hprog]
      by_cases ho : st t' = .out
      · rw [ho]
        have := hsub_t u
        simp only [pendSt, List.append_nil]
        exact List.Sublist.trans (List.sublist_append_left _ _) this
      · have hh := (h.hold t').1 ho
        have hto : st t = .out := by
          apply Classical.byContradiction
          intro hne
          have := (h.hold t).1 hne
          rw [hh] at this
          exact ht (Option.some.inj this)
        rw [hto] at hok
        obtain ⟨e1, e2⟩ := out_silent hok u
        rw [e1, e2, List.append_nil, List.append_nil]
        exact h.sub t' u

theorem GInv.run {obs : Cell} {s0 s : State} {tr : List (Tid × Act)} (h0 : Init s0)
    (hp : ∀ t, Bc obs .out (s0.prog t)) (r : TRun s0 tr s) : ∃ st, GInv obs tr s st := by
  induction r with
  | nil => exact ⟨_, GInv.init h0 hp⟩
  | snoc _ hq stp ih => obtain ⟨st, h⟩ := ih; exact ⟨_, h.step hq stp⟩

/-- **One common order.**  Under every schedule, what each subscriber has
    received so far is a subsequence of the global broadcast order. -/
theorem common_order {obs : Cell} {s0 s : State} {tr : List (Tid × Act)} (h0 : Init s0)
    (hp : ∀ t, Bc obs .out (s0.prog t)) (r : TRun s0 tr s) (u : Nat) :
    List.Sublist (logOf u tr) (gorder tr) := by
  obtain ⟨st, h⟩ := GInv.run h0 hp r
  exact List.Sublist.trans (List.sublist_append_left _ _) (h.sub 0 u)

/-- In a duplicate-free list two elements cannot occur in both orders. -/
theorem no_both_orders {m n : Nat} (hmn : m ≠ n) :
    ∀ {g : List Nat}, g.Nodup → List.Sublist [m, n] g → List.Sublist [n, m] g → False
  | [], _, h, _ => by cases h
  | x :: g, hnd, h1, h2 => by
    have hnd' := List.nodup_cons.1 hnd
    cases h1 with
    | cons _ h1' =>
      cases h2 with
      | cons _ h2' => exact no_both_orders hmn hnd'.2 h1' h2'
      | cons_cons _ h2' =>
        -- x = n, and [m, n] ⊆ g: n ∈ g, contradiction
        have : n ∈ g := h1'.subset (by simp)
        exact hnd'.1 this
    | cons_cons _ h1' =>
      -- x = m, [n] ⊆ g
      cases h2 with
      | cons _ h2' =>
        have : m ∈ g := h2'.subset (by simp)
        exact hnd'.1 this
      | cons_cons _ h2' => exact hmn rfl

/-! ## The footprint of `next` satisfies the discipline -/

/-- Body of a broadcast: each receiver called inside its slot section. -/
def bcBody (slot : Nat → Cell) (n : Nat) : List Nat → List Act
  | [] => []
  | u :: us => sect (slot u) [.cb u n] ++ bcBody slot n us

/-- `SubjectThreads::next` of emission `n` to the live list `subs`:
    `load` (observers ▸ chamber) then the broadcast section. -/
def subjNext (obs chamber : Cell) (slot : Nat → Cell) (n : Nat) (subs : List Nat) : List Act :=
  sect obs (sect chamber []) ++ sect obs (.atom n :: bcBody slot n subs)

theorem bc_body {obs : Cell} {slot : Nat → Cell} {n : Nat} (hs : ∀ u, slot u ≠ obs)
    {rest : List Act} (hrest : Bc obs .out rest) :
    ∀ (us seen : List Nat), us.Nodup → (∀ u ∈ us, u ∉ seen) →
      Bc obs (.marked n seen) (bcBody slot n us ++ .rel obs :: rest)
  | [], seen, _, _ => by
    refine ⟨trivial, ?_⟩
    rw [show nextSt obs (.marked n seen) (.rel obs) = .out by simp [nextSt]]
    exact hrest
  | u :: us, seen, hnd, hseen => by
    have hnd' := List.nodup_cons.1 hnd
    have ih := bc_body (n := n) hs hrest us (u :: seen) hnd'.2 (by
      intro v hv hvs
      rcases List.mem_cons.1 hvs with e | m
      · subst e; exact hnd'.1 hv
      · exact hseen v (List.mem_cons_of_mem _ hv) m)
    have hu : u ∉ seen := hseen u List.mem_cons_self
    have e : bcBody slot n (u :: us) ++ .rel obs :: rest =
        .acq (slot u) :: .cb u n :: .rel (slot u) :: (bcBody slot n us ++ .rel obs :: rest) := by
      simp [bcBody, sect]
    rw [e]
    refine ⟨hs u, ?_⟩
    rw [show nextSt obs (.marked n seen) (.acq (slot u)) = .marked n seen by simp [nextSt]]
    refine ⟨⟨rfl, hu⟩, ?_⟩
    rw [show nextSt obs (.marked n seen) (.cb u n) = .marked n (u :: seen) by simp [nextSt]]
    refine ⟨trivial, ?_⟩
    rw [show nextSt obs (.marked n (u :: seen)) (.rel (slot u)) = .marked n (u :: seen) by
      simp [nextSt, hs u]]
    exact ih

/-- A script of `next`s (distinct receivers per emission, slots and chamber
    different from the observers cell) satisfies the broadcast discipline. -/
theorem bc_next {obs chamber : Cell} {slot : Nat → Cell} (hc : chamber ≠ obs)
    (hs : ∀ u, slot u ≠ obs) {n : Nat} {subs : List Nat} (hnd : subs.Nodup)
    {rest : List Act} (hrest : Bc obs .out rest) :
    Bc obs .out (subjNext obs chamber slot n subs ++ rest) := by
  have hb := bc_body (n := n) hs hrest subs [] hnd (by intro _ _ h; cases h)
  have e : subjNext obs chamber slot n subs ++ rest =
      .acq obs :: .acq chamber :: .rel chamber :: .rel obs :: .acq obs :: .atom n ::
        (bcBody slot n subs ++ .rel obs :: rest) := by simp [subjNext, sect]
  rw [e]
  refine ⟨trivial, ?_⟩
  rw [show nextSt obs .out (.acq obs) = .fresh by simp [nextSt]]
  refine ⟨hc, ?_⟩
  rw [show nextSt obs .fresh (.acq chamber) = .fresh by simp [nextSt]]
  refine ⟨trivial, ?_⟩
  rw [show nextSt obs .fresh (.rel chamber) = .fresh by simp [nextSt, hc]]
  refine ⟨trivial, ?_⟩
  rw [show nextSt obs .fresh (.rel obs) = .out by simp [nextSt]]
  refine ⟨trivial, ?_⟩
  rw [show nextSt obs .out (.acq obs) = .fresh by simp [nextSt]]
  refine ⟨trivial, ?_⟩
  rw [show nextSt obs .fresh (.atom n) = .marked n [] by simp [nextSt]]
  exact hb


/-- A script of emissions by one thread: `(n, receivers)` in order. -/
def subjScript (obs chamber : Cell) (slot : Nat → Cell) : List (Nat × List Nat) → List Act
  | [] => []
  | (n, subs) :: es => subjNext obs chamber slot n subs ++ subjScript obs chamber slot es

theorem bc_script {obs chamber : Cell} {slot : Nat → Cell} (hc : chamber ≠ obs)
    (hs : ∀ u, slot u ≠ obs) :
    ∀ (es : List (Nat × List Nat)), (∀ e ∈ es, e.2.Nodup) →
      Bc obs .out (subjScript obs chamber slot es)
  | [], _ => rfl
  | (n, subs) :: es, h =>
    bc_next hc hs (h (n, subs) List.mem_cons_self)
      (bc_script hc hs es (fun e he => h e (List.mem_cons_of_mem _ he)))

/-- Executable traced execution of a schedule. -/
def texec : State → List Tid → Option (List (Tid × Act) × State)
  | s, [] => some ([], s)
  | s, t :: ts => match s.prog t, step? s t with
    | a :: _, some s1 => (texec s1 ts).map fun x => ((t, a) :: x.1, x.2)
    | _, _ => none

theorem TRun.cons {s s1 s2 : State} {t : Tid} {a : Act} {p : List Act} {tr : List (Tid × Act)}
    (hp : s.prog t = a :: p) (st : Step s t s1) (r : TRun s1 tr s2) :
    TRun s ((t, a) :: tr) s2 := by
  induction r with
  | nil => exact TRun.snoc (tr := []) TRun.nil hp st
  | snoc _ hq st' ih => exact TRun.snoc (tr := _ :: _) ih hq st'

theorem texec_sound : ∀ {ts : List Tid} {s s' : State} {tr : List (Tid × Act)},
    texec s ts = some (tr, s') → TRun s tr s'
  | [], s, s', tr, h => by simp [texec] at h; obtain ⟨rfl, rfl⟩ := h; exact TRun.nil
  | t :: ts, s, s', tr, h => by
    simp only [texec] at h
    split at h
    · rename_i a p s1 hp hs
      cases hx : texec s1 ts with
      | none => rw [hx] at h; cases h
      | some x =>
        rw [hx] at h
        simp at h
        obtain ⟨rfl, rfl⟩ := h
        exact TRun.cons hp (step?_sound hs) (texec_sound (by rw [hx]))
    · cases h

/-! ## Which subscribers receive an emission (sections as atomic steps)

  `observers` is only touched under the observers cell and `chamber` only under
  the chamber cell (`load` holds both), so by `lts_mutex` the sections are
  atomic with respect to each other and can be taken as single events:
    `push u`  — `actual_subscribe`: `chamber.push(u)`            (subject.rs:232-239)
    `load`    — `observers.append(chamber)`                      (subject.rs:129-133)
    `call n`  — a thread enters `next(n)` (no effect; it marks the moment)
    `bcast n` — the broadcast section of `next(n)`: receivers := `observers`
  Events of any number of threads interleave arbitrarily; the only constraint on
  the thread that emits `n` is its program order `call n … load … bcast n`. -/

inductive SEv where
  | call (n : Nat)
  | load
  | bcast (n : Nat)
  | push (u : Nat)

structure SD where
  obs : List Nat
  cham : List Nat

def sstep (d : SD) : SEv → SD
  | .load => ⟨d.obs ++ d.cham, []⟩
  | .push u => ⟨d.obs, d.cham ++ [u]⟩
  | _ => d

def srun (d : SD) (tr : List SEv) : SD := tr.foldl sstep d

def pushes (tr : List SEv) : List Nat :=
  tr.filterMap fun e => match e with
    | .push u => some u
    | _ => none

theorem srun_all (tr : List SEv) : ∀ d : SD,
    (srun d tr).obs ++ (srun d tr).cham = d.obs ++ d.cham ++ pushes tr := by
  induction tr with
  | nil => intro d; simp [srun, pushes]
  | cons e tr ih =>
    intro d
    have := ih (sstep d e)
    simp only [srun, List.foldl_cons] at this ⊢
    rw [this]
    cases e <;> simp [sstep, pushes]

theorem srun_obs_mono (tr : List SEv) : ∀ (d : SD) (u : Nat), u ∈ d.obs → u ∈ (srun d tr).obs := by
  induction tr with
  | nil => intro d u h; exact h
  | cons e tr ih =>
    intro d u h
    simp only [srun, List.foldl_cons]
    apply ih
    cases e <;> simp [sstep, h]

theorem srun_append (d : SD) (a b : List SEv) : srun d (a ++ b) = srun (srun d a) b := by
  simp [srun, List.foldl_append]

/-- **Receiver set.**  The broadcast of emission `n`, whose thread entered `next`
    after `pre`, loaded after `m1` and broadcast after `m2` (arbitrary events of
    other threads in `pre`, `m1`, `m2`): the receivers (the `observers` list at
    the broadcast) contain every subscriber pushed before the call and only
    subscribers pushed before the broadcast section. -/
theorem receivers_between (pre m1 m2 : List SEv) (n : Nat) :
    let tr := pre ++ [.call n] ++ m1 ++ [.load] ++ m2
    let recv := (srun ⟨[], []⟩ tr).obs
    (∀ u ∈ pushes pre, u ∈ recv) ∧ (∀ u ∈ recv, u ∈ pushes tr) := by
  intro tr recv
  constructor
  · intro u hu
    have h1 := srun_all (pre ++ [.call n] ++ m1) ⟨[], []⟩
    have hmem : u ∈ (srun (srun ⟨[], []⟩ (pre ++ [.call n] ++ m1)) [.load]).obs := by
      simp only [srun, List.foldl_cons, List.foldl_nil, sstep]
      have : u ∈ pushes (pre ++ [.call n] ++ m1) := by
        simp only [pushes, List.filterMap_append, List.mem_append] at hu ⊢
        exact Or.inl (Or.inl hu)
      have h1' : (List.foldl sstep ⟨[], []⟩ (pre ++ [.call n] ++ m1)).obs ++
          (List.foldl sstep ⟨[], []⟩ (pre ++ [.call n] ++ m1)).cham =
          pushes (pre ++ [.call n] ++ m1) := by simpa [srun] using h1
      rw [h1']; exact this
    have := srun_obs_mono m2 _ u hmem
    show u ∈ (srun ⟨[], []⟩ ((pre ++ [.call n] ++ m1) ++ [.load] ++ m2)).obs
    rw [srun_append, srun_append]
    exact this
  · intro u hu
    have h1 := srun_all tr ⟨[], []⟩
    have : u ∈ (srun ⟨[], []⟩ tr).obs ++ (srun ⟨[], []⟩ tr).cham :=
      List.mem_append_left _ hu
    rw [h1] at this
    simpa using this

end Rx.Conc
