import RxModel.Conc.Exec
/-
  Conc/Footprint.lean — which lock programs the operations of the thread-safe
  (`MutArc`) building blocks of rxRust are, and the proof that all of them are
  `Ranked []` (nested, rank-increasing) for every pipeline shape.

  Reading rule (src/rc.rs:68-95): `MutArc::rc_deref{,_mut}()` is
  `self.0.lock().unwrap()`; the returned `MutexGuard` lives
    * to the end of the enclosing block when bound with `let`,
    * to the end of the *statement* when it is a temporary — and for
      `if let Some(o) = x.rc_deref_mut().take() { BODY }` the scrutinee
      temporary lives until the end of `BODY`.
  A call to the downstream observer made while a guard lives is *inside* that
  section.  Over-approximation is allowed (data-dependent early exits only
  remove events), under-approximation is not.

  Cell numbering.  A `Shape` describes what is *downstream* of a delivery point.
  `deliver kd n k d` is the program run by a thread that delivers notification
  `n` into a stage of shape `d` whose first cell is `k`; the cells of `d` are
  numbered in pre-order (DFS) from `k`.  On a chain this is the depth from the
  source side; on a tree (a subject fans out) it refines depth: every cell has a
  larger number than every cell upstream of it, and siblings get disjoint ranges.
  The number is the rank (`Lts.lean`).

  Per building block, the Rust lines that justify the nesting are quoted at the
  constructor of `Shape` / the clause of `deliver` / `opAt`.
-/
namespace Rx.Conc

/-- Kind of a delivery: an item, a terminal (`term true` = `error`, `term false` =
    `complete`: the same lock skeleton everywhere but in `delay_threads`, which
    forwards `error` at once and schedules `complete`), or the `is_finished()`
    query that travels the same way. -/
inductive Kind where
  | next | term (err : Bool) | fin
  deriving DecidableEq, Repr

mutual
/-- What is downstream of a delivery point. -/
inductive Shape where
  /-- The user's observer; `cb u n` is its callback.  No lock of its own. -/
  | leaf (u : Nat)
  /-- A lock-free stage (map, filter, scan, StatusObserver, … : they own their
      state by value and call `self.observer.…` directly). -/
  | plain (d : Shape)
  /-- A `MutArc<Option<O>>` gate in front of `d`: `SubscriberThreads`
      (src/subscriber.rs:10,47-62), `take_until_threads`' shared `main_observer`
      (src/ops/take_until.rs:47-55,82-84: the source feeds the slot, the notifier
      calls `main_observer.clone().complete()` on the same slot), the observer
      slot of `delay_threads`/`observe_on_threads`.
      `impl_rc_observer!(MutArc)` src/observer.rs:110-137:
        next      `if let Some(o) = &mut *self.rc_deref_mut() { o.next(value) }`
        error     `if let Some(o) = self.rc_deref_mut().take() { o.error(err) }`
        complete  likewise; `is_finished`: `self.rc_deref().as_ref().map_or(true, |o| o.is_finished())`
      — in all four the guard temporary is alive during the downstream call:
      slot ▸ downstream. -/
  | slot (d : Shape)
  /-- The shared observer cell of `merge_threads` (src/ops/merge.rs:57-83:
      `let mut inner = self.rc_deref_mut(); … observer.next(value)`),
      `zip_threads` (src/ops/zip.rs:73-112), `combine_latest_threads`
      (src/ops/combine_latest.rs:114-150) and the `ObserverData` cell of
      `merge_all_threads` on its inner-`next`/`error` and outer-`error`/`complete`
      paths (src/ops/merge_all.rs:150-160,215-230): cell ▸ downstream. -/
  | cell (d : Shape)
  /-- `finalize_threads` (src/ops/finalize.rs:69-81): terminal = downstream first,
      *then* `if let Some(func) = self.func.rc_deref_mut().take() { func() }`
      (the callback runs under the `func` cell); `next`/`is_finished` forward. -/
  | fin (d : Shape)
  /-- `SubjectThreads` (src/subject.rs) with its current subscribers, each behind
      its own `SubscriberThreads` slot.  Cells: observers `k`, chamber `k+1`.
        load (129-133)   `if let Some(observers) = self.observers.rc_deref_mut().as_mut()
                            { observers.append(self.chamber.rc_deref_mut().as_mut().unwrap()) }`
                         observers ▸ chamber
        next (162-169)   load; `if let Some(observers) = self.observers.rc_deref_mut().as_mut()
                            { observers.iter_mut().for_each(|p| p.p_next(..)) }`
                         observers ▸ (slotᵢ ▸ downstreamᵢ) for each i in list order
        error/complete (171-190) load; `if let Some(observers) = self.observers.rc_deref_mut().take()
                            { observers.into_iter().for_each(|o| o.p_error(..)) }`
                         — the scrutinee guard lives for the body — observers ▸ for each i:
                         `p_error` slotᵢ ▸ downstreamᵢ.  (Before `fix: Subject::error/complete hand the
                         terminal to every subscriber` a `.filter(|o| !o.p_is_closed())` stood in front:
                         `is_finished()` (slotᵢ ▸ downstreamᵢ.is_finished) then `is_closed()` (slotᵢ),
                         src/subscriber.rs:96-98 — still what `retain` does, `closedChecks`.)
        is_finished (196-198) `self.observers.rc_deref().is_none()` -/
  | subject (ds : Shapes)
  /-- `BehaviorSubject<_, SubjectThreads>` (src/subject/behavior_subject.rs:26-29):
      `*self.value.rc_deref_mut() = value.clone();` (its own statement: the value
      cell is released) then `self.subject.next(value)`.  Value cell `k`, then `d`. -/
  | behavior (d : Shape)
  /-- `ShareOpThreads` (src/ops/ref_count.rs:25-27): one cell in front of the subject. -/
  | share (d : Shape)
  /-- `observe_on_threads` / `delay_threads` (src/ops/observe_on.rs:63-109,
      src/ops/delay.rs:89-124): a `MultiSubscriptionThreads` cell `k`, `h` task
      handles `k+1 … k+h` (`TaskHandle(MutArc<HandleInfo>)`, src/scheduler.rs:44),
      the observer slot `k+1+h`, then `d`.  The source thread only does
      `self.subscription.retain()` and `.append(handler)` (two separate sections
      of the multi cell, src/subscription.rs:101-113); the delivery happens on a
      pool thread inside `Remote::poll` (src/scheduler.rs:249-264: `let mut info =
      this.handle_info.rc_deref_mut(); … this.future.poll(cx)`): handle ▸ slot ▸ downstream.
      `dl = true` is `delay_threads`, whose `error` does not go through the scheduler
      (src/ops/delay.rs:104-107 `fn error(self, err) { self.observer.error(err) }`):
      slot ▸ downstream on the source thread. -/
  | task (dl : Bool) (h : Nat) (d : Shape)
inductive Shapes where
  | nil
  | cons (d : Shape) (ds : Shapes)
end

mutual
/-- Number of cells of a shape. -/
def cells : Shape → Nat
  | .leaf _ => 0
  | .plain d => cells d
  | .slot d => 1 + cells d
  | .cell d => 1 + cells d
  | .fin d => 1 + cells d
  | .subject ds => 2 + cellsL ds
  | .behavior d => 1 + cells d
  | .share d => 1 + cells d
  | .task _ h d => 2 + h + cells d
def cellsL : Shapes → Nat
  | .nil => 0
  | .cons d ds => (1 + cells d) + cellsL ds
end

mutual
/-- The program of a thread delivering notification `n` of kind `kd` into a stage
    of shape `d` whose first cell is `k`. -/
def deliver : Kind → Nat → Nat → Shape → List Act
  | .fin, _, _, .leaf _ => []
  | .next, n, _, .leaf u => [.cb u n]
  | .term _, n, _, .leaf u => [.cb u n]
  | kd, n, k, .plain d => deliver kd n k d
  | kd, n, k, .slot d => sect k (deliver kd n (k + 1) d)
  | kd, n, k, .cell d => sect k (deliver kd n (k + 1) d)
  | .term e, n, k, .fin d => deliver (.term e) n (k + 1) d ++ sect k [.atom 0]
  | .next, n, k, .fin d => deliver .next n (k + 1) d
  | .fin, n, k, .fin d => deliver .fin n (k + 1) d
  | .fin, _, k, .subject _ => sect k []
  | .next, n, k, .subject ds => sect k (sect (k + 1) []) ++ sect k (bcast .next n (k + 2) ds)
  | .term e, n, k, .subject ds => sect k (sect (k + 1) []) ++ sect k (bcast (.term e) n (k + 2) ds)
  | .next, n, k, .behavior d => sect k [.atom 1] ++ deliver .next n (k + 1) d
  | .term e, n, k, .behavior d => deliver (.term e) n (k + 1) d
  | .fin, n, k, .behavior d => deliver .fin n (k + 1) d
  | kd, n, k, .share d => deliver kd n (k + 1) d
  | .fin, n, k, .task _ h d => sect (k + 1 + h) (deliver .fin n (k + 2 + h) d)
  | .next, _, k, .task _ _ _ => sect k [] ++ sect k []
  | .term e, n, k, .task dl h d =>
      if e && dl then sect (k + 1 + h) (deliver (.term e) n (k + 2 + h) d)
      else sect k [] ++ sect k []
/-- The body of a subject's broadcast section: the subscribers in list order,
    subscriber `i` = slot `kᵢ` in front of `dᵢ` (cells from `kᵢ+1`). -/
def bcast : Kind → Nat → Nat → Shapes → List Act
  | _, _, _, .nil => []
  | .term e, n, k, .cons d ds =>
      sect k (deliver (.term e) n (k + 1) d) ++ bcast (.term e) n (k + 1 + cells d) ds
  | .next, n, k, .cons d ds =>
      sect k (deliver .next n (k + 1) d) ++ bcast .next n (k + 1 + cells d) ds
  | .fin, n, k, .cons d ds =>
      (sect k (deliver .fin n (k + 1) d) ++ sect k []) ++ bcast .fin n (k + 1 + cells d) ds
end

/-! ## Ranks -/

/-- Everything in `hs` is below `k`. -/
def Below (hs : List Nat) (k : Nat) : Prop := ∀ h ∈ hs, h < k

theorem Below.nil (k : Nat) : Below [] k := fun _ h => nomatch h

theorem Below.cons {hs : List Nat} {k k' : Nat} (h : Below hs k) (hk : k < k') :
    Below (k :: hs) k' := by
  intro x hx
  rcases List.mem_cons.1 hx with e | m
  · subst e; exact hk
  · exact Nat.lt_trans (h x m) hk

theorem Below.mono {hs : List Nat} {k k' : Nat} (h : Below hs k) (hk : k ≤ k') : Below hs k' :=
  fun x hx => Nat.lt_of_lt_of_le (h x hx) hk

syntax "below" : tactic
macro_rules
  | `(tactic| below) =>
    `(tactic| first
      | assumption
      | exact Below.nil _
      | exact Below.mono (by assumption) (by omega)
      | (refine Below.cons ?_ (by omega); below))

theorem rk_sect {c : Nat} {body : List Act} {hs : List Nat} (hlt : Below hs c)
    (hb : RankedK (c :: hs) body (c :: hs)) : RankedK hs (sect c body) hs :=
  RankedK.sect hlt hb

theorem rk_nil (hs : List Nat) : RankedK hs [] hs := rfl
theorem rk_atom (hs : List Nat) (a : Nat) : RankedK hs [.atom a] hs := rfl
theorem rk_cb (hs : List Nat) (u n : Nat) : RankedK hs [.cb u n] hs := rfl

theorem rk_sect_nil {c : Nat} {hs : List Nat} (hlt : Below hs c) : RankedK hs (sect c []) hs :=
  rk_sect hlt (rk_nil _)

mutual
/-- A delivery into any shape, at any base above what the thread holds, is
    nested and rank-increasing and returns to the same stack. -/
theorem deliver_ranked : ∀ (d : Shape) (kd : Kind) (n k : Nat) (hs : List Nat),
    Below hs k → RankedK hs (deliver kd n k d) hs
  | .leaf u, kd, n, k, hs, _ => by
    cases kd <;> simp only [deliver]
    · exact rk_cb _ _ _
    · exact rk_cb _ _ _
    · exact rk_nil _
  | .plain d, kd, n, k, hs, hlt => by
    simp only [deliver]; exact deliver_ranked d kd n k hs hlt
  | .slot d, kd, n, k, hs, hlt => by
    simp only [deliver]
    exact rk_sect hlt (deliver_ranked d kd n (k + 1) _ (by below))
  | .cell d, kd, n, k, hs, hlt => by
    simp only [deliver]
    exact rk_sect hlt (deliver_ranked d kd n (k + 1) _ (by below))
  | .fin d, kd, n, k, hs, hlt => by
    cases kd <;> simp only [deliver]
    · exact deliver_ranked d .next n (k + 1) hs (by below)
    · exact RankedK.append (deliver_ranked d (.term _) n (k + 1) hs (by below))
        (rk_sect hlt (rk_atom _ _))
    · exact deliver_ranked d .fin n (k + 1) hs (by below)
  | .subject ds, kd, n, k, hs, hlt => by
    cases kd <;> simp only [deliver]
    · exact RankedK.append (rk_sect hlt (rk_sect_nil (by below)))
        (rk_sect hlt (bcast_ranked ds .next n (k + 2) _ (by below)))
    · exact RankedK.append (rk_sect hlt (rk_sect_nil (by below)))
        (rk_sect hlt (bcast_ranked ds (.term _) n (k + 2) _ (by below)))
    · exact rk_sect_nil hlt
  | .behavior d, kd, n, k, hs, hlt => by
    cases kd <;> simp only [deliver]
    · exact RankedK.append (rk_sect hlt (rk_atom _ _))
        (deliver_ranked d .next n (k + 1) hs (by below))
    · exact deliver_ranked d (.term _) n (k + 1) hs (by below)
    · exact deliver_ranked d .fin n (k + 1) hs (by below)
  | .share d, kd, n, k, hs, hlt => by
    simp only [deliver]; exact deliver_ranked d kd n (k + 1) hs (by below)
  | .task dl h d, kd, n, k, hs, hlt => by
    cases kd <;> simp only [deliver]
    · exact RankedK.append (rk_sect_nil hlt) (rk_sect_nil hlt)
    · split
      · exact rk_sect (by below) (deliver_ranked d (.term _) n (k + 2 + h) _ (by below))
      · exact RankedK.append (rk_sect_nil hlt) (rk_sect_nil hlt)
    · exact rk_sect (by below) (deliver_ranked d .fin n (k + 2 + h) _ (by below))
theorem bcast_ranked : ∀ (ds : Shapes) (kd : Kind) (n k : Nat) (hs : List Nat),
    Below hs k → RankedK hs (bcast kd n k ds) hs
  | .nil, kd, n, k, hs, _ => by
    cases kd <;> exact rk_nil _
  | .cons d ds, kd, n, k, hs, hlt => by
    cases kd <;> simp only [bcast]
    · exact RankedK.append (rk_sect hlt (deliver_ranked d .next n (k + 1) _ (by below)))
        (bcast_ranked ds .next n (k + 1 + cells d) hs (by below))
    · exact RankedK.append (rk_sect hlt (deliver_ranked d (.term _) n (k + 1) _ (by below)))
        (bcast_ranked ds (.term _) n (k + 1 + cells d) hs (by below))
    · exact RankedK.append
        (RankedK.append (rk_sect hlt (deliver_ranked d .fin n (k + 1) _ (by below)))
          (rk_sect_nil hlt))
        (bcast_ranked ds .fin n (k + 1 + cells d) hs (by below))
end

/-! ## The other operations -/

/-- Operations addressed to the stage at the root of a shape. -/
inductive BaseOp where
  /-- `next` / `error` / `complete` / `is_finished` arriving from upstream. -/
  | deliver (kd : Kind) (n : Nat)
  /-- `actual_subscribe(new)`.  Subject (src/subject.rs:232-239):
      `if let Some(chamber) = self.chamber.rc_deref_mut().as_mut() { chamber.push(..) }`
      — the chamber cell alone.  BehaviorSubject (behavior_subject.rs:88-91):
      `observer.next(self.value.rc_deref().clone());` — the guard temporary lives to
      the end of that statement, so the new observer's `next` (label `n`) runs under
      the value cell — then the subject's subscribe.  Connected `ShareOpThreads`
      (ref_count.rs:61,77-80): share cell ▸ chamber.  The new observer's cells are
      numbered after all existing ones. -/
  | subscribe (new : Shape) (n : Nat)
  /-- `Subject::unsubscribe` (subject.rs:75-78): two statements, two sections. -/
  | unsubAll
  /-- `is_empty` / `len` (subject.rs:85-101): observers ▸ chamber. -/
  | size
  /-- `retain` (subject.rs:125-128): observers ▸ `p_is_closed` of every subscriber. -/
  | retain
  /-- `Subscriber::unsubscribe` / `is_closed` (subscriber.rs:67-77), the blanket
      `Subscription for MutArc<Option<S>>` (subscription.rs:165-173): the slot alone. -/
  | slotUnsub
  /-- `FinalizerSubscription::unsubscribe` (finalize.rs:100-105), after the inner
      subscription's own unsubscribe: the func cell with the callback inside. -/
  | finUnsub
  /-- `Remote::poll` of the `i`-th task on a pool thread delivering `kd n`
      (scheduler.rs:249-264): handle ▸ slot ▸ downstream. -/
  | taskPoll (i : Nat) (kd : Kind) (n : Nat)
  /-- `Remote::poll` of the `i`-th task while its body is not ready (`delay_threads`:
      `new_timer(dur).await` has not fired, scheduler.rs:311-316) or after it was
      cancelled (scheduler.rs:267-270): the handle cell alone. -/
  | taskPend (i : Nat)
  /-- `TaskHandle::unsubscribe` (scheduler.rs:195-220): the handle cell alone. -/
  | taskCancel (i : Nat)
  /-- `MultiSubscription::unsubscribe` (subscription.rs:80-90): `let vec =
      self.0.rc_deref_mut().take();` (released), then every handle in turn. -/
  | multiUnsub
  /-- First `ShareOpThreads::actual_subscribe` (ref_count.rs:60-76): under the share
      cell: subscribe to the subject (chamber), then `connect()`: the source is
      subscribed with the subject as observer and emits `es` synchronously from
      inside its `actual_subscribe` (nothing for a hot source, `[next, complete]`
      for `of(v)`, …). -/
  | shareConnect (es : List (Kind × Nat))

/-- The section of the `i`-th of `h` handle cells of a task stage at `k`, alone. -/
def handleAlone (k h i : Nat) : List Act :=
  if i < h then sect (k + 1 + i) [] else []

/-- The first `j` of `h` handles cancelled in turn (`TaskHandle::unsubscribe` each). -/
def cancelAll (k h : Nat) : Nat → List Act
  | 0 => []
  | j + 1 => cancelAll k h j ++ handleAlone k h j

/-- A sequence of deliveries into one stage. -/
def deliverAll (k : Nat) (s : Shape) : List (Kind × Nat) → List Act
  | [] => []
  | e :: es => deliver e.1 e.2 k s ++ deliverAll k s es

/-- `p_is_closed` of every subscriber. -/
def closedChecks (n : Nat) : Nat → Shapes → List Act := bcast .fin n

def opAt : Nat → Shape → BaseOp → List Act
  | k, s, .deliver kd n => deliver kd n k s
  | k, .subject _, .subscribe _ _ => sect (k + 1) []
  | k, .behavior (.subject ds), .subscribe new n =>
      sect k [] ++ deliver .next n (k + 3 + cellsL ds) new ++ sect (k + 2) []
  | k, .share (.subject _), .subscribe _ _ => sect k (sect (k + 2) [])
  | k, .share (.subject ds), .shareConnect es =>
      sect k (sect (k + 2) [] ++ deliverAll (k + 1) (.subject ds) es)
  | k, .subject _, .unsubAll => sect k [] ++ sect (k + 1) []
  | k, .subject _, .size => sect k (sect (k + 1) [])
  | k, .subject ds, .retain => sect k (closedChecks 0 (k + 2) ds)
  | k, .slot _, .slotUnsub => sect k []
  | k, .fin _, .finUnsub => sect k [.atom 0]
  | k, .task _ h d, .taskPoll i kd n =>
      if i < h then sect (k + 1 + i) (sect (k + 1 + h) (deliver kd n (k + 2 + h) d)) else []
  | k, .task _ h _, .taskPend i => handleAlone k h i
  | k, .task _ h _, .taskCancel i => handleAlone k h i
  | k, .task _ h _, .multiUnsub => sect k [] ++ cancelAll k h h
  | _, _, _ => []

/-- An operation addressed to any stage of a pipeline: at the root, at the single
    downstream stage, or at the `i`-th subscriber of a subject (which is a `slot`
    stage: its `SubscriberThreads`). -/
inductive Op where
  | here (b : BaseOp)
  | inner (o : Op)
  | sub (i : Nat) (o : Op)

/-- Apply `f` to the `i`-th subscriber (as a `slot` stage) at its base. -/
def atSub (f : Nat → Shape → List Act) : Nat → Shapes → Nat → List Act
  | _, .nil, _ => []
  | k, .cons d _, 0 => f k (.slot d)
  | k, .cons d ds, i + 1 => atSub f (k + 1 + cells d) ds i

def innerOf : Nat → Shape → Option (Nat × Shape)
  | k, .plain d => some (k, d)
  | k, .slot d => some (k + 1, d)
  | k, .cell d => some (k + 1, d)
  | k, .fin d => some (k + 1, d)
  | k, .behavior d => some (k + 1, d)
  | k, .share d => some (k + 1, d)
  | k, .task _ h d => some (k + 2 + h, d)
  | _, .leaf _ => none
  | _, .subject _ => none

/-- **The footprint of an operation on a pipeline shape whose first cell is `k`.** -/
def footprintAt : Op → Nat → Shape → List Act
  | .here b, k, s => opAt k s b
  | .inner o, k, s => match innerOf k s with
    | some (k', d) => footprintAt o k' d
    | none => []
  | .sub i o, k, s => match s with
    | .subject ds => atSub (footprintAt o) (k + 2) ds i
    | _ => []

/-- Footprint on a whole pipeline (cells numbered from 0). -/
def footprint (s : Shape) (o : Op) : List Act := footprintAt o 0 s

theorem handleAlone_ranked (k h i : Nat) (hs : List Nat) (hlt : Below hs (k + 1)) :
    RankedK hs (handleAlone k h i) hs := by
  simp only [handleAlone]
  split
  · exact rk_sect_nil (by below)
  · exact rk_nil _

theorem cancelAll_ranked (k h : Nat) (hs : List Nat) (hlt : Below hs (k + 1)) :
    ∀ j, RankedK hs (cancelAll k h j) hs
  | 0 => rk_nil _
  | j + 1 => RankedK.append (cancelAll_ranked k h hs hlt j) (handleAlone_ranked k h j hs hlt)

theorem deliverAll_ranked (k : Nat) (s : Shape) (hs : List Nat) (hlt : Below hs k) :
    ∀ es, RankedK hs (deliverAll k s es) hs
  | [] => rk_nil _
  | e :: es => RankedK.append (deliver_ranked s e.1 e.2 k hs hlt) (deliverAll_ranked k s hs hlt es)

theorem opAt_ranked (b : BaseOp) (s : Shape) (k : Nat) (hs : List Nat) (hlt : Below hs k) :
    RankedK hs (opAt k s b) hs := by
  cases b with
  | deliver kd n => simp only [opAt]; exact deliver_ranked s kd n k hs hlt
  | subscribe new n =>
    cases s with
    | subject ds => simp only [opAt]; exact rk_sect_nil (by below)
    | behavior d =>
      cases d with
      | subject ds =>
        simp only [opAt]
        exact RankedK.append (RankedK.append (rk_sect_nil (by below)) (deliver_ranked new .next n _ _ (by below)))
          (rk_sect_nil (by below))
      | _ => exact rk_nil _
    | share d =>
      cases d with
      | subject ds => simp only [opAt]; exact rk_sect hlt (rk_sect_nil (by below))
      | _ => exact rk_nil _
    | _ => exact rk_nil _
  | shareConnect es =>
    cases s with
    | share d =>
      cases d with
      | subject ds =>
        simp only [opAt]
        exact rk_sect hlt (RankedK.append (rk_sect_nil (by below))
          (deliverAll_ranked (k + 1) _ _ (by below) es))
      | _ => exact rk_nil _
    | _ => exact rk_nil _
  | unsubAll =>
    cases s with
    | subject ds =>
      simp only [opAt]; exact RankedK.append (rk_sect_nil hlt) (rk_sect_nil (by below))
    | _ => exact rk_nil _
  | size =>
    cases s with
    | subject ds => simp only [opAt]; exact rk_sect hlt (rk_sect_nil (by below))
    | _ => exact rk_nil _
  | retain =>
    cases s with
    | subject ds =>
      simp only [opAt, closedChecks]
      exact rk_sect hlt (bcast_ranked ds .fin 0 (k + 2) _ (by below))
    | _ => exact rk_nil _
  | slotUnsub =>
    cases s with
    | slot d => simp only [opAt]; exact rk_sect_nil hlt
    | _ => exact rk_nil _
  | finUnsub =>
    cases s with
    | fin d => simp only [opAt]; exact rk_sect hlt (rk_atom _ _)
    | _ => exact rk_nil _
  | taskPoll i kd n =>
    cases s with
    | task dl h d =>
      simp only [opAt]
      split
      · exact rk_sect (by below) (rk_sect (by below) (deliver_ranked d kd n _ _ (by below)))
      · exact rk_nil _
    | _ => exact rk_nil _
  | taskPend i =>
    cases s with
    | task dl h d => simp only [opAt]; exact handleAlone_ranked k h i hs (by below)
    | _ => exact rk_nil _
  | taskCancel i =>
    cases s with
    | task dl h d => simp only [opAt]; exact handleAlone_ranked k h i hs (by below)
    | _ => exact rk_nil _
  | multiUnsub =>
    cases s with
    | task dl h d =>
      simp only [opAt]
      exact RankedK.append (rk_sect_nil hlt) (cancelAll_ranked k h hs (by below) h)
    | _ => exact rk_nil _

theorem atSub_ranked {f : Nat → Shape → List Act} {hs : List Nat}
    (hf : ∀ k s, Below hs k → RankedK hs (f k s) hs) :
    ∀ (ds : Shapes) (k i : Nat), Below hs k → RankedK hs (atSub f k ds i) hs
  | .nil, _, _, _ => by simp only [atSub]; exact rk_nil _
  | .cons d _, k, 0, hlt => by simp only [atSub]; exact hf k (.slot d) hlt
  | .cons d ds, k, i + 1, hlt => by
    simp only [atSub]; exact atSub_ranked hf ds (k + 1 + cells d) i (by below)

theorem footprintAt_ranked : ∀ (o : Op) (s : Shape) (k : Nat) (hs : List Nat),
    Below hs k → RankedK hs (footprintAt o k s) hs
  | .here b, s, k, hs, hlt => opAt_ranked b s k hs hlt
  | .inner o, s, k, hs, hlt => by
    simp only [footprintAt]
    cases s <;> simp only [innerOf]
    all_goals first
      | exact rk_nil _
      | exact footprintAt_ranked o _ _ hs (by below)
  | .sub i o, s, k, hs, hlt => by
    cases s with
    | subject ds =>
      simp only [footprintAt]
      exact atSub_ranked (fun k' s' h' => footprintAt_ranked o s' k' hs h') ds (k + 2) i (by below)
    | _ => exact rk_nil _

/-- **C10_ranked.**  For every pipeline shape (any depth, any fan-out) the
    footprint of every operation at every stage is `Ranked []`: properly nested,
    acquiring cells in strictly increasing rank. -/
theorem C10_ranked (s : Shape) (o : Op) : Ranked [] (footprint s o) :=
  Ranked.of_rankedK (footprintAt_ranked o s 0 [] (Below.nil _))

/-- Any sequence of operations by one thread (a script) is `Ranked []`. -/
theorem script_ranked (s : Shape) : ∀ (os : List Op), Ranked [] (os.flatMap (footprint s))
  | [] => rfl
  | o :: os => by
    have h1 := rankedK_nil_iff.2 (C10_ranked s o)
    have h2 := rankedK_nil_iff.2 (script_ranked s os)
    exact Ranked.of_rankedK (by simpa [List.flatMap_cons] using RankedK.append h1 h2)

/-! ## The negative fact: `merge_all_threads` re-locks the cell it holds

  src/ops/merge_all.rs:162-175 (`InnerObserverThreads::complete`):
  ```
  let mut inner = self.0.rc_deref_mut();                 // acq cell   (guard bound by `let`)
  if let Some(data) = inner.as_mut() {
    if let Some(task) = data.subscribe_tasks.pop_front() {
      task();                                            // still holding `inner`
  ```
  and the queued closure (merge_all.rs:205-211) is
  `value.actual_subscribe(InnerObserverThreads::new(observer_data))`.  If the
  queued inner observable emits during `actual_subscribe` (any cold source:
  `of`, `from_iter`, …), `InnerObserverThreads::next` runs
  `self.0.rc_deref_mut()` on the *same* cell on the *same* thread.
  `std::sync::Mutex` is not re-entrant: the thread deadlocks on itself (or
  panics).  The footprint of that path acquires a cell it already holds. -/

/-- Inner completion that starts a queued, synchronously emitting inner
    observable: cell `k`, downstream `d` from `k+1`. -/
def mergeAllInnerCompleteQueued (k n : Nat) (d : Shape) : List Act :=
  .acq k :: (sect k (deliver .next n (k + 1) d)) ++ [.rel k]

/-- Not `Ranked`, for every base and every downstream. -/
theorem C10_merge_all_relock_witness (k n : Nat) (d : Shape) (hs : List Cell) :
    ¬ Ranked hs (mergeAllInnerCompleteQueued k n d) := by
  intro h
  have h2 : Ranked (k :: hs) (sect k (deliver .next n (k + 1) d) ++ [.rel k]) := h.2
  exact Nat.lt_irrefl k (h2.1 k List.mem_cons_self)

/-- Concretely: one thread alone running that path blocks on itself — after its
    first step it is unfinished and can never move again. -/
theorem C10_merge_all_self_deadlock :
    ∃ s, Reach (mkState [mergeAllInnerCompleteQueued 0 1 (.leaf 0)]) s ∧ Blocked s 0 ∧
      ∀ t s', ¬ Step s t s' := by
  have h : exec (mkState [mergeAllInnerCompleteQueued 0 1 (.leaf 0)]) [0] =
      some ((exec (mkState [mergeAllInnerCompleteQueued 0 1 (.leaf 0)]) [0]).getD (mkState [])) := rfl
  have hstuck : ∀ t s', ¬ Step ((exec (mkState [mergeAllInnerCompleteQueued 0 1 (.leaf 0)])
      [0]).getD (mkState [])) t s' := by
    intro t s' st
    have := enabled_of_step st
    match t, this with
    | 0, h => revert h; decide
    | t + 1, h =>
      simp [enabled, step?, exec, mkState, mergeAllInnerCompleteQueued, upd, sect, deliver] at h
  exact ⟨_, (exec_sound h).reach, ⟨by decide, fun ⟨s', st⟩ => hstuck 0 s' st⟩, hstuck⟩

end Rx.Conc
