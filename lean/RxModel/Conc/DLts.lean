import RxModel.Conc.Exec
/-
  Conc/DLts.lean — the lock LTS with shared data, for the small concrete systems
  (finalize, behaviour subject, complete_status, task handle, subscriber slot).

  The lock part is exactly `Lts.Step`; on top of it every executed action `a` of
  thread `t` transforms the shared data `d : σ` by `sem t a` (branches of the Rust
  code are data-dependent no-ops; thread-local variables live in `σ` indexed by
  the thread).  Statements quantify over all schedules (`DRun`).  For systems
  with finitely many, concretely given programs, `visited` enumerates every
  state of every schedule and `visited_sound` proves the enumeration complete,
  so a universally quantified statement reduces to a finite check.
-/
namespace Rx.Conc

structure DState (σ : Type) where
  l : State
  d : σ

/-- One step of thread `t`: a lock-level step, and the data effect of the action. -/
inductive DStep {σ : Type} (sem : Tid → Act → σ → σ) : DState σ → Tid → DState σ → Prop where
  | mk {l l' : State} {d : σ} {t : Tid} {a : Act} {p : List Act} :
      l.prog t = a :: p → Step l t l' → DStep sem ⟨l, d⟩ t ⟨l', sem t a d⟩

/-- Execution along a schedule. -/
inductive DRun {σ : Type} (sem : Tid → Act → σ → σ) : DState σ → List Tid → DState σ → Prop where
  | nil {s : DState σ} : DRun sem s [] s
  | cons {s s1 s2 : DState σ} {t : Tid} {ts : List Tid} :
      DStep sem s t s1 → DRun sem s1 ts s2 → DRun sem s (t :: ts) s2

/-- The lock-level projection of a data run is a run of the LTS: everything
    proved in `Lts.lean` (mutual exclusion, no deadlock) applies. -/
theorem DRun.erase {σ : Type} {sem : Tid → Act → σ → σ} {s s' : DState σ} {ts : List Tid}
    (r : DRun sem s ts s') : Run s.l ts s'.l := by
  induction r with
  | nil => exact Run.nil
  | cons st _ ih => cases st with | mk _ st' => exact Run.cons st' ih

/-- Executable step. -/
def dstep? {σ : Type} (sem : Tid → Act → σ → σ) (l : State) (d : σ) (t : Tid) :
    Option (State × σ) :=
  match l.prog t with
  | [] => none
  | a :: _ => match step? l t with
    | none => none
    | some l' => some (l', sem t a d)

theorem dstep?_complete {σ : Type} {sem : Tid → Act → σ → σ} {l l' : State} {d d' : σ} {t : Tid}
    (st : DStep sem ⟨l, d⟩ t ⟨l', d'⟩) : dstep? sem l d t = some (l', d') := by
  cases st with
  | mk hp st' => simp [dstep?, hp, step?_complete st']

theorem dstep?_sound {σ : Type} {sem : Tid → Act → σ → σ} {l l' : State} {d d' : σ} {t : Tid}
    (h : dstep? sem l d t = some (l', d')) : DStep sem ⟨l, d⟩ t ⟨l', d'⟩ := by
  unfold dstep? at h
  split at h
  · cases h
  · rename_i a p hp
    cases hs : step? l t with
    | none => rw [hs] at h; cases h
    | some l1 =>
      rw [hs] at h
      cases h
      exact DStep.mk hp (step?_sound hs)

/-- Execute a schedule. -/
def dexec {σ : Type} (sem : Tid → Act → σ → σ) : State → σ → List Tid → Option (State × σ)
  | l, d, [] => some (l, d)
  | l, d, t :: ts => match dstep? sem l d t with
    | none => none
    | some (l', d') => dexec sem l' d' ts

theorem dexec_sound {σ : Type} {sem : Tid → Act → σ → σ} :
    ∀ {ts : List Tid} {l l' : State} {d d' : σ},
      dexec sem l d ts = some (l', d') → DRun sem ⟨l, d⟩ ts ⟨l', d'⟩
  | [], l, l', d, d', h => by simp [dexec] at h; obtain ⟨rfl, rfl⟩ := h; exact DRun.nil
  | t :: ts, l, l', d, d', h => by
    simp only [dexec] at h
    cases hs : dstep? sem l d t with
    | none => rw [hs] at h; cases h
    | some x =>
      obtain ⟨l1, d1⟩ := x
      rw [hs] at h
      exact DRun.cons (dstep?_sound hs) (dexec_sound h)

/-- All threads `< n` are finished. -/
def done? (n : Nat) (l : State) : Bool := (List.range n).all fun t => (l.prog t).isEmpty

theorem done?_iff {n : Nat} {l : State} (hs : Support n l) :
    done? n l = true ↔ ∀ t, l.prog t = [] := by
  simp only [done?, List.all_eq_true, List.mem_range, List.isEmpty_iff]
  constructor
  · intro h t
    by_cases ht : t < n
    · exact h t ht
    · exact hs t (Nat.le_of_not_lt ht)
  · intro h t _; exact h t

/-- Every (finished?, data) pair of every state reachable within `fuel` steps,
    for threads `0 … n-1`. -/
def visited {σ : Type} (sem : Tid → Act → σ → σ) (n : Nat) : Nat → State → σ → List (Bool × σ)
  | 0, l, d => [(done? n l, d)]
  | f + 1, l, d => (done? n l, d) ::
      (List.range n).flatMap fun t => match dstep? sem l d t with
        | none => []
        | some (l', d') => visited sem n f l' d'

theorem visited_self {σ : Type} (sem : Tid → Act → σ → σ) (n f : Nat) (l : State) (d : σ) :
    (done? n l, d) ∈ visited sem n f l d := by
  cases f <;> simp [visited]

/-- **The enumeration is complete**: with fuel at least the total program length,
    the end state of *every* schedule is in `visited`. -/
theorem visited_sound {σ : Type} {sem : Tid → Act → σ → σ} {n : Nat} :
    ∀ {ts : List Tid} {f : Nat} {s s' : DState σ}, Support n s.l → size n s.l ≤ f →
      DRun sem s ts s' → (done? n s'.l, s'.d) ∈ visited sem n f s.l s.d
  | [], f, s, s', _, _, r => by cases r; exact visited_self ..
  | t :: ts, f, s, s', hs, hf, r => by
    cases r with
    | @cons _ s1 _ _ _ st r' =>
      obtain ⟨l, d⟩ := s
      obtain ⟨l1, d1⟩ := s1
      have st' : Step l t l1 := by cases st with | mk _ h => exact h
      have hlt : t < n := hs.tid_lt st'
      have hsz := step_size hs st'
      cases f with
      | zero => simp only [] at hsz hf; omega
      | succ f =>
        have ih := visited_sound (f := f) (s := ⟨l1, d1⟩) (hs.step st') (by simp only []; omega) r'
        simp only [visited, List.mem_cons, List.mem_flatMap, List.mem_range]
        refine Or.inr ⟨t, hlt, ?_⟩
        rw [dstep?_complete st]
        exact ih

/-- The reduction used by the concrete systems: a property of all pairs in
    `visited` holds at the end of every schedule. -/
theorem all_schedules {σ : Type} {sem : Tid → Act → σ → σ} {progs : List (List Act)} {d0 : σ}
    {P : Bool → σ → Prop} (f : Nat) (hf : size progs.length (mkState progs) ≤ f)
    (hall : ∀ x ∈ visited sem progs.length f (mkState progs) d0, P x.1 x.2)
    {ts : List Tid} {s' : DState σ} (r : DRun sem ⟨mkState progs, d0⟩ ts s') :
    P (done? progs.length s'.l) s'.d :=
  hall _ (visited_sound (s := ⟨mkState progs, d0⟩) (mkState_support progs) hf r)

theorem DRun.support {σ : Type} {sem : Tid → Act → σ → σ} {n : Nat} {s s' : DState σ}
    {ts : List Tid} (hs : Support n s.l) (r : DRun sem s ts s') : Support n s'.l :=
  hs.run r.erase

/-! ## A single thread is deterministic -/

/-- If only thread `t0` has work, a run that finishes it computes the fold of
    the data effects along its program, whatever the schedule. -/
theorem single_thread_run {σ : Type} {sem : Tid → Act → σ → σ} {t0 : Tid} :
    ∀ {ts : List Tid} {s s' : DState σ}, (∀ t, t ≠ t0 → s.l.prog t = []) →
      DRun sem s ts s' → s'.l.prog t0 = [] →
      s'.d = (s.l.prog t0).foldl (fun d a => sem t0 a d) s.d
  | [], s, s', _, r, hd => by cases r; rw [hd]; rfl
  | t :: ts, s, s', ho, r, hd => by
    cases r with
    | @cons _ s1 _ _ _ st r' =>
      cases st with
      | @mk l l1 d _ a p hp st' =>
        have ht : t = t0 := by
          apply Classical.byContradiction
          intro hne
          have := ho t hne
          simp only [] at this
          rw [this] at hp; cases hp
        subst ht
        obtain ⟨a', p', hp', he⟩ := st'.prog_eq
        rw [hp] at hp'
        cases hp'
        have ho1 : ∀ t', t' ≠ t → l1.prog t' = [] := by
          intro t' hne
          rw [he, upd_other _ _ hne]
          exact ho t' hne
        have ih := single_thread_run (s := ⟨l1, sem t a d⟩) ho1 r' hd
        rw [ih]
        simp only [he, upd_same, hp, List.foldl_cons]

end Rx.Conc
