import RxModel.Conc.Lts
/-
  Conc/Exec.lean — executions along schedules, the termination measure, and
  "every maximal execution is finite and ends with all programs empty".

  Finitely many *active* threads are assumed here (`Support n s`: threads `≥ n`
  have the empty program) — `n` is arbitrary, nothing is bounded.
-/
namespace Rx.Conc

/-- `Run s ts s'`: starting in `s`, the schedule `ts` (the list of thread ids
    that move, in order) can be executed and leads to `s'`. -/
inductive Run : State → List Tid → State → Prop where
  | nil {s : State} : Run s [] s
  | cons {s s1 s2 : State} {t : Tid} {ts : List Tid} :
      Step s t s1 → Run s1 ts s2 → Run s (t :: ts) s2

theorem Run.reach {s s' : State} {ts : List Tid} (r : Run s ts s') : Reach s s' := by
  induction r with
  | nil => exact Reach.refl
  | @cons s s1 s2 t ts st _ ih =>
    -- prepend a step to a reachability proof
    have pre : ∀ {a b : State}, Reach a b → ∀ {z : State} {t : Tid}, Step z t a → Reach z b := by
      intro a b rab
      induction rab with
      | refl => intro z t st; exact Reach.step Reach.refl st
      | step _ st2 ih2 => intro z t st; exact Reach.step (ih2 st) st2
    exact pre ih st

theorem Run.snoc {s s1 s2 : State} {ts : List Tid} {t : Tid} (r : Run s ts s1)
    (st : Step s1 t s2) : Run s (ts ++ [t]) s2 := by
  induction r with
  | nil => exact Run.cons st Run.nil
  | cons st1 _ ih => exact Run.cons st1 (ih st)

theorem Reach.run {s s' : State} (r : Reach s s') : ∃ ts, Run s ts s' := by
  induction r with
  | refl => exact ⟨[], Run.nil⟩
  | step _ st ih => obtain ⟨ts, h⟩ := ih; exact ⟨_, h.snoc st⟩

theorem Inv.run {s s' : State} {ts : List Tid} (h : Inv s) (r : Run s ts s') : Inv s' :=
  h.reach r.reach

/-- Threads `≥ n` are finished (never existed). -/
def Support (n : Nat) (s : State) : Prop := ∀ t, n ≤ t → s.prog t = []

/-- Total remaining program length of threads `< n`. -/
def psize : Nat → (Tid → List Act) → Nat
  | 0, _ => 0
  | n + 1, f => psize n f + (f n).length

def size (n : Nat) (s : State) : Nat := psize n s.prog

theorem Step.prog_eq {s s' : State} {t : Tid} (st : Step s t s') :
    ∃ a p, s.prog t = a :: p ∧ s'.prog = upd s.prog t p := by
  cases st with
  | acq hp _ => exact ⟨_, _, hp, rfl⟩
  | rel hp _ => exact ⟨_, _, hp, rfl⟩
  | cb hp => exact ⟨_, _, hp, rfl⟩
  | atom hp => exact ⟨_, _, hp, rfl⟩

theorem psize_upd_ge {f : Tid → List Act} {t : Tid} {p : List Act} :
    ∀ {n : Nat}, n ≤ t → psize n (upd f t p) = psize n f
  | 0, _ => rfl
  | n + 1, h => by
    have hne : n ≠ t := by intro e; subst e; exact Nat.lt_irrefl _ h
    simp only [psize, upd_other f p hne]
    rw [psize_upd_ge (Nat.le_of_succ_le h)]

theorem psize_upd_lt {f : Tid → List Act} {t : Tid} {a : Act} {p : List Act}
    (hf : f t = a :: p) : ∀ {n : Nat}, t < n → psize n (upd f t p) + 1 = psize n f
  | 0, h => absurd h (Nat.not_lt_zero _)
  | n + 1, h => by
    by_cases e : t = n
    · subst e
      simp only [psize, upd_same, psize_upd_ge (Nat.le_refl _), hf, List.length_cons]
      omega
    · have hlt : t < n := Nat.lt_of_le_of_ne (Nat.le_of_lt_succ h) e
      have hne : n ≠ t := fun e' => e e'.symm
      have ih := psize_upd_lt hf hlt
      simp only [psize, upd_other f p hne]
      omega

theorem Support.tid_lt {n : Nat} {s s' : State} {t : Tid} (hs : Support n s)
    (st : Step s t s') : t < n := by
  obtain ⟨a, p, hp, _⟩ := st.prog_eq
  apply Nat.lt_of_not_le
  intro h
  rw [hs t h] at hp; cases hp

theorem Support.step {n : Nat} {s s' : State} {t : Tid} (hs : Support n s)
    (st : Step s t s') : Support n s' := by
  have hlt := hs.tid_lt st
  obtain ⟨a, p, hp, he⟩ := st.prog_eq
  intro t' ht'
  have hne : t' ≠ t := by intro e; subst e; exact Nat.lt_irrefl _ (Nat.lt_of_lt_of_le hlt ht')
  rw [he, upd_other _ _ hne]
  exact hs t' ht'

theorem Support.run {n : Nat} {s s' : State} {ts : List Tid} (hs : Support n s)
    (r : Run s ts s') : Support n s' := by
  induction r with
  | nil => exact hs
  | cons st _ ih => exact ih (hs.step st)

/-- Every step consumes exactly one action: the measure drops by one. -/
theorem step_size {n : Nat} {s s' : State} {t : Tid} (hs : Support n s) (st : Step s t s') :
    size n s' + 1 = size n s := by
  have hlt := hs.tid_lt st
  obtain ⟨a, p, hp, he⟩ := st.prog_eq
  unfold size
  rw [he]
  exact psize_upd_lt hp hlt

/-- An execution of `k` steps lowers the measure by `k`: executions are no longer
    than the total program length. -/
theorem run_size {n : Nat} {s s' : State} {ts : List Tid} (hs : Support n s)
    (r : Run s ts s') : size n s' + ts.length = size n s := by
  induction r with
  | nil => simp
  | cons st _ ih =>
    have h1 := step_size hs st
    have h2 := ih (hs.step st)
    simp only [List.length_cons]
    omega

/-- No infinite execution. -/
theorem no_infinite_run {n : Nat} {s : State} (hs : Support n s) :
    ¬ ∃ f : Nat → State, f 0 = s ∧ ∀ i, ∃ t, Step (f i) t (f (i + 1)) := by
  intro ⟨f, h0, hstep⟩
  have key : ∀ i, Support n (f i) ∧ size n (f i) + i = size n s := by
    intro i
    induction i with
    | zero => rw [h0]; exact ⟨hs, rfl⟩
    | succ i ih =>
      obtain ⟨t, st⟩ := hstep i
      have := step_size ih.1 st
      exact ⟨ih.1.step st, by omega⟩
  have := (key (size n s + 1)).2
  omega

theorem psize_zero {f : Tid → List Act} : ∀ {n : Nat}, psize n f = 0 → ∀ t, t < n → f t = []
  | 0, _, t, h => absurd h (Nat.not_lt_zero _)
  | n + 1, h, t, ht => by
    simp only [psize] at h
    by_cases e : t = n
    · subst e; exact List.eq_nil_of_length_eq_zero (by omega)
    · exact psize_zero (by omega) t (Nat.lt_of_le_of_ne (Nat.le_of_lt_succ ht) e)

/-- A state from which no thread can step (a *maximal* execution ends there)
    has, under `Inv`, all programs empty: nobody is stuck inside a call. -/
theorem stuck_done {s : State} (h : Inv s) (hstuck : ∀ t s', ¬ Step s t s') :
    ∀ t, s.prog t = [] := by
  intro t
  apply Classical.byContradiction
  intro hne
  obtain ⟨t', s', st⟩ := rank_deadlock_free h ⟨t, hne⟩
  exact hstuck t' s' st

/-- From every `Inv` state with finitely many active threads, *any* way of
    continuing reaches the state with all programs empty; in particular one
    exists.  (Strong induction on the measure.) -/
theorem exists_complete_run {n : Nat} :
    ∀ (k : Nat) {s : State}, size n s = k → Inv s → Support n s →
      ∃ ts s', Run s ts s' ∧ ∀ t, s'.prog t = []
  | 0, s, hk, _, hs => by
    refine ⟨[], s, Run.nil, ?_⟩
    intro t
    by_cases ht : t < n
    · exact psize_zero hk t ht
    · exact hs t (Nat.le_of_not_lt ht)
  | k + 1, s, hk, hi, hs => by
    by_cases hdone : ∀ t, s.prog t = []
    · exact ⟨[], s, Run.nil, hdone⟩
    · have : ∃ t, s.prog t ≠ [] := Classical.not_forall.1 hdone
      obtain ⟨t, s1, st⟩ := rank_deadlock_free hi this
      have h1 := step_size hs st
      obtain ⟨ts, s', r, hd⟩ :=
        exists_complete_run k (s := s1) (by omega) (ranked_invariant hi st) (hs.step st)
      exact ⟨t :: ts, s', Run.cons st r, hd⟩

/-! ## Executable stepping (for concrete witnesses) -/

/-- The (unique) successor when thread `t` moves, if it can. -/
def step? (s : State) (t : Tid) : Option State :=
  match s.prog t with
  | [] => none
  | .acq c :: p =>
      if s.holder c = none then some ⟨upd s.holder c (some t), upd s.prog t p⟩ else none
  | .rel c :: p =>
      if s.holder c = some t then some ⟨upd s.holder c none, upd s.prog t p⟩ else none
  | .cb _ _ :: p => some ⟨s.holder, upd s.prog t p⟩
  | .atom _ :: p => some ⟨s.holder, upd s.prog t p⟩

theorem step?_sound {s s' : State} {t : Tid} (h : step? s t = some s') : Step s t s' := by
  unfold step? at h
  split at h
  · cases h
  · rename_i c p hp
    split at h
    · rename_i hc; cases h; exact Step.acq hp hc
    · cases h
  · rename_i c p hp
    split at h
    · rename_i hc; cases h; exact Step.rel hp hc
    · cases h
  · rename_i u n p hp; cases h; exact Step.cb hp
  · rename_i a p hp; cases h; exact Step.atom hp

theorem step?_complete {s s' : State} {t : Tid} (st : Step s t s') : step? s t = some s' := by
  cases st with
  | acq hp hc => simp [step?, hp, hc]
  | rel hp hc => simp [step?, hp, hc]
  | cb hp => simp [step?, hp]
  | atom hp => simp [step?, hp]

theorem step?_iff {s s' : State} {t : Tid} : step? s t = some s' ↔ Step s t s' :=
  ⟨step?_sound, step?_complete⟩

/-- Steps are deterministic per thread. -/
theorem Step.det {s s1 s2 : State} {t : Tid} (h1 : Step s t s1) (h2 : Step s t s2) : s1 = s2 := by
  have e1 := step?_complete h1
  have e2 := step?_complete h2
  rw [e1] at e2; exact Option.some.inj e2

/-- Execute a schedule. -/
def exec : State → List Tid → Option State
  | s, [] => some s
  | s, t :: ts => match step? s t with
    | none => none
    | some s1 => exec s1 ts

theorem exec_sound : ∀ {ts : List Tid} {s s' : State}, exec s ts = some s' → Run s ts s'
  | [], s, s', h => by simp [exec] at h; subst h; exact Run.nil
  | t :: ts, s, s', h => by
    simp only [exec] at h
    cases hs : step? s t with
    | none => rw [hs] at h; cases h
    | some s1 => rw [hs] at h; exact Run.cons (step?_sound hs) (exec_sound h)

theorem exec_complete {s s' : State} {ts : List Tid} (r : Run s ts s') : exec s ts = some s' := by
  induction r with
  | nil => rfl
  | cons st _ ih => simp only [exec, step?_complete st]; exact ih

/-- Can thread `t` move? -/
def enabled (s : State) (t : Tid) : Bool := (step? s t).isSome

theorem enabled_of_step {s s' : State} {t : Tid} (st : Step s t s') : enabled s t = true := by
  simp [enabled, step?_complete st]

/-! ## Concrete systems from a list of programs -/

/-- Thread `i` runs `progs[i]`; nothing is held. -/
def mkState (progs : List (List Act)) : State := ⟨fun _ => none, fun t => progs.getD t []⟩

theorem mkState_init (progs : List (List Act)) : Init (mkState progs) := fun _ => rfl

theorem getD_all {P : List Act → Prop} (h0 : P []) :
    ∀ {progs : List (List Act)}, (∀ p ∈ progs, P p) → ∀ t, P (progs.getD t [])
  | [], _, t => by simpa using h0
  | p :: ps, h, 0 => by simpa using h p List.mem_cons_self
  | p :: ps, h, t + 1 => by
    simpa using getD_all h0 (fun q hq => h q (List.mem_cons_of_mem _ hq)) t

theorem mkState_ranked {progs : List (List Act)} (h : ∀ p ∈ progs, Ranked [] p) :
    ∀ t, Ranked [] ((mkState progs).prog t) := getD_all (P := Ranked []) rfl h

theorem mkState_guarded {slot : Nat → Cell} {progs : List (List Act)}
    (h : ∀ p ∈ progs, Guarded slot [] p) :
    ∀ t, Guarded slot [] ((mkState progs).prog t) := getD_all (P := Guarded slot []) trivial h

theorem mkState_support (progs : List (List Act)) : Support progs.length (mkState progs) := by
  intro t ht
  simp [mkState, List.getD, List.getElem?_eq_none ht]

theorem mkState_inv {progs : List (List Act)} (h : ∀ p ∈ progs, Ranked [] p) :
    Inv (mkState progs) := Inv.init (mkState_init _) (mkState_ranked h)

end Rx.Conc
