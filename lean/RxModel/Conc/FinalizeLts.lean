import RxModel.Conc.DLts
/-
  Conc/FinalizeLts.lean — `finalize_threads` under a race (C15, threads clause).

  src/ops/finalize.rs:
    FinalizerObserver::error/complete (69-81):
        self.observer.complete();
        if let Some(func) = self.func.rc_deref_mut().take() { func() }
    FinalizerSubscription::unsubscribe (100-105):
        self.subscription.unsubscribe();
        if let Some(func) = self.func.rc_deref_mut().take() { func() }
  `func : MutArc<Option<F>>` is shared by the observer and the subscription.  The
  guard temporary of the scrutinee lives for the body of the `if let`, so
  `take()` and the call `func()` are inside one section of the `func` cell.

  Cell 0 = the `func` cell.  `atom 0` = `take()` (thread-local result `took t`),
  `atom 1` = `func()` if the take returned `Some`.  `cb 0 0` = the downstream
  terminal delivered first by the terminating thread; `atom 2` = the inner
  `subscription.unsubscribe()` done first by the unsubscribing thread.
-/
namespace Rx.Conc.Finalize

structure D where
  func : Bool
  took : Tid → Bool
  runs : Nat

def d0 : D := ⟨true, fun _ => false, 0⟩

def sem (t : Tid) (a : Act) (d : D) : D :=
  match a with
  | .atom 0 => { d with took := upd d.took t d.func, func := false }
  | .atom 1 => if d.took t then { d with runs := d.runs + 1 } else d
  | _ => d

/-- The func-cell section. -/
def takeAndRun : List Act := sect 0 [.atom 0, .atom 1]

/-- Thread 0: terminal (`complete`/`error`); thread 1: `unsubscribe`. -/
def progs2 : List (List Act) := [ .cb 0 0 :: takeAndRun, .atom 2 :: takeAndRun ]

/-- Three racing triggers: terminal, unsubscribe, and a second unsubscribe/terminal
    through a cloned handle. -/
def progs3 : List (List Act) := [ .cb 0 0 :: takeAndRun, .atom 2 :: takeAndRun, .atom 2 :: takeAndRun ]

def Once (fin : Bool) (d : D) : Prop := d.runs ≤ 1 ∧ (fin = true → d.runs = 1)

instance (fin : Bool) (d : D) : Decidable (Once fin d) := by unfold Once; exact inferInstance

theorem visited2 : ∀ x ∈ visited sem progs2.length 10 (mkState progs2) d0, Once x.1 x.2 := by
  decide +kernel

theorem visited3 : ∀ x ∈ visited sem progs3.length 15 (mkState progs3) d0, Once x.1 x.2 := by
  decide +kernel

end Rx.Conc.Finalize
