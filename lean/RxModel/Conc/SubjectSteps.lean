import RxModel.Core.Notif
/-
  Step-level (critical-section level) DATA model of `SubjectThreads`
  (src/subject.rs: `impl_subject_trivial!`, `impl_observer_methods!`,
  `impl_observable_for_subject!`; src/subscriber.rs; `impl_rc_observer!` of
  src/observer.rs), with plain probe subscribers (callbacks do nothing but log).

  ONE atomic step = ONE top-level critical section: a `MutArc` cell acquired
  while the thread holds no other `MutArc` cell.  Nested acquisitions belong to
  the enclosing step (the boundaries below are the ones the lock traces of suite
  `locks` show: `a0[],a1[0]` = load; `a0[],a2[0],c0[0.2],…` = broadcast; …):

    next v      = load ; bcastNext v        (edition 2021: the `if let` scrutinee guard of
    error e     = load ; bcastTerm (error e)  `observers` lives through the whole broadcast,
    complete    = load ; bcastTerm complete   for `take()` as well)
    unsubscribe = takeObs ; takeChamber      (two statements, two sections)
    subscribe   = push                       (chamber cell only!)
    handle.unsubscribe = closeSlot u         (the subscriber's own cell only)
    retain      = retain                     (observers, slots nested)
    len         = len                        (observers, chamber nested)
    is_empty    = isEmpty                    (observers, chamber nested only if observers is empty)

  Transcription:
    observers / chamber : `MutArc<Option<SmallVec<Box<dyn Publisher>>>>` ↦ `Option (List Nat)`
    `SubscriberThreads<O>(MutArc<Option<O>>)` of subscriber u             ↦ `slots[u] : Bool`
    an `unwrap()` on `None` (load / len / is_empty)                        ↦ `panicked := true`
  After a panic nothing else happens (the mutex is poisoned, the harness stops
  the case): `step` is the identity on a panicked state.

  Granularity note: `closeSlot u` takes only the subscriber's cell, so on the
  real code it can also fall BETWEEN two callbacks of one broadcast.  It touches
  one slot only and a broadcast reads each slot once, so that interleaving is
  equal to `closeSlot u` right before or right after the broadcast step.

  Core Lean only (linked into `rxdriver`).
-/
namespace Rx.Conc.SS
open Rx

/-- A terminal notification. -/
inductive Term where
  | error (e : Err)
  | complete
  deriving DecidableEq, Repr, Inhabited

def Term.toNotif : Term → Notif
  | .error e => .error e
  | .complete => .complete

/-- An answer of `len()` / `is_empty()`. -/
inductive SizeOut where
  | len (n : Nat)
  | empty (b : Bool)
  deriving DecidableEq, Repr

abbrev Delivery := Nat × Notif

structure St where
  /-- `observers`: the live list; `none` after a terminal / `unsubscribe()` -/
  obs : Option (List Nat)
  /-- `chamber`: subscribers not yet loaded; `none` after `unsubscribe()` only -/
  chamber : Option (List Nat)
  /-- `slots[u]`: subscriber u's cell still holds its observer -/
  slots : List Bool
  /-- probe calls (subscriber, notification) in global order -/
  log : List Delivery
  /-- answers of `len` / `is_empty`, in order -/
  sizes : List SizeOut
  panicked : Bool
  deriving DecidableEq, Repr

/-- `SubjectThreads::default()` -/
def St.init : St := ⟨some [], some [], [], [], [], false⟩

/-- the cell of entry `u` still holds its observer (= `!p_is_closed()`: the probe's own
    `is_finished()` is constant false) -/
def isOpenIn (slots : List Bool) (u : Nat) : Bool := slots.getD u false

def St.isOpen (s : St) (u : Nat) : Bool := isOpenIn s.slots u

/-- `observers.into_iter().for_each(|o| o.p_error(e))`: every entry is called; the slot's
    `error/complete` takes the observer out, then calls it — an entry whose cell is empty
    does nothing.  (Before `fix: Subject::error/complete hand the terminal to every
    subscriber` a `.filter(|o| !o.p_is_closed())` skipped exactly those entries: same function.) -/
def termLoop (n : Notif) : List Bool → List Nat → List Bool × List Delivery
  | slots, [] => (slots, [])
  | slots, u :: r =>
    if isOpenIn slots u then
      let x := termLoop n (slots.set u false) r
      (x.1, (u, n) :: x.2)
    else termLoop n slots r

inductive Step where
  /-- `load()`: `if let Some(o) = observers { o.append(chamber.as_mut().unwrap()) }` -/
  | load
  /-- `if let Some(o) = observers.as_mut() { o.iter_mut().for_each(p_next) }` -/
  | bcastNext (v : Val)
  /-- `if let Some(o) = observers.take() { o.into_iter().for_each(p_error/p_complete) }` -/
  | bcastTerm (t : Term)
  /-- `self.observers.rc_deref_mut().take();` -/
  | takeObs
  /-- `self.chamber.rc_deref_mut().take();` -/
  | takeChamber
  /-- `actual_subscribe`: push to the chamber if it is `Some`, else a dead subscriber -/
  | push
  /-- `retain(|p| !p.p_is_closed())` on `observers` -/
  | retain
  /-- `SubscriberThreads::unsubscribe`: `self.0.rc_deref_mut().take()` -/
  | closeSlot (u : Nat)
  | len
  | isEmpty
  deriving DecidableEq, Repr

/-- What the probes are called with during step `x` from state `s`. -/
def St.emits (s : St) : Step → List Delivery
  | .bcastNext v =>
    if s.panicked then [] else ((s.obs.getD []).filter s.isOpen).map (·, Notif.next v)
  | .bcastTerm t =>
    if s.panicked then [] else (termLoop t.toNotif s.slots (s.obs.getD [])).2
  | _ => []

/-- One top-level critical section, atomically. -/
def St.step (s : St) (x : Step) : St :=
  if s.panicked then s else
  match x with
  | .load =>
    match s.obs, s.chamber with
    | some o, some c => { s with obs := some (o ++ c), chamber := some [] }
    | some _, none => { s with panicked := true }
    | none, _ => s
  | .bcastNext v => { s with log := s.log ++ s.emits (.bcastNext v) }
  | .bcastTerm t =>
    match s.obs with
    | some o => { s with obs := none, slots := (termLoop t.toNotif s.slots o).1,
                         log := s.log ++ s.emits (.bcastTerm t) }
    | none => s
  | .takeObs => { s with obs := none }
  | .takeChamber => { s with chamber := none }
  | .push =>
    match s.chamber with
    | some c => { s with chamber := some (c ++ [s.slots.length]), slots := s.slots ++ [true] }
    | none => { s with slots := s.slots ++ [false] }
  | .retain =>
    match s.obs with
    | some o => { s with obs := some (o.filter s.isOpen) }
    | none => s
  | .closeSlot u => { s with slots := s.slots.set u false }
  | .len =>
    match s.obs, s.chamber with
    | none, _ => { s with sizes := s.sizes ++ [.len 0] }
    | some o, some c => { s with sizes := s.sizes ++ [.len (o.length + c.length)] }
    | some _, none => { s with panicked := true }
  | .isEmpty =>
    match s.obs with
    | none => { s with sizes := s.sizes ++ [.empty true] }
    | some o =>
      if o.isEmpty then
        match s.chamber with
        | some c => { s with sizes := s.sizes ++ [.empty c.isEmpty] }
        | none => { s with panicked := true }
      else { s with sizes := s.sizes ++ [.empty false] }

/-- Operations of a thread on (a clone of) the subject / on a subscription handle. -/
inductive Op where
  | next (v : Val)
  | error (e : Err)
  | complete
  /-- `Subscription::unsubscribe` of the subject -/
  | unsubAll
  | subscribe
  /-- `handle[u].unsubscribe()` -/
  | unsub (u : Nat)
  | retain
  /-- `len()` then `is_empty()` -/
  | size
  deriving DecidableEq, Repr

/-- The critical sections of an operation, in program order. -/
def Op.steps : Op → List Step
  | .next v => [.load, .bcastNext v]
  | .error e => [.load, .bcastTerm (.error e)]
  | .complete => [.load, .bcastTerm .complete]
  | .unsubAll => [.takeObs, .takeChamber]
  | .subscribe => [.push]
  | .unsub u => [.closeSlot u]
  | .retain => [.retain]
  | .size => [.len, .isEmpty]

/-- The seeded variant: `chamber.take()` before `observers.take()`. -/
def Op.stepsSwapped : Op → List Step
  | .unsubAll => [.takeChamber, .takeObs]
  | op => op.steps

/-- Run a list of steps back to back. -/
def St.runSteps (s : St) (xs : List Step) : St := xs.foldl St.step s

/-- An operation without preemption. -/
def St.runOp (s : St) (op : Op) : St := s.runSteps op.steps

/-! ### Interleavings -/

/-- A thread: the remaining steps of its current operation, and its remaining operations. -/
structure Thread where
  cur : List Step
  rest : List Op
  deriving DecidableEq, Repr

/-- The next step of an operation list (operations without steps are skipped). -/
def pickOps (steps : Op → List Step) : List Op → Option (Step × Thread)
  | [] => none
  | op :: rest =>
    match steps op with
    | x :: cur => some (x, ⟨cur, rest⟩)
    | [] => pickOps steps rest

def Thread.pick (steps : Op → List Step) (t : Thread) : Option (Step × Thread) :=
  match t.cur with
  | x :: cur => some (x, ⟨cur, t.rest⟩)
  | [] => pickOps steps t.rest

structure Cfg where
  st : St
  ths : List Thread
  deriving DecidableEq, Repr

def Cfg.init (progs : List (List Op)) : Cfg := ⟨St.init, progs.map (⟨[], ·⟩)⟩

/-- Thread `i` runs its next critical section (no-op if it has nothing left / does not exist). -/
def Cfg.sched1 (steps : Op → List Step) (c : Cfg) (i : Nat) : Cfg :=
  match c.ths[i]? with
  | none => c
  | some t =>
    match t.pick steps with
    | none => c
    | some (x, t') => ⟨c.st.step x, c.ths.set i t'⟩

/-- Run a schedule (a list of thread ids). -/
def exec (steps : Op → List Step) (c : Cfg) (sched : List Nat) : Cfg :=
  sched.foldl (Cfg.sched1 steps) c

/-- The step scheduled by `i`, if any. -/
def Cfg.next? (steps : Op → List Step) (c : Cfg) (i : Nat) : Option Step :=
  match c.ths[i]? with
  | none => none
  | some t => (t.pick steps).map (·.1)

/-- The executed steps of a schedule, each with the state it started from. -/
def trace (steps : Op → List Step) : Cfg → List Nat → List (St × Step)
  | _, [] => []
  | c, i :: r =>
    match c.next? steps i with
    | some x => (c.st, x) :: trace steps (c.sched1 steps i) r
    | none => trace steps (c.sched1 steps i) r

/-- What subscriber `u` has been called with, in order. -/
def proj (u : Nat) (log : List Delivery) : List Notif :=
  (log.filter (fun d => d.1 == u)).map (·.2)

/-- The two-thread interleaving replayed by suite `inject`: the first `k`
    sections of `a`, all of `b`, the rest of `a` (`b` does not run if `a` has no
    more than `k` sections).  Returns the state and whether `b` ran. -/
def St.inject (s : St) (k : Nat) (a b : Op) : St × Bool :=
  if k < a.steps.length then
    (((s.runSteps (a.steps.take k)).runSteps b.steps).runSteps (a.steps.drop k), true)
  else (s.runOp a, false)

end Rx.Conc.SS
