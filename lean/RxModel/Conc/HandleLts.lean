import RxModel.Conc.DLts
/-
  Conc/HandleLts.lean — cancellation against a running delivery: the task handle
  (C19_threads_wait) and the subscriber slot (C02_threads).  Same shape: a guard
  variable `g` under one mutex (cell 0).

  Task handle, src/scheduler.rs
    Remote::poll (249-264):
        let mut info = this.handle_info.rc_deref_mut();       -- acq 0 (guard lives to the end of poll)
        if !info.keep_running { return Poll::Ready(()) }       -- atom 0   run := g
        info.value = Some(ready!(this.future.poll(cx)));       -- atom 1 / atom 2: the task body starts / ends
    TaskHandle::unsubscribe (195-220):
        let mut inner = self.0.rc_deref_mut();                 -- acq 0
        inner.keep_running = false; inner.value.take();        -- atom 3   g := false
      }                                                        -- rel 0, then the call returns: atom 4

  Subscriber slot, src/observer.rs:110-137 + src/subscriber.rs:67-71
    next      `if let Some(o) = &mut *self.rc_deref_mut() { o.next(v) }`   -- acq 0; atom 0; atom 1 … atom 2; rel 0
    complete  `if let Some(o) = self.rc_deref_mut().take() { o.complete() }` -- acq 0; atom 5 (run := g; g := false); atom 1 … atom 2; rel 0
    unsubscribe `self.0.rc_deref_mut().take();`                             -- acq 0; atom 3; rel 0; return: atom 4

  Events in `log`: 0 = callback/task body starts, 1 = it ends, 2 = `unsubscribe()` has returned.
-/
namespace Rx.Conc.Handle

structure D where
  g : Bool            -- keep_running / slot is `Some`
  run : Bool          -- local to the delivering thread: the check said "go"
  log : List Nat
  deriving DecidableEq, Repr

def d0 : D := ⟨true, false, []⟩

def sem (_ : Tid) (a : Act) (d : D) : D :=
  match a with
  | .atom 0 => { d with run := d.g }
  | .atom 5 => { d with run := d.g, g := false }
  | .atom 1 => if d.run then { d with log := d.log ++ [0] } else d
  | .atom 2 => if d.run then { d with log := d.log ++ [1] } else d
  | .atom 3 => { d with g := false }
  | .atom 4 => { d with log := d.log ++ [2] }
  | _ => d

/-- One `Remote::poll` / one `next` through the slot. -/
def poll : List Act := sect 0 [.atom 0, .atom 1, .atom 2]
/-- A terminal through the slot (`take()` then call). -/
def deliverTerm : List Act := sect 0 [.atom 5, .atom 1, .atom 2]
/-- `unsubscribe()`, then the return event. -/
def unsub : List Act := sect 0 [.atom 3] ++ [.atom 4]

/-- C19: the executor polls the task twice (a task that is pending then ready, or
    a repeating task); another thread cancels. -/
def taskSys : List (List Act) := [poll ++ poll, unsub]

/-- C02: the emitter sends two items and a completion; another thread unsubscribes. -/
def slotSys : List (List Act) := [poll ++ poll ++ deliverTerm, unsub]

/-- No start/end event after an `unsub_return` event. -/
def quiet (log : List Nat) : Bool := (log.dropWhile (· ≠ 2)).all (· = 2)

theorem visitedTask : ∀ x ∈ visited sem 2 14 (mkState taskSys) d0, quiet x.2.log = true := by
  decide +kernel

theorem visitedSlot : ∀ x ∈ visited sem 2 19 (mkState slotSys) d0, quiet x.2.log = true := by
  decide +kernel

/-- Control: the same code without the mutex. -/
def unlockedSys : List (List Act) := [[.atom 0, .atom 1, .atom 2], [.atom 3, .atom 4]]

end Rx.Conc.Handle
