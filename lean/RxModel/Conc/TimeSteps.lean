import RxModel.Core.Notif
/-
  Step-level DATA model of ONE scheduler-using operator of the thread-safe flavour over a hot
  `SubjectThreads` source with one probe subscriber, at the granularity suite `coop` schedules the
  real code at: EVERY `MutArc` acquisition is its own step, enabled only while the cell is free.

      debounce d | throttle d edge | delay d | observe_on        (`Kind`)

  Transcribed line by line from
      src/subject.rs        impl_observer_methods! (next / error / complete, load)
      src/subscriber.rs     SubscriberThreads (the "slot": `MutArc<Option<O>>`)
      src/observer.rs       impl_rc_observer!(MutArc)  (guards of `if let` scrutinees live through the body)
      src/ops/debounce.rs   DebounceObserver::{next, error, complete, is_finished}, debounce_task
      src/ops/throttle.rs   ThrottleObserver::{next, error, complete}, throttle_task
      src/ops/delay.rs, src/ops/observe_on.rs   …Observer{,Threads}::{next, error, complete}
      src/scheduler.rs      TaskHandle::unsubscribe, Remote::poll (body polled under the handle mutex),
                            the async block of `schedule` (timer created at the first poll)
      src/subscription.rs   ZipSubscription::unsubscribe (a, then b), MultiSubscriptionThreads
      harness/src/vtime.rs  Exec::{poll, run}, fire, the virtual clock

  A thread is a program counter `Pc` (locals are its arguments) plus the operations it still has to
  run.  `Pc.cell pc` is the cell the step at `pc` acquires (`none`: a lock-free step of the harness /
  executor), `Pc.holds pc` the cells whose guards are alive when the thread stands at `pc` (read off
  the Rust scopes; validated by the held-sets of the lock traces).  `step` is the data effect of the
  step and the next program counter; `Cfg.sched1` runs it if its cell is free and then makes the
  thread hold exactly `holds` of its new program counter.

  `Order.swapped` is the seeded variant C02-3: the subscription returned by the operator is
  `ZipSubscription(handler cell / composite, source)` instead of `(source, …)`.

  Core Lean only (linked into `rxdriver`).
-/
namespace Rx.Conc.TS
open Rx

inductive Edge where
  | leading | trailing | all
  deriving DecidableEq, Repr

def Edge.lead : Edge → Bool
  | .trailing => false
  | _ => true

def Edge.tail : Edge → Bool
  | .leading => false
  | _ => true

inductive Kind where
  | debounce (d : Nat)
  | throttle (d : Nat) (e : Edge)
  | delay (d : Nat)
  | observeOn
  deriving DecidableEq, Repr

/-- the order of the two halves of the subscription the operator returns -/
inductive Order where
  /-- `ZipSubscription::new(source_subscription, handler_cell)` — the code -/
  | original
  /-- `ZipSubscription::new(handler_cell, source_subscription)` — seed C02-3 -/
  | swapped
  /-- the code's order of the halves, but throttle's leading edge as it was before fix a1fa54c: the item is emitted on
      the leading edge whether or not it is still the stored candidate -/
  | leadAlways
  deriving DecidableEq, Repr

structure Conf where
  kind : Kind
  order : Order := .original
  deriving DecidableEq, Repr

abbrev Tid := Nat

/-- The `MutArc` cells of the pipeline. -/
inductive Cell where
  /-- `SubjectThreads::observers` -/
  | obs
  /-- `SubjectThreads::chamber` -/
  | chamber
  /-- `SubscriberThreads<…Observer>` handed out by the subject -/
  | slot
  /-- `trailing_value` (debounce, throttle) -/
  | trail
  /-- `task_handler` (debounce, throttle) -/
  | hcell
  /-- `MultiSubscriptionThreads` (delay, observe_on) -/
  | multi
  /-- `observer: MutArc<Option<O>>`, the downstream slot -/
  | down
  /-- `TaskHandle` / `Remote::handle_info` of task `k` -/
  | handle (k : Nat)
  deriving DecidableEq, Repr

/-- Acquisition order: a thread only ever asks for a cell above everything it holds. -/
def Cell.rank : Cell → Nat
  | .obs => 0
  | .chamber => 1
  | .slot => 2
  | .hcell => 3
  | .multi => 3
  | .handle _ => 4
  | .trail => 5
  | .down => 6

/-- What the probe log holds: deliveries, and the marker "`unsubscribe()` has returned". -/
inductive Item where
  | n (x : Notif)
  | R
  deriving DecidableEq, Repr

/-- What a scheduled task does when it runs. -/
inductive Body where
  /-- `debounce_task` / `throttle_task`: take the trailing value, forward it -/
  | trailing
  /-- `delay_emit_value` / `delay_complete` / `delay_emit_err` -/
  | emit (n : Notif)
  deriving DecidableEq, Repr

structure Task where
  /-- `HandleInfo::keep_running` -/
  keep : Bool := true
  /-- `HandleInfo::value.is_some()` -/
  value : Bool := false
  /-- the future returned `Ready` and left the executor's queue -/
  done : Bool := false
  /-- taken out of the queue by a poll in progress (`Exec::poll`) -/
  running : Bool := false
  /-- `schedule(task, delay)` -/
  dur : Option Nat := none
  /-- the timer the async block created at its first poll -/
  timer : Option Nat := none
  body : Body := .trailing
  deriving DecidableEq, Repr, Inhabited

structure Timer where
  due : Nat
  fired : Bool := false
  /-- the task whose waker is registered -/
  waiter : Option Nat := none
  deriving DecidableEq, Repr

structure St where
  /-- `observers` is `Some` -/
  subjLive : Bool := true
  /-- the subscriber sits in `observers` / in `chamber` -/
  inObs : Bool := false
  inChamber : Bool := false
  /-- the subscriber slot still holds the operator's observer -/
  slotOpen : Bool := false
  trailing : Option Val := none
  hcell : Option Nat := none
  multi : Option (List Nat) := some []
  /-- the downstream slot still holds the probe -/
  downOpen : Bool := false
  /-- the harness still has the subscription value -/
  subHeld : Bool := false
  tasks : List Task := []
  timers : List Timer := []
  /-- the tasks whose wake flag the executor has cleared (a fresh task is ready: not in here) -/
  asleep : List Nat := []
  now : Nat := 0
  log : List Item := []
  /-- who holds which cell -/
  locks : List (Cell × Tid) := []
  deriving DecidableEq, Repr

/-- before `subscribe` -/
def St.init : St := {}

/-- `pipeline.actual_subscribe(probe)`: the operator's cells are created, the subject pushes the slot
    into its chamber (one acquisition of `chamber`, see the driver). -/
def St.subscribe (s : St) : St :=
  { s with inChamber := true, slotOpen := true, downOpen := true, subHeld := true }

/-- the state right after subscription; `live = false`: the subject had terminated before -/
def St.subscribed (live : Bool) : St := { St.init.subscribe with subjLive := live }

def St.free (s : St) (c : Cell) : Bool := !s.locks.any (·.1 == c)

def St.heldBy (s : St) (i : Tid) : List Cell := (s.locks.filter (·.2 == i)).map (·.1)

def St.task (s : St) (k : Nat) : Task := s.tasks.getD k default

def updT (ts : List Task) (k : Nat) (f : Task → Task) : List Task :=
  match ts[k]? with
  | some t => ts.set k (f t)
  | none => ts

def St.upd (s : St) (k : Nat) (f : Task → Task) : St := { s with tasks := updT s.tasks k f }

/-- `TaskHandle<NormalReturn<_>>::unsubscribe`: `keep_running = false; value.take()` -/
def cancel (t : Task) : Task := { t with keep := false, value := false }

/-- the body returned: `info.value = Some(…)` -/
def finished (t : Task) : Task := { t with value := true }

/-- `scheduler.schedule(task, delay)`: `remote_handle` + spawn (appended to the executor's queue) -/
def St.spawn (s : St) (dur : Option Nat) (body : Body) : St × Nat :=
  ({ s with tasks := s.tasks ++ [{ dur := dur, body := body }] }, s.tasks.length)

/-- a call on the downstream slot `MutArc<Option<Probe>>` (impl_rc_observer!) with the cell held -/
def St.deliver (s : St) (n : Notif) : St :=
  if s.downOpen then { s with log := s.log ++ [.n n], downOpen := !n.isTerm } else s

/-- ids of the tasks still in the executor's queue (`Exec::live`) -/
def St.live (s : St) : List Nat :=
  (List.range s.tasks.length).filter fun k => !(s.task k).done && !(s.task k).running

def St.isLive (s : St) (k : Nat) : Bool := k < s.tasks.length && !(s.task k).done && !(s.task k).running

/-- `vtime::due_timers` -/
def St.dueTimers (s : St) : List Nat :=
  (List.range s.timers.length).filter fun j =>
    match s.timers[j]? with
    | some t => !t.fired && t.due ≤ s.now
    | none => false

/-- `vtime::fire`: mark fired, wake the registered waker -/
def St.fireTimer (s : St) (j : Nat) : St :=
  match s.timers[j]? with
  | none => s
  | some t =>
    let s1 := { s with timers := s.timers.set j { t with fired := true, waiter := none } }
    match t.waiter with
    | some k => { s1 with asleep := s1.asleep.filter (· != k) }
    | none => s1

/-- where a poll returns to -/
inductive Ret where
  /-- event `poll j` -/
  | op
  /-- inside `Exec::run`: the rest of the round -/
  | run (ks : List Nat)
  deriving DecidableEq, Repr

/-- Program counters.  Comments: the Rust statement whose acquisition the step is. -/
inductive Pc where
  | fin
  -- lock-free steps (harness, executor) ------------------------------------------------
  /-- `vtime::advance(d)` -/
  | adv (d : Nat)
  /-- `vtime::fire(due_timers()[i])` -/
  | fire (i : Nat)
  /-- `Exec::poll(live()[j])`: clear the wake flag, take the future out of the queue -/
  | p_begin (j : Nat)
  /-- `Exec::run`, top of the loop: fire the due timers, collect the woken live tasks -/
  | run_round
  /-- `Exec::run`: `for k in ready { if is_live(k) { poll(k) } }`, then loop if anything moved -/
  | run_polls (ks : List Nat) (progressed : Bool)
  /-- `Exec::poll`, after `Remote::poll` returned: put a pending future back -/
  | p_fin (k : Nat) (ready : Bool) (ret : Ret)
  /-- harness: `sub.take()` -/
  | u_begin
  /-- harness: `unsubscribe()` has returned, log the marker -/
  | u_end
  -- SubjectThreads::{next, error, complete} ----------------------------------------------
  /-- `load()`: `if let Some(o) = self.observers.rc_deref_mut().as_mut()` -/
  | sj_load (n : Notif)
  /-- `load()`: `o.append(self.chamber.rc_deref_mut()…)` (observers still held) -/
  | sj_chamber (n : Notif)
  /-- `self.observers.rc_deref_mut()` `.as_mut()` (next) / `.take()` (error, complete) -/
  | sj_obs (n : Notif)
  /-- `p_next` → `SubscriberThreads::next` → `MutArc<Option<O>>::next`: `if let Some(o) = &mut *self.rc_deref_mut()` -/
  | sj_slot (v : Val)
  /-- `p_error` / `p_complete` → `MutArc<Option<O>>::{error, complete}`: `if let Some(o) = self.rc_deref_mut().take()`
      (every entry: the three acquisitions of `filter(|o| !o.p_is_closed())` — slot, downstream slot, slot —
      went with `fix: Subject::error/complete hand the terminal to every subscriber`) -/
  | sj_tslot (t : Notif)
  -- DebounceObserver::next ------------------------------------------------------------------
  /-- `*self.trailing_value.rc_deref_mut() = Some(value)` -/
  | db_trail (v : Val)
  /-- `if let Some(handler) = self.task_handler.rc_deref_mut().take()` -/
  | db_hcell
  /-- `handler.unsubscribe()` (handler cell still held), then `self.scheduler.schedule(task, Some(delay))` -/
  | db_cancel (h : Nat)
  /-- `*self.task_handler.rc_deref_mut() = Some(handler)` (debounce and throttle) -/
  | hc_store (k : Nat)
  -- ThrottleObserver::next ------------------------------------------------------------------
  /-- `*self.trailing_value.rc_deref_mut() = Some(value.clone())` -/
  | th_trail (v : Val)
  /-- `self.task_handler.rc_deref().as_ref().map_or(true, …)` -/
  | th_hcell (v : Val)
  /-- `|h| h.is_closed()`: `self.0.rc_deref().value.is_some()` (handler cell still held) -/
  | th_closed (h : Nat) (v : Val)
  /-- leading edge: `let taken = self.trailing_value.rc_deref_mut().take()` -/
  | th_ltrail (v : Val)
  /-- leading edge: `self.observer.next(value)` (iff `taken.is_some() || !self.edge.tailing`), then `schedule` -/
  | th_ldown (v : Val)
  -- {Debounce,Throttle}Observer::complete ---------------------------------------------------
  /-- `if let Some(value) = self.trailing_value.rc_deref_mut().take()` -/
  | tc_trail
  /-- `self.observer.next(value)` (trailing cell still held) -/
  | tc_dnext (v : Val)
  /-- throttle: `self.task_handler.unsubscribe()`: `if let Some(u) = self.rc_deref_mut().take()` -/
  | tc_hcell
  /-- throttle: `u.unsubscribe()` -/
  | tc_cancel (h : Nat)
  /-- `self.observer.complete()` -/
  | tc_down
  -- {Debounce,Throttle,Delay}Observer::error ------------------------------------------------
  /-- `self.observer.error(err)` -/
  | te_down (e : Err)
  /-- throttle: `self.task_handler.unsubscribe()` -/
  | te_hcell
  | te_cancel (h : Nat)
  -- Delay / ObserveOn observers ---------------------------------------------------------------
  /-- `self.subscription.retain()`, then `self.scheduler.schedule(task, …)` -/
  | dl_retain (n : Notif)
  /-- `self.subscription.append(handler)`: `let mut inner = self.0.rc_deref_mut()` -/
  | dl_append (k : Nat)
  /-- `append` on an unsubscribed composite: `drop(inner); v.unsubscribe()` -/
  | dl_late (k : Nat)
  -- Remote::poll --------------------------------------------------------------------------------
  /-- `let mut info = this.handle_info.rc_deref_mut(); if !info.keep_running { return Ready }`, then the
      async block: timer, then the task body — all under this guard -/
  | p_handle (k : Nat) (ret : Ret)
  /-- `debounce_task` / `throttle_task`: `if let Some(v) = value.rc_deref_mut().take()` -/
  | p_trail (k : Nat) (ret : Ret)
  /-- … `observer.next(v)` (trailing cell still held) -/
  | p_down (k : Nat) (v : Val) (ret : Ret)
  /-- `delay_emit_value` / `delay_complete` / `delay_emit_err`: the call on the downstream slot -/
  | p_emit (k : Nat) (n : Notif) (ret : Ret)
  -- ZipSubscription::unsubscribe ------------------------------------------------------------------
  /-- `SubscriberThreads::unsubscribe`: `self.0.rc_deref_mut().take();`  (`first`: it is `self.a`) -/
  | u_slot (first : Bool)
  /-- handler cell: `if let Some(u) = self.rc_deref_mut().take()` -/
  | u_hcell (first : Bool)
  /-- `u.unsubscribe()` (handler cell still held) -/
  | u_cancel (h : Nat) (first : Bool)
  /-- `MultiSubscriptionThreads::unsubscribe`: `let vec = self.0.rc_deref_mut().take();` -/
  | u_multi (first : Bool)
  /-- `vec.into_iter().for_each(|u| … unsub.0.boxed_unsubscribe())` -/
  | u_mc (hs : List Nat) (first : Bool)
  deriving DecidableEq, Repr

/-- The cell the step at this program counter acquires. -/
def Pc.cell : Pc → Option Cell
  | .sj_load _ | .sj_obs _ => some .obs
  | .sj_chamber _ => some .chamber
  | .sj_slot _ | .sj_tslot _ | .u_slot _ => some .slot
  | .tc_dnext _ | .tc_down | .te_down _ | .th_ldown _ | .p_down _ _ _ | .p_emit _ _ _ => some .down
  | .db_trail _ | .th_trail _ | .th_ltrail _ | .tc_trail | .p_trail _ _ => some .trail
  | .db_hcell | .hc_store _ | .th_hcell _ | .tc_hcell | .te_hcell | .u_hcell _ => some .hcell
  | .dl_retain _ | .dl_append _ | .u_multi _ => some .multi
  | .db_cancel h | .th_closed h _ | .tc_cancel h | .te_cancel h | .u_cancel h _ | .dl_late h
  | .p_handle h _ => some (.handle h)
  | .u_mc hs _ => hs.head?.map .handle
  | _ => none

/-- The guards alive while a thread stands at this program counter. -/
def Pc.holds : Pc → List Cell
  | .sj_chamber _ | .sj_slot _ | .sj_tslot _ => [.obs]
  | .db_trail _ | .db_hcell | .hc_store _ | .th_trail _ | .th_hcell _ | .th_ltrail _ | .th_ldown _
  | .tc_trail | .tc_hcell | .tc_down | .te_down _ | .te_hcell | .dl_retain _ | .dl_append _
  | .dl_late _ => [.obs, .slot]
  | .db_cancel _ | .th_closed _ _ | .tc_cancel _ | .te_cancel _ => [.obs, .slot, .hcell]
  | .tc_dnext _ => [.obs, .slot, .trail]
  | .p_trail k _ | .p_emit k _ _ => [.handle k]
  | .p_down k _ _ => [.handle k, .trail]
  | .u_cancel _ _ => [.hcell]
  | _ => []

def St.enabled (s : St) (pc : Pc) : Bool :=
  match pc.cell with
  | none => true
  | some c => s.free c

/-- the other half of the operator's `ZipSubscription` -/
def uSecond (K : Conf) (first : Bool) : Pc :=
  match K.kind with
  | .debounce _ | .throttle _ _ => .u_hcell first
  | .delay _ | .observeOn => .u_multi first

/-- after the half that is not the source subscription -/
def uAfter (first : Bool) : Pc := if first then .u_slot false else .u_end

def Conf.dur (K : Conf) : Option Nat :=
  match K.kind with
  | .debounce d | .throttle d _ | .delay d => some d
  | .observeOn => none

/-- throttle has a trailing edge -/
def Conf.tail (K : Conf) : Bool :=
  match K.kind with
  | .throttle _ e => e.tail
  | _ => false

/-- `…Observer::next` with the slot held -/
def nextEntry (K : Conf) (v : Val) : Pc :=
  match K.kind with
  | .debounce _ => .db_trail v
  | .throttle _ e => if e.tail then .th_trail v else .th_hcell v
  | .delay _ | .observeOn => .dl_retain (.next v)

/-- `…Observer::{error, complete}` with the (emptied) slot held -/
def termEntry (K : Conf) (t : Notif) : Pc :=
  match t, K.kind with
  | .complete, .debounce _ | .complete, .throttle _ _ => .tc_trail
  | .complete, _ => .dl_retain .complete
  | .error e, .observeOn => .dl_retain (.error e)
  | .error e, _ => .te_down e
  | .next _, _ => .fin

def afterTrail (K : Conf) : Pc :=
  match K.kind with
  | .throttle _ _ => .tc_hcell
  | _ => .tc_down

/-- throttle, the window is over -/
def thOver (K : Conf) (s : St) (v : Val) : St × Pc :=
  match K.kind with
  | .throttle _ e =>
    if e.lead then (s, .th_ltrail v)
    else let x := s.spawn K.dur .trailing; (x.1, .hc_store x.2)
  | _ => (s, .fin)

def retPc : Ret → Pc
  | .op => .fin
  | .run ks => .run_polls ks true

/-- `Exec::poll(k)` up to `Remote::poll` -/
def St.beginPoll (s : St) (k : Nat) : St :=
  { s with asleep := k :: s.asleep }.upd k fun x => { x with running := true }

def St.woken (s : St) (k : Nat) : Bool := !s.asleep.contains k

/-- The data effect of the step at `pc` and the next program counter (the cell `pc.cell` is free). -/
def step (K : Conf) (s : St) : Pc → St × Pc
  | .fin => (s, .fin)
  | .adv d => ({ s with now := s.now + d }, .fin)
  | .fire i =>
    match s.dueTimers[i]? with
    | some j => (s.fireTimer j, .fin)
    | none => (s, .fin)
  | .p_begin j =>
    match s.live[j]? with
    | some k => (s.beginPoll k, .p_handle k .op)
    | none => (s, .fin)
  | .run_round =>
    let due := s.dueTimers
    let s1 := due.foldl St.fireTimer s
    (s1, .run_polls (s1.live.filter s1.woken) (!due.isEmpty))
  | .run_polls ks pr =>
    match ks with
    | [] => (s, if pr then .run_round else .fin)
    | k :: r => if s.isLive k then (s.beginPoll k, .p_handle k (.run r)) else (s, .run_polls r pr)
  | .p_fin k ready ret => (s.upd k fun x => { x with running := false, done := ready }, retPc ret)
  | .u_begin =>
    if s.subHeld then
      ({ s with subHeld := false }, match K.order with | .original | .leadAlways => .u_slot true | .swapped => uSecond K true)
    else (s, .fin)
  | .u_end => ({ s with log := s.log ++ [.R] }, .fin)
  -- subject
  | .sj_load n => (s, if s.subjLive then .sj_chamber n else .sj_obs n)
  | .sj_chamber n => ({ s with inObs := s.inObs || s.inChamber, inChamber := false }, .sj_obs n)
  | .sj_obs n =>
    match n with
    | .next v => (s, if s.subjLive && s.inObs then .sj_slot v else .fin)
    | t =>
      if s.subjLive then ({ s with subjLive := false, inObs := false }, if s.inObs then .sj_tslot t else .fin)
      else (s, .fin)
  | .sj_slot v => (s, if s.slotOpen then nextEntry K v else .fin)
  | .sj_tslot t => if s.slotOpen then ({ s with slotOpen := false }, termEntry K t) else (s, .fin)
  -- debounce
  | .db_trail v => ({ s with trailing := some v }, .db_hcell)
  | .db_hcell =>
    match s.hcell with
    | some h => ({ s with hcell := none }, .db_cancel h)
    | none => let x := s.spawn K.dur .trailing; (x.1, .hc_store x.2)
  | .db_cancel h => let x := (s.upd h cancel).spawn K.dur .trailing; (x.1, .hc_store x.2)
  | .hc_store k => ({ s with hcell := some k }, .fin)
  -- throttle
  | .th_trail v => ({ s with trailing := some v }, .th_hcell v)
  | .th_hcell v =>
    match s.hcell with
    | some h => (s, .th_closed h v)
    | none => thOver K s v
  | .th_closed h v => if (s.task h).value then thOver K s v else (s, .fin)
  | .th_ltrail v =>
    -- (after repair of the duplicate of the `all` edge: with a trailing edge the item is emitted on the leading edge only
    --  if it is STILL the candidate — the window task of the window that just ended may have delivered it meanwhile)
    let s' := { s with trailing := none }
    if s.trailing.isSome || !K.tail || K.order == .leadAlways then (s', .th_ldown v)
    else let x := s'.spawn K.dur .trailing; (x.1, .hc_store x.2)
  | .th_ldown v => let x := (s.deliver (.next v)).spawn K.dur .trailing; (x.1, .hc_store x.2)
  -- complete / error of debounce, throttle (and error of delay)
  | .tc_trail =>
    match s.trailing with
    | some v => ({ s with trailing := none }, .tc_dnext v)
    | none => (s, afterTrail K)
  | .tc_dnext v => (s.deliver (.next v), afterTrail K)
  | .tc_hcell =>
    match s.hcell with
    | some h => ({ s with hcell := none }, .tc_cancel h)
    | none => (s, .tc_down)
  | .tc_cancel h => (s.upd h cancel, .tc_down)
  | .tc_down => (s.deliver .complete, .fin)
  | .te_down e =>
    (s.deliver (.error e), match K.kind with | .throttle _ _ => .te_hcell | _ => .fin)
  | .te_hcell =>
    match s.hcell with
    | some h => ({ s with hcell := none }, .te_cancel h)
    | none => (s, .fin)
  | .te_cancel h => (s.upd h cancel, .fin)
  -- delay / observe_on
  | .dl_retain n => let x := s.spawn K.dur (.emit n); (x.1, .dl_append x.2)
  | .dl_append k =>
    match s.multi with
    | some l => ({ s with multi := some (l ++ [k]) }, .fin)
    | none => (s, .dl_late k)
  | .dl_late k => (s.upd k cancel, .fin)
  -- Remote::poll
  | .p_handle k ret =>
    let t := s.task k
    let body : Pc := match t.body with | .trailing => .p_trail k ret | .emit n => .p_emit k n ret
    if !t.keep then (s, .p_fin k true ret)
    else
      match t.dur, t.timer with
      | none, _ => (s, body)
      | some d, none =>
        -- first poll: `new_timer(dur).await` creates the timer, registers the waker, pending
        ((({ s with timers := s.timers ++ [{ due := s.now + d, waiter := some k }] } : St).upd k
            fun x => { x with timer := some s.timers.length }), .p_fin k false ret)
      | some _, some id =>
        match s.timers[id]? with
        | some tm =>
          if tm.fired then (s, body)
          else ({ s with timers := s.timers.set id { tm with waiter := some k } }, .p_fin k false ret)
        | none => (s, .p_fin k false ret)
  | .p_trail k ret =>
    match s.trailing with
    | some v => ({ s with trailing := none }, .p_down k v ret)
    | none => (s.upd k finished, .p_fin k true ret)
  | .p_down k v ret => ((s.deliver (.next v)).upd k finished, .p_fin k true ret)
  | .p_emit k n ret => ((s.deliver n).upd k finished, .p_fin k true ret)
  -- unsubscribe
  | .u_slot first => ({ s with slotOpen := false }, if first then uSecond K false else .u_end)
  | .u_hcell first =>
    match s.hcell with
    | some h => ({ s with hcell := none }, .u_cancel h first)
    | none => (s, uAfter first)
  | .u_cancel h first => (s.upd h cancel, uAfter first)
  | .u_multi first =>
    ({ s with multi := none },
      match s.multi with
      | some (h :: r) => .u_mc (h :: r) first
      | _ => uAfter first)
  | .u_mc hs first =>
    match hs with
    | [] => (s, uAfter first)
    | [h] => (s.upd h cancel, uAfter first)
    | h :: r => (s.upd h cancel, .u_mc r first)

/-- Operations of a thread (events of suite `coop`). -/
inductive Op where
  /-- `subject.next(v)` / `.error(e)` / `.complete()` -/
  | emit (n : Notif)
  /-- `sub.take().map(|u| u.unsubscribe())` -/
  | unsub
  /-- poll the j-th live task once -/
  | poll (j : Nat)
  /-- `Exec::run` -/
  | run
  | adv (d : Nat)
  | fire (i : Nat)
  deriving DecidableEq, Repr

def Op.entry : Op → Pc
  | .emit n => .sj_load n
  | .unsub => .u_begin
  | .poll j => .p_begin j
  | .run => .run_round
  | .adv d => .adv d
  | .fire i => .fire i

structure Thread where
  pc : Pc
  rest : List Op
  deriving DecidableEq, Repr

/-- a thread that has finished an operation starts the next one -/
def Thread.norm (t : Thread) : Thread :=
  match t.pc, t.rest with
  | .fin, op :: r => ⟨op.entry, r⟩
  | _, _ => t

def Thread.mk' (ops : List Op) : Thread := Thread.norm ⟨.fin, ops⟩

structure Cfg where
  st : St
  ths : List Thread
  deriving DecidableEq, Repr

def Cfg.init (s : St) (progs : List (List Op)) : Cfg := ⟨s, progs.map Thread.mk'⟩

/-- thread `i` now holds exactly `cells` -/
def St.setHeld (s : St) (i : Tid) (cells : List Cell) : St :=
  { s with locks := s.locks.filter (·.2 != i) ++ cells.map (·, i) }

/-- Thread `i` runs one step — if it exists, has not finished and the cell it asks for is free. -/
def Cfg.sched1 (K : Conf) (c : Cfg) (i : Nat) : Cfg :=
  match c.ths[i]? with
  | none => c
  | some t =>
    if c.st.enabled t.pc then
      let x := step K c.st t.pc
      let t' := Thread.norm ⟨x.2, t.rest⟩
      ⟨x.1.setHeld i t'.pc.holds, c.ths.set i t'⟩
    else c

/-- Run a schedule (a list of thread ids; a blocked or finished thread that is scheduled stutters). -/
def exec (K : Conf) (c : Cfg) (sched : List Nat) : Cfg := sched.foldl (Cfg.sched1 K) c

def Cfg.pcOf (c : Cfg) (i : Nat) : Pc :=
  match c.ths[i]? with
  | some t => t.pc
  | none => .fin

def Cfg.finished (c : Cfg) (i : Nat) : Bool :=
  match c.pcOf i with
  | .fin => true
  | _ => false

/-- thread `i` is at a yield point whose cell is free, or at a lock-free step -/
def Cfg.canRun (c : Cfg) (i : Nat) : Bool := !c.finished i && c.st.enabled (c.pcOf i)

def Cfg.lockFree (c : Cfg) (i : Nat) : Bool := !c.finished i && (c.pcOf i).cell.isNone

/-! ### the policy of suite `coop` -/

/-- thread `i` runs on through its lock-free steps (up to its next yield point or its end) -/
def drain (K : Conf) : Nat → Cfg → Nat → Cfg × List Nat
  | 0, c, _ => (c, [])
  | f + 1, c, i =>
    if c.lockFree i then
      let x := drain K f (c.sched1 K i) i
      (x.1, i :: x.2)
    else (c, [])

structure ParOut where
  cfg : Cfg
  /-- the schedule of `exec` that was run -/
  fine : List Nat
  /-- one thread id per slice: a yield point passed plus the lock-free steps behind it -/
  slices : List Nat
  deadlock : Bool
  deriving Repr

/-- `arr`: the number of yield points thread 0 (= A) has arrived at. -/
def parLoop (K : Conf) (k : Nat) : Nat → Cfg → Nat → ParOut
  | 0, c, _ => ⟨c, [], [], false⟩
  | f + 1, c, arr =>
    if c.finished 0 && c.finished 1 then ⟨c, [], [], false⟩
    else
      let w? : Option Nat :=
        if arr > k then (if c.canRun 1 then some 1 else if c.canRun 0 then some 0 else none)
        else (if c.canRun 0 then some 0 else if c.canRun 1 then some 1 else none)
      match w? with
      | none => ⟨c, [], [], true⟩
      | some w =>
        let x := drain K (f + 1) (c.sched1 K w) w
        let arr' := if w == 0 && !x.1.finished 0 then arr + 1 else arr
        let r := parLoop K k f x.1 arr'
        ⟨r.cfg, w :: x.2 ++ r.fine, w :: r.slices, r.deadlock⟩

/-- `ev par k (A) (B)` with A = thread 0, B = thread 1: each runs alone to its first yield point, then
    A has priority until it has arrived at its (k+1)-th yield point, from then on B has. -/
def par (K : Conf) (k fuel : Nat) (c : Cfg) : ParOut :=
  let a := drain K fuel c 0
  let b := drain K fuel a.1 1
  let r := parLoop K k fuel b.1 (if b.1.finished 0 then 0 else 1)
  ⟨r.cfg, a.2 ++ b.2 ++ r.fine, r.slices, r.deadlock⟩

/-- no delivery behind the marker `R` -/
def quietAfterR : List Item → Bool
  | [] => true
  | .R :: r => r.all fun x => x == .R
  | .n _ :: r => quietAfterR r

end Rx.Conc.TS
