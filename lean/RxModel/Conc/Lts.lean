/-
  Conc/Lts.lean — the generic lock-level labelled transition system (DESIGN §3.3).

  What is modelled.  The thread-safe flavour of rxRust keeps every shared state in
  a `MutArc<T> = Arc<Mutex<T>>` (src/rc.rs:32,68-95).  Every `rc_deref()` /
  `rc_deref_mut()` scope is a critical section `acq c … rel c`; a call to the
  downstream observer made while the guard is alive is an event *inside* that
  section.  A thread is a straight-line remaining program `List Act`; the state
  is the holder map of the cells plus the programs of all threads.

  Cells are natural numbers and the number *is* the rank.

  Nothing here bounds the number of threads, the length of the programs or the
  number of preemptions.  The only finiteness that deadlock-freedom needs is
  "finitely many cells are held" (`∃ B, every held cell < B`), which is part of
  `Inv`, holds trivially initially (nothing held) and is preserved by every step.
  It is implied by "finitely many threads", but does not need it.

  Core Lean only.
-/
namespace Rx.Conc

abbrev Cell := Nat
abbrev Tid := Nat

/-- Actions of a thread.  `cb sub n`: the callback of subscriber `sub` for
    notification number `n`; `atom a`: any other single step (atomics, data
    updates under a lock, markers). -/
inductive Act where
  | acq (c : Cell)
  | rel (c : Cell)
  | cb (sub : Nat) (n : Nat)
  | atom (a : Nat)
  deriving DecidableEq, Repr

/-- Function update. -/
def upd {α : Type} {β : Type} [DecidableEq α] (f : α → β) (a : α) (b : β) : α → β :=
  fun x => if x = a then b else f x

@[simp] theorem upd_same {α β : Type} [DecidableEq α] (f : α → β) (a : α) (b : β) :
    upd f a b a = b := by simp [upd]

@[simp] theorem upd_other {α β : Type} [DecidableEq α] (f : α → β) {a x : α} (b : β)
    (h : x ≠ a) : upd f a b x = f x := by simp [upd, h]

structure State where
  holder : Cell → Option Tid
  prog : Tid → List Act

/-- `Step s t s'`: thread `t` executes the head action of its program.
    `acq c` is enabled iff `c` is free; `rel c` frees `c` (and is only ever
    executed by the holder: a `MutexGuard` is dropped by its owner). -/
inductive Step : State → Tid → State → Prop where
  | acq {s : State} {t : Tid} {c : Cell} {p : List Act} :
      s.prog t = .acq c :: p → s.holder c = none →
      Step s t ⟨upd s.holder c (some t), upd s.prog t p⟩
  | rel {s : State} {t : Tid} {c : Cell} {p : List Act} :
      s.prog t = .rel c :: p → s.holder c = some t →
      Step s t ⟨upd s.holder c none, upd s.prog t p⟩
  | cb {s : State} {t : Tid} {u n : Nat} {p : List Act} :
      s.prog t = .cb u n :: p → Step s t ⟨s.holder, upd s.prog t p⟩
  | atom {s : State} {t : Tid} {a : Nat} {p : List Act} :
      s.prog t = .atom a :: p → Step s t ⟨s.holder, upd s.prog t p⟩

/-- Reachability (any number of steps of any threads, any schedule). -/
inductive Reach : State → State → Prop where
  | refl {s : State} : Reach s s
  | step {s s1 s2 : State} {t : Tid} : Reach s s1 → Step s1 t s2 → Reach s s2

/-- Nothing is held. -/
def Init (s : State) : Prop := ∀ c, s.holder c = none

/-! ## The rank discipline -/

/-- `Ranked held prog`: with the stack `held` of cells currently held (innermost
    first), the program acquires only cells larger than everything held,
    releases are properly nested, and at the end nothing is held. -/
def Ranked : List Cell → List Act → Prop
  | hs, [] => hs = []
  | hs, .acq c :: p => (∀ h ∈ hs, h < c) ∧ Ranked (c :: hs) p
  | hs, .rel c :: p => hs.head? = some c ∧ Ranked hs.tail p
  | hs, .cb _ _ :: p => Ranked hs p
  | hs, .atom _ :: p => Ranked hs p

instance Ranked.decide : (hs : List Cell) → (p : List Act) → Decidable (Ranked hs p)
  | hs, [] => inferInstanceAs (Decidable (hs = []))
  | hs, .acq c :: p =>
      have := Ranked.decide (c :: hs) p
      inferInstanceAs (Decidable ((∀ h ∈ hs, h < c) ∧ Ranked (c :: hs) p))
  | hs, .rel c :: p =>
      have := Ranked.decide hs.tail p
      inferInstanceAs (Decidable (hs.head? = some c ∧ Ranked hs.tail p))
  | hs, .cb _ _ :: p => Ranked.decide hs p
  | hs, .atom _ :: p => Ranked.decide hs p

/-- `Guarded slot held prog`: releases are properly nested and every callback
    `cb sub _` occurs while `slot sub` is held, i.e. between `acq (slot sub)`
    and the matching `rel`. -/
def Guarded (slot : Nat → Cell) : List Cell → List Act → Prop
  | _, [] => True
  | hs, .acq c :: p => Guarded slot (c :: hs) p
  | hs, .rel c :: p => hs.head? = some c ∧ Guarded slot hs.tail p
  | hs, .cb u _ :: p => slot u ∈ hs ∧ Guarded slot hs p
  | hs, .atom _ :: p => Guarded slot hs p

instance Guarded.decide (slot : Nat → Cell) :
    (hs : List Cell) → (p : List Act) → Decidable (Guarded slot hs p)
  | _, [] => inferInstanceAs (Decidable True)
  | hs, .acq c :: p => Guarded.decide slot (c :: hs) p
  | hs, .rel c :: p =>
      have := Guarded.decide slot hs.tail p
      inferInstanceAs (Decidable (hs.head? = some c ∧ Guarded slot hs.tail p))
  | hs, .cb u _ :: p =>
      have := Guarded.decide slot hs p
      inferInstanceAs (Decidable (slot u ∈ hs ∧ Guarded slot hs p))
  | hs, .atom _ :: p => Guarded.decide slot hs p

/-- A *stack discipline*: a predicate on (held stack, remaining program) that is
    carried along by the execution of the head action.  `Ranked`, `Guarded slot`
    and conjunctions of disciplines are disciplines. -/
structure Disc (P : List Cell → List Act → Prop) : Prop where
  acq : ∀ {hs c p}, P hs (.acq c :: p) → P (c :: hs) p
  rel : ∀ {hs c p}, P hs (.rel c :: p) → hs.head? = some c ∧ P hs.tail p
  cb : ∀ {hs u n p}, P hs (.cb u n :: p) → P hs p
  atom : ∀ {hs a p}, P hs (.atom a :: p) → P hs p

theorem Ranked.disc : Disc Ranked where
  acq h := h.2
  rel h := h
  cb h := h
  atom h := h

theorem Guarded.disc (slot : Nat → Cell) : Disc (Guarded slot) where
  acq h := h
  rel h := h
  cb h := h.2
  atom h := h

theorem Disc.and {P Q : List Cell → List Act → Prop} (hP : Disc P) (hQ : Disc Q) :
    Disc (fun hs p => P hs p ∧ Q hs p) where
  acq h := ⟨hP.acq h.1, hQ.acq h.2⟩
  rel h := ⟨(hP.rel h.1).1, (hP.rel h.1).2, (hQ.rel h.2).2⟩
  cb h := ⟨hP.cb h.1, hQ.cb h.2⟩
  atom h := ⟨hP.atom h.1, hQ.atom h.2⟩

/-- The held stacks after thread `t` has executed its head action. -/
def nextHeld (s : State) (t : Tid) (held : Tid → List Cell) : Tid → List Cell :=
  match s.prog t with
  | .acq c :: _ => upd held t (c :: held t)
  | .rel _ :: _ => upd held t (held t).tail
  | _ => held

/-- The invariant relative to a discipline `P` and an explicit assignment of
    held stacks: the stacks are exactly what the holder map says (`cons`), have
    no repetition, and every thread's remaining program satisfies `P` w.r.t.
    exactly the cells it holds. -/
structure HInv (P : List Cell → List Act → Prop) (s : State) (held : Tid → List Cell) :
    Prop where
  cons : ∀ t c, c ∈ held t ↔ s.holder c = some t
  nodup : ∀ t, (held t).Nodup
  disc : ∀ t, P (held t) (s.prog t)

theorem HInv.init {P : List Cell → List Act → Prop} {s : State} (h0 : Init s)
    (hp : ∀ t, P [] (s.prog t)) : HInv P s (fun _ => []) where
  cons t c := by simp [h0 c]
  nodup _ := List.nodup_nil
  disc := hp

theorem HInv.step {P : List Cell → List Act → Prop} (hP : Disc P) {s s' : State}
    {t : Tid} {held : Tid → List Cell} (h : HInv P s held) (st : Step s t s') :
    HInv P s' (nextHeld s t held) := by
  cases st with
  | @acq c p hp hfree =>
    have hnot : ∀ t', c ∉ held t' := by
      intro t' hc
      have := (h.cons t' c).1 hc
      rw [hfree] at this; cases this
    simp only [nextHeld, hp]
    refine ⟨?_, ?_, ?_⟩
    · intro t' c'
      by_cases ht : t' = t
      · subst ht
        by_cases hc : c' = c
        · subst hc; simp
        · simp [hc, h.cons]
      · by_cases hc : c' = c
        · subst hc
          simp [ht, hnot t']
          intro e; exact ht e.symm
        · simp [ht, hc, h.cons]
    · intro t'
      by_cases ht : t' = t
      · subst ht; simp [hnot t', h.nodup t']
      · simp [ht, h.nodup t']
    · intro t'
      by_cases ht : t' = t
      · subst ht
        have := h.disc t'
        rw [hp] at this
        simpa using hP.acq this
      · simpa [ht] using h.disc t'
  | @rel c p hp hheld =>
    have hd := h.disc t
    rw [hp] at hd
    obtain ⟨hhead, hd'⟩ := hP.rel hd
    obtain ⟨tl, htl⟩ : ∃ tl, held t = c :: tl := by
      cases hh : held t with
      | nil => rw [hh] at hhead; cases hhead
      | cons x tl => rw [hh] at hhead; simp at hhead; exact ⟨tl, by rw [hhead]⟩
    have hnd := h.nodup t
    rw [htl] at hnd
    have hctl : c ∉ tl := (List.nodup_cons.1 hnd).1
    simp only [nextHeld, hp]
    refine ⟨?_, ?_, ?_⟩
    · intro t' c'
      by_cases ht : t' = t
      · subst ht
        by_cases hc : c' = c
        · subst hc; simp [htl, hctl]
        · have := h.cons t' c'
          rw [htl] at this
          simp [hc] at this
          simp [hc, htl, this]
      · by_cases hc : c' = c
        · subst hc
          have := h.cons t' c'
          rw [hheld] at this
          simp [ht, this]
          intro e; exact ht e.symm
        · simp [ht, hc, h.cons]
    · intro t'
      by_cases ht : t' = t
      · subst ht; simp [htl, (List.nodup_cons.1 hnd).2]
      · simp [ht, h.nodup t']
    · intro t'
      by_cases ht : t' = t
      · subst ht; simpa using hd'
      · simpa [ht] using h.disc t'
  | @cb u n p hp =>
    simp only [nextHeld, hp]
    refine ⟨h.cons, h.nodup, ?_⟩
    intro t'
    by_cases ht : t' = t
    · subst ht
      have := h.disc t'
      rw [hp] at this
      simpa using hP.cb this
    · simpa [ht] using h.disc t'
  | @atom a p hp =>
    simp only [nextHeld, hp]
    refine ⟨h.cons, h.nodup, ?_⟩
    intro t'
    by_cases ht : t' = t
    · subst ht
      have := h.disc t'
      rw [hp] at this
      simpa using hP.atom this
    · simpa [ht] using h.disc t'

/-- The discipline invariant with the stacks hidden. -/
def DInv (P : List Cell → List Act → Prop) (s : State) : Prop := ∃ held, HInv P s held

theorem DInv.init {P : List Cell → List Act → Prop} {s : State} (h0 : Init s)
    (hp : ∀ t, P [] (s.prog t)) : DInv P s := ⟨_, HInv.init h0 hp⟩

theorem DInv.step {P : List Cell → List Act → Prop} (hP : Disc P) {s s' : State} {t : Tid}
    (h : DInv P s) (st : Step s t s') : DInv P s' :=
  let ⟨_, hh⟩ := h; ⟨_, hh.step hP st⟩

theorem DInv.reach {P : List Cell → List Act → Prop} (hP : Disc P) {s s' : State}
    (h : DInv P s) (r : Reach s s') : DInv P s' := by
  induction r with
  | refl => exact h
  | step _ st ih => exact ih.step hP st

/-! ## `Inv`, `ranked_invariant` -/

/-- Finitely many cells are held. -/
def HeldBounded (s : State) : Prop := ∃ B, ∀ c t, s.holder c = some t → c < B

theorem HeldBounded.step {s s' : State} {t : Tid} (h : HeldBounded s) (st : Step s t s') :
    HeldBounded s' := by
  obtain ⟨B, hB⟩ := h
  cases st with
  | @acq c p hp hfree =>
    refine ⟨max B (c + 1), ?_⟩
    intro c' t' hc'
    by_cases hc : c' = c
    · subst hc; exact Nat.lt_of_lt_of_le (Nat.lt_succ_self _) (Nat.le_max_right _ _)
    · simp [hc] at hc'
      exact Nat.lt_of_lt_of_le (hB c' t' hc') (Nat.le_max_left _ _)
  | @rel c p hp hheld =>
    refine ⟨B, ?_⟩
    intro c' t' hc'
    by_cases hc : c' = c
    · subst hc; simp at hc'
    · simp [hc] at hc'
      exact hB c' t' hc'
  | cb hp => exact ⟨B, hB⟩
  | atom hp => exact ⟨B, hB⟩

/-- The invariant: every thread's remaining program is `Ranked` w.r.t. exactly
    the cells it holds, the holder map is consistent with those stacks, and
    finitely many cells are held. -/
def Inv (s : State) : Prop := DInv Ranked s ∧ HeldBounded s

theorem Inv.init {s : State} (h0 : Init s) (hp : ∀ t, Ranked [] (s.prog t)) : Inv s :=
  ⟨DInv.init h0 hp, 0, fun c t h => by rw [h0 c] at h; cases h⟩

/-- **`Inv` is preserved by every step of every thread.** -/
theorem ranked_invariant {s s' : State} {t : Tid} (h : Inv s) (st : Step s t s') : Inv s' :=
  ⟨h.1.step Ranked.disc st, h.2.step st⟩

theorem Inv.reach {s s' : State} (h : Inv s) (r : Reach s s') : Inv s' := by
  induction r with
  | refl => exact h
  | step _ st ih => exact ranked_invariant ih st

/-! ## Mutual exclusion -/

/-- `Owes c p`: in the remaining program `p` the first lock action on cell `c`
    is a release — the thread has entered a section of `c` and has not left
    it yet. -/
def Owes (c : Cell) : List Act → Prop
  | [] => False
  | .acq c' :: p => c' ≠ c ∧ Owes c p
  | .rel c' :: p => c' = c ∨ Owes c p
  | .cb _ _ :: p => Owes c p
  | .atom _ :: p => Owes c p

/-- Thread `t` is inside a critical section of cell `c`. -/
def InSection (s : State) (t : Tid) (c : Cell) : Prop := Owes c (s.prog t)

theorem owes_mem_held {P : List Cell → List Act → Prop} (hP : Disc P) {c : Cell} :
    ∀ {p : List Act} {hs : List Cell}, P hs p → Owes c p → c ∈ hs
  | [], _, _, ho => ho.elim
  | .acq c' :: p, hs, h, ho => by
    have := owes_mem_held hP (hP.acq h) ho.2
    rcases List.mem_cons.1 this with e | m
    · exact (ho.1 e.symm).elim
    · exact m
  | .rel c' :: p, hs, h, ho => by
    obtain ⟨hh, ht⟩ := hP.rel h
    rcases ho with e | ho
    · subst e
      cases hs with
      | nil => cases hh
      | cons x tl => simp at hh; subst hh; exact List.mem_cons_self
    · exact List.mem_of_mem_tail (owes_mem_held hP ht ho)
  | .cb _ _ :: p, _, h, ho => owes_mem_held hP (hP.cb h) ho
  | .atom _ :: p, _, h, ho => owes_mem_held hP (hP.atom h) ho

/-- For ranked programs the syntactic notion coincides with holding. -/
theorem ranked_owes_iff {c : Cell} :
    ∀ {p : List Act} {hs : List Cell}, Ranked hs p → (Owes c p ↔ c ∈ hs) := by
  intro p hs h
  refine ⟨owes_mem_held Ranked.disc h, ?_⟩
  induction p generalizing hs with
  | nil => intro hc; rw [h] at hc; cases hc
  | cons a p ih =>
    intro hc
    cases a with
    | acq c' =>
      refine ⟨?_, ih h.2 (List.mem_cons_of_mem _ hc)⟩
      intro e; subst e; exact Nat.lt_irrefl _ (h.1 _ hc)
    | rel c' =>
      cases hs with
      | nil => cases hc
      | cons x tl =>
        have hx : x = c' := by simpa using h.1
        subst hx
        rcases List.mem_cons.1 hc with e | m
        · exact Or.inl e.symm
        · exact Or.inr (ih h.2 m)
    | cb _ _ => exact ih h hc
    | atom _ => exact ih h hc

/-- A thread inside a section of `c` is the holder of `c`. -/
theorem section_holder {P : List Cell → List Act → Prop} (hP : Disc P) {s : State}
    (h : DInv P s) {t : Tid} {c : Cell} (hin : InSection s t c) : s.holder c = some t :=
  let ⟨_, hh⟩ := h
  (hh.cons t c).1 (owes_mem_held hP (hh.disc t) hin)

/-- **Mutual exclusion.**  In every state reachable from an initial state whose
    programs are `Ranked []`, a cell has at most one holder (`holder` is a
    function), every thread inside a section of `c` *is* that holder, hence two
    threads are never both inside sections of the same cell. -/
theorem lts_mutex {s0 s : State} (h0 : Init s0) (hp : ∀ t, Ranked [] (s0.prog t))
    (r : Reach s0 s) {t1 t2 : Tid} {c : Cell}
    (h1 : InSection s t1 c) (h2 : InSection s t2 c) : t1 = t2 := by
  have hi : DInv Ranked s := (DInv.init h0 hp).reach Ranked.disc r
  have e1 := section_holder Ranked.disc hi h1
  have e2 := section_holder Ranked.disc hi h2
  rw [e1] at e2; exact Option.some.inj e2

/-- The same from the invariant (no reference to an initial state). -/
theorem lts_mutex_inv {s : State} (h : Inv s) {t1 t2 : Tid} {c : Cell}
    (h1 : InSection s t1 c) (h2 : InSection s t2 c) : t1 = t2 := by
  have e1 := section_holder Ranked.disc h.1 h1
  have e2 := section_holder Ranked.disc h.1 h2
  rw [e1] at e2; exact Option.some.inj e2

/-- Under `Inv`, being inside a section and being the holder are the same. -/
theorem holder_iff_section {s : State} (h : Inv s) {t : Tid} {c : Cell} :
    s.holder c = some t ↔ InSection s t c := by
  obtain ⟨⟨_, hh⟩, _⟩ := h
  rw [← hh.cons t c]
  exact (ranked_owes_iff (hh.disc t)).symm

/-! ## Deadlock freedom -/

private theorem progress_aux {s : State} {held : Tid → List Cell} (hh : HInv Ranked s held)
    {B : Nat} (hB : ∀ c t, s.holder c = some t → c < B) :
    ∀ (d : Nat) (t : Tid) (c : Cell) (p : List Act),
      s.prog t = .acq c :: p → B - c ≤ d → ∃ t' s', Step s t' s' := by
  intro d
  induction d with
  | zero =>
    intro t c p hp hd
    cases hc : s.holder c with
    | none => exact ⟨t, _, Step.acq hp hc⟩
    | some t1 =>
      have h1 := Nat.sub_pos_of_lt (hB c t1 hc)
      rw [Nat.le_zero.1 hd] at h1
      exact absurd h1 (Nat.lt_irrefl 0)
  | succ d ih =>
    intro t c p hp hd
    cases hc : s.holder c with
    | none => exact ⟨t, _, Step.acq hp hc⟩
    | some t1 =>
      have hcB := hB c t1 hc
      have hmem : c ∈ held t1 := (hh.cons t1 c).2 hc
      have hr := hh.disc t1
      cases hp1 : s.prog t1 with
      | nil =>
        rw [hp1] at hr
        have : held t1 = [] := hr
        rw [this] at hmem; cases hmem
      | cons a p1 =>
        rw [hp1] at hr
        cases a with
        | acq c1 =>
          have hlt : c < c1 := hr.1 c hmem
          exact ih t1 c1 p1 hp1
            (Nat.le_of_lt_succ (Nat.lt_of_lt_of_le (Nat.sub_lt_sub_left hcB hlt) hd))
        | rel c1 =>
          have hhd : (held t1).head? = some c1 := hr.1
          have : c1 ∈ held t1 := by
            cases hl : held t1 with
            | nil => rw [hl] at hhd; cases hhd
            | cons x tl => rw [hl] at hhd; simp at hhd; subst hhd; exact List.mem_cons_self
          exact ⟨t1, _, Step.rel hp1 ((hh.cons t1 c1).1 this)⟩
        | cb u n => exact ⟨t1, _, Step.cb hp1⟩
        | atom a => exact ⟨t1, _, Step.atom hp1⟩

/-- **Rank ⇒ no deadlock.**  In every state satisfying `Inv` in which some
    thread is unfinished, some thread can step.  No bound on the number of
    threads, on program lengths or on preemptions. -/
theorem rank_deadlock_free {s : State} (h : Inv s) (hu : ∃ t, s.prog t ≠ []) :
    ∃ t s', Step s t s' := by
  obtain ⟨⟨held, hh⟩, B, hB⟩ := h
  obtain ⟨t, ht⟩ := hu
  cases hp : s.prog t with
  | nil => exact (ht hp).elim
  | cons a p =>
    cases a with
    | acq c => exact progress_aux hh hB (B - c) t c p hp (Nat.le_refl _)
    | rel c =>
      have hr := hh.disc t
      rw [hp] at hr
      have hhd : (held t).head? = some c := hr.1
      have : c ∈ held t := by
        cases hl : held t with
        | nil => rw [hl] at hhd; cases hhd
        | cons x tl => rw [hl] at hhd; simp at hhd; subst hhd; exact List.mem_cons_self
      exact ⟨t, _, Step.rel hp ((hh.cons t c).1 this)⟩
    | cb u n => exact ⟨t, _, Step.cb hp⟩
    | atom a => exact ⟨t, _, Step.atom hp⟩

/-- A thread that is *blocked* (cannot step although unfinished) waits for a cell
    held by another thread.  Used to phrase deadlock-freedom per thread. -/
def Blocked (s : State) (t : Tid) : Prop := s.prog t ≠ [] ∧ ¬ ∃ s', Step s t s'

/-- Under `Inv` a blocked thread is waiting to acquire a cell held by some thread. -/
theorem blocked_waits {s : State} (h : Inv s) {t : Tid} (hb : Blocked s t) :
    ∃ c p t1, s.prog t = .acq c :: p ∧ s.holder c = some t1 := by
  obtain ⟨⟨held, hh⟩, _⟩ := h
  obtain ⟨hne, hns⟩ := hb
  cases hp : s.prog t with
  | nil => exact (hne hp).elim
  | cons a p =>
    cases a with
    | acq c =>
      cases hc : s.holder c with
      | none => exact (hns ⟨_, Step.acq hp hc⟩).elim
      | some t1 => exact ⟨c, p, t1, rfl, hc⟩
    | rel c =>
      have hr := hh.disc t
      rw [hp] at hr
      have hhd : (held t).head? = some c := hr.1
      have : c ∈ held t := by
        cases hl : held t with
        | nil => rw [hl] at hhd; cases hhd
        | cons x tl => rw [hl] at hhd; simp at hhd; subst hhd; exact List.mem_cons_self
      exact (hns ⟨_, Step.rel hp ((hh.cons t c).1 this)⟩).elim
    | cb u n => exact (hns ⟨_, Step.cb hp⟩).elim
    | atom a => exact (hns ⟨_, Step.atom hp⟩).elim

/-! ## Serialised callbacks -/

/-- Thread `t` is *inside a callback of subscriber `u`*: the callback action is
    at the head of its program.  (A callback is entered when the thread reaches
    the `cb` action and returns with the step that consumes it; whatever the
    callback body does happens while the state has this shape.) -/
def InCb (s : State) (t : Tid) (u : Nat) : Prop := ∃ n p, s.prog t = .cb u n :: p

/-- A thread inside a callback of `u` holds `slot u`. -/
theorem incb_holder {slot : Nat → Cell} {s : State} (h : DInv (Guarded slot) s) {t : Tid}
    {u : Nat} (hin : InCb s t u) : s.holder (slot u) = some t := by
  obtain ⟨held, hh⟩ := h
  obtain ⟨n, p, hp⟩ := hin
  have := hh.disc t
  rw [hp] at this
  exact (hh.cons t (slot u)).1 this.1

/-- **Callbacks are serialised.**  If in every program every `cb sub _` occurs
    between `acq (slot sub)` and the matching `rel` (`Guarded slot []`), then in
    no reachable state are two threads inside a callback of the same subscriber. -/
theorem callbacks_serialised {slot : Nat → Cell} {s0 s : State} (h0 : Init s0)
    (hg : ∀ t, Guarded slot [] (s0.prog t)) (r : Reach s0 s) {t1 t2 : Tid} {u : Nat}
    (h1 : InCb s t1 u) (h2 : InCb s t2 u) : t1 = t2 := by
  have hi : DInv (Guarded slot) s := (DInv.init h0 hg).reach (Guarded.disc slot) r
  have e1 := incb_holder hi h1
  have e2 := incb_holder hi h2
  rw [e1] at e2; exact Option.some.inj e2

/-- Slightly more: a callback of `u` never runs while another thread is inside
    *any* section of `slot u` (e.g. `Subscriber::unsubscribe`, which takes the
    slot to empty it). -/
theorem callback_excludes_section {slot : Nat → Cell} {s0 s : State} (h0 : Init s0)
    (hg : ∀ t, Guarded slot [] (s0.prog t)) (r : Reach s0 s) {t1 t2 : Tid} {u : Nat}
    (h1 : InCb s t1 u) (h2 : InSection s t2 (slot u)) : t1 = t2 := by
  have hi : DInv (Guarded slot) s := (DInv.init h0 hg).reach (Guarded.disc slot) r
  have e1 := incb_holder hi h1
  have e2 := section_holder (Guarded.disc slot) hi h2
  rw [e1] at e2; exact Option.some.inj e2

/-! ## Program combinators and closure lemmas (used by `Footprint`) -/

/-- A critical section. -/
def sect (c : Cell) (body : List Act) : List Act := .acq c :: body ++ [.rel c]

/-- `Ranked` composes sequentially: a program that returns to the stack `hs`
    followed by a program ranked from `hs`.  `RankedTo hs p`: `p` is properly
    nested and rank-increasing starting from stack `hs` and ends with stack `hs`. -/
def RankedK : List Cell → List Act → List Cell → Prop
  | hs, [], k => hs = k
  | hs, .acq c :: p, k => (∀ h ∈ hs, h < c) ∧ RankedK (c :: hs) p k
  | hs, .rel c :: p, k => hs.head? = some c ∧ RankedK hs.tail p k
  | hs, .cb _ _ :: p, k => RankedK hs p k
  | hs, .atom _ :: p, k => RankedK hs p k

theorem rankedK_nil_iff {hs : List Cell} {p : List Act} : RankedK hs p [] ↔ Ranked hs p := by
  induction p generalizing hs with
  | nil => exact Iff.rfl
  | cons a p ih =>
    cases a with
    | acq c => exact and_congr Iff.rfl ih
    | rel c => exact and_congr Iff.rfl ih
    | cb _ _ => exact ih
    | atom _ => exact ih

theorem RankedK.append {p q : List Act} {hs k k' : List Cell} :
    RankedK hs p k → RankedK k q k' → RankedK hs (p ++ q) k' := by
  induction p generalizing hs with
  | nil => intro h1 h2; cases h1; exact h2
  | cons a p ih =>
    intro h1 h2
    cases a with
    | acq c => exact ⟨h1.1, ih h1.2 h2⟩
    | rel c => exact ⟨h1.1, ih h1.2 h2⟩
    | cb _ _ => exact ih h1 h2
    | atom _ => exact ih h1 h2

theorem RankedK.sect {c : Cell} {body : List Act} {hs : List Cell}
    (hlt : ∀ h ∈ hs, h < c) (hb : RankedK (c :: hs) body (c :: hs)) :
    RankedK hs (sect c body) hs :=
  ⟨hlt, RankedK.append hb ⟨rfl, rfl⟩⟩

theorem Ranked.of_rankedK {p : List Act} (h : RankedK [] p []) : Ranked [] p :=
  rankedK_nil_iff.1 h

end Rx.Conc
