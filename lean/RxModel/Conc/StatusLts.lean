import RxModel.Conc.DLts
/-
  Conc/StatusLts.lean — `complete_status`: producer ∥ waiter (C14, schedules clause).

  src/ops/complete_status.rs
    StatusObserver::complete/error (65-75):
        self.observer.complete();
        self.status.flag.store(1, Ordering::Relaxed);      -- atom 0
        self.status.waker.wake();                          -- atom 1
    StatusFuture::poll (105-119):
        if self.0.is_closed() {                            -- atom 2  (flag.load() != 0)
          Poll::Ready(..)
        } else {
          self.0.waker.register(cx.waker());               -- atom 3  (register, return Pending)
          Poll::Pending
        }
  No mutex is involved: `AtomicI8` and `futures::task::AtomicWaker` operations are
  single steps (DESIGN §3.3).  `AtomicWaker::wake` takes the registered waker, if
  any, and wakes it; with none registered it does nothing.

  The repaired waiter (the documented AtomicWaker pattern):
        self.0.waker.register(cx.waker());                 -- atom 4
        if self.0.is_closed() { Ready } else { Pending }   -- atom 5
-/
namespace Rx.Conc.Status

structure D where
  flag : Bool            -- flag ≠ 0
  waker : Bool           -- a waker is registered
  woken : Bool           -- the registered waker has been woken (the executor will poll again)
  seen : Bool            -- waiter-local: what `is_closed()` returned
  res : Option Bool      -- result of the poll: `some true` = Ready, `some false` = Pending
  deriving DecidableEq, Repr

def d0 : D := ⟨false, false, false, false, none⟩

def sem (_ : Tid) (a : Act) (d : D) : D :=
  match a with
  | .atom 0 => { d with flag := true }
  | .atom 1 => if d.waker then { d with woken := true, waker := false } else d
  | .atom 2 => { d with seen := d.flag }
  | .atom 3 => if d.seen then { d with res := some true }
               else { d with waker := true, res := some false }
  | .atom 4 => { d with waker := true }
  | .atom 5 => { d with res := some d.flag }
  | _ => d

/-- Thread 0: the producer's terminal (downstream first, then store, then wake). -/
def producer : List Act := [.cb 0 0, .atom 0, .atom 1]

/-- Thread 1: `StatusFuture::poll` as written: check, then register. -/
def waiterAsWritten : List Act := [.atom 2, .atom 3]

/-- Thread 1: repaired: register, then re-check. -/
def waiterFixed : List Act := [.atom 4, .atom 5]

/-- The waiter does not hang: its poll returned Ready, or its waker has been
    woken (so the executor polls again) and the flag is already set (so that
    poll returns Ready, whichever of the two poll bodies is used). -/
def Good (fin : Bool) (d : D) : Prop :=
  fin = true → d.res = some true ∨ (d.woken = true ∧ d.flag = true)

instance (fin : Bool) (d : D) : Decidable (Good fin d) := by unfold Good; exact inferInstance

theorem visitedFixed :
    ∀ x ∈ visited sem 2 5 (mkState [producer, waiterFixed]) d0, Good x.1 x.2 := by
  decide +kernel

end Rx.Conc.Status
