import RxModel.Lemmas.ChainWFWorld
/-
  C01 over the chain model, part 5: the moves that do not involve the source are
  `Quiet`: deliveries to the second input of a two-input cell, the bodies of the
  stage tasks (delay / observe_on slot calls, debounce_task, throttle_task,
  emit_buffer, the notifier tick), unsubscription.
-/
namespace Rx.T
open Rx Rx.Spec

theorem step_gate (c : St2) (sd : Side) (n : Notif) {out : List Notif} (h : Gate c.alive out) :
    Gate (c.step sd n).1.alive (out ++ (c.step sd n).2) := by
  have hd := step_disciplined c sd n
  cases ha : c.alive with
  | true => rw [ha] at h; exact h.push rfl hd.1 hd.2
  | false =>
    have := step_dead c sd n ha
    rw [this.1, this.2, ← ha]; simpa using h

theorem run_gate (c : St2) (sd : Side) (ns : List Notif) {out : List Notif} (h : Gate c.alive out) :
    Gate (c.run sd ns).1.alive (out ++ (c.run sd ns).2) := by
  induction ns generalizing c out with
  | nil => simpa [St2.run] using h
  | cons n r ih =>
    have := ih (c.step sd n).1 (step_gate c sd n h)
    simpa [St2.run, List.append_assoc] using this

namespace TW

theorem Quiet.ofEq {w w' : TW} (h1 : w'.src = w.src) (h2 : w'.srcSubscribed = w.srcSubscribed)
    (h3 : w'.subscribed = w.subscribed) (h4 : w'.terminated = w.terminated)
    (h5 : w'.sched = w.sched) (h6 : w'.stages = w.stages) (h7 : w'.log = w.log) : Quiet w w' :=
  ⟨h1, h2, h3, fun i h => by rw [h4]; exact h, by rw [h5]; exact Sched.Ext.refl _,
    fun up h => by rw [h6, h7]; exact h⟩

theorem pushB_quiet (w : TW) (j : Nat) (ns : List Notif) : Quiet w (w.pushB j ns) := by
  unfold pushB
  split
  · next st nsrc na nt hj =>
    exact push_quiet w j _ (.op2n (st.run .b ns).1 nsrc na nt) (st.run .b ns).2 hj
      (fun inp out h => run_gate st .b ns h)
  · exact Quiet.refl w

theorem loopB_quiet (j n : Nat) (fuel : Nat) : ∀ (k : Nat) (w : TW),
    Quiet w (subscribeNotifier.loopB j n fuel k w) := by
  induction fuel with
  | zero => intro k w; exact Quiet.refl w
  | succ f ih =>
    intro k w
    unfold subscribeNotifier.loopB
    split
    · split
      · exact Quiet.refl w
      · split
        · refine Quiet.trans ?_ (ih _ _)
          exact Quiet.trans (Quiet.ofEq (w' := { w with pulls := w.pulls + 1 }) rfl rfl rfl rfl rfl rfl rfl)
            (pushB_quiet _ j _)
        · exact pushB_quiet w j _
    · exact Quiet.refl w

theorem subscribeNotifier_quiet (w : TW) (j : Nat) : Quiet w (w.subscribeNotifier j) := by
  unfold subscribeNotifier
  split
  · next st nsrc na nt hj =>
    cases nsrc with
    | hot i => exact setStage_quiet w j _ _ hj (fun _ _ h => h)
    | cold s => exact pushB_quiet w j _
    | interval d p =>
      exact (Quiet.ofSched w _ (Sched.Ext.scheduleRepeat _ _ _ _ _ rfl)).trans
        (setStage_quiet _ j _ _ hj (fun _ _ h => h))
    | timer v d =>
      exact (Quiet.ofSched w _ (Sched.Ext.scheduleOnce _ _ _ rfl)).trans
        (setStage_quiet _ j _ _ hj (fun _ _ h => h))
    | iterc n => exact loopB_quiet j n _ _ w
    | future r sc => exact Quiet.refl w
    | stream r sc c => exact Quiet.refl w
  · exact Quiet.refl w

theorem deliverNotifiers_quiet (w : TW) (i : Nat) (n : Notif) (k : Nat) :
    Quiet w (deliverNotifiers w i n k) := by
  induction k with
  | zero => exact Quiet.refl w
  | succ k ih =>
    unfold deliverNotifiers
    refine Quiet.trans ih ?_
    dsimp only
    split
    · next st j na nt hj =>
      split
      · split
        · exact pushB_quiet _ k _
        · exact (setStage_quiet _ k _ (.op2n st (.hot j) false nt) hj (fun _ _ h => h)).trans (pushB_quiet _ k _)
      · exact Quiet.refl _
    · exact Quiet.refl _

/-! ### task bodies of the stages -/

theorem WF_single_nt (n : Notif) (h : n.isTerm = false) : Rx.terminated [n] = false := by
  cases n <;> simp_all [Notif.isTerm, Rx.terminated]

theorem runBody_quiet (w : TW) (b : Body) (hb : b.critical = false) : Quiet w (w.runBody b) := by
  cases b with
  | emit j n =>
    simp only [runBody]
    split
    · next d alive multi hj =>
      split
      · next ha =>
        cases hn : n.isTerm with
        | true =>
          simp only [if_true]
          exact push_quiet w j _ _ [n] hj
            (fun inp out (h : Gate alive out) => show Gate false (out ++ [n]) from
              h.push ha (WF_single n) (fun _ => rfl))
        | false =>
          simp only [Bool.false_eq_true, if_false]
          exact push_quiet_same w j _ [n] hj
            (fun inp out (h : Gate alive out) => show Gate alive (out ++ [n]) from
              h.push ha (WF_single n) (by simp [WF_single_nt n hn]))
      · exact Quiet.refl w
    · next alive multi hj =>
      split
      · next ha =>
        cases hn : n.isTerm with
        | true =>
          simp only [if_true]
          exact push_quiet w j _ _ [n] hj
            (fun inp out (h : Gate alive out) => show Gate false (out ++ [n]) from
              h.push ha (WF_single n) (fun _ => rfl))
        | false =>
          simp only [Bool.false_eq_true, if_false]
          exact push_quiet_same w j _ [n] hj
            (fun inp out (h : Gate alive out) => show Gate alive (out ++ [n]) from
              h.push ha (WF_single n) (by simp [WF_single_nt n hn]))
      · exact Quiet.refl w
    · exact Quiet.refl w
  | debounce j =>
    simp only [runBody]
    split
    · next d alive v h hj =>
      split
      · next ha =>
        exact push_quiet w j _ _ [.next v] hj
          (fun inp out (h : Gate alive out) => show Gate alive (out ++ [.next v]) from
            h.push ha (by simp) (by simp [Rx.terminated]))
      · exact setStage_quiet w j _ _ hj (fun _ _ h => h)
    · exact Quiet.refl w
  | throttle j =>
    simp only [runBody]
    split
    · next d e alive v h hj =>
      split
      · next ha =>
        exact push_quiet w j _ _ [.next v] hj
          (fun inp out (h : Gate alive out) => show Gate alive (out ++ [.next v]) from
            h.push ha (by simp) (by simp [Rx.terminated]))
      · exact setStage_quiet w j _ _ hj (fun _ _ h => h)
    · exact Quiet.refl w
  | subscribe j => simp [Body.critical] at hb
  | timerSrc v => simp [Body.critical] at hb
  | tick => exact Quiet.refl w
  | bufTick j => exact Quiet.refl w
  | tickN j => exact Quiet.refl w
  | futureSrc => exact Quiet.refl w
  | streamSrc => exact Quiet.refl w

/-- The ticks of the stages (everything but the `interval` source). -/
theorem runTick_quiet (w : TW) (b : Body) (seq : Nat) (hb : b ≠ .tick) : Quiet w (w.runTick b seq).1 := by
  cases b with
  | tick => exact absurd rfl hb
  | tickN j =>
    simp only [runTick]
    split
    · split
      · exact Quiet.refl w
      · dsimp only; exact pushB_quiet w j _
    · exact Quiet.refl w
  | bufTick j =>
    simp only [runTick]
    split
    · next d cnt alive data t hj =>
      split
      · exact Quiet.refl w
      · next hc =>
        have ha : alive = true := by
          cases alive with
          | true => rfl
          | false => simp at hc
        dsimp only
        exact push_quiet w j _ _ _ hj
          (fun inp out (h : Gate alive out) => show Gate alive (out ++ flushBuf data) from
            h.push ha (WF_flushBuf _) (by simp [terminated_flushBuf]))
    · exact Quiet.refl w
  | _ => exact Quiet.refl w

/-! ### unsubscription -/

theorem unsubFrom_stages_ge (j : Nat) : ∀ (w : TW) (i : Nat), j ≤ i →
    (unsubFrom w j).stages[i]? = w.stages[i]? := by
  induction j with
  | zero =>
    intro w i _
    unfold unsubFrom
    split <;> rfl
  | succ j ih =>
    intro w i hi
    have hne : j ≠ i := by omega
    have hle : j ≤ i := by omega
    unfold unsubFrom
    split
    · simp only [setStage_stages, List.getElem?_set_ne hne]; exact ih w i hle
    · simp only [setStage_stages, List.getElem?_set_ne hne]; exact ih w i hle
    · dsimp only
      split
      · exact ih _ i hle
      · rfl
    · simp only [setStage_stages, List.getElem?_set_ne hne]; exact ih w i hle
    · simp only [setStage_stages, List.getElem?_set_ne hne]; exact ih w i hle
    · exact ih _ i hle
    · simp only [setStage_stages, List.getElem?_set_ne hne]; exact ih w i hle
    · exact ih w i hle

theorem unsubFrom_quiet (j : Nat) : ∀ (w : TW), Quiet w (unsubFrom w j) := by
  induction j with
  | zero =>
    intro w
    unfold unsubFrom
    split
    · exact ⟨rfl, rfl, rfl, fun _ h => h, Sched.Ext.cancel _ _, fun _ h => h⟩
    · exact Quiet.ofEq rfl rfl rfl rfl rfl rfl rfl
  | succ j ih =>
    intro w
    have hst := unsubFrom_stages_ge j w j (Nat.le_refl j)
    unfold unsubFrom
    split
    · next d alive multi hj =>
      rw [hj] at hst
      exact (ih w).trans ((Quiet.ofSched _ _ (Sched.Ext.cancelAll _ _)).trans
        (setStage_quiet _ j _ _ hst (fun _ _ h => h)))
    · next alive multi hj =>
      rw [hj] at hst
      exact (ih w).trans ((Quiet.ofSched _ _ (Sched.Ext.cancelAll _ _)).trans
        (setStage_quiet _ j _ _ hst (fun _ _ h => h)))
    · next d h hj =>
      have q1 : Quiet w { w with sched := w.sched.cancel h } := Quiet.ofSched w _ (Sched.Ext.cancel _ _)
      dsimp only
      split
      · exact q1.trans (ih _)
      · exact q1
    · next d alive tr handler hj =>
      rw [hj] at hst
      exact (ih w).trans ((Quiet.ofSched _ _ (Sched.Ext.cancelOpt _ _)).trans
        (setStage_quiet _ j _ _ hst (fun _ _ h => h)))
    · next d e alive tr handler hj =>
      rw [hj] at hst
      exact (ih w).trans ((Quiet.ofSched _ _ (Sched.Ext.cancelOpt _ _)).trans
        (setStage_quiet _ j _ _ hst (fun _ _ h => h)))
    · next h hj =>
      exact (Quiet.ofSched w _ (Sched.Ext.cancel _ _)).trans (ih _)
    · next st nsrc na nt hj =>
      rw [hj] at hst
      exact (ih w).trans ((Quiet.ofSched _ _ (Sched.Ext.cancelOpt _ _)).trans
        (setStage_quiet _ j _ _ hst (fun _ _ h => h)))
    · exact ih w

end TW
end Rx.T
