import RxModel.Lemmas.ChainSubBase
import RxModel.Lemmas.ChainWFStage
/-
  C09 over whole chains, part 3: one notification arriving at a stage keeps
  `Stage.Sub9` (every branch of `Stage.onNotif` / `Stage.afterEmit`, no
  assumption on aliveness, handles or the scheduler); the cascade keeps `Chain9`
  for every fuel value.
-/
namespace Rx.T
open Rx Rx.Spec

/-- The shape of every stage step: `emitted ++ held' ⊑ held ++ arrived`. -/
theorem sub9_items {out em inp : List Notif} {n : Notif} {h h' : List Val}
    (hs : (items out ++ h).Sublist (items inp))
    (hstep : (items em ++ h').Sublist (h ++ items [n])) :
    (items (out ++ em) ++ h').Sublist (items (inp ++ [n])) := by
  rw [items_append, items_append, List.append_assoc]
  have := (List.Sublist.append (List.Sublist.refl (items out)) hstep).trans
    (by rw [← List.append_assoc]; exact List.Sublist.append hs (List.Sublist.refl _))
  exact this

theorem sub9_released {out em inp : List Notif} {n : Notif} {h h' : List Val}
    (hs : (released out ++ h).Sublist (items inp))
    (hstep : (released em ++ h').Sublist (h ++ items [n])) :
    (released (out ++ em) ++ h').Sublist (items (inp ++ [n])) := by
  rw [released_append, items_append, List.append_assoc]
  have := (List.Sublist.append (List.Sublist.refl (released out)) hstep).trans
    (by rw [← List.append_assoc]; exact List.Sublist.append hs (List.Sublist.refl _))
  exact this

theorem released_flushBuf (data : List Val) : released (flushBuf data) = data := by
  rcases flushBuf_cases data with ⟨rfl, e⟩ | ⟨_, e⟩ <;> rw [e] <;> simp [released, items]

theorem Stage.onNotif_sub9 (st : Stage) (j : Nat) (n : Notif) (s : Sched) {inp out : List Notif}
    (h : st.Sub9 inp out) : (st.onNotif j n s).1.Sub9 (inp ++ [n]) (out ++ (st.onNotif j n s).2.1) := by
  cases st with
  | op1 o =>
    obtain ⟨hf, hs⟩ := h
    have e : (Stage.op1 o).onNotif j n s = (.op1 (o.step n).1, (o.step n).2, s) := rfl
    rw [e]
    obtain ⟨h1, h2⟩ := St1.step_filtering o n hf
    exact ⟨h1, sub9_items hs h2⟩
  | debounce d alive tr hd =>
    replace h : (items out ++ tr.toList).Sublist (items inp) := h
    cases n with
    | next v =>
      show (items (out ++ []) ++ [v]).Sublist _
      exact sub9_items h (by simp [items])
    | error e =>
      show (items (out ++ if alive then [.error e] else []) ++ tr.toList).Sublist _
      exact sub9_items h (by cases alive <;> simp [items])
    | complete =>
      show (items (out ++ if alive then _ else []) ++ []).Sublist _
      refine sub9_items h ?_
      cases alive
      · simp [items]
      · cases tr <;> simp [items]
  | throttle d e alive tr hd =>
    replace h : (items out ++ tr.toList).Sublist (items inp) := h
    cases n with
    | next v =>
      have closedCase : (Stage.throttleW d e alive
            (if e.hasLeading then none else if e.hasTrailing then some v else tr)).Sub9
          (inp ++ [.next v]) (out ++ if (e.hasLeading && alive) = true then [.next v] else []) := by
        refine sub9_items h ?_
        cases e <;> cases alive <;> simp [items, Edge.hasLeading, Edge.hasTrailing]
      have openCase : ∀ k, (Stage.throttle d e alive (if e.hasTrailing then some v else tr) (some k)).Sub9
          (inp ++ [.next v]) (out ++ []) := by
        intro k
        refine sub9_items h ?_
        cases e <;> simp [items, Edge.hasTrailing]
      cases hd with
      | none =>
        simp only [Stage.onNotif, if_true]
        exact closedCase
      | some k =>
        cases hc : s.handleClosed k
        · simp only [Stage.onNotif, hc, Bool.false_eq_true, if_false]
          exact openCase k
        · simp only [Stage.onNotif, hc, if_true]
          exact closedCase
    | error er =>
      show (items (out ++ if alive then [.error er] else []) ++ tr.toList).Sublist _
      exact sub9_items h (by cases alive <;> simp [items])
    | complete =>
      show (items (out ++ if alive then _ else []) ++ []).Sublist _
      refine sub9_items h ?_
      cases alive
      · simp [items]
      · cases tr <;> simp [items]
  | throttleW d e alive tr =>
    replace h : (items out ++ tr.toList).Sublist (items inp) := h
    show (items (out ++ []) ++ tr.toList).Sublist _
    exact sub9_items h (by simp [items])
  | bufTime d c alive data t =>
    replace h : (released out ++ data).Sublist (items inp) := h
    cases n with
    | next v =>
      simp only [Stage.onNotif]
      split
      · split
        · split
          · show (released (out ++ flushBuf _) ++ []).Sublist _
            exact sub9_released h (by simp [released_flushBuf, items])
          · show (released (out ++ []) ++ (data ++ [v])).Sublist _
            exact sub9_released h (by simp [released, items])
        · show (released (out ++ []) ++ (data ++ [v])).Sublist _
          exact sub9_released h (by simp [released, items])
      · show (released (out ++ []) ++ data).Sublist _
        exact sub9_released h (by simp [released, items])
    | error e =>
      show (released (out ++ if alive then [.error e] else []) ++ data).Sublist _
      exact sub9_released h (by cases alive <;> simp [released, items])
    | complete =>
      show (released (out ++ if alive then flushBuf data ++ [Notif.complete] else []) ++ []).Sublist _
      refine sub9_released h ?_
      cases alive
      · simp [released, items]
      · simp only [if_true, released_append, released_flushBuf]; simp [released, items]
  | _ => exact h.elim

theorem Stage.afterEmit_sub9 (st : Stage) (j : Nat) (s : Sched) {inp out : List Notif}
    (h : st.Sub9 inp out) : (st.afterEmit j s).1.Sub9 inp out := by
  cases st with
  | throttleW d e alive tr => exact h
  | _ => exact h

/-- The cascade, for every fuel value. -/
theorem cascadeF_sub9 (f : Nat) : ∀ (stages : List Stage) (j : Nat) (ns : List Notif) (s : Sched),
    ∀ up log, Chain9 up stages log →
      Chain9 (up ++ ns) (cascadeF f stages j ns s).1 (log ++ (cascadeF f stages j ns s).2.1) := by
  induction f with
  | zero =>
    intro stages j ns s up log h
    simp only [cascadeF, List.append_nil]
    exact h.mono (List.sublist_append_left _ _)
  | succ f ih =>
    intro stages j ns s
    cases stages with
    | nil =>
      intro up log h
      simp only [cascadeF]
      exact List.Sublist.append h (List.Sublist.refl _)
    | cons st rest =>
      cases ns with
      | nil =>
        intro up log h
        simpa [cascadeF] using h
      | cons n ns =>
        have o1 := fun {inp out} => st.onNotif_sub9 j n s (inp := inp) (out := out)
        rcases hst : st.onNotif j n s with ⟨st1, outs, s1⟩
        rw [hst] at o1
        have i1 := ih rest (j + 1) outs s1
        rcases hc1 : cascadeF f rest (j + 1) outs s1 with ⟨rest1, out1, s2⟩
        rw [hc1] at i1
        have o2 := fun {inp out} => st1.afterEmit_sub9 j s2 (inp := inp) (out := out)
        rcases hae : st1.afterEmit j s2 with ⟨st2, s3⟩
        rw [hae] at o2
        have i2 := ih (st2 :: rest1) j ns s3
        rcases hc2 : cascadeF f (st2 :: rest1) j ns s3 with ⟨stages2, out2, s4⟩
        rw [hc2] at i2
        simp only [cascadeF, hst, hc1, hae, hc2]
        intro up log h
        obtain ⟨inp, out, h1, h2, h3⟩ := h
        have c1 := i1 out log h3
        have c2 : Chain9 (up ++ [n]) (st2 :: rest1) (log ++ out1) :=
          ⟨inp ++ [n], out ++ outs, List.Sublist.append h1 (List.Sublist.refl _), o2 (o1 h2), c1⟩
        have c3 := i2 _ _ c2
        simpa [List.append_assoc] using c3

theorem cascade_sub9 (stages : List Stage) (j : Nat) (ns : List Notif) (s : Sched) :
    ∀ up log, Chain9 up stages log →
      Chain9 (up ++ ns) (cascade stages j ns s).1 (log ++ (cascade stages j ns s).2.1) :=
  cascadeF_sub9 _ stages j ns s

/-! ### kinds -/

theorem Stage.onNotif_isBuf (st : Stage) (j : Nat) (n : Notif) (s : Sched) :
    (st.onNotif j n s).1.isBuf = st.isBuf := by
  cases st with
  | throttle d e alive tr hd =>
    cases n with
    | next v =>
      cases hd with
      | none => rfl
      | some k => cases hc : s.handleClosed k <;> simp [Stage.onNotif, hc, Stage.isBuf]
    | _ => rfl
  | bufTime d c alive data t =>
    cases n with
    | next v =>
      simp only [Stage.onNotif]
      repeat' split
      all_goals rfl
    | _ => rfl
  | delay d alive multi => cases n <;> rfl
  | debounce d alive tr hd => cases n <;> rfl
  | _ => rfl

theorem Stage.afterEmit_isBuf (st : Stage) (j : Nat) (s : Sched) :
    (st.afterEmit j s).1.isBuf = st.isBuf := by
  cases st <;> rfl

theorem cascadeF_kinds (f : Nat) : ∀ (stages : List Stage) (j : Nat) (ns : List Notif) (s : Sched),
    (cascadeF f stages j ns s).1.map Stage.isBuf = stages.map Stage.isBuf := by
  induction f with
  | zero => intro stages j ns s; rfl
  | succ f ih =>
    intro stages j ns s
    cases stages with
    | nil => rfl
    | cons st rest =>
      cases ns with
      | nil => rfl
      | cons n ns =>
        have o1 := st.onNotif_isBuf j n s
        rcases hst : st.onNotif j n s with ⟨st1, outs, s1⟩
        rw [hst] at o1
        have i1 := ih rest (j + 1) outs s1
        rcases hc1 : cascadeF f rest (j + 1) outs s1 with ⟨rest1, out1, s2⟩
        rw [hc1] at i1
        have o2 := st1.afterEmit_isBuf j s2
        rcases hae : st1.afterEmit j s2 with ⟨st2, s3⟩
        rw [hae] at o2
        have i2 := ih (st2 :: rest1) j ns s3
        rcases hc2 : cascadeF f (st2 :: rest1) j ns s3 with ⟨stages2, out2, s4⟩
        rw [hc2] at i2
        simp only [cascadeF, hst, hc1, hae, hc2]
        simp only at o1 o2 i1 i2
        rw [i2, List.map_cons, List.map_cons, i1, o2, o1]

theorem cascade_kinds (stages : List Stage) (j : Nat) (ns : List Notif) (s : Sched) :
    (cascade stages j ns s).1.map Stage.isBuf = stages.map Stage.isBuf :=
  cascadeF_kinds _ stages j ns s

end Rx.T
