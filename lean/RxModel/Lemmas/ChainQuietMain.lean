import RxModel.Lemmas.ChainQuietClosed
/-
  C02 / C17 over the chain model, part 21: the invariant of every reachable world
  and the run-level facts behind Props/C02C.lean and Props/C17C.lean.
-/
namespace Rx.T
open Rx

/-- The world of a `time` case before its first event. -/
def TW.init (src : TSrc) (stages : List Stage) : TW := { src := src, stages := stages }

/-- The three phases of a case: before `sub`, subscribed, after `unsub`. -/
structure QInv (w : TW) : Prop where
  pre : w.subscribed = false → PreSub w
  good : w.subscribed = true → w.unsubscribed = false → GoodW none w
  quiet : w.unsubscribed = true → Quiet w

theorem Stage.Initial.pristine {st : Stage} (h : st.Initial) :
    st.handles = [] ∧ st.naOn = false ∧ st.wf := by
  cases st <;> simp_all [Stage.Initial, Stage.handles, Stage.naOn, Stage.wf]

theorem init_qinv (src : TSrc) (stages : List Stage) (h : ∀ st ∈ stages, st.Initial) :
    QInv (TW.init src stages) := by
  refine ⟨fun _ => ?_, (fun h' => by cases h'), (fun h' => by cases h')⟩
  refine ⟨rfl, rfl, ⟨rfl, rfl, ?_⟩, ?_, rfl⟩
  · intro j st _ hs
    have := (h st (List.mem_of_getElem? hs)).pristine
    exact ⟨this.1, this.2.1⟩
  · intro j st hs
    exact (h st (List.mem_of_getElem? hs)).pristine.2.2

theorem QInv.of_good {w w' : TW} (g : GoodW none w') (f : Fl w w') (hs : w.subscribed = true)
    (hu : w.unsubscribed = false) : QInv w' := by
  refine ⟨fun h => ?_, fun _ _ => g, fun h => ?_⟩
  · rw [f.subscribed, hs] at h; cases h
  · rw [f.unsubscribed, hu] at h; cases h

theorem QInv.step {w : TW} (I : QInv w) (e : TW.Ev) :
    QInv (w.step e) ∧ (w.subscribed = true → (w.step e).subscribed = true) ∧
      (e = .sub → (w.step e).subscribed = true) := by
  rcases Bool.eq_false_or_eq_true w.subscribed with hs | hs
  rotate_left
  · have p := I.pre hs
    rcases p.step hs e with ⟨p', hs'⟩ | he
    · refine ⟨⟨fun _ => p', fun h => ?_, fun h => ?_⟩, (fun h => by rw [hs] at h; cases h), fun he => ?_⟩
      · rw [hs', hs] at h; cases h
      · rw [p'.unsub] at h; cases h
      · subst he
        rcases p.step hs .sub with ⟨_, _⟩ | _
        · exact absurd hs' (by
            intro _
            obtain ⟨_, h2, _⟩ := step_sub_good p hs
            rw [hs', hs] at h2; cases h2)
        · exact (step_sub_good p hs).2.1
    · subst he
      obtain ⟨g, h1, h2⟩ := step_sub_good p hs
      refine ⟨⟨fun h => ?_, fun _ _ => g, fun h => ?_⟩, fun _ => h1, fun _ => h1⟩
      · rw [h1] at h; cases h
      · rw [h2] at h; cases h
  · rcases Bool.eq_false_or_eq_true w.unsubscribed with hu | hu
    · have q := I.quiet hu
      obtain ⟨q', _, h3⟩ := q.step e
      refine ⟨⟨fun h => ?_, fun _ h => ?_, fun _ => q'⟩, fun _ => q'.subscribed, fun _ => q'.subscribed⟩
      · rw [q'.subscribed] at h; cases h
      · rcases h3 with h3 | h3
        · rw [h3] at h; cases h
        · rw [h3.unsubscribed, hu] at h; cases h
    · have g := I.good hs hu
      have fin : ∀ w' : TW, GoodW none w' ∧ Fl w w' → QInv w' ∧ (w.subscribed = true → w'.subscribed = true) ∧
          (e = .sub → w'.subscribed = true) := by
        intro w' ⟨g', f⟩
        exact ⟨QInv.of_good g' f hs hu, fun _ => f.subscribed.trans hs, fun _ => f.subscribed.trans hs⟩
      cases e with
      | sub =>
        have : w.step .sub = w := by simp [TW.step, hs]
        rw [this]; exact fin w ⟨g, Fl.refl w⟩
      | emit i n => exact fin _ (step_emit_good i n g)
      | unsub =>
        have : w.step .unsub = { w.unsubFrom w.stages.length with unsubscribed := true } := by
          simp [TW.step, hs, hu]
        rw [this]
        have q := unsub_quiet g hs
        refine ⟨⟨fun h => ?_, (fun _ h => by cases h), fun _ => q⟩, fun _ => q.subscribed,
          fun _ => q.subscribed⟩
        rw [q.subscribed] at h; cases h
      | adv d =>
        exact fin (w.step (.adv d)) ⟨Good.of_tasks_eq g rfl, ⟨rfl, rfl, rfl⟩⟩
      | fire i =>
        simp only [TW.step]
        split
        · rename_i tm _
          exact fin { w with sched := w.sched.fire tm } ⟨fire_good tm g, ⟨rfl, rfl, rfl⟩⟩
        · exact fin w ⟨g, Fl.refl w⟩
      | poll i =>
        simp only [TW.step]
        split
        · exact fin _ (pollTask_good _ g)
        · exact fin w ⟨g, Fl.refl w⟩
      | run => exact fin _ (runLoop_good 10000 w g)

theorem QInv.run {w : TW} (I : QInv w) (evs : List TW.Ev) : QInv (evs.foldl TW.step w) := by
  induction evs generalizing w with
  | nil => exact I
  | cons e es ih => rw [List.foldl_cons]; exact ih (I.step e).1

theorem subscribed_run {w : TW} (I : QInv w) (evs : List TW.Ev) (h : w.subscribed = true) :
    (evs.foldl TW.step w).subscribed = true := by
  induction evs generalizing w with
  | nil => exact h
  | cons e es ih => rw [List.foldl_cons]; exact ih (I.step e).1 ((I.step e).2.1 h)

theorem subscribed_of_mem {w : TW} (I : QInv w) (evs : List TW.Ev) (h : TW.Ev.sub ∈ evs) :
    (evs.foldl TW.step w).subscribed = true := by
  induction evs generalizing w with
  | nil => cases h
  | cons e es ih =>
    rw [List.foldl_cons]
    by_cases he : e = .sub
    · exact subscribed_run (I.step e).1 es ((I.step e).2.2 he)
    · apply ih (I.step e).1
      cases h with
      | head => exact absurd rfl he
      | tail _ h' => exact h'

/-- A quiet world stays quiet, its log is frozen, a `true` answer of `is_closed` stays. -/
theorem Quiet.run {w : TW} (q : Quiet w) (evs : List TW.Ev) :
    Quiet (evs.foldl TW.step w) ∧ (evs.foldl TW.step w).log = w.log ∧
      (w.isClosed = true → (evs.foldl TW.step w).isClosed = true) := by
  induction evs generalizing w with
  | nil => exact ⟨q, rfl, id⟩
  | cons e es ih =>
    rw [List.foldl_cons]
    obtain ⟨q', hl, hc⟩ := q.step e
    obtain ⟨q'', hl', hc'⟩ := ih q'
    refine ⟨q'', hl'.trans hl, fun h => hc' ?_⟩
    rcases hc with hc | hc
    · simp [TW.isClosed, hc]
    · rw [isClosed_same hc]; exact h

/-- `unsub` makes a subscribed reachable world quiet. -/
theorem QInv.unsub_quiet {w : TW} (I : QInv w) (hs : w.subscribed = true) : Quiet (w.step .unsub) := by
  cases hu : w.unsubscribed with
  | true =>
    have : w.step .unsub = w := by simp [TW.step, hu]
    rw [this]; exact I.quiet hu
  | false =>
    have : w.step .unsub = { w.unsubFrom w.stages.length with unsubscribed := true } := by
      simp [TW.step, hs, hu]
    rw [this]; exact Rx.T.unsub_quiet (I.good hs hu) hs

/-- `is_closed() = true` on a subscribed reachable world: the world is quiet. -/
theorem QInv.closed_quiet {w : TW} (I : QInv w) (hs : w.subscribed = true) (hc : w.isClosed = true) :
    Quiet w := by
  cases hu : w.unsubscribed with
  | true => exact I.quiet hu
  | false =>
    have : w.isClosedFrom w.stages.length = true := by
      simpa [TW.isClosed, hs, hu] using hc
    exact Rx.T.closed_quiet (I.good hs hu) hs this

theorem step_unsub_log (w : TW) : (w.step .unsub).log = w.log := by
  simp only [TW.step]
  split
  · exact (unsubFrom_urel w.stages.length w).log
  · rfl

theorem step_unsub_closed (w : TW) : (w.step .unsub).isClosed = true := by
  simp only [TW.step]
  split
  · simp [TW.isClosed]
  · rename_i h
    simp only [TW.isClosed]
    cases hs : w.subscribed <;> cases hu : w.unsubscribed <;> simp_all

end Rx.T
