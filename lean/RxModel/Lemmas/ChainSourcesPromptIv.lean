import RxModel.Lemmas.ChainSourcesPrompt
/-
  Helper lemmas for C08, part 7: `interval` / `interval_at` under the prompt
  unit-step schedule `[adv t0, sub, run] ++ prompt n`: after round `n` the world
  is quiescent, exactly `tickCount first p n` ticks have been delivered and the
  period timer is due at `t0 + first + tickCount·p`.
-/
namespace Rx.T
open Rx

namespace TW
open Sched

/-- The quiescent interval world after round `n` of the prompt schedule. -/
structure IvQ (t0 first p n : Nat) (w : TW) : Prop where
  stages : w.stages = []
  sched : ∃ old tm, w.sched = ivSched (t0 + n) old tm false p (tickCount first p n) ∧
    (∀ t ∈ old, t.fired = true) ∧ tm.fired = false ∧ tm.owner = 0 ∧ tm.registered = true ∧
    tm.due = t0 + first + tickCount first p n * p
  log : w.log = ticks (tickCount first p n)

theorem ivQ_step (t0 first p n : Nat) (hp : 1 ≤ p) (w : TW) (h : IvQ t0 first p n w) :
    IvQ t0 first p (n + 1) (step (step w (.adv 1)) .run) := by
  obtain ⟨old, tm, hw, hold, hf, hown, hreg, hdue⟩ := h.sched
  have hs' : (step w (.adv 1)).stages = [] := h.stages
  have hw' : (step w (.adv 1)).sched = ivSched (t0 + n + 1) old tm false p (tickCount first p n) := by
    simp only [step]; rw [hw]; rfl
  rw [step_run2, runLoop_iv 9998 _ hs' _ old tm false p _ hw' hold hf hown (by simp [hreg]) hp]
  have hlt := tickCount_lt first p n hp
  by_cases hd : tm.due ≤ t0 + n + 1
  · have hc : first + tickCount first p n * p ≤ n + 1 := by omega
    have e : tickCount first p (n + 1) = tickCount first p n + 1 := by
      rw [tickCount_succ _ _ _ hp, if_pos hc]
    rw [if_pos hd]
    refine ⟨h.stages, ⟨_, _, by rw [e]; rfl, ?_, rfl, rfl, rfl, ?_⟩, ?_⟩
    · intro t ht
      simp only [List.mem_append, List.mem_singleton] at ht
      rcases ht with ht | ht
      · exact hold t ht
      · rw [ht]
    · -- prompt: the tick happens exactly when due, so the next timer is one period later
      rw [e]
      simp only [freshT, Nat.succ_mul]
      omega
    · show w.log ++ _ = _
      rw [e, h.log, ticks_succ]
  · have hc : ¬ first + tickCount first p n * p ≤ n + 1 := by omega
    have e : tickCount first p (n + 1) = tickCount first p n := by
      rw [tickCount_succ _ _ _ hp, if_neg hc]
    rw [if_neg hd]
    refine ⟨h.stages, ⟨old, { tm with registered := true }, by rw [e]; rfl, hold, hf, hown, rfl, ?_⟩, ?_⟩
    · rw [e]; exact hdue
    · rw [e]; exact h.log

theorem ivQ_base (delay : Option Nat) (p t0 : Nat) (term : List Nat) (hp : 1 ≤ p) :
    IvQ t0 (delay.getD p) p 0 (step (step (idle (.interval delay p) t0 term) .sub) .run) := by
  have hw1 : (step (idle (.interval delay p) t0 term) .sub).sched =
      ivSched t0 [] { dur := delay.getD p, due := t0 + delay.getD p, owner := 0 } true p 0 := rfl
  rw [step_run2, runLoop_iv 9998 _ rfl t0 [] _ true p 0 hw1 (by simp) rfl rfl rfl hp]
  by_cases hd : t0 + delay.getD p ≤ t0
  · have h0 : delay.getD p = 0 := by omega
    have e : tickCount (delay.getD p) p 0 = 1 := by simp [tickCount, h0]
    rw [if_pos hd]
    refine ⟨rfl, ⟨_, _, by rw [e]; rfl, by simp, rfl, rfl, rfl, ?_⟩, ?_⟩
    · rw [e]; simp only [freshT]; omega
    · rw [e]; rfl
  · have h0 : 0 < delay.getD p := by omega
    have e : tickCount (delay.getD p) p 0 = 0 := by simp [tickCount, h0]
    rw [if_neg hd]
    refine ⟨rfl, ⟨[], { dur := delay.getD p, due := t0 + delay.getD p, owner := 0, registered := true },
      by rw [e]; rfl, by simp, rfl, rfl, rfl, ?_⟩, ?_⟩
    · rw [e]; simp
    · rw [e]; rfl

theorem run_prompt_ivQ (t0 first p : Nat) (hp : 1 ≤ p) (w : TW) (h : IvQ t0 first p 0 w) (n : Nat) :
    IvQ t0 first p n (run w (prompt n)) := by
  induction n with
  | zero => exact h
  | succ n ih =>
    rw [prompt_succ, run_append]
    exact ivQ_step t0 first p n hp _ ih

/-- `interval` / `interval_at` under the prompt schedule: exactly `tickCount first p n` ticks
    after round `n`. -/
theorem interval_prompt_main (delay : Option Nat) (p t0 n : Nat) (hp : 1 ≤ p) :
    (run (start (.interval delay p)) ([.adv t0, .sub, .run] ++ prompt n)).log =
      ticks (tickCount (delay.getD p) p n) := by
  have h0 : step (start (.interval delay p)) (.adv t0) = idle (.interval delay p) t0 [] := by
    simp [step, start, idle]
  rw [run_append]
  simp only [run_cons, run_nil, h0]
  exact (run_prompt_ivQ t0 _ p hp _ (ivQ_base delay p t0 [] hp) n).log

end TW
end Rx.T
