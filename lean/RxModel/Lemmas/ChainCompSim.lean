import RxModel.Lemmas.ChainCompCascade
import RxModel.Lemmas.ChainCompSched
import RxModel.Lemmas.ChainFifoBase
/-
  C07C, part 3: the simulation.  A world with stages `pre ++ [T] ++ post` (`T` a
  scheduler-moving stage, `pre` / `post` single-input observers) is `lift`ed from the
  one-stage world `[T]`: same stage `T`, same scheduler up to the renaming of the task
  bodies (`Sched.shift`), the `post` observers and the probe log are what `post` makes of
  the one-stage world's probe log.  Every executor move (`pollTask`, firing timers,
  `pollAll`, `runLoop`) commutes with `lift`; feeding a notification at the head is feeding
  the one-stage world what `pre` outputs.
-/
set_option linter.unusedSimpArgs false
namespace Rx.T
open Rx

/-! ### one-stage worlds of a mover -/

def Stage.mKill : Stage → Stage
  | .delay d _ m => .delay d false m
  | .observeOn _ m => .observeOn false m
  | st => st

theorem Stage.mKill_mover (T : Stage) (h : T.isMover = true) : T.mKill.isMover = true := by
  cases T <;> simp_all [Stage.isMover, Stage.mKill]

/-- The one-stage worlds considered: one mover, only slot calls of stage 0 in the scheduler. -/
structure One1 (w : TW) : Prop where
  stage : ∃ T, w.stages = [T] ∧ T.isMover = true
  emitOnly : w.sched.EmitOnly

theorem One1.setSched {w : TW} (h : One1 w) (s : Sched) (hs : s.EmitOnly) : One1 { w with sched := s } :=
  ⟨h.stage, hs⟩

/-- The slot call `emit 0 n` on a one-stage world. -/
theorem runBody_one1 (w : TW) (T : Stage) (hs : w.stages = [T]) (hT : T.isMover = true) (n : Notif) :
    w.runBody (.emit 0 n) =
      { w with stages := [if T.mAlive && n.isTerm then T.mKill else T],
               log := w.log ++ (if T.mAlive then [n] else []) } := by
  obtain ⟨sched, src, stages, a1, a2, a3, a4, a5, a6, a7, a8, log⟩ := w
  simp only at hs; subst hs
  cases T with
  | delay d a m =>
    cases a <;> cases hn : n.isTerm <;>
      simp [TW.runBody, hn, Stage.mAlive, Stage.mKill, TW.setStage, TW.push_one]
  | observeOn a m =>
    cases a <;> cases hn : n.isTerm <;>
      simp [TW.runBody, hn, Stage.mAlive, Stage.mKill, TW.setStage, TW.push_one]
  | _ => simp [Stage.isMover] at hT

/-- One poll of a task on a one-stage world, in closed form. -/
theorem pollTask_one1 (w : TW) (h : One1 w) (k : TaskId) :
    ∃ T' out s', w.pollTask k = { w with sched := s', stages := [T'], log := w.log ++ out } ∧
      T'.isMover = true ∧ s'.EmitOnly := by
  obtain ⟨⟨T, hs, hT⟩, he⟩ := h
  have hp := he.pollPre k
  unfold TW.pollTask
  generalize w.sched.pollPre k = r at hp
  obtain ⟨s1, p⟩ := r
  obtain ⟨hs1, hp⟩ := hp
  rcases hp with hp | ⟨n, hp⟩
  · simp only at hp; subst hp
    refine ⟨T, [], s1, ?_, hT, hs1⟩
    simp [hs]
  · simp only at hp; subst hp
    have hw : ({ w with sched := s1 } : TW).stages = [T] := hs
    simp only [Body.isAsync, Bool.false_eq_true, if_false]
    rw [runBody_one1 _ T hw hT n]
    refine ⟨_, _, _, rfl, ?_, hs1.finishOnce k⟩
    split
    · exact T.mKill_mover hT
    · exact hT

theorem One1.pollTask {w : TW} (h : One1 w) (k : TaskId) : One1 (w.pollTask k) := by
  obtain ⟨T', out, s', e, hT, hs⟩ := pollTask_one1 w h k
  rw [e]; exact ⟨⟨T', rfl, hT⟩, hs⟩

theorem pollTask_one1_log (w : TW) (h : One1 w) (k : TaskId) : w.log <+: (w.pollTask k).log := by
  obtain ⟨T', out, s', e, _, _⟩ := pollTask_one1 w h k
  rw [e]; exact List.prefix_append _ _

theorem One1.pollAll (l : List TaskId) : ∀ {w : TW}, One1 w → One1 (w.pollAll l) ∧ w.log <+: (w.pollAll l).log := by
  induction l with
  | nil => intro w h; exact ⟨h, List.prefix_refl _⟩
  | cons k r ih =>
    intro w h
    unfold TW.pollAll
    dsimp only
    cases w.sched.tasks[k]? with
    | none => simpa using ih h
    | some t =>
      cases hd : t.done with
      | true => simpa [hd] using ih h
      | false =>
        simp only [hd, Bool.not_false, if_true]
        have := ih (h.pollTask k)
        exact ⟨this.1, (pollTask_one1_log w h k).trans this.2⟩

/-- The list `runLoop` polls. -/
def readyOf (s : Sched) : List TaskId :=
  s.liveTasks.filter fun k => match s.tasks[k]? with | some t => t.woken | none => false

theorem runLoop_succ' (f : Nat) (w : TW) :
    TW.runLoop (f + 1) w =
      (if w.sched.dueTimers.isEmpty && (readyOf (w.sched.dueTimers.foldl Sched.fire w.sched)).isEmpty
       then { w with sched := w.sched.dueTimers.foldl Sched.fire w.sched }
       else TW.runLoop f (TW.pollAll { w with sched := w.sched.dueTimers.foldl Sched.fire w.sched }
          (readyOf (w.sched.dueTimers.foldl Sched.fire w.sched)))) := rfl

theorem One1.runLoop (f : Nat) : ∀ {w : TW}, One1 w → One1 (TW.runLoop f w) ∧ w.log <+: (TW.runLoop f w).log := by
  induction f with
  | zero => intro w h; exact ⟨h, List.prefix_refl _⟩
  | succ f ih =>
    intro w h
    rw [runLoop_succ']
    have h1 : One1 { w with sched := w.sched.dueTimers.foldl Sched.fire w.sched } :=
      h.setSched _ (h.emitOnly.fireAll _)
    split
    · exact ⟨h1, List.prefix_refl _⟩
    · have h2 := One1.pollAll (readyOf (w.sched.dueTimers.foldl Sched.fire w.sched)) h1
      have h3 := ih h2.1
      exact ⟨h3.1, h2.2.trans h3.2⟩

/-! ### the lifted world -/

def lift (post0 : List St1) (j : Nat) (base : TW) (preS : List St1) (w1 : TW) : TW :=
  { base with sched := w1.sched.shift j,
              stages := preS.map .op1 ++ (w1.stages ++ (runChain post0 w1.log).1.map .op1),
              log := (runChain post0 w1.log).2 }

theorem lift_congr (post0 : List St1) (j : Nat) (base : TW) (preS : List St1) (w1 w1' : TW)
    (h1 : w1.sched = w1'.sched) (h2 : w1.stages = w1'.stages) (h3 : w1.log = w1'.log) :
    lift post0 j base preS w1 = lift post0 j base preS w1' := by
  simp only [lift, h1, h2, h3]

theorem lift_stages (post0 : List St1) (j : Nat) (base : TW) (preS : List St1) (w1 : TW) (T : Stage)
    (hs : w1.stages = [T]) :
    (lift post0 j base preS w1).stages =
      preS.map .op1 ++ T :: (runChain post0 w1.log).1.map .op1 := by
  simp [lift, hs]

theorem lift_get (post0 : List St1) (j : Nat) (base : TW) (preS : List St1) (w1 : TW) (T : Stage)
    (hs : w1.stages = [T]) (hj : preS.length = j) :
    (lift post0 j base preS w1).stages[j]? = some T := by
  rw [lift_stages _ _ _ _ _ T hs]
  simp [hj]

theorem take_mid {α} (a c : List α) (b : α) (j : Nat) (h : a.length = j) :
    (a ++ b :: c).take (j + 1) = a ++ [b] := by
  have : a ++ b :: c = (a ++ [b]) ++ c := by simp
  rw [this]
  exact List.take_left' (by simp [h])

theorem drop_mid {α} (a c : List α) (b : α) (j : Nat) (h : a.length = j) :
    (a ++ b :: c).drop (j + 1) = c := by
  have : a ++ b :: c = (a ++ [b]) ++ c := by simp
  rw [this]
  exact List.drop_left' (by simp [h])

/-- Delivering to the first `post` observer = delivering to the probe of the one-stage world. -/
theorem push_lift_post (post0 : List St1) (hc : calmSt post0) (j : Nat) (base : TW) (preS : List St1)
    (w1 : TW) (T : Stage) (hs : w1.stages = [T]) (hj : preS.length = j) (n : Notif) :
    (lift post0 j base preS w1).push (j + 1) [n] =
      lift post0 j base preS { w1 with log := w1.log ++ [n] } := by
  have hP := calmSt_runChain post0 w1.log hc
  unfold TW.push
  rw [lift_stages _ _ _ _ _ T hs, take_mid _ _ _ _ (by simpa using hj), drop_mid _ _ _ _ (by simpa using hj)]
  unfold cascade
  rw [cascadeF_op1' _ hP [n] (j + 1) _ _ (by simp; omega)]
  simp only [lift, hs, runChain_append]
  simp

theorem setStage_lift (post0 : List St1) (j : Nat) (base : TW) (preS : List St1)
    (w1 : TW) (T T' : Stage) (hs : w1.stages = [T]) (hj : preS.length = j) :
    (lift post0 j base preS w1).setStage j T' = lift post0 j base preS { w1 with stages := [T'] } := by
  unfold TW.setStage
  rw [lift_stages _ _ _ _ _ T hs]
  have := set_mid (preS.map Stage.op1) ((runChain post0 w1.log).1.map .op1) T T'
  simp only [List.length_map, hj] at this
  rw [this]
  simp [lift]

/-- The slot call of the mover. -/
theorem runBody_lift (post0 : List St1) (hc : calmSt post0) (j : Nat) (base : TW) (preS : List St1)
    (w1 : TW) (T : Stage) (hs : w1.stages = [T]) (hT : T.isMover = true) (hj : preS.length = j) (n : Notif) :
    (lift post0 j base preS w1).runBody (.emit j n) = lift post0 j base preS (w1.runBody (.emit 0 n)) := by
  rw [runBody_one1 w1 T hs hT n]
  have hg := lift_get post0 j base preS w1 T hs hj
  cases T with
  | delay d a m =>
    cases a with
    | false =>
      simp only [TW.runBody, hg, Stage.mAlive, Bool.false_and, Bool.false_eq_true, if_false, List.append_nil]
      exact lift_congr _ _ _ _ _ _ rfl hs rfl
    | true =>
      simp only [TW.runBody, hg, Stage.mAlive, Bool.true_and, if_true]
      cases hn : n.isTerm with
      | false =>
        simp only [Bool.false_eq_true, if_false]
        rw [push_lift_post post0 hc j base preS w1 _ hs hj n]
        exact lift_congr _ _ _ _ _ _ rfl hs rfl
      | true =>
        simp only [if_true]
        rw [setStage_lift post0 j base preS w1 _ _ hs hj,
          push_lift_post post0 hc j base preS _ _ rfl hj n]
        rfl
  | observeOn a m =>
    cases a with
    | false =>
      simp only [TW.runBody, hg, Stage.mAlive, Bool.false_and, Bool.false_eq_true, if_false, List.append_nil]
      exact lift_congr _ _ _ _ _ _ rfl hs rfl
    | true =>
      simp only [TW.runBody, hg, Stage.mAlive, Bool.true_and, if_true]
      cases hn : n.isTerm with
      | false =>
        simp only [Bool.false_eq_true, if_false]
        rw [push_lift_post post0 hc j base preS w1 _ hs hj n]
        exact lift_congr _ _ _ _ _ _ rfl hs rfl
      | true =>
        simp only [if_true]
        rw [setStage_lift post0 j base preS w1 _ _ hs hj,
          push_lift_post post0 hc j base preS _ _ rfl hj n]
        rfl
  | _ => simp [Stage.isMover] at hT

theorem lift_setSched (post0 : List St1) (j : Nat) (base : TW) (preS : List St1) (w1 : TW) (s : Sched) :
    ({ lift post0 j base preS w1 with sched := s.shift j } : TW) = lift post0 j base preS { w1 with sched := s } :=
  rfl

/-- Polling a task commutes with `lift`. -/
theorem pollTask_lift (post0 : List St1) (hc : calmSt post0) (j : Nat) (base : TW) (preS : List St1)
    (w1 : TW) (h : One1 w1) (hj : preS.length = j) (k : TaskId) :
    (lift post0 j base preS w1).pollTask k = lift post0 j base preS (w1.pollTask k) := by
  obtain ⟨⟨T, hs, hT⟩, he⟩ := h
  have hp := he.pollPre k
  unfold TW.pollTask
  have e0 : (lift post0 j base preS w1).sched = w1.sched.shift j := rfl
  rw [e0, Sched.shift_pollPre]
  generalize w1.sched.pollPre k = r at hp
  obtain ⟨s1, p⟩ := r
  obtain ⟨hs1, hp⟩ := hp
  rcases hp with hp | ⟨n, hp⟩
  · simp only at hp; subst hp
    rfl
  · simp only at hp; subst hp
    simp only [Sched.Poll.shift, shiftBody, Nat.zero_add, Body.isAsync, Bool.false_eq_true, if_false]
    have hs' : ({ w1 with sched := s1 } : TW).stages = [T] := hs
    rw [lift_setSched, runBody_lift post0 hc j base preS _ T hs' hT hj n]
    show ({ lift post0 j base preS _ with sched := Sched.finishOnce (Sched.shift _ j) k } : TW) = _
    rw [Sched.shift_finishOnce]
    rfl

theorem pollAll_lift (post0 : List St1) (hc : calmSt post0) (j : Nat) (base : TW) (preS : List St1)
    (hj : preS.length = j) (l : List TaskId) : ∀ (w1 : TW), One1 w1 →
    (lift post0 j base preS w1).pollAll l = lift post0 j base preS (w1.pollAll l) := by
  induction l with
  | nil => intro w1 _; rfl
  | cons k r ih =>
    intro w1 h
    unfold TW.pollAll
    have e0 : (lift post0 j base preS w1).sched.tasks[k]? = (w1.sched.tasks[k]?).map (shiftTask j) :=
      Sched.shift_get _ _ _
    rw [e0]
    cases ht : w1.sched.tasks[k]? with
    | none => simp only [Option.map_none]; exact ih w1 h
    | some t =>
      simp only [Option.map_some, Sched.shiftTask_done]
      by_cases hd : t.done = true
      · simp only [hd, Bool.not_true, Bool.false_eq_true, if_false]
        exact ih w1 h
      · have hd' : t.done = false := by simpa using hd
        simp only [hd', Bool.not_false, if_true]
        rw [pollTask_lift post0 hc j base preS w1 h hj k]
        exact ih _ (h.pollTask k)

theorem runLoop_lift (post0 : List St1) (hc : calmSt post0) (j : Nat) (base : TW) (preS : List St1)
    (hj : preS.length = j) (f : Nat) : ∀ (w1 : TW), One1 w1 →
    TW.runLoop f (lift post0 j base preS w1) = lift post0 j base preS (TW.runLoop f w1) := by
  induction f with
  | zero => intro w1 _; rfl
  | succ f ih =>
    intro w1 h
    rw [runLoop_succ', runLoop_succ']
    have e0 : (lift post0 j base preS w1).sched = w1.sched.shift j := rfl
    have e2 : ∀ s : Sched, readyOf (s.shift j) = readyOf s := fun s => Sched.shift_ready s j
    simp only [e0, Sched.shift_dueTimers, Sched.shift_fireAll, e2]
    rw [lift_setSched]
    have h1 : One1 { w1 with sched := w1.sched.dueTimers.foldl Sched.fire w1.sched } :=
      h.setSched _ (h.emitOnly.fireAll _)
    split
    · rfl
    · rw [pollAll_lift post0 hc j base preS hj _ _ h1]
      exact ih _ (One1.pollAll _ h1).1

/-! ### feeding the head -/

/-- The one-stage world after its stage received `mid` (directly, not through the subject). -/
theorem push_many_one1 (mid : List Notif) : ∀ (w : TW) (T : Stage), w.stages = [T] → T.isMover = true →
    mid.foldl (fun w m => w.push 0 [m]) w =
      { w with stages := [(mid.foldl (feedT 0) (T, [], w.sched)).1],
               sched := (mid.foldl (feedT 0) (T, [], w.sched)).2.2,
               log := w.log ++ (mid.foldl (feedT 0) (T, [], w.sched)).2.1 } := by
  induction mid with
  | nil => intro w T hs _; cases w; simp_all
  | cons m r ih =>
    intro w T hs hT
    have hm := T.onNotif_mover hT 0 m w.sched
    simp only [List.foldl_cons]
    rw [TW.push_zero w T m hs, Stage.afterEmit_mover _ hm.1]
    rw [ih _ (T.onNotif 0 m w.sched).1 rfl hm.1]
    simp only [feedT, List.nil_append]
    rw [feedT_acc 0 r _ ((T.onNotif 0 m w.sched).2.1)]
    simp [List.append_assoc]

theorem Stage.onNotif_shift (T : Stage) (hT : T.isMover = true) (j : Nat) (m : Notif) (s : Sched) :
    T.onNotif j m (s.shift j) = ((T.onNotif 0 m s).1, (T.onNotif 0 m s).2.1, (T.onNotif 0 m s).2.2.shift j) := by
  have e : ∀ n, Body.emit j n = shiftBody j (.emit 0 n) := by intro n; simp [shiftBody]
  cases T with
  | delay d a mu =>
    cases m with
    | error er => rfl
    | next v =>
      simp only [Stage.onNotif, e, Sched.shift_scheduleOnce]
    | complete =>
      simp only [Stage.onNotif, e, Sched.shift_scheduleOnce]
  | observeOn a mu =>
    simp only [Stage.onNotif, e, Sched.shift_scheduleOnce]
  | _ => simp [Stage.isMover] at hT

theorem feedT_shift (j : Nat) (mid : List Notif) : ∀ (T : Stage) (acc : List Notif) (s : Sched), T.isMover = true →
    mid.foldl (feedT j) (T, acc, s.shift j) =
      ((mid.foldl (feedT 0) (T, acc, s)).1, (mid.foldl (feedT 0) (T, acc, s)).2.1,
       (mid.foldl (feedT 0) (T, acc, s)).2.2.shift j) := by
  induction mid with
  | nil => intro T acc s _; rfl
  | cons m r ih =>
    intro T acc s hT
    simp only [List.foldl_cons, feedT]
    rw [T.onNotif_shift hT j m s]
    exact ih _ _ _ (T.onNotif_mover hT 0 m s).1

/-- Feeding a notification at the head of the lifted world = feeding the one-stage world
    what `pre` outputs for it. -/
theorem push_lift_head (post0 : List St1) (hc : calmSt post0) (j : Nat) (base : TW) (preS : List St1)
    (hcp : calmSt preS) (w1 : TW) (T : Stage) (hs : w1.stages = [T]) (hT : T.isMover = true)
    (hj : preS.length = j) (n : Notif) :
    (lift post0 j base preS w1).push 0 [n] =
      lift post0 j base (runChain preS [n]).1
        ((runChain preS [n]).2.foldl (fun w m => w.push 0 [m]) w1) := by
  have hP := calmSt_runChain post0 w1.log hc
  rw [push_many_one1 _ w1 T hs hT]
  unfold TW.push
  simp only [List.take_zero, List.drop_zero, List.nil_append]
  rw [lift_stages _ _ _ _ _ T hs]
  unfold cascade
  rw [cascadeF_comp j preS hj hcp [n] T hT _ hP 0 _ _
    (by simp [runChain_length, hj]; omega)]
  simp only [Nat.zero_add]
  have e0 : (lift post0 j base preS w1).sched = w1.sched.shift j := rfl
  rw [e0, feedT_shift j _ T [] w1.sched hT]
  simp only [lift, runChain_append]
  simp

end Rx.T
