import RxModel.Lemmas.SchedRuns
/-
  Helper lemmas for C19, part 7: histories from the empty scheduler split at the
  action that schedules / cancels the task in question, and the proofs of the
  statements of Props/C19.lean.
-/
namespace Rx.T
open Sched

/-! ### histories from the empty scheduler, split at one action -/
theorem wf_stateAfter (as : List SAct) : Sched.WF (stateAfter as) := wf_execFrom _ as wf_empty

theorem execAll_append (pre post : List SAct) :
    execAll (pre ++ post) =
      ((execFrom (stateAfter pre) post).1, runLog pre ++ (execFrom (stateAfter pre) post).2) :=
  execFrom_append _ pre post

theorem stateAfter_append (pre post : List SAct) :
    stateAfter (pre ++ post) = (execFrom (stateAfter pre) post).1 := by
  simp only [stateAfter, execAll_append]
theorem runLog_append (pre post : List SAct) :
    runLog (pre ++ post) = runLog pre ++ (execFrom (stateAfter pre) post).2 := by
  simp only [runLog, execAll_append]
theorem runLog_split (pre : List SAct) (a : SAct) (post : List SAct) :
    runLog (pre ++ a :: post) =
      runLog pre ++ (((stateAfter pre).exec a).2 ++ (execFrom ((stateAfter pre).exec a).1 post).2) := by
  rw [runLog_append, execFrom_cons]

/-- No run of a task before it is scheduled. -/
theorem runsOf_before (pre : List SAct) (k : Nat) (h : nextTask pre ≤ k) : runsOf k (runLog pre) = [] := by
  apply runsOf_eq_nil
  intro r hr e
  have := (execFrom_runs _ pre r hr).1
  have h' : (stateAfter pre).tasks.length ≤ k := h
  have e' : r.task = k := e
  rw [e'] at this
  exact absurd this (Nat.not_lt.mpr h')

theorem runsOf_split_new (pre : List SAct) (a : SAct) (post : List SAct)
    (ha : ((stateAfter pre).exec a).2 = []) :
    runsOf (nextTask pre) (runLog (pre ++ a :: post)) =
      runsOf (nextTask pre) (execFrom ((stateAfter pre).exec a).1 post).2 := by
  rw [runLog_split, runsOf_append, runsOf_before pre _ (Nat.le_refl _), ha]; rfl

/-! ### the state right after scheduling -/
theorem holds_scheduleOnce (s : Sched) (b : Body) (d : Option Nat) :
    Holds onceP (s.exec (.scheduleOnce b d)).1 s.tasks.length ∧
    Holds (earlyP (s.now + d.getD 0)) (s.exec (.scheduleOnce b d)).1 s.tasks.length := by
  refine ⟨⟨_, scheduleOnce_get_new s b d, rfl⟩, ⟨_, scheduleOnce_get_new s b d, Or.inr ?_⟩⟩
  cases d with
  | none => simp [Sched.exec]
  | some d => simp [Sched.exec]

theorem holds_scheduleRepeat (s : Sched) (b : Body) (p : Nat) (d : Option Nat) :
    Holds (repAtP 0) (s.exec (.scheduleRepeat b p d)).1 s.tasks.length ∧
    Holds (repLoP 0 p) (s.exec (.scheduleRepeat b p d)).1 s.tasks.length ∧
    Holds (repEarlyP (s.now + d.getD 0) (s.now + p) p) (s.exec (.scheduleRepeat b p d)).1
      s.tasks.length := by
  have hd : (s.exec (.scheduleRepeat b p d)).1.tdue s.timers.length = some (s.now + p) := by
    simp only [Sched.exec, scheduleRepeat_tdue, if_true]
  refine ⟨⟨_, scheduleRepeat_get_new s b p d, Or.inr ⟨_, _, rfl⟩⟩,
    ⟨_, scheduleRepeat_get_new s b p d, Or.inr ⟨_, _, _, rfl, hd, Nat.zero_le _⟩⟩,
    ⟨_, scheduleRepeat_get_new s b p d, Or.inr ?_, Or.inr ⟨_, _, _, rfl, hd, by simp, by simp⟩⟩⟩
  cases d with
  | none => simp [Sched.exec]
  | some d => simp [Sched.exec]

/-! ### flags are monotone -/
def doneP (_ : Sched) (t : Task) : Prop := t.done = true
def stoppedP (_ : Sched) (t : Task) : Prop := t.keepRunning = false

theorem done_inv (k : TaskId) : TaskInv k doneP (fun _ => True) := by
  constructor
  · rintro s s' t t' _ ⟨w, rfl⟩ h; exact h
  · intro s t h; exact h
  · intro s c t wf ht hp
    refine poll_task_elim s k c t ht (motive := fun s' t' runs => doneP s' t' ∧ ∀ r ∈ runs, True)
      ?_ ?_ ?_ ?_ ?_ ?_ ?_ ?_
    all_goals
      intros
      simp_all [doneP]

theorem stopped_inv (k : TaskId) : TaskInv k stoppedP (fun _ => True) := by
  constructor
  · rintro s s' t t' _ ⟨w, rfl⟩ h; exact h
  · intro s t h; rfl
  · intro s c t wf ht hp
    refine poll_task_elim s k c t ht (motive := fun s' t' runs => stoppedP s' t' ∧ ∀ r ∈ runs, True)
      ?_ ?_ ?_ ?_ ?_ ?_ ?_ ?_
    all_goals
      intros
      simp_all [stoppedP]

/-! ### the statements of Props/C19.lean -/
theorem once_main (pre post : List SAct) (b : Body) (d : Option Nat) :
    (runsOf (nextTask pre) (runLog (pre ++ .scheduleOnce b d :: post))).length ≤ 1 := by
  rw [runsOf_split_new pre _ post rfl]
  exact once_count _ post _ (wf_exec _ _ (wf_stateAfter pre)) (holds_scheduleOnce _ b d).1

theorem once_no_seq_main (pre post : List SAct) (b : Body) (d : Option Nat) :
    ∀ r ∈ runsOf (nextTask pre) (runLog (pre ++ .scheduleOnce b d :: post)), r.seq = none := by
  rw [runsOf_split_new pre _ post rfl]
  intro r hr
  rw [mem_runsOf] at hr
  exact ((once_inv _).execFrom post _ (wf_exec _ _ (wf_stateAfter pre))
    (holds_scheduleOnce _ b d).1).2 r hr.1 hr.2

theorem repeat_seq_main (pre post : List SAct) (b : Body) (p : Nat) (d : Option Nat) :
    (runsOf (nextTask pre) (runLog (pre ++ .scheduleRepeat b p d :: post))).map (·.seq) =
      (List.range (runsOf (nextTask pre)
        (runLog (pre ++ .scheduleRepeat b p d :: post))).length).map some := by
  rw [runsOf_split_new pre _ post rfl, List.range_eq_range']
  exact rep_seq _ post _ 0 (wf_exec _ _ (wf_stateAfter pre)) (holds_scheduleRepeat _ b p d).1

theorem never_early_once_main (pre post : List SAct) (b : Body) (d : Option Nat) :
    ∀ r ∈ runsOf (nextTask pre) (runLog (pre ++ .scheduleOnce b d :: post)),
      clockAfter pre + d.getD 0 ≤ r.time := by
  rw [runsOf_split_new pre _ post rfl]
  intro r hr
  rw [mem_runsOf] at hr
  exact ((early_inv _ _).execFrom post _ (wf_exec _ _ (wf_stateAfter pre))
    (holds_scheduleOnce _ b d).2).2 r hr.1 hr.2

theorem never_early_repeat_main (pre post : List SAct) (b : Body) (p : Nat) (d : Option Nat) :
    ∀ r ∈ runsOf (nextTask pre) (runLog (pre ++ .scheduleRepeat b p d :: post)),
      ∀ n, r.seq = some n → clockAfter pre + max (d.getD 0) p + n * p ≤ r.time := by
  rw [runsOf_split_new pre _ post rfl]
  intro r hr n hn
  rw [mem_runsOf] at hr
  have := ((repEarly_inv _ _ _ _).execFrom post _ (wf_exec _ _ (wf_stateAfter pre))
    (holds_scheduleRepeat _ b p d).2.2).2 r hr.1 hr.2 n hn
  have e : clockAfter pre = (stateAfter pre).now := rfl
  omega

theorem repeat_spacing_main (pre post : List SAct) (b : Body) (p : Nat) (d : Option Nat) :
    List.Pairwise (fun r1 r2 : Run => r1.time + p ≤ r2.time)
      (runsOf (nextTask pre) (runLog (pre ++ .scheduleRepeat b p d :: post))) := by
  rw [runsOf_split_new pre _ post rfl]
  exact rep_spacing _ p post _ (wf_exec _ _ (wf_stateAfter pre)) (holds_scheduleRepeat _ b p d).2.1

theorem cancelled_stays_main (pre post : List SAct) (k : Nat) (hk : k < nextTask pre) :
    runsOf k (runLog (pre ++ .cancel k :: post)) = runsOf k (runLog pre) := by
  rw [runLog_split, runsOf_append, runsOf_append]
  have hk' : k < (stateAfter pre).tasks.length := hk
  obtain ⟨t, ht⟩ : ∃ t, (stateAfter pre).tasks[k]? = some t :=
    ⟨_, List.getElem?_eq_getElem hk'⟩
  have hd : Holds deadP ((stateAfter pre).exec (.cancel k)).1 k :=
    ⟨_, by simp only [Sched.exec]; exact cancel_get_self _ k t ht, Or.inl rfl⟩
  rw [dead_no_runs k post _ (wf_exec _ _ (wf_stateAfter pre)) hd]
  simp [Sched.exec, runsOf]

theorem flags_monotone_main (pre post : List SAct) (k : Nat) (t : Task)
    (h : (stateAfter pre).tasks[k]? = some t) :
    ∃ t', (stateAfter (pre ++ post)).tasks[k]? = some t' ∧
      (t.done = true → t'.done = true) ∧ (t.keepRunning = false → t'.keepRunning = false) := by
  rw [stateAfter_append]
  have fr := execFrom_frame (stateAfter pre) post
  have : k < (execFrom (stateAfter pre) post).1.tasks.length :=
    Nat.lt_of_lt_of_le (get_lt h) fr.length_le
  refine ⟨_, List.getElem?_eq_getElem this, ?_, ?_⟩
  · intro hd
    obtain ⟨t', h1, h2⟩ := ((done_inv k).execFrom post _ (wf_stateAfter pre) ⟨t, h, hd⟩).1
    rw [List.getElem?_eq_getElem this] at h1; cases h1; exact h2
  · intro hd
    obtain ⟨t', h1, h2⟩ := ((stopped_inv k).execFrom post _ (wf_stateAfter pre) ⟨t, h, hd⟩).1
    rw [List.getElem?_eq_getElem this] at h1; cases h1; exact h2

theorem done_stays_main (pre post : List SAct) (k : Nat) (t : Task)
    (h : (stateAfter pre).tasks[k]? = some t) (hd : t.done = true) :
    runsOf k (runLog (pre ++ post)) = runsOf k (runLog pre) := by
  rw [runLog_append, runsOf_append, dead_no_runs k post _ (wf_stateAfter pre) ⟨t, h, Or.inr hd⟩]
  simp

theorem closed_done (pre : List SAct) (k : Nat) (h : (stateAfter pre).handleClosed k = true) :
    ∃ t, (stateAfter pre).tasks[k]? = some t ∧ t.done = true := by
  unfold handleClosed at h
  cases ht : (stateAfter pre).tasks[k]? with
  | none => rw [ht] at h; cases h
  | some t =>
    rw [ht] at h
    exact ⟨t, rfl, (wf_stateAfter pre).value_done k t ht h⟩

theorem closed_sound_main (pre post : List SAct) (k : Nat)
    (h : (stateAfter pre).handleClosed k = true) :
    runsOf k (runLog (pre ++ post)) = runsOf k (runLog pre) := by
  obtain ⟨t, ht, hd⟩ := closed_done pre k h
  exact done_stays_main pre post k t ht hd

theorem clock_monotone_main (pre post : List SAct) : clockAfter pre ≤ clockAfter (pre ++ post) := by
  unfold clockAfter; rw [stateAfter_append]
  exact (execFrom_frame (stateAfter pre) post).now_le

theorem fired_was_due_main (as : List SAct) (tm : Nat) (t : Timer)
    (h : (stateAfter as).timers[tm]? = some t) (hf : t.fired = true) : t.due ≤ clockAfter as := by
  obtain ⟨d, h1, h2⟩ := (wf_stateAfter as).fired_due tm (by simp [timerFired, h, hf])
  simp only [tdue, h, Option.map_some, Option.some.injEq] at h1
  subst h1; exact h2

theorem fired_not_due (s : Sched) (tm : Nat) (h : s.timerFired tm = true) : tm ∉ s.dueTimers := by
  intro hm
  obtain ⟨_, _, _, hf⟩ := mem_dueTimers s tm hm
  rw [h] at hf; cases hf

theorem timer_fires_once_main (pre post : List SAct) (tm : Nat)
    (h : (stateAfter pre).timerFired tm = true) :
    (stateAfter (pre ++ post)).timerFired tm = true ∧ tm ∉ (stateAfter (pre ++ post)).dueTimers := by
  have : (stateAfter (pre ++ post)).timerFired tm = true := by
    rw [stateAfter_append]; exact (execFrom_frame (stateAfter pre) post).fired_mono tm h
  exact ⟨this, fired_not_due _ tm this⟩

theorem timer_due_fixed_main (pre post : List SAct) (tm : Nat) (t : Timer)
    (h : (stateAfter pre).timers[tm]? = some t) :
    ∃ t', (stateAfter (pre ++ post)).timers[tm]? = some t' ∧ t'.due = t.due := by
  have := (execFrom_frame (stateAfter pre) post).tdue tm t.due (by simp [tdue, h])
  rw [← stateAfter_append] at this
  simp only [tdue] at this
  cases h' : (stateAfter (pre ++ post)).timers[tm]? with
  | none => rw [h'] at this; cases this
  | some t' => rw [h'] at this; exact ⟨t', rfl, by simpa using this⟩

/-- A tick that declines (returns `false`) is the last one. -/
theorem decline_stops_main (pre post : List SAct) (k : Nat)
    (h : ((stateAfter pre).exec (.poll k false)).2 ≠ []) :
    runsOf k (runLog (pre ++ .poll k false :: post)) =
      runsOf k (runLog pre) ++ ((stateAfter pre).exec (.poll k false)).2 := by
  rw [runLog_split, runsOf_append, runsOf_append]
  cases ht : (stateAfter pre).tasks[k]? with
  | none =>
    exfalso; apply h
    simp only [Sched.exec]
    exact poll_elim _ k false (motive := fun r => r.2 = []) (fun _ => rfl)
      (fun t h => by rw [ht] at h; cases h) (fun t h => by rw [ht] at h; cases h)
      (fun t _ h => by rw [ht] at h; cases h) (fun t _ h => by rw [ht] at h; cases h)
      (fun t h => by rw [ht] at h; cases h) (fun t _ _ _ h => by rw [ht] at h; cases h)
      (fun t _ _ _ h => by rw [ht] at h; cases h) (fun t _ _ _ h => by rw [ht] at h; cases h)
  | some t =>
    simp only [Sched.exec] at h ⊢
    obtain ⟨t', ht', hm⟩ := poll_task_elim (stateAfter pre) k false t ht
      (motive := fun s' t' runs => runs ≠ [] → t'.done = true ∧ runsOf k runs = runs)
      (fun _ h => absurd rfl h) (fun _ _ h => absurd rfl h) (fun _ _ _ _ h => absurd rfl h)
      (fun _ _ _ _ _ _ h => absurd rfl h) (fun _ _ _ _ _ _ => ⟨rfl, runsOf_single k _ _⟩)
      (fun _ _ _ _ _ _ _ _ _ h => absurd rfl h)
      (fun _ _ _ _ _ _ _ _ _ _ _ => ⟨rfl, runsOf_single k _ _⟩)
      (fun _ _ _ _ _ _ _ _ _ hc => by cases hc)
    obtain ⟨hd, hr⟩ := hm h
    have wf' : Sched.WF ((stateAfter pre).poll k false).1 := by
      have := wf_exec _ (.poll k false) (wf_stateAfter pre)
      simpa only [Sched.exec] using this
    rw [dead_no_runs k post _ wf' ⟨t', ht', Or.inr hd⟩, hr]; simp

/-- The `i`-th run (counting from 0) of a RepeatTask is its tick number `i`. -/
theorem repeat_nth_seq_main (pre post : List SAct) (b : Body) (p : Nat) (d : Option Nat) (i : Nat) (r : Run)
    (h : (runsOf (nextTask pre) (runLog (pre ++ .scheduleRepeat b p d :: post)))[i]? = some r) :
    r.seq = some i := by
  have hs := repeat_seq_main pre post b p d
  have hi := get_lt h
  have h1 : ((runsOf (nextTask pre) (runLog (pre ++ .scheduleRepeat b p d :: post))).map (·.seq))[i]?
      = some r.seq := by rw [List.getElem?_map, h]; rfl
  rw [hs, List.getElem?_map, List.getElem?_range hi] at h1
  simpa using h1.symm

theorem never_early_repeat_nth_main (pre post : List SAct) (b : Body) (p : Nat) (d : Option Nat)
    (i : Nat) (r : Run)
    (h : (runsOf (nextTask pre) (runLog (pre ++ .scheduleRepeat b p d :: post)))[i]? = some r) :
    clockAfter pre + max (d.getD 0) p + i * p ≤ r.time :=
  never_early_repeat_main pre post b p d r (List.mem_of_getElem? h) i
    (repeat_nth_seq_main pre post b p d i r h)

end Rx.T
