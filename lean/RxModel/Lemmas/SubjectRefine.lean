import RxModel.Lemmas.SubjectBcast
/-
  Every operation of the concrete subject is simulated by the abstract spec
  (`apply_sim`), hence every history (`runFrom_refines`).
-/
namespace Rx.Subj

/-- shape of `load` under the invariant -/
theorem load_some (s : State) (hI : Inv s) (obs : List SlotId) (ho : s.observers = some obs) :
    ∃ ch, s.chamber = some ch ∧
      s.load = { s with observers := some (obs ++ ch), chamber := some [] } := by
  have hc := hI.cham (by simp [ho])
  cases hch : s.chamber with
  | none => simp [hch] at hc
  | some ch => exact ⟨ch, rfl, by simp [State.load, ho, hch]⟩

theorem load_none (s : State) (ho : s.observers = none) : s.load = s := by
  simp [State.load, ho]

theorem load_props (s : State) (hI : Inv s) :
    s.load.abs = s.abs ∧ Inv s.load ∧ s.load.panicked = s.panicked := by
  cases ho : s.observers with
  | none => rw [load_none s ho]; exact ⟨rfl, hI, rfl⟩
  | some obs =>
    obtain ⟨ch, hch, hl⟩ := load_some s hI obs ho
    rw [hl]
    obtain ⟨hc, hb, hn⟩ := hI
    simp only [State.entries, ho, hch, Option.getD_some] at hb hn
    refine ⟨?_, ⟨fun _ => rfl, ?_, ?_⟩, rfl⟩
    · simp [State.abs, State.absLive, State.entries, ho, hch]
    · simpa [State.entries] using hb
    · simpa [State.entries] using hn

theorem next_sim (s : State) (hI : Inv s) (hp : s.panicked = false) (greet : Option Val) (v : Val) :
    (s.next greet v).2 = (s.abs.next greet v).2 ∧ (s.next greet v).1.abs = (s.abs.next greet v).1 ∧
    Inv (s.next greet v).1 := by
  obtain ⟨hla, hlI, hlp⟩ := load_props s hI
  have hpl : s.load.panicked = false := by rw [hlp, hp]
  unfold State.next Abs.next
  simp only [hpl, Bool.false_eq_true, if_false]
  cases ho : s.load.observers with
  | none =>
    have hd : s.abs.done = true := by
      rw [← hla]; simp [State.abs, ho]
    simp only [hd, if_true]
    exact ⟨by simp, hla, hlI⟩
  | some obs =>
    have hd : s.abs.done = false := by
      rw [← hla]; simp [State.abs, ho]
    simp only [hd, Bool.false_eq_true, if_false]
    have hb := bcast_sim greet v obs s.load hlI obs ho (fun _ h => h)
    rw [hla] at hb
    -- the snapshot of the spec is the alive part of the loaded list
    have hlive : s.abs.live = obs.filter (aliveAt s.load.slots) := by
      rw [← hla]
      cases ho0 : s.observers with
      | none => rw [load_none s ho0] at ho; rw [ho0] at ho; cases ho
      | some o =>
        obtain ⟨ch, hch, hl⟩ := load_some s hI o ho0
        rw [hl] at ho ⊢
        simp only [Option.some.injEq] at ho
        simp [State.abs, State.absLive, State.entries, ho]
    have hf := abcast_filter greet v (aliveAt s.load.slots) obs s.abs (by simpa [State.abs] using hp)
      (fun i _ hal hm => by
        rw [hlive] at hm
        have := (List.mem_filter.mp hm).2
        rw [hal] at this; cases this)
      (fun i hi => by
        have := hlI.bound i (by simp [State.entries, ho, hi])
        have e : s.abs.scripts.length = s.load.slots.length := by
          rw [← hla]; simp [State.abs]
        rw [e]; exact this)
    rw [hlive, hf]
    exact ⟨hb.1, hb.2.1, hb.2.2.1⟩

theorem term_props (n : Notif) : ∀ (xs : List SlotId) (s : State), xs.Nodup →
    (term n s xs).2 = (xs.filter (aliveAt s.slots)).map (·, n) ∧
    (term n s xs).1.observers = s.observers ∧ (term n s xs).1.chamber = s.chamber ∧
    (term n s xs).1.panicked = s.panicked ∧
    (term n s xs).1.slots.map (·.script) = s.slots.map (·.script) ∧
    (term n s xs).1.slots.length = s.slots.length
  | [], s, _ => ⟨rfl, rfl, rfl, rfl, rfl, rfl⟩
  | i :: r, s, hn => by
    have hir : i ∉ r := (List.nodup_cons.mp hn).1
    have hr : r.Nodup := (List.nodup_cons.mp hn).2
    unfold term
    cases hal : aliveAt s.slots i with
    | false =>
      simp only [Bool.false_eq_true, if_false, List.filter_cons, hal]
      exact term_props n r s hr
    | true =>
      simp only [if_true, List.filter_cons, hal]
      have ih := term_props n r { s with slots := modSlot (Slot.finish n) s.slots i } hr
      have hfl : r.filter (aliveAt (modSlot (Slot.finish n) s.slots i)) = r.filter (aliveAt s.slots) := by
        apply List.filter_congr
        intro j hj
        rw [aliveAt_finish]
        have : j ≠ i := fun e => hir (e ▸ hj)
        simp [this]
      refine ⟨?_, ih.2.1, ih.2.2.1, ih.2.2.2.1, ?_, ?_⟩
      · show _ :: _ = _
        rw [ih.1, hfl]; rfl
      · rw [ih.2.2.2.2.1]; exact modSlot_map_script _ (by intro x; rfl) _ _
      · rw [ih.2.2.2.2.2]; exact modSlot_length _ _ _

theorem terminal_sim (s : State) (hI : Inv s) (hp : s.panicked = false) (n : Notif) :
    (s.terminal n).2 = (s.abs.terminal n).2 ∧ (s.terminal n).1.abs = (s.abs.terminal n).1 ∧
    Inv (s.terminal n).1 := by
  unfold State.terminal Abs.terminal
  cases ho : s.observers with
  | none =>
    rw [load_none s ho]
    have hd : s.abs.done = true := by simp [State.abs, ho]
    simp only [hp, Bool.false_eq_true, if_false, ho, hd, if_true]
    exact ⟨by simp, by simp, hI⟩
  | some obs =>
    obtain ⟨ch, hch, hl⟩ := load_some s hI obs ho
    have hd : s.abs.done = false := by simp [State.abs, ho]
    have hnd : (obs ++ ch).Nodup := by
      have := hI.nodup; simpa [State.entries, ho, hch] using this
    rw [hl]
    simp only [hp, Bool.false_eq_true, if_false, hd]
    have ht := term_props n (obs ++ ch)
      { observers := none, chamber := some [], slots := s.slots, panicked := false } hnd
    dsimp only at ht
    obtain ⟨t2, to, tc, tp, ts, tl⟩ := ht
    refine ⟨?_, ?_, ⟨?_, ?_, ?_⟩⟩
    · rw [t2]; simp [State.abs, State.absLive, State.entries, ho, hch]
    · simp only [State.abs, State.absLive, to, tp, ts]
      simp [hp]
    · intro h; rw [to] at h; cases h
    · simp [State.entries, to, tc]
    · simp [State.entries, to, tc]

theorem retain_sim (s : State) (hI : Inv s) : s.retain.abs = s.abs ∧ Inv s.retain := by
  unfold State.retain
  cases ho : s.observers with
  | none => exact ⟨rfl, hI⟩
  | some obs =>
    obtain ⟨hc, hb, hn⟩ := hI
    simp only [State.entries, ho, Option.getD_some] at hb hn
    refine ⟨?_, ⟨?_, ?_, ?_⟩⟩
    · simp [State.abs, State.absLive, State.entries, ho, List.filter_filter]
    · intro _; exact hc (by simp [ho])
    · intro i hi
      simp only [State.entries, Option.getD_some] at hi
      apply hb
      rcases List.mem_append.mp hi with h | h
      · exact List.mem_append.mpr (Or.inl (List.mem_filter.mp h).1)
      · exact List.mem_append.mpr (Or.inr h)
    · simp only [State.entries, Option.getD_some]
      exact List.Nodup.sublist (List.Sublist.append List.filter_sublist (List.Sublist.refl _)) hn

theorem unsubscribe_sim (s : State) : s.unsubscribe.abs = s.abs.unsubscribe ∧ Inv s.unsubscribe := by
  refine ⟨by simp [State.unsubscribe, State.abs, State.absLive, Abs.unsubscribe], ⟨?_, ?_, ?_⟩⟩
  · intro h; simp [State.unsubscribe] at h
  · simp [State.entries, State.unsubscribe]
  · simp [State.entries, State.unsubscribe]

theorem apply_sim (s : State) (hI : Inv s) (hp : s.panicked = false) (op : SubjOp) :
    (s.apply op).2 = (s.abs.apply op).2 ∧ (s.apply op).1.abs = (s.abs.apply op).1 ∧ Inv (s.apply op).1 := by
  cases op with
  | subscribe sc => have h := abs_subscribe s hI sc []; exact ⟨rfl, h.1, h.2⟩
  | unsubOne i => have h := abs_killSlot s hI i; exact ⟨rfl, h.1, h.2⟩
  | next v => exact next_sim s hI hp none v
  | error e => exact terminal_sim s hI hp (.error e)
  | complete => exact terminal_sim s hI hp .complete
  | retain => have h := retain_sim s hI; exact ⟨rfl, h.1, h.2⟩
  | unsubscribe => have h := unsubscribe_sim s; exact ⟨rfl, h.1, h.2⟩
  | clone => exact ⟨rfl, rfl, hI⟩

/-- under the invariant the size queries never hit the `unwrap()` panic -/
theorem len?_some (s : State) (hI : Inv s) : s.len?.isNone = false := by
  unfold State.len?
  cases ho : s.observers with
  | none => rfl
  | some obs =>
    have := hI.cham (by simp [ho])
    cases hch : s.chamber with
    | none => simp [hch] at this
    | some ch => rfl

theorem step_sim (s : State) (hI : Inv s) (hp : s.panicked = false) (op : SubjOp) :
    (step s op).2.vis = (s.abs.step op).2 ∧ (step s op).1.abs = (s.abs.step op).1 ∧ Inv (step s op).1 := by
  obtain ⟨h1, h2, h3⟩ := apply_sim s hI hp op
  refine ⟨?_, h2, h3⟩
  simp only [step, Abs.step, Output.vis, State.output, len?_some _ h3, Bool.or_false]
  rw [← h2, h1]
  rfl

theorem runFrom_refines : ∀ (ops : List SubjOp) (s : State), Inv s → s.panicked = false →
    (runFrom s ops).map Output.vis = Abs.runFrom s.abs ops
  | [], _, _, _ => rfl
  | op :: r, s, hI, hp => by
    obtain ⟨h1, h2, h3⟩ := step_sim s hI hp op
    have hpan : (step s op).2.panic = (s.abs.step op).2.panic := by rw [← h1]; rfl
    unfold runFrom Abs.runFrom
    simp only [hpan]
    by_cases hq : (s.abs.step op).2.panic = true
    · simp only [if_pos hq, List.map_cons, List.map_nil, h1]
    · simp only [if_neg hq, List.map_cons, h1]
      have hp' : (step s op).1.panicked = false := by
        have : (s.abs.step op).2.panic = (step s op).1.panicked := by
          show (s.abs.step op).1.panicked = _
          rw [← h2]; rfl
        rw [← this]; simpa using hq
      rw [runFrom_refines r (step s op).1 h3 hp', h2]

/-- size bookkeeping of a state satisfying the invariant -/
theorem len_bookkeeping (s : State) (hI : Inv s) :
    s.len? = some (match s.observers with
      | none => 0
      | some obs => obs.length + (s.chamber.getD []).length) ∧
    s.isEmpty = (s.len == 0) ∧ s.isClosed = s.isFinished ∧ (s.isFinished = true → s.len = 0) := by
  cases ho : s.observers with
  | none => simp [State.len?, State.len, State.isEmpty, State.isClosed, State.isFinished, ho]
  | some obs =>
    have := hI.cham (by simp [ho])
    cases hch : s.chamber with
    | none => simp [hch] at this
    | some ch =>
      simp only [State.len?, State.len, State.isEmpty, State.isClosed, State.isFinished, ho, hch,
        Option.getD_some, Option.isNone_some, Bool.false_eq_true, false_implies, and_true, true_and]
      cases obs <;> cases ch <;> simp

theorem runFrom_all (P : Output → Prop) (hP : ∀ s, Inv s → ∀ ds, P (s.output ds)) :
    ∀ (ops : List SubjOp) (s : State), Inv s → s.panicked = false → ∀ o ∈ runFrom s ops, P o
  | [], _, _, _, o, ho => by simp [runFrom] at ho
  | op :: r, s, hI, hp, o, ho => by
    have h3 : Inv (step s op).1 := (apply_sim s hI hp op).2.2
    have hP1 : P (step s op).2 := hP _ h3 _
    unfold runFrom at ho
    by_cases hq : (step s op).2.panic = true
    · simp only [if_pos hq, List.mem_singleton] at ho
      rw [ho]; exact hP1
    · simp only [if_neg hq, List.mem_cons] at ho
      rcases ho with ho | ho
      · rw [ho]; exact hP1
      · have hp' : (step s op).1.panicked = false := by
          have h4 : (step s op).2.panic = ((step s op).1.panicked || (step s op).1.len?.isNone) := rfl
          rw [h4, len?_some _ h3, Bool.or_false] at hq
          simpa using hq
        exact runFrom_all P hP r _ h3 hp' o ho

end Rx.Subj
