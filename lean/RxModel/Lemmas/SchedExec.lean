import RxModel.Lemmas.SchedStep
/-
  Helper lemmas for C19, part 3: what one action (`Sched.exec`) does to the
  clock, the timers (`Frame`) and to each task; the reachable-state invariant `WF`.
-/
namespace Rx.T
namespace Sched

/-- What every action guarantees about the clock, the timers and the task table size. -/
structure Frame (s s' : Sched) : Prop where
  now_le : s.now ≤ s'.now
  tdue : ∀ tm d, s.tdue tm = some d → s'.tdue tm = some d
  fired_mono : ∀ tm, s.timerFired tm = true → s'.timerFired tm = true
  fired_inv : ∀ tm, s'.timerFired tm = true →
    s.timerFired tm = true ∨ ∃ d, s.tdue tm = some d ∧ d ≤ s.now
  length_le : s.tasks.length ≤ s'.tasks.length

theorem Frame.refl (s : Sched) : Frame s s :=
  ⟨Nat.le_refl _, fun _ _ h => h, fun _ h => h, fun _ h => Or.inl h, Nat.le_refl _⟩

theorem mem_dueTimers (s : Sched) (tm : TimerId) (h : tm ∈ s.dueTimers) :
    ∃ d, s.tdue tm = some d ∧ d ≤ s.now ∧ s.timerFired tm = false := by
  simp only [dueTimers, List.mem_filter, List.mem_range] at h
  obtain ⟨_, h2⟩ := h
  cases ht : s.timers[tm]? with
  | none => simp [ht] at h2
  | some t =>
    simp [ht] at h2
    exact ⟨t.due, by simp [tdue, ht], h2.2, by simp [timerFired, ht, h2.1]⟩

theorem Frame.of_quiet {s s' : Sched} (hn : s.now ≤ s'.now)
    (hd : ∀ tm d, s.tdue tm = some d → s'.tdue tm = some d)
    (hf : ∀ tm, s'.timerFired tm = s.timerFired tm)
    (hl : s.tasks.length ≤ s'.tasks.length) : Frame s s' :=
  ⟨hn, hd, fun tm h => by rw [hf]; exact h, fun tm h => by rw [hf] at h; exact Or.inl h, hl⟩

theorem poll_frame (s : Sched) (k c) : Frame s (s.poll k c).1 := by
  refine poll_elim s k c (motive := fun r => Frame s r.1) ?_ ?_ ?_ ?_ ?_ ?_ ?_ ?_ ?_
  · intro _; exact Frame.refl s
  · intro _ _ _; exact Frame.refl s
  · intro t _ _ _; apply Frame.of_quiet <;> simp
  · intro t d _ _ _ _
    apply Frame.of_quiet <;> simp
    intro tm due h; exact newTimer_tdue_old _ _ _ _ _ h
  · intro t tm _ _ _ _ _ _; apply Frame.of_quiet <;> simp
  · intro t _ _ _ _ _ _; apply Frame.of_quiet <;> simp
  · intro t fur iv seq _ _ _ _ _ _ _; apply Frame.of_quiet <;> simp
  · intro t fur iv seq _ _ _ _ _ _ _ _; apply Frame.of_quiet <;> simp
  · intro t fur iv seq _ _ _ _ _ _ _ _
    apply Frame.of_quiet <;> simp
    intro tm due h; exact newTimer_tdue_old _ _ _ _ _ h

theorem exec_frame (s : Sched) (a : SAct) : Frame s (s.exec a).1 := by
  cases a with
  | scheduleOnce b d => apply Frame.of_quiet <;> simp [exec]
  | scheduleRepeat b p d =>
    apply Frame.of_quiet <;> simp [exec]
    intro tm due h; exact scheduleRepeat_tdue_old _ _ _ _ _ _ h
  | cancel k => apply Frame.of_quiet <;> simp [exec]
  | adv d =>
    apply Frame.of_quiet <;> simp [exec]
    · intro tm d h; exact h
    · intro tm; rfl
  | fire tm =>
    simp only [exec]
    by_cases hm : s.dueTimers.contains tm = true
    · rw [if_pos hm]
      have hm' : tm ∈ s.dueTimers := by simpa using hm
      obtain ⟨d, hd, hle, _⟩ := mem_dueTimers s tm hm'
      constructor <;> simp [fire_timerFired]
      · intro i h; exact Or.inl h
      · intro i h
        rcases h with h | ⟨e, _⟩
        · exact Or.inl h
        · subst e; exact Or.inr ⟨d, hd, hle⟩
    · rw [if_neg hm]; exact Frame.refl s
  | poll k c => exact poll_frame s k c

/-! ### tasks under one action -/
theorem poll_get_ne (s : Sched) (k c) (j : TaskId) (h : j ≠ k) :
    (s.poll k c).1.tasks[j]? = s.tasks[j]? := by
  refine poll_elim s k c (motive := fun r => r.1.tasks[j]? = s.tasks[j]?) ?_ ?_ ?_ ?_ ?_ ?_ ?_ ?_ ?_
  all_goals intros
  all_goals first | rfl | (rw [setTask_get_ne _ _ _ _ h]; try simp)

theorem poll_length (s : Sched) (k c) : (s.poll k c).1.tasks.length = s.tasks.length := by
  refine poll_elim s k c (motive := fun r => r.1.tasks.length = s.tasks.length) ?_ ?_ ?_ ?_ ?_ ?_ ?_ ?_ ?_
  all_goals intros
  all_goals simp

theorem poll_runs (s : Sched) (k c) (r : Run) (h : r ∈ (s.poll k c).2) :
    r.task = k ∧ r.time = s.now ∧ (s.poll k c).2 = [r] ∧ k < s.tasks.length := by
  revert h
  refine poll_elim s k c (motive := fun x => r ∈ x.2 →
    r.task = k ∧ r.time = s.now ∧ x.2 = [r] ∧ k < s.tasks.length) ?_ ?_ ?_ ?_ ?_ ?_ ?_ ?_ ?_
  all_goals intros
  all_goals simp_all
  all_goals exact get_lt (by assumption)

/-- The length of the task table changes only by scheduling. -/
theorem exec_length (s : Sched) (a : SAct) :
    (s.exec a).1.tasks.length =
      match a with
      | .scheduleOnce _ _ => s.tasks.length + 1
      | .scheduleRepeat _ _ _ => s.tasks.length + 1
      | _ => s.tasks.length := by
  cases a with
  | scheduleOnce b d => simp [exec]
  | scheduleRepeat b p d => simp [exec]
  | cancel k => simp [exec]
  | adv d => simp [exec]
  | fire tm => simp only [exec]; split <;> simp
  | poll k c => simp only [exec]; exact poll_length s k c

/-- Only `poll k` and `cancel k` touch task `k` (apart from its wake-up flag). -/
theorem exec_task_other (s : Sched) (a : SAct) (j : TaskId) (t : Task) (h : s.tasks[j]? = some t)
    (hp : ∀ c, a ≠ .poll j c) (hc : a ≠ .cancel j) :
    ∃ t', (s.exec a).1.tasks[j]? = some t' ∧ Task.sameCore t t' := by
  cases a with
  | scheduleOnce b d => exact ⟨t, scheduleOnce_get_old _ _ _ _ _ h, Task.sameCore_refl t⟩
  | scheduleRepeat b p d => exact ⟨t, scheduleRepeat_get_old _ _ _ _ _ _ h, Task.sameCore_refl t⟩
  | cancel k =>
    have : j ≠ k := fun e => hc (by rw [e])
    exact ⟨t, by simp only [exec]; rw [cancel_get_ne _ _ _ this]; exact h, Task.sameCore_refl t⟩
  | adv d => exact ⟨t, h, Task.sameCore_refl t⟩
  | fire tm =>
    simp only [exec]; split
    · exact fire_get s tm j t h
    · exact ⟨t, h, Task.sameCore_refl t⟩
  | poll k c =>
    have : j ≠ k := fun e => hp c (by rw [e])
    exact ⟨t, by simp only [exec]; rw [poll_get_ne _ _ _ _ this]; exact h, Task.sameCore_refl t⟩

/-- Every entry of the run log comes from a `poll` of an existing task, at the current clock value. -/
theorem exec_runs (s : Sched) (a : SAct) (r : Run) (h : r ∈ (s.exec a).2) :
    (∃ c, a = .poll r.task c) ∧ r.time = s.now ∧ (s.exec a).2 = [r] ∧ r.task < s.tasks.length := by
  cases a with
  | poll k c =>
    obtain ⟨h1, h2, h3, h4⟩ := poll_runs s k c r h
    exact ⟨⟨c, by rw [h1]⟩, h2, h3, by rw [h1]; exact h4⟩
  | _ => simp [exec] at h

/-- A task that appears is fresh. -/
theorem exec_new_task (s : Sched) (a : SAct) (j : Nat) (t' : Task) (h : s.tasks[j]? = none)
    (h' : (s.exec a).1.tasks[j]? = some t') :
    t'.done = false ∧ t'.hasValue = false ∧ t'.keepRunning = true := by
  have hl := exec_length s a
  have hj : s.tasks.length ≤ j := List.getElem?_eq_none_iff.mp h
  have hj' := get_lt h'
  cases a with
  | scheduleOnce b d =>
    simp only at hl
    have : j = s.tasks.length := by omega
    subst this
    simp only [exec] at h'
    rw [scheduleOnce_get_new] at h'; cases h'; exact ⟨rfl, rfl, rfl⟩
  | scheduleRepeat b p d =>
    simp only at hl
    have : j = s.tasks.length := by omega
    subst this
    simp only [exec] at h'
    rw [scheduleRepeat_get_new] at h'; cases h'; exact ⟨rfl, rfl, rfl⟩
  | cancel k => simp only at hl; omega
  | adv d => simp only at hl; omega
  | fire tm => simp only at hl; omega
  | poll k c => simp only at hl; omega

/-- `poll_elim` for a task that exists: the new state, the new record of task `k`, the runs. -/
theorem poll_task_elim (s : Sched) (k : TaskId) (c : Bool) (t : Task) (ht : s.tasks[k]? = some t)
    {motive : Sched → Task → List Run → Prop}
    (finished : t.done = true → motive s t [])
    (cancelled : t.done = false → t.keepRunning = false →
      motive (s.setTask k { t with woken := false, done := true })
        { t with woken := false, done := true } [])
    (arm : ∀ d, t.done = false → t.keepRunning = true → t.outerDelay = some d →
      motive (((s.newTimer d k).1.registerTimer s.timers.length).setTask k
          { t with woken := false, outerDelay := none, outerTimer := some s.timers.length })
        { t with woken := false, outerDelay := none, outerTimer := some s.timers.length } [])
    (waitOuter : ∀ tm, t.done = false → t.keepRunning = true →
      t.outerDelay = none → t.outerTimer = some tm → s.timerFired tm = false →
      motive ((s.registerTimer tm).setTask k { t with woken := false }) { t with woken := false } [])
    (once : t.done = false → t.keepRunning = true →
      t.outerDelay = none → s.outerReady t → t.rep = none →
      motive (s.setTask k { t with woken := false, outerTimer := none, done := true, hasValue := true })
        { t with woken := false, outerTimer := none, done := true, hasValue := true }
        [{ task := k, seq := none, time := s.now }])
    (waitPeriod : ∀ fur iv seq, t.done = false → t.keepRunning = true →
      t.outerDelay = none → s.outerReady t → t.rep = some (fur, iv, seq) → s.timerFired fur = false →
      motive ((s.registerTimer fur).setTask k { t with woken := false, outerTimer := none })
        { t with woken := false, outerTimer := none } [])
    (lastTick : ∀ fur iv seq, t.done = false → t.keepRunning = true →
      t.outerDelay = none → s.outerReady t → t.rep = some (fur, iv, seq) → s.timerFired fur = true →
      c = false →
      motive (s.setTask k { t with woken := false, outerTimer := none, done := true, hasValue := true })
        { t with woken := false, outerTimer := none, done := true, hasValue := true }
        [{ task := k, seq := some seq, time := s.now }])
    (tick : ∀ fur iv seq, t.done = false → t.keepRunning = true →
      t.outerDelay = none → s.outerReady t → t.rep = some (fur, iv, seq) → s.timerFired fur = true →
      c = true →
      motive (((s.newTimer iv k).1.registerTimer s.timers.length).setTask k
          { t with woken := false, outerTimer := none, rep := some (s.timers.length, iv, seq + 1) })
        { t with woken := false, outerTimer := none, rep := some (s.timers.length, iv, seq + 1) }
        [{ task := k, seq := some seq, time := s.now }]) :
    ∃ t', (s.poll k c).1.tasks[k]? = some t' ∧ motive (s.poll k c).1 t' (s.poll k c).2 := by
  refine poll_elim s k c (motive := fun r => ∃ t', r.1.tasks[k]? = some t' ∧ motive r.1 t' r.2)
    ?_ ?_ ?_ ?_ ?_ ?_ ?_ ?_ ?_
  · intro h; rw [ht] at h; cases h
  · intro t0 h0 hd; rw [ht] at h0; cases h0
    exact ⟨t, ht, finished hd⟩
  · intro t0 h0 hd hk; rw [ht] at h0; cases h0
    exact ⟨_, setTask_get_self _ _ _ t ht, cancelled hd hk⟩
  · intro t0 d h0 hd hk hod; rw [ht] at h0; cases h0
    exact ⟨_, setTask_get_self _ _ _ t (by simpa using ht), arm d hd hk hod⟩
  · intro t0 tm h0 hd hk hod hot hf; rw [ht] at h0; cases h0
    exact ⟨_, setTask_get_self _ _ _ t (by simpa using ht), waitOuter tm hd hk hod hot hf⟩
  · intro t0 h0 hd hk hod hr hrep; rw [ht] at h0; cases h0
    exact ⟨_, setTask_get_self _ _ _ t ht, once hd hk hod hr hrep⟩
  · intro t0 fur iv seq h0 hd hk hod hr hrep hf; rw [ht] at h0; cases h0
    exact ⟨_, setTask_get_self _ _ _ t (by simpa using ht), waitPeriod fur iv seq hd hk hod hr hrep hf⟩
  · intro t0 fur iv seq h0 hd hk hod hr hrep hf hc; rw [ht] at h0; cases h0
    exact ⟨_, setTask_get_self _ _ _ t ht, lastTick fur iv seq hd hk hod hr hrep hf hc⟩
  · intro t0 fur iv seq h0 hd hk hod hr hrep hf hc; rw [ht] at h0; cases h0
    exact ⟨_, setTask_get_self _ _ _ t (by simpa using ht), tick fur iv seq hd hk hod hr hrep hf hc⟩

/-! ### reachable-state invariant -/
/-- Holds in every state a history can reach. -/
structure WF (s : Sched) : Prop where
  /-- a fired timer was due -/
  fired_due : ∀ tm, s.timerFired tm = true → ∃ d, s.tdue tm = some d ∧ d ≤ s.now
  /-- a handle holds a value only when its future has returned -/
  value_done : ∀ (k : Nat) (t : Task), s.tasks[k]? = some t → t.hasValue = true → t.done = true

theorem wf_empty : WF {} := by
  constructor
  · intro tm h; simp [timerFired] at h
  · intro k t h; simp at h

theorem exec_task_cases (s : Sched) (a : SAct) (j : TaskId) (t : Task) (h : s.tasks[j]? = some t) :
    (∃ t', (s.exec a).1.tasks[j]? = some t' ∧ Task.sameCore t t' ∧ ∀ r ∈ (s.exec a).2, r.task ≠ j) ∨
    a = .cancel j ∨ ∃ c, a = .poll j c := by
  by_cases hc : a = .cancel j
  · exact Or.inr (Or.inl hc)
  by_cases hp : ∃ c, a = .poll j c
  · exact Or.inr (Or.inr hp)
  left
  have hp' : ∀ c, a ≠ .poll j c := fun c e => hp ⟨c, e⟩
  obtain ⟨t', h1, h2⟩ := exec_task_other s a j t h hp' hc
  refine ⟨t', h1, h2, ?_⟩
  intro r hr e
  obtain ⟨⟨c, hc'⟩, _⟩ := exec_runs s a r hr
  exact hp' c (by rw [hc', e])

theorem wf_exec (s : Sched) (a : SAct) (wf : WF s) : WF (s.exec a).1 := by
  have fr := exec_frame s a
  constructor
  · intro tm h
    rcases fr.fired_inv tm h with h | ⟨d, hd, hle⟩
    · obtain ⟨d, hd, hle⟩ := wf.fired_due tm h
      exact ⟨d, fr.tdue tm d hd, Nat.le_trans hle fr.now_le⟩
    · exact ⟨d, fr.tdue tm d hd, Nat.le_trans hle fr.now_le⟩
  · intro j t' h' hv
    cases hj : s.tasks[j]? with
    | none =>
      have := (exec_new_task s a j t' hj h').2.1
      rw [this] at hv; cases hv
    | some t =>
      rcases exec_task_cases s a j t hj with ⟨t'', h1, ⟨w, hw⟩, _⟩ | hc | ⟨c, hp⟩
      · rw [h1] at h'; cases h'; subst hw
        exact wf.value_done j t hj hv
      · subst hc
        simp only [exec] at h'
        rw [cancel_get_self _ _ _ hj] at h'; cases h'
        cases hv
      · subst hp
        simp only [exec] at h'
        obtain ⟨t'', h1, h2⟩ := poll_task_elim s j c t hj
          (motive := fun _ t' _ => t'.hasValue = true → t'.done = true)
          (fun _ => wf.value_done j t hj) (fun _ _ _ => rfl) (fun _ hd _ _ hv => by
            have := wf.value_done j t hj hv; rw [hd] at this; cases this)
          (fun _ hd _ _ _ _ hv => by
            have := wf.value_done j t hj hv; rw [hd] at this; cases this)
          (fun _ _ _ _ _ _ => rfl)
          (fun _ _ _ hd _ _ _ _ _ hv => by
            have := wf.value_done j t hj hv; rw [hd] at this; cases this)
          (fun _ _ _ _ _ _ _ _ _ _ _ => rfl)
          (fun _ _ _ hd _ _ _ _ _ _ hv => by
            have := wf.value_done j t hj hv; rw [hd] at this; cases this)
        rw [h1] at h'; cases h'
        exact h2 hv

end Sched
end Rx.T
