import RxModel.Lemmas.MergeAllInv
/-
  The accounting invariant is kept by every event of an error-free history, and
  downstream completion coincides with `alive` going false.
-/
namespace Rx.MergeAll

/-- What one piece of work establishes: invariant, `complete` emitted exactly
    when the data is taken now, and the data is never put back. -/
def Post (s : St) (r : St × List Out) (d : Nat) : Prop :=
  InvD r.1 d ∧ (Out.complete ∈ r.2 ↔ (s.alive = true ∧ r.1.alive = false)) ∧
    (s.alive = false → r.1.alive = false)

theorem InvD.weaken {s : St} {d : Nat} (h : InvD s (d + 1)) : InvD s d :=
  { h with liv := by have := h.liv; omega }

theorem innerComplete_inv (f : Bool) (s : St) (d : Nat) (h : InvD s (d + 1))
    (hs : (innerComplete f s).1.stuck = false) : Post s (innerComplete f s) d := by
  unfold innerComplete at hs ⊢
  by_cases ha : s.alive = true
  · rw [if_pos ha] at hs ⊢
    have hp : PreD s s.queue d :=
      ⟨ha, h.conc, h.le, h.full, h.cnt, h.arr, by have := h.liv; omega, h.oc, h.noerr⟩
    have := drain_inv f s.queue s d hp hs
    exact ⟨this.1, by rw [this.2]; simp [ha], by simp [ha]⟩
  · rw [if_neg ha]
    exact ⟨h.weaken, by simp [ha], fun h => h⟩

theorem completeAll_inv (f : Bool) (ts : List (Nat × Nat)) : ∀ s : St, InvD s ts.length →
    (completeAll f s ts).1.stuck = false → Post s (completeAll f s ts) 0 := by
  induction ts with
  | nil =>
    intro s h _
    exact ⟨h, by simp [completeAll], fun h => h⟩
  | cons t r ih =>
    intro s h hs
    simp only [completeAll] at hs ⊢
    by_cases hst : (innerComplete f s).1.stuck = true
    · rw [if_pos hst] at hs; rw [hs] at hst; cases hst
    · rw [if_neg hst] at hs ⊢
      have h1 := innerComplete_inv f s r.length h (by simpa using hst)
      have h2 := ih _ h1.1 hs
      refine ⟨h2.1, ?_, fun ha => h2.2.2 (h1.2.2 ha)⟩
      simp only [List.mem_append]
      rw [h1.2.1, h2.2.1]
      constructor
      · rintro (⟨ha, hb⟩ | ⟨_, hb⟩)
        · exact ⟨ha, h2.2.2 hb⟩
        · refine ⟨?_, hb⟩
          cases hsa : s.alive with
          | true => rfl
          | false => have := h1.2.2 hsa; simp_all
      · rintro ⟨ha, hb⟩
        cases h1a : (innerComplete f s).1.alive with
        | true => exact Or.inr ⟨rfl, hb⟩
        | false => exact Or.inl ⟨ha, rfl⟩

theorem hotComplete_inv (f : Bool) (s : St) (j : Nat) (h : InvD s 0)
    (hs : (hotComplete f s j).1.stuck = false) : Post s (hotComplete f s j) 0 := by
  unfold hotComplete at hs ⊢
  by_cases hd : s.dead.contains j = true
  · rw [if_pos hd]
    exact ⟨h, by simp, fun h => h⟩
  · rw [if_neg hd] at hs ⊢
    have hlv := liveOf_take s.subs s.dead j (by simpa using hd)
    have h0 : InvD { s with dead := j :: s.dead, subs := s.subs.filter (fun p => !(p.1 == j)) }
        (targets s j).length :=
      { conc := h.conc, le := h.le, full := h.full, cnt := h.cnt, arr := h.arr,
        liv := by have := h.liv; simp only [live, targets] at this ⊢; omega,
        oc := h.oc, done := h.done, noerr := h.noerr }
    exact completeAll_inv f _ _ h0 hs

theorem outerComplete_inv (s : St) (h : InvD s 0) : Post s (outerComplete s) 0 := by
  unfold outerComplete
  by_cases ho : (!s.outerOpen) = true
  · rw [if_pos ho]
    exact ⟨h, by simp, fun h => h⟩
  · rw [if_neg ho]
    simp only
    by_cases ha : s.alive = true
    · rw [if_pos ha]
      split
      · rename_i hz
        refine ⟨{ conc := h.conc, le := h.le, full := h.full, cnt := h.cnt, arr := h.arr,
                  liv := h.liv, oc := fun _ => rfl, done := by simp; exact hz, noerr := h.noerr },
                by simp [ha], by simp⟩
      · rename_i hz
        refine ⟨{ conc := h.conc, le := h.le, full := h.full, cnt := h.cnt, arr := h.arr,
                  liv := h.liv, oc := fun _ => rfl, done := ?_, noerr := h.noerr },
                by simp [ha], by simp [ha]⟩
        simp only [ha, Bool.true_eq_false, false_iff]
        intro hh; exact hz hh.2
    · rw [if_neg ha]
      have ha' : s.alive = false := by simpa using ha
      refine ⟨{ conc := h.conc, le := h.le, full := h.full, cnt := h.cnt, arr := h.arr,
                liv := h.liv, oc := fun _ => rfl, done := h.done, noerr := h.noerr },
              by simp [ha'], fun h => h⟩

theorem outerNext_inv (f : Bool) (s : St) (k : Nat) (h : InvD s 0)
    (hs : (outerNext f s k).1.stuck = false) : Post s (outerNext f s k) 0 := by
  unfold outerNext at hs ⊢
  by_cases ho : (!s.outerOpen) = true
  · rw [if_pos ho]
    exact ⟨h, by simp, fun h => h⟩
  · rw [if_neg ho] at hs ⊢
    simp only at hs ⊢
    have hoc : s.outsideCompleted = false := by
      cases hc : s.outsideCompleted with
      | false => rfl
      | true => have := h.oc hc; simp [this] at ho
    by_cases ha : (!s.alive) = true
    · rw [if_pos ha]
      have ha' : s.alive = false := by simpa using ha
      -- impossible: not alive means the outer stream has completed
      have := (h.done.mp ha').1
      rw [hoc] at this; cases this
    · rw [if_neg ha] at hs ⊢
      have ha' : s.alive = true := by simpa using ha
      have hl := h.liv; have hc := h.cnt; have har := h.arr; have hle := h.le
      by_cases hlt : s.subscribed < s.concurrent
      · rw [if_pos hlt] at hs ⊢
        have hq : s.queue = [] := by
          cases hqq : s.queue with
          | nil => rfl
          | cons a b => have := h.full (by simp [hqq]); omega
        unfold startTop at hs ⊢
        simp only at hs ⊢
        split at hs
        · rename_i j hin
          have hlv := liveOf_append_le s.subs (j, s.arrivals) s.dead
          refine ⟨{ conc := h.conc, le := by simp; omega, full := by simp [hq],
                    cnt := by simp; omega, arr := by simp [hq] at har ⊢; omega,
                    liv := by simp only [live] at hl ⊢; omega, oc := h.oc,
                    done := by simp [ha', hoc], noerr := h.noerr },
                  by simp [ha'], by simp [ha']⟩
        · rename_i xs fin hin
          cases fin with
          | open_ =>
            simp only
            refine ⟨{ conc := h.conc, le := by simp; omega, full := by simp [hq],
                      cnt := by simp; omega, arr := by simp [hq] at har ⊢; omega,
                      liv := by simp only [live] at hl ⊢; omega, oc := h.oc,
                      done := by simp [ha', hoc], noerr := h.noerr },
                    by simp [ha'], by simp [ha']⟩
          | error e => exact absurd hin (inner_noerr (s := s) h.noerr _ _ _)
          | complete =>
            simp only at hs ⊢
            have hp : PreD { s with arrivals := s.arrivals + 1, subscribed := s.subscribed + 1,
                                    started := s.started + 1 } s.queue 0 :=
              ⟨ha', h.conc, by simp; omega, by simp [hq], by simp; omega,
                by simp [hq] at har ⊢; omega, by simp only [live] at hl ⊢; omega, h.oc, h.noerr⟩
            have := drain_inv f s.queue _ 0 hp hs
            refine ⟨this.1, ?_, by simp [ha']⟩
            simp only [List.mem_append, List.mem_map, reduceCtorEq, and_false, exists_false,
              false_or]
            rw [this.2]; simp [ha']
      · rw [if_neg hlt]
        refine ⟨{ conc := h.conc, le := hle, full := fun _ => by simp; omega,
                  cnt := hc, arr := by simp at har ⊢; omega,
                  liv := by simp only [live] at hl ⊢; omega, oc := h.oc,
                  done := by simp [ha'], noerr := h.noerr },
                by simp [ha'], by simp [ha']⟩

theorem stepG_inv (f : Bool) (s : St) (ev : Ev) (h : InvD s 0) (hb : ev.benign = true)
    (hs : (stepG f s ev).1.stuck = false) : Post s (stepG f s ev) 0 := by
  unfold stepG at hs ⊢
  by_cases hst : s.stuck = true
  · rw [if_pos hst]
    exact ⟨h, by simp, fun h => h⟩
  · rw [if_neg hst] at hs ⊢
    cases ev with
    | outerNext k => exact outerNext_inv f s k h hs
    | outerError e => cases hb
    | outerComplete => exact outerComplete_inv s h
    | innerNext j v =>
      simp only [hotNext]
      split
      · exact ⟨h, by simp, fun h => h⟩
      · refine ⟨h, ?_, fun h => h⟩
        simp only
        split
        · simp
        · simp
    | innerError j e => cases hb
    | innerComplete j => exact hotComplete_inv f s j h hs
    | unsub => cases hb

theorem runG_inv (f : Bool) (evs : List Ev) : ∀ s : St, InvD s 0 →
    (∀ ev ∈ evs, Ev.benign ev = true) → (runG f s evs).1.stuck = false →
    Post s (runG f s evs) 0 := by
  induction evs with
  | nil =>
    intro s h _ _
    exact ⟨h, by simp [runG], fun h => h⟩
  | cons ev r ih =>
    intro s h hb hs
    simp only [runG] at hs ⊢
    have hs1 : (stepG f s ev).1.stuck = false := by
      cases hst : (stepG f s ev).1.stuck with
      | false => rfl
      | true => rw [runG_stuck_mono f r _ hst] at hs; rw [hs] at hst; cases hst
    have h1 := stepG_inv f s ev h (hb ev (List.mem_cons_self ..)) hs1
    have h2 := ih _ h1.1 (fun e he => hb e (List.mem_cons_of_mem _ he)) hs
    refine ⟨h2.1, ?_, fun ha => h2.2.2 (h1.2.2 ha)⟩
    simp only [List.mem_append]
    rw [h1.2.1, h2.2.1]
    constructor
    · rintro (⟨ha, hb⟩ | ⟨_, hb⟩)
      · exact ⟨ha, h2.2.2 hb⟩
      · refine ⟨?_, hb⟩
        cases hsa : s.alive with
        | true => rfl
        | false => have := h1.2.2 hsa; simp_all
    · rintro ⟨ha, hb⟩
      cases h1a : (stepG f s ev).1.alive with
      | true => exact Or.inr ⟨rfl, hb⟩
      | false => exact Or.inl ⟨ha, rfl⟩

theorem init_inv (inners : List Inner) (n : Nat) (hn : 1 ≤ n) (ht : NoErrTable inners) :
    InvD (init inners n) 0 :=
  { conc := hn, le := Nat.zero_le _, full := by simp [init], cnt := rfl, arr := rfl,
    liv := by simp [live, liveOf, init], oc := by simp [init], done := by simp [init], noerr := ht }

end Rx.MergeAll
