import RxModel.Lemmas.ChainFifoDelaySim
/-
  C07 (FIFO clause), part 2b: `delay d` — the executor's loop on the abstract
  state keeps the FIFO shape (done tasks, then armed tasks with non-decreasing
  arm times, then fresh tasks) and is quiescent after at most two passes.
-/
namespace Rx.T.Del
open Rx Rx.T

/-- What the closed-form description records per notification of the gated script. -/
structure Stamp where
  n : Notif
  te : Nat            -- clock at emission
  ta : Option Nat     -- clock at the first `run` after the emission (the delay timer is armed then)

def stD (e : DE) : Stamp := ⟨e.n, e.te, some e.ta⟩
def stF (fe : FE) : Stamp := ⟨fe.n, fe.te, none⟩
def stC (c : Nat) (fe : FE) : Stamp := ⟨fe.n, fe.te, some c⟩
def armE (c : Nat) (fe : FE) : DE := ⟨fe.n, fe.te, c⟩

def Sorted (A : List DE) : Prop := A.Pairwise (fun x y => x.ta ≤ y.ta)

def dueE (d c : Nat) (e : DE) : Bool := decide (e.ta + d ≤ c)

/-- FIFO shape of the abstract state, relative to the stamped script `gq`: `D` have run, `A` are
    armed (arm times non-decreasing), then the fresh ones; everything in `D` was due at `c`. -/
structure Core (d c : Nat) (sf : FE → Stamp) (gq : List Stamp) (a : DA) (D A : List DE) : Prop where
  q : a.q = D.map (Prod.mk .done) ++ A.map (Prod.mk .armed)
  gqe : gq = D.map stD ++ A.map stD ++ a.F.map sf
  dD : ∀ e ∈ D, e.ta + d ≤ c
  dA : ∀ e ∈ A, e.ta ≤ c
  sorted : Sorted A
  alive : a.alive = !terminated (D.map (·.n))
  wf : WF (gq.map (·.n))
  log : a.log = D.map (·.n)

theorem split_sorted (d c : Nat) : ∀ (A : List DE), Sorted A →
    A = A.filter (dueE d c) ++ A.filter (fun e => !dueE d c e) := by
  intro A
  induction A with
  | nil => intro _; rfl
  | cons x xs ih =>
    intro h
    obtain ⟨hx, hxs⟩ := List.pairwise_cons.mp h
    cases hd : dueE d c x with
    | true =>
      simp only [List.filter_cons, hd, if_true, Bool.not_true, Bool.false_eq_true, if_false, List.cons_append]
      rw [← ih hxs]
    | false =>
      have hnone : xs.filter (dueE d c) = [] := by
        rw [List.filter_eq_nil_iff]
        intro y hy
        have := hx y hy
        simp only [dueE, decide_eq_false_iff_not, decide_eq_true_eq] at hd ⊢
        omega
      have hall : xs.filter (fun e => !dueE d c e) = xs := by
        have := ih hxs
        rw [hnone] at this
        simpa using this.symm
      simp [hd, hnone, hall]

theorem fire_done (d c : Nat) (D : List DE) :
    (D.map (Prod.mk Ph.done)).map (fireDue d c) = D.map (Prod.mk Ph.done) := by
  rw [List.map_map]; apply List.map_congr_left; intro e _; simp [fireDue, isDue]

theorem fire_due (d c : Nat) (A : List DE) (h : ∀ e ∈ A, dueE d c e = true) :
    (A.map (Prod.mk Ph.armed)).map (fireDue d c) = A.map (Prod.mk Ph.ready) := by
  rw [List.map_map]; apply List.map_congr_left; intro e he
  have := h e he
  simp only [dueE, decide_eq_true_eq] at this
  simp [fireDue, isDue, this]

theorem fire_notdue (d c : Nat) (A : List DE) (h : ∀ e ∈ A, dueE d c e = false) :
    (A.map (Prod.mk Ph.armed)).map (fireDue d c) = A.map (Prod.mk Ph.armed) := by
  rw [List.map_map]; apply List.map_congr_left; intro e he
  have := h e he
  simp only [dueE, decide_eq_false_iff_not] at this
  simp [fireDue, isDue, this]

theorem runR_done (D : List DE) : (D.map (Prod.mk Ph.done)).map runR = D.map (Prod.mk Ph.done) := by
  rw [List.map_map]; apply List.map_congr_left; intro e _; rfl
theorem runR_armed (D : List DE) : (D.map (Prod.mk Ph.armed)).map runR = D.map (Prod.mk Ph.armed) := by
  rw [List.map_map]; apply List.map_congr_left; intro e _; rfl
theorem runR_ready (D : List DE) : (D.map (Prod.mk Ph.ready)).map runR = D.map (Prod.mk Ph.done) := by
  rw [List.map_map]; apply List.map_congr_left; intro e _; rfl

theorem readyNotifs_append (a b : List (Ph × DE)) : readyNotifs (a ++ b) = readyNotifs a ++ readyNotifs b := by
  simp [readyNotifs]
theorem readyNotifs_done (D : List DE) : readyNotifs (D.map (Prod.mk Ph.done)) = [] := by
  simp only [readyNotifs, List.map_eq_nil_iff, List.filter_eq_nil_iff]
  intro x hx; simp only [List.mem_map] at hx; obtain ⟨e, _, rfl⟩ := hx; simp [isReady]
theorem readyNotifs_armed (D : List DE) : readyNotifs (D.map (Prod.mk Ph.armed)) = [] := by
  simp only [readyNotifs, List.map_eq_nil_iff, List.filter_eq_nil_iff]
  intro x hx; simp only [List.mem_map] at hx; obtain ⟨e, _, rfl⟩ := hx; simp [isReady]
theorem readyNotifs_ready (D : List DE) : readyNotifs (D.map (Prod.mk Ph.ready)) = D.map (·.n) := by
  have : (D.map (Prod.mk Ph.ready)).filter isReady = D.map (Prod.mk Ph.ready) := by
    rw [List.filter_eq_self]
    intro x hx; simp only [List.mem_map] at hx; obtain ⟨e, _, rfl⟩ := hx; rfl
  simp [readyNotifs, this]

/-- One pass of the loop in FIFO shape. -/
theorem iter_core (d c : Nat) (gq : List Stamp) (a : DA) (D A : List DE)
    (h : Core d c (stC c) gq a D A) (hnow : a.now = c) :
    Core d c (stC c) gq (a.fire d).poll (D ++ A.filter (dueE d c))
      (A.filter (fun e => !dueE d c e) ++ a.F.map (armE c)) ∧ ((a.fire d).poll).F = [] := by
  refine ⟨?_, rfl⟩
  have hsplit := split_sorted d c A h.sorted
  have hA1 : ∀ e ∈ A.filter (dueE d c), dueE d c e = true := fun e he => (List.mem_filter.mp he).2
  have hA2 : ∀ e ∈ A.filter (fun e => !dueE d c e), dueE d c e = false := by
    intro e he; have := (List.mem_filter.mp he).2; simpa using this
  -- the queue after firing
  have hfq : (a.fire d).q = D.map (Prod.mk .done) ++ (A.filter (dueE d c)).map (Prod.mk .ready)
      ++ (A.filter (fun e => !dueE d c e)).map (Prod.mk .armed) := by
    simp only [DA.fire, h.q, hnow, List.map_append, fire_done]
    conv => lhs; rw [hsplit]
    rw [List.map_append, List.map_append, fire_due d c _ hA1, fire_notdue d c _ hA2, List.append_assoc]
  have hrn : readyNotifs (a.fire d).q = (A.filter (dueE d c)).map (·.n) := by
    rw [hfq]; simp [readyNotifs_append, readyNotifs_done, readyNotifs_armed, readyNotifs_ready]
  -- well-formedness of the script: D, then the due ones, then the rest
  have hwf : WF (D.map (·.n) ++ ((A.filter (dueE d c)).map (·.n) ++
      ((A.filter (fun e => !dueE d c e)).map (·.n) ++ a.F.map (·.n)))) := by
    have := h.wf
    rw [h.gqe] at this
    conv at this => rw [hsplit]
    simpa [stD, stC, List.map_append, Function.comp_def] using this
  have hdel := deliver_of_WF _ _ _ hwf
  rw [← h.alive] at hdel
  constructor
  · simp only [DA.poll, hfq, List.map_append, runR_done, runR_ready, runR_armed]
    have : (a.fire d).F = a.F := rfl
    have hn : (a.fire d).now = c := hnow
    rw [this, hn]
    simp [armNow, armE, Function.comp_def]
  · show gq = _
    rw [h.gqe]
    conv => lhs; rw [hsplit]
    simp [stD, stC, armE, List.map_append, Function.comp_def, DA.poll]
  · intro e he
    rcases List.mem_append.mp he with he | he
    · exact h.dD e he
    · have := hA1 e he; simpa [dueE] using this
  · intro e he
    rcases List.mem_append.mp he with he | he
    · exact h.dA e (List.mem_filter.mp he).1
    · simp only [List.mem_map] at he; obtain ⟨fe, _, rfl⟩ := he; exact Nat.le_refl _
  · show List.Pairwise _ _
    rw [List.pairwise_append]
    refine ⟨h.sorted.filter _, ?_, ?_⟩
    · rw [List.pairwise_map]
      exact List.Pairwise.imp (fun _ => Nat.le_refl c) (List.pairwise_of_forall (fun _ _ => trivial))
    · intro x hx y hy
      simp only [List.mem_map] at hy; obtain ⟨fe, _, rfl⟩ := hy
      exact h.dA x (List.mem_filter.mp hx).1
  · show (deliver (a.fire d).alive (readyNotifs (a.fire d).q)).1 = _
    rw [hrn, show (a.fire d).alive = a.alive from rfl, hdel]; simp
  · exact h.wf
  · show (a.fire d).log ++ (deliver (a.fire d).alive (readyNotifs (a.fire d).q)).2 = _
    rw [hrn, show (a.fire d).alive = a.alive from rfl, hdel, show (a.fire d).log = a.log from rfl, h.log]; simp

theorem fire_id (d : Nat) (a : DA) (h : ∀ x ∈ a.q, isDue d a.now x = false) : a.fire d = a := by
  have : a.q.map (fireDue d a.now) = a.q := by
    have := List.map_congr_left (l := a.q) (f := fireDue d a.now) (g := id)
      (fun x hx => by simp [fireDue, h x hx])
    simpa using this
  cases a; simp_all [DA.fire]

theorem quiet_case (d c : Nat) (sf) (gq : List Stamp) (a : DA) (D A : List DE)
    (h : Core d c sf gq a D A) (hnow : a.now = c) (hq : a.quietB d = true) :
    a.fire d = a ∧ a.F = [] ∧ ∀ e ∈ A, c < e.ta + d := by
  simp only [DA.quietB, Bool.and_eq_true, List.isEmpty_iff, List.append_eq_nil_iff] at hq
  obtain ⟨h1, _, h3⟩ := hq
  have hnd := idxs_eq_nil _ _ _ h1
  refine ⟨fire_id d a hnd, ?_, ?_⟩
  · have : a.F.length = 0 := by
      cases hl : a.F.length with
      | zero => rfl
      | succ n => rw [hl] at h3; simp [List.range'_succ] at h3
    exact List.eq_nil_of_length_eq_zero this
  · intro e he
    have hm : (Ph.armed, e) ∈ a.q := by
      rw [h.q]; exact List.mem_append_right _ (List.mem_map_of_mem he)
    have := hnd _ hm
    simp only [isDue, hnow, beq_self_eq_true, Bool.true_and, decide_eq_false_iff_not] at this
    omega

theorem quietB_of (d c : Nat) (sf) (gq : List Stamp) (a : DA) (D A : List DE)
    (h : Core d c sf gq a D A) (hnow : a.now = c) (hF : a.F = []) (hnd : ∀ e ∈ A, c < e.ta + d) :
    a.quietB d = true := by
  have hdue : ∀ x ∈ a.q, isDue d a.now x = false := by
    intro x hx
    rw [h.q] at hx
    rcases List.mem_append.mp hx with hx | hx
    · simp only [List.mem_map] at hx; obtain ⟨e, _, rfl⟩ := hx; simp [isDue]
    · simp only [List.mem_map] at hx; obtain ⟨e, he, rfl⟩ := hx
      have := hnd e he
      simp only [isDue, hnow, beq_self_eq_true, Bool.true_and, decide_eq_false_iff_not]
      omega
  have hrdy : ∀ x ∈ a.q, isReady x = false := by
    intro x hx
    rw [h.q] at hx
    rcases List.mem_append.mp hx with hx | hx <;>
      (simp only [List.mem_map] at hx; obtain ⟨e, _, rfl⟩ := hx; rfl)
  simp only [DA.quietB, fire_id d a hdue, hF, List.length_nil, List.range'_zero, List.append_nil,
    idxs_none _ _ _ hdue, idxs_none _ _ _ hrdy]
  rfl

/-- `run` at clock `c`: at most two passes, then the loop is quiescent: no fresh task, no armed
    task whose delay is over.  (The fuel of `runLoop` is never exhausted: 3 would do.) -/
theorem loop_core (d c : Nat) (gq : List Stamp) (a : DA) (D A : List DE)
    (h : Core d c (stC c) gq a D A) (hnow : a.now = c) (f : Nat) :
    ∃ D' A', Core d c (stC c) gq (aLoop d (f + 3) a) D' A' ∧ (aLoop d (f + 3) a).F = [] ∧
      ∀ e ∈ A', c < e.ta + d := by
  have step : ∀ (g : Nat) (a : DA), aLoop d (g + 1) a =
      if a.quietB d then a.fire d else aLoop d g (a.fire d).poll := fun _ _ => rfl
  rw [step]
  cases hq : a.quietB d with
  | true =>
    obtain ⟨h1, h2, h3⟩ := quiet_case d c _ gq a D A h hnow hq
    simp only [if_true, h1]
    exact ⟨D, A, h, h2, h3⟩
  | false =>
    simp only [Bool.false_eq_true, if_false]
    obtain ⟨hc1, hF1⟩ := iter_core d c gq a D A h hnow
    have hnow1 : ((a.fire d).poll).now = c := hnow
    rw [step]
    cases hq1 : ((a.fire d).poll).quietB d with
    | true =>
      obtain ⟨h1, h2, h3⟩ := quiet_case d c _ gq _ _ _ hc1 hnow1 hq1
      simp only [if_true, h1]
      exact ⟨_, _, hc1, h2, h3⟩
    | false =>
      simp only [Bool.false_eq_true, if_false]
      obtain ⟨hc2, hF2⟩ := iter_core d c gq _ _ _ hc1 hnow1
      have hnow2 : ((((a.fire d).poll).fire d).poll).now = c := hnow
      have hnd : ∀ e ∈ (A.filter (fun e => !dueE d c e) ++ a.F.map (armE c)).filter (fun e => !dueE d c e)
          ++ ((a.fire d).poll).F.map (armE c), c < e.ta + d := by
        intro e he
        rw [hF1] at he
        simp only [List.map_nil, List.append_nil] at he
        have := (List.mem_filter.mp he).2
        simp only [dueE, Bool.not_eq_eq_eq_not, Bool.not_true, decide_eq_false_iff_not] at this
        omega
      have hq2 := quietB_of d c _ gq _ _ _ hc2 hnow2 hF2 hnd
      rw [step]
      obtain ⟨h1, h2, h3⟩ := quiet_case d c _ gq _ _ _ hc2 hnow2 hq2
      simp only [hq2, if_true, h1]
      exact ⟨_, _, hc2, h2, h3⟩

end Rx.T.Del
