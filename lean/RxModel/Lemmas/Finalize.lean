import RxModel.Ops.Finalize
/-
  Helper lemmas for Props/C15.
  Part 1: the plain pipeline `subject.finalize(f)` (chain = one finalizer).
  Part 2: bookkeeping for arbitrary chains — every marker in the log is one run
  of a callback, and a callback cell never re-arms.
-/
namespace Rx
namespace Finalize

/-! ### Part 1: the plain pipeline -/

/-- Subscribed, nothing has happened: the callback is armed and has not run. -/
def Fresh (id : Nat) (w : World) : Prop :=
  w.srcDone = false ∧ w.slot = true ∧ w.held = true ∧ w.chain = [.fin ⟨id, true, 0⟩]

/-- After the first trigger: the slot is empty, the callback has run once and is gone. -/
def Spent (id : Nat) (w : World) : Prop :=
  w.slot = false ∧ w.chain = [.fin ⟨id, false, 1⟩]

theorem fresh_init (id : Nat) : Fresh id (World.init [.fin (Fin.new id)]) :=
  ⟨rfl, rfl, rfl, rfl⟩

theorem fresh_item {id : Nat} {w : World} (h : Fresh id w) (v : Val) :
    w.step (.emit (.next v)) = (w, [.n (.next v)]) := by
  obtain ⟨h1, h2, _, h4⟩ := h
  cases w
  simp only at h1 h2 h4
  subst h1 h2 h4
  rfl

theorem fresh_items {id : Nat} {w : World} (h : Fresh id w) (xs : List Val) :
    w.run (xs.map fun v => Ev.emit (.next v)) = (w, xs.map fun v => FOut.n (.next v)) := by
  induction xs with
  | nil => rfl
  | cons v r ih => simp [World.run, fresh_item h, ih]

/-- What the probe receives for the trigger itself. -/
def triggerDelivery : Ev → List FOut
  | .emit t => [.n t]
  | .unsub => []

theorem fresh_trigger {id : Nat} {w : World} (h : Fresh id w) (e : Ev) (he : e.isTrigger = true) :
    Spent id (w.step e).1 ∧ (w.step e).2 = triggerDelivery e ++ [.f id] := by
  obtain ⟨h1, h2, h3, h4⟩ := h
  cases w
  simp only at h1 h2 h3 h4
  subst h1 h2 h3 h4
  cases e with
  | unsub => exact ⟨⟨rfl, rfl⟩, rfl⟩
  | emit n =>
    cases n with
    | next v => cases he
    | error e => exact ⟨⟨rfl, rfl⟩, rfl⟩
    | complete => exact ⟨⟨rfl, rfl⟩, rfl⟩

theorem spent_step {id : Nat} {w : World} (h : Spent id w) (e : Ev) :
    Spent id (w.step e).1 ∧ (w.step e).2 = [] := by
  obtain ⟨h2, h4⟩ := h
  cases w with
  | mk srcDone slot held chain =>
    simp only at h2 h4
    subst h2 h4
    cases e with
    | unsub => cases held <;> exact ⟨⟨rfl, rfl⟩, rfl⟩
    | emit n =>
      cases n with
      | next v => cases srcDone <;> exact ⟨⟨rfl, rfl⟩, rfl⟩
      | error e => cases srcDone <;> exact ⟨⟨rfl, rfl⟩, rfl⟩
      | complete => cases srcDone <;> exact ⟨⟨rfl, rfl⟩, rfl⟩

theorem spent_run {id : Nat} {w : World} (h : Spent id w) (evs : List Ev) :
    Spent id (w.run evs).1 ∧ (w.run evs).2 = [] := by
  induction evs generalizing w with
  | nil => exact ⟨h, rfl⟩
  | cons e r ih =>
    obtain ⟨hs, ho⟩ := spent_step h e
    obtain ⟨hs', ho'⟩ := ih hs
    simp only [World.run]
    exact ⟨hs', by rw [ho, ho']; rfl⟩

theorem run_append (w : World) (a b : List Ev) :
    w.run (a ++ b) = (((w.run a).1.run b).1, (w.run a).2 ++ ((w.run a).1.run b).2) := by
  induction a generalizing w with
  | nil => simp [World.run]
  | cons e r ih => simp [World.run, ih, List.append_assoc]

theorem countF_append (id : Nat) (a b : List FOut) :
    countF id (a ++ b) = countF id a + countF id b := by
  induction a with
  | nil => simp [countF]
  | cons x r ih => cases x <;> simp [countF, ih, Nat.add_assoc]

theorem countF_items (id : Nat) (xs : List Val) :
    countF id (xs.map fun v => FOut.n (.next v)) = 0 := by
  induction xs with
  | nil => rfl
  | cons v r ih => simpa [countF] using ih

theorem countF_map_n (id : Nat) (ns : List Notif) : countF id (ns.map FOut.n) = 0 := by
  induction ns with
  | nil => rfl
  | cons v r ih => simpa [countF] using ih

theorem countF_triggerDelivery (id : Nat) (e : Ev) : countF id (triggerDelivery e) = 0 := by
  cases e <;> rfl

/-! ### Part 2: arbitrary chains -/

/-- Runs so far of the callbacks with marker `id`. -/
def callsOf (id : Nat) : List Elem → Nat
  | [] => 0
  | .op _ :: r => callsOf id r
  | .fin c :: r => (if c.id = id then c.calls else 0) + callsOf id r

/-- Callbacks with marker `id` still waiting to run. -/
def armedOf (id : Nat) : List Elem → Nat
  | [] => 0
  | .op _ :: r => armedOf id r
  | .fin c :: r => (if c.id = id ∧ c.armed = true then 1 else 0) + armedOf id r

/-- Per element: (markers out) + (runs before) = (markers in) + (runs after), and
    runs + armed is constant. -/
def callsE (id : Nat) : Elem → Nat
  | .op _ => 0
  | .fin c => if c.id = id then c.calls else 0
def armedE (id : Nat) : Elem → Nat
  | .op _ => 0
  | .fin c => if c.id = id ∧ c.armed = true then 1 else 0

theorem fire_count (id : Nat) (c : Fin) :
    countF id c.fire.2 + (if c.id = id then c.calls else 0) =
      (if c.fire.1.id = id then c.fire.1.calls else 0) ∧
    (if c.fire.1.id = id then c.fire.1.calls else 0) +
        (if c.fire.1.id = id ∧ c.fire.1.armed = true then 1 else 0) =
      (if c.id = id then c.calls else 0) + (if c.id = id ∧ c.armed = true then 1 else 0) := by
  obtain ⟨i, a, n⟩ := c
  cases a <;> by_cases h : i = id <;> simp [Fin.fire, countF, h] <;> omega

theorem elem_step_count (id : Nat) (e : Elem) (x : FOut) :
    countF id (e.step x).2 + callsE id e = countF id [x] + callsE id (e.step x).1 ∧
    callsE id (e.step x).1 + armedE id (e.step x).1 = callsE id e + armedE id e := by
  cases x with
  | f j => cases e <;> simp [Elem.step]
  | n y =>
    cases e with
    | op st => simp [Elem.step, callsE, armedE, countF, countF_map_n]
    | fin c =>
      cases y with
      | next v => simp [Elem.step, Fin.onNotif, countF]
      | error er =>
        have := fire_count id c
        simp only [Elem.step, Fin.onNotif, callsE, armedE, countF] at this ⊢
        omega
      | complete =>
        have := fire_count id c
        simp only [Elem.step, Fin.onNotif, callsE, armedE, countF] at this ⊢
        omega

theorem elem_run_count (id : Nat) (e : Elem) (s : List FOut) :
    countF id (e.run s).2 + callsE id e = countF id s + callsE id (e.run s).1 ∧
    callsE id (e.run s).1 + armedE id (e.run s).1 = callsE id e + armedE id e := by
  induction s generalizing e with
  | nil => simp [Elem.run]
  | cons x r ih =>
    have h1 := elem_step_count id e x
    have h2 := ih (e.step x).1
    simp only [Elem.run, countF_append]
    have hx : countF id (x :: r) = countF id [x] + countF id r := by
      rw [← countF_append]; rfl
    rw [hx]
    omega

theorem callsOf_cons (id : Nat) (e : Elem) (r : List Elem) :
    callsOf id (e :: r) = callsE id e + callsOf id r := by
  cases e <;> simp [callsOf, callsE]

theorem armedOf_cons (id : Nat) (e : Elem) (r : List Elem) :
    armedOf id (e :: r) = armedE id e + armedOf id r := by
  cases e <;> simp [armedOf, armedE]

theorem runElems_count (id : Nat) (ch : List Elem) (s : List FOut) :
    countF id (runElems ch s).2 + callsOf id ch = countF id s + callsOf id (runElems ch s).1 ∧
    callsOf id (runElems ch s).1 + armedOf id (runElems ch s).1 = callsOf id ch + armedOf id ch := by
  induction ch generalizing s with
  | nil => simp [runElems]
  | cons e r ih =>
    have h1 := elem_run_count id e s
    have h2 := ih (e.run s).2
    simp only [runElems, callsOf_cons, armedOf_cons]
    omega

theorem unsubFire_count (id : Nat) (ch : List Elem) :
    countF id (unsubFire ch).2 + callsOf id ch = callsOf id (unsubFire ch).1 ∧
    callsOf id (unsubFire ch).1 + armedOf id (unsubFire ch).1 = callsOf id ch + armedOf id ch := by
  induction ch with
  | nil => simp [unsubFire, countF, callsOf]
  | cons e r ih =>
    cases e with
    | op st => simpa [unsubFire, callsOf, armedOf] using ih
    | fin c =>
      have := fire_count id c
      simp only [unsubFire, callsOf, armedOf, countF_append]
      omega

theorem step_count (id : Nat) (w : World) (e : Ev) :
    countF id (w.step e).2 + callsOf id w.chain = callsOf id (w.step e).1.chain ∧
    callsOf id (w.step e).1.chain + armedOf id (w.step e).1.chain =
      callsOf id w.chain + armedOf id w.chain := by
  cases e with
  | unsub =>
    simp only [World.step]
    split
    · exact unsubFire_count id w.chain
    · simp [countF]
  | emit n =>
    cases n with
    | next v =>
      simp only [World.step]
      split
      · simp [countF]
      · have := runElems_count id w.chain [.n (.next v)]
        simpa [countF] using this
    | error er =>
      simp only [World.step]
      split
      · simp [countF]
      · split
        · have := runElems_count id w.chain [.n (.error er)]
          simpa [countF] using this
        · simp [countF]
    | complete =>
      simp only [World.step]
      split
      · simp [countF]
      · split
        · have := runElems_count id w.chain [.n .complete]
          simpa [countF] using this
        · simp [countF]

theorem run_count (id : Nat) (w : World) (evs : List Ev) :
    countF id (w.run evs).2 + callsOf id w.chain = callsOf id (w.run evs).1.chain ∧
    callsOf id (w.run evs).1.chain + armedOf id (w.run evs).1.chain =
      callsOf id w.chain + armedOf id w.chain := by
  induction evs generalizing w with
  | nil => simp [World.run, countF]
  | cons e r ih =>
    have h1 := step_count id w e
    have h2 := ih (w.step e).1
    simp only [World.run, countF_append]
    omega

/-! ### unsubscribe empties every cell -/

theorem unsubFire_armed (id : Nat) (ch : List Elem) : armedOf id (unsubFire ch).1 = 0 := by
  induction ch with
  | nil => rfl
  | cons e r ih =>
    cases e with
    | op st => simpa [unsubFire, armedOf] using ih
    | fin c =>
      obtain ⟨i, a, n⟩ := c
      cases a <;> simp [unsubFire, armedOf, Fin.fire, ih]

/-- Either the subscription value is still there, or its `unsubscribe` has
    emptied every cell. -/
def HeldOrSpent (id : Nat) (w : World) : Prop := w.held = true ∨ armedOf id w.chain = 0

theorem emit_held (w : World) (n : Notif) : (w.step (.emit n)).1.held = w.held := by
  cases n <;> simp only [World.step] <;> (split <;> try split) <;> rfl

theorem heldOrSpent_step (id : Nat) (w : World) (e : Ev) (h : HeldOrSpent id w) :
    HeldOrSpent id (w.step e).1 := by
  cases e with
  | unsub =>
    simp only [World.step]
    split
    · exact .inr (unsubFire_armed id w.chain)
    · exact h
  | emit n =>
    rcases h with h | h
    · exact .inl (by rw [emit_held]; exact h)
    · have := step_count id w (.emit n)
      exact .inr (by omega)

theorem heldOrSpent_run (id : Nat) (w : World) (evs : List Ev) (h : HeldOrSpent id w) :
    HeldOrSpent id (w.run evs).1 := by
  induction evs generalizing w with
  | nil => exact h
  | cons e r ih => exact ih _ (heldOrSpent_step id w e h)

theorem unsub_armed (id : Nat) (w : World) (h : HeldOrSpent id w) :
    armedOf id (w.step .unsub).1.chain = 0 := by
  simp only [World.step]
  split
  · exact unsubFire_armed id w.chain
  · rcases h with h | h
    · contradiction
    · exact h

theorem callsOf_append (id : Nat) (a b : List Elem) :
    callsOf id (a ++ b) = callsOf id a + callsOf id b := by
  induction a with
  | nil => simp [callsOf]
  | cons e r ih => cases e <;> simp [callsOf, ih] <;> omega

theorem armedOf_append (id : Nat) (a b : List Elem) :
    armedOf id (a ++ b) = armedOf id a + armedOf id b := by
  induction a with
  | nil => simp [armedOf]
  | cons e r ih => cases e <;> simp [armedOf, ih] <;> omega

theorem ops_calls (id : Nat) (l : List St1) :
    callsOf id (l.map Elem.op) = 0 ∧ armedOf id (l.map Elem.op) = 0 := by
  induction l with
  | nil => exact ⟨rfl, rfl⟩
  | cons a r ih => simpa [callsOf, armedOf] using ih

/-- One fresh finalizer `id` among operators: no run yet, one armed cell. -/
theorem one_fin_init (id : Nat) (up down : List St1) :
    callsOf id (World.init (up.map .op ++ .fin (Fin.new id) :: down.map .op)).chain = 0 ∧
    armedOf id (World.init (up.map .op ++ .fin (Fin.new id) :: down.map .op)).chain = 1 := by
  simp [World.init, callsOf_append, armedOf_append, ops_calls, callsOf, armedOf, Fin.new]

/-! ### Part 3: a finalizer at the head of a chain of operators

  `subject.finalize(f).op₁.….opₙ`: the finalizer is transparent for the deliveries, and its
  marker comes right after what the first trigger itself delivers — whatever the operators
  below do, in particular when one of them (take, take_while, first, …) had completed the
  downstream by itself before the source's terminal. -/

theorem elem_run_marker (e : Elem) (s : List FOut) (id : Nat) :
    e.run (s ++ [.f id]) = ((e.run s).1, (e.run s).2 ++ [.f id]) := by
  induction s generalizing e with
  | nil => cases e <;> rfl
  | cons x r ih => simp [Elem.run, ih, List.append_assoc]

/-- A marker passes every observer below unchanged and keeps its place at the end. -/
theorem runElems_marker (es : List Elem) (s : List FOut) (id : Nat) :
    runElems es (s ++ [.f id]) = ((runElems es s).1, (runElems es s).2 ++ [.f id]) := by
  induction es generalizing s with
  | nil => rfl
  | cons e r ih => simp [runElems, elem_run_marker, ih]

theorem elem_run_op (st : St1) (s : List FOut) : ∃ st', (Elem.run (.op st) s).1 = .op st' := by
  induction s generalizing st with
  | nil => exact ⟨st, rfl⟩
  | cons x r ih =>
    cases x with
    | f j => simpa [Elem.run, Elem.step] using ih st
    | n y => simpa [Elem.run, Elem.step] using ih (st.step y).1

/-- Operators stay operators. -/
theorem runElems_ops (ds : List St1) (s : List FOut) :
    ∃ ds' : List St1, (runElems (ds.map .op) s).1 = ds'.map .op := by
  induction ds generalizing s with
  | nil => exact ⟨[], rfl⟩
  | cons d r ih =>
    obtain ⟨d', hd⟩ := elem_run_op d s
    obtain ⟨r', hr⟩ := ih (Elem.run (.op d) s).2
    exact ⟨d' :: r', by simp [runElems, hd, hr]⟩

theorem unsubFire_ops (ds : List St1) : unsubFire (ds.map .op) = (ds.map .op, []) := by
  induction ds with
  | nil => rfl
  | cons d r ih => simp [unsubFire, ih]

/-- The world with the armed finalizer `id` on top of operators, next to the same world without it. -/
def HeadSim (id : Nat) (w1 w0 : World) : Prop :=
  w1.srcDone = false ∧ w1.slot = true ∧ w1.held = true ∧
  w0.srcDone = false ∧ w0.slot = true ∧ w0.held = true ∧
  ∃ ds : List St1, w1.chain = .fin ⟨id, true, 0⟩ :: ds.map .op ∧ w0.chain = ds.map .op

/-- After the first trigger: slot empty, callback gone — for ever silent. -/
def HeadSpent (id : Nat) (w : World) : Prop :=
  w.slot = false ∧ ∃ ds : List St1, w.chain = .fin ⟨id, false, 1⟩ :: ds.map .op

theorem headSim_init (id : Nat) (down : List St1) :
    HeadSim id (World.init (.fin (Fin.new id) :: down.map .op)) (World.init (down.map .op)) :=
  ⟨rfl, rfl, rfl, rfl, rfl, rfl, down, rfl, rfl⟩

theorem headSim_item {id : Nat} {w1 w0 : World} (h : HeadSim id w1 w0) (v : Val) :
    HeadSim id (w1.step (.emit (.next v))).1 (w0.step (.emit (.next v))).1 ∧
      (w1.step (.emit (.next v))).2 = (w0.step (.emit (.next v))).2 := by
  obtain ⟨a1, a2, a3, b1, b2, b3, ds, c1, c0⟩ := h
  obtain ⟨sd1, sl1, hd1, ch1⟩ := w1
  obtain ⟨sd0, sl0, hd0, ch0⟩ := w0
  simp only at a1 a2 a3 b1 b2 b3 c1 c0
  subst a1 a2 a3 b1 b2 b3 c1 c0
  obtain ⟨ds', hds⟩ := runElems_ops ds [.n (.next v)]
  refine ⟨⟨rfl, rfl, rfl, rfl, rfl, rfl, ds', ?_, ?_⟩, ?_⟩
  · simp [World.step, runElems, Elem.run, Elem.step, Fin.onNotif, hds]
  · simp [World.step, hds]
  · simp [World.step, runElems, Elem.run, Elem.step, Fin.onNotif]

theorem headSim_items {id : Nat} (xs : List Val) : ∀ {w1 w0 : World}, HeadSim id w1 w0 →
    HeadSim id (w1.run (xs.map fun v => Ev.emit (.next v))).1
        (w0.run (xs.map fun v => Ev.emit (.next v))).1 ∧
      (w1.run (xs.map fun v => Ev.emit (.next v))).2 = (w0.run (xs.map fun v => Ev.emit (.next v))).2 := by
  induction xs with
  | nil => intro w1 w0 h; exact ⟨h, rfl⟩
  | cons v r ih =>
    intro w1 w0 h
    obtain ⟨h1, e1⟩ := headSim_item h v
    obtain ⟨h2, e2⟩ := ih h1
    exact ⟨h2, by simp only [List.map_cons, World.run, e1, e2]⟩

/-- The first trigger: the same deliveries as without the finalizer, then the callback. -/
theorem headSim_trigger {id : Nat} {w1 w0 : World} (h : HeadSim id w1 w0) (e : Ev)
    (he : e.isTrigger = true) :
    HeadSpent id (w1.step e).1 ∧ (w1.step e).2 = (w0.step e).2 ++ [.f id] := by
  obtain ⟨a1, a2, a3, b1, b2, b3, ds, c1, c0⟩ := h
  obtain ⟨sd1, sl1, hd1, ch1⟩ := w1
  obtain ⟨sd0, sl0, hd0, ch0⟩ := w0
  simp only at a1 a2 a3 b1 b2 b3 c1 c0
  subst a1 a2 a3 b1 b2 b3 c1 c0
  have key : ∀ t : Notif, t.isTerm = true →
      runElems (.fin ⟨id, true, 0⟩ :: ds.map .op) [.n t] =
        (.fin ⟨id, false, 1⟩ :: (runElems (ds.map .op) [.n t]).1,
          (runElems (ds.map .op) [.n t]).2 ++ [.f id]) := by
    intro t ht
    have h1 : Elem.run (.fin ⟨id, true, 0⟩) [.n t] = (.fin ⟨id, false, 1⟩, [.n t] ++ [.f id]) := by
      cases t with
      | next v => cases ht
      | error e => rfl
      | complete => rfl
    simp only [runElems, h1, runElems_marker]
  cases e with
  | unsub =>
    refine ⟨⟨rfl, ds, ?_⟩, ?_⟩
    · simp [World.step, unsubFire, unsubFire_ops, Fin.fire]
    · simp [World.step, unsubFire, unsubFire_ops, Fin.fire]
  | emit n =>
    cases n with
    | next v => cases he
    | error er =>
      obtain ⟨ds', hds⟩ := runElems_ops ds [.n (.error er)]
      refine ⟨⟨rfl, ds', ?_⟩, ?_⟩
      · simp [World.step, key (.error er) rfl, hds]
      · simp [World.step, key (.error er) rfl]
    | complete =>
      obtain ⟨ds', hds⟩ := runElems_ops ds [.n .complete]
      refine ⟨⟨rfl, ds', ?_⟩, ?_⟩
      · simp [World.step, key .complete rfl, hds]
      · simp [World.step, key .complete rfl]

theorem headSpent_step {id : Nat} {w : World} (h : HeadSpent id w) (e : Ev) :
    HeadSpent id (w.step e).1 ∧ (w.step e).2 = [] := by
  obtain ⟨h1, ds, h2⟩ := h
  obtain ⟨sd, sl, hd, ch⟩ := w
  simp only at h1 h2
  subst h1 h2
  cases e with
  | unsub =>
    cases hd
    · exact ⟨⟨rfl, ds, rfl⟩, rfl⟩
    · refine ⟨⟨rfl, ds, ?_⟩, ?_⟩ <;>
        simp [World.step, unsubFire, unsubFire_ops, Fin.fire]
  | emit n =>
    cases n <;> cases sd <;> exact ⟨⟨rfl, ds, rfl⟩, rfl⟩

theorem headSpent_run {id : Nat} (evs : List Ev) : ∀ {w : World}, HeadSpent id w →
    (w.run evs).2 = [] := by
  induction evs with
  | nil => intro w _; rfl
  | cons e r ih =>
    intro w h
    obtain ⟨h1, e1⟩ := headSpent_step h e
    simp only [World.run, e1, ih h1, List.append_nil]

/-- A chain of operators alone never writes a marker. -/
theorem ops_no_marker (id : Nat) (down : List St1) (evs : List Ev) :
    countF id ((World.init (down.map .op)).run evs).2 = 0 := by
  have h := run_count id (World.init (down.map .op)) evs
  have h0 := ops_calls id down
  have e : (World.init (down.map .op)).chain = down.map .op := rfl
  rw [e] at h
  omega

end Finalize
end Rx
