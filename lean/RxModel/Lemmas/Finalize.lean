import RxModel.Ops.Finalize
/-
  Helper lemmas for Props/C15.
  Part 1: the plain pipeline `subject.finalize(f)` (chain = one finalizer).
  Part 2: bookkeeping for arbitrary chains — every marker in the log is one run
  of a callback, and a callback cell never re-arms.
-/
namespace Rx
namespace Finalize

/-! ### Part 1: the plain pipeline -/

/-- Subscribed, nothing has happened: the callback is armed and has not run. -/
def Fresh (id : Nat) (w : World) : Prop :=
  w.srcDone = false ∧ w.slot = true ∧ w.held = true ∧ w.chain = [.fin ⟨id, true, 0⟩]

/-- After the first trigger: the slot is empty, the callback has run once and is gone. -/
def Spent (id : Nat) (w : World) : Prop :=
  w.slot = false ∧ w.chain = [.fin ⟨id, false, 1⟩]

theorem fresh_init (id : Nat) : Fresh id (World.init [.fin (Fin.new id)]) :=
  ⟨rfl, rfl, rfl, rfl⟩

theorem fresh_item {id : Nat} {w : World} (h : Fresh id w) (v : Val) :
    w.step (.emit (.next v)) = (w, [.n (.next v)]) := by
  obtain ⟨h1, h2, _, h4⟩ := h
  cases w
  simp only at h1 h2 h4
  subst h1 h2 h4
  rfl

theorem fresh_items {id : Nat} {w : World} (h : Fresh id w) (xs : List Val) :
    w.run (xs.map fun v => Ev.emit (.next v)) = (w, xs.map fun v => FOut.n (.next v)) := by
  induction xs with
  | nil => rfl
  | cons v r ih => simp [World.run, fresh_item h, ih]

/-- What the probe receives for the trigger itself. -/
def triggerDelivery : Ev → List FOut
  | .emit t => [.n t]
  | .unsub => []

theorem fresh_trigger {id : Nat} {w : World} (h : Fresh id w) (e : Ev) (he : e.isTrigger = true) :
    Spent id (w.step e).1 ∧ (w.step e).2 = triggerDelivery e ++ [.f id] := by
  obtain ⟨h1, h2, h3, h4⟩ := h
  cases w
  simp only at h1 h2 h3 h4
  subst h1 h2 h3 h4
  cases e with
  | unsub => exact ⟨⟨rfl, rfl⟩, rfl⟩
  | emit n =>
    cases n with
    | next v => cases he
    | error e => exact ⟨⟨rfl, rfl⟩, rfl⟩
    | complete => exact ⟨⟨rfl, rfl⟩, rfl⟩

theorem spent_step {id : Nat} {w : World} (h : Spent id w) (e : Ev) :
    Spent id (w.step e).1 ∧ (w.step e).2 = [] := by
  obtain ⟨h2, h4⟩ := h
  cases w with
  | mk srcDone slot held chain =>
    simp only at h2 h4
    subst h2 h4
    cases e with
    | unsub => cases held <;> exact ⟨⟨rfl, rfl⟩, rfl⟩
    | emit n =>
      cases n with
      | next v => cases srcDone <;> exact ⟨⟨rfl, rfl⟩, rfl⟩
      | error e => cases srcDone <;> exact ⟨⟨rfl, rfl⟩, rfl⟩
      | complete => cases srcDone <;> exact ⟨⟨rfl, rfl⟩, rfl⟩

theorem spent_run {id : Nat} {w : World} (h : Spent id w) (evs : List Ev) :
    Spent id (w.run evs).1 ∧ (w.run evs).2 = [] := by
  induction evs generalizing w with
  | nil => exact ⟨h, rfl⟩
  | cons e r ih =>
    obtain ⟨hs, ho⟩ := spent_step h e
    obtain ⟨hs', ho'⟩ := ih hs
    simp only [World.run]
    exact ⟨hs', by rw [ho, ho']; rfl⟩

theorem run_append (w : World) (a b : List Ev) :
    w.run (a ++ b) = (((w.run a).1.run b).1, (w.run a).2 ++ ((w.run a).1.run b).2) := by
  induction a generalizing w with
  | nil => simp [World.run]
  | cons e r ih => simp [World.run, ih, List.append_assoc]

theorem countF_append (id : Nat) (a b : List FOut) :
    countF id (a ++ b) = countF id a + countF id b := by
  induction a with
  | nil => simp [countF]
  | cons x r ih => cases x <;> simp [countF, ih, Nat.add_assoc]

theorem countF_items (id : Nat) (xs : List Val) :
    countF id (xs.map fun v => FOut.n (.next v)) = 0 := by
  induction xs with
  | nil => rfl
  | cons v r ih => simpa [countF] using ih

theorem countF_map_n (id : Nat) (ns : List Notif) : countF id (ns.map FOut.n) = 0 := by
  induction ns with
  | nil => rfl
  | cons v r ih => simpa [countF] using ih

theorem countF_triggerDelivery (id : Nat) (e : Ev) : countF id (triggerDelivery e) = 0 := by
  cases e <;> rfl

/-! ### Part 2: arbitrary chains -/

/-- Runs so far of the callbacks with marker `id`. -/
def callsOf (id : Nat) : List Elem → Nat
  | [] => 0
  | .op _ :: r => callsOf id r
  | .fin c :: r => (if c.id = id then c.calls else 0) + callsOf id r

/-- Callbacks with marker `id` still waiting to run. -/
def armedOf (id : Nat) : List Elem → Nat
  | [] => 0
  | .op _ :: r => armedOf id r
  | .fin c :: r => (if c.id = id ∧ c.armed = true then 1 else 0) + armedOf id r

/-- Per element: (markers out) + (runs before) = (markers in) + (runs after), and
    runs + armed is constant. -/
def callsE (id : Nat) : Elem → Nat
  | .op _ => 0
  | .fin c => if c.id = id then c.calls else 0
def armedE (id : Nat) : Elem → Nat
  | .op _ => 0
  | .fin c => if c.id = id ∧ c.armed = true then 1 else 0

theorem fire_count (id : Nat) (c : Fin) :
    countF id c.fire.2 + (if c.id = id then c.calls else 0) =
      (if c.fire.1.id = id then c.fire.1.calls else 0) ∧
    (if c.fire.1.id = id then c.fire.1.calls else 0) +
        (if c.fire.1.id = id ∧ c.fire.1.armed = true then 1 else 0) =
      (if c.id = id then c.calls else 0) + (if c.id = id ∧ c.armed = true then 1 else 0) := by
  obtain ⟨i, a, n⟩ := c
  cases a <;> by_cases h : i = id <;> simp [Fin.fire, countF, h] <;> omega

theorem elem_step_count (id : Nat) (e : Elem) (x : FOut) :
    countF id (e.step x).2 + callsE id e = countF id [x] + callsE id (e.step x).1 ∧
    callsE id (e.step x).1 + armedE id (e.step x).1 = callsE id e + armedE id e := by
  cases x with
  | f j => cases e <;> simp [Elem.step]
  | n y =>
    cases e with
    | op st => simp [Elem.step, callsE, armedE, countF, countF_map_n]
    | fin c =>
      cases y with
      | next v => simp [Elem.step, Fin.onNotif, countF]
      | error er =>
        have := fire_count id c
        simp only [Elem.step, Fin.onNotif, callsE, armedE, countF] at this ⊢
        omega
      | complete =>
        have := fire_count id c
        simp only [Elem.step, Fin.onNotif, callsE, armedE, countF] at this ⊢
        omega

theorem elem_run_count (id : Nat) (e : Elem) (s : List FOut) :
    countF id (e.run s).2 + callsE id e = countF id s + callsE id (e.run s).1 ∧
    callsE id (e.run s).1 + armedE id (e.run s).1 = callsE id e + armedE id e := by
  induction s generalizing e with
  | nil => simp [Elem.run]
  | cons x r ih =>
    have h1 := elem_step_count id e x
    have h2 := ih (e.step x).1
    simp only [Elem.run, countF_append]
    have hx : countF id (x :: r) = countF id [x] + countF id r := by
      rw [← countF_append]; rfl
    rw [hx]
    omega

theorem callsOf_cons (id : Nat) (e : Elem) (r : List Elem) :
    callsOf id (e :: r) = callsE id e + callsOf id r := by
  cases e <;> simp [callsOf, callsE]

theorem armedOf_cons (id : Nat) (e : Elem) (r : List Elem) :
    armedOf id (e :: r) = armedE id e + armedOf id r := by
  cases e <;> simp [armedOf, armedE]

theorem runElems_count (id : Nat) (ch : List Elem) (s : List FOut) :
    countF id (runElems ch s).2 + callsOf id ch = countF id s + callsOf id (runElems ch s).1 ∧
    callsOf id (runElems ch s).1 + armedOf id (runElems ch s).1 = callsOf id ch + armedOf id ch := by
  induction ch generalizing s with
  | nil => simp [runElems]
  | cons e r ih =>
    have h1 := elem_run_count id e s
    have h2 := ih (e.run s).2
    simp only [runElems, callsOf_cons, armedOf_cons]
    omega

theorem unsubFire_count (id : Nat) (ch : List Elem) :
    countF id (unsubFire ch).2 + callsOf id ch = callsOf id (unsubFire ch).1 ∧
    callsOf id (unsubFire ch).1 + armedOf id (unsubFire ch).1 = callsOf id ch + armedOf id ch := by
  induction ch with
  | nil => simp [unsubFire, countF, callsOf]
  | cons e r ih =>
    cases e with
    | op st => simpa [unsubFire, callsOf, armedOf] using ih
    | fin c =>
      have := fire_count id c
      simp only [unsubFire, callsOf, armedOf, countF_append]
      omega

theorem step_count (id : Nat) (w : World) (e : Ev) :
    countF id (w.step e).2 + callsOf id w.chain = callsOf id (w.step e).1.chain ∧
    callsOf id (w.step e).1.chain + armedOf id (w.step e).1.chain =
      callsOf id w.chain + armedOf id w.chain := by
  cases e with
  | unsub =>
    simp only [World.step]
    split
    · exact unsubFire_count id w.chain
    · simp [countF]
  | emit n =>
    cases n with
    | next v =>
      simp only [World.step]
      split
      · simp [countF]
      · have := runElems_count id w.chain [.n (.next v)]
        simpa [countF] using this
    | error er =>
      simp only [World.step]
      split
      · simp [countF]
      · split
        · have := runElems_count id w.chain [.n (.error er)]
          simpa [countF] using this
        · simp [countF]
    | complete =>
      simp only [World.step]
      split
      · simp [countF]
      · split
        · have := runElems_count id w.chain [.n .complete]
          simpa [countF] using this
        · simp [countF]

theorem run_count (id : Nat) (w : World) (evs : List Ev) :
    countF id (w.run evs).2 + callsOf id w.chain = callsOf id (w.run evs).1.chain ∧
    callsOf id (w.run evs).1.chain + armedOf id (w.run evs).1.chain =
      callsOf id w.chain + armedOf id w.chain := by
  induction evs generalizing w with
  | nil => simp [World.run, countF]
  | cons e r ih =>
    have h1 := step_count id w e
    have h2 := ih (w.step e).1
    simp only [World.run, countF_append]
    omega

/-! ### unsubscribe empties every cell -/

theorem unsubFire_armed (id : Nat) (ch : List Elem) : armedOf id (unsubFire ch).1 = 0 := by
  induction ch with
  | nil => rfl
  | cons e r ih =>
    cases e with
    | op st => simpa [unsubFire, armedOf] using ih
    | fin c =>
      obtain ⟨i, a, n⟩ := c
      cases a <;> simp [unsubFire, armedOf, Fin.fire, ih]

/-- Either the subscription value is still there, or its `unsubscribe` has
    emptied every cell. -/
def HeldOrSpent (id : Nat) (w : World) : Prop := w.held = true ∨ armedOf id w.chain = 0

theorem emit_held (w : World) (n : Notif) : (w.step (.emit n)).1.held = w.held := by
  cases n <;> simp only [World.step] <;> (split <;> try split) <;> rfl

theorem heldOrSpent_step (id : Nat) (w : World) (e : Ev) (h : HeldOrSpent id w) :
    HeldOrSpent id (w.step e).1 := by
  cases e with
  | unsub =>
    simp only [World.step]
    split
    · exact .inr (unsubFire_armed id w.chain)
    · exact h
  | emit n =>
    rcases h with h | h
    · exact .inl (by rw [emit_held]; exact h)
    · have := step_count id w (.emit n)
      exact .inr (by omega)

theorem heldOrSpent_run (id : Nat) (w : World) (evs : List Ev) (h : HeldOrSpent id w) :
    HeldOrSpent id (w.run evs).1 := by
  induction evs generalizing w with
  | nil => exact h
  | cons e r ih => exact ih _ (heldOrSpent_step id w e h)

theorem unsub_armed (id : Nat) (w : World) (h : HeldOrSpent id w) :
    armedOf id (w.step .unsub).1.chain = 0 := by
  simp only [World.step]
  split
  · exact unsubFire_armed id w.chain
  · rcases h with h | h
    · contradiction
    · exact h

theorem callsOf_append (id : Nat) (a b : List Elem) :
    callsOf id (a ++ b) = callsOf id a + callsOf id b := by
  induction a with
  | nil => simp [callsOf]
  | cons e r ih => cases e <;> simp [callsOf, ih] <;> omega

theorem armedOf_append (id : Nat) (a b : List Elem) :
    armedOf id (a ++ b) = armedOf id a + armedOf id b := by
  induction a with
  | nil => simp [armedOf]
  | cons e r ih => cases e <;> simp [armedOf, ih] <;> omega

theorem ops_calls (id : Nat) (l : List St1) :
    callsOf id (l.map Elem.op) = 0 ∧ armedOf id (l.map Elem.op) = 0 := by
  induction l with
  | nil => exact ⟨rfl, rfl⟩
  | cons a r ih => simpa [callsOf, armedOf] using ih

/-- One fresh finalizer `id` among operators: no run yet, one armed cell. -/
theorem one_fin_init (id : Nat) (up down : List St1) :
    callsOf id (World.init (up.map .op ++ .fin (Fin.new id) :: down.map .op)).chain = 0 ∧
    armedOf id (World.init (up.map .op ++ .fin (Fin.new id) :: down.map .op)).chain = 1 := by
  simp [World.init, callsOf_append, armedOf_append, ops_calls, callsOf, armedOf, Fin.new]

end Finalize
end Rx
