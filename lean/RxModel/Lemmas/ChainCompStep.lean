import RxModel.Lemmas.ChainCompMain
/-
  C07C, part 6: the invariant `MainInv` is kept by every FIFO event.
-/
set_option linter.unusedSimpArgs false
namespace Rx.T
open Rx Rx.Spec

theorem contains_zero_cons (i : Nat) (l : List Nat) (hi : i ≠ 0) :
    (i :: l).contains 0 = l.contains 0 := by
  have : (0 == i) = false := by simpa using (Ne.symm hi)
  simp only [List.contains_cons, this, Bool.false_or]

/-- Phase B is stable. -/
theorem MainInv.stepB {w0s : TW} (K : Kind w0s) (post0 : List St1) (hc : calmSt post0)
    (j : Nat) (fs : FS) (hfifo : ∀ e ∈ fs.out, FifoEv e) (e : TW.Ev) (he : FifoEv e)
    (base : TW) (preS : List St1) (evsA : List TW.Ev) (L0 : List Notif)
    (hA : ∀ e ∈ evsA, FifoEv e) (hsrc : base.src = .hot 0) (hterm : base.terminated.contains 0 = true)
    (hT : fs.t = true) (h1 : L0 <+: (evsA.foldl TW.step w0s).log) (h2 : L0 <+: (fs.out.foldl TW.step w0s).log)
    (hj : preS.length = j) :
    ∃ base' : TW, ∃ evsA' : List TW.Ev,
      (lift post0 j base preS (evsA.foldl TW.step w0s)).step e = lift post0 j base' preS (evsA'.foldl TW.step w0s) ∧
      (∀ e ∈ evsA', FifoEv e) ∧ base'.src = .hot 0 ∧ base'.terminated.contains 0 = true ∧
      (fs.step e).t = true ∧ L0 <+: (evsA'.foldl TW.step w0s).log ∧
      L0 <+: ((fs.step e).out.foldl TW.step w0s).log := by
  have hOA := K evsA hA
  cases he with
  | adv k =>
    refine ⟨base, evsA ++ [.adv k], ?_, fifo_append hA (fifo_single (.adv k)), hsrc, hterm, hT, ?_, ?_⟩
    · rw [lift_adv, foldl_snoc]
    · exact h1.trans (K.log_mono evsA _ hA (fifo_single (.adv k)))
    · exact h2.trans (K.log_mono fs.out _ hfifo (fifo_single (.adv k)))
  | run =>
    refine ⟨base, evsA ++ [.run], ?_, fifo_append hA (fifo_single .run), hsrc, hterm, hT, ?_, ?_⟩
    · rw [lift_run post0 hc j base preS _ hOA.one hj, foldl_snoc]
    · exact h1.trans (K.log_mono evsA _ hA (fifo_single .run))
    · exact h2.trans (K.log_mono fs.out _ hfifo (fifo_single .run))
  | emit i n =>
    have hfs : fs.step (.emit i n) = fs := by simp [FS.step, hT]
    rw [hfs]
    by_cases hi : i = 0
    · subst hi
      exact ⟨base, evsA, TW.step_emit_ignored _ 0 n hterm, hA, hsrc, hterm, hT, h1, h2⟩
    · rw [step_emit_other_gen (lift post0 j base preS (evsA.foldl TW.step w0s)) i n hsrc hi
        (lift_no_op2n post0 j base preS _ hOA.one)]
      split
      · exact ⟨base, evsA, rfl, hA, hsrc, hterm, hT, h1, h2⟩
      · split
        · refine ⟨{ base with terminated := i :: base.terminated }, evsA, rfl, hA, hsrc, ?_, hT, h1, h2⟩
          show (i :: base.terminated).contains 0 = true
          rw [contains_zero_cons i _ hi]; exact hterm
        · exact ⟨base, evsA, rfl, hA, hsrc, hterm, hT, h1, h2⟩

/-- Phase A: one event. -/
theorem MainInv.stepA {w0s : TW} (K : Kind w0s) (pre : List Op1) (post0 : List St1) (hc : calmSt post0)
    (j : Nat) (s : List Notif) (fs : FS) (hF : FSI (pre.map Op1.init) s fs) (e : TW.Ev) (he : FifoEv e)
    (base : TW) (preS : List St1) (hsrc : base.src = .hot 0) (hsub : base.srcSubscribed = true)
    (hterm : base.terminated.contains 0 = fs.t)
    (hopen : fs.t = false → base.srcAlive = true ∧ preS = fs.ps)
    (hj : preS.length = j) (hcp : calmSt preS) :
    (∃ base' preS', (lift post0 j base preS (fs.out.foldl TW.step w0s)).step e
          = lift post0 j base' preS' ((fs.step e).out.foldl TW.step w0s) ∧
        base'.src = .hot 0 ∧ base'.srcSubscribed = true ∧
        base'.terminated.contains 0 = (fs.step e).t ∧
        ((fs.step e).t = false → base'.srcAlive = true ∧ preS' = (fs.step e).ps) ∧
        preS'.length = j ∧ calmSt preS') ∨
    (∃ base' L0, (lift post0 j base preS (fs.out.foldl TW.step w0s)).step e
          = lift post0 j base' preS (fs.out.foldl TW.step w0s) ∧
        base'.src = .hot 0 ∧ base'.terminated.contains 0 = true ∧ (fs.step e).t = true ∧
        L0 <+: (fs.out.foldl TW.step w0s).log ∧ L0 <+: ((fs.step e).out.foldl TW.step w0s).log ∧
        deadSt (runChain post0 L0).1 = true) := by
  have hO := K fs.out hF.fifo
  cases he with
  | adv k =>
    refine Or.inl ⟨base, preS, ?_, hsrc, hsub, hterm, hopen, hj, hcp⟩
    show _ = lift post0 j base preS ((fs.out ++ [TW.Ev.adv k]).foldl TW.step w0s)
    rw [lift_adv, foldl_snoc]
  | run =>
    refine Or.inl ⟨base, preS, ?_, hsrc, hsub, hterm, hopen, hj, hcp⟩
    show _ = lift post0 j base preS ((fs.out ++ [TW.Ev.run]).foldl TW.step w0s)
    rw [lift_run post0 hc j base preS _ hO.one hj, foldl_snoc]
  | emit i n =>
    by_cases hi : i = 0
    · subst hi
      cases hT : fs.t with
      | true =>
        have hfs : fs.step (.emit 0 n) = fs := by simp [FS.step, hT]
        rw [hfs]
        rw [hT] at hterm
        exact Or.inl ⟨base, preS, TW.step_emit_ignored _ 0 n hterm, hsrc, hsub, by rw [hterm, hT],
          hopen, hj, hcp⟩
      | false =>
        obtain ⟨hal, rfl⟩ := hopen hT
        rw [hT] at hterm
        have hts : terminated s = false := by rw [← hF.t, hT]
        have hfs : fs.step (.emit 0 n) =
            { ps := (runChain fs.ps [n]).1, t := n.isTerm,
              out := fs.out ++ (runChain fs.ps [n]).2.map (TW.Ev.emit 0) } := by
          simp [FS.step, hT]
        rw [hfs]
        -- the total script of the one-stage world stays well formed
        have hwf : WF (script fs.out ++ (runChain fs.ps [n]).2) := by
          have h1 := runChain_init_wf pre (gate s ++ [n]) (by rw [← gate_snoc s n hts]; exact WF_gate _)
          rw [runChain_append, ← hF.ps, ← hF.out] at h1
          exact h1
        have hpush := fun b => K.push_head post0 hc j b fs.ps hcp hj fs.out hF.fifo n hwf
        have hO' := K (fs.out ++ (runChain fs.ps [n]).2.map (TW.Ev.emit 0))
          (fifo_append hF.fifo (fifo_emits _))
        have hlen : (runChain fs.ps [n]).1.length = j := by rw [runChain_length]; exact hj
        have hcalm : calmSt (runChain fs.ps [n]).1 := calmSt_runChain _ _ hcp
        cases hn : n.isTerm with
        | false =>
          obtain ⟨v, rfl⟩ : ∃ v, n = .next v := by
            cases n with
            | next v => exact ⟨v, rfl⟩
            | _ => simp [Notif.isTerm] at hn
          rw [TW.step_emit_next (lift post0 j base fs.ps (fs.out.foldl TW.step w0s)) 0 v hsrc hterm hsub hal,
            hpush base, deliverNotifiers_noop _ 0 _ (lift_no_op2n post0 j base _ _ hO'.one)]
          exact Or.inl ⟨base, _, rfl, hsrc, hsub, hterm, fun _ => ⟨hal, rfl⟩, hlen, hcalm⟩
        | true =>
          rw [TW.step_emit_term (lift post0 j base fs.ps (fs.out.foldl TW.step w0s)) 0 n hn hsrc hterm hsub hal]
          simp only []
          have e1 : ({ lift post0 j base fs.ps (fs.out.foldl TW.step w0s) with
                terminated := 0 :: (lift post0 j base fs.ps (fs.out.foldl TW.step w0s)).terminated,
                srcAlive := false } : TW)
              = lift post0 j { base with terminated := 0 :: base.terminated, srcAlive := false } fs.ps
                  (fs.out.foldl TW.step w0s) := rfl
          rw [e1, hpush, deliverNotifiers_noop _ 0 _ (lift_no_op2n post0 j _ _ _ hO'.one)]
          refine Or.inl ⟨{ base with terminated := 0 :: base.terminated, srcAlive := false }, _, rfl, hsrc, hsub,
            by simp [hn], ?_, hlen, hcalm⟩
          intro h; simp at h
    · have hfs : fs.step (.emit i n) = fs := by simp [FS.step, hi]
      rw [hfs]
      rw [step_emit_other_gen (lift post0 j base preS (fs.out.foldl TW.step w0s)) i n hsrc hi
        (lift_no_op2n post0 j base preS _ hO.one)]
      split
      · exact Or.inl ⟨base, preS, rfl, hsrc, hsub, hterm, hopen, hj, hcp⟩
      · split
        · refine Or.inl ⟨{ base with terminated := i :: base.terminated }, preS, rfl, hsrc, hsub, ?_, hopen, hj, hcp⟩
          show (i :: base.terminated).contains 0 = fs.t
          rw [contains_zero_cons i _ hi]; exact hterm
        · exact Or.inl ⟨base, preS, rfl, hsrc, hsub, hterm, hopen, hj, hcp⟩

end Rx.T
