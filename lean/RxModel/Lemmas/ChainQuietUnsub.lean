import RxModel.Lemmas.ChainQuietIdle
/-
  C02 / C17 over the chain model, part 16: the shape of `unsubFrom`: it only
  cancels handles, clears slots and walks down until a subscribe_on whose task
  has not run.
-/
namespace Rx.T
open Rx

/-- What a sequence of cancellations does to the tasks. -/
structure CRel (s s' : Sched) : Prop where
  len : s'.tasks.length = s.tasks.length
  rel : ∀ (k : Nat) (t : Task), s.tasks[k]? = some t →
    ∃ t', s'.tasks[k]? = some t' ∧ t'.body = t.body ∧ (t'.live = true → t' = t) ∧
      (t'.hasValue = true → t.hasValue = true)

theorem CRel.refl (s : Sched) : CRel s s := ⟨rfl, fun _ t h => ⟨t, h, rfl, fun _ => rfl, id⟩⟩

theorem CRel.trans {a b c : Sched} (h1 : CRel a b) (h2 : CRel b c) : CRel a c := by
  refine ⟨h2.len.trans h1.len, ?_⟩
  intro k t ht
  obtain ⟨t', ht', hb', hl', hv'⟩ := h1.rel k t ht
  obtain ⟨t'', ht'', hb'', hl'', hv''⟩ := h2.rel k t' ht'
  refine ⟨t'', ht'', hb''.trans hb', ?_, fun h => hv' (hv'' h)⟩
  intro hl
  have e := hl'' hl
  subst e
  exact hl' hl

theorem CRel.cancel (s : Sched) (h : Nat) : CRel s (s.cancel h) := by
  refine ⟨by simp, ?_⟩
  intro k t ht
  by_cases e : k = h
  · subst e
    refine ⟨_, Sched.cancel_get_self _ _ _ ht, rfl, ?_, ?_⟩
    · intro hl; simp [Task.live] at hl
    · intro hv; simp at hv
  · exact ⟨t, by rw [Sched.cancel_get_ne _ _ _ e]; exact ht, rfl, fun _ => rfl, id⟩

def cancelAll (cs : List TaskId) (s : Sched) : Sched := cs.foldl Sched.cancel s

theorem CRel.cancelAll (cs : List TaskId) : ∀ s : Sched, CRel s (cancelAll cs s) := by
  induction cs with
  | nil => intro s; exact CRel.refl s
  | cons h cs ih => intro s; exact (CRel.cancel s h).trans (ih _)

/-- Task `k` (if it exists) will not run its body any more. -/
def DeadIn (s : Sched) (k : Nat) : Prop := ∀ t : Task, s.tasks[k]? = some t → t.live = false

theorem CRel.dead {s s' : Sched} (h : CRel s s') {k : Nat} (hd : DeadIn s k) : DeadIn s' k := by
  intro t' ht'
  have hk : k < s.tasks.length := by rw [← h.len]; exact Sched.get_lt ht'
  obtain ⟨t, hteq⟩ : ∃ t, s.tasks[k]? = some t := ⟨s.tasks[k], List.getElem?_eq_getElem hk⟩
  obtain ⟨t'', h1, _, h3, _⟩ := h.rel k t hteq
  rw [ht'] at h1; cases h1
  cases hl : t'.live with
  | false => rfl
  | true =>
    have := h3 hl
    subst this
    rw [hd t' hteq] at hl; cases hl

theorem cancelAll_other (cs : List TaskId) : ∀ (s : Sched) (k : Nat), k ∉ cs →
    (cancelAll cs s).tasks[k]? = s.tasks[k]? := by
  induction cs with
  | nil => intro s k _; rfl
  | cons h cs ih =>
    intro s k hk
    simp only [List.mem_cons, not_or] at hk
    show (cancelAll cs (s.cancel h)).tasks[k]? = _
    rw [ih _ k hk.2, Sched.cancel_get_ne _ _ _ hk.1]

theorem cancelAll_dead (cs : List TaskId) : ∀ (s : Sched) (k : Nat), k ∈ cs →
    DeadIn (cancelAll cs s) k := by
  induction cs with
  | nil => intro s k hk; cases hk
  | cons h cs ih =>
    intro s k hk
    show DeadIn (cancelAll cs (s.cancel h)) k
    by_cases e : k = h
    · subst e
      apply (CRel.cancelAll cs _).dead
      intro t ht
      exact cancel_not_live _ _ _ ht
    · simp only [List.mem_cons] at hk
      rcases hk with hk | hk
      · exact absurd hk e
      · exact ih _ k hk

def TW.cancelAll (w : TW) (cs : List TaskId) : TW := { w with sched := Rx.T.cancelAll cs w.sched }

@[simp] theorem TW.cancelAll_stages (w : TW) (cs) : (w.cancelAll cs).stages = w.stages := rfl
@[simp] theorem TW.cancelAll_info (w : TW) (cs) : (w.cancelAll cs).info = w.info := rfl
@[simp] theorem TW.cancelAll_sched (w : TW) (cs) : (w.cancelAll cs).sched = Rx.T.cancelAll cs w.sched := rfl

/-- `unsubFrom w (j + 1)` seen from stage `j`. -/
inductive UShape (w : TW) (j : Nat) (st : Stage) : TW → Prop
  | stop (h : TaskId) (hs : st.subH = some h) (hc : w.sched.handleClosed h = false)
      (hh : ∀ k : Nat, k ∈ st.handles → k = h) : UShape w j st (w.cancelAll [h])
  | go (cs0 cs1 : List TaskId) (st1 : Stage)
      (hran : ∀ h, st.subH = some h → w.sched.handleClosed h = true)
      (hcov : ∀ k : Nat, k ∈ st.handles → k ∈ cs0 ∨ k ∈ cs1)
      (h0 : ∀ k : Nat, k ∈ cs0 → k ∈ st.handles)
      (hna : st1.naOn = false) :
      UShape w j st ((((w.cancelAll cs0).unsubFrom j).cancelAll cs1).setStage j st1)
  | goKeep (cs0 : List TaskId)
      (hran : ∀ h, st.subH = some h → w.sched.handleClosed h = true)
      (hcov : ∀ k : Nat, k ∈ st.handles → k ∈ cs0)
      (h0 : ∀ k : Nat, k ∈ cs0 → k ∈ st.handles)
      (hna : st.naOn = false) :
      UShape w j st ((w.cancelAll cs0).unsubFrom j)

theorem unsubFrom_none (w : TW) (j : Nat) (h : w.stages[j]? = none) :
    w.unsubFrom (j + 1) = w.unsubFrom j := by
  rw [TW.unsubFrom]; simp only [h]

theorem unsubFrom_shape (w : TW) (j : Nat) (st : Stage) (hst : w.stages[j]? = some st) :
    UShape w j st (w.unsubFrom (j + 1)) := by
  rw [TW.unsubFrom]
  cases st with
  | op1 o =>
    simp only [hst]
    exact UShape.goKeep [] (fun _ h => by cases h) (fun _ h => by cases h) (fun _ h => by cases h) rfl
  | delay d alive multi =>
    simp only [hst]
    exact UShape.go [] (multi.getD []) (.delay d alive none) (fun _ h => by cases h)
      (fun k hk => Or.inr hk) (fun _ h => by cases h) rfl
  | observeOn alive multi =>
    simp only [hst]
    exact UShape.go [] (multi.getD []) (.observeOn alive none) (fun _ h => by cases h)
      (fun k hk => Or.inr hk) (fun _ h => by cases h) rfl
  | subscribeOn delay t =>
    cases t with
    | none =>
      simp only [hst]
      exact UShape.goKeep [] (fun _ h => by cases h) (fun _ h => by cases h) (fun _ h => by cases h) rfl
    | some h =>
      simp only [hst]
      cases hc : w.sched.handleClosed h with
      | false =>
        simp only [Bool.false_eq_true, if_false]
        exact UShape.stop h rfl hc (fun k hk => by simpa [Stage.handles] using hk)
      | true =>
        simp only [if_true]
        exact UShape.goKeep [h] (fun h' e => by cases e; exact hc)
          (fun k hk => by simpa [Stage.handles] using hk)
          (fun k hk => by simpa [Stage.handles] using hk) rfl
  | debounce d alive tr handler =>
    simp only [hst]
    cases handler with
    | none =>
      exact UShape.go [] [] (.debounce d alive tr none) (fun _ h => by cases h)
        (fun k hk => Or.inr hk) (fun _ h => by cases h) rfl
    | some h =>
      exact UShape.go [] [h] (.debounce d alive tr none) (fun _ h => by cases h)
        (fun k hk => Or.inr hk) (fun _ h => by cases h) rfl
  | throttle d e alive tr handler =>
    simp only [hst]
    cases handler with
    | none =>
      exact UShape.go [] [] (.throttle d e alive tr none) (fun _ h => by cases h)
        (fun k hk => Or.inr hk) (fun _ h => by cases h) rfl
    | some h =>
      exact UShape.go [] [h] (.throttle d e alive tr none) (fun _ h => by cases h)
        (fun k hk => Or.inr hk) (fun _ h => by cases h) rfl
  | throttleW d e alive tr =>
    simp only [hst]
    exact UShape.goKeep [] (fun _ h => by cases h) (fun _ h => by cases h) (fun _ h => by cases h) rfl
  | bufTime d c alive data t =>
    cases t with
    | none =>
      simp only [hst]
      exact UShape.goKeep [] (fun _ h => by cases h) (fun _ h => by cases h) (fun _ h => by cases h) rfl
    | some h =>
      simp only [hst]
      exact UShape.goKeep [h] (fun _ e => by cases e)
        (fun k hk => by simpa [Stage.handles] using hk)
        (fun k hk => by simpa [Stage.handles] using hk) rfl
  | op2n o ns na nt =>
    simp only [hst]
    cases nt with
    | none =>
      exact UShape.go [] [] (.op2n o ns false none) (fun _ h => by cases h)
        (fun k hk => Or.inr hk) (fun _ h => by cases h) rfl
    | some h =>
      exact UShape.go [] [h] (.op2n o ns false (some h)) (fun _ h => by cases h)
        (fun k hk => Or.inr hk) (fun _ h => by cases h) rfl

end Rx.T
