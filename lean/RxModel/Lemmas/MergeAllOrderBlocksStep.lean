import RxModel.Lemmas.MergeAllOrderBlocks
/-
  C05O — concat order: every external event keeps the block invariant, hence
  the tags of the log of a whole history never decrease (limit ≤ 1).
-/
namespace Rx.MergeAll

theorem startTop_blk (f : Bool) (s : St) (i : Inst)
    (hlive : ∀ p ∈ s.subs, s.dead.contains p.1 = true)
    (hr : s.queue.Pairwise (fun a b => a.tag < b.tag)) (hi : ∀ b ∈ s.queue, i.tag < b.tag)
    (hia : i.tag < s.arrivals) (hrl : ∀ a ∈ s.queue, a.tag < s.arrivals)
    (hslt : ∀ p ∈ s.subs, p.2 < s.arrivals) :
    DrainBlk s (i :: s.queue) (startTop f s i).1 (startTopL f s i) := by
  have hno : ∀ p ∈ s.subs, s.dead.contains p.1 = false → False := fun p hp hd => by
    rw [hlive p hp] at hd; cases hd
  have stop : ∀ (s' : St) (l : List Lab), s'.queue = s.queue → s'.subs = s.subs → s'.dead = s.dead →
      s'.arrivals = s.arrivals → (∀ u ∈ tagsL l, u = i.tag) → (tagsL l).Pairwise (· ≤ ·) →
      DrainBlk s (i :: s.queue) s' l := by
    intro s' l e1 e2 e3 e4 htl hmono
    refine ⟨⟨by rw [e1]; exact hr, by rw [e1, e4]; exact hrl, by rw [e2, e4]; exact hslt, ?_⟩,
      hmono, ?_, ?_⟩
    · rw [e2, e3]; intro p hp hd; exact (hno p hp hd).elim
    · intro u hu
      rw [htl u hu]
      refine ⟨⟨i, List.mem_cons_self .., rfl⟩, by rw [e1]; exact hi, by rw [e4]; exact hia, ?_⟩
      rw [e2, e3]; intro p hp hd; exact (hno p hp hd).elim
    · intro t ht hta
      refine ⟨by rw [e1]; exact fun a ha => ht a (List.mem_cons_of_mem _ ha), by rw [e4]; exact hta, ?_⟩
      rw [e2, e3]; intro p hp hd; exact (hno p hp hd).elim
  simp only [startTop, startTopL]
  have hinner : St.inner { s with started := s.started + 1 } i.k = s.inner i.k := rfl
  rw [hinner]
  cases hin : s.inner i.k with
  | hot j' =>
    simp only
    refine ⟨⟨hr, hrl, ?_, ?_⟩, by simp [tagsL], ?_, ?_⟩
    · intro p hp
      simp only [List.mem_append, List.mem_singleton] at hp
      rcases hp with hp | rfl
      · exact hslt p hp
      · exact hia
    · intro p hp hd
      simp only [List.mem_append, List.mem_singleton] at hp
      rcases hp with hp | rfl
      · exact (hno p hp hd).elim
      · exact hi
    · intro u hu
      have : u = i.tag := by simpa [tagsL] using hu
      subst this
      refine ⟨⟨i, List.mem_cons_self .., rfl⟩, hi, hia, ?_⟩
      intro p hp hd
      simp only [List.mem_append, List.mem_singleton] at hp
      rcases hp with hp | rfl
      · exact (hno p hp hd).elim
      · exact Nat.le_refl _
    · intro t ht hta
      refine ⟨fun a ha => ht a (List.mem_cons_of_mem _ ha), hta, ?_⟩
      intro p hp hd
      simp only [List.mem_append, List.mem_singleton] at hp
      rcases hp with hp | rfl
      · exact (hno p hp hd).elim
      · exact Nat.le_of_lt (ht i (List.mem_cons_self ..))
  | cold xs fin =>
    simp only
    cases fin with
    | open_ =>
      simp only
      refine stop _ _ rfl rfl rfl rfl ?_ ?_
      · intro u hu
        rw [List.append_nil, ← List.append_nil (itemsL i.tag xs), tagsL_block] at hu
        rcases mem_block _ _ _ _ hu with h | h
        · exact h
        · simp [tagsL] at h
      · rw [List.append_nil, ← List.append_nil (itemsL i.tag xs), tagsL_block]
        exact pairwise_block _ _ _ (by simp [tagsL]) (by simp [tagsL])
    | error e =>
      simp only
      refine stop _ _ rfl rfl rfl rfl ?_ ?_
      · intro u hu
        rw [tagsL_block] at hu
        rcases mem_block _ _ _ _ hu with h | h
        · exact h
        · simp [tagsL] at h
      · rw [tagsL_block]
        exact pairwise_block _ _ _ (by simp [tagsL]) (by simp [tagsL])
    | complete =>
      simp only
      have := drain_blk f s.queue { s with started := s.started + 1 } hlive hr hrl hslt
      have hge : ∀ u ∈ tagsL (drainL f { s with started := s.started + 1 } s.queue), i.tag ≤ u := by
        intro u hu
        obtain ⟨⟨a, ha, rfl⟩, _⟩ := this.src u hu
        exact Nat.le_of_lt (hi a ha)
      refine ⟨this.qs, ?_, ?_, ?_⟩
      · rw [tagsL_block]; exact pairwise_block _ _ _ this.mono hge
      · intro u hu
        rw [tagsL_block] at hu
        rcases mem_block _ _ _ _ hu with h | h
        · subst h
          exact ⟨⟨i, List.mem_cons_self .., rfl⟩, this.past i.tag hi hia⟩
        · obtain ⟨⟨a, ha, hau⟩, hb⟩ := this.src u h
          exact ⟨⟨a, List.mem_cons_of_mem _ ha, hau⟩, hb⟩
      · intro t ht hta
        exact this.past t (fun a ha => ht a (List.mem_cons_of_mem _ ha)) hta

theorem tagsL_noitems (out : List Out) (h : ∀ o ∈ out, ∀ t v, o ≠ Out.item t v) :
    tagsL (out.map Lab.out) = [] := by
  induction out with
  | nil => rfl
  | cons o r ih =>
    cases o with
    | item t v => exact absurd rfl (h _ (List.mem_cons_self ..) t v)
    | error e => simpa [tagsL] using ih (fun o ho => h o (List.mem_cons_of_mem _ ho))
    | complete => simpa [tagsL] using ih (fun o ho => h o (List.mem_cons_of_mem _ ho))

theorem Wk.weaken {s s0 : St} {q : List Inst} {s' : St} {l : List Lab}
    (hb : ∀ t, Bnd s q t → Bnd s0 q t) (h : Wk s0 q s' l) : Wk s q s' l :=
  ⟨h.mono, h.bnd, fun t ht => h.past t (hb t ht)⟩

theorem live_unique {subs : List (Nat × Nat)} {dead : List Nat} (h : liveOf subs dead ≤ 1)
    {p p' : Nat × Nat} (hp : p ∈ subs) (hp' : p' ∈ subs) (hd : dead.contains p.1 = false)
    (hd' : dead.contains p'.1 = false) : p = p' := by
  unfold liveOf at h
  have m : p ∈ subs.filter (fun p => !dead.contains p.1) := List.mem_filter.mpr ⟨hp, by show (!dead.contains p.1) = true; rw [hd]; rfl⟩
  have m' : p' ∈ subs.filter (fun p => !dead.contains p.1) := List.mem_filter.mpr ⟨hp', by show (!dead.contains p'.1) = true; rw [hd']; rfl⟩
  generalize subs.filter (fun p => !dead.contains p.1) = F at h m m'
  match F, h, m, m' with
  | [a], _, m, m' =>
    simp only [List.mem_singleton] at m m'
    rw [m, m']
  | _ :: _ :: _, h, _, _ => simp at h

theorem completeAll_conc (f : Bool) (ts : List (Nat × Nat)) : ∀ s : St,
    (completeAll f s ts).1.concurrent = s.concurrent := by
  induction ts with
  | nil => intro s; rfl
  | cons p r ih =>
    intro s
    simp only [completeAll]
    have h1 : (innerComplete f s).1.concurrent = s.concurrent := by
      unfold innerComplete; split
      · exact (drain_frame f s.queue s).1
      · rfl
    split
    · exact h1
    · rw [ih, h1]

theorem stepG_conc (f : Bool) (s : St) (ev : Ev) : (stepG f s ev).1.concurrent = s.concurrent := by
  unfold stepG
  split
  · rfl
  · cases ev with
    | outerNext k =>
      simp only [outerNext]
      split
      · rfl
      · split
        · rfl
        · split
          · unfold startTop
            simp only
            split
            · rfl
            · split
              · rfl
              · rfl
              · exact (drain_frame f s.queue _).1
          · rfl
    | outerError e => simp only [outerError]; split; rfl; split <;> rfl
    | outerComplete =>
      simp only [outerComplete]; split; rfl; split
      · split <;> rfl
      · rfl
    | innerNext j v => simp only [hotNext]; split <;> rfl
    | innerError j e =>
      simp only [hotError]; split
      · rfl
      · exact (errorAll_sub e _ _).2.1
    | innerComplete j =>
      simp only [hotComplete]; split
      · rfl
      · exact completeAll_conc f _ _
    | unsub => rfl

/-- Per event: the order facts and the tag discipline. -/
theorem stepG_blk_aux (f : Bool) (s : St) (ev : Ev) (h : Blk s 0) :
    QS (stepG f s ev).1 (stepG f s ev).1.queue ∧
    Wk s s.queue (stepG f s ev).1 (stepL f s ev) := by
  unfold stepG stepL
  by_cases hst : s.stuck = true
  · rw [if_pos hst, if_pos hst]; exact ⟨h.qs, Wk.notags rfl (fun _ ht => ht)⟩
  · rw [if_neg hst, if_neg hst]
    have hq := h.qs
    have hliv := h.g.liv; have hle := h.g.le; have hconc := h.conc
    cases ev with
    | outerNext k =>
      simp only [outerNext, outerNextL]
      by_cases ho : (!s.outerOpen) = true
      · rw [if_pos ho, if_pos ho]; exact ⟨h.qs, Wk.notags rfl (fun _ ht => ht)⟩
      · rw [if_neg ho, if_neg ho]
        by_cases ha : (!s.alive) = true
        · rw [if_pos ha, if_pos ha]
          exact ⟨⟨hq.sorted, fun i hi => Nat.lt_succ_of_lt (hq.qlt i hi),
            fun p hp => Nat.lt_succ_of_lt (hq.slt p hp), hq.lq⟩,
            Wk.notags rfl (fun t ht => ⟨ht.1, Nat.lt_succ_of_lt ht.2.1, ht.2.2⟩)⟩
        · rw [if_neg ha, if_neg ha]
          by_cases hlt : s.subscribed < s.concurrent
          · rw [if_pos hlt, if_pos hlt]
            have hqe : s.queue = [] := by
              cases hqq : s.queue with
              | nil => rfl
              | cons a r => have := h.g.full (by simp [hqq]); omega
            have hl0 : live s = 0 := by omega
            have hb := startTop_blk f
              { s with arrivals := s.arrivals + 1, subscribed := s.subscribed + 1 } ⟨s.arrivals, k⟩
              (liveOf_zero hl0) hq.sorted (fun b hb => by rw [hqe] at hb; cases hb)
              (Nat.lt_succ_self _) (fun a ha => Nat.lt_succ_of_lt (hq.qlt a ha))
              (fun p hp => Nat.lt_succ_of_lt (hq.slt p hp))
            refine ⟨hb.qs, ?_, ?_, ?_⟩
            · simp only [tagsL]; exact hb.mono
            · intro u hu; simp only [tagsL] at hu; exact (hb.src u hu).2
            · intro t ht
              have hall : ∀ a ∈ (⟨s.arrivals, k⟩ : Inst) :: s.queue, t < a.tag := by
                intro a ha
                simp only [List.mem_cons] at ha
                rcases ha with rfl | ha
                · exact ht.2.1
                · exact ht.1 a ha
              refine ⟨?_, hb.past t hall (Nat.lt_succ_of_lt ht.2.1)⟩
              intro u hu
              simp only [tagsL] at hu
              obtain ⟨⟨a, ha, rfl⟩, _⟩ := hb.src u hu
              exact Nat.le_of_lt (hall a ha)
          · rw [if_neg hlt, if_neg hlt]
            refine ⟨⟨?_, ?_, fun p hp => Nat.lt_succ_of_lt (hq.slt p hp), ?_⟩, Wk.notags rfl ?_⟩
            · rw [List.pairwise_append]
              refine ⟨hq.sorted, by simp, ?_⟩
              intro a ha b hb
              simp only [List.mem_singleton] at hb
              subst hb
              exact hq.qlt a ha
            · intro a ha
              simp only [List.mem_append, List.mem_singleton] at ha
              rcases ha with ha | rfl
              · exact Nat.lt_succ_of_lt (hq.qlt a ha)
              · exact Nat.lt_succ_self _
            · intro p hp hd a ha
              simp only [List.mem_append, List.mem_singleton] at ha
              rcases ha with ha | rfl
              · exact hq.lq p hp hd a ha
              · exact hq.slt p hp
            · intro t ht
              refine ⟨?_, Nat.lt_succ_of_lt ht.2.1, ht.2.2⟩
              intro a ha
              simp only [List.mem_append, List.mem_singleton] at ha
              rcases ha with ha | rfl
              · exact ht.1 a ha
              · exact ht.2.1
    | outerError e =>
      simp only [outerError]
      split
      · exact ⟨h.qs, Wk.notags rfl (fun _ ht => ht)⟩
      · split
        · exact ⟨⟨hq.sorted, hq.qlt, hq.slt, hq.lq⟩, Wk.notags rfl (fun _ ht => ht)⟩
        · exact ⟨⟨hq.sorted, hq.qlt, hq.slt, hq.lq⟩, Wk.notags rfl (fun _ ht => ht)⟩
    | outerComplete =>
      simp only [outerComplete]
      split
      · exact ⟨h.qs, Wk.notags rfl (fun _ ht => ht)⟩
      · split
        · split
          · exact ⟨⟨hq.sorted, hq.qlt, hq.slt, hq.lq⟩, Wk.notags rfl (fun _ ht => ht)⟩
          · exact ⟨⟨hq.sorted, hq.qlt, hq.slt, hq.lq⟩, Wk.notags rfl (fun _ ht => ht)⟩
        · exact ⟨⟨hq.sorted, hq.qlt, hq.slt, hq.lq⟩, Wk.notags rfl (fun _ ht => ht)⟩
    | innerNext j v =>
      simp only [hotNext]
      by_cases hd : s.dead.contains j = true
      · rw [if_pos hd]; exact ⟨h.qs, Wk.notags rfl (fun _ ht => ht)⟩
      · rw [if_neg hd]
        refine ⟨h.qs, ?_⟩
        simp only
        by_cases ha : s.alive = true
        · rw [if_pos ha]
          have hd' : s.dead.contains j = false := by simpa using hd
          have htake := liveOf_take s.subs s.dead j hd'
          have hlen : (targets s j).length ≤ 1 := by
            simp only [live, targets] at hliv ⊢; omega
          have hl1 : liveOf s.subs s.dead ≤ 1 := by simp only [live] at hliv; omega
          have hmem : ∀ p ∈ targets s j, p ∈ s.subs ∧ s.dead.contains p.1 = false := by
            intro p hp
            have := List.mem_filter.mp hp
            have hj : p.1 = j := by simpa using this.2
            exact ⟨this.1, by rw [hj]; exact hd'⟩
          refine ⟨?_, ?_, ?_⟩
          · rw [tagsL_map_items]
            match hT : targets s j, hlen with
            | [], _ => simp
            | [a], _ => simp
            | _ :: _ :: _, hl => simp at hl
          · intro u hu
            rw [tagsL_map_items, List.mem_map] at hu
            obtain ⟨p, hp, rfl⟩ := hu
            have hp' := hmem p hp
            refine ⟨fun a ha => hq.lq p hp'.1 hp'.2 a ha, hq.slt p hp'.1, ?_⟩
            intro p2 hp2 hd2
            rw [live_unique hl1 hp'.1 hp2 hp'.2 hd2]
            exact Nat.le_refl _
          · intro t ht
            refine ⟨?_, ht⟩
            intro u hu
            rw [tagsL_map_items, List.mem_map] at hu
            obtain ⟨p, hp, rfl⟩ := hu
            have hp' := hmem p hp
            exact ht.2.2 p hp'.1 hp'.2
        · rw [if_neg ha]; exact Wk.notags rfl (fun _ ht => ht)
    | innerError j e =>
      simp only [hotError]
      by_cases hd : s.dead.contains j = true
      · rw [if_pos hd]; exact ⟨h.qs, Wk.notags rfl (fun _ ht => ht)⟩
      · rw [if_neg hd]
        have hf := errorAll_frame e (targets s j)
          { s with dead := j :: s.dead, subs := s.subs.filter (fun p => !(p.1 == j)) }
        have hsub := errorAll_sub e (targets s j)
          { s with dead := j :: s.dead, subs := s.subs.filter (fun p => !(p.1 == j)) }
        have hdead : ∀ p : Nat × Nat, (j :: s.dead).contains p.1 = false → s.dead.contains p.1 = false := by
          intro p hp
          simp only [List.contains_cons, Bool.or_eq_false_iff] at hp
          exact hp.2
        refine ⟨⟨?_, ?_, ?_, ?_⟩, Wk.notags (tagsL_noitems _ hf.2.2.2.2) ?_⟩
        · rw [hf.2.2.1]; exact hq.sorted
        · rw [hf.2.2.1, hf.2.1]; exact hq.qlt
        · rw [hf.2.2.2.1, hf.2.1]; intro p hp; exact hq.slt p (List.mem_filter.mp hp).1
        · rw [hf.2.2.2.1, hf.2.2.1, hsub.2.2]
          intro p hp hd2
          exact hq.lq p (List.mem_filter.mp hp).1 (hdead p hd2)
        · intro t ht
          refine ⟨by rw [hf.2.2.1]; exact ht.1, by rw [hf.2.1]; exact ht.2.1, ?_⟩
          rw [hf.2.2.2.1, hsub.2.2]
          intro p hp hd2
          exact ht.2.2 p (List.mem_filter.mp hp).1 (hdead p hd2)
    | innerComplete j =>
      simp only [hotComplete, hotCompleteL]
      by_cases hd : s.dead.contains j = true
      · rw [if_pos hd, if_pos hd]; exact ⟨h.qs, Wk.notags rfl (fun _ ht => ht)⟩
      · rw [if_neg hd, if_neg hd]
        have hd' : s.dead.contains j = false := by simpa using hd
        have htake := liveOf_take s.subs s.dead j hd'
        have hdead : ∀ p : Nat × Nat, (j :: s.dead).contains p.1 = false → s.dead.contains p.1 = false := by
          intro p hp
          simp only [List.contains_cons, Bool.or_eq_false_iff] at hp
          exact hp.2
        have hb0 : Blk { s with dead := j :: s.dead, subs := s.subs.filter (fun p => !(p.1 == j)) }
            (targets s j).length := by
          refine ⟨hconc, ⟨h.g.le, h.g.full, by simp only [live, targets] at hliv ⊢; omega⟩,
            ⟨hq.sorted, hq.qlt, fun p hp => hq.slt p (List.mem_filter.mp hp).1, ?_⟩⟩
          intro p hp hd2
          exact hq.lq p (List.mem_filter.mp hp).1 (hdead p hd2)
        have := completeAll_blk f (targets s j) _ hb0
        refine ⟨this.1.qs, Wk.weaken ?_ this.2⟩
        intro t ht
        refine ⟨ht.1, ht.2.1, ?_⟩
        intro p hp hd2
        exact ht.2.2 p (List.mem_filter.mp hp).1 (hdead p hd2)
    | unsub =>
      refine ⟨⟨hq.sorted, hq.qlt, by simp [unsub], by simp [unsub]⟩, Wk.notags rfl ?_⟩
      intro t ht
      exact ⟨ht.1, ht.2.1, by simp [unsub]⟩

theorem stepG_blk (f : Bool) (s : St) (ev : Ev) (h : Blk s 0) :
    Blk (stepG f s ev).1 0 ∧ Wk s s.queue (stepG f s ev).1 (stepL f s ev) := by
  have a := stepG_blk_aux f s ev h
  exact ⟨⟨by rw [stepG_conc]; exact h.conc, (stepG_fifo f s ev h.g).1, a.1⟩, a.2⟩

theorem init_blk (inners : List Inner) (n : Nat) (hn : n ≤ 1) : Blk (init inners n) 0 :=
  ⟨hn, init_ginv inners n, ⟨by simp [init], by simp [init], by simp [init], by simp [init]⟩⟩

/-- Whole histories: the tags of the log never decrease. -/
theorem runG_blk (f : Bool) (evs : List Ev) : ∀ s : St, Blk s 0 →
    Blk (runG f s evs).1 0 ∧ Wk s s.queue (runG f s evs).1 (runL f s evs) := by
  induction evs with
  | nil => intro s h; exact ⟨h, Wk.notags rfl (fun _ ht => ht)⟩
  | cons ev r ih =>
    intro s h
    have h1 := stepG_blk f s ev h
    have h2 := ih _ h1.1
    simp only [runG, runL]
    exact ⟨h2.1, h1.2.comp h2.2⟩

end Rx.MergeAll
