import RxModel.Lemmas.ChainWFBase
import RxModel.Lemmas.ChainWFSched
/-
  C01 over the chain model, part 3: one notification arriving at a stage keeps
  `Stage.OK`; the cascade keeps `Chain` (for every fuel value) and only extends
  the scheduler by benign tasks.
-/
namespace Rx.T
open Rx Rx.Spec

theorem Stage.onNotif_ext (st : Stage) (j : Nat) (n : Notif) (s : Sched) :
    s.Ext (st.onNotif j n s).2.2 := by
  cases st with
  | op1 o => exact Sched.Ext.refl s
  | delay d alive multi =>
    cases n with
    | error e => exact Sched.Ext.refl s
    | next v => exact Sched.Ext.scheduleOnce s _ _ rfl
    | complete => exact Sched.Ext.scheduleOnce s _ _ rfl
  | observeOn alive multi => exact Sched.Ext.scheduleOnce s _ _ rfl
  | subscribeOn d t => exact Sched.Ext.refl s
  | debounce d alive tr h =>
    cases n with
    | next v =>
      exact (Sched.Ext.cancelOpt s h).trans (Sched.Ext.scheduleOnce _ _ _ rfl)
    | error e => exact Sched.Ext.refl s
    | complete => exact Sched.Ext.refl s
  | throttle d e alive tr h =>
    cases n with
    | next v =>
      cases h with
      | none => exact Sched.Ext.refl s
      | some hh =>
        cases hc : s.handleClosed hh <;> simp only [Stage.onNotif, hc] <;> exact Sched.Ext.refl s
    | error e => exact Sched.Ext.cancelOpt s h
    | complete => exact Sched.Ext.cancelOpt s h
  | throttleW d e alive tr => exact Sched.Ext.refl s
  | bufTime d c alive data t =>
    cases n with
    | next v =>
      simp only [Stage.onNotif]
      repeat' split
      all_goals exact Sched.Ext.refl s
    | error e => exact Sched.Ext.refl s
    | complete => exact Sched.Ext.refl s
  | op2n st ns na nt => exact Sched.Ext.refl s

theorem WF_flushBuf (data : List Val) : WF (flushBuf data) := by
  unfold flushBuf; split <;> simp

theorem terminated_flushBuf (data : List Val) : terminated (flushBuf data) = false := by
  unfold flushBuf; split <;> simp [terminated]

theorem WF_opt_complete (tr : Option Val) :
    WF ((match tr with | some v => [Notif.next v] | none => []) ++ [Notif.complete]) := by
  cases tr <;> simp

theorem Stage.onNotif_ok (st : Stage) (j : Nat) (n : Notif) (s : Sched) {inp out : List Notif}
    (h : st.OK inp out) : (st.onNotif j n s).1.OK (inp ++ [n]) (out ++ (st.onNotif j n s).2.1) := by
  cases st with
  | op1 o =>
    obtain ⟨op, rfl, rfl⟩ := h
    have e : ∀ o : St1, (Stage.op1 o).onNotif j n s = (.op1 (o.step n).1, (o.step n).2, s) :=
      fun _ => rfl
    rw [e]
    refine ⟨op, ?_, ?_⟩
    · simp only [St1.run_append, St1.run, List.append_nil]
    · simp only [St1.run_append, St1.run, List.append_nil]
  | delay d alive multi =>
    replace h : Gate alive out := h
    cases n with
    | error e =>
      show Gate false (out ++ if alive then [.error e] else [])
      exact h.guard (WF_single _) (fun _ => rfl) (by simp)
    | next v => show Gate alive (out ++ []); simpa using h
    | complete => show Gate alive (out ++ []); simpa using h
  | observeOn alive multi =>
    replace h : Gate alive out := h
    show Gate alive (out ++ []); simpa using h
  | subscribeOn d t =>
    replace h : out = inp := h
    subst h; rfl
  | debounce d alive tr hd =>
    replace h : Gate alive out := h
    cases n with
    | next v => show Gate alive (out ++ []); simpa using h
    | error e =>
      show Gate false (out ++ if alive then [.error e] else [])
      exact h.guard (WF_single _) (fun _ => rfl) (by simp)
    | complete =>
      show Gate false (out ++ if alive then _ else [])
      exact h.guard (WF_opt_complete tr) (fun _ => rfl) (by simp)
  | throttle d e alive tr hd =>
    replace h : Gate alive out := h
    cases n with
    | next v =>
      have lead : Gate alive (out ++ if (e.hasLeading && alive) = true then [.next v] else []) := by
        cases alive with
        | false => simpa using h
        | true =>
          cases e.hasLeading with
          | false => simpa using h
          | true => exact h.push rfl (by simp) (by simp [terminated])
      cases hd with
      | none => exact lead
      | some hh =>
        cases hc : s.handleClosed hh <;> simp only [Stage.onNotif, hc]
        · show Gate alive (out ++ []); simpa using h
        · exact lead
    | error er =>
      show Gate false (out ++ if alive then [.error er] else [])
      exact h.guard (WF_single _) (fun _ => rfl) (by simp)
    | complete =>
      show Gate false (out ++ if alive then _ else [])
      exact h.guard (WF_opt_complete tr) (fun _ => rfl) (by simp)
  | throttleW d e alive tr =>
    replace h : Gate alive out := h
    show Gate alive (out ++ []); simpa using h
  | bufTime d c alive data t =>
    replace h : Gate alive out := h
    cases n with
    | next v =>
      simp only [Stage.onNotif]
      split
      · next ha =>
        split
        · split
          · show Gate alive (out ++ flushBuf _)
            exact h.push ha (WF_flushBuf _) (by simp [terminated_flushBuf])
          · show Gate alive (out ++ []); simpa using h
        · show Gate alive (out ++ []); simpa using h
      · show Gate alive (out ++ []); simpa using h
    | error e =>
      show Gate false (out ++ if alive then [.error e] else [])
      exact h.guard (WF_single _) (fun _ => rfl) (by simp)
    | complete =>
      show Gate false (out ++ if alive then flushBuf data ++ [.complete] else [])
      refine h.guard ?_ (fun _ => rfl) (by simp)
      unfold flushBuf; split <;> simp
  | op2n c ns na nt =>
    replace h : Gate c.alive out := h
    show Gate (c.step .a n).1.alive (out ++ (c.step .a n).2)
    have hd := step_disciplined c .a n
    cases ha : c.alive with
    | true => rw [ha] at h; exact h.push rfl hd.1 hd.2
    | false =>
      have := step_dead c .a n ha
      rw [this.1, this.2, ← ha]; simpa using h

theorem Stage.afterEmit_ext (st : Stage) (j : Nat) (s : Sched) : s.Ext (st.afterEmit j s).2 := by
  cases st with
  | throttleW d e alive tr => exact Sched.Ext.scheduleOnce s _ _ rfl
  | _ => exact Sched.Ext.refl s

theorem Stage.afterEmit_ok (st : Stage) (j : Nat) (s : Sched) {inp out : List Notif}
    (h : st.OK inp out) : (st.afterEmit j s).1.OK inp out := by
  cases st with
  | throttleW d e alive tr => exact h
  | _ => exact h

/-- The cascade, for every fuel value. -/
theorem cascadeF_ok (f : Nat) : ∀ (stages : List Stage) (j : Nat) (ns : List Notif) (s : Sched),
    s.Ext (cascadeF f stages j ns s).2.2 ∧
    ∀ up log, Chain up stages log →
      Chain (up ++ ns) (cascadeF f stages j ns s).1 (log ++ (cascadeF f stages j ns s).2.1) := by
  induction f with
  | zero =>
    intro stages j ns s
    refine ⟨Sched.Ext.refl s, fun up log h => ?_⟩
    simp only [cascadeF, List.append_nil]
    exact h.mono (List.sublist_append_left _ _)
  | succ f ih =>
    intro stages j ns s
    cases stages with
    | nil =>
      refine ⟨Sched.Ext.refl s, fun up log h => ?_⟩
      simp only [cascadeF]
      exact List.Sublist.append h (List.Sublist.refl _)
    | cons st rest =>
      cases ns with
      | nil =>
        refine ⟨Sched.Ext.refl s, fun up log h => ?_⟩
        simpa [cascadeF] using h
      | cons n ns =>
        have e1 := st.onNotif_ext j n s
        have o1 := fun {inp out} => st.onNotif_ok j n s (inp := inp) (out := out)
        rcases hst : st.onNotif j n s with ⟨st1, outs, s1⟩
        rw [hst] at e1 o1
        have i1 := ih rest (j + 1) outs s1
        rcases hc1 : cascadeF f rest (j + 1) outs s1 with ⟨rest1, out1, s2⟩
        rw [hc1] at i1
        have e2 := st1.afterEmit_ext j s2
        have o2 := fun {inp out} => st1.afterEmit_ok j s2 (inp := inp) (out := out)
        rcases hae : st1.afterEmit j s2 with ⟨st2, s3⟩
        rw [hae] at e2 o2
        have i2 := ih (st2 :: rest1) j ns s3
        rcases hc2 : cascadeF f (st2 :: rest1) j ns s3 with ⟨stages2, out2, s4⟩
        rw [hc2] at i2
        simp only [cascadeF, hst, hc1, hae, hc2]
        refine ⟨((e1.trans i1.1).trans e2).trans i2.1, fun up log h => ?_⟩
        obtain ⟨inp, out, h1, h2, h3⟩ := h
        have c1 := i1.2 out log h3
        have c2 : Chain (up ++ [n]) (st2 :: rest1) (log ++ out1) :=
          ⟨inp ++ [n], out ++ outs, List.Sublist.append h1 (List.Sublist.refl _), o2 (o1 h2), c1⟩
        have c3 := i2.2 _ _ c2
        simpa [List.append_assoc] using c3

theorem cascade_ok (stages : List Stage) (j : Nat) (ns : List Notif) (s : Sched) :
    s.Ext (cascade stages j ns s).2.2 ∧
    ∀ up log, Chain up stages log →
      Chain (up ++ ns) (cascade stages j ns s).1 (log ++ (cascade stages j ns s).2.1) :=
  cascadeF_ok _ stages j ns s

end Rx.T
