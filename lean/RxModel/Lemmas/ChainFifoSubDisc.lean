import RxModel.Lemmas.ChainFifoSubStage
/-
  C07 over chains with several time stages, part 3: the FIFO discipline of the tasks
  of one mover (scheduler-level facts only).

  `Disc j dl s`: every pending `emit j` task is either *fresh* (never polled: no timer
  yet, `outerDelay = dl`, woken) or *armed* (its delay timer exists, is registered, owned
  by it, due at most `now + d`; if the timer has fired the task is woken); along the
  spawn order the armed tasks come first, their due times are non-decreasing and a
  fired timer is never behind an unfired one.

  * `Disc.of_sub`: every scheduler move that keeps the pending tasks as they are
    (clock advances, cancellations, new fresh tasks, polls of other tasks);
  * `Disc.arm`: the first poll of a fresh `emit j` task under `delay d`, provided no
    earlier task is still waiting to be polled;
  * `Fired` / `fireAll_fired` / `Disc.fired`: firing all due timers.
-/
namespace Rx.T
open Rx Rx.Spec

def IsE (j : Nat) (t : Task) : Prop := (∃ n, t.body = .emit j n) ∧ t.done = false ∧ t.keepRunning = true

theorem IsE_of_elig {j : Nat} {t : Task} {n : Notif} (h : Elig j t = some n) : IsE j t :=
  ⟨⟨n, (Elig_eq_some.mp h).1⟩, (Elig_eq_some.mp h).2⟩

theorem IsE.elig {j : Nat} {t : Task} (h : IsE j t) : ∃ n, Elig j t = some n := by
  obtain ⟨⟨n, hn⟩, h2⟩ := h
  exact ⟨n, Elig_eq_some.mpr ⟨hn, h2⟩⟩

theorem IsE.congr {j : Nat} {t t' : Task} (h : IsE j t) (hb : t'.body = t.body) (hd : t'.done = t.done)
    (hk : t'.keepRunning = t.keepRunning) : IsE j t' := by
  unfold IsE; rw [hb, hd, hk]; exact h

def FreshT (dl : Option Nat) (t : Task) : Prop :=
  t.outerTimer = none ∧ t.outerDelay = dl ∧ t.woken = true

def ArmedT (s : Sched) (dl : Option Nat) (k : Nat) (t : Task) : Prop :=
  t.outerDelay = none ∧ ∃ tm tr d, t.outerTimer = some tm ∧ s.timers[tm]? = some tr ∧ tr.owner = k ∧
    tr.registered = true ∧ dl = some d ∧ tr.due ≤ s.now + d ∧ (tr.fired = true → t.woken = true)

/-- Timers are kept (due time, owner, fired flag); `registered` may be set. -/
def TimersLe (s s' : Sched) : Prop :=
  ∀ (tm : Nat) tr, s.timers[tm]? = some tr → ∃ tr', s'.timers[tm]? = some tr' ∧ tr'.due = tr.due ∧
    tr'.owner = tr.owner ∧ tr'.fired = tr.fired ∧ (tr.registered = true → tr'.registered = true)

theorem TimersLe.of_eq {s s' : Sched} (e : s'.timers = s.timers) : TimersLe s s' := by
  intro tm tr h; rw [e]; exact ⟨tr, h, rfl, rfl, rfl, fun h => h⟩

theorem TimersLe.registerTimer (s : Sched) (tm : TimerId) : TimersLe s (s.registerTimer tm) := by
  intro i tr h
  rw [Sched.registerTimer_get, h]
  simp only [Option.map]
  by_cases e : tm = i
  · rw [if_pos e]; exact ⟨_, rfl, rfl, rfl, rfl, fun _ => rfl⟩
  · rw [if_neg e]; exact ⟨_, rfl, rfl, rfl, rfl, fun h => h⟩

structure Disc (j : Nat) (dl : Option Nat) (s : Sched) : Prop where
  d1 : ∀ (k : Nat) t, s.tasks[k]? = some t → IsE j t → FreshT dl t ∨ ArmedT s dl k t
  d2 : ∀ (k1 k2 : Nat) t1 t2 tm2 tr2, k1 < k2 → s.tasks[k1]? = some t1 → s.tasks[k2]? = some t2 →
    IsE j t1 → IsE j t2 → t2.outerTimer = some tm2 → s.timers[tm2]? = some tr2 →
    ∃ tm1 tr1, t1.outerTimer = some tm1 ∧ s.timers[tm1]? = some tr1 ∧ tr1.due ≤ tr2.due ∧
      (tr2.fired = true → tr1.fired = true)

theorem Disc.empty (j : Nat) (dl : Option Nat) (s : Sched) (h : s.tasks = []) : Disc j dl s :=
  ⟨fun k t hk => by rw [h] at hk; simp at hk, fun k1 k2 t1 t2 _ _ _ hk => by rw [h] at hk; simp at hk⟩

variable {j : Nat} {dl : Option Nat} {s s' : Sched}

/-- An armed task's timer in `s`. -/
theorem Disc.timer_of (D : Disc j dl s) {k : Nat} {t : Task} {tm : Nat} (hk : s.tasks[k]? = some t)
    (hE : IsE j t) (ho : t.outerTimer = some tm) : ArmedT s dl k t := by
  rcases D.d1 k t hk hE with ⟨f1, _, _⟩ | a
  · rw [f1] at ho; cases ho
  · exact a

theorem Disc.of_sub (D : Disc j dl s) (hnow : s.now ≤ s'.now) (ht : TimersLe s s')
    (hold : ∀ (k : Nat) t', s'.tasks[k]? = some t' → IsE j t' →
      (∃ t, s.tasks[k]? = some t ∧ IsE j t ∧ t'.outerDelay = t.outerDelay ∧ t'.outerTimer = t.outerTimer ∧
        (t.woken = true → t'.woken = true ∨ ∃ tm, t.outerTimer = some tm ∧ s.timerFired tm = false)) ∨
      (s.tasks.length ≤ k ∧ FreshT dl t')) : Disc j dl s' := by
  constructor
  · intro k t' hk' hE
    rcases hold k t' hk' hE with ⟨t, hk, hEt, e1, e2, hw⟩ | ⟨_, hf⟩
    · rcases D.d1 k t hk hEt with ⟨f1, f2, f3⟩ | ⟨a1, tm, tr, d, a2, a3, a4, a5, a6, a7, a8⟩
      · refine Or.inl ⟨e2.trans f1, e1.trans f2, ?_⟩
        rcases hw f3 with h | ⟨tm, h, _⟩
        · exact h
        · rw [f1] at h; cases h
      · obtain ⟨tr', b1, b2, b3, b4, b5⟩ := ht tm tr a3
        refine Or.inr ⟨e1.trans a1, tm, tr', d, e2.trans a2, b1, b3.trans a4, b5 a5, a6, by rw [b2]; omega, ?_⟩
        intro hf
        rw [b4] at hf
        rcases hw (a8 hf) with h | ⟨tm0, h, hnf⟩
        · exact h
        · rw [a2] at h; cases h
          simp [Sched.timerFired, a3, hf] at hnf
    · exact Or.inl hf
  · intro k1 k2 t1' t2' tm2 tr2' hlt h1 h2 E1 E2 ho2 htr2
    rcases hold k2 t2' h2 E2 with ⟨t2, hk2, hE2, _, e2, _⟩ | ⟨_, hf⟩
    · rcases hold k1 t1' h1 E1 with ⟨t1, hk1, hE1, _, c2, _⟩ | ⟨hge, _⟩
      · obtain ⟨_, tm, tr2, d, a2, a3, _⟩ := D.timer_of hk2 hE2 (e2 ▸ ho2)
        have : tm = tm2 := by rw [← e2, ho2] at a2; cases a2; rfl
        subst this
        obtain ⟨tm1, tr1, g1, g2, g3, g4⟩ := D.d2 k1 k2 t1 t2 tm tr2 hlt hk1 hk2 hE1 hE2 (e2 ▸ ho2) a3
        obtain ⟨tr1', b1, b2, _, b4, _⟩ := ht tm1 tr1 g2
        obtain ⟨tr2'', c1, c2', _, c4, _⟩ := ht tm tr2 a3
        rw [htr2] at c1; cases c1
        exact ⟨tm1, tr1', c2.trans g1, b1, by rw [b2, c2']; exact g3, fun hf => by
          rw [b4]; exact g4 (c4 ▸ hf)⟩
      · have := Sched.get_lt hk2; omega
    · rw [hf.1] at ho2; cases ho2

/-- The scheduler after `pollPre` armed the delay timer of task `k`. -/
def armS (s : Sched) (k : TaskId) (d : Nat) (t1 : Task) : Sched :=
  ((s.newTimer d k).1.registerTimer s.timers.length).setTask k t1

theorem armS_timers_old (s : Sched) (k d t1) (i : Nat) (tr : Timer) (h : s.timers[i]? = some tr) :
    (armS s k d t1).timers[i]? = some tr := by
  have hlt := Sched.get_lt h
  simp only [armS, Sched.setTask_timers, Sched.registerTimer_get, Sched.newTimer_get]
  rw [if_neg (show ¬ i = s.timers.length by omega), h]
  simp only [Option.map]
  rw [if_neg (show ¬ s.timers.length = i by omega)]

theorem armS_timers_new (s : Sched) (k d t1) :
    (armS s k d t1).timers[s.timers.length]? =
      some { dur := d, due := s.now + d, owner := k, registered := true } := by
  simp only [armS, Sched.setTask_timers, Sched.registerTimer_get, Sched.newTimer_get]
  simp

theorem armS_timersLe (s : Sched) (k d t1) : TimersLe s (armS s k d t1) := by
  intro i tr h
  exact ⟨tr, armS_timers_old s k d t1 i tr h, rfl, rfl, rfl, fun h => h⟩

theorem armS_now (s : Sched) (k d t1) : (armS s k d t1).now = s.now := by
  simp [armS]

theorem armS_get_ne (s : Sched) (k d t1) (i : Nat) (h : i ≠ k) : (armS s k d t1).tasks[i]? = s.tasks[i]? := by
  simp only [armS]
  rw [Sched.setTask_get_ne _ _ _ _ h]; simp

theorem armS_get_self (s : Sched) (k d t1 t) (h : s.tasks[k]? = some t) :
    (armS s k d t1).tasks[k]? = some t1 := by
  simp only [armS]
  exact Sched.setTask_get_self _ _ _ t (by simpa using h)

/-- The first poll of a fresh task of the `delay d` mover at position `j`. -/
theorem Disc.arm (D : Disc j dl s) {k : Nat} {t : Task} {d : Nat} (hk : s.tasks[k]? = some t) (hE : IsE j t)
    (hod : t.outerDelay = some d)
    (hprev : ∀ (k' : Nat) t', k' < k → s.tasks[k']? = some t' → t'.done = false → t'.woken = true → False) :
    Disc j dl (armS s k d { t with woken := false, outerDelay := none, outerTimer := some s.timers.length }) := by
  -- the task is fresh, so `dl = some d`
  have hfresh : FreshT dl t := by
    rcases D.d1 k t hk hE with f | ⟨a1, _⟩
    · exact f
    · rw [a1] at hod; cases hod
  have hdl : dl = some d := by rw [← hfresh.2.1]; exact hod
  -- the earlier pending tasks are armed
  have hearlier : ∀ (k1 : Nat) t1, k1 < k → s.tasks[k1]? = some t1 → IsE j t1 → ArmedT s dl k1 t1 := by
    intro k1 t1 hlt h1 E1
    rcases D.d1 k1 t1 h1 E1 with ⟨_, _, f3⟩ | a
    · exact (hprev k1 t1 hlt h1 E1.2.1 f3).elim
    · exact a
  constructor
  · intro k' t' hk' hE'
    by_cases e : k' = k
    · subst e
      rw [armS_get_self _ _ _ _ _ hk] at hk'; cases hk'
      exact Or.inr ⟨rfl, s.timers.length, _, d, rfl, armS_timers_new _ _ _ _, rfl, rfl, hdl,
        by rw [armS_now]; exact Nat.le_refl _, fun hf => by simp at hf⟩
    · rw [armS_get_ne _ _ _ _ _ e] at hk'
      rcases D.d1 k' t' hk' hE' with f | ⟨a1, tm, tr, d', a2, a3, a4, a5, a6, a7, a8⟩
      · exact Or.inl f
      · exact Or.inr ⟨a1, tm, tr, d', a2, armS_timers_old _ _ _ _ _ _ a3, a4, a5, a6,
          by rw [armS_now]; exact a7, a8⟩
  · intro k1 k2 t1' t2' tm2 tr2' hlt h1 h2 E1 E2 ho2 htr2
    by_cases e2 : k2 = k
    · subst e2
      rw [armS_get_self _ _ _ _ _ hk] at h2; cases h2
      simp only [Option.some.injEq] at ho2
      subst ho2
      rw [armS_timers_new] at htr2; cases htr2
      rw [armS_get_ne _ _ _ _ _ (by omega)] at h1
      obtain ⟨_, tm1, tr1, d', a2, a3, _, _, a6, a7, _⟩ := hearlier k1 t1' hlt h1 E1
      rw [hdl] at a6; cases a6
      exact ⟨tm1, tr1, a2, armS_timers_old _ _ _ _ _ _ a3, a7, fun hf => by simp at hf⟩
    · rw [armS_get_ne _ _ _ _ _ e2] at h2
      obtain ⟨_, tm, tr2, _, b2, b3, _⟩ := D.timer_of h2 E2 ho2
      rw [ho2] at b2; cases b2
      rw [armS_timers_old _ _ _ _ _ _ b3] at htr2; cases htr2
      by_cases e1 : k1 = k
      · subst e1
        obtain ⟨tm1, tr1, g1, _⟩ := D.d2 k1 k2 t t2' tm2 tr2' hlt hk h2 hE E2 ho2 b3
        rw [hfresh.1] at g1; cases g1
      · rw [armS_get_ne _ _ _ _ _ e1] at h1
        obtain ⟨tm1, tr1, g1, g2, g3, g4⟩ := D.d2 k1 k2 t1' t2' tm2 tr2' hlt h1 h2 E1 E2 ho2 b3
        exact ⟨tm1, tr1, g1, armS_timers_old _ _ _ _ _ _ g2, g3, g4⟩

/-! ### firing timers -/

/-- `s'` is `s` after the timers in `M` have been fired. -/
structure Fired (M : Nat → Prop) (s s' : Sched) : Prop where
  now : s'.now = s.now
  len : s'.tasks.length = s.tasks.length
  timers : ∀ (tm : Nat) tr, s.timers[tm]? = some tr → ∃ tr', s'.timers[tm]? = some tr' ∧ tr'.due = tr.due ∧
    tr'.owner = tr.owner ∧ tr'.registered = tr.registered ∧ (tr'.fired = true ↔ tr.fired = true ∨ M tm)
  timersNone : ∀ (tm : Nat), s.timers[tm]? = none → s'.timers[tm]? = none
  tasks : ∀ (k : Nat) t, s.tasks[k]? = some t → ∃ t', s'.tasks[k]? = some t' ∧ t'.body = t.body ∧
    t'.done = t.done ∧ t'.keepRunning = t.keepRunning ∧ t'.outerDelay = t.outerDelay ∧
    t'.outerTimer = t.outerTimer ∧ t'.rep = t.rep ∧ (t.woken = true → t'.woken = true) ∧
    (∀ tm tr, M tm → s.timers[tm]? = some tr → tr.owner = k → tr.registered = true → t'.woken = true)

theorem Fired.refl (s : Sched) : Fired (fun _ => False) s s :=
  ⟨rfl, rfl, fun _ tr h => ⟨tr, h, rfl, rfl, rfl, by simp⟩, fun _ h => h,
    fun _ t h => ⟨t, h, rfl, rfl, rfl, rfl, rfl, rfl, fun h => h, fun _ _ h => h.elim⟩⟩

/-- Firing one more timer. -/
theorem Fired.fire {M : Nat → Prop} (h : Fired M s s') (tm : TimerId) :
    Fired (fun x => M x ∨ x = tm) s (s'.fire tm) := by
  unfold Sched.fire
  cases htm : s'.timers[tm]? with
  | none =>
    simp only
    have hs : s.timers[tm]? = none := by
      cases hs : s.timers[tm]? with
      | none => rfl
      | some tr => obtain ⟨tr', h1, _⟩ := h.timers tm tr hs; rw [htm] at h1; cases h1
    refine ⟨h.now, h.len, ?_, h.timersNone, ?_⟩
    · intro i tr hi
      obtain ⟨tr', a1, a2, a3, a4, a5⟩ := h.timers i tr hi
      refine ⟨tr', a1, a2, a3, a4, a5.trans ⟨fun x => x.elim Or.inl (fun m => Or.inr (Or.inl m)), ?_⟩⟩
      rintro (x | x | x)
      · exact Or.inl x
      · exact Or.inr x
      · subst x; rw [hs] at hi; cases hi
    · intro k t hk
      obtain ⟨t', b1, b2, b3, b4, b5, b6, b7, b8, b9⟩ := h.tasks k t hk
      refine ⟨t', b1, b2, b3, b4, b5, b6, b7, b8, ?_⟩
      rintro i tr (m | m) hi ho hr
      · exact b9 i tr m hi ho hr
      · subst m; rw [hs] at hi; cases hi
  | some t0 =>
    simp only
    -- the timer in `s`
    obtain ⟨tr0, hs0⟩ : ∃ tr0, s.timers[tm]? = some tr0 := by
      cases hs : s.timers[tm]? with
      | none => have := h.timersNone tm hs; rw [htm] at this; cases this
      | some tr => exact ⟨tr, rfl⟩
    obtain ⟨t0', c1, c2, c3, c4, c5⟩ := h.timers tm tr0 hs0
    rw [htm] at c1; cases c1
    have hlt : tm < s'.timers.length := Sched.get_lt htm
    -- the timers after the move
    have htimers : ∀ (s2 : Sched), s2.timers = (s'.setTimer tm { t0 with fired := true }).timers →
        (∀ (i : Nat) tr, s.timers[i]? = some tr → ∃ tr', s2.timers[i]? = some tr' ∧ tr'.due = tr.due ∧
          tr'.owner = tr.owner ∧ tr'.registered = tr.registered ∧
          (tr'.fired = true ↔ tr.fired = true ∨ (M i ∨ i = tm))) ∧
        (∀ (i : Nat), s.timers[i]? = none → s2.timers[i]? = none) := by
      intro s2 e2
      constructor
      · intro i tr hi
        rw [e2]
        simp only [Sched.setTimer, List.getElem?_set]
        by_cases e : tm = i
        · subst e
          rw [hs0] at hi; cases hi
          rw [if_pos rfl, if_pos hlt]
          exact ⟨_, rfl, c2, c3, c4, by simp⟩
        · rw [if_neg e]
          obtain ⟨tr', a1, a2, a3, a4, a5⟩ := h.timers i tr hi
          refine ⟨tr', a1, a2, a3, a4, a5.trans ⟨fun x => x.elim Or.inl (fun m => Or.inr (Or.inl m)), ?_⟩⟩
          rintro (x | x | x)
          · exact Or.inl x
          · exact Or.inr x
          · exact absurd x.symm e
      · intro i hi
        rw [e2]
        simp only [Sched.setTimer, List.getElem?_set]
        by_cases e : tm = i
        · subst e; rw [hs0] at hi; cases hi
        · rw [if_neg e]; exact h.timersNone i hi
    -- tasks that are not touched
    have htasks_same : ∀ (k : Nat) t, s.tasks[k]? = some t →
        (t0.registered = true → t0.owner ≠ k) →
        ∃ t', s'.tasks[k]? = some t' ∧ t'.body = t.body ∧
        t'.done = t.done ∧ t'.keepRunning = t.keepRunning ∧ t'.outerDelay = t.outerDelay ∧
        t'.outerTimer = t.outerTimer ∧ t'.rep = t.rep ∧ (t.woken = true → t'.woken = true) ∧
        (∀ i tr, (M i ∨ i = tm) → s.timers[i]? = some tr → tr.owner = k → tr.registered = true →
          t'.woken = true) := by
      intro k t hk hne
      obtain ⟨t', b1, b2, b3, b4, b5, b6, b7, b8, b9⟩ := h.tasks k t hk
      refine ⟨t', b1, b2, b3, b4, b5, b6, b7, b8, ?_⟩
      rintro i tr (m | m) hi ho hr
      · exact b9 i tr m hi ho hr
      · subst m
        rw [hs0] at hi; cases hi
        exact absurd (c3.trans ho) (hne (c4.trans hr))
    by_cases hreg : t0.registered = true
    · rw [if_pos hreg]
      cases hown : (s'.setTimer tm { t0 with fired := true }).tasks[t0.owner]? with
      | none =>
        simp only
        obtain ⟨ht1, ht2⟩ := htimers _ rfl
        refine ⟨h.now, h.len, ht1, ht2, ?_⟩
        intro k t hk
        refine htasks_same k t hk (fun _ e => ?_)
        subst e
        obtain ⟨t', b1, _⟩ := h.tasks _ t hk
        simp only [Sched.setTimer_tasks] at hown
        rw [hown] at b1; cases b1
      | some tk =>
        simp only
        simp only [Sched.setTimer_tasks] at hown
        obtain ⟨ht1, ht2⟩ := htimers ((s'.setTimer tm { t0 with fired := true }).setTask t0.owner
          { tk with woken := true }) rfl
        refine ⟨h.now, by simp [h.len], ht1, ht2, ?_⟩
        intro k t hk
        by_cases e : k = t0.owner
        · subst e
          obtain ⟨t', b1, b2, b3, b4, b5, b6, b7, b8, b9⟩ := h.tasks _ t hk
          rw [hown] at b1; cases b1
          refine ⟨{ tk with woken := true }, ?_, b2, b3, b4, b5, b6, b7, fun _ => rfl, fun _ _ _ _ _ _ => rfl⟩
          exact Sched.setTask_get_self _ _ _ tk (by simpa using hown)
        · obtain ⟨t', b1, rest⟩ := htasks_same k t hk (fun _ e' => e (e'.symm))
          refine ⟨t', ?_, rest⟩
          rw [Sched.setTask_get_ne _ _ _ _ e]; simpa using b1
    · rw [if_neg hreg]
      obtain ⟨ht1, ht2⟩ := htimers _ rfl
      refine ⟨h.now, h.len, ht1, ht2, ?_⟩
      intro k t hk
      obtain ⟨t', b1, rest⟩ := htasks_same k t hk (fun hr => absurd hr hreg)
      exact ⟨t', by simpa using b1, rest⟩

theorem Fired.congr {M M' : Nat → Prop} (h : Fired M s s') (e : ∀ x, M x ↔ M' x) : Fired M' s s' := by
  have : M = M' := funext (fun x => propext (e x))
  rw [← this]; exact h

theorem Fired.fireAll {M : Nat → Prop} (l : List TimerId) : ∀ {s' : Sched}, Fired M s s' →
    Fired (fun x => M x ∨ x ∈ l) s (l.foldl Sched.fire s') := by
  induction l generalizing M with
  | nil => intro s' h; exact h.congr (by simp)
  | cons a r ih =>
    intro s' h
    have := ih (h.fire a)
    exact this.congr (by intro x; simp [or_assoc])

theorem mem_dueTimers (s : Sched) (tm : Nat) :
    tm ∈ s.dueTimers ↔ ∃ tr, s.timers[tm]? = some tr ∧ tr.fired = false ∧ tr.due ≤ s.now := by
  unfold Sched.dueTimers
  rw [List.mem_filter, List.mem_range]
  constructor
  · rintro ⟨hlt, h⟩
    cases htr : s.timers[tm]? with
    | none => rw [htr] at h; cases h
    | some tr =>
      rw [htr] at h
      simp only [Bool.and_eq_true, Bool.not_eq_true', decide_eq_true_eq] at h
      exact ⟨tr, rfl, h.1, h.2⟩
  · rintro ⟨tr, htr, h1, h2⟩
    refine ⟨Sched.get_lt htr, ?_⟩
    rw [htr]; simp [h1, h2]

/-- The first half of an executor pass. -/
theorem fireAll_fired (s : Sched) :
    Fired (fun tm => ∃ tr, s.timers[tm]? = some tr ∧ tr.fired = false ∧ tr.due ≤ s.now) s
      (s.dueTimers.foldl Sched.fire s) :=
  (Fired.fireAll s.dueTimers (Fired.refl s)).congr (fun x => by simp [mem_dueTimers])

theorem Disc.fired (D : Disc j dl s)
    (h : Fired (fun tm => ∃ tr, s.timers[tm]? = some tr ∧ tr.fired = false ∧ tr.due ≤ s.now) s s') :
    Disc j dl s' := by
  -- tasks of `s'` come from tasks of `s`
  have back : ∀ (k : Nat) t', s'.tasks[k]? = some t' → ∃ t, s.tasks[k]? = some t := by
    intro k t' hk'
    have := Sched.get_lt hk'
    rw [h.len] at this
    exact ⟨_, List.getElem?_eq_getElem this⟩
  constructor
  · intro k t' hk' hE'
    obtain ⟨t, hk⟩ := back k t' hk'
    obtain ⟨t2, b1, b2, b3, b4, b5, b6, _, b8, b9⟩ := h.tasks k t hk
    rw [hk'] at b1; cases b1
    have hE : IsE j t := hE'.congr b2.symm b3.symm b4.symm
    rcases D.d1 k t hk hE with ⟨f1, f2, f3⟩ | ⟨a1, tm, tr, d, a2, a3, a4, a5, a6, a7, a8⟩
    · exact Or.inl ⟨b6.trans f1, b5.trans f2, b8 f3⟩
    · obtain ⟨tr', c1, c2, c3, c4, c5⟩ := h.timers tm tr a3
      refine Or.inr ⟨b5.trans a1, tm, tr', d, b6.trans a2, c1, c3.trans a4, c4.trans a5, a6,
        by rw [c2, h.now]; exact a7, fun hf => ?_⟩
      rcases c5.mp hf with x | x
      · exact b8 (a8 x)
      · exact b9 tm tr x a3 a4 a5
  · intro k1 k2 t1' t2' tm2 tr2' hlt h1 h2 E1 E2 ho2 htr2
    obtain ⟨t1, hk1⟩ := back k1 t1' h1
    obtain ⟨t2, hk2⟩ := back k2 t2' h2
    obtain ⟨x1, p1, p2, p3, p4, _, p6, _⟩ := h.tasks k1 t1 hk1
    rw [h1] at p1; cases p1
    obtain ⟨x2, q1, q2, q3, q4, _, q6, _⟩ := h.tasks k2 t2 hk2
    rw [h2] at q1; cases q1
    have hE1 : IsE j t1 := E1.congr p2.symm p3.symm p4.symm
    have hE2 : IsE j t2 := E2.congr q2.symm q3.symm q4.symm
    have ho2' : t2.outerTimer = some tm2 := q6 ▸ ho2
    obtain ⟨_, tm, tr2, _, b2, b3, _⟩ := D.timer_of hk2 hE2 ho2'
    rw [ho2'] at b2; cases b2
    obtain ⟨tm1, tr1, g1, g2, g3, g4⟩ := D.d2 k1 k2 t1 t2 tm2 tr2 hlt hk1 hk2 hE1 hE2 ho2' b3
    obtain ⟨tr1', c1, c2, _, _, c5⟩ := h.timers tm1 tr1 g2
    obtain ⟨tr2'', e1, e2, _, _, e5⟩ := h.timers tm2 tr2 b3
    rw [htr2] at e1; cases e1
    refine ⟨tm1, tr1', p6.trans g1, c1, by rw [c2, e2]; exact g3, fun hf => ?_⟩
    rcases e5.mp hf with x | ⟨tr, x1, x2, x3⟩
    · exact c5.mpr (Or.inl (g4 x))
    · rw [b3] at x1; cases x1
      cases hfd : tr1.fired with
      | true => exact c5.mpr (Or.inl hfd)
      | false => exact c5.mpr (Or.inr ⟨tr1, g2, hfd, by omega⟩)

end Rx.T
