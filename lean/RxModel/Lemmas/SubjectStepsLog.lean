import RxModel.Conc.SubjectSteps
/-
  Helper lemmas for Props/C06S.lean, part 2: state invariants of the step model
  that hold after ANY sequence of steps (hence under every interleaving of any
  number of threads, whatever the operations): the entries are distinct existing
  subscribers; per subscriber the log is items, at most one terminal, nothing.
-/
namespace Rx.Conc.SS
open Rx

/-! ### slots -/

theorem isOpenIn_lt {slots : List Bool} {u : Nat} (h : isOpenIn slots u = true) : u < slots.length := by
  unfold isOpenIn at h
  rw [List.getD_eq_getElem?_getD] at h
  cases hu : slots[u]? with
  | none => simp [hu] at h
  | some b => exact (List.getElem?_eq_some_iff.mp hu).1

theorem isOpenIn_set_self (slots : List Bool) (u : Nat) : isOpenIn (slots.set u false) u = false := by
  unfold isOpenIn
  rw [List.getD_eq_getElem?_getD, List.getElem?_set]
  by_cases h : u < slots.length <;> simp [h]

theorem isOpenIn_set_ne (slots : List Bool) {u w : Nat} (h : w ≠ u) :
    isOpenIn (slots.set w false) u = isOpenIn slots u := by
  unfold isOpenIn
  rw [List.getD_eq_getElem?_getD, List.getD_eq_getElem?_getD, List.getElem?_set]
  simp [h]

/-- closing a slot never opens one -/
theorem isOpenIn_set_le (slots : List Bool) (u w : Nat) (h : isOpenIn slots u = false) :
    isOpenIn (slots.set w false) u = false := by
  by_cases e : w = u
  · subst e; exact isOpenIn_set_self slots w
  · rw [isOpenIn_set_ne slots e]; exact h

theorem isOpenIn_append_lt (slots : List Bool) (b : Bool) {u : Nat} (h : u < slots.length) :
    isOpenIn (slots ++ [b]) u = isOpenIn slots u := by
  unfold isOpenIn
  rw [List.getD_eq_getElem?_getD, List.getD_eq_getElem?_getD, List.getElem?_append]
  simp [h]

/-! ### projections of the log -/

theorem proj_append (u : Nat) (a b : List Delivery) : proj u (a ++ b) = proj u a ++ proj u b := by
  simp [proj, List.filter_append]

theorem proj_cons_self (u : Nat) (n : Notif) (r : List Delivery) : proj u ((u, n) :: r) = n :: proj u r := by
  simp [proj]

theorem proj_cons_ne {u w : Nat} (h : w ≠ u) (n : Notif) (r : List Delivery) :
    proj u ((w, n) :: r) = proj u r := by
  simp [proj, h]

theorem mem_proj {u : Nat} {n : Notif} {l : List Delivery} : n ∈ proj u l ↔ (u, n) ∈ l := by
  simp only [proj, List.mem_map, List.mem_filter, beq_iff_eq]
  constructor
  · rintro ⟨⟨w, m⟩, ⟨hm, rfl⟩, rfl⟩; exact hm
  · intro h; exact ⟨(u, n), ⟨h, rfl⟩, rfl⟩

/-- appending items to an unterminated well-formed stream -/
theorem WF_append_items {a b : List Notif} (ha : WF a) (hna : b ≠ [] → terminated a = false)
    (hb : ∀ n ∈ b, n.isNext = true) : WF (a ++ b) ∧ terminated (a ++ b) = terminated a := by
  have tb : terminated b = false ∧ WF b := by
    clear hna
    induction b with
    | nil => exact ⟨rfl, trivial⟩
    | cons n r ih =>
      have hn := hb n (List.mem_cons_self ..)
      cases n with
      | next v =>
        have := ih (fun m hm => hb m (List.mem_cons_of_mem _ hm))
        exact ⟨by simpa [terminated] using this.1, by simpa using this.2⟩
      | error e => simp [Notif.isNext] at hn
      | complete => simp [Notif.isNext] at hn
  by_cases e : b = []
  · subst e; simp [ha]
  · refine ⟨WF_append ha (hna e) tb.2, ?_⟩
    rw [terminated_append, tb.1, Bool.or_false]

/-! ### the terminal loop -/

theorem termLoop_length (n : Notif) : ∀ (l : List Nat) (slots : List Bool),
    (termLoop n slots l).1.length = slots.length := by
  intro l
  induction l with
  | nil => intro slots; rfl
  | cons w r ih =>
    intro slots
    unfold termLoop
    split
    · simp only; rw [ih, List.length_set]
    · exact ih slots

/-- closed slots stay closed through a terminal broadcast -/
theorem termLoop_closed (n : Notif) (u : Nat) : ∀ (l : List Nat) (slots : List Bool),
    isOpenIn slots u = false → isOpenIn (termLoop n slots l).1 u = false := by
  intro l
  induction l with
  | nil => intro slots h; exact h
  | cons w r ih =>
    intro slots h
    unfold termLoop
    split
    · exact ih _ (isOpenIn_set_le slots u w h)
    · exact ih slots h

/-- Subscriber `u` gets nothing, or exactly the terminal once — then it was open and is closed now. -/
theorem termLoop_proj (n : Notif) (u : Nat) : ∀ (l : List Nat) (slots : List Bool),
    proj u (termLoop n slots l).2 = [] ∨
      (proj u (termLoop n slots l).2 = [n] ∧ isOpenIn slots u = true ∧
        isOpenIn (termLoop n slots l).1 u = false) := by
  intro l
  induction l with
  | nil => intro slots; exact Or.inl rfl
  | cons w r ih =>
    intro slots
    unfold termLoop
    split
    next hw =>
      simp only
      by_cases e : w = u
      · subst e
        rw [proj_cons_self]
        have hc := isOpenIn_set_self slots w
        rcases ih (slots.set w false) with h | ⟨_, h, _⟩
        · exact Or.inr ⟨by rw [h], hw, termLoop_closed n w r _ hc⟩
        · rw [hc] at h; cases h
      · rw [proj_cons_ne e]
        rcases ih (slots.set w false) with h | ⟨h1, h2, h3⟩
        · exact Or.inl h
        · exact Or.inr ⟨h1, by rwa [isOpenIn_set_ne slots e] at h2, h3⟩
    next => exact ih slots

/-- With distinct entries the lazy filter equals the eager one: exactly the entries that were
    open when the broadcast began, in list order. -/
theorem termLoop_exact (n : Notif) : ∀ (l : List Nat) (slots : List Bool), l.Nodup →
    (termLoop n slots l).2 = (l.filter (isOpenIn slots)).map (·, n) := by
  intro l
  induction l with
  | nil => intro slots _; rfl
  | cons w r ih =>
    intro slots hnd
    have ⟨hw, hr⟩ := List.nodup_cons.mp hnd
    unfold termLoop
    split
    next ho =>
      simp only
      rw [ih _ hr, List.filter_cons_of_pos ho, List.map_cons]
      congr 2
      apply List.filter_congr
      intro x hx
      have : w ≠ x := fun e => hw (e ▸ hx)
      exact isOpenIn_set_ne slots this
    next ho =>
      rw [ih _ hr, List.filter_cons_of_neg ho]

/-! ### every step appends `emits` to the log -/

theorem step_log (s : St) (x : Step) : (s.step x).log = s.log ++ s.emits x := by
  obtain ⟨obs, ch, slots, log, sizes, p⟩ := s
  cases p
  · cases x <;> cases obs <;> cases ch <;> simp [St.step, St.emits, termLoop]
    case isEmpty.some.some o c => cases o <;> simp
    case isEmpty.some.none o => cases o <;> simp
  · cases x <;> simp [St.step, St.emits]

theorem emits_next_mem {s : St} {v : Val} {d : Delivery} (h : d ∈ s.emits (.bcastNext v)) :
    d.2 = .next v ∧ d.1 ∈ s.obs.getD [] ∧ s.isOpen d.1 = true := by
  simp only [St.emits] at h
  split at h
  · cases h
  · simp only [List.mem_map, List.mem_filter] at h
    obtain ⟨w, ⟨h1, h2⟩, rfl⟩ := h
    exact ⟨rfl, h1, h2⟩

/-! ### state invariants of all step sequences -/

/-- States reachable by steps (of any threads, in any order). -/
inductive Reach : St → Prop where
  | init : Reach St.init
  | step {s : St} (x : Step) : Reach s → Reach (s.step x)

/-- every live / waiting entry is an existing subscriber and occurs once -/
structure Entries (s : St) : Prop where
  nodup : (s.obs.getD [] ++ s.chamber.getD []).Nodup
  bound : ∀ u ∈ s.obs.getD [] ++ s.chamber.getD [], u < s.slots.length

theorem Entries.step {s : St} (h : Entries s) (x : Step) : Entries (s.step x) := by
  obtain ⟨obs, ch, slots, log, sizes, p⟩ := s
  obtain ⟨hn, hb⟩ := h
  simp only at hn hb
  cases p
  case true => exact ⟨by simpa [St.step] using hn, by simpa [St.step] using hb⟩
  cases x with
  | load =>
    cases obs <;> cases ch <;> simp only [St.step, Bool.false_eq_true, if_false] <;>
      first
        | exact ⟨hn, hb⟩
        | exact ⟨by simpa using hn, by simpa using hb⟩
  | bcastNext v => exact ⟨hn, hb⟩
  | bcastTerm t =>
    cases obs with
    | none => exact ⟨hn, hb⟩
    | some o =>
      simp only [St.step, Bool.false_eq_true, if_false]
      constructor
      · simp only [Option.getD_none, List.nil_append]
        exact (List.nodup_append.mp hn).2.1
      · intro u hu
        simp only [Option.getD_none, List.nil_append] at hu
        rw [termLoop_length]
        exact hb u (List.mem_append_right _ hu)
  | takeObs =>
    simp only [St.step, Bool.false_eq_true, if_false]
    exact ⟨by simpa using (List.nodup_append.mp hn).2.1,
      fun u hu => hb u (List.mem_append_right _ (by simpa using hu))⟩
  | takeChamber =>
    simp only [St.step, Bool.false_eq_true, if_false]
    exact ⟨by simpa using (List.nodup_append.mp hn).1,
      fun u hu => hb u (List.mem_append_left _ (by simpa using hu))⟩
  | push =>
    cases ch with
    | none =>
      simp only [St.step, Bool.false_eq_true, if_false]
      refine ⟨hn, fun u hu => ?_⟩
      have := hb u hu
      simp only [List.length_append, List.length_cons, List.length_nil]
      omega
    | some c =>
      simp only [St.step, Bool.false_eq_true, if_false]
      constructor
      · show (obs.getD [] ++ (c ++ [slots.length])).Nodup
        rw [← List.append_assoc, List.nodup_append]
        refine ⟨hn, by simp, ?_⟩
        intro a ha b hb'
        simp only [List.mem_singleton] at hb'
        subst hb'
        have := hb a (by simpa using ha)
        omega
      · intro u hu
        replace hu : u ∈ obs.getD [] ++ (c ++ [slots.length]) := hu
        rw [← List.append_assoc, List.mem_append] at hu
        simp only [List.length_append, List.length_cons, List.length_nil]
        rcases hu with hu | hu
        · have := hb u (by simpa using hu); omega
        · simp only [List.mem_singleton] at hu; omega
  | retain =>
    cases obs with
    | none => exact ⟨hn, hb⟩
    | some o =>
      simp only [St.step, Bool.false_eq_true, if_false]
      have hs : (o.filter (St.isOpen ⟨some o, ch, slots, log, sizes, false⟩) ++ ch.getD []).Sublist
          (o ++ ch.getD []) := List.Sublist.append List.filter_sublist (List.Sublist.refl _)
      exact ⟨hs.nodup (by simpa using hn), fun u hu => hb u (by simpa using hs.subset hu)⟩
  | closeSlot w =>
    simp only [St.step, Bool.false_eq_true, if_false]
    exact ⟨hn, fun u hu => by rw [List.length_set]; exact hb u hu⟩
  | len =>
    cases obs <;> cases ch <;> simp only [St.step, Bool.false_eq_true, if_false] <;> exact ⟨hn, hb⟩
  | isEmpty =>
    cases obs with
    | none => exact ⟨hn, hb⟩
    | some o =>
      cases ch <;> cases ho : o.isEmpty <;>
        simp only [St.step, Bool.false_eq_true, if_false, ho, if_true] <;> exact ⟨hn, hb⟩

theorem Reach.entries {s : St} (h : Reach s) : Entries s := by
  induction h with
  | init => exact ⟨by simp [St.init], by simp [St.init]⟩
  | step x _ ih => exact ih.step x

/-- Per subscriber: items, at most one terminal, nothing after it — and the terminal has
    closed the slot; a subscriber that does not exist yet has received nothing. -/
def Grammar (s : St) : Prop :=
  ∀ u, WF (proj u s.log) ∧ (terminated (proj u s.log) = true → s.isOpen u = false) ∧
    (s.slots.length ≤ u → proj u s.log = [])

end Rx.Conc.SS
