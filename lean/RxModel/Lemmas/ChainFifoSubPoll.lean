import RxModel.Lemmas.ChainFifoSubWorld
/-
  C07 over chains with several time stages, part 5: one pass of the FIFO executor.

  `DynF kd E w`: the part of the world invariant the executor works on — every task is a
  once-task of a stage, the movers sit where `kd` says, the FIFO discipline `Disc` holds
  for every mover, and the ghost histories are consistent (`ChainF` w.r.t. the pending
  lists of the scheduler).

  `Rdy l s`: the in-pass invariant of `pollAll l` — every task that is woken and not
  finished is still in the list, or was spawned after everything in the list.

  `pollTask_inv`: polling the head of the list keeps both; when the poll runs the slot
  call of a mover, the task is the FIRST pending one of that mover (`first_of_run`).
-/
namespace Rx.T
open Rx Rx.Spec

variable {kd : Nat → Option (Option Nat)} {E : List Val}

structure DynF (kd : Nat → Option (Option Nat)) (E : List Val) (w : TW) : Prop where
  good : GoodS w.sched
  kinds : Kinds kd 0 w.stages
  disc : ∀ j dl, kd j = some dl → Disc j dl w.sched
  chain : ∃ up, (items up).Sublist E ∧ ChainF (pendOf w.sched) 0 up w.stages w.log

/-- The fields no executor move touches. -/
def StatEq (w w' : TW) : Prop :=
  w'.src = w.src ∧ w'.subscribed = w.subscribed ∧ w'.srcSubscribed = w.srcSubscribed ∧
    w'.terminated = w.terminated

theorem StatEq.refl (w : TW) : StatEq w w := ⟨rfl, rfl, rfl, rfl⟩

theorem StatEq.trans {a b c : TW} (h1 : StatEq a b) (h2 : StatEq b c) : StatEq a c :=
  ⟨h2.1.trans h1.1, h2.2.1.trans h1.2.1, h2.2.2.1.trans h1.2.2.1, h2.2.2.2.trans h1.2.2.2⟩

def Rdy (l : List Nat) (s : Sched) : Prop :=
  (∀ x ∈ l, x < s.tasks.length) ∧
    ∀ (k : Nat) t, s.tasks[k]? = some t → t.woken = true → t.done = false → k ∈ l ∨ ∀ x ∈ l, x < k

theorem Rdy.not_before {k : Nat} {r : List Nat} {s : Sched} (R : Rdy (k :: r) s)
    (hp : (k :: r).Pairwise (· < ·)) {k' : Nat} {t' : Task} (hlt : k' < k) (hk' : s.tasks[k']? = some t')
    (hd : t'.done = false) (hw : t'.woken = true) : False := by
  rcases R.2 k' t' hk' hw hd with h | h
  · rcases List.mem_cons.mp h with h | h
    · omega
    · have := (List.pairwise_cons.mp hp).1 k' h; omega
  · have := h k (List.mem_cons_self ..); omega

theorem Rdy.skip {k : Nat} {r : List Nat} {s : Sched} (R : Rdy (k :: r) s)
    (h : ∀ t, s.tasks[k]? = some t → t.done = true) : Rdy r s := by
  refine ⟨fun x hx => R.1 x (List.mem_cons_of_mem _ hx), ?_⟩
  intro k' t' hk' hw hd
  rcases R.2 k' t' hk' hw hd with h' | h'
  · rcases List.mem_cons.mp h' with e | h'
    · subst e; rw [h t' hk'] at hd; cases hd
    · exact Or.inl h'
  · exact Or.inr (fun x hx => h' x (List.mem_cons_of_mem _ hx))

theorem Rdy.next {k : Nat} {r : List Nat} {s s' : Sched} (R : Rdy (k :: r) s)
    (hlen : s.tasks.length ≤ s'.tasks.length)
    (h : ∀ (k' : Nat) t', s'.tasks[k']? = some t' → t'.woken = true → t'.done = false →
      (k' ≠ k ∧ ∃ t, s.tasks[k']? = some t ∧ t.woken = true ∧ t.done = false) ∨ s.tasks.length ≤ k') :
    Rdy r s' := by
  refine ⟨fun x hx => Nat.lt_of_lt_of_le (R.1 x (List.mem_cons_of_mem _ hx)) hlen, ?_⟩
  intro k' t' hk' hw hd
  rcases h k' t' hk' hw hd with ⟨hne, t, ht, htw, htd⟩ | hge
  · rcases R.2 k' t ht htw htd with h' | h'
    · rcases List.mem_cons.mp h' with e | h'
      · exact absurd e hne
      · exact Or.inl h'
    · exact Or.inr (fun x hx => h' x (List.mem_cons_of_mem _ hx))
  · exact Or.inr (fun x hx => Nat.lt_of_lt_of_le (R.1 x (List.mem_cons_of_mem _ hx)) hge)

/-- The list `runLoop` polls. -/
theorem ready_rdy (s : Sched) :
    (s.liveTasks.filter fun k => match s.tasks[k]? with | some t => t.woken | none => false).Pairwise (· < ·) ∧
      Rdy (s.liveTasks.filter fun k => match s.tasks[k]? with | some t => t.woken | none => false) s := by
  refine ⟨?_, ?_, ?_⟩
  · unfold Sched.liveTasks
    exact (List.pairwise_lt_range.filter _).filter _
  · intro x hx
    have := (List.mem_filter.mp hx).1
    unfold Sched.liveTasks at this
    exact List.mem_range.mp (List.mem_filter.mp this).1
  · intro k t hk hw hd
    refine Or.inl (List.mem_filter.mpr ⟨?_, by simp [hk, hw]⟩)
    unfold Sched.liveTasks
    exact List.mem_filter.mpr ⟨List.mem_range.mpr (Sched.get_lt hk), by simp [hk, hd]⟩

/-! ### the task that runs is the first pending one -/

theorem first_of_run {j : Nat} {dl : Option Nat} {s : Sched} {k : Nat} {r : List Nat} {t : Task}
    (Dj : Disc j dl s) (R : Rdy (k :: r) s) (hp : (k :: r).Pairwise (· < ·))
    (hk : s.tasks[k]? = some t) (hE : IsE j t) (hod : t.outerDelay = none) (hor : s.outerReady t) :
    ∀ (k' : Nat) t', k' < k → s.tasks[k']? = some t' → Elig j t' = none := by
  intro k' t' hlt hk'
  cases he : Elig j t' with
  | none => rfl
  | some m =>
    exfalso
    have E' := IsE_of_elig he
    rcases Dj.d1 k' t' hk' E' with ⟨_, _, f3⟩ | ⟨_, tm', tr', d, a2, a3, _, _, a6, _, a8⟩
    · exact R.not_before hp hlt hk' E'.2.1 f3
    · rcases Dj.d1 k t hk hE with ⟨_, f2, _⟩ | ⟨_, tm, tr, _, b2, b3, _⟩
      · rw [a6, hod] at f2; cases f2
      · have hf : tr.fired = true := by
          have := hor tm b2
          simpa [Sched.timerFired, b3] using this
        obtain ⟨tm1, tr1, g1, g2, _, g4⟩ := Dj.d2 k' k t' t tm tr hlt hk' hk E' hE b2 b3
        rw [a2] at g1; cases g1
        rw [a3] at g2; cases g2
        exact R.not_before hp hlt hk' E'.2.1 (a8 (g4 hf))

/-! ### polls that do not run a body -/

theorem Disc.set_quiet {j : Nat} {dl : Option Nat} {s s' : Sched} {k : Nat} {t t1 : Task}
    (D : Disc j dl s) (hk : s.tasks[k]? = some t) (hself : s'.tasks[k]? = some t1)
    (hne : ∀ k', k' ≠ k → s'.tasks[k']? = s.tasks[k']?) (hnow : s.now ≤ s'.now) (htm : TimersLe s s')
    (h1 : IsE j t1 → IsE j t ∧ t1.outerDelay = t.outerDelay ∧ t1.outerTimer = t.outerTimer ∧
      (t.woken = true → t1.woken = true ∨ ∃ tm, t.outerTimer = some tm ∧ s.timerFired tm = false)) :
    Disc j dl s' := by
  refine D.of_sub hnow htm ?_
  intro k' t' hk' hE'
  by_cases e : k' = k
  · subst e
    rw [hself] at hk'; cases hk'
    obtain ⟨a, b, c, d⟩ := h1 hE'
    exact Or.inl ⟨t, hk, a, b, c, d⟩
  · rw [hne k' e] at hk'
    exact Or.inl ⟨t', hk', hE', rfl, rfl, fun h => Or.inl h⟩

theorem DynF.set_quiet {w : TW} {k : Nat} {r : List Nat} {s' : Sched} {t t1 : Task}
    (D : DynF kd E w) (R : Rdy (k :: r) w.sched)
    (hk : w.sched.tasks[k]? = some t) (htasks : s'.tasks = w.sched.tasks.set k t1)
    (hb : t1.body = t.body) (hr : t1.rep = t.rep)
    (hel : ∀ i n, Elig i t1 = some n → Elig i t = some n)
    (hwd : t1.woken = true → t1.done = false → False)
    (hdisc : ∀ j dl, kd j = some dl → Disc j dl s') :
    DynF kd E { w with sched := s' } ∧ Rdy r s' ∧ StatEq w { w with sched := s' } := by
  have hlt := Sched.get_lt hk
  have hself : s'.tasks[k]? = some t1 := by rw [htasks]; simp [hlt]
  have hne : ∀ k', k' ≠ k → s'.tasks[k']? = w.sched.tasks[k']? := by
    intro k' e; rw [htasks, List.getElem?_set_ne (Ne.symm e)]
  refine ⟨⟨?_, D.kinds, hdisc, ?_⟩, ?_, StatEq.refl _⟩
  · refine D.good.of_pw (fun k' t' hk' => ?_)
    by_cases e : k' = k
    · subst e; rw [hself] at hk'; cases hk'; exact Or.inl ⟨t, hk, hb, hr⟩
    · rw [hne k' e] at hk'; exact Or.inl ⟨t', hk', rfl, rfl⟩
  · obtain ⟨up, hup, hch⟩ := D.chain
    refine ⟨up, hup, hch.anti (fun i _ => PwLe.sublist ?_)⟩
    intro k' t' n hk' he
    by_cases e : k' = k
    · subst e; rw [hself] at hk'; cases hk'; exact ⟨t, hk, hel i n he⟩
    · rw [hne k' e] at hk'; exact ⟨t', hk', he⟩
  · refine R.next (by rw [htasks]; simp) ?_
    intro k' t' hk' hw hd
    by_cases e : k' = k
    · subst e; rw [hself] at hk'; cases hk'; exact (hwd hw hd).elim
    · rw [hne k' e] at hk'; exact Or.inl ⟨e, t', hk', hw, hd⟩

/-! ### the poll that runs a body -/

theorem Sched.finishOnce_timers (s : Sched) (k : TaskId) : (s.finishOnce k).timers = s.timers := by
  unfold Sched.finishOnce; split <;> rfl

theorem DynF.once {w : TW} {k : Nat} {r : List Nat} {t : Task}
    (D : DynF kd E w) (R : Rdy (k :: r) w.sched) (hp : (k :: r).Pairwise (· < ·))
    (hk : w.sched.tasks[k]? = some t) (hd : t.done = false) (hkr : t.keepRunning = true)
    (hod : t.outerDelay = none) (hor : w.sched.outerReady t) :
    DynF kd E (pollPost w k (w.sched.setTask k { t with woken := false, outerTimer := none }, .runOnce t.body)) ∧
      Rdy r (pollPost w k (w.sched.setTask k { t with woken := false, outerTimer := none }, .runOnce t.body)).sched ∧
      StatEq w (pollPost w k (w.sched.setTask k { t with woken := false, outerTimer := none }, .runOnce t.body)) := by
  have hb : t.body.rate = true := (D.good k t hk).2
  rw [pollPost_once _ _ _ _ hb]
  generalize hs1 : w.sched.setTask k { t with woken := false, outerTimer := none } = s1
  have hs1k : s1.tasks[k]? = some { t with woken := false, outerTimer := none } := by
    rw [← hs1]; exact Sched.setTask_get_self _ _ _ _ hk
  have hs1ne : ∀ k', k' ≠ k → s1.tasks[k']? = w.sched.tasks[k']? := by
    intro k' e; rw [← hs1]; exact Sched.setTask_get_ne _ _ _ _ e
  have hs1len : s1.tasks.length = w.sched.tasks.length := by rw [← hs1]; simp
  have hs1now : s1.now = w.sched.now := by rw [← hs1]; rfl
  have hs1tm : s1.timers = w.sched.timers := by rw [← hs1]; rfl
  have good1 : GoodS s1 := by rw [← hs1]; exact D.good.setTask k t _ hk rfl rfl
  obtain ⟨hf, hkk, hpw, hc⟩ := TW.runBody_stepF (kd := kd) ({ w with sched := s1 } : TW) t.body hb D.kinds
  have hstat := TW.runBody_static ({ w with sched := s1 } : TW) t.body hb
  generalize (({ w with sched := s1 } : TW).runBody t.body) = w2 at hf hkk hpw hc hstat ⊢
  replace hf : Frame kd 0 s1 w2.sched := hf
  -- task `k` after the body and after `finishOnce`
  obtain ⟨t2, hs2k, _⟩ := hf.old k _ hs1k
  have hs3k := Sched.finishOnce_get_self _ _ _ hs2k
  have hs3ne : ∀ k', k' ≠ k → (w2.sched.finishOnce k).tasks[k']? = w2.sched.tasks[k']? :=
    fun k' e => Sched.finishOnce_get_ne _ _ _ e
  -- a task of the final scheduler that is not finished: an old one (≠ k) or a new one
  have classify : ∀ (k' : Nat) t', (w2.sched.finishOnce k).tasks[k']? = some t' → t'.done = false →
      (k' ≠ k ∧ ∃ t0, w.sched.tasks[k']? = some t0 ∧ Task.Keeps t0 t') ∨
      (w.sched.tasks.length ≤ k' ∧ Task.New kd 0 t') := by
    intro k' t' hk' hd'
    have hne : k' ≠ k := by
      intro e; subst e
      rw [hs3k] at hk'; cases hk'; simp at hd'
    rw [hs3ne k' hne] at hk'
    by_cases hlt : k' < w.sched.tasks.length
    · obtain ⟨t0, ht0⟩ : ∃ t0, w.sched.tasks[k']? = some t0 := ⟨_, List.getElem?_eq_getElem hlt⟩
      obtain ⟨t'', h2, hkeep⟩ := hf.old k' t0 (by rw [hs1ne k' hne]; exact ht0)
      rw [hk'] at h2; cases h2
      exact Or.inl ⟨hne, t0, ht0, hkeep⟩
    · have hge : s1.tasks.length ≤ k' := by rw [hs1len]; omega
      exact Or.inr ⟨by omega, hf.new k' t' hk' hge⟩
  refine ⟨⟨?_, hkk, ?_, ?_⟩, ?_, ?_⟩
  · exact (good1.frame hf).finishOnce k
  · intro j dl hkd
    refine (D.disc j dl hkd).of_sub ?_ ?_ ?_
    · show w.sched.now ≤ (w2.sched.finishOnce k).now
      rw [Sched.finishOnce_now, hf.now, hs1now]; exact Nat.le_refl _
    · exact TimersLe.of_eq (by
        show (w2.sched.finishOnce k).timers = w.sched.timers
        rw [Sched.finishOnce_timers, hf.timers, hs1tm])
    · intro k' t' hk' hE'
      rcases classify k' t' hk' hE'.2.1 with ⟨_, t0, ht0, a1, a2, a3, a4, a5, _, a7⟩ | ⟨hge, b1, b2, b3, _, _, b6⟩
      · refine Or.inl ⟨t0, ht0, ?_, a4, a5, fun h => Or.inl (a3.trans h)⟩
        obtain ⟨⟨n, hn⟩, e2, e3⟩ := hE'
        exact ⟨⟨n, a1 ▸ hn⟩, a2 ▸ e2, a7 e3⟩
      · refine Or.inr ⟨hge, b3, ?_, b2⟩
        obtain ⟨⟨n, hn⟩, _⟩ := hE'
        have := (b6 j n hn).2
        rw [hkd] at this
        exact (Option.some.inj this).symm
  · obtain ⟨up, hup, hch⟩ := D.chain
    refine ⟨up, hup, ?_⟩
    have hch1 : ChainF (pendOf s1) 0 up w.stages w.log := by
      refine hch.anti (fun i _ => PwLe.sublist ?_)
      rw [← hs1]
      exact PwLe.setTask i w.sched k t _ hk (fun n hn => by
        rw [← hn]; exact (Elig_congr rfl rfl rfl).symm)
    refine hc up (pendOf (w2.sched.finishOnce k)) hch1 (fun i => (PwLe.finishOnce i w2.sched k).sublist) ?_
    intro j n dl e hkd
    show ∃ rest, pend j s1 = n :: rest ∧ (pend j (w2.sched.finishOnce k)).Sublist rest
    have hE : IsE j t := ⟨⟨n, e⟩, hd, hkr⟩
    have hfirst := first_of_run (D.disc j dl hkd) R hp hk hE hod hor
    refine ⟨pend j (s1.finishOnce k), ?_, ((hpw j n e j (Nat.le_refl j)).finishOnce_both k).sublist⟩
    refine pend_finish_first j s1 k _ n hs1k (Elig_eq_some.mpr ⟨e, hd, hkr⟩) ?_
    intro k' t' hlt hk'
    rw [hs1ne k' (by omega)] at hk'
    exact hfirst k' t' hlt hk'
  · refine R.next ?_ ?_
    · show w.sched.tasks.length ≤ (w2.sched.finishOnce k).tasks.length
      rw [Sched.finishOnce_length, ← hs1len]; exact hf.len
    · intro k' t' hk' hw hd'
      rcases classify k' t' hk' hd' with ⟨hne, t0, ht0, _, a2, a3, _⟩ | ⟨hge, _⟩
      · exact Or.inl ⟨hne, t0, ht0, a3 ▸ hw, a2 ▸ hd'⟩
      · exact Or.inr hge
  · exact hstat

/-! ### one poll -/

theorem pollTask_inv {w : TW} {k : Nat} {r : List Nat} (D : DynF kd E w) (R : Rdy (k :: r) w.sched)
    (hp : (k :: r).Pairwise (· < ·)) :
    DynF kd E (w.pollTask k) ∧ Rdy r (w.pollTask k).sched ∧ StatEq w (w.pollTask k) := by
  rw [pollTask_eq]
  have same : DynF kd E (pollPost w k (w.sched, .none)) ∧ StatEq w (pollPost w k (w.sched, .none)) :=
    ⟨⟨D.good, D.kinds, D.disc, D.chain⟩, StatEq.refl _⟩
  refine Sched.pollPre_elim w.sched k
    (motive := fun x => DynF kd E (pollPost w k x) ∧ Rdy r (pollPost w k x).sched ∧ StatEq w (pollPost w k x))
    ?_ ?_ ?_ ?_ ?_ ?_ ?_ ?_
  · intro hn
    exact ⟨same.1, R.skip (fun t ht => by rw [hn] at ht; cases ht), same.2⟩
  · intro t ht hd
    exact ⟨same.1, R.skip (fun t' ht' => by rw [ht] at ht'; cases ht'; exact hd), same.2⟩
  · -- cancelled
    intro t ht hd hkr
    refine D.set_quiet (t1 := { t with woken := false, done := true }) R ht rfl rfl rfl ?_
      (fun _ h => by simp at h) ?_
    · intro i n hn; have := (Elig_eq_some.mp hn).2.1; simp at this
    · intro j dl hkd
      refine (D.disc j dl hkd).set_quiet ht (Sched.setTask_get_self _ _ _ _ ht)
        (fun k' e => Sched.setTask_get_ne _ _ _ _ e) (Nat.le_refl _) (TimersLe.of_eq rfl) ?_
      intro hE; have := hE.2.1; simp at this
  · -- the delay timer is armed
    intro t d ht hd hkr hod
    refine D.set_quiet
      (t1 := { t with woken := false, outerDelay := none, outerTimer := some w.sched.timers.length })
      R ht (by simp [Sched.setTask]) rfl rfl ?_ (fun h => by simp at h) ?_
    · intro i n hn; rw [← hn]; exact (Elig_congr rfl rfl rfl).symm
    · intro j dl hkd
      by_cases hE : IsE j t
      · exact (D.disc j dl hkd).arm ht hE hod
          (fun k' t' hlt hk' hd' hw' => R.not_before hp hlt hk' hd' hw')
      · refine (D.disc j dl hkd).set_quiet (s' := armS w.sched k d _) ht (armS_get_self _ _ _ _ _ ht)
          (fun k' e => armS_get_ne _ _ _ _ _ e) (by rw [armS_now]; exact Nat.le_refl _)
          (armS_timersLe _ _ _ _) ?_
        intro hE'
        exact absurd (hE'.congr (t' := t) rfl rfl rfl) hE
  · -- still waiting for the delay timer
    intro t tm ht hd hkr hod hot hf
    refine D.set_quiet (t1 := { t with woken := false })
      R ht (by simp [Sched.setTask]) rfl rfl ?_ (fun h => by simp at h) ?_
    · intro i n hn; rw [← hn]; exact (Elig_congr rfl rfl rfl).symm
    · intro j dl hkd
      refine (D.disc j dl hkd).set_quiet ht
        (Sched.setTask_get_self _ _ _ t (by simpa using ht))
        (fun k' e => by rw [Sched.setTask_get_ne _ _ _ _ e]; simp) (by simp)
        (by
          intro i tr hi
          obtain ⟨tr', h1, h2⟩ := TimersLe.registerTimer w.sched tm i tr hi
          exact ⟨tr', by simpa using h1, h2⟩) ?_
      intro hE'
      exact ⟨hE'.congr (t' := t) rfl rfl rfl, rfl, rfl, fun _ => Or.inr ⟨tm, hot, hf⟩⟩
  · -- the body runs
    intro t ht hd hkr hod hor _
    exact D.once R hp ht hd hkr hod hor
  · intro t fur iv seq ht _ _ _ _ hrep _
    rw [(D.good k t ht).1] at hrep; cases hrep
  · intro t fur iv seq ht _ _ _ _ hrep _
    rw [(D.good k t ht).1] at hrep; cases hrep

/-! ### one pass -/

theorem pollAll_inv : ∀ (l : List Nat) (w : TW), l.Pairwise (· < ·) → Rdy l w.sched → DynF kd E w →
    DynF kd E (w.pollAll l) ∧ StatEq w (w.pollAll l) := by
  intro l
  induction l with
  | nil => intro w _ _ D; exact ⟨D, StatEq.refl _⟩
  | cons k r ih =>
    intro w hp R D
    have hpr : r.Pairwise (· < ·) := (List.pairwise_cons.mp hp).2
    cases ht : w.sched.tasks[k]? with
    | none =>
      have e : w.pollAll (k :: r) = w.pollAll r := by simp [TW.pollAll, ht]
      rw [e]
      exact ih w hpr (R.skip (fun t h => by rw [ht] at h; cases h)) D
    | some t =>
      cases hd : t.done with
      | true =>
        have e : w.pollAll (k :: r) = w.pollAll r := by simp [TW.pollAll, ht, hd]
        rw [e]
        exact ih w hpr (R.skip (fun t' h => by rw [ht] at h; cases h; exact hd)) D
      | false =>
        rw [TW.pollAll_cons_live w k r t ht hd]
        obtain ⟨D1, R1, S1⟩ := pollTask_inv D R hp
        obtain ⟨D2, S2⟩ := ih _ hpr R1 D1
        exact ⟨D2, S1.trans S2⟩

theorem DynF.fired {w : TW} {s' : Sched} (D : DynF kd E w)
    (h : Fired (fun tm => ∃ tr, w.sched.timers[tm]? = some tr ∧ tr.fired = false ∧ tr.due ≤ w.sched.now)
      w.sched s') : DynF kd E { w with sched := s' } := by
  have back : ∀ (k : Nat) t', s'.tasks[k]? = some t' → ∃ t, w.sched.tasks[k]? = some t ∧
      t'.body = t.body ∧ t'.done = t.done ∧ t'.keepRunning = t.keepRunning ∧ t'.rep = t.rep := by
    intro k t' hk'
    have := Sched.get_lt hk'
    rw [h.len] at this
    obtain ⟨t2, b1, b2, b3, b4, _, _, b7, _⟩ := h.tasks k _ (List.getElem?_eq_getElem this)
    rw [hk'] at b1; cases b1
    exact ⟨_, List.getElem?_eq_getElem this, b2, b3, b4, b7⟩
  refine ⟨?_, D.kinds, fun j dl hkd => (D.disc j dl hkd).fired h, ?_⟩
  · refine D.good.of_pw (fun k t' hk' => ?_)
    obtain ⟨t, ht, e1, _, _, e4⟩ := back k t' hk'
    exact Or.inl ⟨t, ht, e1, e4⟩
  · obtain ⟨up, hup, hch⟩ := D.chain
    refine ⟨up, hup, hch.anti (fun i _ => PwLe.sublist ?_)⟩
    intro k t' n hk' he
    obtain ⟨t, ht, e1, e2, e3, _⟩ := back k t' hk'
    exact ⟨t, ht, by rw [← he]; exact (Elig_congr e1 e2 e3).symm⟩

theorem runLoop_inv : ∀ (fuel : Nat) (w : TW), DynF kd E w →
    DynF kd E (TW.runLoop fuel w) ∧ StatEq w (TW.runLoop fuel w) := by
  intro fuel
  induction fuel with
  | zero => intro w D; exact ⟨D, StatEq.refl _⟩
  | succ f ih =>
    intro w D
    unfold TW.runLoop
    dsimp only
    have D1 : DynF kd E { w with sched := w.sched.dueTimers.foldl Sched.fire w.sched } :=
      D.fired (fireAll_fired w.sched)
    split
    · exact ⟨D1, StatEq.refl _⟩
    · obtain ⟨hp, R⟩ := ready_rdy (w.sched.dueTimers.foldl Sched.fire w.sched)
      obtain ⟨D2, S2⟩ := pollAll_inv _ _ hp R D1
      obtain ⟨D3, S3⟩ := ih _ D2
      exact ⟨D3, StatEq.trans (StatEq.trans (StatEq.refl _) S2) S3⟩

end Rx.T
