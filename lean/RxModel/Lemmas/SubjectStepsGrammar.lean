import RxModel.Lemmas.SubjectStepsLog
/-
  Helper lemmas for Props/C06S.lean, part 3: the per-subscriber grammar is an
  invariant of every step; reachable states of every interleaving; the log of a
  schedule is the concatenation of what its broadcast sections emitted.
-/
namespace Rx.Conc.SS
open Rx

/-- No step opens the slot of an existing subscriber, and no subscriber disappears. -/
theorem step_slots (s : St) (x : Step) :
    s.slots.length ≤ (s.step x).slots.length ∧
      ∀ u, u < s.slots.length → s.isOpen u = false → (s.step x).isOpen u = false := by
  obtain ⟨obs, ch, slots, log, sizes, p⟩ := s
  cases p
  case true => exact ⟨by simp [St.step], fun u _ h => by simpa [St.step] using h⟩
  cases x with
  | bcastTerm t =>
    cases obs with
    | none => exact ⟨Nat.le_refl _, fun u _ h => h⟩
    | some o =>
      simp only [St.step, Bool.false_eq_true, if_false, St.isOpen]
      exact ⟨by rw [termLoop_length]; exact Nat.le_refl _, fun u _ h => termLoop_closed _ u o slots h⟩
  | push =>
    cases ch <;> simp only [St.step, Bool.false_eq_true, if_false, St.isOpen] <;>
      exact ⟨by simp, fun u hu h => by rw [isOpenIn_append_lt slots _ hu]; exact h⟩
  | closeSlot w =>
    simp only [St.step, Bool.false_eq_true, if_false, St.isOpen]
    exact ⟨by rw [List.length_set]; exact Nat.le_refl _, fun u _ h => isOpenIn_set_le slots u w h⟩
  | load =>
    cases obs <;> cases ch <;> simp only [St.step, Bool.false_eq_true, if_false] <;>
      exact ⟨Nat.le_refl _, fun u _ h => h⟩
  | len =>
    cases obs <;> cases ch <;> simp only [St.step, Bool.false_eq_true, if_false] <;>
      exact ⟨Nat.le_refl _, fun u _ h => h⟩
  | isEmpty =>
    cases obs with
    | none => exact ⟨Nat.le_refl _, fun u _ h => h⟩
    | some o =>
      cases ch <;> cases ho : o.isEmpty <;>
        simp only [St.step, Bool.false_eq_true, if_false, ho, if_true] <;>
        exact ⟨Nat.le_refl _, fun u _ h => h⟩
  | retain =>
    cases obs <;> simp only [St.step, Bool.false_eq_true, if_false] <;>
      exact ⟨Nat.le_refl _, fun u _ h => h⟩
  | bcastNext v => exact ⟨Nat.le_refl _, fun u _ h => h⟩
  | takeObs => exact ⟨Nat.le_refl _, fun u _ h => h⟩
  | takeChamber => exact ⟨Nat.le_refl _, fun u _ h => h⟩

/-- What one step gives subscriber `u`: nothing; or `u`'s slot was open and it gets items only,
    or exactly one notification and its slot is closed afterwards. -/
theorem emits_proj (s : St) (x : Step) (u : Nat) :
    proj u (s.emits x) = [] ∨
      (s.isOpen u = true ∧
        ((∀ n ∈ proj u (s.emits x), n.isNext = true) ∨
          (∃ n, proj u (s.emits x) = [n] ∧ (s.step x).isOpen u = false))) := by
  cases x with
  | bcastNext v =>
    by_cases e : proj u (s.emits (.bcastNext v)) = []
    · exact Or.inl e
    · refine Or.inr ⟨?_, Or.inl ?_⟩
      · obtain ⟨n, hn⟩ := List.exists_mem_of_ne_nil _ e
        exact (emits_next_mem (mem_proj.mp hn)).2.2
      · intro n hn
        have := (emits_next_mem (mem_proj.mp hn)).1
        simp only at this
        rw [this]; rfl
  | bcastTerm t =>
    obtain ⟨obs, ch, slots, log, sizes, p⟩ := s
    cases p
    case true => exact Or.inl (by simp [St.emits, proj])
    cases obs with
    | none => exact Or.inl (by simp [St.emits, proj, termLoop])
    | some o =>
      simp only [St.emits, St.step, Bool.false_eq_true, if_false, Option.getD_some, St.isOpen]
      rcases termLoop_proj t.toNotif u o slots with h | ⟨h1, h2, h3⟩
      · exact Or.inl h
      · exact Or.inr ⟨h2, Or.inr ⟨_, h1, h3⟩⟩
  | load => exact Or.inl rfl
  | takeObs => exact Or.inl rfl
  | takeChamber => exact Or.inl rfl
  | push => exact Or.inl rfl
  | retain => exact Or.inl rfl
  | closeSlot w => exact Or.inl rfl
  | len => exact Or.inl rfl
  | isEmpty => exact Or.inl rfl

theorem Grammar.init : Grammar St.init := by
  intro u
  simp [St.init, proj, terminated]

theorem Grammar.step {s : St} (h : Grammar s) (x : Step) : Grammar (s.step x) := by
  intro u
  obtain ⟨h1, h2, h3⟩ := h u
  obtain ⟨hl, hs⟩ := step_slots s x
  have hopen : s.isOpen u = true → u < s.slots.length := isOpenIn_lt
  -- an old subscriber whose stream had ended stays closed
  have hold : terminated (proj u s.log) = true → (s.step x).isOpen u = false := by
    intro ht
    have hu : u < s.slots.length := by
      apply Nat.lt_of_not_le
      intro hle
      rw [h3 hle] at ht
      cases ht
    exact hs u hu (h2 ht)
  rw [step_log, proj_append]
  rcases emits_proj s x u with e | ⟨ho, e | ⟨n, e, hc⟩⟩
  · rw [e, List.append_nil]
    exact ⟨h1, hold, fun hle => h3 (Nat.le_trans hl hle)⟩
  · have hnt : terminated (proj u s.log) = false := by
      cases ht : terminated (proj u s.log) with
      | false => rfl
      | true => rw [h2 ht] at ho; cases ho
    have := WF_append_items h1 (fun _ => hnt) e
    refine ⟨this.1, fun ht => hold (by rw [← this.2]; exact ht), fun hle => ?_⟩
    have := hopen ho
    omega
  · have hnt : terminated (proj u s.log) = false := by
      cases ht : terminated (proj u s.log) with
      | false => rfl
      | true => rw [h2 ht] at ho; cases ho
    rw [e]
    refine ⟨WF_append h1 hnt (WF_single n), fun _ => hc, fun hle => ?_⟩
    have := hopen ho
    omega

theorem Reach.grammar {s : St} (h : Reach s) : Grammar s := by
  induction h with
  | init => exact Grammar.init
  | step x _ ih => exact ih.step x

/-! ### interleavings reach only `Reach` states, whatever the operations' step lists are -/

theorem Reach.sched1 {steps : Op → List Step} {c : Cfg} (h : Reach c.st) (i : Nat) :
    Reach (c.sched1 steps i).st := by
  unfold Cfg.sched1
  split
  · exact h
  · split
    · exact h
    · exact Reach.step _ h

theorem Reach.exec {steps : Op → List Step} (sched : List Nat) :
    ∀ {c : Cfg}, Reach c.st → Reach (exec steps c sched).st := by
  induction sched with
  | nil => intro c h; exact h
  | cons i r ih => intro c h; exact ih (h.sched1 i)

theorem Reach.runSteps (xs : List Step) : ∀ {s : St}, Reach s → Reach (s.runSteps xs) := by
  induction xs with
  | nil => intro s h; exact h
  | cons x r ih => intro s h; exact ih (Reach.step x h)

/-- The state of `sched1` in terms of `next?`. -/
theorem sched1_st (steps : Op → List Step) (c : Cfg) (i : Nat) :
    (c.sched1 steps i).st = match c.next? steps i with
      | some x => c.st.step x
      | none => c.st := by
  unfold Cfg.sched1 Cfg.next?
  cases c.ths[i]? with
  | none => rfl
  | some t =>
    simp only
    cases t.pick steps with
    | none => rfl
    | some r => rfl

theorem trace_cons (steps : Op → List Step) (c : Cfg) (i : Nat) (r : List Nat) :
    trace steps c (i :: r) = match c.next? steps i with
      | some x => (c.st, x) :: trace steps (c.sched1 steps i) r
      | none => trace steps (c.sched1 steps i) r := rfl

/-- The log after a schedule: what the executed sections emitted, in schedule order. -/
theorem exec_log (steps : Op → List Step) (sched : List Nat) : ∀ (c : Cfg),
    (exec steps c sched).st.log = c.st.log ++ (trace steps c sched).flatMap (fun p => p.1.emits p.2) := by
  induction sched with
  | nil => intro c; simp [exec, trace]
  | cons i r ih =>
    intro c
    show (exec steps (c.sched1 steps i) r).st.log = _
    rw [ih, sched1_st, trace_cons]
    cases c.next? steps i with
    | none => rfl
    | some x => simp [step_log, List.append_assoc]

/-- The states in a trace are reachable. -/
theorem trace_reach (steps : Op → List Step) (sched : List Nat) : ∀ (c : Cfg), Reach c.st →
    ∀ p ∈ trace steps c sched, Reach p.1 := by
  induction sched with
  | nil => intro c _ p hp; simp [trace] at hp
  | cons i r ih =>
    intro c hc p hp
    rw [trace_cons] at hp
    cases hn : c.next? steps i with
    | none =>
      rw [hn] at hp
      exact ih _ (hc.sched1 i) p hp
    | some x =>
      rw [hn] at hp
      simp only [List.mem_cons] at hp
      rcases hp with rfl | hp
      · exact hc
      · exact ih _ (hc.sched1 i) p hp

/-- The receivers of one section, in order. -/
theorem emits_receivers {s : St} (hr : Reach s) (x : Step) :
    (s.emits x).map (·.1) = match x with
      | .bcastNext _ | .bcastTerm _ => if s.panicked then [] else (s.obs.getD []).filter s.isOpen
      | _ => [] := by
  cases x with
  | bcastNext v =>
    simp only [St.emits]
    split <;> simp [List.map_map, Function.comp_def]
  | bcastTerm t =>
    simp only [St.emits]
    split
    · simp
    · have hnd : (s.obs.getD []).Nodup := (List.nodup_append.mp hr.entries.nodup).1
      rw [termLoop_exact _ _ _ hnd]
      simp only [List.map_map, Function.comp_def, List.map_id']
      rfl
  | load => rfl
  | takeObs => rfl
  | takeChamber => rfl
  | push => rfl
  | retain => rfl
  | closeSlot w => rfl
  | len => rfl
  | isEmpty => rfl

end Rx.Conc.SS
